(* C17, reader side: an SMT-LIB 2.6 lexer for the token classes that matter for reading symbols back
   (parentheses, simple symbols, |quoted| symbols, reserved words, numerals, decimals, #x/#b literals,
   string literals, keywords, comments), parameterised by

     lc_reserved      the reserved words (never simple symbols),
     lc_symchar       the characters of simple symbols,
     lc_white         the white-space characters,
     lc_neg_numerals  whether  -5, -5/3, -0.5  are numerals rather than symbols.

   Two instances:
     std_cfg    the SMT-LIB 2.6 reference (section 3.1): reserved words = the basic set + the command names
                of section 3.9; white space = tab, LF, CR, space; -5 is a simple symbol;
     osmt_cfg   opensmt's own lexer (src/parsers/smt2new/smt2newlexer.ll), with the reserved words, the TK_SYM
                character classes and the TK_NUM/TK_DEC shape regenerated from the .ll file (Gen_Tokens.v):
                white space = space, tab, LF (a CR outside | | is a syntax error), ' is a symbol character,
                an optional minus, a non-zero-leading digit string and optionally / and another such string, or an
                optional minus and digits '.' digits, are numbers (TK_NUM, TK_DEC).

   Definitions only; proofs are in ReaderProofs.v.  Tokens that begin with a digit are never symbols under
   either instance; their exact split (leading zeros, fractions) is not modelled beyond digits[.digits]. *)
From Coq Require Import String Ascii List Bool Arith.
From OsmtV.Print Require Import Gen_Tokens.
Import ListNotations.
Open Scope string_scope.
Open Scope nat_scope.

Definition code (c : ascii) : nat := nat_of_ascii c.

Definition c_bar : ascii := "|"%char.
Definition c_bslash : ascii := "\"%char.
Definition c_lp : ascii := "("%char.
Definition c_rp : ascii := ")"%char.
Definition c_semi : ascii := ";"%char.
Definition c_colon : ascii := ":"%char.
Definition c_hash : ascii := "#"%char.
Definition c_dq : ascii := ascii_of_nat 34.
Definition c_dot : ascii := "."%char.
Definition c_minus : ascii := "-"%char.
Definition c_slash : ascii := "/"%char.
Definition c_nl : ascii := ascii_of_nat 10.

Definition is_digit (c : ascii) : bool := (48 <=? code c) && (code c <=? 57).
Definition is_posdigit (c : ascii) : bool := (49 <=? code c) && (code c <=? 57).
Definition is_upper (c : ascii) : bool := (65 <=? code c) && (code c <=? 90).
Definition is_lower (c : ascii) : bool := (97 <=? code c) && (code c <=? 122).
Definition is_letter (c : ascii) : bool := is_upper c || is_lower c.
Definition is_hexdigit (c : ascii) : bool :=
  is_digit c || ((65 <=? code c) && (code c <=? 70)) || ((97 <=? code c) && (code c <=? 102)).
Definition is_bindigit (c : ascii) : bool := (code c =? 48) || (code c =? 49).

Fixpoint in_set (c : ascii) (s : string) : bool :=
  match s with
  | EmptyString => false
  | String d r => if Ascii.eqb c d then true else in_set c r
  end.

Fixpoint str_forallb (p : ascii -> bool) (s : string) : bool :=
  match s with EmptyString => true | String c r => p c && str_forallb p r end.
Fixpoint str_existsb (p : ascii -> bool) (s : string) : bool :=
  match s with EmptyString => false | String c r => p c || str_existsb p r end.

Definition mem_str (s : string) (l : list string) : bool := existsb (String.eqb s) l.

(* SMT-LIB 2.6, section 3.1 *)
Definition std_extra_chars : string := "~!@$%^&*_-+=<>.?/".
Definition std_symchar (c : ascii) : bool := is_letter c || is_digit c || in_set c std_extra_chars.
Definition std_white (c : ascii) : bool :=
  (code c =? 9) || (code c =? 10) || (code c =? 13) || (code c =? 32).
(* printable characters: 32..126 and 128..255 *)
Definition is_printable (c : ascii) : bool := (32 <=? code c) && negb (code c =? 127).

Definition std_reserved : list string :=
  [ "!"; "_"; "as"; "BINARY"; "DECIMAL"; "exists"; "HEXADECIMAL"; "forall"; "let"; "match"; "NUMERAL"; "par"; "STRING";
    "assert"; "check-sat"; "check-sat-assuming"; "declare-const"; "declare-datatype"; "declare-datatypes";
    "declare-fun"; "declare-sort"; "define-fun"; "define-fun-rec"; "define-funs-rec"; "define-sort"; "echo"; "exit";
    "get-assertions"; "get-assignment"; "get-info"; "get-model"; "get-option"; "get-proof"; "get-unsat-assumptions";
    "get-unsat-core"; "get-value"; "pop"; "push"; "reset"; "reset-assertions"; "set-info"; "set-logic"; "set-option" ].

Record lexcfg := {
  lc_reserved : list string;
  lc_symchar : ascii -> bool;
  lc_white : ascii -> bool;
  lc_neg_numerals : bool }.

Definition std_cfg : lexcfg :=
  {| lc_reserved := std_reserved; lc_symchar := std_symchar; lc_white := std_white; lc_neg_numerals := false |}.

Definition osmt_white (c : ascii) : bool := (code c =? 9) || (code c =? 10) || (code c =? 32).
Definition osmt_symchar (c : ascii) : bool := in_set c gen_lexer_sym_rest.
Definition osmt_cfg : lexcfg :=
  {| lc_reserved := gen_lexer_reserved; lc_symchar := osmt_symchar; lc_white := osmt_white;
     lc_neg_numerals := gen_lexer_neg_numerals |}.

Inductive token :=
| TLP | TRP
| TNum (s : string) | TDec (s : string) | THex (s : string) | TBin (s : string)
| TStr (s : string)
| TSym (s : string)        (* simple symbol *)
| TQSym (s : string)       (* quoted symbol, without the bars *)
| TRes (s : string)        (* reserved word *)
| TKey (s : string).       (* keyword, without the colon *)

Inductive lexres := Toks (l : list token) | LexError | OutOfFuel.

Fixpoint span (p : ascii -> bool) (s : string) : string * string :=
  match s with
  | EmptyString => (EmptyString, EmptyString)
  | String c r => if p c then let (a, b) := span p r in (String c a, b) else (EmptyString, s)
  end.

(* after the opening bar: the symbol's characters up to the closing bar; no backslash, only printable
   characters and white space *)
Fixpoint scan_quoted (s : string) : option (string * string) :=
  match s with
  | EmptyString => None
  | String c r =>
    if Ascii.eqb c c_bar then Some (EmptyString, r)
    else if Ascii.eqb c c_bslash then None
    else if is_printable c || std_white c then
      match scan_quoted r with Some (a, b) => Some (String c a, b) | None => None end
    else None
  end.

(* after the opening double quote (SMT-LIB 2.6: "" inside a literal stands for one double quote) *)
Fixpoint scan_string (s : string) : option (string * string) :=
  match s with
  | EmptyString => None
  | String c r =>
    if Ascii.eqb c c_dq then
      match r with
      | String d r' =>
        if Ascii.eqb d c_dq then
          match scan_string r' with Some (a, b) => Some (String c_dq a, b) | None => None end
        else Some (EmptyString, r)
      | EmptyString => Some (EmptyString, r)
      end
    else match scan_string r with Some (a, b) => Some (String c a, b) | None => None end
  end.

Fixpoint drop_line (s : string) : string :=
  match s with
  | EmptyString => EmptyString
  | String c r => if Ascii.eqb c c_nl then r else drop_line r
  end.

Definition nonempty (s : string) : bool := match s with EmptyString => false | _ => true end.
Definition all_digits (s : string) : bool := nonempty s && str_forallb is_digit s.
Definition posnum (s : string) : bool :=
  match s with String c r => is_posdigit c && str_forallb is_digit r | EmptyString => false end.

Fixpoint split_at (ch : ascii) (s : string) : option (string * string) :=
  match s with
  | EmptyString => None
  | String c r => if Ascii.eqb c ch then Some (EmptyString, r)
                  else match split_at ch r with Some (a, b) => Some (String c a, b) | None => None end
  end.

(* the words opensmt's lexer returns as TK_NUM / TK_DEC although SMT-LIB reads them as simple symbols:
   minus posnum, minus posnum / posnum, minus digits '.' digits, where posnum is a digit string not starting
   with 0 (flex: same length as the TK_SYM match, the earlier rule wins) *)
Definition neg_numlike (w : string) : bool :=
  match w with
  | String c r =>
    Ascii.eqb c c_minus &&
    (posnum r
     || match split_at c_slash r with Some (a, b) => posnum a && posnum b | None => false end
     || match split_at c_dot r with Some (a, b) => all_digits a && all_digits b | None => false end)
  | EmptyString => false
  end.

Definition classify (cfg : lexcfg) (w : string) : token :=
  if lc_neg_numerals cfg && neg_numlike w then
    (if str_existsb (Ascii.eqb c_dot) w then TDec w else TNum w)
  else if mem_str w (lc_reserved cfg) then TRes w else TSym w.

(* a token starting with a digit: digits, or digits.digits *)
Definition scan_number (s : string) : token * string :=
  let (d1, r1) := span is_digit s in
  match r1 with
  | String c r2 =>
    if Ascii.eqb c c_dot then
      let (d2, r3) := span is_digit r2 in
      if nonempty d2 then (TDec (d1 ++ String c_dot d2), r3) else (TNum d1, r1)
    else (TNum d1, r1)
  | EmptyString => (TNum d1, r1)
  end.

Definition cons_tok (t : token) (r : lexres) : lexres :=
  match r with Toks l => Toks (t :: l) | e => e end.

Fixpoint lex_fuel (cfg : lexcfg) (fuel : nat) (s : string) : lexres :=
  match fuel with
  | O => OutOfFuel
  | S f =>
    match s with
    | EmptyString => Toks []
    | String c r =>
      if lc_white cfg c then lex_fuel cfg f r
      else if Ascii.eqb c c_semi then lex_fuel cfg f (drop_line r)
      else if Ascii.eqb c c_lp then cons_tok TLP (lex_fuel cfg f r)
      else if Ascii.eqb c c_rp then cons_tok TRP (lex_fuel cfg f r)
      else if Ascii.eqb c c_bar then
        match scan_quoted r with
        | Some (q, rest) => cons_tok (TQSym q) (lex_fuel cfg f rest)
        | None => LexError
        end
      else if Ascii.eqb c c_dq then
        match scan_string r with
        | Some (q, rest) => cons_tok (TStr q) (lex_fuel cfg f rest)
        | None => LexError
        end
      else if Ascii.eqb c c_colon then
        let (k, rest) := span (lc_symchar cfg) r in
        if nonempty k then cons_tok (TKey k) (lex_fuel cfg f rest) else LexError
      else if Ascii.eqb c c_hash then
        match r with
        | String x r' =>
          if Ascii.eqb x "x"%char then
            let (h, rest) := span is_hexdigit r' in
            if nonempty h then cons_tok (THex h) (lex_fuel cfg f rest) else LexError
          else if Ascii.eqb x "b"%char then
            let (h, rest) := span is_bindigit r' in
            if nonempty h then cons_tok (TBin h) (lex_fuel cfg f rest) else LexError
          else LexError
        | EmptyString => LexError
        end
      else if is_digit c then
        let (t, rest) := scan_number s in cons_tok t (lex_fuel cfg f rest)
      else if lc_symchar cfg c then
        let (w, rest) := span (lc_symchar cfg) s in cons_tok (classify cfg w) (lex_fuel cfg f rest)
      else LexError
    end
  end.

Definition lex (cfg : lexcfg) (s : string) : lexres := lex_fuel cfg (S (String.length s)) s.

(* The text is exactly one symbol token: its name. *)
Definition read_symbol (cfg : lexcfg) (s : string) : option string :=
  match lex cfg s with
  | Toks [TSym x] => Some x
  | Toks [TQSym x] => Some x
  | _ => None
  end.

(* A legal SMT-LIB 2.6 symbol *name*: what can stand between two bars (printable characters and white space,
   no | and no \ ); every simple symbol is of this form too. *)
Definition legal_char (c : ascii) : bool :=
  (is_printable c || std_white c) && negb (Ascii.eqb c c_bar) && negb (Ascii.eqb c c_bslash).
Definition legal_symbol (s : string) : Prop := str_forallb legal_char s = true.

(* can be written without bars under cfg *)
Definition first_is_digit (s : string) : bool :=
  match s with String c _ => is_digit c | EmptyString => false end.
Definition is_simple (cfg : lexcfg) (s : string) : bool :=
  nonempty s && str_forallb (lc_symchar cfg) s && negb (first_is_digit s)
  && negb (mem_str s (lc_reserved cfg)) && negb (lc_neg_numerals cfg && neg_numlike s).

(* the reference printer of a symbol: bare when simple, otherwise between bars *)
Definition quote_symbol (cfg : lexcfg) (s : string) : string :=
  if is_simple cfg s then s else String c_bar (s ++ String c_bar EmptyString).

(* ------------------------------------------------------------------------------------------
   s-expressions over tokens (the reader's second stage) *)
Inductive sexp := SAtom (t : token) | SList (l : list sexp).

(* parse with an explicit stack; returns the top-level sequence *)
Fixpoint parse_toks (ts : list token) (cur : list sexp) (stack : list (list sexp)) : option (list sexp) :=
  match ts with
  | [] => match stack with [] => Some (rev cur) | _ => None end
  | TLP :: r => parse_toks r [] (cur :: stack)
  | TRP :: r => match stack with
                | up :: st => parse_toks r (SList (rev cur) :: up) st
                | [] => None
                end
  | t :: r => parse_toks r (SAtom t :: cur) stack
  end.

Definition read_sexps (cfg : lexcfg) (s : string) : option (list sexp) :=
  match lex cfg s with Toks l => parse_toks l [] [] | _ => None end.

(* |x| and x are the same symbol *)
Definition norm_token (t : token) : token := match t with TQSym s => TSym s | t => t end.
Fixpoint norm_sexp (e : sexp) : sexp :=
  match e with
  | SAtom t => SAtom (norm_token t)
  | SList l => SList (map norm_sexp l)
  end.
