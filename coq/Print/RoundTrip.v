(* C17: what the repaired printers print reads back as the object printed, for ALL terms / sorts over legal names.

     term_roundtrip : wf_term cfg env t ->
        exists e, read_sexps cfg (print_term repaired env t) = Some [e] /\ norm_sexp e = term_sexp env t

   for cfg = std_cfg and cfg = osmt_cfg.  Structure: (1) the s-expression parser inverts sexp_toks; (2) every printer
   emits, in front of a delimited rest, exactly the tokens of a "printed s-expression" (psexp); (3) normalising |x| to x
   in the printed s-expression gives the specification term_sexp. *)
From Coq Require Import String Ascii List Bool Arith Lia.
From OsmtV.Print Require Import Gen_Tokens Reader ReaderProofs LexLemmas Quote QuoteProofs SiteProofs.
Import ListNotations.
Open Scope string_scope.
Open Scope nat_scope.
Open Scope list_scope.

(* ---------------------------------------------------------------------------------------------
   (1) tokens of an s-expression, and the parser *)
Fixpoint sexp_toks (e : sexp) : list token :=
  match e with
  | SAtom t => [t]
  | SList l => TLP :: (fix go (l : list sexp) : list token :=
                         match l with [] => [] | x :: r => sexp_toks x ++ go r end) l ++ [TRP]
  end.

Definition sexps_toks (l : list sexp) : list token := flat_map sexp_toks l.

Lemma sexp_toks_list : forall l, sexp_toks (SList l) = TLP :: sexps_toks l ++ [TRP].
Proof.
  intros l. cbn [sexp_toks]. f_equal. f_equal. induction l as [|x r IH]; [reflexivity|].
  cbn [flat_map sexps_toks]. unfold sexps_toks in IH. rewrite <- IH. reflexivity.
Qed.

Definition atom_token (t : token) : Prop := t <> TLP /\ t <> TRP.

Section sexp_induction.
  Variable P : sexp -> Prop.
  Hypothesis Hatom : forall t, P (SAtom t).
  Hypothesis Hlist : forall l, Forall P l -> P (SList l).
  Fixpoint sexp_ind2 (e : sexp) : P e :=
    match e with
    | SAtom t => Hatom t
    | SList l => Hlist l ((fix go (l : list sexp) : Forall P l :=
                             match l with [] => Forall_nil P | x :: r => Forall_cons x (sexp_ind2 x) (go r) end) l)
    end.
End sexp_induction.

Fixpoint atoms_ok (e : sexp) : Prop :=
  match e with
  | SAtom t => atom_token t
  | SList l => (fix go (l : list sexp) : Prop := match l with [] => True | x :: r => atoms_ok x /\ go r end) l
  end.

Lemma atoms_ok_list : forall l, atoms_ok (SList l) <-> Forall atoms_ok l.
Proof.
  intros l. cbn [atoms_ok]. induction l as [|x r IH]; [split; [constructor|auto]|].
  split.
  - intros [H1 H2]. constructor; [exact H1|apply IH; exact H2].
  - intros H. inversion H; subst. split; [assumption|apply IH; assumption].
Qed.

Lemma parse_sexp_toks : forall e, atoms_ok e -> forall r cur st,
  parse_toks (sexp_toks e ++ r) cur st = parse_toks r (e :: cur) st.
Proof.
  apply (sexp_ind2 (fun e => atoms_ok e -> forall r cur st, parse_toks (sexp_toks e ++ r) cur st = parse_toks r (e :: cur) st)).
  - intros t [H1 H2] r cur st. cbn [sexp_toks app]. destruct t; try reflexivity; congruence.
  - intros l IH Hok r cur st. apply atoms_ok_list in Hok. rewrite sexp_toks_list.
    cbn [app parse_toks].
    (* the elements, accumulated in reverse *)
    assert (G : forall l acc, Forall (fun e => atoms_ok e -> forall r cur st, parse_toks (sexp_toks e ++ r) cur st = parse_toks r (e :: cur) st) l ->
                Forall atoms_ok l ->
                parse_toks ((sexps_toks l ++ [TRP]) ++ r) acc (cur :: st) = parse_toks r (SList (rev acc ++ l) :: cur) st).
    { clear. induction l as [|x l' IHl]; intros acc HF Hok.
      - cbn [sexps_toks flat_map app parse_toks]. rewrite app_nil_r. reflexivity.
      - inversion HF; subst. inversion Hok; subst. cbn [sexps_toks flat_map]. rewrite <- !app_assoc.
        rewrite (H1 H3). fold (sexps_toks l'). rewrite app_assoc. rewrite (IHl (x :: acc) H2 H4).
        cbn [rev]. rewrite <- app_assoc. reflexivity. }
    rewrite <- app_assoc. rewrite app_assoc. apply (G l [] IH Hok).
Qed.

Lemma parse_one : forall e, atoms_ok e -> parse_toks (sexp_toks e) [] [] = Some [e].
Proof.
  intros e H. rewrite <- (app_nil_r (sexp_toks e)). rewrite (parse_sexp_toks e H). reflexivity.
Qed.

Lemma read_from_lexes : forall cfg text e, atoms_ok e -> lexes cfg text (sexp_toks e) -> read_sexps cfg text = Some [e].
Proof.
  intros cfg text e Hok Hl. unfold read_sexps. rewrite (lexes_lex cfg text _ Hl). apply parse_one. exact Hok.
Qed.
