(* C17: what the repaired printers print reads back as the object printed, for ALL terms / sorts over legal names.

     term_roundtrip : wf_term cfg env t ->
        exists e, read_sexps cfg (print_term repaired env t) = Some [e] /\ norm_sexp e = term_sexp env t

   for cfg = std_cfg and cfg = osmt_cfg.  Structure: (1) the s-expression parser inverts sexp_toks; (2) every printer
   emits, in front of a delimited rest, exactly the tokens of a "printed s-expression" (psexp); (3) normalising |x| to x
   in the printed s-expression gives the specification term_sexp. *)
From Coq Require Import String Ascii List Bool Arith Lia.
From OsmtV.Print Require Import Gen_Tokens Reader ReaderProofs LexLemmas Quote QuoteProofs SiteProofs.
Import ListNotations.
Open Scope string_scope.
Open Scope nat_scope.
Open Scope list_scope.

(* ---------------------------------------------------------------------------------------------
   (1) tokens of an s-expression, and the parser *)
Fixpoint sexp_toks (e : sexp) : list token :=
  match e with
  | SAtom t => [t]
  | SList l => TLP :: flat_map sexp_toks l ++ [TRP]
  end.

Definition sexps_toks (l : list sexp) : list token := flat_map sexp_toks l.

Definition atom_tokenb (t : token) : bool := match t with TLP | TRP => false | _ => true end.

Section sexp_induction.
  Variable P : sexp -> Prop.
  Hypothesis Hatom : forall t, P (SAtom t).
  Hypothesis Hlist : forall l, Forall P l -> P (SList l).
  Fixpoint sexp_ind2 (e : sexp) : P e :=
    match e with
    | SAtom t => Hatom t
    | SList l => Hlist l ((fix go (l : list sexp) : Forall P l :=
                             match l with [] => Forall_nil P | x :: r => Forall_cons x (sexp_ind2 x) (go r) end) l)
    end.
End sexp_induction.

Fixpoint atoms_ok (e : sexp) : bool :=
  match e with
  | SAtom t => atom_tokenb t
  | SList l => forallb atoms_ok l
  end.

Lemma parse_sexp_toks : forall e, atoms_ok e = true -> forall r cur st,
  parse_toks (sexp_toks e ++ r) cur st = parse_toks r (e :: cur) st.
Proof.
  apply (sexp_ind2 (fun e => atoms_ok e = true -> forall r cur st, parse_toks (sexp_toks e ++ r) cur st = parse_toks r (e :: cur) st)).
  - intros t H r cur st. cbn [sexp_toks app]. destruct t; try reflexivity; discriminate.
  - intros l IH Hok r cur st. cbn [atoms_ok] in Hok. cbn [sexp_toks app parse_toks].
    assert (G : forall l acc, Forall (fun e => atoms_ok e = true -> forall r cur st, parse_toks (sexp_toks e ++ r) cur st = parse_toks r (e :: cur) st) l ->
                forallb atoms_ok l = true ->
                parse_toks ((flat_map sexp_toks l ++ [TRP]) ++ r) acc (cur :: st) = parse_toks r (SList (rev acc ++ l) :: cur) st).
    { clear. induction l as [|x l' IHl]; intros acc HF Hok.
      - cbn [flat_map app parse_toks]. rewrite app_nil_r. reflexivity.
      - inversion HF; subst. cbn [forallb] in Hok. apply andb_true_iff in Hok as [Hx Hl].
        cbn [flat_map]. rewrite <- !app_assoc.
        rewrite (H1 Hx). rewrite app_assoc. rewrite (IHl (x :: acc) H2 Hl).
        cbn [rev]. rewrite <- app_assoc. reflexivity. }
    apply (G l [] IH Hok).
Qed.

Lemma parse_one : forall e, atoms_ok e = true -> parse_toks (sexp_toks e) [] [] = Some [e].
Proof.
  intros e H. rewrite <- (app_nil_r (sexp_toks e)). rewrite (parse_sexp_toks e H). reflexivity.
Qed.

Lemma read_from_lexes : forall cfg text e, atoms_ok e = true -> lexes cfg text (sexp_toks e) -> read_sexps cfg text = Some [e].
Proof.
  intros cfg text e Hok Hl. unfold read_sexps. rewrite (lexes_lex cfg text _ Hl). apply parse_one. exact Hok.
Qed.

(* ---------------------------------------------------------------------------------------------
   (2) the printers, token by token *)
Local Notation "a +++ b" := (String.append a b) (at level 60, right associativity).

Lemma append_assoc : forall a b c : string, (a +++ b) +++ c = a +++ (b +++ c).
Proof. exact app_assoc_str. Qed.

Lemma concat_empty_cons : forall x xs, String.concat "" (x :: xs) = x +++ String.concat "" xs.
Proof.
  intros x xs. destruct xs as [|y ys]; cbn [String.concat].
  - rewrite app_empty_r. reflexivity.
  - reflexivity.
Qed.

Lemma in_bars_not_self : forall s, String.eqb (in_bars s) s = false.
Proof.
  intros s. apply String.eqb_neq. intro H. apply (f_equal String.length) in H.
  unfold in_bars, bar in H. rewrite !length_app in H. simpl in H. lia.
Qed.

Section Render.
Variable cfg : lexcfg.
Hypothesis Hok : cfg_ok cfg.
Hypothesis Hsub : simple_sub cfg.
Hypothesis Hres : forall s, mem_str s (lc_reserved cfg) = true -> mem_str s (v_table repaired) = true.
Hypothesis Hspace : lc_white cfg " "%char = true.
Hypothesis Has : classify cfg "as" = TRes "as".
Hypothesis Hminus : classify cfg "-" = TSym "-".
Hypothesis Hslash : classify cfg "/" = TSym "/".

(* what may follow a printed token: a blank, a closing parenthesis, or the end *)
Definition delim (rest : string) : Prop :=
  match rest with EmptyString => True | String c _ => c = " "%char \/ c = c_rp end.

Lemma delim_stops_sym : forall rest, delim rest -> stops (lc_symchar cfg) rest.
Proof.
  intros [|c r] H; [exact I|]. simpl in *.
  destruct (lc_symchar cfg c) eqn:E; [|reflexivity].
  apply (ok_symchar_special cfg Hok) in E. destruct H as [H|H]; subst c; vm_compute in E; discriminate.
Qed.

Lemma delim_stops_num : forall rest, delim rest -> stops (fun c => is_digit c || Ascii.eqb c c_dot) rest.
Proof. intros [|c r] H; [exact I|]. simpl in *. destruct H as [H|H]; subst c; reflexivity. Qed.

Lemma delim_space : forall r, delim (String " "%char r).
Proof. intros r. left. reflexivity. Qed.
Lemma delim_rp : forall r, delim (String c_rp r).
Proof. intros r. right. reflexivity. Qed.

(* names *)
Definition name_tok (s : string) : token :=
  if String.eqb (protectName repaired s false) s then TSym s else TQSym s.

Lemma norm_name_tok : forall s, norm_token (name_tok s) = TSym s.
Proof. intros s. unfold name_tok. destruct (String.eqb _ s); reflexivity. Qed.

Lemma classify_bare : forall s, legal_symbol s -> protectName repaired s false = s ->
  classify cfg s = TSym s /\ nonempty s = true /\ str_forallb (lc_symchar cfg) s = true /\ first_is_digit s = false.
Proof.
  intros s Hl E. destruct (protect_cases repaired s) as [E' | (_ & Hq & Hd & Hr & He & Hm)].
  - rewrite E in E'. exfalso. pose proof (in_bars_not_self s) as N. rewrite <- E' in N. rewrite String.eqb_refl in N. discriminate.
  - assert (Hn : nonempty s = true) by (apply He; reflexivity).
    repeat split.
    + unfold classify. destruct (lc_neg_numerals cfg && neg_numlike s) eqn:EN.
      * apply andb_true_iff in EN as [_ N2]. rewrite (neg_numlike_minus_digit s N2) in Hm.
        specialize (Hm eq_refl). discriminate.
      * destruct (mem_str s (lc_reserved cfg)) eqn:ER; [|reflexivity].
        unfold isReservedWord in Hr. rewrite (Hres s ER) in Hr. discriminate.
    + exact Hn.
    + apply (str_forallb_impl is_simple_char); [exact Hsub|]. apply not_quotable_simple; assumption.
    + destruct s; [discriminate|]. exact Hd.
Qed.

Lemma render_name : forall s rest l, legal_symbol s -> delim rest -> lexes cfg rest l ->
  lexes cfg (protectName repaired s false +++ rest) (name_tok s :: l).
Proof.
  intros s rest l Hl Hd Hr. unfold name_tok.
  destruct (protect_cases repaired s) as [E | (E & _)]; rewrite E.
  - rewrite in_bars_not_self. unfold in_bars, bar. rewrite !append_assoc. cbn [append].
    apply step_quoted; assumption.
  - rewrite String.eqb_refl. destruct (classify_bare s Hl E) as (C & N & A & D). rewrite <- C.
    apply step_word; try assumption. apply delim_stops_sym. exact Hd.
Qed.

(* an interpreted (theory) symbol is printed raw *)
Lemma render_raw : forall s rest l, is_simple cfg s = true -> delim rest -> lexes cfg rest l ->
  lexes cfg (s +++ rest) (TSym s :: l).
Proof.
  intros s rest l H Hd Hr. unfold is_simple in H.
  repeat (apply andb_true_iff in H as [H ?]).
  repeat match goal with h : negb _ = true |- _ => apply negb_true_iff in h end.
  assert (C : classify cfg s = TSym s) by (unfold classify; rewrite H0, H1; reflexivity).
  rewrite <- C. apply step_word; try assumption. apply delim_stops_sym. exact Hd.
Qed.

(* a list of items separated by single blanks, closed by a parenthesis *)
Lemma render_join : forall (A : Type) (pr : A -> string) (tk : A -> list token) xs rest l,
  xs <> [] ->
  Forall (fun x => forall rest l, delim rest -> lexes cfg rest l -> lexes cfg (pr x +++ rest) (tk x ++ l)) xs ->
  lexes cfg rest l ->
  lexes cfg (join " " (map pr xs) +++ String c_rp rest) (flat_map tk xs ++ TRP :: l).
Proof.
  intros A pr tk xs rest l Hne HF Hr. induction xs as [|x r IH]; [congruence|].
  inversion HF as [|? ? Hx HF']; subst.
  destruct r as [|y r'].
  - cbn [map join flat_map]. rewrite app_nil_r. apply Hx; [apply delim_rp|]. apply step_rp; assumption.
  - change (join " " (map pr (x :: y :: r'))) with (pr x +++ " " +++ join " " (map pr (y :: r'))).
    rewrite !append_assoc. cbn [flat_map]. rewrite <- app_assoc.
    apply Hx; [apply delim_space|]. cbn [append]. apply step_white; [exact Hspace|].
    apply IH; [discriminate|exact HF'].
Qed.

(* a list of items each preceded by a blank, closed by a parenthesis *)
Lemma render_args : forall (A : Type) (pr : A -> string) (tk : A -> list token) xs rest l,
  Forall (fun x => forall rest l, delim rest -> lexes cfg rest l -> lexes cfg (pr x +++ rest) (tk x ++ l)) xs ->
  lexes cfg rest l ->
  lexes cfg (String.concat "" (map (fun a => " " +++ pr a) xs) +++ String c_rp rest) (flat_map tk xs ++ TRP :: l).
Proof.
  intros A pr tk xs rest l HF Hr. induction xs as [|x r IH].
  - cbn [map String.concat append flat_map app]. apply step_rp; assumption.
  - inversion HF as [|? ? Hx HF']; subst. cbn [map]. rewrite concat_empty_cons. rewrite !append_assoc.
    cbn [append flat_map]. rewrite <- app_assoc. apply step_white; [exact Hspace|].
    apply Hx.
    + destruct r as [|r0 r1].
      * cbn [map String.concat append]. apply delim_rp.
      * cbn [map]. rewrite concat_empty_cons. rewrite append_assoc. cbn [append]. apply delim_space.
    + apply IH. exact HF'.
Qed.


(* sorts *)
Fixpoint wf_sort (s : sort) : bool :=
  match s with Sort n args => str_forallb legal_char n && forallb wf_sort args end.

Fixpoint sort_psexp (s : sort) : sexp :=
  match s with
  | Sort n args =>
    match args with
    | [] => SAtom (name_tok n)
    | _ => SList (SAtom (name_tok n) :: map sort_psexp args)
    end
  end.

Section sort_induction.
  Variable P : sort -> Prop.
  Hypothesis H : forall n args, Forall P args -> P (Sort n args).
  Fixpoint sort_ind2 (s : sort) : P s :=
    match s with
    | Sort n args => H n args ((fix go (l : list sort) : Forall P l :=
                                  match l with [] => Forall_nil P | x :: r => Forall_cons x (sort_ind2 x) (go r) end) args)
    end.
End sort_induction.

Lemma flat_map_map : forall (A B C : Type) (f : B -> list C) (g : A -> B) l,
  flat_map f (map g l) = flat_map (fun x => f (g x)) l.
Proof. induction l as [|x r IH]; [reflexivity|]. cbn [map flat_map]. rewrite IH. reflexivity. Qed.

Lemma sexp_toks_cons_map : forall (A : Type) (x : sexp) (f : A -> sexp) (l : list A),
  sexp_toks (SList (x :: map f l)) = TLP :: sexp_toks x ++ flat_map (fun y => sexp_toks (f y)) l ++ [TRP].
Proof.
  intros A x f l. cbn [sexp_toks flat_map]. rewrite flat_map_map. rewrite <- app_assoc. reflexivity.
Qed.

Lemma Forall_forallb_impl : forall (A : Type) (p : A -> bool) (Q : A -> Prop) l,
  Forall (fun x => p x = true -> Q x) l -> forallb p l = true -> Forall Q l.
Proof.
  induction l as [|x r IH]; intros HF Hb; [constructor|].
  inversion HF; subst. cbn [forallb] in Hb. apply andb_true_iff in Hb as [Hx Hr]. constructor; auto.
Qed.

Lemma render_sort : forall s, wf_sort s = true -> forall rest l, delim rest -> lexes cfg rest l ->
  lexes cfg (sortToString repaired s +++ rest) (sexp_toks (sort_psexp s) ++ l).
Proof.
  apply (sort_ind2 (fun s => wf_sort s = true -> forall rest l, delim rest -> lexes cfg rest l ->
                              lexes cfg (sortToString repaired s +++ rest) (sexp_toks (sort_psexp s) ++ l))).
  intros n args IH Hwf rest l Hd Hr. cbn [wf_sort] in Hwf. apply andb_true_iff in Hwf as [Hn Hargs].
  cbn [sortToString sort_psexp v_sort_raw repaired].
  destruct args as [|a r].
  - cbn [sexp_toks app]. apply render_name; assumption.
  - rewrite sexp_toks_cons_map. cbn [sexp_toks]. rewrite !append_assoc. cbn [append app]. apply step_lp; [exact Hok|].
    apply render_name; [exact Hn|apply delim_space|]. cbn [append]. apply step_white; [exact Hspace|].
    rewrite <- app_assoc. cbn [app].
    apply (render_join sort (sortToString repaired) (fun x => sexp_toks (sort_psexp x))); [discriminate| |exact Hr].
    apply (Forall_forallb_impl sort wf_sort); [|exact Hargs].
    eapply Forall_impl; [|exact IH]. intros x Hx Hw. apply Hx. exact Hw.
Qed.

Lemma norm_sort_psexp : forall s, norm_sexp (sort_psexp s) = sort_sexp s.
Proof.
  apply (sort_ind2 (fun s => norm_sexp (sort_psexp s) = sort_sexp s)).
  intros n args IH. cbn [sort_psexp sort_sexp]. destruct args as [|a r].
  - cbn [norm_sexp]. rewrite norm_name_tok. reflexivity.
  - cbn [norm_sexp map]. rewrite norm_name_tok. unfold sym_tok. f_equal. f_equal.
    inversion IH; subst. rewrite H1. f_equal. rewrite map_map.
    apply map_ext_Forall. exact H2.
Qed.

Lemma atoms_name_tok : forall s, atom_tokenb (name_tok s) = true.
Proof. intros s. unfold name_tok. destruct (String.eqb _ s); reflexivity. Qed.

Lemma atoms_sort_psexp : forall s, atoms_ok (sort_psexp s) = true.
Proof.
  apply (sort_ind2 (fun s => atoms_ok (sort_psexp s) = true)).
  intros n args IH. cbn [sort_psexp]. destruct args as [|a r]; [apply atoms_name_tok|].
  cbn [atoms_ok forallb]. rewrite atoms_name_tok. cbn [andb]. rewrite forallb_forall. intros x Hx.
  apply in_map_iff in Hx as [y [E Hy]]. subst x. rewrite Forall_forall in IH. apply IH. exact Hy.
Qed.


(* symbols *)
Definition wf_sym (d : symdecl) : bool :=
  str_forallb legal_char (sd_name d) && wf_sort (sd_ret d)
  && implb (sd_interp d) (is_simple cfg (sd_name d))
  && implb (negb (sd_interp d) && sd_nullary d) (nonempty (sd_name d)).

Definition sym_ptok (d : symdecl) : token := if sd_interp d then TSym (sd_name d) else name_tok (sd_name d).

Definition head_psexp (env : list symdecl) (d : symdecl) : sexp :=
  if needs_qualification env d then SList [SAtom (TRes "as"); SAtom (sym_ptok d); sort_psexp (sd_ret d)]
  else SAtom (sym_ptok d).

Lemma protect_interp : forall v s, protectName v s true = s.
Proof. intros v s. unfold protectName. rewrite flag_interp. reflexivity. Qed.

Lemma view_name : forall s, legal_symbol s -> nonempty s = true ->
  (if isQuoted (protectName repaired s false) then inner (protectName repaired s false) else protectName repaired s false) = s.
Proof.
  intros s Hl Hne. destruct (protect_cases repaired s) as [E | (E & _)]; rewrite E.
  - rewrite (isQuoted_in_bars s Hne). apply inner_in_bars.
  - rewrite (isQuoted_legal_bare s Hl). reflexivity.
Qed.

Lemma render_sym : forall env d rest l, wf_sym d = true -> delim rest -> lexes cfg rest l ->
  lexes cfg (symToString repaired env d +++ rest) (sexp_toks (head_psexp env d) ++ l).
Proof.
  intros env d rest l Hwf Hd Hr. unfold wf_sym in Hwf.
  repeat (apply andb_true_iff in Hwf as [Hwf ?]).
  rename Hwf into Hleg. rename H1 into Hsort. rename H0 into Hint. rename H into Hnon.
  unfold symToString, disambiguateName, head_psexp, needs_qualification, sym_ptok.
  destruct (sd_interp d) eqn:Ei.
  - (* a theory symbol: printed raw *)
    rewrite protect_interp. rewrite orb_true_r. cbn [negb andb]. rewrite andb_false_r. cbn [sexp_toks app].
    apply render_raw; [exact Hint|exact Hd|exact Hr].
  - cbn [negb andb orb]. rewrite orb_false_r, andb_true_r.
    destruct (sd_nullary d) eqn:En.
    + cbn [negb andb]. cbn [negb andb implb] in Hnon.
      cbn [v_view_key_bug repaired negb andb]. rewrite andb_false_r.
      rewrite (view_name (sd_name d) Hleg Hnon).
      unfold is_ambiguous.
      destruct (negb (isKnownToUser (sd_name d)) || (2 <=? homonyms true env (sd_name d))).
      * cbn [sexp_toks flat_map app]. rewrite !append_assoc. cbn [append].
        apply step_lp; [exact Hok|]. rewrite <- Has.
        match goal with |- lexes _ (String "a" (String "s" ?r)) _ => change (String "a" (String "s" r)) with ("as" +++ r) end.
        apply step_word; [exact Hok|reflexivity| | |apply delim_stops_sym; apply delim_space|].
        { apply (str_forallb_impl is_simple_char); [exact Hsub|]. vm_compute. reflexivity. }
        { reflexivity. }
        apply step_white; [exact Hspace|]. apply render_name; [exact Hleg|apply delim_space|]. cbn [append].
        apply step_white; [exact Hspace|]. rewrite app_nil_r. rewrite <- app_assoc.
        apply render_sort; [exact Hsort|apply delim_rp|]. cbn [app]. apply step_rp; [exact Hok|exact Hr].
      * cbn [sexp_toks app]. apply render_name; assumption.
    + cbn [negb andb]. cbn [sexp_toks app]. apply render_name; assumption.
Qed.


(* terms *)
Definition opt_digits (o : option string) : bool := match o with None => true | Some d => all_digits d end.

Fixpoint wf_term (t : term) : bool :=
  match t with
  | TApp d args => wf_sym d && (List.length args =? List.length (sd_args d)) && forallb wf_term args
  | TNumC _ num den => all_digits num && opt_digits den
  end.

Fixpoint term_psexp (env : list symdecl) (t : term) : sexp :=
  match t with
  | TApp d args =>
    match args with
    | [] => head_psexp env d
    | _ => SList (head_psexp env d :: map (term_psexp env) args)
    end
  | TNumC neg num None => num_sexp neg num
  | TNumC neg num (Some den) => SList [sym_tok "/"; num_sexp neg num; SAtom (TNum den)]
  end.

Section term_induction.
  Variable P : term -> Prop.
  Hypothesis Happ : forall d args, Forall P args -> P (TApp d args).
  Hypothesis Hnum : forall n num den, P (TNumC n num den).
  Fixpoint term_ind2 (t : term) : P t :=
    match t with
    | TApp d args => Happ d args ((fix go (l : list term) : Forall P l :=
                                     match l with [] => Forall_nil P | x :: r => Forall_cons x (term_ind2 x) (go r) end) args)
    | TNumC n num den => Hnum n num den
    end.
End term_induction.

Lemma render_minus : forall r l, lexes cfg r l -> lexes cfg (String "-"%char (String " "%char r)) (TSym "-" :: l).
Proof.
  intros r l H. rewrite <- Hminus. change (String "-"%char (String " "%char r)) with ("-" +++ String " "%char r).
  apply step_word; [exact Hok|reflexivity| |reflexivity|apply delim_stops_sym; apply delim_space|].
  - apply (str_forallb_impl is_simple_char); [exact Hsub|]. vm_compute. reflexivity.
  - apply step_white; [exact Hspace|exact H].
Qed.

Lemma render_slash : forall r l, lexes cfg r l -> lexes cfg (String "/"%char (String " "%char r)) (TSym "/" :: l).
Proof.
  intros r l H. rewrite <- Hslash. change (String "/"%char (String " "%char r)) with ("/" +++ String " "%char r).
  apply step_word; [exact Hok|reflexivity| |reflexivity|apply delim_stops_sym; apply delim_space|].
  - apply (str_forallb_impl is_simple_char); [exact Hsub|]. vm_compute. reflexivity.
  - apply step_white; [exact Hspace|exact H].
Qed.

Lemma render_digits : forall d rest l, all_digits d = true -> delim rest -> lexes cfg rest l ->
  lexes cfg (d +++ rest) (TNum d :: l).
Proof.
  intros d rest l H Hd Hr. unfold all_digits in H. apply andb_true_iff in H as [H1 H2].
  apply step_num; [exact Hok|exact H1|exact H2|apply delim_stops_num; exact Hd|exact Hr].
Qed.

(* (- num) or num, in front of a delimited rest *)
Lemma render_num : forall (neg : bool) num rest l, all_digits num = true -> delim rest -> lexes cfg rest l ->
  lexes cfg ((if neg then "(- " +++ num +++ ")" else num) +++ rest) (sexp_toks (num_sexp neg num) ++ l).
Proof.
  intros neg num rest l H Hd Hr. unfold num_sexp. destruct neg.
  - cbn [sexp_toks flat_map app sym_tok]. rewrite !append_assoc. cbn [append].
    apply step_lp; [exact Hok|]. apply render_minus. apply render_digits; [exact H|apply delim_rp|].
    apply step_rp; [exact Hok|exact Hr].
  - cbn [sexp_toks app]. apply render_digits; assumption.
Qed.

Lemma render_term : forall env t, wf_term t = true -> forall rest l, delim rest -> lexes cfg rest l ->
  lexes cfg (print_term repaired env t +++ rest) (sexp_toks (term_psexp env t) ++ l).
Proof.
  intros env.
  apply (term_ind2 (fun t => wf_term t = true -> forall rest l, delim rest -> lexes cfg rest l ->
                             lexes cfg (print_term repaired env t +++ rest) (sexp_toks (term_psexp env t) ++ l))).
  - intros d args IH Hwf rest l Hd Hr. cbn [wf_term] in Hwf.
    apply andb_true_iff in Hwf as [Hwf Hargs]. apply andb_true_iff in Hwf as [Hsym _].
    destruct args as [|a r].
    + cbn [print_term term_psexp]. apply render_sym; assumption.
    + cbn [print_term term_psexp]. rewrite sexp_toks_cons_map. rewrite !append_assoc. cbn [append app].
      rewrite <- !app_assoc. cbn [app]. apply step_lp; [exact Hok|].
      apply render_sym; [exact Hsym| |].
      * cbn [map]. rewrite concat_empty_cons. rewrite !append_assoc. cbn [append]. apply delim_space.
      * apply (render_args term (print_term repaired env) (fun x => sexp_toks (term_psexp env x))); [|exact Hr].
        apply (Forall_forallb_impl term wf_term); [|exact Hargs].
        eapply Forall_impl; [|exact IH]. intros x Hx Hw. apply Hx. exact Hw.
  - intros neg num den Hwf rest l Hd Hr. cbn [wf_term] in Hwf. apply andb_true_iff in Hwf as [Hn Hden].
    destruct den as [den|].
    + cbn [print_term term_psexp opt_digits] in *.
      assert (E : (if neg then "(/ (- " +++ num +++ ") " +++ den +++ ")" else "(/ " +++ num +++ " " +++ den +++ ")")
                  = "(/ " +++ (if neg then "(- " +++ num +++ ")" else num) +++ " " +++ den +++ ")").
      { destruct neg; rewrite ?append_assoc; reflexivity. }
      rewrite E. clear E.
      assert (T : sexp_toks (SList [sym_tok "/"; num_sexp neg num; SAtom (TNum den)]) ++ l
                  = TLP :: TSym "/" :: sexp_toks (num_sexp neg num) ++ (TNum den :: TRP :: l)).
      { cbn [sexp_toks flat_map sym_tok app]. rewrite <- !app_assoc. cbn [app]. reflexivity. }
      rewrite T. clear T. rewrite !append_assoc. cbn [append].
      apply step_lp; [exact Hok|]. apply render_slash.
      apply render_num; [exact Hn|apply delim_space|]. cbn [append]. apply step_white; [exact Hspace|].
      apply render_digits; [exact Hden|apply delim_rp|]. apply step_rp; [exact Hok|exact Hr].
    + cbn [print_term term_psexp]. apply render_num; assumption.
Qed.

(* (3) the printed s-expression, with |x| normalised to x, is the term's specification *)
Lemma norm_head_psexp : forall env d, norm_sexp (head_psexp env d) =
  (if needs_qualification env d then SList [SAtom (TRes "as"); sym_tok (sd_name d); sort_sexp (sd_ret d)] else sym_tok (sd_name d)).
Proof.
  intros env d. unfold head_psexp. destruct (needs_qualification env d).
  - cbn [norm_sexp map norm_token]. rewrite norm_sort_psexp. unfold sym_ptok, sym_tok.
    destruct (sd_interp d); [reflexivity|]. rewrite norm_name_tok. reflexivity.
  - cbn [norm_sexp]. unfold sym_ptok, sym_tok. destruct (sd_interp d); [reflexivity|]. rewrite norm_name_tok. reflexivity.
Qed.

Lemma nullary_length : forall d, sd_nullary d = true -> List.length (sd_args d) = 0.
Proof. intros d H. unfold sd_nullary in H. destruct (sd_args d); [reflexivity|discriminate]. Qed.

Lemma norm_term_psexp : forall env t, wf_term t = true -> norm_sexp (term_psexp env t) = term_sexp env t.
Proof.
  intros env.
  apply (term_ind2 (fun t => wf_term t = true -> norm_sexp (term_psexp env t) = term_sexp env t)).
  - intros d args IH Hwf. cbn [wf_term] in Hwf.
    apply andb_true_iff in Hwf as [Hwf Hargs]. apply andb_true_iff in Hwf as [_ Hlen]. apply Nat.eqb_eq in Hlen.
    destruct args as [|a r].
    + cbn [term_psexp term_sexp]. apply norm_head_psexp.
    + cbn [term_psexp term_sexp]. cbn [norm_sexp map]. rewrite norm_head_psexp.
      assert (Hq : needs_qualification env d = false).
      { unfold needs_qualification. destruct (sd_nullary d) eqn:En; [|reflexivity].
        apply nullary_length in En. simpl in Hlen. lia. }
      rewrite Hq. f_equal. f_equal.
      assert (Hall : Forall (fun x => norm_sexp (term_psexp env x) = term_sexp env x) (a :: r)).
      { apply (Forall_forallb_impl term wf_term); [|exact Hargs]. exact IH. }
      inversion Hall; subst. rewrite H1. f_equal. rewrite map_map. apply map_ext_Forall. exact H2.
  - intros neg num den _. destruct den; cbn [term_psexp term_sexp]; unfold num_sexp; destruct neg; reflexivity.
Qed.

Lemma atoms_head_psexp : forall env d, atoms_ok (head_psexp env d) = true.
Proof.
  intros env d. unfold head_psexp, sym_ptok. destruct (needs_qualification env d); cbn [atoms_ok forallb atom_tokenb].
  - rewrite atoms_sort_psexp. destruct (sd_interp d); [reflexivity|]. rewrite atoms_name_tok. reflexivity.
  - destruct (sd_interp d); [reflexivity|apply atoms_name_tok].
Qed.

Lemma atoms_term_psexp : forall env t, atoms_ok (term_psexp env t) = true.
Proof.
  intros env.
  apply (term_ind2 (fun t => atoms_ok (term_psexp env t) = true)).
  - intros d args IH. cbn [term_psexp]. destruct args as [|a r]; [apply atoms_head_psexp|].
    cbn [atoms_ok forallb]. rewrite atoms_head_psexp. cbn [andb]. rewrite forallb_forall. intros x Hx.
    apply in_map_iff in Hx as [y [E Hy]]. subst x. rewrite Forall_forall in IH. apply IH. exact Hy.
  - intros neg num den. destruct den; cbn [term_psexp]; unfold num_sexp; destruct neg; reflexivity.
Qed.

(* ---------------------------------------------------------------------------------------------
   get-value: the echo of the request (repaired) *)
Hypothesis Hbang : classify cfg "!" = TRes "!".
Hypothesis Hlet : classify cfg "let" = TRes "let".

Definition P (s : string) : string := protectName repaired s false.

Definition as_text (n : string) (s : sort) : string := "(as " +++ P n +++ " " +++ sortToString repaired s +++ ")".

Definition head_text (h : ahead) : string :=
  match h with H_sym n => P n | H_as n s => as_text n s end.

Fixpoint echo_text (a : ast) : string :=
  match a with
  | A_const t => t
  | A_sym n => P n
  | A_as n s => as_text n s
  | A_app h args => "(" +++ head_text h +++ " " +++ join " " (map echo_text args) +++ ")"
  | A_bang t n => "(! " +++ echo_text t +++ " :named " +++ P n +++ ")"
  | A_let bs body =>
    "(let (" +++ join " " (map (fun b => "(" +++ P (fst b) +++ " " +++ echo_text (snd b) +++ ")") bs)
    +++ ") " +++ echo_text body +++ ")"
  end.

Section ast_induction.
  Variable Q : ast -> Prop.
  Hypothesis Hc : forall t, Q (A_const t).
  Hypothesis Hs : forall n, Q (A_sym n).
  Hypothesis Ha : forall n s, Q (A_as n s).
  Hypothesis Hp : forall h args, Forall Q args -> Q (A_app h args).
  Hypothesis Hb : forall t n, Q t -> Q (A_bang t n).
  Hypothesis Hl : forall bs body, Forall (fun b => Q (snd b)) bs -> Q body -> Q (A_let bs body).
  Fixpoint ast_ind2 (a : ast) : Q a :=
    match a with
    | A_const t => Hc t
    | A_sym n => Hs n
    | A_as n s => Ha n s
    | A_app h args => Hp h args ((fix go (l : list ast) : Forall Q l :=
                                    match l with [] => Forall_nil Q | x :: r => Forall_cons x (ast_ind2 x) (go r) end) args)
    | A_bang t n => Hb t n (ast_ind2 t)
    | A_let bs body => Hl bs body ((fix go (l : list (string * ast)) : Forall (fun b => Q (snd b)) l :=
                                      match l with
                                      | [] => Forall_nil _
                                      | x :: r => Forall_cons x (ast_ind2 (snd x)) (go r)
                                      end) bs) (ast_ind2 body)
    end.
End ast_induction.

(* the writer of Quote.echo never dies in the repaired variant and writes echo_text *)
Lemma o_sep_pure : forall (A : Type) (f : A -> out) (g : A -> string) sep l,
  Forall (fun x => f x = (g x, false)) l -> o_sep sep (map f l) = (join sep (map g l), false).
Proof.
  induction l as [|x r IH]; intros H; [reflexivity|]. inversion H; subst.
  destruct r as [|y r'].
  - cbn [map o_sep join]. exact H2.
  - change (o_sep sep (map f (x :: y :: r'))) with (o_seq (f x) (o_seq (o_str sep) (o_sep sep (map f (y :: r'))))).
    rewrite H2, (IH H3). unfold o_seq, o_str. cbn [fst snd]. reflexivity.
Qed.

Lemma echo_is_text : forall a, echo repaired a = (echo_text a, false).
Proof.
  apply (ast_ind2 (fun a => echo repaired a = (echo_text a, false))).
  - reflexivity.
  - reflexivity.
  - intros n s. reflexivity.
  - intros h args IH. cbn [echo echo_text v_echo_raw v_echo_bang_glued repaired].
    rewrite (o_sep_pure ast (echo repaired) echo_text " " args IH).
    destruct h; unfold o_concat, o_seq, o_str; cbn [fst snd]; rewrite ?app_empty_r; reflexivity.
  - intros t n IH. cbn [echo echo_text v_echo_raw v_echo_bang_glued repaired]. rewrite IH.
    unfold o_concat, o_seq, o_str; cbn [fst snd]. rewrite ?app_empty_r, ?append_assoc. reflexivity.
  - intros bs body IHb IH. cbn [echo echo_text v_echo_raw v_echo_bang_glued repaired]. rewrite IH.
    match goal with |- context [o_sep " " (map ?f bs)] =>
      rewrite (o_sep_pure (string * ast) f (fun b => "(" +++ P (fst b) +++ " " +++ echo_text (snd b) +++ ")") " " bs) end.
    + unfold o_concat, o_seq, o_str; cbn [fst snd]. rewrite ?app_empty_r, ?append_assoc. reflexivity.
    + eapply Forall_impl; [|exact IHb]. intros b Hb. cbn beta in Hb. rewrite Hb. unfold P.
      unfold o_concat, o_seq, o_str; cbn [fst snd]. rewrite ?app_empty_r, ?append_assoc. reflexivity.
Qed.

(* well-formed requests *)
Definition wf_const (t : string) : bool :=
  all_digits t || match split_at c_dot t with Some (a, b) => all_digits a && all_digits b | None => false end.

Definition wf_head (h : ahead) : bool :=
  match h with
  | H_sym n => str_forallb legal_char n
  | H_as n s => str_forallb legal_char n && wf_sort s
  end.

Fixpoint wf_ast (a : ast) : bool :=
  match a with
  | A_const t => wf_const t
  | A_sym n => str_forallb legal_char n
  | A_as n s => str_forallb legal_char n && wf_sort s
  | A_app h args => wf_head h && negb (match args with [] => true | _ => false end) && forallb wf_ast args
  | A_bang t n => wf_ast t && str_forallb legal_char n
  | A_let bs body =>
    negb (match bs with [] => true | _ => false end)
    && forallb (fun b => str_forallb legal_char (fst b) && wf_ast (snd b)) bs && wf_ast body
  end.

Definition as_psexp (n : string) (s : sort) : sexp := SList [SAtom (TRes "as"); SAtom (name_tok n); sort_psexp s].

Definition headp (h : ahead) : sexp :=
  match h with H_sym n => SAtom (name_tok n) | H_as n s => as_psexp n s end.

Fixpoint ast_psexp (a : ast) : sexp :=
  match a with
  | A_const t => SAtom (const_tok t)
  | A_sym n => SAtom (name_tok n)
  | A_as n s => as_psexp n s
  | A_app h args => SList (headp h :: map ast_psexp args)
  | A_bang t n => SList [SAtom (TRes "!"); ast_psexp t; SAtom (TKey "named"); SAtom (name_tok n)]
  | A_let bs body =>
    SList [SAtom (TRes "let"); SList (map (fun b => SList [SAtom (name_tok (fst b)); ast_psexp (snd b)]) bs); ast_psexp body]
  end.

Lemma render_as : forall n s rest l, legal_symbol n -> wf_sort s = true -> lexes cfg rest l ->
  lexes cfg (as_text n s +++ rest) (sexp_toks (as_psexp n s) ++ l).
Proof.
  intros n s rest l Hn Hs Hr. unfold as_text, as_psexp, P. cbn [sexp_toks flat_map app].
  rewrite !append_assoc. cbn [append app]. apply step_lp; [exact Hok|]. rewrite <- Has.
  match goal with |- lexes _ (String "a" (String "s" ?r)) _ => change (String "a" (String "s" r)) with ("as" +++ r) end.
  apply step_word; [exact Hok|reflexivity| |reflexivity|apply delim_stops_sym; apply delim_space|].
  { apply (str_forallb_impl is_simple_char); [exact Hsub|]. vm_compute. reflexivity. }
  apply step_white; [exact Hspace|]. apply render_name; [exact Hn|apply delim_space|]. cbn [append].
  apply step_white; [exact Hspace|]. rewrite app_nil_r. rewrite <- app_assoc.
  apply render_sort; [exact Hs|apply delim_rp|]. cbn [app]. apply step_rp; [exact Hok|exact Hr].
Qed.

Lemma split_at_app : forall ch s a b, split_at ch s = Some (a, b) -> s = a +++ String ch b.
Proof.
  induction s as [|c r IH]; intros a b H; [discriminate|]. cbn [split_at] in H.
  destruct (Ascii.eqb c ch) eqn:E.
  - inversion H; subst. apply Ascii.eqb_eq in E. subst. reflexivity.
  - destruct (split_at ch r) as [[a' b']|] eqn:E2; [|discriminate]. inversion H; subst.
    cbn [append]. rewrite (IH a' b eq_refl). reflexivity.
Qed.

Lemma render_const : forall t rest l, wf_const t = true -> delim rest -> lexes cfg rest l ->
  lexes cfg (t +++ rest) (const_tok t :: l).
Proof.
  intros t rest l H Hd Hr. unfold wf_const in H. unfold const_tok.
  destruct (all_digits t) eqn:Ed.
  - assert (Hnd : str_existsb (Ascii.eqb c_dot) t = false).
    { unfold all_digits in Ed. apply andb_true_iff in Ed as [_ Ed]. clear -Ed.
      induction t as [|c r IH]; [reflexivity|]. cbn [str_forallb str_existsb] in *.
      apply andb_true_iff in Ed as [Hc Hr]. rewrite (IH Hr), orb_false_r.
      destruct (Ascii.eqb c_dot c) eqn:E; [|reflexivity]. apply Ascii.eqb_eq in E. subst c. vm_compute in Hc. discriminate. }
    rewrite Hnd. apply render_digits; assumption.
  - cbn [orb] in H. destruct (split_at c_dot t) as [[a b]|] eqn:Es; [|discriminate].
    apply andb_true_iff in H as [Ha Hb]. pose proof (split_at_app c_dot t a b Es) as Et. subst t.
    assert (Hdot : str_existsb (Ascii.eqb c_dot) (a +++ String c_dot b) = true).
    { clear. induction a as [|c r IH]; cbn [append str_existsb]; [rewrite Ascii.eqb_refl; reflexivity|].
      rewrite IH. apply orb_true_r. }
    rewrite Hdot. rewrite append_assoc. cbn [append].
    unfold all_digits in Ha, Hb. apply andb_true_iff in Ha as [Ha1 Ha2]. apply andb_true_iff in Hb as [Hb1 Hb2].
    apply step_dec; try assumption.
    destruct rest as [|c r]; [exact I|]. simpl in *. destruct Hd as [Hd|Hd]; subst c; reflexivity.
Qed.

Lemma render_ast : forall a, wf_ast a = true -> forall rest l, delim rest -> lexes cfg rest l ->
  lexes cfg (echo_text a +++ rest) (sexp_toks (ast_psexp a) ++ l).
Proof.
  apply (ast_ind2 (fun a => wf_ast a = true -> forall rest l, delim rest -> lexes cfg rest l ->
                            lexes cfg (echo_text a +++ rest) (sexp_toks (ast_psexp a) ++ l))).
  - intros t Hwf rest l Hd Hr. cbn [echo_text ast_psexp sexp_toks app wf_ast] in *. apply render_const; assumption.
  - intros n Hwf rest l Hd Hr. cbn [echo_text ast_psexp sexp_toks app wf_ast] in *. apply render_name; assumption.
  - intros n s Hwf rest l Hd Hr. cbn [echo_text ast_psexp wf_ast] in *. apply andb_true_iff in Hwf as [Hn Hs].
    apply render_as; assumption.
  - intros h args IH Hwf rest l Hd Hr. cbn [wf_ast] in Hwf.
    apply andb_true_iff in Hwf as [Hwf Hargs]. apply andb_true_iff in Hwf as [Hh Hne].
    cbn [echo_text ast_psexp]. rewrite sexp_toks_cons_map. rewrite !append_assoc. cbn [append app].
    rewrite <- !app_assoc. cbn [app]. apply step_lp; [exact Hok|].
    assert (Hargs' : lexes cfg (String " "%char (join " " (map echo_text args) +++ String c_rp rest))
                           (flat_map (fun y => sexp_toks (ast_psexp y)) args ++ TRP :: l)).
    { apply step_white; [exact Hspace|].
      apply (render_join ast echo_text (fun x => sexp_toks (ast_psexp x))); [destruct args; [discriminate|discriminate]| |exact Hr].
      apply (Forall_forallb_impl ast wf_ast); [|exact Hargs].
      eapply Forall_impl; [|exact IH]. intros x Hx Hw. apply Hx. exact Hw. }
    destruct h as [n|n s]; cbn [head_text headp wf_head] in *.
    + cbn [sexp_toks app]. apply render_name; [exact Hh|apply delim_space|exact Hargs'].
    + apply andb_true_iff in Hh as [Hn Hs]. apply render_as; [exact Hn|exact Hs|exact Hargs'].
  - intros t n IH Hwf rest l Hd Hr. cbn [wf_ast] in Hwf. apply andb_true_iff in Hwf as [Ht Hn].
    cbn [echo_text ast_psexp].
    assert (T : sexp_toks (SList [SAtom (TRes "!"); ast_psexp t; SAtom (TKey "named"); SAtom (name_tok n)]) ++ l
                = TLP :: TRes "!" :: sexp_toks (ast_psexp t) ++ (TKey "named" :: name_tok n :: TRP :: l)).
    { cbn [sexp_toks flat_map app]. rewrite <- !app_assoc. cbn [app]. reflexivity. }
    rewrite T. clear T. rewrite !append_assoc. cbn [append].
    apply step_lp; [exact Hok|]. rewrite <- Hbang.
    match goal with |- lexes _ (String "!" ?r) _ => change (String "!" r) with ("!" +++ r) end.
    apply step_word; [exact Hok|reflexivity| |reflexivity|apply delim_stops_sym; apply delim_space|].
    { apply (str_forallb_impl is_simple_char); [exact Hsub|]. vm_compute. reflexivity. }
    apply step_white; [exact Hspace|]. apply IH; [exact Ht|apply delim_space|]. cbn [append].
    apply step_white; [exact Hspace|].
    match goal with |- lexes _ (String ":" (String "n" (String "a" (String "m" (String "e" (String "d" ?r)))))) _ =>
      change (String ":" (String "n" (String "a" (String "m" (String "e" (String "d" r)))))) with (String c_colon ("named" +++ r)) end.
    apply step_key; [exact Hok|reflexivity| |apply delim_stops_sym; apply delim_space|].
    { apply (str_forallb_impl is_simple_char); [exact Hsub|]. vm_compute. reflexivity. }
    apply step_white; [exact Hspace|]. apply render_name; [exact Hn|apply delim_rp|].
    apply step_rp; [exact Hok|exact Hr].
  - intros bs body IHb IH Hwf rest l Hd Hr. cbn [wf_ast] in Hwf.
    apply andb_true_iff in Hwf as [Hwf Hbody]. apply andb_true_iff in Hwf as [Hne Hbs].
    cbn [echo_text ast_psexp].
    assert (T : sexp_toks (SList [SAtom (TRes "let"); SList (map (fun b => SList [SAtom (name_tok (fst b)); ast_psexp (snd b)]) bs); ast_psexp body]) ++ l
                = TLP :: TRes "let" :: TLP :: flat_map (fun b => sexp_toks (SList [SAtom (name_tok (fst b)); ast_psexp (snd b)])) bs
                      ++ (TRP :: sexp_toks (ast_psexp body) ++ (TRP :: l))).
    { cbn [sexp_toks flat_map app]. rewrite flat_map_map. rewrite <- !app_assoc. cbn [app]. reflexivity. }
    rewrite T. clear T. rewrite !append_assoc. cbn [append].
    apply step_lp; [exact Hok|]. rewrite <- Hlet.
    match goal with |- lexes _ (String "l" (String "e" (String "t" ?r))) _ =>
      change (String "l" (String "e" (String "t" r))) with ("let" +++ r) end.
    apply step_word; [exact Hok|reflexivity| |reflexivity|apply delim_stops_sym; apply delim_space|].
    { apply (str_forallb_impl is_simple_char); [exact Hsub|]. vm_compute. reflexivity. }
    apply step_white; [exact Hspace|]. apply step_lp; [exact Hok|].
    apply (render_join (string * ast) (fun b => "(" +++ P (fst b) +++ " " +++ echo_text (snd b) +++ ")")
             (fun b => sexp_toks (SList [SAtom (name_tok (fst b)); ast_psexp (snd b)]))).
    + destruct bs; discriminate.
    + assert (HF : Forall (fun b => str_forallb legal_char (fst b) && wf_ast (snd b) = true ->
                             forall rest l, delim rest -> lexes cfg rest l ->
                             lexes cfg (("(" +++ P (fst b) +++ " " +++ echo_text (snd b) +++ ")") +++ rest)
                                   (sexp_toks (SList [SAtom (name_tok (fst b)); ast_psexp (snd b)]) ++ l)) bs).
      { eapply Forall_impl; [|exact IHb]. intros b Hb Hwfb rest' l' Hd' Hr'. cbn beta in Hb.
        apply andb_true_iff in Hwfb as [Hn Hw].
        assert (T : sexp_toks (SList [SAtom (name_tok (fst b)); ast_psexp (snd b)]) ++ l'
                    = TLP :: name_tok (fst b) :: sexp_toks (ast_psexp (snd b)) ++ (TRP :: l')).
        { cbn [sexp_toks flat_map app]. rewrite <- !app_assoc. cbn [app]. reflexivity. }
        rewrite T. clear T. rewrite !append_assoc. cbn [append].
        apply step_lp; [exact Hok|]. apply render_name; [exact Hn|apply delim_space|]. cbn [append].
        apply step_white; [exact Hspace|]. apply Hb; [exact Hw|apply delim_rp|]. apply step_rp; [exact Hok|exact Hr']. }
      apply (Forall_forallb_impl (string * ast) (fun b => str_forallb legal_char (fst b) && wf_ast (snd b))); [exact HF|exact Hbs].
    + cbn [append]. apply step_white; [exact Hspace|]. apply IH; [exact Hbody|apply delim_rp|].
      apply step_rp; [exact Hok|exact Hr].
Qed.

Lemma norm_as_psexp : forall n s, norm_sexp (as_psexp n s) = SList [SAtom (TRes "as"); sym_tok n; sort_sexp s].
Proof. intros n s. unfold as_psexp. cbn [norm_sexp map norm_token]. rewrite norm_name_tok, norm_sort_psexp. reflexivity. Qed.

Lemma norm_const_tok : forall t, norm_token (const_tok t) = const_tok t.
Proof. intros t. unfold const_tok. destruct (str_existsb _ t); reflexivity. Qed.

Lemma norm_ast_psexp : forall a, norm_sexp (ast_psexp a) = ast_sexp a.
Proof.
  apply (ast_ind2 (fun a => norm_sexp (ast_psexp a) = ast_sexp a)).
  - intros t. cbn [ast_psexp ast_sexp norm_sexp]. rewrite norm_const_tok. reflexivity.
  - intros n. cbn [ast_psexp ast_sexp norm_sexp]. rewrite norm_name_tok. reflexivity.
  - intros n s. cbn [ast_psexp ast_sexp]. apply norm_as_psexp.
  - intros h args IH. cbn [ast_psexp ast_sexp norm_sexp map]. f_equal. f_equal.
    + destruct h; cbn [headp head_sexp]; [cbn [norm_sexp]; rewrite norm_name_tok; reflexivity|apply norm_as_psexp].
    + rewrite map_map. apply map_ext_Forall. exact IH.
  - intros t n IH. cbn [ast_psexp ast_sexp norm_sexp map norm_token]. rewrite IH, norm_name_tok. reflexivity.
  - intros bs body IHb IH. cbn [ast_psexp ast_sexp norm_sexp map norm_token]. rewrite IH. f_equal. f_equal. f_equal. f_equal.
    rewrite map_map. apply map_ext_Forall. eapply Forall_impl; [|exact IHb].
    intros b Hb. cbn [norm_sexp map]. rewrite norm_name_tok. cbn beta in Hb. rewrite Hb. reflexivity.
Qed.

Lemma atoms_as_psexp : forall n s, atoms_ok (as_psexp n s) = true.
Proof. intros n s. unfold as_psexp. cbn [atoms_ok forallb atom_tokenb]. rewrite atoms_name_tok, atoms_sort_psexp. reflexivity. Qed.

Lemma atoms_const_tok : forall t, atom_tokenb (const_tok t) = true.
Proof. intros t. unfold const_tok. destruct (str_existsb _ t); reflexivity. Qed.

Lemma atoms_ast_psexp : forall a, atoms_ok (ast_psexp a) = true.
Proof.
  apply (ast_ind2 (fun a => atoms_ok (ast_psexp a) = true)).
  - intros t. apply atoms_const_tok.
  - intros n. apply atoms_name_tok.
  - intros n s. apply atoms_as_psexp.
  - intros h args IH. cbn [ast_psexp atoms_ok forallb].
    assert (Hh : atoms_ok (headp h) = true) by (destruct h; [apply atoms_name_tok|apply atoms_as_psexp]).
    rewrite Hh. cbn [andb]. rewrite forallb_forall. intros x Hx.
    apply in_map_iff in Hx as [y [E Hy]]. subst x. rewrite Forall_forall in IH. apply IH. exact Hy.
  - intros t n IH. cbn [ast_psexp atoms_ok forallb atom_tokenb]. rewrite IH, atoms_name_tok. reflexivity.
  - intros bs body IHb IH. cbn [ast_psexp atoms_ok forallb atom_tokenb]. rewrite IH. rewrite andb_true_r. cbn [andb].
    rewrite forallb_forall. intros x Hx. apply in_map_iff in Hx as [b [E Hb]]. subst x.
    cbn [atoms_ok forallb]. rewrite atoms_name_tok. rewrite Forall_forall in IHb. rewrite (IHb b Hb). reflexivity.
Qed.

Theorem echo_roundtrip_cfg : forall a, wf_ast a = true ->
  snd (echo repaired a) = false /\
  exists e, read_sexps cfg (fst (echo repaired a)) = Some [e] /\ norm_sexp e = ast_sexp a.
Proof.
  intros a Hwf. rewrite echo_is_text. cbn [fst snd]. split; [reflexivity|].
  exists (ast_psexp a). split; [|apply norm_ast_psexp].
  apply read_from_lexes; [apply atoms_ast_psexp|].
  pose proof (render_ast a Hwf EmptyString [] I (lexes_nil cfg)) as H.
  rewrite app_empty_r, app_nil_r in H. exact H.
Qed.

(* the theorem for one lexer *)
Theorem term_roundtrip_cfg : forall env t, wf_term t = true ->
  exists e, read_sexps cfg (print_term repaired env t) = Some [e] /\ norm_sexp e = term_sexp env t.
Proof.
  intros env t Hwf. exists (term_psexp env t). split; [|apply norm_term_psexp; exact Hwf].
  apply read_from_lexes; [apply atoms_term_psexp|].
  pose proof (render_term env t Hwf EmptyString [] I (lexes_nil cfg)) as H.
  rewrite app_empty_r, app_nil_r in H. exact H.
Qed.

Theorem sort_roundtrip_cfg : forall s, wf_sort s = true ->
  exists e, read_sexps cfg (sortToString repaired s) = Some [e] /\ norm_sexp e = sort_sexp s.
Proof.
  intros s Hwf. exists (sort_psexp s). split; [|apply norm_sort_psexp].
  apply read_from_lexes; [apply atoms_sort_psexp|].
  pose proof (render_sort s Hwf EmptyString [] I (lexes_nil cfg)) as H.
  rewrite app_empty_r, app_nil_r in H. exact H.
Qed.

End Render.

(* ---------------------------------------------------------------------------------------------
   both lexers *)
Lemma repaired_covers_std : forall s, mem_str s (lc_reserved std_cfg) = true -> mem_str s (v_table repaired) = true.
Proof.
  intros s H. apply repaired_table_covers. apply mem_str_In. apply in_or_app. left. apply mem_str_In. exact H.
Qed.

Lemma repaired_covers_osmt : forall s, mem_str s (lc_reserved osmt_cfg) = true -> mem_str s (v_table repaired) = true.
Proof.
  intros s H. apply repaired_table_covers. apply mem_str_In. apply in_or_app. right. apply mem_str_In. exact H.
Qed.

Theorem term_roundtrip_std : forall env t, wf_term std_cfg t = true ->
  exists e, read_sexps std_cfg (print_term repaired env t) = Some [e] /\ norm_sexp e = term_sexp env t.
Proof.
  apply (term_roundtrip_cfg std_cfg std_cfg_ok simple_sub_std repaired_covers_std); reflexivity.
Qed.

Theorem echo_roundtrip_std : forall a, wf_ast a = true ->
  snd (echo repaired a) = false /\
  exists e, read_sexps std_cfg (fst (echo repaired a)) = Some [e] /\ norm_sexp e = ast_sexp a.
Proof.
  apply (echo_roundtrip_cfg std_cfg std_cfg_ok simple_sub_std repaired_covers_std); reflexivity.
Qed.

Theorem echo_roundtrip_osmt : forall a, wf_ast a = true ->
  snd (echo repaired a) = false /\
  exists e, read_sexps osmt_cfg (fst (echo repaired a)) = Some [e] /\ norm_sexp e = ast_sexp a.
Proof.
  apply (echo_roundtrip_cfg osmt_cfg osmt_cfg_ok simple_sub_osmt repaired_covers_osmt); reflexivity.
Qed.

Theorem term_roundtrip_osmt : forall env t, wf_term osmt_cfg t = true ->
  exists e, read_sexps osmt_cfg (print_term repaired env t) = Some [e] /\ norm_sexp e = term_sexp env t.
Proof.
  apply (term_roundtrip_cfg osmt_cfg osmt_cfg_ok simple_sub_osmt repaired_covers_osmt); reflexivity.
Qed.

Theorem sort_roundtrip_std : forall s, wf_sort s = true ->
  exists e, read_sexps std_cfg (sortToString repaired s) = Some [e] /\ norm_sexp e = sort_sexp s.
Proof.
  apply (sort_roundtrip_cfg std_cfg std_cfg_ok simple_sub_std repaired_covers_std); reflexivity.
Qed.
