(* C17, printer side: models on strings of the code that prints SMT-LIB text.  Definitions only.

   Anchors (pinned commit of /repo):
     src/logics/Logic.cc:94      Logic::isReservedWord          -> isReservedWord   (table: Gen_Tokens.gen_tokenNames)
     src/logics/Logic.cc:99      Logic::hasQuotableChars        -> hasQuotableChars (set: Gen_Tokens.gen_simple_chars)
     src/logics/Logic.cc:111     Logic::disambiguateName        -> disambiguateName
     src/logics/Logic.cc:130     Logic::protectName             -> protectName
     src/logics/Logic.cc:140     Logic::symToString             -> symToString
     src/logics/Logic.cc:170     Logic::termToSMT2StringImpl    -> print_term (TApp)
     src/logics/ArithLogic.cc:1131 ArithLogic::termToSMT2StringImpl -> print_term (TNumC)
     src/pterms/PtStore.cc:38    PtStore::isAmbiguousNullarySymbolName -> is_ambiguous (key built from string_view::data())
     src/sorts/SStore.h:67       SStore::sortToString           -> sortToString
     src/api/Interpret.cc:627    Interpret::getAssignment       -> assignment_text, fmt_interp (Interpret::notify_formatted :1057)
     src/api/Interpret.cc:651    printAstTermNode               -> echo
     src/api/Interpret.cc:753    NameClashResolver              -> resolve_clashes
     src/api/Interpret.cc:813    Interpret::getModel            -> model_headers
     src/api/Interpret.cc:858    Interpret::printDefinitionSmtlib (both overloads) -> def_header_const, def_header_fun
     src/models/Model.cc:81      Model::getFormalArgBaseNameForSymbol -> formal_base
     src/models/Model.cc:97      Model::getDefinition (default definition) -> default_definition
     src/models/ModelBuilder.cc:23 ModelBuilder::addToTheoryFunction -> builder_definition
     src/unsatcores/UnsatCore.cc:35 NamedUnsatCore::printTerm   -> core_names_text
     src/logics/Logic.cc:1245    Logic::dumpHeaderToFile        -> dump_decl

   The fragments of the code that are pure tables or guards are regenerated from the source text by
   translate/smt2tokens.py (Gen_Tokens.v); a [variant] selects between what the working tree does (faithful, from the
   regenerated flags), what the pinned commit does (pinned, a literal) and the behaviour of the repairs proposed in
   /verif/proposed_fixes (repaired). *)
From Coq Require Import String Ascii List Bool Arith DecimalString Decimal.
From OsmtV.Print Require Import Gen_Tokens Reader.
Import ListNotations.
Open Scope string_scope.
Open Scope nat_scope.

(* ---------------------------------------------------------------------------------------------
   strings as the C++ sees them *)
Definition zero_char : ascii := ascii_of_nat 0.
(* std::string::front() / name[0]; on the empty string name[0] is the terminating NUL (front() is formally undefined,
   libstdc++ returns the same byte) *)
Definition front (s : string) : ascii := match s with EmptyString => zero_char | String c _ => c end.
(* std::string::back(); on the empty string libstdc++ reads the byte before the buffer: modelled as NUL (observed) *)
Fixpoint back (s : string) : ascii :=
  match s with
  | EmptyString => zero_char
  | String c EmptyString => c
  | String _ r => back r
  end.
Fixpoint removelast_str (s : string) : string :=
  match s with
  | EmptyString => EmptyString
  | String c EmptyString => EmptyString
  | String c r => String c (removelast_str r)
  end.
Definition tail_str (s : string) : string := match s with EmptyString => EmptyString | String _ r => r end.
Definition bar : string := String c_bar EmptyString.
Definition in_bars (s : string) : string := bar ++ s ++ bar.
Definition dec (n : nat) : string := NilZero.string_of_uint (Nat.to_uint n).
Fixpoint join (sep : string) (l : list string) : string :=
  match l with
  | [] => EmptyString
  | [x] => x
  | x :: r => x ++ sep ++ join sep r
  end.

(* ---------------------------------------------------------------------------------------------
   variants *)
Record variant := {
  v_table : list string;          (* the set isReservedWord consults *)
  v_quote_empty : bool;           (* protectName quotes the empty name *)
  v_quote_minus_digit : bool;     (* protectName quotes names that start with '-' digit *)
  v_view_key_bug : bool;          (* ambiguity lookup keyed by string_view::data()  (|x| looked up as  x| ) *)
  v_sort_raw : bool;              (* sort names printed without protection *)
  v_default_raw : bool;           (* Model::getDefinition's default definition carries the raw symbol name *)
  v_create_any : bool;            (* formal parameters are created without looking at the symbols of the logic *)
  v_formal_by_term : bool;        (* NameClashResolver compares terms (name+sort of nullary symbols) rather than names *)
  v_assign_raw : bool;            (* get-assignment prints the labels raw *)
  v_assign_seekp : bool;          (* get-assignment: seekp(-1) also on the empty list (a lone closing parenthesis) *)
  v_assign_format : bool;         (* get-assignment: the answer is passed to notify_formatted as the format *)
  v_echo_raw : bool;              (* get-value echo prints raw names, streams NULL for (as ..) nodes, glues "(!" *)
  v_echo_bang_glued : bool;       (* get-value echo: `(!` glued to the named term (regression issue_617 pins `(!(+ x 1) ..`) *)
  v_core_raw : bool }.            (* get-unsat-core prints raw names *)

(* the working tree, as the translator reads it *)
Definition faithful : variant :=
  {| v_table := gen_tokenNames; v_quote_empty := gen_protect_empty; v_quote_minus_digit := gen_protect_minus_digit;
     v_view_key_bug := gen_disamb_key_is_view_data; v_sort_raw := gen_sort_raw_names;
     v_default_raw := gen_default_definition_raw_name; v_create_any := gen_formal_args_unchecked;
     v_formal_by_term := gen_clash_by_term;
     v_assign_raw := gen_assignment_raw_names; v_assign_seekp := gen_assignment_seekp_unguarded;
     v_assign_format := gen_assignment_text_as_format; v_echo_raw := gen_echo_raw_names; v_echo_bang_glued := gen_echo_bang_glued;
     v_core_raw := gen_core_raw_names |}.

(* the pinned commit, written out: the refutations are stated about it and stay true when the tree is repaired;
   Properties_C17.model_is_pinned_code records that the working tree still is this variant *)
Definition pinned_tokenNames : list string :=
  ["none"; "as"; "decimal"; "numeral"; "par"; "string"; "exists"; "forall"; "assert"; "check-sat"; "declare-sort"; "define-sort"; "declare-fun"; "declare-const"; "define-fun"; "exit"; "get-assertions"; "get-assignment"; "get-info"; "set-info"; "get-option"; "set-option"; "get-proof"; "get-unsat-core"; "get-value"; "get-model"; "pop"; "push"; "set-logic"; "get-interpolants"; "theory"; "write-state"; "read-state"; "simplify"; "write-funs"; "let"; "echo"].

Definition pinned : variant :=
  {| v_table := pinned_tokenNames; v_quote_empty := false; v_quote_minus_digit := false;
     v_view_key_bug := true; v_sort_raw := true; v_default_raw := true; v_create_any := true; v_formal_by_term := true;
     v_assign_raw := true; v_assign_seekp := true; v_assign_format := true; v_echo_raw := true; v_echo_bang_glued := true; v_core_raw := true |}.

(* the tree when this file was last brought up to date: the pinned commit plus the repairs applied since
   (36568bf: get-assignment guards the seekp and passes the answer as an argument of "%s") *)
Definition current : variant :=
  {| v_table := pinned_tokenNames; v_quote_empty := false; v_quote_minus_digit := false;
     v_view_key_bug := true; v_sort_raw := true; v_default_raw := true; v_create_any := true; v_formal_by_term := true;
     v_assign_raw := true; v_assign_seekp := false; v_assign_format := false; v_echo_raw := true; v_echo_bang_glued := true; v_core_raw := true |}.

(* the table after proposed_fixes/C17_series/01_protect_name: the words both lexers reserve and the table lacked *)
Definition series_tokenNames : list string :=
  pinned_tokenNames ++ ["_"; "!"; "BINARY"; "DECIMAL"; "HEXADECIMAL"; "NUMERAL"; "STRING"; "match"; "check-sat-assuming";
                        "declare-datatype"; "declare-datatypes"; "define-fun-rec"; "define-funs-rec"; "get-unsat-assumptions";
                        "reset"; "reset-assertions"].

(* words that the two lexers reserve and the table lacks *)
Definition missing_reserved : list string :=
  filter (fun w => negb (mem_str w gen_tokenNames)) (std_reserved ++ gen_lexer_reserved).

Definition repaired : variant :=
  {| v_table := gen_tokenNames ++ missing_reserved; v_quote_empty := true; v_quote_minus_digit := true;
     v_view_key_bug := false; v_sort_raw := false; v_default_raw := false; v_create_any := false; v_formal_by_term := false;
     v_assign_raw := false; v_assign_seekp := false; v_assign_format := false; v_echo_raw := false; v_echo_bang_glued := false; v_core_raw := false |}.

(* ---------------------------------------------------------------------------------------------
   Logic::hasQuotableChars, isReservedWord, protectName *)
Definition is_simple_char (c : ascii) : bool := in_set c gen_simple_chars.

Definition hasQuotableChars (name : string) : bool :=
  if gen_already_quoted_shortcut && Ascii.eqb (front name) c_bar && Ascii.eqb (back name) c_bar then false
  else str_existsb (fun c => negb (is_simple_char c)) name.

Definition isdigit0 (name : string) : bool := is_digit (front name).
Definition isReservedWord (v : variant) (name : string) : bool := mem_str name (v_table v).
Definition minus_digit (name : string) : bool :=
  match name with String c (String d _) => Ascii.eqb c c_minus && is_digit d | _ => false end.

Definition protectName (v : variant) (name : string) (isInterpreted : bool) : string :=
  if (if gen_protect_interp then negb isInterpreted else true)
     && ((gen_protect_quotable && hasQuotableChars name)
         || (gen_protect_digit && isdigit0 name)
         || (gen_protect_reserved && isReservedWord v name)
         || (v_quote_empty v && negb (nonempty name))
         || (v_quote_minus_digit v && minus_digit name))
  then in_bars name else name.

(* ---------------------------------------------------------------------------------------------
   sorts *)
Inductive sort := Sort (name : string) (args : list sort).

Fixpoint sortToString (v : variant) (s : sort) : string :=
  match s with
  | Sort name args =>
    let n := if v_sort_raw v then name else protectName v name false in
    match args with
    | [] => n
    | _ => "(" ++ n ++ " " ++ join " " (map (sortToString v) args) ++ ")"
    end
  end.

(* ---------------------------------------------------------------------------------------------
   symbols, the symbol table as far as printing reads it *)
Record symdecl := {
  sd_name : string;
  sd_args : list sort;
  sd_ret : sort;
  sd_interp : bool }.

Definition sd_nullary (d : symdecl) : bool := match sd_args d with [] => true | _ => false end.

(* PtStore::isAmbiguousNullarySymbolName(key): at least two nullary symbols are called key.  The pinned code counts the
   constants fixed by the language too (the numeral 1 beside a user symbol |1|; it never finds them, because of the key);
   the repair, and what a reader needs (needs_qualification below), count the uninterpreted ones only. *)
Definition homonyms (uninterpreted_only : bool) (env : list symdecl) (key : string) : nat :=
  List.length (filter (fun d => String.eqb (sd_name d) key && sd_nullary d && (negb uninterpreted_only || negb (sd_interp d))) env).

Definition is_ambiguous (env : list symdecl) (key : string) : bool := 2 <=? homonyms true env key.

Definition isQuoted (s : string) : bool :=
  (2 <? String.length s) && Ascii.eqb (front s) c_bar && Ascii.eqb (back s) c_bar.
Definition inner (s : string) : string := removelast_str (tail_str s).
Definition isKnownToUser (name : string) : bool := negb (Ascii.eqb (front name) (front gen_abstract_prefix)).

Definition disambiguateName (v : variant) (env : list symdecl) (protectedName : string) (sortStr : string)
           (isNullary isInterpreted : bool) : string :=
  if negb isNullary || isInterpreted then protectedName
  else
    let name := if isQuoted protectedName then inner protectedName else protectedName in
    (* the key the symbol store is asked for: name.data() is not NUL-terminated at the end of the view *)
    let key := if isQuoted protectedName && v_view_key_bug v then inner protectedName ++ bar else name in
    if negb (isKnownToUser name) || (2 <=? homonyms (negb (v_view_key_bug v)) env key)
    then "(as " ++ protectedName ++ " " ++ sortStr ++ ")"
    else protectedName.

Definition symToString (v : variant) (env : list symdecl) (d : symdecl) : string :=
  disambiguateName v env (protectName v (sd_name d) (sd_interp d)) (sortToString v (sd_ret d))
                   (sd_nullary d) (sd_interp d).

(* ---------------------------------------------------------------------------------------------
   terms *)
Inductive term :=
| TApp (d : symdecl) (args : list term)
| TNumC (neg : bool) (num : string) (den : option string).   (* |value| as GMP prints it: num or num/den *)

Fixpoint print_term (v : variant) (env : list symdecl) (t : term) : string :=
  match t with
  | TApp d [] => symToString v env d
  | TApp d args =>
    "(" ++ symToString v env d ++ String.concat "" (map (fun a => " " ++ print_term v env a) args) ++ ")"
  | TNumC neg num None => if neg then "(- " ++ num ++ ")" else num
  | TNumC neg num (Some den) =>
    if neg then "(/ (- " ++ num ++ ") " ++ den ++ ")" else "(/ " ++ num ++ " " ++ den ++ ")"
  end.

(* ---------------------------------------------------------------------------------------------
   formal parameters of printed definitions *)
Definition formal_base (symName : string) : string :=
  if String.prefix gen_formal_prefix symName
  then String (ascii_of_nat ((code (front symName) + 1) mod 26 + 97)) (tail_str gen_formal_prefix)
  else gen_formal_prefix.

Record definition := {
  df_name : string;                       (* as it is printed after define-fun *)
  df_params : list (string * sort);       (* formal parameter names (unprotected) and sorts *)
  df_ret : sort }.

Fixpoint sort_eqb (a b : sort) : bool :=
  match a, b with
  | Sort n1 l1, Sort n2 l2 =>
    String.eqb n1 n2 &&
    (fix go (x y : list sort) : bool :=
       match x, y with
       | [], [] => true
       | p :: x', q :: y' => sort_eqb p q && go x' y'
       | _, _ => false
       end) l1 l2
  end.

(* Model::isFormalArgNameFree (repair): every symbol called name is a nullary symbol of this sort *)
Definition arg_name_free (tbl : list symdecl) (name : string) (s : sort) : bool :=
  forallb (fun d => negb (String.eqb (sd_name d) name) || (sd_nullary d && sort_eqb (sd_ret d) s)) tbl.

Definition var_decl (name : string) (s : sort) : symdecl :=
  {| sd_name := name; sd_args := []; sd_ret := s; sd_interp := false |}.

(* name = base + num++ (pinned: taken as it comes; repaired: until it is free); fuel bounds the skipped candidates *)
Fixpoint next_param (v : variant) (tbl : list symdecl) (base : string) (s : sort) (num fuel : nat) : option (string * nat) :=
  match fuel with
  | O => None
  | S f => let name := base ++ dec num in
           if v_create_any v || arg_name_free tbl name s then Some (name, S num)
           else next_param v tbl base s (S num) f
  end.

(* the formal parameters of one definition; tbl: the symbols of the logic, extended by the variables created *)
Fixpoint create_params (v : variant) (tbl : list symdecl) (base : string) (num : nat) (sorts : list sort)
  : option (list (string * sort) * nat * list symdecl) :=
  match sorts with
  | [] => Some ([], num, tbl)
  | s :: r =>
    match next_param v tbl base s num (S (List.length tbl)) with
    | None => None
    | Some (name, num') =>
      match create_params v (var_decl name s :: tbl) base num' r with
      | None => None
      | Some (ps, n2, tbl2) => Some ((name, s) :: ps, n2, tbl2)
      end
    end
  end.

(* ModelBuilder::addToTheoryFunction: the first valuation of a function creates its signature;
   uniqueNum is a counter of the builder *)
Definition builder_definition (v : variant) (tbl : list symdecl) (d : symdecl) (uniqueNum : nat)
  : option (definition * nat * list symdecl) :=
  match create_params v tbl (formal_base (sd_name d)) uniqueNum (sd_args d) with
  | None => None
  | Some (ps, u', tbl') =>
    Some ({| df_name := protectName v (sd_name d) (sd_interp d); df_params := ps; df_ret := sd_ret d |}, u', tbl')
  end.

(* Model::getDefinition for a symbol the builder never saw *)
Definition default_definition (v : variant) (tbl : list symdecl) (d : symdecl) : option (definition * list symdecl) :=
  match create_params v tbl (formal_base (sd_name d)) 0 (sd_args d) with
  | None => None
  | Some (ps, _, tbl') =>
    Some ({| df_name := if v_default_raw v then sd_name d else protectName v (sd_name d) (sd_interp d);
             df_params := ps; df_ret := sd_ret d |}, tbl')
  end.

(* NameClashResolver (Interpret.cc:753).  forbidden: the user's nullary symbols.  The code compares PTRefs of
   variables, i.e. name and sort together (v_formal_by_term); the repair compares names, against every user symbol. *)
(* hasClash.  faithful: the parameter is one of the user's constants (same name and sort: the same PTRef).
   repaired: its name is the name of any user symbol, or some parameter of any printed definition (allp: the parameters
   of all definitions, which exist as variables of the logic) has the same name and another sort. *)
Definition clashes (v : variant) (user : list symdecl) (allp : list (string * sort)) (p : string * sort) : bool :=
  if v_formal_by_term v
  then existsb (fun u => sd_nullary u && String.eqb (sd_name u) (fst p) && sort_eqb (sd_ret u) (snd p)) user
  else existsb (fun u => String.eqb (sd_name u) (fst p)) user
       || existsb (fun q => String.eqb (fst q) (fst p) && negb (sort_eqb (snd q) (snd p))) allp.

(* the loop condition of the renaming.  faithful: forbiddenVars.find(var), again by term; repaired: logic.hasSym(name),
   any symbol of that name (avoid: the names the logic knows: user symbols, all parameters, the names chosen so far) *)
Definition taken (v : variant) (user : list symdecl) (avoid : list string) (name : string) (s : sort) : bool :=
  if v_formal_by_term v
  then existsb (fun u => sd_nullary u && String.eqb (sd_name u) name && sort_eqb (sd_ret u) s) user
  else mem_str name avoid.

Definition safe_prefix (fname : string) : string :=
  if Ascii.eqb (front fname) (front gen_safe_prefix_char) then gen_safe_prefix_if else gen_safe_prefix_else.

(* do { name = prefix + num++ } while (taken): fuel bounds the number of skipped candidates *)
Fixpoint fresh_param (v : variant) (user : list symdecl) (avoid : list string) (prefix : string) (s : sort) (num fuel : nat)
  : option (string * nat) :=
  match fuel with
  | O => None
  | S f => let name := prefix ++ dec num in
           if taken v user avoid name s then fresh_param v user avoid prefix s (S num) f
           else Some (name, S num)
  end.

Fixpoint rename_params (v : variant) (user : list symdecl) (avoid : list string) (prefix : string)
         (ps : list (string * sort)) (num : nat) : option (list (string * sort) * nat * list string) :=
  match ps with
  | [] => Some ([], num, avoid)
  | (_, s) :: r =>
    match fresh_param v user avoid prefix s num (S (List.length user + List.length avoid)) with
    | None => None
    | Some (name, num') =>
      match rename_params v user (name :: avoid) prefix r num' with
      | None => None
      | Some (l, n2, av2) => Some ((name, s) :: l, n2, av2)
      end
    end
  end.

(* one function definition through the resolver *)
Definition resolve_one (v : variant) (user : list symdecl) (allp : list (string * sort)) (avoid : list string)
           (d : symdecl) (df : definition) (num : nat) : option (definition * nat * list string) :=
  if existsb (clashes v user allp) (df_params df) then
    match rename_params v user avoid (safe_prefix (sd_name d)) (df_params df) num with
    | None => None
    | Some (ps, num', av') =>
      Some ({| df_name := protectName v (sd_name d) (sd_interp d); df_params := ps; df_ret := df_ret df |}, num', av')
    end
  else Some (df, num, avoid).

Fixpoint resolve_loop (v : variant) (user : list symdecl) (allp : list (string * sort)) (avoid : list string)
         (fs : list (symdecl * definition)) (num : nat) : option (list definition) :=
  match fs with
  | [] => Some []
  | (d, df) :: r =>
    match resolve_one v user allp avoid d df num with
    | None => None
    | Some (df', num', av') =>
      match resolve_loop v user allp av' r num' with None => None | Some l => Some (df' :: l) end
    end
  end.

Definition all_params (fs : list (symdecl * definition)) : list (string * sort) :=
  flat_map (fun x => df_params (snd x)) fs.

Definition resolve_clashes (v : variant) (user : list symdecl) (fs : list (symdecl * definition)) : option (list definition) :=
  let allp := all_params fs in
  resolve_loop v user allp (map sd_name user ++ map fst allp) fs 0.

(* Interpret::printDefinitionSmtlib: the part of the text before the body *)
Definition def_header_const (v : variant) (d : symdecl) : string :=
  "  (define-fun " ++ protectName v (sd_name d) (sd_interp d) ++ " () " ++ sortToString v (sd_ret d).

Definition def_header_fun (v : variant) (df : definition) : string :=
  "  (define-fun " ++ df_name df ++ " ("
  ++ join " " (map (fun p => "(" ++ protectName v (fst p) false ++ " " ++ sortToString v (snd p) ++ ")") (df_params df))
  ++ ") " ++ sortToString v (df_ret df).

(* ---------------------------------------------------------------------------------------------
   Interpret::notify_formatted with no variadic argument supplied (the text is the format) *)
Inductive fmtres := FmtOut (s : string) | FmtUB (printed_before : string).

Definition fmt_cons (c : ascii) (r : fmtres) : fmtres :=
  match r with FmtOut s => FmtOut (String c s) | FmtUB s => FmtUB (String c s) end.

Fixpoint fmt_interp (s : string) : fmtres :=
  match s with
  | EmptyString => FmtOut EmptyString
  | String c r =>
    if Ascii.eqb c "%"%char then
      match r with
      | EmptyString => FmtUB EmptyString           (* the NUL is taken as the conversion, scanning continues past it *)
      | String d r' =>
        if Ascii.eqb d "s"%char || Ascii.eqb d "d"%char then FmtUB EmptyString   (* va_arg without an argument *)
        else if Ascii.eqb d "%"%char then fmt_cons "%"%char (fmt_interp r')
        else fmt_interp r'                          (* unknown conversion: both characters dropped *)
      end
    else fmt_cons c (fmt_interp r)
  end.

(* Interpret::getAssignment: names in insertion order with their values ("true" / "false" / "unknown") *)
Definition assignment_text (v : variant) (l : list (string * string)) : fmtres :=
  let nm := fun s => if v_assign_raw v then s else protectName v s false in
  let body := "(" ++ String.concat "" (map (fun p => "(" ++ nm (fst p) ++ " " ++ snd p ++ ") ") l) in
  (* ss.seekp(-1, cur); ss << ')' : the last character (the separator after the last pair) is overwritten; the pinned
     code does so also when there is no pair and the last character is the opening parenthesis *)
  let text := match l with
              | [] => if v_assign_seekp v then removelast_str body ++ ")" else body ++ ")"
              | _ => removelast_str body ++ ")"
              end in
  if v_assign_format v then fmt_interp text else FmtOut text.

(* NamedUnsatCore: one name per line between "(" and ")" *)
Definition core_names_text (v : variant) (names : list string) : string :=
  "(" ++ String c_nl EmptyString
  ++ String.concat "" (map (fun n => (if v_core_raw v then n else protectName v n false) ++ String c_nl EmptyString) names)
  ++ ")".

(* ---------------------------------------------------------------------------------------------
   get-value: the echo of the requested term (printAstTermNode) *)
Inductive ahead := H_sym (name : string) | H_as (name : string) (s : sort).

Inductive ast :=
| A_const (text : string)                       (* TERM_T: a literal, printed as written *)
| A_sym (name : string)                         (* QID_T over SYM_T / QSYM_T: getValue() is the name without bars *)
| A_as (name : string) (s : sort)               (* QID_T over AS_T: getValue() is NULL *)
| A_app (h : ahead) (args : list ast)           (* LQID_T *)
| A_bang (t : ast) (name : string)              (* BANG_T with :named *)
| A_let (bs : list (string * ast)) (body : ast).

(* output so far, and whether std::cout went bad (a NULL char* was streamed): nothing is printed afterwards *)
Definition out := (string * bool)%type.
Definition o_str (s : string) : out := (s, false).
Definition o_dead : out := (EmptyString, true).
Definition o_seq (a b : out) : out := if snd a then a else (fst a ++ fst b, snd b).
Fixpoint o_concat (l : list out) : out := match l with [] => o_str EmptyString | x :: r => o_seq x (o_concat r) end.
Fixpoint o_sep (sep : string) (l : list out) : out :=
  match l with
  | [] => o_str EmptyString
  | [x] => x
  | x :: r => o_seq x (o_seq (o_str sep) (o_sep sep r))
  end.

Fixpoint echo (v : variant) (a : ast) : out :=
  let nm := fun s => if v_echo_raw v then s else protectName v s false in
  match a with
  | A_const text => o_str text
  | A_sym name => o_str (nm name)
  | A_as name s =>
    if v_echo_raw v then o_dead else o_str ("(as " ++ nm name ++ " " ++ sortToString v s ++ ")")
  | A_app h args =>
    let hd := match h with
              | H_sym name => o_str (nm name)
              | H_as name s => if v_echo_raw v then o_dead
                               else o_str ("(as " ++ nm name ++ " " ++ sortToString v s ++ ")")
              end in
    o_concat [o_str "("; hd; o_str " "; o_sep " " (map (echo v) args); o_str ")"]
  | A_bang t name =>
    o_concat [o_str (if v_echo_bang_glued v then "(!" else "(! "); echo v t; o_str (" :named " ++ nm name ++ ")")]
  | A_let bs body =>
    o_concat [o_str "(let ("; o_sep " " (map (fun b => o_concat [o_str ("(" ++ nm (fst b) ++ " "); echo v (snd b); o_str ")"]) bs);
              o_str ") "; echo v body; o_str ")"]
  end.

(* what the request denotes, as an s-expression over normalised tokens (the reader's view of the source text) *)
Definition sym_tok (name : string) : sexp := SAtom (TSym name).

Fixpoint sort_sexp (s : sort) : sexp :=
  match s with
  | Sort n [] => sym_tok n
  | Sort n args => SList (sym_tok n :: map sort_sexp args)
  end.

(* ---------------------------------------------------------------------------------------------
   Logic::dumpHeaderToFile: one declaration line *)
Definition dump_sort_decl (v : variant) (name : string) (arity : nat) : string :=
  "(declare-sort " ++ (if v_sort_raw v then name else protectName v name false) ++ " " ++ dec arity ++ ")".

Definition dump_decl (v : variant) (env : list symdecl) (d : symdecl) (isConstant : bool) : string :=
  (if isConstant then "(declare-const " else "(declare-fun ") ++ symToString v env d ++ " ("
  ++ String.concat "" (map (fun s => sortToString v s ++ " ") (sd_args d)) ++ ") " ++ sortToString v (sd_ret d) ++ ")".

(* what a get-value request denotes, as an s-expression over normalised tokens (the reader's view of the source) *)
Definition const_tok (text : string) : token :=
  if str_existsb (Ascii.eqb c_dot) text then TDec text else TNum text.

Definition head_sexp (h : ahead) : sexp :=
  match h with
  | H_sym name => sym_tok name
  | H_as name s => SList [SAtom (TRes "as"); sym_tok name; sort_sexp s]
  end.

Fixpoint ast_sexp (a : ast) : sexp :=
  match a with
  | A_const text => SAtom (const_tok text)
  | A_sym name => sym_tok name
  | A_as name s => SList [SAtom (TRes "as"); sym_tok name; sort_sexp s]
  | A_app h args => SList (head_sexp h :: map ast_sexp args)
  | A_bang t name => SList [SAtom (TRes "!"); ast_sexp t; SAtom (TKey "named"); sym_tok name]
  | A_let bs body =>
    SList [SAtom (TRes "let"); SList (map (fun b => SList [sym_tok (fst b); ast_sexp (snd b)]) bs); ast_sexp body]
  end.

(* the text reads back (under cfg) as exactly this s-expression, |x| and x identified *)
Definition reads_as (cfg : lexcfg) (text : string) (e : sexp) : Prop :=
  option_map (map norm_sexp) (read_sexps cfg text) = Some [e].

(* the same for terms: what print_term's output has to denote *)
Definition sym_sexp (v : variant) (env : list symdecl) (d : symdecl) (qualified : bool) : sexp :=
  if qualified then SList [SAtom (TRes "as"); sym_tok (sd_name d); sort_sexp (sd_ret d)] else sym_tok (sd_name d).

(* what a printed term has to denote: a nullary uninterpreted symbol that is overloaded (or carries the
   abstract-value prefix) can only be identified together with its sort *)
Definition needs_qualification (env : list symdecl) (d : symdecl) : bool :=
  sd_nullary d && negb (sd_interp d) && (negb (isKnownToUser (sd_name d)) || is_ambiguous env (sd_name d)).

Definition num_sexp (neg : bool) (num : string) : sexp :=
  if neg then SList [sym_tok "-"; SAtom (TNum num)] else SAtom (TNum num).

Fixpoint term_sexp (env : list symdecl) (t : term) : sexp :=
  match t with
  | TApp d [] =>
    if needs_qualification env d then SList [SAtom (TRes "as"); sym_tok (sd_name d); sort_sexp (sd_ret d)]
    else sym_tok (sd_name d)
  | TApp d args => SList (sym_tok (sd_name d) :: map (term_sexp env) args)
  | TNumC neg num None => num_sexp neg num
  | TNumC neg num (Some den) => SList [sym_tok "/"; num_sexp neg num; SAtom (TNum den)]
  end.
