(* C17: compositional facts about the lexer (Reader.v): fuel never runs out on lex, results do not depend on the fuel,
   and one lemma per token shape saying how a printed token in front of a delimited rest is read. *)
From Coq Require Import String Ascii List Bool Arith Lia.
From OsmtV.Print Require Import Gen_Tokens Reader ReaderProofs.
Import ListNotations.
Open Scope string_scope.
Open Scope nat_scope.

(* ---------------------------------------------------------------------------------------------
   the scanners return suffixes *)
Lemma scan_quoted_length : forall s q rest, scan_quoted s = Some (q, rest) -> String.length rest < String.length s.
Proof.
  induction s as [|c r IH]; simpl; intros q rest H; [discriminate|].
  destruct (Ascii.eqb c c_bar); [inversion H; subst; lia|].
  destruct (Ascii.eqb c c_bslash); [discriminate|].
  destruct (is_printable c || std_white c); [|discriminate].
  destruct (scan_quoted r) as [[a b]|] eqn:E; [|discriminate].
  inversion H; subst. specialize (IH _ _ eq_refl). lia.
Qed.

Lemma scan_string_length : forall n s q rest, String.length s <= n -> scan_string s = Some (q, rest) ->
  String.length rest < String.length s.
Proof.
  induction n; intros s q rest Hn H.
  - destruct s; simpl in *; [discriminate|lia].
  - destruct s as [|c r]; [discriminate|]. simpl in H. simpl in Hn.
    destruct (Ascii.eqb c c_dq).
    + destruct r as [|d r'].
      * inversion H; subst. simpl. lia.
      * destruct (Ascii.eqb d c_dq).
        -- destruct (scan_string r') as [[a b]|] eqn:E; [|discriminate]. inversion H; subst.
           assert (String.length rest < String.length r') by (apply (IHn r' a rest); [simpl in Hn; lia|exact E]).
           simpl. lia.
        -- inversion H; subst. simpl. lia.
    + destruct (scan_string r) as [[a b]|] eqn:E; [|discriminate]. inversion H; subst.
      assert (String.length rest < String.length r) by (apply (IHn r a rest); [lia|exact E]). simpl. lia.
Qed.

Lemma drop_line_length : forall s, String.length (drop_line s) <= String.length s.
Proof. induction s as [|c r IH]; simpl; [lia|]. destruct (Ascii.eqb c c_nl); lia. Qed.

Lemma span_length_lt : forall p c r, p c = true -> String.length (snd (span p (String c r))) < String.length (String c r).
Proof.
  intros p c r H. simpl. rewrite H. pose proof (span_length p r). destruct (span p r). simpl in *. lia.
Qed.

Lemma scan_number_length : forall c r, is_digit c = true ->
  String.length (snd (scan_number (String c r))) < String.length (String c r).
Proof.
  intros c r H. unfold scan_number.
  pose proof (span_length_lt is_digit c r H) as L.
  destruct (span is_digit (String c r)) as [d1 r1] eqn:E. simpl in L.
  destruct r1 as [|x r2]; [simpl; exact L|].
  destruct (Ascii.eqb x c_dot); [|simpl; exact L].
  pose proof (span_length is_digit r2) as L2.
  destruct (span is_digit r2) as [d2 r3]. simpl in L2.
  destruct (nonempty d2); simpl in *; lia.
Qed.

(* ---------------------------------------------------------------------------------------------
   fuel *)
Lemma cons_tok_fuel : forall t r, cons_tok t r = OutOfFuel -> r = OutOfFuel.
Proof. intros t [] H; simpl in H; congruence. Qed.

Lemma lex_fuel_enough : forall cfg f s, String.length s < f -> lex_fuel cfg f s <> OutOfFuel.
Proof.
  induction f; intros s Hf; [lia|]. destruct s as [|c r]; [discriminate|]. cbn [lex_fuel].
  simpl in Hf.
  assert (IHr : forall s', String.length s' <= String.length r -> lex_fuel cfg f s' <> OutOfFuel)
    by (intros s' Hs; apply IHf; lia).
  destruct (lc_white cfg c); [apply IHr; lia|].
  destruct (Ascii.eqb c c_semi); [apply IHr; apply drop_line_length|].
  destruct (Ascii.eqb c c_lp); [intro H; apply cons_tok_fuel in H; revert H; apply IHr; lia|].
  destruct (Ascii.eqb c c_rp); [intro H; apply cons_tok_fuel in H; revert H; apply IHr; lia|].
  destruct (Ascii.eqb c c_bar).
  { destruct (scan_quoted r) as [[q rest]|] eqn:E; [|discriminate].
    intro H; apply cons_tok_fuel in H; revert H; apply IHr. apply scan_quoted_length in E. lia. }
  destruct (Ascii.eqb c c_dq).
  { destruct (scan_string r) as [[q rest]|] eqn:E; [|discriminate].
    intro H; apply cons_tok_fuel in H; revert H; apply IHr.
    apply (scan_string_length (String.length r)) in E; lia. }
  destruct (Ascii.eqb c c_colon).
  { pose proof (span_length (lc_symchar cfg) r) as L. destruct (span (lc_symchar cfg) r) as [k rest]. simpl in L.
    destruct (nonempty k); [|discriminate].
    intro H; apply cons_tok_fuel in H; revert H; apply IHr. exact L. }
  destruct (Ascii.eqb c c_hash).
  { destruct r as [|x r']; [discriminate|].
    destruct (Ascii.eqb x "x"%char).
    - pose proof (span_length is_hexdigit r') as L. destruct (span is_hexdigit r') as [h rest]. simpl in L.
      destruct (nonempty h); [|discriminate].
      intro H; apply cons_tok_fuel in H; revert H; apply IHr. simpl. lia.
    - destruct (Ascii.eqb x "b"%char); [|discriminate].
      pose proof (span_length is_bindigit r') as L. destruct (span is_bindigit r') as [h rest]. simpl in L.
      destruct (nonempty h); [|discriminate].
      intro H; apply cons_tok_fuel in H; revert H; apply IHr. simpl. lia. }
  destruct (is_digit c) eqn:Ed.
  { pose proof (scan_number_length c r Ed) as L. destruct (scan_number (String c r)) as [t rest]. simpl in L.
    intro H; apply cons_tok_fuel in H; revert H; apply IHr. lia. }
  destruct (lc_symchar cfg c) eqn:Es; [|discriminate].
  pose proof (span_length_lt (lc_symchar cfg) c r Es) as L. destruct (span (lc_symchar cfg) (String c r)) as [w rest].
  simpl in L. intro H; apply cons_tok_fuel in H; revert H; apply IHr. lia.
Qed.

Theorem lex_never_out_of_fuel : forall cfg s, lex cfg s <> OutOfFuel.
Proof. intros cfg s. unfold lex. apply lex_fuel_enough. lia. Qed.

(* a result other than OutOfFuel does not depend on the fuel *)
Lemma cons_tok_mono : forall t r r', (r <> OutOfFuel -> r' = r) -> cons_tok t r <> OutOfFuel -> cons_tok t r' = cons_tok t r.
Proof.
  intros t r r' H Hn. destruct r; simpl in *; try (rewrite H; [reflexivity|discriminate]). congruence.
Qed.

Definition lex_body (cfg : lexcfg) (rec : string -> lexres) (c : ascii) (r : string) : lexres :=
  if lc_white cfg c then rec r
  else if Ascii.eqb c c_semi then rec (drop_line r)
  else if Ascii.eqb c c_lp then cons_tok TLP (rec r)
  else if Ascii.eqb c c_rp then cons_tok TRP (rec r)
  else if Ascii.eqb c c_bar then
    match scan_quoted r with
    | Some (q, rest) => cons_tok (TQSym q) (rec rest)
    | None => LexError
    end
  else if Ascii.eqb c c_dq then
    match scan_string r with
    | Some (q, rest) => cons_tok (TStr q) (rec rest)
    | None => LexError
    end
  else if Ascii.eqb c c_colon then
    let (k, rest) := span (lc_symchar cfg) r in
    if nonempty k then cons_tok (TKey k) (rec rest) else LexError
  else if Ascii.eqb c c_hash then
    match r with
    | String x r' =>
      if Ascii.eqb x "x"%char then
        let (h, rest) := span is_hexdigit r' in
        if nonempty h then cons_tok (THex h) (rec rest) else LexError
      else if Ascii.eqb x "b"%char then
        let (h, rest) := span is_bindigit r' in
        if nonempty h then cons_tok (TBin h) (rec rest) else LexError
      else LexError
    | EmptyString => LexError
    end
  else if is_digit c then
    let (t, rest) := scan_number (String c r) in cons_tok t (rec rest)
  else if lc_symchar cfg c then
    let (w, rest) := span (lc_symchar cfg) (String c r) in cons_tok (classify cfg w) (rec rest)
  else LexError.

Lemma lex_fuel_S : forall cfg f c r, lex_fuel cfg (S f) (String c r) = lex_body cfg (lex_fuel cfg f) c r.
Proof. reflexivity. Qed.

Lemma lex_body_mono : forall cfg (rec rec' : string -> lexres) c r,
  (forall s, rec s <> OutOfFuel -> rec' s = rec s) ->
  lex_body cfg rec c r <> OutOfFuel -> lex_body cfg rec' c r = lex_body cfg rec c r.
Proof.
  intros cfg rec rec' c r Hrec. unfold lex_body.
  destruct (lc_white cfg c); [apply Hrec|].
  destruct (Ascii.eqb c c_semi); [apply Hrec|].
  destruct (Ascii.eqb c c_lp); [intro H; apply cons_tok_mono; [apply Hrec|exact H]|].
  destruct (Ascii.eqb c c_rp); [intro H; apply cons_tok_mono; [apply Hrec|exact H]|].
  destruct (Ascii.eqb c c_bar).
  { destruct (scan_quoted r) as [[q rest]|]; [|reflexivity]. intro H; apply cons_tok_mono; [apply Hrec|exact H]. }
  destruct (Ascii.eqb c c_dq).
  { destruct (scan_string r) as [[q rest]|]; [|reflexivity]. intro H; apply cons_tok_mono; [apply Hrec|exact H]. }
  destruct (Ascii.eqb c c_colon).
  { destruct (span (lc_symchar cfg) r) as [k rest]. destruct (nonempty k); [|reflexivity].
    intro H; apply cons_tok_mono; [apply Hrec|exact H]. }
  destruct (Ascii.eqb c c_hash).
  { destruct r as [|x r']; [reflexivity|].
    destruct (Ascii.eqb x "x"%char).
    - destruct (span is_hexdigit r') as [h rest]. destruct (nonempty h); [|reflexivity].
      intro H; apply cons_tok_mono; [apply Hrec|exact H].
    - destruct (Ascii.eqb x "b"%char); [|reflexivity].
      destruct (span is_bindigit r') as [h rest]. destruct (nonempty h); [|reflexivity].
      intro H; apply cons_tok_mono; [apply Hrec|exact H]. }
  destruct (is_digit c).
  { destruct (scan_number (String c r)) as [t rest]. intro H; apply cons_tok_mono; [apply Hrec|exact H]. }
  destruct (lc_symchar cfg c); [|reflexivity].
  destruct (span (lc_symchar cfg) (String c r)) as [w rest]. intro H; apply cons_tok_mono; [apply Hrec|exact H].
Qed.

Lemma lex_fuel_mono : forall cfg f s, lex_fuel cfg f s <> OutOfFuel -> lex_fuel cfg (S f) s = lex_fuel cfg f s.
Proof.
  induction f; intros s H; [simpl in H; congruence|].
  destruct s as [|c r]; [reflexivity|].
  rewrite (lex_fuel_S cfg (S f)), (lex_fuel_S cfg f). rewrite lex_fuel_S in H.
  apply lex_body_mono; [exact IHf|exact H].
Qed.

Lemma lex_fuel_mono_le : forall cfg f f' s, f <= f' -> lex_fuel cfg f s <> OutOfFuel -> lex_fuel cfg f' s = lex_fuel cfg f s.
Proof.
  intros cfg f f' s Hle. induction Hle; intros H; [reflexivity|].
  rewrite lex_fuel_mono; [apply IHHle; exact H|]. rewrite IHHle; exact H.
Qed.

(* the text lexes to these tokens (with some fuel) *)
Definition lexes (cfg : lexcfg) (s : string) (l : list token) : Prop := exists f, lex_fuel cfg f s = Toks l.

Lemma lexes_lex : forall cfg s l, lexes cfg s l -> lex cfg s = Toks l.
Proof.
  intros cfg s l [f H]. unfold lex.
  destruct (Nat.le_ge_cases f (S (String.length s))) as [L|L].
  - rewrite (lex_fuel_mono_le cfg f _ s L); [exact H|]. rewrite H. discriminate.
  - rewrite <- H. symmetry. apply lex_fuel_mono_le; [exact L|]. apply lex_fuel_enough. lia.
Qed.

Lemma lexes_nil : forall cfg, lexes cfg EmptyString [].
Proof. intros cfg. exists 1. reflexivity. Qed.

(* ---------------------------------------------------------------------------------------------
   one step of the lexer per token shape *)
Lemma digit_special_free : forall c, is_digit c = true -> special_free c = true.
Proof.
  intros c. apply implb_elim. revert c.
  apply (all_ascii (fun c => implb (is_digit c) (special_free c))). vm_compute. reflexivity.
Qed.

Section Steps.
Variable cfg : lexcfg.
Hypothesis Hok : cfg_ok cfg.

Lemma step_white : forall c r l, lc_white cfg c = true -> lexes cfg r l -> lexes cfg (String c r) l.
Proof. intros c r l Hw [f H]. exists (S f). cbn [lex_fuel]. rewrite Hw. exact H. Qed.

Lemma lp_branches : lc_white cfg c_lp = false /\ lc_white cfg c_rp = false.
Proof.
  split.
  - destruct (lc_white cfg c_lp) eqn:E; [|reflexivity]. apply (ok_white cfg Hok) in E. vm_compute in E. discriminate.
  - destruct (lc_white cfg c_rp) eqn:E; [|reflexivity]. apply (ok_white cfg Hok) in E. vm_compute in E. discriminate.
Qed.

Lemma step_lp : forall r l, lexes cfg r l -> lexes cfg (String c_lp r) (TLP :: l).
Proof.
  intros r l [f H]. exists (S f). cbn [lex_fuel]. rewrite (proj1 lp_branches).
  change (Ascii.eqb c_lp c_semi) with false. change (Ascii.eqb c_lp c_lp) with true. cbv iota. rewrite H. reflexivity.
Qed.

Lemma step_rp : forall r l, lexes cfg r l -> lexes cfg (String c_rp r) (TRP :: l).
Proof.
  intros r l [f H]. exists (S f). cbn [lex_fuel]. rewrite (proj2 lp_branches).
  change (Ascii.eqb c_rp c_semi) with false. change (Ascii.eqb c_rp c_lp) with false.
  change (Ascii.eqb c_rp c_rp) with true. cbv iota. rewrite H. reflexivity.
Qed.

Lemma step_quoted : forall s r l, legal_symbol s -> lexes cfg r l ->
  lexes cfg (String c_bar (s ++ String c_bar r)) (TQSym s :: l).
Proof.
  intros s r l Hl [f H]. exists (S f). cbn [lex_fuel]. rewrite (bar_branches cfg Hok).
  change (Ascii.eqb c_bar c_semi) with false. change (Ascii.eqb c_bar c_lp) with false.
  change (Ascii.eqb c_bar c_rp) with false. change (Ascii.eqb c_bar c_bar) with true. cbv iota.
  rewrite (scan_quoted_app s r Hl). rewrite H. reflexivity.
Qed.

(* the rest does not continue the word *)
Definition stops (p : ascii -> bool) (rest : string) : Prop :=
  match rest with EmptyString => True | String c _ => p c = false end.

Lemma step_word : forall w r l, nonempty w = true -> str_forallb (lc_symchar cfg) w = true -> first_is_digit w = false ->
  stops (lc_symchar cfg) r -> lexes cfg r l -> lexes cfg (w ++ r) (classify cfg w :: l).
Proof.
  intros w r l Hne Hall Hd Hst [f H]. exists (S f).
  destruct w as [|c w']; [discriminate|]. cbn [append lex_fuel].
  simpl in Hall. apply andb_true_iff in Hall as [Hc Hr].
  pose proof (ok_symchar_special cfg Hok c Hc) as Hs.
  destruct (special_free_branches cfg c Hok Hs) as (W & E1 & E2 & E3 & E4 & E5 & E6 & E7).
  rewrite W, E1, E2, E3, E4, E5, E6, E7. simpl in Hd. rewrite Hd, Hc.
  change (String c (w' ++ r)) with (String c w' ++ r).
  rewrite (span_all (lc_symchar cfg) (String c w') r); [|simpl; rewrite Hc, Hr; reflexivity|exact Hst].
  rewrite H. reflexivity.
Qed.

(* a numeral: digits, the rest starts neither with a digit nor with a dot *)
Lemma step_num : forall d r l, nonempty d = true -> str_forallb is_digit d = true ->
  stops (fun c => is_digit c || Ascii.eqb c c_dot) r -> lexes cfg r l -> lexes cfg (d ++ r) (TNum d :: l).
Proof.
  intros d r l Hne Hall Hst [f H]. exists (S f).
  destruct d as [|c d']; [discriminate|]. cbn [append lex_fuel].
  simpl in Hall. apply andb_true_iff in Hall as [Hc Hr].
  pose proof (digit_special_free c Hc) as Hsp.
  destruct (special_free_branches cfg c Hok Hsp) as (W & E1 & E2 & E3 & E4 & E5 & E6 & E7).
  rewrite W, E1, E2, E3, E4, E5, E6, E7, Hc.
  change (String c (d' ++ r)) with (String c d' ++ r). unfold scan_number.
  assert (Hst1 : stops is_digit r).
  { destruct r as [|x r']; [exact I|]. simpl in *. apply orb_false_iff in Hst as [A _]. exact A. }
  rewrite (span_all is_digit (String c d') r); [|simpl; rewrite Hc, Hr; reflexivity|exact Hst1].
  destruct r as [|x r'].
  - rewrite H. reflexivity.
  - simpl in Hst. apply orb_false_iff in Hst as [_ B]. rewrite B. rewrite H. reflexivity.
Qed.

Lemma colon_white : lc_white cfg c_colon = false.
Proof.
  destruct (lc_white cfg c_colon) eqn:E; [|reflexivity]. apply (ok_white cfg Hok) in E. vm_compute in E. discriminate.
Qed.

(* a keyword: the colon and a word of symbol characters *)
Lemma step_key : forall k r l, nonempty k = true -> str_forallb (lc_symchar cfg) k = true ->
  stops (lc_symchar cfg) r -> lexes cfg r l -> lexes cfg (String c_colon (k ++ r)) (TKey k :: l).
Proof.
  intros k r l Hne Hall Hst [f H]. exists (S f). cbn [lex_fuel]. rewrite colon_white.
  change (Ascii.eqb c_colon c_semi) with false. change (Ascii.eqb c_colon c_lp) with false.
  change (Ascii.eqb c_colon c_rp) with false. change (Ascii.eqb c_colon c_bar) with false.
  change (Ascii.eqb c_colon c_dq) with false. change (Ascii.eqb c_colon c_colon) with true. cbv iota.
  rewrite (span_all (lc_symchar cfg) k r Hall Hst). rewrite Hne. rewrite H. reflexivity.
Qed.

(* a decimal: digits . digits *)
Lemma step_dec : forall d1 d2 r l, nonempty d1 = true -> str_forallb is_digit d1 = true ->
  nonempty d2 = true -> str_forallb is_digit d2 = true -> stops is_digit r -> lexes cfg r l ->
  lexes cfg (d1 ++ String c_dot (d2 ++ r)) (TDec (d1 ++ String c_dot d2) :: l).
Proof.
  intros d1 d2 r l Hn1 Ha1 Hn2 Ha2 Hst [f H]. exists (S f).
  destruct d1 as [|c d1']; [discriminate|]. cbn [append lex_fuel].
  simpl in Ha1. apply andb_true_iff in Ha1 as [Hc Hr].
  pose proof (digit_special_free c Hc) as Hsp.
  destruct (special_free_branches cfg c Hok Hsp) as (W & E1 & E2 & E3 & E4 & E5 & E6 & E7).
  rewrite W, E1, E2, E3, E4, E5, E6, E7, Hc.
  change (String c (d1' ++ String c_dot (d2 ++ r))) with (String c d1' ++ String c_dot (d2 ++ r)). unfold scan_number.
  rewrite (span_all is_digit (String c d1') (String c_dot (d2 ++ r))); [|simpl; rewrite Hc, Hr; reflexivity|reflexivity].
  change (Ascii.eqb c_dot c_dot) with true. cbv iota.
  rewrite (span_all is_digit d2 r Ha2 Hst). rewrite Hn2. rewrite H. reflexivity.
Qed.

End Steps.
