(* C17: facts about the lexer model (Reader.v). *)
From Coq Require Import String Ascii List Bool Arith Lia.
From OsmtV.Print Require Import Gen_Tokens Reader.
Import ListNotations.
Open Scope string_scope.
Open Scope nat_scope.

(* ---------------------------------------------------------------------------------------------
   small facts on strings *)
Lemma in_set_forall : forall (P : ascii -> bool) s,
  str_forallb P s = true -> forall c, in_set c s = true -> P c = true.
Proof.
  induction s as [|d r IH]; simpl; intros H c Hc; [discriminate|].
  apply andb_true_iff in H as [Hd Hr].
  destruct (Ascii.eqb c d) eqn:E.
  - apply Ascii.eqb_eq in E; subst; exact Hd.
  - apply IH; assumption.
Qed.

Lemma str_forallb_app : forall p a b, str_forallb p (a ++ b) = str_forallb p a && str_forallb p b.
Proof. induction a; simpl; intros; [reflexivity|]. rewrite IHa, andb_assoc; reflexivity. Qed.

Lemma str_forallb_impl : forall (p q : ascii -> bool) s,
  (forall c, p c = true -> q c = true) -> str_forallb p s = true -> str_forallb q s = true.
Proof.
  induction s; simpl; intros Hpq H; [reflexivity|].
  apply andb_true_iff in H as [H1 H2]. rewrite (Hpq _ H1), IHs; auto.
Qed.

Lemma length_app : forall a b, String.length (a ++ b) = String.length a + String.length b.
Proof. induction a; simpl; intros; [reflexivity|]. rewrite IHa; reflexivity. Qed.

Lemma app_empty_r : forall s, s ++ "" = s.
Proof. induction s; simpl; congruence. Qed.

Lemma app_assoc_str : forall a b c : string, (a ++ b) ++ c = a ++ (b ++ c).
Proof. induction a; simpl; intros; congruence. Qed.

Lemma app_inv_tail_str : forall a b c : string, a ++ c = b ++ c -> a = b.
Proof.
  induction a as [|x a IH]; destruct b as [|y b]; simpl; intros c H.
  - reflexivity.
  - exfalso. apply (f_equal String.length) in H. simpl in H. rewrite length_app in H. lia.
  - exfalso. apply (f_equal String.length) in H. simpl in H. rewrite length_app in H. lia.
  - inversion H; subst. f_equal. eapply IH; eassumption.
Qed.

Lemma mem_str_In : forall s l, mem_str s l = true <-> In s l.
Proof.
  unfold mem_str; intros; rewrite existsb_exists; split.
  - intros [x [Hin E]]. apply String.eqb_eq in E; subst; assumption.
  - intros H; exists s; split; [assumption|apply String.eqb_refl].
Qed.

(* ---------------------------------------------------------------------------------------------
   span *)
Lemma span_all : forall p s rest,
  str_forallb p s = true ->
  (match rest with EmptyString => True | String c _ => p c = false end) ->
  span p (s ++ rest) = (s, rest).
Proof.
  induction s as [|c r IH]; simpl; intros rest H Hr.
  - destruct rest as [|c r]; simpl; [reflexivity|]. rewrite Hr; reflexivity.
  - apply andb_true_iff in H as [H1 H2]. rewrite H1, (IH rest H2 Hr). reflexivity.
Qed.

Lemma span_length : forall p s, String.length (snd (span p s)) <= String.length s.
Proof.
  induction s as [|c r IH]; simpl; [lia|].
  destruct (p c); simpl; [|lia]. destruct (span p r); simpl in *; lia.
Qed.

(* ---------------------------------------------------------------------------------------------
   quoted symbols *)
Lemma scan_quoted_app : forall s rest,
  legal_symbol s -> scan_quoted (s ++ String c_bar rest) = Some (s, rest).
Proof.
  unfold legal_symbol. induction s as [|c r IH]; simpl; intros rest H.
  - reflexivity.
  - apply andb_true_iff in H as [Hc Hr]. unfold legal_char in Hc.
    apply andb_true_iff in Hc as [Hc Hbs]. apply andb_true_iff in Hc as [Hp Hb].
    apply negb_true_iff in Hb, Hbs. rewrite Hb, Hbs, Hp, (IH rest Hr). reflexivity.
Qed.

(* a quoted symbol that scans is legal: the reader accepts nothing else between bars *)
Lemma scan_quoted_legal : forall s q rest, scan_quoted s = Some (q, rest) -> legal_symbol q.
Proof.
  unfold legal_symbol. induction s as [|c r IH]; simpl; intros q rest H; [discriminate|].
  destruct (Ascii.eqb c c_bar) eqn:Eb; [inversion H; reflexivity|].
  destruct (Ascii.eqb c c_bslash) eqn:Es; [discriminate|].
  destruct (is_printable c || std_white c) eqn:Ep; [|discriminate].
  destruct (scan_quoted r) as [[a b]|] eqn:Er; [|discriminate].
  inversion H; subst. simpl. apply andb_true_iff; split.
  - unfold legal_char. rewrite Ep, Eb, Es. reflexivity.
  - exact (IH _ _ eq_refl).
Qed.

(* ---------------------------------------------------------------------------------------------
   lexer configurations the theorems cover *)
Definition special_free (c : ascii) : bool :=
  negb (std_white c) && negb (Ascii.eqb c c_semi) && negb (Ascii.eqb c c_lp) && negb (Ascii.eqb c c_rp)
  && negb (Ascii.eqb c c_bar) && negb (Ascii.eqb c c_dq) && negb (Ascii.eqb c c_colon) && negb (Ascii.eqb c c_hash).

Record cfg_ok (cfg : lexcfg) : Prop := {
  ok_white : forall c, lc_white cfg c = true -> std_white c = true;
  ok_symchar_special : forall c, lc_symchar cfg c = true -> special_free c = true }.

(* every ascii satisfies a decidable predicate that holds on all 256 codes *)
Fixpoint all_ascii_below (n : nat) (P : ascii -> bool) : bool :=
  match n with O => true | S k => P (ascii_of_nat k) && all_ascii_below k P end.

Lemma all_ascii_below_spec : forall n P, all_ascii_below n P = true -> forall k, k < n -> P (ascii_of_nat k) = true.
Proof.
  induction n; simpl; intros P H k Hk; [lia|].
  apply andb_true_iff in H as [H1 H2].
  destruct (Nat.eq_dec k n); [subst; assumption|]. apply IHn; [assumption|lia].
Qed.

Lemma all_ascii : forall P, all_ascii_below 256 P = true -> forall c, P c = true.
Proof.
  intros P H c. rewrite <- (ascii_nat_embedding c). apply (all_ascii_below_spec 256 P H). apply nat_ascii_bounded.
Qed.

Lemma implb_elim : forall a b, implb a b = true -> a = true -> b = true.
Proof. intros [] []; simpl; congruence. Qed.

Lemma std_cfg_ok : cfg_ok std_cfg.
Proof.
  split; simpl.
  - auto.
  - intros c. apply implb_elim. revert c.
    apply (all_ascii (fun c => implb (std_symchar c) (special_free c))). vm_compute. reflexivity.
Qed.

Lemma osmt_cfg_ok : cfg_ok osmt_cfg.
Proof.
  split; simpl.
  - intros c. apply implb_elim. revert c.
    apply (all_ascii (fun c => implb (osmt_white c) (std_white c))). vm_compute. reflexivity.
  - intros c. apply implb_elim. revert c.
    apply (all_ascii (fun c => implb (osmt_symchar c) (special_free c))). vm_compute. reflexivity.
Qed.

(* ---------------------------------------------------------------------------------------------
   reading one symbol *)
Lemma special_free_branches : forall cfg c, cfg_ok cfg -> special_free c = true ->
  lc_white cfg c = false /\ Ascii.eqb c c_semi = false /\ Ascii.eqb c c_lp = false /\ Ascii.eqb c c_rp = false
  /\ Ascii.eqb c c_bar = false /\ Ascii.eqb c c_dq = false /\ Ascii.eqb c c_colon = false /\ Ascii.eqb c c_hash = false.
Proof.
  intros cfg c Hok H. unfold special_free in H.
  repeat (apply andb_true_iff in H as [H ?]).
  repeat match goal with h : negb _ = true |- _ => apply negb_true_iff in h end.
  repeat split; try assumption.
  destruct (lc_white cfg c) eqn:E; [|reflexivity]. apply (ok_white cfg Hok) in E. congruence.
Qed.

Lemma bar_branches : forall cfg, cfg_ok cfg ->
  lc_white cfg c_bar = false.
Proof.
  intros cfg Hok. destruct (lc_white cfg c_bar) eqn:E; [|reflexivity].
  apply (ok_white cfg Hok) in E. vm_compute in E. discriminate.
Qed.

(* |s| reads back as s, for every legal name *)
Lemma lex_fuel_quoted : forall cfg f s, cfg_ok cfg -> legal_symbol s ->
  lex_fuel cfg (S (S f)) (String c_bar (s ++ String c_bar EmptyString)) = Toks [TQSym s].
Proof.
  intros cfg f s Hok Hl. cbn [lex_fuel]. rewrite (bar_branches cfg Hok).
  change (Ascii.eqb c_bar c_semi) with false. change (Ascii.eqb c_bar c_lp) with false.
  change (Ascii.eqb c_bar c_rp) with false. change (Ascii.eqb c_bar c_bar) with true. cbv iota.
  rewrite (scan_quoted_app s EmptyString Hl). reflexivity.
Qed.

Theorem read_quoted : forall cfg s, cfg_ok cfg -> legal_symbol s ->
  read_symbol cfg (String c_bar (s ++ String c_bar EmptyString)) = Some s.
Proof.
  intros cfg s Hok Hl. unfold read_symbol, lex. simpl String.length.
  rewrite (lex_fuel_quoted cfg _ s Hok Hl). reflexivity.
Qed.

(* a word of symbol characters that does not start with a digit reads back as classify says *)
Lemma lex_word : forall cfg w, cfg_ok cfg -> nonempty w = true -> str_forallb (lc_symchar cfg) w = true ->
  first_is_digit w = false -> lex cfg w = Toks [classify cfg w].
Proof.
  intros cfg w Hok Hne Hall Hd. destruct w as [|c r]; [discriminate|].
  unfold lex. simpl String.length. cbn [lex_fuel].
  simpl in Hall. apply andb_true_iff in Hall as [Hc Hr].
  pose proof (ok_symchar_special cfg Hok c Hc) as Hs.
  destruct (special_free_branches cfg c Hok Hs) as (W & E1 & E2 & E3 & E4 & E5 & E6 & E7).
  rewrite W, E1, E2, E3, E4, E5, E6, E7. simpl in Hd. rewrite Hd, Hc.
  pose proof (span_all (lc_symchar cfg) (String c r) EmptyString) as Hsp.
  rewrite app_empty_r in Hsp. rewrite Hsp; [|simpl; rewrite Hc, Hr; reflexivity|exact I].
  cbn [lex_fuel cons_tok]. reflexivity.
Qed.

Theorem read_simple : forall cfg s, cfg_ok cfg -> is_simple cfg s = true -> read_symbol cfg s = Some s.
Proof.
  intros cfg s Hok H. unfold is_simple in H.
  repeat (apply andb_true_iff in H as [H ?]).
  repeat match goal with h : negb _ = true |- _ => apply negb_true_iff in h end.
  unfold read_symbol. rewrite (lex_word cfg s Hok); try assumption.
  unfold classify. rewrite H0, H1. reflexivity.
Qed.

(* the reference printer round-trips every legal name, under either lexer *)
Theorem quote_symbol_roundtrip : forall cfg s, cfg_ok cfg -> legal_symbol s ->
  read_symbol cfg (quote_symbol cfg s) = Some s.
Proof.
  intros cfg s Hok Hl. unfold quote_symbol. destruct (is_simple cfg s) eqn:E.
  - apply read_simple; assumption.
  - apply read_quoted; assumption.
Qed.


Lemma mem_str_In_false : forall s l, mem_str s l = false -> ~ In s l.
Proof. intros s l H Hin. apply mem_str_In in Hin. congruence. Qed.
