(* C17: proofs about the printer models (Quote.v) against the reader (Reader.v). *)
From Coq Require Import String Ascii List Bool Arith Lia DecimalString Decimal DecimalNat.
From OsmtV.Print Require Import Gen_Tokens Reader ReaderProofs Quote.
Import ListNotations.
Open Scope string_scope.
Open Scope nat_scope.

(* ---------------------------------------------------------------------------------------------
   the guards of Logic::protectName as the translator found them in the source: the proofs below need all four *)
Lemma flag_interp : gen_protect_interp = true. Proof. reflexivity. Qed.
Lemma flag_quotable : gen_protect_quotable = true. Proof. reflexivity. Qed.
Lemma flag_digit : gen_protect_digit = true. Proof. reflexivity. Qed.
Lemma flag_reserved : gen_protect_reserved = true. Proof. reflexivity. Qed.

(* the characters Logic::hasQuotableChars lets through are symbol characters of the lexer *)
Definition simple_sub (cfg : lexcfg) : Prop := forall c, is_simple_char c = true -> lc_symchar cfg c = true.

Lemma simple_sub_std : simple_sub std_cfg.
Proof.
  intros c. apply implb_elim. revert c.
  apply (all_ascii (fun c => implb (is_simple_char c) (std_symchar c))). vm_compute. reflexivity.
Qed.

Lemma simple_sub_osmt : simple_sub osmt_cfg.
Proof.
  intros c. apply implb_elim. revert c.
  apply (all_ascii (fun c => implb (is_simple_char c) (osmt_symchar c))). vm_compute. reflexivity.
Qed.

Lemma protect_cases : forall v s,
  protectName v s false = in_bars s \/
  (protectName v s false = s /\ hasQuotableChars s = false /\ isdigit0 s = false /\ isReservedWord v s = false
   /\ (v_quote_empty v = true -> nonempty s = true) /\ (v_quote_minus_digit v = true -> minus_digit s = false)).
Proof.
  intros v s. unfold protectName. rewrite flag_interp, flag_quotable, flag_digit, flag_reserved. simpl.
  destruct (hasQuotableChars s) eqn:E1; simpl; [left; reflexivity|].
  destruct (isdigit0 s) eqn:E2; simpl; [left; reflexivity|].
  destruct (isReservedWord v s) eqn:E3; simpl; [left; reflexivity|].
  destruct (v_quote_empty v) eqn:E4; simpl.
  - destruct (nonempty s) eqn:E5; simpl; [|left; reflexivity].
    destruct (v_quote_minus_digit v) eqn:E6; simpl.
    + destruct (minus_digit s) eqn:E7; [left; reflexivity|]. right. repeat split; auto.
    + right. repeat split; auto. discriminate.
  - destruct (v_quote_minus_digit v) eqn:E6; simpl.
    + destruct (minus_digit s) eqn:E7; [left; reflexivity|]. right. repeat split; auto; discriminate.
    + right. repeat split; auto; discriminate.
Qed.

Lemma legal_front_not_bar : forall s, legal_symbol s -> Ascii.eqb (front s) c_bar = false.
Proof.
  unfold legal_symbol. destruct s as [|c r]; simpl; intros H; [reflexivity|].
  apply andb_true_iff in H as [H _]. unfold legal_char in H.
  apply andb_true_iff in H as [H _]. apply andb_true_iff in H as [_ H]. apply negb_true_iff in H. exact H.
Qed.

Lemma existsb_neg_forallb : forall p s, str_existsb (fun c => negb (p c)) s = false -> str_forallb p s = true.
Proof.
  induction s; simpl; intros H; [reflexivity|].
  apply orb_false_iff in H as [H1 H2]. apply negb_false_iff in H1. rewrite H1, (IHs H2). reflexivity.
Qed.

Lemma not_quotable_simple : forall s, legal_symbol s -> hasQuotableChars s = false ->
  str_forallb is_simple_char s = true.
Proof.
  intros s Hl H. unfold hasQuotableChars in H. rewrite (legal_front_not_bar s Hl) in H.
  rewrite andb_false_r in H. simpl in H. apply existsb_neg_forallb. exact H.
Qed.

Lemma posdigit_digit : forall c, is_posdigit c = true -> is_digit c = true.
Proof.
  unfold is_posdigit, is_digit. intros c H. apply andb_true_iff in H as [H1 H2].
  apply Nat.leb_le in H1. rewrite H2, andb_true_r. apply Nat.leb_le. lia.
Qed.

Local Arguments is_digit : simpl never.
Local Arguments is_posdigit : simpl never.

Lemma neg_numlike_minus_digit : forall s, neg_numlike s = true -> minus_digit s = true.
Proof.
  intros s H. destruct s as [|c r]; [discriminate|]. cbn [neg_numlike] in H.
  apply andb_true_iff in H as [Hc H]. cbn [minus_digit].
  destruct r as [|d r']; [discriminate|]. rewrite Hc. simpl andb.
  apply orb_true_iff in H as [H|H]; [apply orb_true_iff in H as [H|H]|].
  - cbn [posnum] in H. apply andb_true_iff in H as [H _]. apply posdigit_digit. exact H.
  - cbn [split_at] in H. destruct (Ascii.eqb d c_slash) eqn:E; [discriminate|].
    destruct (split_at c_slash r') as [[a b]|]; [|discriminate].
    apply andb_true_iff in H as [H _]. cbn [posnum] in H. apply andb_true_iff in H as [H _].
    apply posdigit_digit. exact H.
  - cbn [split_at] in H. destruct (Ascii.eqb d c_dot) eqn:E; [discriminate|].
    destruct (split_at c_dot r') as [[a b]|]; [|discriminate].
    apply andb_true_iff in H as [H _]. unfold all_digits in H. cbn [nonempty str_forallb] in H.
    simpl andb in H. apply andb_true_iff in H as [H _]. exact H.
Qed.

(* C17 (partial): Logic::protectName round-trips a legal name under a lexer whose reserved words the table knows,
   unless the name is empty or (for opensmt's own lexer) looks like a negative number -- or the variant quotes those. *)
Theorem protect_roundtrip_general : forall v cfg s,
  cfg_ok cfg -> simple_sub cfg -> legal_symbol s ->
  (nonempty s = true \/ v_quote_empty v = true) ->
  (mem_str s (lc_reserved cfg) = true -> mem_str s (v_table v) = true) ->
  (lc_neg_numerals cfg = true -> neg_numlike s = true -> v_quote_minus_digit v = true) ->
  read_symbol cfg (protectName v s false) = Some s.
Proof.
  intros v cfg s Hok Hsub Hl Hne Hres Hneg.
  destruct (protect_cases v s) as [E | (E & Hq & Hd & Hr & He & Hm)]; rewrite E.
  - apply read_quoted; assumption.
  - assert (Hn : nonempty s = true) by (destruct Hne as [?|Hq']; [assumption|exact (He Hq')]).
    unfold read_symbol. rewrite (lex_word cfg s Hok Hn).
    + unfold classify.
      destruct (lc_neg_numerals cfg && neg_numlike s) eqn:EN.
      * apply andb_true_iff in EN as [N1 N2]. pose proof (Hm (Hneg N1 N2)) as Hmd.
        rewrite (neg_numlike_minus_digit s N2) in Hmd. discriminate.
      * destruct (mem_str s (lc_reserved cfg)) eqn:ER; [|reflexivity].
        unfold isReservedWord in Hr. rewrite (Hres eq_refl) in Hr. discriminate.
    + apply (str_forallb_impl is_simple_char); [exact Hsub|]. apply not_quotable_simple; assumption.
    + destruct s; [discriminate|]. exact Hd.
Qed.

(* the working tree's variant *)
Theorem protect_roundtrip_partial_std : forall s,
  legal_symbol s -> (s <> EmptyString \/ v_quote_empty faithful = true) ->
  (In s std_reserved -> In s (v_table faithful)) ->
  read_symbol std_cfg (protectName faithful s false) = Some s.
Proof.
  intros s Hl Hne Hres. apply protect_roundtrip_general.
  - exact std_cfg_ok.
  - exact simple_sub_std.
  - exact Hl.
  - destruct Hne as [Hne|Hq]; [left; destruct s; [congruence|reflexivity] | right; exact Hq].
  - cbn [lc_reserved std_cfg]. intros H. apply mem_str_In. apply Hres. apply mem_str_In. exact H.
  - cbn [lc_neg_numerals std_cfg]. discriminate.
Qed.

Theorem protect_roundtrip_partial_osmt : forall s,
  legal_symbol s -> (s <> EmptyString \/ v_quote_empty faithful = true) ->
  (In s gen_lexer_reserved -> In s (v_table faithful)) ->
  (neg_numlike s = false \/ v_quote_minus_digit faithful = true) ->
  read_symbol osmt_cfg (protectName faithful s false) = Some s.
Proof.
  intros s Hl Hne Hres Hnn. apply protect_roundtrip_general.
  - exact osmt_cfg_ok.
  - exact simple_sub_osmt.
  - exact Hl.
  - destruct Hne as [Hne|Hq]; [left; destruct s; [congruence|reflexivity] | right; exact Hq].
  - cbn [lc_reserved osmt_cfg]. intros H. apply mem_str_In. apply Hres. apply mem_str_In. exact H.
  - intros _ H. destruct Hnn as [Hnn|Hq]; [rewrite H in Hnn; discriminate | exact Hq].
Qed.

(* where the pinned code fails *)
Definition roundtrip_fails (cfg : lexcfg) (v : variant) (s : string) : Prop :=
  legal_symbol s /\ read_symbol cfg (protectName v s false) <> Some s.

Theorem protect_roundtrip_refuted_reserved : roundtrip_fails std_cfg pinned "_" /\ roundtrip_fails osmt_cfg pinned "_"
  /\ roundtrip_fails std_cfg pinned "!" /\ roundtrip_fails osmt_cfg pinned "DECIMAL"
  /\ roundtrip_fails std_cfg pinned "match" /\ roundtrip_fails std_cfg pinned "check-sat-assuming".
Proof. repeat split; vm_compute; try reflexivity; discriminate. Qed.

Theorem protect_roundtrip_refuted_numlike : roundtrip_fails osmt_cfg pinned "-5" /\ roundtrip_fails osmt_cfg pinned "-1/3"
  /\ roundtrip_fails osmt_cfg pinned "-0.5".
Proof. repeat split; vm_compute; try reflexivity; discriminate. Qed.

Theorem protect_roundtrip_refuted_empty : roundtrip_fails std_cfg pinned "" /\ roundtrip_fails osmt_cfg pinned "".
Proof. repeat split; vm_compute; try reflexivity; discriminate. Qed.

(* the repaired variant: every legal name, both lexers *)
Lemma repaired_table_covers : forall s,
  mem_str s (std_reserved ++ gen_lexer_reserved) = true -> mem_str s (v_table repaired) = true.
Proof.
  intros s H. apply mem_str_In in H. apply mem_str_In. cbn [v_table repaired]. apply in_or_app.
  destruct (mem_str s gen_tokenNames) eqn:E.
  - left. apply mem_str_In. exact E.
  - right. unfold missing_reserved. apply filter_In. split; [exact H|]. rewrite E. reflexivity.
Qed.

Theorem protect_repaired_roundtrip_std : forall s, legal_symbol s ->
  read_symbol std_cfg (protectName repaired s false) = Some s.
Proof.
  intros s Hl. apply protect_roundtrip_general.
  - exact std_cfg_ok.
  - exact simple_sub_std.
  - exact Hl.
  - right. reflexivity.
  - cbn [lc_reserved std_cfg osmt_cfg]. intros H. apply repaired_table_covers. apply mem_str_In. apply in_or_app. left.
    apply mem_str_In. exact H.
  - reflexivity.
Qed.

Theorem protect_repaired_roundtrip_osmt : forall s, legal_symbol s ->
  read_symbol osmt_cfg (protectName repaired s false) = Some s.
Proof.
  intros s Hl. apply protect_roundtrip_general.
  - exact osmt_cfg_ok.
  - exact simple_sub_osmt.
  - exact Hl.
  - right. reflexivity.
  - cbn [lc_reserved std_cfg osmt_cfg]. intros H. apply repaired_table_covers. apply mem_str_In. apply in_or_app. right.
    apply mem_str_In. exact H.
  - reflexivity.
Qed.

(* ---------------------------------------------------------------------------------------------
   injectivity *)
Lemma legal_no_bar_app : forall a b, legal_symbol (a ++ String c_bar b) -> False.
Proof.
  unfold legal_symbol. induction a as [|c r IH]; intros b H.
  - cbn [append str_forallb] in H. replace (legal_char c_bar) with false in H by (vm_compute; reflexivity).
    discriminate.
  - cbn [append str_forallb] in H. apply andb_true_iff in H as [_ H]. eapply IH; eassumption.
Qed.

Theorem protect_injective : forall v s1 s2 i1 i2,
  legal_symbol s1 -> legal_symbol s2 ->
  protectName v s1 i1 = protectName v s2 i2 -> s1 = s2.
Proof.
  intros v s1 s2 i1 i2 H1 H2. unfold protectName.
  match goal with |- (if ?a then _ else _) = (if ?b then _ else _) -> _ => destruct a, b end; intros E.
  - unfold in_bars, bar in E. simpl in E. inversion E as [E']. apply app_inv_tail_str in E'. exact E'.
  - exfalso. unfold in_bars, bar in E. simpl in E. rewrite <- E in H2.
    apply (legal_no_bar_app EmptyString (s1 ++ String c_bar EmptyString)). exact H2.
  - exfalso. unfold in_bars, bar in E. simpl in E. rewrite E in H1.
    apply (legal_no_bar_app EmptyString (s2 ++ String c_bar EmptyString)). exact H1.
  - exact E.
Qed.

(* outside the legal names the printer is not injective (API level: a name that already carries bars) *)
Theorem protect_injective_illegal_refuted : exists s1 s2,
  s1 <> s2 /\ protectName pinned s1 false = protectName pinned s2 false.
Proof. exists "|a b|", "a b". split; [discriminate|vm_compute; reflexivity]. Qed.
