(* C21 — names and definitions follow the assertion-stack scopes.  Theorems only; the models are
   Names/ScopedVec.v, Names/TermNames.v, Names/DefinedFuns.v, the proofs Names/TermNamesProofs.v.
   [run fx fs ops]: the TermNames object driven by the client operations tryInsert / pushScope /
   popScope / change of :global-declarations; fx = false is the code as it is, fx = true the variant
   with the repaired eraseTermName; fs = true the variant whose popScope is guarded against a missing scope.  [spec_run fs ops]: a stack of scopes of (name, term) pairs. *)
From Coq Require Import List NArith Bool.
From OsmtV.Names Require Import ScopedVec TermNames TermNamesProofs DefinedFuns.
Import ListNotations.
Local Open Scope N_scope.

(* The class is the stack of scopes: for every operation sequence (and both variants) the state
   abstracts to exactly what the specification computes; both are undefined on the same sequences. *)
Theorem names_refine : forall fx fs ops, option_map abs (run fx fs ops) = spec_run fs ops.
Proof. intros fx fs; exact (names_refine_lemma fs fx). Qed.
Print Assumptions names_refine.

(* ... and every name-keyed observation (termByName, contains(name), iteration order) is the
   specification's. *)
Theorem names_observations_refine : forall fx fs ops s, run fx fs ops = Some s ->
  (forall n, term_by_name (fst s) n = spec_lookup (abs s) n) /\
  (forall n, contains_name (fst s) n = spec_has (abs s) n) /\
  iteration (fst s) = spec_all (abs s).
Proof. intros fx fs; exact (names_obs_lemma fs fx). Qed.
Print Assumptions names_observations_refine.

(* The claim "contains(t) holds exactly when some live name denotes t" is FALSE for the code as it
   is: three operations leave a term that contains() reports although no name is left, and
   nameForTerm on it is front() of an empty vector (undefined behaviour). *)
Theorem contains_term_refuted : exists ops s t,
  length ops = 3%nat /\ (forall fs, run false fs ops = Some s) /\
  contains_term (fst s) t = true /\ ~ named_by (abs s) t /\ name_for_term (fst s) t = PickUB.
Proof.
  exists [PushScope; Insert 1 7; PopScope]. eexists. exists 7.
  split; [reflexivity|]. split; [intros []; vm_compute; reflexivity|].
  split; [vm_compute; reflexivity|]. split; [|vm_compute; reflexivity].
  intros (n & Hn). vm_compute in Hn. discriminate.
Qed.
Print Assumptions contains_term_refuted.

(* With eraseTermName repaired (the entry is dropped with its last name) the claim holds for every
   operation sequence, nameForTerm is never undefined and only returns live names of that term. *)
Theorem contains_term_repaired : forall fs ops s t, run true fs ops = Some s ->
  (contains_term (fst s) t = true <-> named_by (abs s) t) /\
  name_for_term (fst s) t <> PickUB /\
  (forall n, name_for_term (fst s) t = PickName n -> spec_lookup (abs s) n = Some t).
Proof. exact contains_term_repaired_lemma. Qed.
Print Assumptions contains_term_repaired.

(* In both variants: a live name is always found, and a name that is actually picked is live. *)
Theorem named_terms_sound : forall fx fs ops s t, run fx fs ops = Some s ->
  (named_by (abs s) t -> contains_term (fst s) t = true) /\
  (forall n, name_for_term (fst s) t = PickName n -> spec_lookup (abs s) n = Some t).
Proof.
  intros fx fs ops s t E. split; [apply (contains_term_complete fs fx ops); exact E|].
  intros n; apply (picked_name_live fs fx ops); exact E.
Qed.
Print Assumptions named_terms_sound.

(* Names belong to the level where they were introduced: after (push) <balanced history> (pop)
   every name-keyed observation is what it was before the push ... *)
Theorem pop_restores_names : forall fx fs pre mid s0,
  run fx fs pre = Some s0 -> snd s0 = false -> balanced mid ->
  exists s, run fx fs (pre ++ PushScope :: mid ++ [PopScope]) = Some s /\ abs s = abs s0 /\
    (forall n, term_by_name (fst s) n = term_by_name (fst s0) n) /\
    (forall n, contains_name (fst s) n = contains_name (fst s0) n) /\
    iteration (fst s) = iteration (fst s0).
Proof. intros fx fs; exact (pop_restores_names_lemma fs fx). Qed.
Print Assumptions pop_restores_names.

(* ... so a name introduced inside the popped level cannot be referenced and can be introduced
   again, for any term. *)
Theorem popped_name_reusable : forall fx fs pre mid s0 n t',
  run fx fs pre = Some s0 -> snd s0 = false -> balanced mid ->
  contains_name (fst s0) n = false ->
  exists s, run fx fs (pre ++ PushScope :: mid ++ [PopScope]) = Some s /\
            term_by_name (fst s) n = None /\
            snd (try_insert n t' (fst s)) = true /\
            term_by_name (fst (try_insert n t' (fst s))) n = Some t'.
Proof. intros fx fs; exact (popped_name_reusable_lemma fs fx). Qed.
Print Assumptions popped_name_reusable.

(* tryInsert accepts a name exactly when no live scope holds it. *)
Theorem insert_accepts_iff_not_live : forall fx fs ops s n t, run fx fs ops = Some s ->
  snd (try_insert n t (fst s)) = negb (spec_has (abs s) n).
Proof. intros fx fs; exact (insert_iff_not_live fs fx). Qed.
Print Assumptions insert_accepts_iff_not_live.

(* With :global-declarations on (and left alone) nothing is undefined and every name persists,
   with its term, across any pushes and pops. *)
Theorem global_persists : forall fx fs ops x,
  no_set_global ops = true ->
  exists x', run_from fx fs (x, true) ops = Some (x', true) /\
    forall n t, term_by_name x n = Some t -> term_by_name x' n = Some t.
Proof. intros fx fs; exact (global_persists_lemma fs fx). Qed.
Print Assumptions global_persists.

Theorem global_insert_persists : forall fx fs ops x n t,
  no_set_global ops = true -> term_by_name x n = None ->
  exists x', run_from fx fs (x, true) (Insert n t :: ops) = Some (x', true) /\ term_by_name x' n = Some t.
Proof. intros fx fs; exact (global_insert_persists_lemma fs fx). Qed.
Print Assumptions global_insert_persists.

(* define-fun: the DefinedFunctions table answers like "global set + stack of scopes" after every
   history of (scoped or global) definitions, pushes and pops. *)
Theorem define_fun_scoped : forall ops,
  match drun ops, dspec_run ops with
  | Some d, Some sp => forall f, df_find d f = dspec_find sp f
  | None, None => True
  | _, _ => False
  end.
Proof. exact define_fun_scoped_lemma. Qed.
Print Assumptions define_fun_scoped.

(* Undefined behaviour.  If the switch is not changed, matched pushes/pops never reach it ... *)
Theorem matched_history_defined : forall fx fs ops,
  no_set_global ops = true -> pops_matched_from 0 ops = true -> run fx fs ops <> None.
Proof. intros fx fs; exact (matched_defined_lemma fs fx). Qed.
Print Assumptions matched_history_defined.

(* ... but "matched pushes/pops are always defined" is FALSE once :global-declarations is switched
   between a push and its pop: popScope then runs limits.back() on an empty vector. *)
Theorem toggled_global_pop_refuted : exists ops,
  pops_matched_from 0 ops = true /\ run false false ops = None /\ run true false ops = None.
Proof.
  exists [SetGlobal true; PushScope; SetGlobal false; PopScope].
  repeat split; vm_compute; reflexivity.
Qed.
Print Assumptions toggled_global_pop_refuted.

(* With the guarded popScope (nothing to do when no scope is open) no operation sequence at all is
   undefined, and everything above still holds (all theorems are stated for both values of fs). *)
Theorem guarded_pop_total : forall fx ops, run fx true ops <> None.
Proof. exact run_guarded_total. Qed.
Print Assumptions guarded_pop_total.

(* non-vacuity *)
Example refine_nonvacuous :
  exists s, run false false [Insert 1 10; PushScope; Insert 2 10; Insert 1 11; PushScope; Insert 3 12; PopScope] = Some s /\
    iteration (fst s) = [(1, 10); (2, 10)] /\ names_for_term (fst s) 10 = Some [1; 2] /\
    names_for_term (fst s) 12 = Some [] /\ abs s = mk_spec [(2, 10)] [[(1, 10)]] false.
Proof. eexists. split; [vm_compute; reflexivity|]. repeat split; vm_compute; reflexivity. Qed.

Example balanced_nonvacuous : balanced [Insert 5 6; PushScope; Insert 7 8; PopScope; Insert 9 9].
Proof. apply bal_ins. apply (bal_scope [Insert 7 8] [Insert 9 9]); repeat constructor. Qed.

Example define_nonvacuous :
  exists d, drun [DDefine false 1 100; DPush; DDefine false 2 200; DDefine true 3 300; DDefine false 1 101; DPop] = Some d /\
    df_find d 1 = Some 100 /\ df_find d 2 = None /\ df_find d 3 = Some 300.
Proof. eexists. split; [vm_compute; reflexivity|]. repeat split; vm_compute; reflexivity. Qed.
