(* C02 — a sat answer is never given for an unsatisfiable assertion set.  Theorems only. *)
From Coq Require Import ZArith QArith List Bool.
From OsmtV.Sem Require Import Syntax Eval Model SemProofs.
From OsmtV.Cnf Require Import Gen_TseitinTemplates TseitinModel TseitinProofs TruthTable.
Import ListNotations.

(* Every `sat` answer whose printed model passes the verified evaluator is correct. *)
Theorem c02_certified_sat : forall S M A, model_ok S M A = true -> sat S A.
Proof. exact model_ok_sat. Qed.
Print Assumptions c02_certified_sat.

(* The clause templates REGENERATED from src/cnfizers/Tseitin.cc define exactly  v <-> op(args):
   a flipped sign or a dropped clause in Tseitin.cc makes this theorem fail to compile. *)
Theorem tseitin_templates_iff :
  (forall v a b, tmpl_val v [a; b] tmpl_xor = true <-> v = xorb a b) /\
  (forall v a b, tmpl_val v [a; b] tmpl_iff = true <-> v = Bool.eqb a b) /\
  (forall v a b, tmpl_val v [a; b] tmpl_implies = true <-> v = implb a b) /\
  (forall v c a b, tmpl_val v [c; a; b] tmpl_ite = true <-> v = (if c then a else b)) /\
  (forall v args, nary_val and_big_head and_big_neg and_small v args = true <-> v = forallb (fun a => a) args) /\
  (forall v args, nary_val or_big_head or_big_neg or_small v args = true <-> v = existsb (fun a => a) args).
Proof.
  repeat split; try apply tmpl_xor_iff; try apply tmpl_iff_iff; try apply tmpl_implies_iff; try apply tmpl_ite_iff;
    try apply and_nary_iff; try apply or_nary_iff.
Qed.
Print Assumptions tseitin_templates_iff.

(* Completeness of the clausal translation (the direction a wrong `sat` would violate): an assignment of the
   SAT variables satisfying the emitted clauses of a formula satisfies the formula itself under the values
   of its atoms; and conversely every model of the formula extends to the clauses. For all formulas. *)
Theorem tseitin_complete : forall f,
  (forall sigma, cnf_holds sigma f = true -> eval (fun n => sigma (FAtom n)) f = true) /\
  (forall rho, eval rho f = true -> cnf_holds (eval rho) f = true).
Proof. exact tseitin_equisat. Qed.
Print Assumptions tseitin_complete.

(* The per-run tie: the extracted truth-table checker that compares the clauses actually handed to the SAT engine
   with the preprocessed formula is sound and complete for propositional validity. *)
Theorem cnf_tie_checker_decides : forall f, tt_valid f = true <-> (forall rho, eval rho f = true).
Proof. intros f. split; [apply tt_valid_sound | apply tt_valid_complete]. Qed.
Print Assumptions cnf_tie_checker_decides.

Example c02_nonvacuous :
  let f := FAnd [FOr [FAtom 1; FNot (FAtom 2)]; FXor (FAtom 2) (FAtom 3); FImp (FAtom 1) (FIff (FAtom 3) (FAtom 1))] in
  let rho := fun n => N.eqb n 1 || N.eqb n 3 in
  eval rho f = true /\ cnf_holds (eval rho) f = true.
Proof. split; vm_compute; reflexivity. Qed.
