
type nat =
| O
| S of nat

(** val fst : ('a1 * 'a2) -> 'a1 **)

let fst = function
| (x, _) -> x

(** val snd : ('a1 * 'a2) -> 'a2 **)

let snd = function
| (_, y) -> y

(** val length : 'a1 list -> nat **)

let rec length = function
| [] -> O
| _ :: l' -> S (length l')

(** val app : 'a1 list -> 'a1 list -> 'a1 list **)

let rec app l m =
  match l with
  | [] -> m
  | a :: l1 -> a :: (app l1 m)

type comparison =
| Eq
| Lt
| Gt

(** val compOpp : comparison -> comparison **)

let compOpp = function
| Eq -> Eq
| Lt -> Gt
| Gt -> Lt

module Coq__1 = struct
 (** val add : nat -> nat -> nat **)
 let rec add n m =
   match n with
   | O -> m
   | S p -> S (add p m)
end
include Coq__1

type positive =
| XI of positive
| XO of positive
| XH

type z =
| Z0
| Zpos of positive
| Zneg of positive

module Nat =
 struct
  (** val eqb : nat -> nat -> bool **)

  let rec eqb n m =
    match n with
    | O -> (match m with
            | O -> true
            | S _ -> false)
    | S n' -> (match m with
               | O -> false
               | S m' -> eqb n' m')
 end

module Pos =
 struct
  type mask =
  | IsNul
  | IsPos of positive
  | IsNeg
 end

module Coq_Pos =
 struct
  (** val succ : positive -> positive **)

  let rec succ = function
  | XI p -> XO (succ p)
  | XO p -> XI p
  | XH -> XO XH

  (** val add : positive -> positive -> positive **)

  let rec add x y =
    match x with
    | XI p ->
      (match y with
       | XI q0 -> XO (add_carry p q0)
       | XO q0 -> XI (add p q0)
       | XH -> XO (succ p))
    | XO p ->
      (match y with
       | XI q0 -> XI (add p q0)
       | XO q0 -> XO (add p q0)
       | XH -> XI p)
    | XH -> (match y with
             | XI q0 -> XO (succ q0)
             | XO q0 -> XI q0
             | XH -> XO XH)

  (** val add_carry : positive -> positive -> positive **)

  and add_carry x y =
    match x with
    | XI p ->
      (match y with
       | XI q0 -> XI (add_carry p q0)
       | XO q0 -> XO (add_carry p q0)
       | XH -> XI (succ p))
    | XO p ->
      (match y with
       | XI q0 -> XO (add_carry p q0)
       | XO q0 -> XI (add p q0)
       | XH -> XO (succ p))
    | XH ->
      (match y with
       | XI q0 -> XI (succ q0)
       | XO q0 -> XO (succ q0)
       | XH -> XI XH)

  (** val pred_double : positive -> positive **)

  let rec pred_double = function
  | XI p -> XI (XO p)
  | XO p -> XI (pred_double p)
  | XH -> XH

  type mask = Pos.mask =
  | IsNul
  | IsPos of positive
  | IsNeg

  (** val succ_double_mask : mask -> mask **)

  let succ_double_mask = function
  | IsNul -> IsPos XH
  | IsPos p -> IsPos (XI p)
  | IsNeg -> IsNeg

  (** val double_mask : mask -> mask **)

  let double_mask = function
  | IsPos p -> IsPos (XO p)
  | x0 -> x0

  (** val double_pred_mask : positive -> mask **)

  let double_pred_mask = function
  | XI p -> IsPos (XO (XO p))
  | XO p -> IsPos (XO (pred_double p))
  | XH -> IsNul

  (** val sub_mask : positive -> positive -> mask **)

  let rec sub_mask x y =
    match x with
    | XI p ->
      (match y with
       | XI q0 -> double_mask (sub_mask p q0)
       | XO q0 -> succ_double_mask (sub_mask p q0)
       | XH -> IsPos (XO p))
    | XO p ->
      (match y with
       | XI q0 -> succ_double_mask (sub_mask_carry p q0)
       | XO q0 -> double_mask (sub_mask p q0)
       | XH -> IsPos (pred_double p))
    | XH -> (match y with
             | XH -> IsNul
             | _ -> IsNeg)

  (** val sub_mask_carry : positive -> positive -> mask **)

  and sub_mask_carry x y =
    match x with
    | XI p ->
      (match y with
       | XI q0 -> succ_double_mask (sub_mask_carry p q0)
       | XO q0 -> double_mask (sub_mask p q0)
       | XH -> IsPos (pred_double p))
    | XO p ->
      (match y with
       | XI q0 -> double_mask (sub_mask_carry p q0)
       | XO q0 -> succ_double_mask (sub_mask_carry p q0)
       | XH -> double_pred_mask p)
    | XH -> IsNeg

  (** val sub : positive -> positive -> positive **)

  let sub x y =
    match sub_mask x y with
    | IsPos z0 -> z0
    | _ -> XH

  (** val mul : positive -> positive -> positive **)

  let rec mul x y =
    match x with
    | XI p -> add y (XO (mul p y))
    | XO p -> XO (mul p y)
    | XH -> y

  (** val iter : ('a1 -> 'a1) -> 'a1 -> positive -> 'a1 **)

  let rec iter f x = function
  | XI n' -> f (iter f (iter f x n') n')
  | XO n' -> iter f (iter f x n') n'
  | XH -> f x

  (** val size_nat : positive -> nat **)

  let rec size_nat = function
  | XI p0 -> S (size_nat p0)
  | XO p0 -> S (size_nat p0)
  | XH -> S O

  (** val size : positive -> positive **)

  let rec size = function
  | XI p0 -> succ (size p0)
  | XO p0 -> succ (size p0)
  | XH -> XH

  (** val compare_cont : comparison -> positive -> positive -> comparison **)

  let rec compare_cont r x y =
    match x with
    | XI p ->
      (match y with
       | XI q0 -> compare_cont r p q0
       | XO q0 -> compare_cont Gt p q0
       | XH -> Gt)
    | XO p ->
      (match y with
       | XI q0 -> compare_cont Lt p q0
       | XO q0 -> compare_cont r p q0
       | XH -> Gt)
    | XH -> (match y with
             | XH -> r
             | _ -> Lt)

  (** val compare : positive -> positive -> comparison **)

  let compare =
    compare_cont Eq

  (** val eqb : positive -> positive -> bool **)

  let rec eqb p q0 =
    match p with
    | XI p0 -> (match q0 with
                | XI q1 -> eqb p0 q1
                | _ -> false)
    | XO p0 -> (match q0 with
                | XO q1 -> eqb p0 q1
                | _ -> false)
    | XH -> (match q0 with
             | XH -> true
             | _ -> false)

  (** val gcdn : nat -> positive -> positive -> positive **)

  let rec gcdn n a b =
    match n with
    | O -> XH
    | S n0 ->
      (match a with
       | XI a' ->
         (match b with
          | XI b' ->
            (match compare a' b' with
             | Eq -> a
             | Lt -> gcdn n0 (sub b' a') a
             | Gt -> gcdn n0 (sub a' b') b)
          | XO b0 -> gcdn n0 a b0
          | XH -> XH)
       | XO a0 ->
         (match b with
          | XI _ -> gcdn n0 a0 b
          | XO b0 -> XO (gcdn n0 a0 b0)
          | XH -> XH)
       | XH -> XH)

  (** val gcd : positive -> positive -> positive **)

  let gcd a b =
    gcdn (Coq__1.add (size_nat a) (size_nat b)) a b

  (** val ggcdn :
      nat -> positive -> positive -> positive * (positive * positive) **)

  let rec ggcdn n a b =
    match n with
    | O -> (XH, (a, b))
    | S n0 ->
      (match a with
       | XI a' ->
         (match b with
          | XI b' ->
            (match compare a' b' with
             | Eq -> (a, (XH, XH))
             | Lt ->
               let (g, p) = ggcdn n0 (sub b' a') a in
               let (ba, aa) = p in (g, (aa, (add aa (XO ba))))
             | Gt ->
               let (g, p) = ggcdn n0 (sub a' b') b in
               let (ab, bb) = p in (g, ((add bb (XO ab)), bb)))
          | XO b0 ->
            let (g, p) = ggcdn n0 a b0 in
            let (aa, bb) = p in (g, (aa, (XO bb)))
          | XH -> (XH, (a, XH)))
       | XO a0 ->
         (match b with
          | XI _ ->
            let (g, p) = ggcdn n0 a0 b in
            let (aa, bb) = p in (g, ((XO aa), bb))
          | XO b0 -> let (g, p) = ggcdn n0 a0 b0 in ((XO g), p)
          | XH -> (XH, (a, XH)))
       | XH -> (XH, (XH, b)))

  (** val ggcd : positive -> positive -> positive * (positive * positive) **)

  let ggcd a b =
    ggcdn (Coq__1.add (size_nat a) (size_nat b)) a b
 end

module Z =
 struct
  (** val double : z -> z **)

  let double = function
  | Z0 -> Z0
  | Zpos p -> Zpos (XO p)
  | Zneg p -> Zneg (XO p)

  (** val succ_double : z -> z **)

  let succ_double = function
  | Z0 -> Zpos XH
  | Zpos p -> Zpos (XI p)
  | Zneg p -> Zneg (Coq_Pos.pred_double p)

  (** val pred_double : z -> z **)

  let pred_double = function
  | Z0 -> Zneg XH
  | Zpos p -> Zpos (Coq_Pos.pred_double p)
  | Zneg p -> Zneg (XI p)

  (** val pos_sub : positive -> positive -> z **)

  let rec pos_sub x y =
    match x with
    | XI p ->
      (match y with
       | XI q0 -> double (pos_sub p q0)
       | XO q0 -> succ_double (pos_sub p q0)
       | XH -> Zpos (XO p))
    | XO p ->
      (match y with
       | XI q0 -> pred_double (pos_sub p q0)
       | XO q0 -> double (pos_sub p q0)
       | XH -> Zpos (Coq_Pos.pred_double p))
    | XH ->
      (match y with
       | XI q0 -> Zneg (XO q0)
       | XO q0 -> Zneg (Coq_Pos.pred_double q0)
       | XH -> Z0)

  (** val add : z -> z -> z **)

  let add x y =
    match x with
    | Z0 -> y
    | Zpos x' ->
      (match y with
       | Z0 -> x
       | Zpos y' -> Zpos (Coq_Pos.add x' y')
       | Zneg y' -> pos_sub x' y')
    | Zneg x' ->
      (match y with
       | Z0 -> x
       | Zpos y' -> pos_sub y' x'
       | Zneg y' -> Zneg (Coq_Pos.add x' y'))

  (** val opp : z -> z **)

  let opp = function
  | Z0 -> Z0
  | Zpos x0 -> Zneg x0
  | Zneg x0 -> Zpos x0

  (** val sub : z -> z -> z **)

  let sub m n =
    add m (opp n)

  (** val mul : z -> z -> z **)

  let mul x y =
    match x with
    | Z0 -> Z0
    | Zpos x' ->
      (match y with
       | Z0 -> Z0
       | Zpos y' -> Zpos (Coq_Pos.mul x' y')
       | Zneg y' -> Zneg (Coq_Pos.mul x' y'))
    | Zneg x' ->
      (match y with
       | Z0 -> Z0
       | Zpos y' -> Zneg (Coq_Pos.mul x' y')
       | Zneg y' -> Zpos (Coq_Pos.mul x' y'))

  (** val pow_pos : z -> positive -> z **)

  let pow_pos z0 =
    Coq_Pos.iter (mul z0) (Zpos XH)

  (** val pow : z -> z -> z **)

  let pow x = function
  | Z0 -> Zpos XH
  | Zpos p -> pow_pos x p
  | Zneg _ -> Z0

  (** val compare : z -> z -> comparison **)

  let compare x y =
    match x with
    | Z0 -> (match y with
             | Z0 -> Eq
             | Zpos _ -> Lt
             | Zneg _ -> Gt)
    | Zpos x' -> (match y with
                  | Zpos y' -> Coq_Pos.compare x' y'
                  | _ -> Gt)
    | Zneg x' ->
      (match y with
       | Zneg y' -> compOpp (Coq_Pos.compare x' y')
       | _ -> Lt)

  (** val sgn : z -> z **)

  let sgn = function
  | Z0 -> Z0
  | Zpos _ -> Zpos XH
  | Zneg _ -> Zneg XH

  (** val leb : z -> z -> bool **)

  let leb x y =
    match compare x y with
    | Gt -> false
    | _ -> true

  (** val ltb : z -> z -> bool **)

  let ltb x y =
    match compare x y with
    | Lt -> true
    | _ -> false

  (** val eqb : z -> z -> bool **)

  let eqb x y =
    match x with
    | Z0 -> (match y with
             | Z0 -> true
             | _ -> false)
    | Zpos p -> (match y with
                 | Zpos q0 -> Coq_Pos.eqb p q0
                 | _ -> false)
    | Zneg p -> (match y with
                 | Zneg q0 -> Coq_Pos.eqb p q0
                 | _ -> false)

  (** val abs : z -> z **)

  let abs = function
  | Zneg p -> Zpos p
  | x -> x

  (** val to_pos : z -> positive **)

  let to_pos = function
  | Zpos p -> p
  | _ -> XH

  (** val pos_div_eucl : positive -> z -> z * z **)

  let rec pos_div_eucl a b =
    match a with
    | XI a' ->
      let (q0, r) = pos_div_eucl a' b in
      let r' = add (mul (Zpos (XO XH)) r) (Zpos XH) in
      if ltb r' b
      then ((mul (Zpos (XO XH)) q0), r')
      else ((add (mul (Zpos (XO XH)) q0) (Zpos XH)), (sub r' b))
    | XO a' ->
      let (q0, r) = pos_div_eucl a' b in
      let r' = mul (Zpos (XO XH)) r in
      if ltb r' b
      then ((mul (Zpos (XO XH)) q0), r')
      else ((add (mul (Zpos (XO XH)) q0) (Zpos XH)), (sub r' b))
    | XH -> if leb (Zpos (XO XH)) b then (Z0, (Zpos XH)) else ((Zpos XH), Z0)

  (** val div_eucl : z -> z -> z * z **)

  let div_eucl a b =
    match a with
    | Z0 -> (Z0, Z0)
    | Zpos a' ->
      (match b with
       | Z0 -> (Z0, a)
       | Zpos _ -> pos_div_eucl a' b
       | Zneg b' ->
         let (q0, r) = pos_div_eucl a' (Zpos b') in
         (match r with
          | Z0 -> ((opp q0), Z0)
          | _ -> ((opp (add q0 (Zpos XH))), (add b r))))
    | Zneg a' ->
      (match b with
       | Z0 -> (Z0, a)
       | Zpos _ ->
         let (q0, r) = pos_div_eucl a' b in
         (match r with
          | Z0 -> ((opp q0), Z0)
          | _ -> ((opp (add q0 (Zpos XH))), (sub b r)))
       | Zneg b' -> let (q0, r) = pos_div_eucl a' (Zpos b') in (q0, (opp r)))

  (** val div : z -> z -> z **)

  let div a b =
    let (q0, _) = div_eucl a b in q0

  (** val modulo : z -> z -> z **)

  let modulo a b =
    let (_, r) = div_eucl a b in r

  (** val log2 : z -> z **)

  let log2 = function
  | Zpos p0 ->
    (match p0 with
     | XI p -> Zpos (Coq_Pos.size p)
     | XO p -> Zpos (Coq_Pos.size p)
     | XH -> Z0)
  | _ -> Z0

  (** val gcd : z -> z -> z **)

  let gcd a b =
    match a with
    | Z0 -> abs b
    | Zpos a0 ->
      (match b with
       | Z0 -> abs a
       | Zpos b0 -> Zpos (Coq_Pos.gcd a0 b0)
       | Zneg b0 -> Zpos (Coq_Pos.gcd a0 b0))
    | Zneg a0 ->
      (match b with
       | Z0 -> abs a
       | Zpos b0 -> Zpos (Coq_Pos.gcd a0 b0)
       | Zneg b0 -> Zpos (Coq_Pos.gcd a0 b0))

  (** val ggcd : z -> z -> z * (z * z) **)

  let ggcd a b =
    match a with
    | Z0 -> ((abs b), (Z0, (sgn b)))
    | Zpos a0 ->
      (match b with
       | Z0 -> ((abs a), ((sgn a), Z0))
       | Zpos b0 ->
         let (g, p) = Coq_Pos.ggcd a0 b0 in
         let (aa, bb) = p in ((Zpos g), ((Zpos aa), (Zpos bb)))
       | Zneg b0 ->
         let (g, p) = Coq_Pos.ggcd a0 b0 in
         let (aa, bb) = p in ((Zpos g), ((Zpos aa), (Zneg bb))))
    | Zneg a0 ->
      (match b with
       | Z0 -> ((abs a), ((sgn a), Z0))
       | Zpos b0 ->
         let (g, p) = Coq_Pos.ggcd a0 b0 in
         let (aa, bb) = p in ((Zpos g), ((Zneg aa), (Zpos bb)))
       | Zneg b0 ->
         let (g, p) = Coq_Pos.ggcd a0 b0 in
         let (aa, bb) = p in ((Zpos g), ((Zneg aa), (Zneg bb))))

  (** val lcm : z -> z -> z **)

  let lcm a b =
    abs (mul a (div b (gcd a b)))
 end

(** val nth_error : 'a1 list -> nat -> 'a1 option **)

let rec nth_error l = function
| O -> (match l with
        | [] -> None
        | x :: _ -> Some x)
| S n0 -> (match l with
           | [] -> None
           | _ :: l0 -> nth_error l0 n0)

(** val map : ('a1 -> 'a2) -> 'a1 list -> 'a2 list **)

let rec map f = function
| [] -> []
| a :: t -> (f a) :: (map f t)

(** val fold_left : ('a1 -> 'a2 -> 'a1) -> 'a2 list -> 'a1 -> 'a1 **)

let rec fold_left f l a0 =
  match l with
  | [] -> a0
  | b :: t -> fold_left f t (f a0 b)

(** val forallb : ('a1 -> bool) -> 'a1 list -> bool **)

let rec forallb f = function
| [] -> true
| a :: l0 -> (&&) (f a) (forallb f l0)

(** val combine : 'a1 list -> 'a2 list -> ('a1 * 'a2) list **)

let rec combine l l' =
  match l with
  | [] -> []
  | x :: tl ->
    (match l' with
     | [] -> []
     | y :: tl' -> (x, y) :: (combine tl tl'))

(** val seq : nat -> nat -> nat list **)

let rec seq start = function
| O -> []
| S len0 -> start :: (seq (S start) len0)

type q = { qnum : z; qden : positive }

(** val inject_Z : z -> q **)

let inject_Z x =
  { qnum = x; qden = XH }

(** val qplus : q -> q -> q **)

let qplus x y =
  { qnum = (Z.add (Z.mul x.qnum (Zpos y.qden)) (Z.mul y.qnum (Zpos x.qden)));
    qden = (Coq_Pos.mul x.qden y.qden) }

(** val qmult : q -> q -> q **)

let qmult x y =
  { qnum = (Z.mul x.qnum y.qnum); qden = (Coq_Pos.mul x.qden y.qden) }

(** val qopp : q -> q **)

let qopp x =
  { qnum = (Z.opp x.qnum); qden = x.qden }

(** val qminus : q -> q -> q **)

let qminus x y =
  qplus x (qopp y)

(** val qinv : q -> q **)

let qinv x =
  match x.qnum with
  | Z0 -> { qnum = Z0; qden = XH }
  | Zpos p -> { qnum = (Zpos x.qden); qden = p }
  | Zneg p -> { qnum = (Zneg x.qden); qden = p }

(** val qdiv : q -> q -> q **)

let qdiv x y =
  qmult x (qinv y)

(** val qred : q -> q **)

let qred q0 =
  let { qnum = q1; qden = q2 } = q0 in
  let (r1, r2) = snd (Z.ggcd q1 (Zpos q2)) in
  { qnum = r1; qden = (Z.to_pos r2) }

(** val qfloor : q -> z **)

let qfloor x =
  let { qnum = n; qden = d } = x in Z.div n (Zpos d)

(** val qceiling : q -> z **)

let qceiling x =
  Z.opp (qfloor (qopp x))

(** val smt_div : z -> z -> z **)

let smt_div n d =
  if Z.ltb Z0 d then Z.div n d else Z.opp (Z.div n (Z.opp d))

(** val smt_mod : z -> z -> z **)

let smt_mod n d =
  Z.modulo n (Z.abs d)

(** val divmod_def : z -> z -> z -> z -> bool **)

let divmod_def n d q0 r =
  (&&) ((&&) (Z.eqb n (Z.add (Z.mul d q0) r)) (Z.leb Z0 r))
    (Z.leb r (Z.sub (Z.abs d) (Zpos XH)))

type dm_kind =
| KDiv
| KMod

type dm_app = (dm_kind * nat) * z

(** val key_eqb : (nat * z) -> (nat * z) -> bool **)

let key_eqb a b =
  (&&) (Nat.eqb (fst a) (fst b)) (Z.eqb (snd a) (snd b))

(** val cache_find : (nat * z) list -> (nat * z) -> nat -> nat option **)

let rec cache_find defs k i =
  match defs with
  | [] -> None
  | d :: r -> if key_eqb d k then Some i else cache_find r k (S i)

(** val rw_apps :
    (nat * z) list -> dm_app list -> (nat * z) list * (nat * dm_kind) list **)

let rec rw_apps defs = function
| [] -> (defs, [])
| d0 :: r ->
  let (p, d) = d0 in
  let (k, n) = p in
  (match cache_find defs (n, d) O with
   | Some i -> let (defs', vs) = rw_apps defs r in (defs', ((i, k) :: vs))
   | None ->
     let (defs', vs) = rw_apps (app defs ((n, d) :: [])) r in
     (defs', (((length defs), k) :: vs)))

(** val app_val : (nat -> z) -> dm_app -> z **)

let app_val rho = function
| (p, d) ->
  let (k, n) = p in
  (match k with
   | KDiv -> smt_div (rho n) d
   | KMod -> smt_mod (rho n) d)

(** val aux_val : (nat -> z * z) -> (nat * dm_kind) -> z **)

let aux_val sigma v =
  match snd v with
  | KDiv -> fst (sigma (fst v))
  | KMod -> snd (sigma (fst v))

(** val rewritten_holds :
    (nat -> z) -> (nat -> z * z) -> dm_app list -> bool **)

let rewritten_holds rho sigma apps =
  let (defs, vs) = rw_apps [] apps in
  (&&)
    (forallb (fun p -> Z.eqb (app_val rho (fst p)) (aux_val sigma (snd p)))
      (combine apps vs))
    (forallb (fun p ->
      divmod_def (rho (fst (snd p))) (snd (snd p)) (fst (sigma (fst p)))
        (snd (sigma (fst p)))) (combine (seq O (length defs)) defs))

(** val canon_sigma : (nat -> z) -> (nat * z) list -> nat -> z * z **)

let canon_sigma rho defs i =
  match nth_error defs i with
  | Some p -> let (n, d) = p in ((smt_div (rho n) d), (smt_mod (rho n) d))
  | None -> (Z0, Z0)

type bound_pair = { bp_upper : z; bp_lower : z }

(** val bounds_int : q -> bool -> bound_pair **)

let bounds_int c = function
| true ->
  { bp_upper = (qceiling (qminus c { qnum = (Zpos XH); qden = XH }));
    bp_lower = (qceiling c) }
| false ->
  { bp_upper = (qfloor c); bp_lower =
    (qfloor (qplus c { qnum = (Zpos XH); qden = XH })) }

type bound =
| UB of z
| LB of z

(** val add_bound : q -> bool -> bound * bound **)

let add_bound c = function
| true ->
  let p = bounds_int (qopp c) false in ((UB p.bp_upper), (LB p.bp_lower))
| false -> let p = bounds_int c true in ((LB p.bp_lower), (UB p.bp_upper))

(** val q_num : q -> z **)

let q_num q0 =
  (qred q0).qnum

(** val q_den : q -> z **)

let q_den q0 =
  Zpos (qred q0).qden

(** val q_is_int : q -> bool **)

let q_is_int q0 =
  Z.eqb (q_den q0) (Zpos XH)

(** val lcm_step : z -> q -> z **)

let lcm_step l a =
  if q_is_int a
  then l
  else if Z.eqb l (Zpos XH) then q_den a else Z.lcm l (q_den a)

(** val lcm_dens : q list -> z **)

let lcm_dens cs =
  fold_left lcm_step cs (Zpos XH)

(** val gcd_step : z -> q -> z **)

let gcd_step g a =
  if Z.eqb g (Zpos XH) then g else Z.gcd g (Z.abs (q_num a))

(** val gcd_coeffs : q list -> z **)

let gcd_coeffs = function
| [] -> Zpos XH
| a0 :: r -> fold_left gcd_step r (Z.abs (q_num a0))

(** val q_mul : q -> q -> q **)

let q_mul a b =
  qred (qmult a b)

(** val q_div : q -> q -> q **)

let q_div a b =
  qred (qdiv a b)

(** val q_neg : q -> q **)

let q_neg a =
  qred (qopp a)

(** val norm_int_pair : q list -> q -> q list * q **)

let norm_int_pair cs c =
  let all_int = forallb q_is_int cs in
  let l = inject_Z (lcm_dens cs) in
  let cs1 = if all_int then cs else map (fun a -> q_mul a l) cs in
  let c1 = if all_int then c else q_mul c l in
  let g = gcd_coeffs cs1 in
  let cs2 =
    if Z.eqb g (Zpos XH) then cs1 else map (fun a -> q_div a (inject_Z g)) cs1
  in
  let c2 = if Z.eqb g (Zpos XH) then c1 else q_div c1 (inject_Z g) in
  (cs2, (q_neg c2))

(** val norm_ineq : q list -> q -> z * q list **)

let norm_ineq cs c =
  let (cs', l) = norm_int_pair cs c in ((qceiling l), cs')

(** val norm_eq : bool -> q list -> q -> (q * q list) option **)

let norm_eq flip cs c =
  let (cs', l) = norm_int_pair cs c in
  if q_is_int l
  then Some (if flip then ((q_neg l), (map q_neg cs')) else (l, cs'))
  else None

(** val norm_single_leq : q -> z **)

let norm_single_leq a =
  match a.qnum with
  | Z0 -> Z0
  | Zpos _ -> Zpos XH
  | Zneg _ -> Zneg XH

(** val pMAX : z **)

let pMAX =
  Z.sub (Z.pow (Zpos (XO XH)) (Zpos (XI (XI (XI (XI (XI XH))))))) (Zpos XH)

(** val pMIN : z **)

let pMIN =
  Z.opp (Z.pow (Zpos (XO XH)) (Zpos (XI (XI (XI (XI (XI XH)))))))

(** val in_range : z -> bool **)

let in_range z0 =
  (&&) (Z.leb pMIN z0) (Z.leb z0 pMAX)

(** val safe_add : z -> z -> z option **)

let safe_add a b =
  if (||) ((&&) (Z.ltb Z0 a) (Z.ltb (Z.sub pMAX a) b))
       ((&&) (Z.ltb a Z0) (Z.ltb b (Z.sub pMIN a)))
  then None
  else Some (Z.add a b)

(** val safe_sub : z -> z -> z option **)

let safe_sub a b =
  if (||) ((&&) (Z.ltb Z0 b) (Z.ltb a (Z.add pMIN b)))
       ((&&) (Z.ltb b Z0) (Z.ltb (Z.add pMAX b) a))
  then None
  else Some (Z.sub a b)

(** val safe_neg : z -> z option **)

let safe_neg a =
  if Z.eqb a pMIN then None else Some (Z.opp a)

(** val dl_negate : z -> z option **)

let dl_negate c =
  if Z.eqb c pMAX then None else Some (Z.opp (Z.add c (Zpos XH)))

(** val trunc53 : z -> z **)

let trunc53 z0 =
  let a = Z.abs z0 in
  let k = Z.log2 a in
  Z.mul (Z.sgn z0)
    (if Z.ltb k (Zpos (XI (XO (XI (XO (XI XH))))))
     then a
     else Z.mul
            (Z.div a
              (Z.pow (Zpos (XO XH))
                (Z.sub k (Zpos (XO (XO (XI (XO (XI XH)))))))))
            (Z.pow (Zpos (XO XH))
              (Z.sub k (Zpos (XO (XO (XI (XO (XI XH)))))))))

(** val dl_conv : z -> z option **)

let dl_conv z0 =
  let d = trunc53 z0 in
  if (&&) (Z.leb pMIN d)
       (Z.ltb d (Z.pow (Zpos (XO XH)) (Zpos (XI (XI (XI (XI (XI XH))))))))
  then Some d
  else None

(** val dl_conv_fixed : z -> z option **)

let dl_conv_fixed z0 =
  if in_range z0 then Some z0 else None
