(* C18 — the executable never crashes and signals every input problem.  PARTIAL: only the status /
   diagnostic protocol is modelled and proved (Front/Protocol.v).  Memory safety, undefined behaviour and the
   question *which* inputs make a command throw live in the C++ runtime; they are observed per run
   (exit signals, sanitizer build) by checks/C18.py as failing-input search, not proved.

   Full statement (properties.jsonl): for any input text the executable terminates without crash / abort /
   uncaught exception / sanitizer report; every problem is reported on stdout and makes the exit status
   non-zero; scripts without check-sat terminate promptly.
   In the model: [well o] = no abort, problem <-> non-zero status, diagnostic <-> problem. *)
From Coq Require Import List Bool.
From OsmtV.Front Require Import ProtocolBase Protocol_Gen Protocol ProtocolProofs.
Import ListNotations.

(* c18_status on every front end that (a) turns a parse failure into a non-zero status, (b) clears the status
   in notify_formatted, (c) reports pending input at end of a pipe and (d) lets no exception escape:
   no abort, and  problem met <-> exit status non-zero,  diagnostic printed <-> problem met. *)
Theorem c18_status_partial : forall c m s, good c ->
  let o := run c m s in
  ending_of o <> Abort /\ (problem o = true <-> ending_of o = Exit true) /\ (diag o = true <-> problem o = true).
Proof. exact run_good. Qed.
Print Assumptions c18_status_partial.

(* THE THEOREM FOR THE CURRENT TREE (fix: 0fce10d main uses the parse result, f4f7f0c std::exception / ... handlers in
   Interpret::interp, fe50f31 pending pipe input reported): the front end regenerated from the source is good, hence on
   every script and in both modes no abort, problem <-> non-zero status, diagnostic <-> problem.
   (Breaks, as it must, if one of these fixes is reverted.)  Still PARTIAL: see the header. *)
Theorem c18_status_current_partial : forall m s,
  let o := run gen_cfg m s in
  ending_of o <> Abort /\ (problem o = true <-> ending_of o = Exit true) /\ (diag o = true <-> problem o = true).
Proof. intros m s. exact (run_good gen_cfg m s gen_cfg_good). Qed.
Print Assumptions c18_status_current_partial.

(* the repaired front end of proposed_fixes/C18_*.diff is such a front end *)
Theorem c18_fixed_front_end_good : good fixed_cfg.
Proof. exact fixed_cfg_good. Qed.
Print Assumptions c18_fixed_front_end_good.

(* History (vacuous since 0fce10d): refutation on the faithful model (DESIGN.md section 9 item 2): while main drops the result of interpFile
   and yyerror only prints, a file with a syntax error prints a diagnostic and exits with status 0. *)
Theorem c18_status_refuted :
  main_checks_parse gen_cfg || yyerror_clears gen_cfg = false ->
  exists s, let o := run gen_cfg MFile s in
            problem o = true /\ diag o = true /\ ending_of o = Exit false.
Proof. exact (status_refuted_lemma gen_cfg). Qed.
Print Assumptions c18_status_refuted.

(* History (vacuous since fe50f31): standard input that ends inside a command is dropped without a word, status 0 *)
Theorem c18_pending_input_refuted :
  pipe_reports_pending gen_cfg = false ->
  exists s, let o := run gen_cfg MPipe s in
            problem o = true /\ diag o = false /\ ending_of o = Exit false.
Proof. exact (pending_refuted_lemma gen_cfg). Qed.
Print Assumptions c18_pending_input_refuted.

(* which exception classes reach main from which place (each one is a crash candidate to replay) *)
Theorem uncaught_classes : forall c s e, caught c s e = false <-> In e (escaping c s).
Proof. exact uncaught_classes_lemma. Qed.
Print Assumptions uncaught_classes.

(* History (no class escapes since f4f7f0c): any escaping class aborts the run (std::terminate) as long as main has no try block *)
Theorem c18_abort_refuted : forall s e,
  caught gen_cfg s e = false -> main_catches gen_cfg = false ->
  exists sc m, ending_of (run gen_cfg m sc) = Abort.
Proof. exact (abort_refuted_lemma gen_cfg). Qed.
Print Assumptions c18_abort_refuted.

(* non-vacuity: on the unchanged tree everything but ApiException escapes a generic command, and e.g. a
   logic_error raised while get-value prints is caught while the same class from get-model is not *)
Example c18_escaping_now :
  interp_handlers gen_cfg = [HApi] ->
  escaping gen_cfg SGeneric = [ExNonLinear; ExDivZero; ExInternal; ExStrConv; ExLogicError; ExOutOfRange; ExInvalidArg;
                               ExOverflow; ExIosFailure; ExBadAlloc; ExOutOfMemory] /\
  caught gen_cfg SGetValuePrint ExLogicError = true /\ caught gen_cfg STermApp ExDivZero = true /\
  caught gen_cfg STermApp ExNonLinear = false.
Proof. intro H. unfold escaping, caught. rewrite H. repeat split; reflexivity. Qed.

Example c18_good_nonvacuous :
  let o := run fixed_cfg MFile (mkScript [mkCmd SynOk ROk false; mkCmd SynOk (RThrow SGeneric ExLogicError) false;
                                          mkCmd SynOk RError false] TNone) in
  diag o = true /\ ending_of o = Exit true.
Proof. split; reflexivity. Qed.
