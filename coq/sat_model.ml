
(** val negb : bool -> bool **)

let negb = function
| true -> false
| false -> true

type nat =
| O
| S of nat

(** val length : 'a1 list -> nat **)

let rec length = function
| [] -> O
| _ :: l' -> S (length l')

(** val app : 'a1 list -> 'a1 list -> 'a1 list **)

let rec app l m =
  match l with
  | [] -> m
  | a :: l1 -> a :: (app l1 m)

type positive =
| XI of positive
| XO of positive
| XH

type n =
| N0
| Npos of positive

type z =
| Z0
| Zpos of positive
| Zneg of positive

(** val eqb : bool -> bool -> bool **)

let eqb b1 b2 =
  if b1 then b2 else if b2 then false else true

module Pos =
 struct
  (** val succ : positive -> positive **)

  let rec succ = function
  | XI p -> XO (succ p)
  | XO p -> XI p
  | XH -> XO XH

  (** val eqb : positive -> positive -> bool **)

  let rec eqb p q =
    match p with
    | XI p0 -> (match q with
                | XI q0 -> eqb p0 q0
                | _ -> false)
    | XO p0 -> (match q with
                | XO q0 -> eqb p0 q0
                | _ -> false)
    | XH -> (match q with
             | XH -> true
             | _ -> false)
 end

module N =
 struct
  (** val succ_pos : n -> positive **)

  let succ_pos = function
  | N0 -> XH
  | Npos p -> Pos.succ p

  (** val eqb : n -> n -> bool **)

  let eqb n0 m =
    match n0 with
    | N0 -> (match m with
             | N0 -> true
             | Npos _ -> false)
    | Npos p -> (match m with
                 | N0 -> false
                 | Npos q -> Pos.eqb p q)
 end

module Z =
 struct
  (** val opp : z -> z **)

  let opp = function
  | Z0 -> Z0
  | Zpos x0 -> Zneg x0
  | Zneg x0 -> Zpos x0

  (** val eqb : z -> z -> bool **)

  let eqb x y =
    match x with
    | Z0 -> (match y with
             | Z0 -> true
             | _ -> false)
    | Zpos p -> (match y with
                 | Zpos q -> Pos.eqb p q
                 | _ -> false)
    | Zneg p -> (match y with
                 | Zneg q -> Pos.eqb p q
                 | _ -> false)
 end

(** val map : ('a1 -> 'a2) -> 'a1 list -> 'a2 list **)

let rec map f = function
| [] -> []
| a :: t0 -> (f a) :: (map f t0)

(** val flat_map : ('a1 -> 'a2 list) -> 'a1 list -> 'a2 list **)

let rec flat_map f = function
| [] -> []
| x :: t0 -> app (f x) (flat_map f t0)

(** val existsb : ('a1 -> bool) -> 'a1 list -> bool **)

let rec existsb f = function
| [] -> false
| a :: l0 -> (||) (f a) (existsb f l0)

(** val forallb : ('a1 -> bool) -> 'a1 list -> bool **)

let rec forallb f = function
| [] -> true
| a :: l0 -> (&&) (f a) (forallb f l0)

module PositiveMap =
 struct
  type key = positive

  type 'a tree =
  | Leaf
  | Node of 'a tree * 'a option * 'a tree

  type 'a t = 'a tree

  (** val empty : 'a1 t **)

  let empty =
    Leaf

  (** val find : key -> 'a1 t -> 'a1 option **)

  let rec find i = function
  | Leaf -> None
  | Node (l, o, r) ->
    (match i with
     | XI ii -> find ii r
     | XO ii -> find ii l
     | XH -> o)

  (** val add : key -> 'a1 -> 'a1 t -> 'a1 t **)

  let rec add i v = function
  | Leaf ->
    (match i with
     | XI ii -> Node (Leaf, None, (add ii v Leaf))
     | XO ii -> Node ((add ii v Leaf), None, Leaf)
     | XH -> Node (Leaf, (Some v), Leaf))
  | Node (l, o, r) ->
    (match i with
     | XI ii -> Node (l, o, (add ii v r))
     | XO ii -> Node ((add ii v l), o, r)
     | XH -> Node (l, (Some v), r))
 end

type lit = z

type clause = lit list

type cnf = clause list

type assignment = positive -> bool

(** val remove_lit : lit -> clause -> clause **)

let rec remove_lit p = function
| [] -> []
| l :: r -> if Z.eqb l p then remove_lit p r else l :: (remove_lit p r)

(** val resolve : clause -> clause -> lit -> clause **)

let resolve c1 c2 p =
  app (remove_lit p c1) (remove_lit (Z.opp p) c2)

type pmap = bool PositiveMap.t

(** val pfind : positive -> pmap -> bool option **)

let pfind =
  PositiveMap.find

(** val padd : positive -> bool -> pmap -> pmap **)

let padd =
  PositiveMap.add

(** val pempty : pmap **)

let pempty =
  PositiveMap.empty

(** val lit_val : pmap -> lit -> bool option **)

let lit_val m = function
| Z0 -> Some false
| Zpos p -> pfind p m
| Zneg p -> (match pfind p m with
             | Some b -> Some (negb b)
             | None -> None)

(** val assign : lit -> pmap -> pmap **)

let assign l m =
  match l with
  | Z0 -> m
  | Zpos p -> padd p true m
  | Zneg p -> padd p false m

(** val total_of : pmap -> assignment **)

let total_of m v =
  match pfind v m with
  | Some b -> b
  | None -> false

(** val var_of : lit -> positive option **)

let var_of = function
| Z0 -> None
| Zpos p -> Some p
| Zneg p -> Some p

type cstatus =
| CSat
| CConflict
| CUnit of lit
| CUnres

(** val clause_status_aux : pmap -> clause -> lit option -> cstatus **)

let rec clause_status_aux m c u =
  match c with
  | [] -> (match u with
           | Some l -> CUnit l
           | None -> CConflict)
  | l :: r ->
    (match lit_val m l with
     | Some b -> if b then CSat else clause_status_aux m r u
     | None ->
       (match u with
        | Some l' -> if Z.eqb l l' then clause_status_aux m r u else CUnres
        | None -> clause_status_aux m r (Some l)))

(** val clause_status : pmap -> clause -> cstatus **)

let clause_status m c =
  clause_status_aux m c None

(** val pass : cnf -> pmap -> bool -> (pmap * bool) option **)

let rec pass f m changed =
  match f with
  | [] -> Some (m, changed)
  | c :: r ->
    (match clause_status m c with
     | CConflict -> None
     | CUnit l -> pass r (assign l m) true
     | _ -> pass r m changed)

(** val up : nat -> cnf -> pmap -> pmap option **)

let rec up fuel f m =
  match fuel with
  | O -> Some m
  | S k ->
    (match pass f m false with
     | Some p -> let (m', b) = p in if b then up k f m' else Some m'
     | None -> None)

(** val assume_neg : clause -> pmap -> pmap option **)

let rec assume_neg c m =
  match c with
  | [] -> Some m
  | l :: r ->
    if Z.eqb l Z0
    then assume_neg r m
    else (match lit_val m l with
          | Some b -> if b then None else assume_neg r m
          | None -> assume_neg r (assign (Z.opp l) m))

(** val rup_fuel : cnf -> nat **)

let rup_fuel f =
  S (length f)

(** val rup : cnf -> clause -> bool **)

let rup f c =
  match assume_neg c pempty with
  | Some m -> (match up (rup_fuel f) f m with
               | Some _ -> false
               | None -> true)
  | None -> true

type dres =
| DSat of pmap
| DUnsat
| DUnknown

(** val lit_is : pmap -> bool -> lit -> bool **)

let lit_is m b l =
  match lit_val m l with
  | Some b' -> eqb b b'
  | None -> false

(** val clause_sat : pmap -> clause -> bool **)

let clause_sat m c =
  existsb (lit_is m true) c

(** val clause_dead : pmap -> clause -> bool **)

let clause_dead m c =
  forallb (lit_is m false) c

(** val lit_vars : lit -> positive list **)

let lit_vars l =
  match var_of l with
  | Some v -> v :: []
  | None -> []

(** val cnf_vars : cnf -> positive list **)

let cnf_vars f =
  flat_map (fun c -> flat_map lit_vars c) f

(** val dpll_aux : positive list -> cnf -> pmap -> dres **)

let rec dpll_aux vs f m =
  match up (rup_fuel f) f m with
  | Some m' ->
    (match vs with
     | [] ->
       if forallb (clause_sat m') f
       then DSat m'
       else if existsb (clause_dead m') f then DUnsat else DUnknown
     | v :: vs' ->
       (match pfind v m' with
        | Some _ -> dpll_aux vs' f m'
        | None ->
          (match dpll_aux vs' f (padd v true m') with
           | DUnsat -> dpll_aux vs' f (padd v false m')
           | x -> x)))
  | None -> DUnsat

(** val dpll : cnf -> dres **)

let dpll f =
  dpll_aux (cnf_vars f) f pempty

(** val neg_units : clause -> cnf **)

let neg_units c =
  map (fun l -> (Z.opp l) :: []) c

(** val countermodel : cnf -> clause -> dres **)

let countermodel f c =
  dpll (app (neg_units c) f)

(** val mem_lit : lit -> clause -> bool **)

let mem_lit l c =
  existsb (Z.eqb l) c

(** val subset_b : clause -> clause -> bool **)

let subset_b c d =
  forallb (fun l -> mem_lit l d) c

(** val clause_eqb : clause -> clause -> bool **)

let clause_eqb c d =
  (&&) (subset_b c d) (subset_b d c)

(** val res_step : clause -> clause -> lit -> clause option **)

let res_step c1 c2 p =
  if Z.eqb p Z0
  then None
  else if (&&) (mem_lit p c1) (mem_lit (Z.opp p) c2)
       then Some (resolve c1 c2 p)
       else if (&&) (mem_lit (Z.opp p) c1) (mem_lit p c2)
            then Some (resolve c1 c2 (Z.opp p))
            else None

type name = n

type pstep =
| PLeaf of name * clause
| PRes of name * clause * name * (name * lit) list

type proof = { p_steps : pstep list; p_final : name; p_core : name list }

type perr =
| ERebound of name
| EUnbound of name * name
| EBadPivot of name * nat
| EWrongResolvent of name
| ELeafNotAdmitted of name
| ECoreNotLeaf of name
| EFinalUnbound of name
| EFinalNotEmpty of name

type 'a res =
| Ok of 'a
| Err of perr

type env = clause PositiveMap.t

(** val key0 : name -> positive **)

let key0 =
  N.succ_pos

(** val lookup : env -> name -> clause option **)

let lookup e n0 =
  PositiveMap.find (key0 n0) e

(** val bind : env -> name -> clause -> env **)

let bind e n0 c =
  PositiveMap.add (key0 n0) c e

(** val run_chain :
    env -> name -> clause -> (name * lit) list -> nat -> clause res **)

let rec run_chain e n0 cur ch k =
  match ch with
  | [] -> Ok cur
  | p0 :: r ->
    let (cn, p) = p0 in
    (match lookup e cn with
     | Some c ->
       (match res_step cur c p with
        | Some cur' -> run_chain e n0 cur' r (S k)
        | None -> Err (EBadPivot (n0, k)))
     | None -> Err (EUnbound (cn, n0)))

(** val is_name : name -> name -> bool **)

let is_name =
  N.eqb

(** val check_steps :
    cnf -> env -> name list -> pstep list -> (env * name list) res **)

let rec check_steps leaves e lf = function
| [] -> Ok (e, lf)
| p :: r ->
  (match p with
   | PLeaf (n0, c) ->
     (match lookup e n0 with
      | Some _ -> Err (ERebound n0)
      | None ->
        if existsb (clause_eqb c) leaves
        then check_steps leaves (bind e n0 c) (n0 :: lf) r
        else Err (ELeafNotAdmitted n0))
   | PRes (n0, stated, first, ch) ->
     (match lookup e n0 with
      | Some _ -> Err (ERebound n0)
      | None ->
        (match lookup e first with
         | Some c0 ->
           (match run_chain e n0 c0 ch O with
            | Ok cl ->
              if clause_eqb cl stated
              then check_steps leaves (bind e n0 stated) lf r
              else Err (EWrongResolvent n0)
            | Err x -> Err x)
         | None -> Err (EUnbound (first, n0)))))

(** val check_core : name list -> name list -> perr option **)

let rec check_core lf = function
| [] -> None
| n0 :: r ->
  if existsb (is_name n0) lf then check_core lf r else Some (ECoreNotLeaf n0)

(** val check_proof_err : cnf -> proof -> perr option **)

let check_proof_err leaves p =
  match check_steps leaves PositiveMap.empty [] p.p_steps with
  | Ok a ->
    let (e, lf) = a in
    (match lookup e p.p_final with
     | Some c ->
       (match c with
        | [] -> check_core lf p.p_core
        | _ :: _ -> Some (EFinalNotEmpty p.p_final))
     | None -> Some (EFinalUnbound p.p_final))
  | Err x -> Some x

(** val proof_leaves : pstep list -> cnf **)

let rec proof_leaves = function
| [] -> []
| p :: r ->
  (match p with
   | PLeaf (_, c) -> c :: (proof_leaves r)
   | PRes (_, _, _, _) -> proof_leaves r)
