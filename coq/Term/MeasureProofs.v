From Coq Require Import List Arith Lia.
From OsmtV.Term Require Import MeasureModel.
Import ListNotations.

Lemma pow3_pos m : 0 < 3 ^ m.
Proof. induction m; simpl; lia. Qed.

Lemma mu_bound n : forall tr, length tr <= n -> mu n tr < 3 ^ n.
Proof.
  induction n as [|m IH]; intros [|d r] H; simpl in *; try lia.
  - pose proof (pow3_pos m). lia.
  - specialize (IH r ltac:(lia)). destruct d; simpl; lia.
Qed.

Lemma mu_app_snoc n : forall tr d, length tr < n -> mu n tr < mu n (tr ++ [d]).
Proof.
  induction n as [|m IH]; intros [|x r] d H; simpl in *; try lia.
  - pose proof (pow3_pos m). destruct d; simpl; lia.
  - specialize (IH r d ltac:(lia)). lia.
Qed.

Lemma mu_backjump n : forall pre suf, length (pre ++ D :: suf) <= n -> mu n (pre ++ D :: suf) < mu n (pre ++ [P]).
Proof.
  induction n as [|m IH]; intros [|x r] suf H; simpl in *; try lia.
  - pose proof (mu_bound m suf ltac:(lia)). destruct m; simpl in *; lia.
  - specialize (IH r suf ltac:(lia)). lia.
Qed.

Lemma step_mu n a b : step n a b -> mu n a < mu n b.
Proof. intros [tr H|tr H|pre suf H]; [apply mu_app_snoc | apply mu_app_snoc | apply mu_backjump]; assumption. Qed.

Lemma step_length n a b : length a <= n -> step n a b -> length b <= n.
Proof.
  intros Ha [tr H|tr H|pre suf H]; rewrite ?app_length in *; simpl in *; lia.
Qed.

Lemma chain_mu n a c k : chain n a c k -> mu n a + k <= mu n c.
Proof. induction 1 as [tr|a b c k Hs Hc IH]; [lia|]. pose proof (step_mu n a b Hs). lia. Qed.

Lemma chain_length n a c k : length a <= n -> chain n a c k -> length c <= n.
Proof. intros Ha H. induction H as [tr|a b c k Hs Hc IH]; [exact Ha|]. apply IH. eapply step_length; eauto. Qed.

(* every restart-free segment over n variables has fewer than 3^n steps *)
Theorem segment_bounded_lemma n a c k : length a <= n -> chain n a c k -> k < 3 ^ n.
Proof.
  intros Ha H. pose proof (chain_mu n a c k H). pose proof (mu_bound n c (chain_length n a c k Ha H)). lia.
Qed.

(* the executable progress test is sound for the measure *)
Lemma progress_mu n : forall a b, length a <= n -> length b <= n -> progress a b = true -> mu n a < mu n b.
Proof.
  induction n as [|m IH]; intros a b Ha Hb H.
  - destruct a, b; simpl in *; try discriminate; lia.
  - destruct a as [|x r], b as [|y s]; simpl in H; try discriminate.
    + simpl. pose proof (pow3_pos m). destruct y; simpl; lia.
    + destruct x; discriminate.
    + simpl in Ha, Hb. destruct x, y; try discriminate; simpl.
      * specialize (IH r s ltac:(lia) ltac:(lia) H). lia.
      * pose proof (mu_bound m r ltac:(lia)). lia.
      * specialize (IH r s ltac:(lia) ltac:(lia) H). lia.
Qed.

(* each step kind passes the executable test *)
Lemma progress_refl_app a : forall d, progress a (a ++ [d]) = true.
Proof. induction a as [|x r IH]; intros d; simpl; [reflexivity|]. destruct x; apply IH. Qed.
Lemma progress_backjump pre suf : progress (pre ++ D :: suf) (pre ++ [P]) = true.
Proof. induction pre as [|x r IH]; simpl; [reflexivity|]. destruct x; exact IH. Qed.
Lemma step_progress n a b : step n a b -> progress a b = true.
Proof. intros [tr H|tr H|pre suf H]; [apply progress_refl_app | apply progress_refl_app | apply progress_backjump]. Qed.
