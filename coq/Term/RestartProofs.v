From Coq Require Import List Arith Lia.
From OsmtV.Term Require Import Gen_Restart.
Import ListNotations.

Fixpoint iter (n : nat) (st : nat * nat * list nat) : (nat * nat * list nat) * nat :=
  match n with
  | 0 => (st, 0)
  | S m => luby_step (fst (iter m st))
  end.

Definition J (st : nat * nat * list nat) : Prop :=
  let '(i, k, prev) := st in 1 <= k /\ 2 ^ (k - 1) - 1 <= i /\ i < 2 ^ k - 1.

Lemma shiftl1 k : Nat.shiftl 1 k = 2 ^ k.
Proof. rewrite Nat.shiftl_1_l. reflexivity. Qed.

Lemma pow2_pos k : 0 < 2 ^ k.
Proof. induction k; simpl; lia. Qed.

Lemma step_J st : J st -> J (fst (luby_step st)).
Proof.
  destruct st as [[i k] prev]. unfold J, luby_step, luby_hit. rewrite shiftl1. intros [Hk [H1 H2]].
  destruct (Nat.eqb_spec (S i) (2 ^ k - 1)) as [E|E]; simpl.
  - replace (k - 0) with k by lia. split; [lia|]. split; [lia|].
    pose proof (pow2_pos k). simpl. lia.
  - repeat split; lia.
Qed.

(* from a state with invariant J, the branch `luby_hit` is taken after finitely many calls, returning 2^(k-1) and
   incrementing k *)
Lemma reach_hit : forall d i k prev, J (i, k, prev) -> 2 ^ k - 1 - i = S d ->
  exists n, n <= S d /\ 0 < n /\
    let r := iter n (i, k, prev) in snd r = 2 ^ (k - 1) /\ snd (fst (fst r)) = S k /\ J (fst r).
Proof.
  induction d as [|d IH]; intros i k prev HJ Hd.
  - exists 1. split; [lia|]. split; [lia|]. simpl.
    pose proof (step_J _ HJ) as HJ'. unfold luby_step, luby_hit in *. rewrite shiftl1 in *.
    destruct (Nat.eqb_spec (S i) (2 ^ k - 1)) as [E|E]; [|lia]. simpl in *.
    unfold luby_push. rewrite shiftl1. auto.
  - pose proof (step_J _ HJ) as HJ'. unfold luby_step, luby_hit in HJ'. rewrite shiftl1 in HJ'.
    destruct (Nat.eqb_spec (S i) (2 ^ k - 1)) as [E|E]; [lia|]. simpl in HJ'.
    set (v := nth (luby_index (S i) k) prev 0) in *.
    destruct (IH (S i) k (prev ++ [v]) HJ' ltac:(lia)) as [n [Hn [Hpos Hr]]].
    exists (S n). split; [lia|]. split; [lia|].
    assert (Hiter : forall m st, iter (S m) st = iter m (fst (luby_step st)) \/ m = 0).
    { clear. induction m as [|m IHm]; intros st; [right; reflexivity|]. left.
      destruct (IHm st) as [H | ->]; [|reflexivity]. simpl in *. now rewrite H. }
    destruct (Hiter n (i, k, prev)) as [H|H]; [|lia]. rewrite H.
    unfold luby_step at 1, luby_hit. rewrite shiftl1.
    destruct (Nat.eqb_spec (S i) (2 ^ k - 1)); [lia|]. simpl. exact Hr.
Qed.

Lemma iter_add : forall n m st, iter (n + m) st = iter n (fst (iter m st)) \/ n = 0.
Proof.
  induction n as [|n IH]; intros m st; [right; reflexivity|]. left.
  destruct (IH m st) as [H | ->]; simpl; [now rewrite H | reflexivity].
Qed.

(* the Luby limits regenerated from the source are unbounded: every value 2^j is returned by some call *)
Theorem luby_unbounded_lemma : forall j, exists n, 0 < n /\ snd (iter n (luby_i0, luby_k0, [])) = 2 ^ j.
Proof.
  assert (H : forall j, exists n, 0 < n /\ let r := iter n (luby_i0, luby_k0, []) in
                                           snd r = 2 ^ j /\ snd (fst (fst r)) = S (S j) /\ J (fst r)).
  { induction j as [|j IH].
    - destruct (reach_hit 0 luby_i0 luby_k0 [] ltac:(unfold J, luby_i0, luby_k0; simpl; lia) ltac:(reflexivity)) as [n [_ [Hp Hr]]].
      exists n. split; [exact Hp|]. exact Hr.
    - destruct IH as [n [Hp [Hv [Hk HJ]]]].
      destruct (iter n (luby_i0, luby_k0, [])) as [[[i k] prev] v] eqn:E. simpl in *. subst k.
      destruct HJ as [_ [H1 H2]].
      destruct (reach_hit (2 ^ S (S j) - 1 - i - 1) i (S (S j)) prev ltac:(unfold J; simpl in *; lia) ltac:(simpl in *; lia))
        as [m [_ [Hm Hr]]].
      exists (m + n). split; [lia|].
      destruct (iter_add m n (luby_i0, luby_k0, [])) as [Ha | Ha]; [|lia]. rewrite Ha, E. simpl fst.
      destruct Hr as [R1 [R2 R3]]. replace (S (S j) - 1) with (S j) in R1 by lia. auto. }
  intros j. destruct (H j) as [n [Hp [Hv _]]]. exists n. auto.
Qed.
