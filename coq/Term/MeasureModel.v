(* C30: the termination measure of restart-free CDCL(T) segments.  Definitions only.
   The trail of the SAT engine is abstracted to its shape: one digit per trail position, D for the decision
   literal opening a level, P for a propagated literal (unit, theory-propagated or asserted by a learnt clause). *)
From Coq Require Import List Arith.
Import ListNotations.

Inductive digit := D | P.
Definition dv (d : digit) : nat := match d with D => 1 | P => 2 end.

(* trail as a base-3 numeral with n digit positions, most significant first *)
Fixpoint mu (n : nat) (tr : list digit) : nat :=
  match tr, n with
  | [], _ => 0
  | d :: r, S m => dv d * 3 ^ m + mu m r
  | _ :: _, 0 => 0
  end.

(* the steps of a restart-free segment *)
Inductive step (n : nat) : list digit -> list digit -> Prop :=
| st_decide : forall tr, length tr < n -> step n tr (tr ++ [D])
| st_propagate : forall tr, length tr < n -> step n tr (tr ++ [P])
    (* conflict: learn a clause, jump back below some decision and assert the learnt literal there;
       also: theory conflict, split clause forcing a literal at a lower level *)
| st_backjump : forall pre suf, length (pre ++ D :: suf) <= n -> step n (pre ++ D :: suf) (pre ++ [P]).

Inductive chain (n : nat) : list digit -> list digit -> nat -> Prop :=
| ch_nil : forall tr, chain n tr tr 0
| ch_cons : forall a b c k, step n a b -> chain n b c k -> chain n a c (S k).

(* executable shape of a trail snapshot: positions listed in trail_lim are decisions *)
Fixpoint shape_from (pos size : nat) (lims : list nat) : list digit :=
  match size with
  | 0 => []
  | S s => (if existsb (Nat.eqb pos) lims then D else P) :: shape_from (S pos) s lims
  end.
Definition shape (size : nat) (lims : list nat) : list digit := shape_from 0 size lims.

(* lexicographic "progress" test used on consecutive snapshots of one segment:
   b extends a, or at the first difference a has D where b has P *)
Fixpoint progress (a b : list digit) : bool :=
  match a, b with
  | [], _ :: _ => true
  | D :: _, P :: _ => true
  | x :: r, y :: s => match x, y with D, D | P, P => progress r s | _, _ => false end
  | _, _ => false
  end.
