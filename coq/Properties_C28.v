(* C28 — equal terms share one identity and subterms come first.  Theorems only; proofs are in Terms/*.v.
   [run m dm ops] is the term store after an arbitrary sequence [ops] of declarations and term
   constructions (no bound on length, symbols or arguments); [m] selects the argument comparison of
   termSort: SortCore = Logic, SortDeep = ArithLogic as in the pinned source, SortDeepTie = ArithLogic with
   the proposed repair (proposed_fixes/C28_termsort_tiebreak.diff). *)
From Coq Require Import String List Arith Bool PeanoNat Sorted Permutation.
From OsmtV.Terms Require Import HashCons HashConsSort HashConsProofs.
Import ListNotations.
Local Open Scope string_scope.

(* The three tables are exactly the inverse of the node list, no key occurs twice, arguments are older
   than the node, commutative nodes are stored sorted — after every sequence of operations. *)
Theorem hc_invariant : forall m dm ops, HC m (run m dm ops).
Proof. exact hc_invariant_run. Qed.
Print Assumptions hc_invariant.

(* Building (f, args) again, after any further operations, returns the same identity and changes nothing.
   Holds for every comparison mode, every table (constants, Boolean operators, others). *)
Theorem same_term_same_id : forall m dm ops1 ops2 f args s1 id,
  mkFun m (run m dm ops1) f args = (s1, RTerm id) ->
  mkFun m (run_from m s1 ops2) f args = (run_from m s1 ops2, RTerm id).
Proof. exact same_term_same_id_run. Qed.
Print Assumptions same_term_same_id.

(* Variables and constants: the same name and signature give the same symbol and the same term. *)
Theorem same_var_same_id : forall m dm ops1 ops2 name sig info info' s1 id,
  step m (run m dm ops1) (OpMkVar name sig info) = (s1, RTerm id) ->
  step m (run_from m s1 ops2) (OpMkVar name sig info') = (run_from m s1 ops2, RTerm id).
Proof. exact same_var_same_id_run. Qed.
Print Assumptions same_var_same_id.

(* Where mkFun normalises (commutative symbol outside the Boolean-operator table), any permutation of the
   arguments gives the same identity — provided the comparison is total (Logic; repaired ArithLogic). *)
Theorem commutative_order_insensitive : forall m dm ops1 ops2 f args args' s1 id,
  total_mode m ->
  comm (run m dm ops1) f = true -> boolop (run m dm ops1) f = false -> Permutation args args' ->
  mkFun m (run m dm ops1) f args = (s1, RTerm id) ->
  mkFun m (run_from m s1 ops2) f args' = (run_from m s1 ops2, RTerm id).
Proof. exact commutative_order_insensitive_run. Qed.
Print Assumptions commutative_order_insensitive.

(* ... and it is false for LessThan_deepPTRef as in the pinned source: x and the product x*2 compare as
   equal, so the equalities [x = x*2] and [x*2 = x] are two identities.  Reproduced on the implementation by
   checks/C28.py (known finding "termsort-deep-tie"). *)
Definition refute_ops : list op :=
  [ OpMkVar "x" 0 (SymInfo 0 false false false false false);
    OpMkVar "2" 1 (SymInfo 0 false false false false true);
    OpDeclare "*" 2 (SymInfo 2 true false true true false);
    OpDeclare "=" 3 (SymInfo 2 true false true false false);
    OpMkFun 2 [0; 1] ].
Theorem commutative_order_insensitive_deep_refuted :
  exists dm ops1 ops2 f args args' s1 id,
    comm (run SortDeep dm ops1) f = true /\ boolop (run SortDeep dm ops1) f = false /\ Permutation args args' /\
    mkFun SortDeep (run SortDeep dm ops1) f args = (s1, RTerm id) /\
    mkFun SortDeep (run_from SortDeep s1 ops2) f args' <> (run_from SortDeep s1 ops2, RTerm id).
Proof.
  exists 32, refute_ops, [], 3, [0; 2], [2; 0].
  eexists. exists 3. repeat split; try (vm_compute; reflexivity).
  - apply perm_swap.
  - vm_compute. discriminate.
Qed.
Print Assumptions commutative_order_insensitive_deep_refuted.

(* Different identities denote structurally different terms; every identity denotes exactly one tree. *)
Theorem distinct_ids_distinct_trees : forall m dm ops i j t t',
  let s := run m dm ops in
  denotes s i t -> denotes s j t' -> i <> j -> t <> t'.
Proof. exact distinct_ids_distinct_trees_run. Qed.
Print Assumptions distinct_ids_distinct_trees.

Theorem every_id_denotes_one_tree : forall m dm ops i,
  let s := run m dm ops in
  i < length (nodes s) -> exists t, denotes s i t /\ forall t', denotes s i t' -> t = t'.
Proof.
  intros m dm ops i s Hi. destruct (denotes_total m s (hc_invariant_run m dm ops) i Hi) as [t Ht].
  exists t. split; [assumption | intros t' Ht'; eapply denotes_functional; eassumption].
Qed.
Print Assumptions every_id_denotes_one_tree.

(* Every term is created after all of its subterms: argument ids are smaller, and ids are handed out in
   creation order (an operation appends at most one node at the end). *)
Theorem subterms_first : forall m dm ops i n,
  nth_error (nodes (run m dm ops)) i = Some n -> Forall (fun a => a < i) (n_args n).
Proof. exact subterms_first_run. Qed.
Print Assumptions subterms_first.

Theorem ids_in_creation_order : forall m s o,
  nodes (fst (step m s o)) = nodes s \/ exists n, nodes (fst (step m s o)) = (nodes s ++ [n])%list.
Proof. exact step_appends. Qed.
Print Assumptions ids_in_creation_order.

(* The extracted checker run on the implementation's dump is sound, and accepts every store of the model. *)
Theorem hc_check_sound : forall m sy ns, hc_check m sy ns = true -> dump_ok m sy ns.
Proof. exact hc_check_sound_thm. Qed.
Print Assumptions hc_check_sound.

Theorem hc_check_accepts_model_stores : forall m dm ops,
  hc_check m (syms (run m dm ops)) (nodes (run m dm ops)) = true.
Proof. intros. apply hc_check_complete_thm. apply hc_invariant_run. Qed.
Print Assumptions hc_check_accepts_model_stores.

(* The modelled selection sort returns a sorted permutation for each of the three comparisons. *)
Theorem termsort_sorts : forall m s l, Permutation (tsort m s l) l /\ sorted_args m s (tsort m s l).
Proof. intros. split; [apply tsort_perm | apply tsort_sorted]. Qed.
Print Assumptions termsort_sorts.

(* Stated gap (design/C28.md, not a C28 violation): a numeric constant built from a string is keyed by its
   spelling, so two spellings of one value are two symbols and two identities. *)
Theorem numeric_constants_keyed_by_spelling :
  exists m dm name1 name2 sig info s1 id1 s2 id2,
    numeral_value name1 = numeral_value name2 /\ numeral_value name1 <> None /\
    step m (empty_store dm) (OpMkVar name1 sig info) = (s1, RTerm id1) /\
    step m s1 (OpMkVar name2 sig info) = (s2, RTerm id2) /\ id1 <> id2.
Proof.
  exists SortCore, 32, "7", "007", 0, (SymInfo 0 false false false false true).
  eexists. exists 0. eexists. exists 1.
  repeat split; try (vm_compute; reflexivity); vm_compute; discriminate.
Qed.
Print Assumptions numeric_constants_keyed_by_spelling.

(* non-vacuity: a run with shared subterms, a commutative symbol and a Boolean operator *)
Definition ex_ops : list op :=
  [ OpMkVar "a" 0 (SymInfo 0 false false false false false);            (* term 0 *)
    OpMkVar "b" 0 (SymInfo 0 false false false false false);            (* term 1 *)
    OpDeclare "g" 1 (SymInfo 2 false false false false false);          (* symbol 2 *)
    OpDeclare "=" 2 (SymInfo 2 true false true false false);            (* symbol 3, commutative *)
    OpDeclare "and" 3 (SymInfo 2 true true true false false);           (* symbol 4, Boolean operator *)
    OpMkFun 2 [1; 0];                                                   (* term 2 = g(b,a) *)
    OpMkFun 3 [2; 0];                                                   (* term 3 = (= a g(b,a)), stored sorted *)
    OpMkFun 3 [0; 2];                                                   (* again term 3 *)
    OpMkFun 4 [3; 3];                                                   (* term 4 *)
    OpMkDistinct 3 [2; 1; 0] ].                                         (* term 5 *)
Example ex_run_nodes :
  nodes (run SortCore 32 ex_ops) =
  [Node 0 []; Node 1 []; Node 2 [1; 0]; Node 3 [0; 2]; Node 4 [3; 3]; Node 3 [0; 1; 2]].
Proof. vm_compute. reflexivity. Qed.
Example ex_same_id :
  mkFun SortCore (run SortCore 32 ex_ops) 3 [2; 0] = (run SortCore 32 ex_ops, RTerm 3) /\
  mkFun SortDeepTie (run SortDeepTie 32 refute_ops) 3 [0; 2] = mkFun SortDeepTie (run SortDeepTie 32 refute_ops) 3 [2; 0].
Proof. split; vm_compute; reflexivity. Qed.
Example ex_tree :
  tree_of 6 (run SortCore 32 ex_ops) 3 = Some (T 3 [T 0 []; T 2 [T 1 []; T 0 []]]) /\
  denotes (run SortCore 32 ex_ops) 2 (T 2 [T 1 []; T 0 []]).
Proof. split; [vm_compute; reflexivity | repeat econstructor]. Qed.
Example ex_check : hc_check SortCore (syms (run SortCore 32 ex_ops)) (nodes (run SortCore 32 ex_ops)) = true /\
  hc_check SortCore (syms (run SortCore 32 ex_ops)) [Node 0 []; Node 1 []; Node 2 [1; 0]; Node 2 [1; 0]] = false /\
  hc_check SortCore (syms (run SortCore 32 ex_ops)) [Node 0 []; Node 2 [1; 0]; Node 1 []] = false /\
  hc_check SortCore (syms (run SortCore 32 ex_ops)) [Node 0 []; Node 1 []; Node 3 [1; 0]] = false.
Proof. repeat split; vm_compute; reflexivity. Qed.
