
type nat =
| O
| S of nat

(** val app : 'a1 list -> 'a1 list -> 'a1 list **)

let rec app l m =
  match l with
  | [] -> m
  | a :: l1 -> a :: (app l1 m)

module Nat =
 struct
  (** val eqb : nat -> nat -> bool **)

  let rec eqb n m =
    match n with
    | O -> (match m with
            | O -> true
            | S _ -> false)
    | S n' -> (match m with
               | O -> false
               | S m' -> eqb n' m')
 end

(** val hd_error : 'a1 list -> 'a1 option **)

let hd_error = function
| [] -> None
| x :: _ -> Some x

(** val tl : 'a1 list -> 'a1 list **)

let tl = function
| [] -> []
| _ :: m -> m

(** val nth_error : 'a1 list -> nat -> 'a1 option **)

let rec nth_error l = function
| O -> (match l with
        | [] -> None
        | x :: _ -> Some x)
| S n0 -> (match l with
           | [] -> None
           | _ :: l0 -> nth_error l0 n0)

(** val flat_map : ('a1 -> 'a2 list) -> 'a1 list -> 'a2 list **)

let rec flat_map f = function
| [] -> []
| x :: t -> app (f x) (flat_map f t)

(** val existsb : ('a1 -> bool) -> 'a1 list -> bool **)

let rec existsb f = function
| [] -> false
| a :: l0 -> (||) (f a) (existsb f l0)

(** val firstn : nat -> 'a1 list -> 'a1 list **)

let rec firstn n l =
  match n with
  | O -> []
  | S n0 -> (match l with
             | [] -> []
             | a :: l0 -> a :: (firstn n0 l0))

(** val skipn : nat -> 'a1 list -> 'a1 list **)

let rec skipn n l =
  match n with
  | O -> l
  | S n0 -> (match l with
             | [] -> []
             | _ :: l0 -> skipn n0 l0)

(** val seq : nat -> nat -> nat list **)

let rec seq start = function
| O -> []
| S len0 -> start :: (seq (S start) len0)

type cell = nat

type tid = nat

type op =
| Alloc
| Release of nat

type pc =
| Idle
| AEmpty
| ABranch of bool
| APop of cell
| ARet of cell
| RPush of cell

type thread = { t_pc : pc; t_owned : cell list; t_prog : op list }

(** val t_owned : thread -> cell list **)

let t_owned t =
  t.t_owned

type state = { free : cell list; next : cell; lock : tid option; ub : 
               bool; thr : (tid -> thread) }

(** val free : state -> cell list **)

let free s =
  s.free

(** val ub : state -> bool **)

let ub s =
  s.ub

(** val thr : state -> tid -> thread **)

let thr s =
  s.thr

(** val upd : (tid -> thread) -> tid -> thread -> tid -> thread **)

let upd f t v t' =
  if Nat.eqb t' t then v else f t'

(** val remove_nth : nat -> 'a1 list -> 'a1 list **)

let remove_nth i l =
  app (firstn i l) (skipn (S i) l)

(** val is_nil : 'a1 list -> bool **)

let is_nil = function
| [] -> true
| _ :: _ -> false

(** val acquire : bool -> tid -> state -> tid option option **)

let acquire locked0 t s =
  if locked0
  then (match s.lock with
        | Some _ -> None
        | None -> Some (Some t))
  else Some s.lock

(** val released : bool -> state -> tid option **)

let released locked0 s =
  if locked0 then None else s.lock

(** val step : bool -> tid -> state -> state **)

let step locked0 t s =
  let th = s.thr t in
  let set = fun p o g -> upd s.thr t { t_pc = p; t_owned = o; t_prog = g } in
  (match th.t_pc with
   | Idle ->
     (match th.t_prog with
      | [] -> s
      | o :: p ->
        (match o with
         | Alloc ->
           (match acquire locked0 t s with
            | Some l ->
              { free = s.free; next = s.next; lock = l; ub = s.ub; thr =
                (set AEmpty th.t_owned th.t_prog) }
            | None -> s)
         | Release i ->
           (match nth_error th.t_owned i with
            | Some c ->
              (match acquire locked0 t s with
               | Some l ->
                 { free = s.free; next = s.next; lock = l; ub = s.ub; thr =
                   (set (RPush c) (remove_nth i th.t_owned) th.t_prog) }
               | None -> s)
            | None ->
              { free = s.free; next = s.next; lock = s.lock; ub = s.ub; thr =
                (set Idle th.t_owned p) })))
   | AEmpty ->
     { free = s.free; next = s.next; lock = s.lock; ub = s.ub; thr =
       (set (ABranch (is_nil s.free)) th.t_owned th.t_prog) }
   | ABranch e ->
     if e
     then { free = s.free; next = (S s.next); lock = s.lock; ub = s.ub; thr =
            (set (ARet s.next) th.t_owned th.t_prog) }
     else (match s.free with
           | [] ->
             { free = s.free; next = s.next; lock = s.lock; ub = true; thr =
               (set (APop O) th.t_owned th.t_prog) }
           | r :: _ ->
             { free = s.free; next = s.next; lock = s.lock; ub = s.ub; thr =
               (set (APop r) th.t_owned th.t_prog) })
   | APop r ->
     (match s.free with
      | [] ->
        { free = []; next = s.next; lock = s.lock; ub = true; thr =
          (set (ARet r) th.t_owned th.t_prog) }
      | _ :: f ->
        { free = f; next = s.next; lock = s.lock; ub = s.ub; thr =
          (set (ARet r) th.t_owned th.t_prog) })
   | ARet r ->
     { free = s.free; next = s.next; lock = (released locked0 s); ub = s.ub;
       thr = (set Idle (r :: th.t_owned) (tl th.t_prog)) }
   | RPush c ->
     { free = (c :: s.free); next = s.next; lock = (released locked0 s); ub =
       s.ub; thr = (set Idle th.t_owned (tl th.t_prog)) })

type schedule = tid list

(** val run : bool -> schedule -> state -> state **)

let rec run locked0 sch s =
  match sch with
  | [] -> s
  | t :: r -> run locked0 r (step locked0 t s)

(** val init : (tid -> op list) -> state **)

let init progs =
  { free = []; next = O; lock = None; ub = false; thr = (fun t -> { t_pc =
    Idle; t_owned = []; t_prog = (progs t) }) }

(** val inflight : pc -> cell list **)

let inflight = function
| ARet r -> r :: []
| RPush c -> c :: []
| _ -> []

(** val held : thread -> cell list **)

let held th =
  app (inflight th.t_pc) th.t_owned

(** val iter : nat -> ('a1 -> 'a1) -> 'a1 -> 'a1 **)

let rec iter n f a =
  match n with
  | O -> a
  | S m -> iter m f (f a)

(** val set_prog : tid -> op list -> state -> state **)

let set_prog t p s =
  { free = s.free; next = s.next; lock = s.lock; ub = s.ub; thr =
    (upd s.thr t { t_pc = (s.thr t).t_pc; t_owned = (s.thr t).t_owned;
      t_prog = p }) }

(** val seq_exec : bool -> op list -> state -> cell option list **)

let rec seq_exec locked0 ops s =
  match ops with
  | [] -> []
  | o :: r ->
    let s2 =
      iter (S (S (S (S (S O))))) (step locked0 O) (set_prog O (o :: []) s)
    in
    (match o with
     | Alloc -> hd_error (s2.thr O).t_owned
     | Release _ -> None) :: (seq_exec locked0 r s2)

(** val mem : cell -> cell list -> bool **)

let rec mem c = function
| [] -> false
| x :: r -> (||) (Nat.eqb x c) (mem c r)

(** val dup : cell list -> bool **)

let rec dup = function
| [] -> false
| x :: r -> (||) (mem x r) (dup r)

(** val bad_b : nat -> state -> bool **)

let bad_b k s =
  let hs = flat_map (fun t -> held (s.thr t)) (seq O k) in
  (||) ((||) ((||) s.ub (dup s.free)) (dup hs))
    (existsb (fun c -> mem c s.free) hs)

(** val locked : bool **)

let locked =
  true

(** val discipline : nat **)

let discipline =
  S O
