(* C20 — pipe mode and file mode produce identical results.  Theorems only; proofs are in Pipe/*.v.

   Model: Pipe/PipeModel.v (Interpret::interpPipe as a fold over read results, Interpret::interpFile +
   execute), Pipe/LexStates.v (the lexer's start conditions), Pipe/Gen_PipeFlags.v and Pipe/Gen_LexRules.v
   (regenerated from the C++ / flex text on every check).
   parse_ok t  = osmt_yyparse accepts the text t;   exits t = executing t sets f_exit;
   parse_file_ok s = the one parser call of file mode accepts the whole file.
   DQ in comments stands for the double-quote character. *)
From Coq Require Import List Ascii Bool ZArith.
From OsmtV.Pipe Require Import PipeBase Gen_PipeFlags Gen_LexRules LexStates PipeModel PipeProofs PipeLexProofs PipeWitness.
Import ListNotations.
Local Open Scope Z_scope.

(* Tie obligation: the flag update regenerated from the C++ text is the five-mode scanner machine of
   LexStates.scan_mode_step (with or without a string-escape state, as the code has it). *)
Theorem gen_flag_step_is_mode_machine : forall m c,
  (gen_has_string_escape = true \/ m <> LStrEsc) ->
  gen_flag_step (mode_flags m) c =
  (mode_flags (fst (scan_mode_step gen_has_string_escape m c)), snd (scan_mode_step gen_has_string_escape m c)).
Proof. exact gen_step_modes. Qed.
Print Assumptions gen_flag_step_is_mode_machine.

(* However the text is split across reads: the observable events up to and including the first one that
   stops the reader (exit executed, unbalanced parenthesis) are the same.  Full strength, every parser,
   every exit predicate, every chunking without the empty chunk (= EOF). *)
Theorem chunking_irrelevant : forall parse_ok exits cs cs',
  no_empty cs -> no_empty cs' -> concat cs = concat cs' ->
  cut exits (pipe_events parse_ok exits cs) = cut exits (pipe_events parse_ok exits cs').
Proof. exact chunking_irrelevant_lemma. Qed.
Print Assumptions chunking_irrelevant.

(* ... and so are the commands executed, unless an unbalanced ')' is met *)
Theorem chunking_irrelevant_executed : forall parse_ok exits cs cs',
  no_empty cs -> no_empty cs' -> concat cs = concat cs' ->
  ~ In EUnbal (stream_events parse_ok exits (concat cs)) ->
  executed (pipe_events parse_ok exits cs) = executed (pipe_events parse_ok exits cs').
Proof.
  intros p e cs cs' H H' E U.
  rewrite (pipe_executed_stream p e cs H U).
  rewrite E in U. rewrite (pipe_executed_stream p e cs' H' U). rewrite E. reflexivity.
Qed.
Print Assumptions chunking_irrelevant_executed.

(* Past the first stopping event chunking DOES matter (the for loop over the current read does not test
   `done`):  "(exit))" in one read reports the unbalanced parenthesis, "(exit)" ")" in two reads does not. *)
Theorem chunking_irrelevant_past_stop_refuted :
  exists cs cs', no_empty cs /\ no_empty cs' /\ concat cs = concat cs' /\
    pipe_events all_ok is_exit_command cs <> pipe_events all_ok is_exit_command cs'.
Proof. exact chunking_past_stop_refuted_lemma. Qed.
Print Assumptions chunking_irrelevant_past_stop_refuted.

(* The frames the pipe scanner hands to the parser are the commands the lexer sees in the file --
   provided the scanner has a string-escape state or the lexer never takes the backslash-DQ escape. *)
Theorem pipe_frames_eq_file_commands : forall parse_ok exits s,
  (gen_has_string_escape = true \/ no_escaped_quote s = true) ->
  frame_texts (stream_events parse_ok exits s) = map cstring (file_commands s).
Proof. exact stream_frames_eq_file. Qed.
Print Assumptions pipe_frames_eq_file_commands.

(* pipe_eq_file: a syntactically valid script (lexer modes and nesting valid, every command and the whole
   file accepted by the parser), whose string literals are benign for the scanner (guard 1) and for the
   lexer's ECHO (guard 2), shows the same things in the same order in both modes, however it is read. *)
Theorem pipe_eq_file : forall parse_ok exits parse_file_ok cs,
  no_empty cs -> lex_valid (concat cs) = true ->
  (gen_has_string_escape = true \/ no_escaped_quote (concat cs) = true) ->
  lex_echo (concat cs) = [] ->
  all_parse_ok parse_ok (concat cs) -> parse_file_ok (concat cs) = true ->
  visible (pipe_events parse_ok exits cs) = file_events exits parse_file_ok (concat cs).
Proof. exact pipe_visible_eq_file. Qed.
Print Assumptions pipe_eq_file.

(* THE THEOREM FOR THE CURRENT TREE (fix: e573377 string-escape state in the pipe reader, 21cfae2 lexer rule for a single
   backslash): every syntactically valid script shows the same things in the same order in both modes, however it is
   read -- no guard on string literals.  (Breaks, as it must, if either fix is reverted.) *)
Theorem pipe_eq_file_current : forall parse_ok exits parse_file_ok cs,
  no_empty cs -> lex_valid (concat cs) = true ->
  all_parse_ok parse_ok (concat cs) -> parse_file_ok (concat cs) = true ->
  visible (pipe_events parse_ok exits cs) = file_events exits parse_file_ok (concat cs).
Proof. exact pipe_eq_file_current_lemma. Qed.
Print Assumptions pipe_eq_file_current.

(* guard 2 is void once the lexer has a rule for a single backslash in a string literal *)
Theorem lex_echo_void_when_fixed : gen_lone_backslash_echo = false -> forall s, lex_echo s = [].
Proof. intros H s. exact (lex_echo_from_fixed H s LInit). Qed.
Print Assumptions lex_echo_void_when_fixed.

(* History: refutation 1 (faithful model of the tree before e573377; vacuous now; DESIGN.md section 9 item 1):
   (set-logic QF_UF)(echo DQ a \ DQ ( b DQ)(check-sat)  is valid, yet pipe mode frames it differently and
   executes other commands than file mode. *)
Theorem pipe_eq_file_refuted :
  gen_has_string_escape = false ->
  exists s, lex_valid s = true /\ lex_echo s = [] /\
            frame_texts (pipe_events all_ok is_exit_command [s]) <> file_commands s /\
            executed (pipe_events all_ok is_exit_command [s]) <>
            executed (file_events is_exit_command all_ok s).
Proof. exact pipe_eq_file_refuted_lemma. Qed.
Print Assumptions pipe_eq_file_refuted.

(* History: refutation 2 (before 21cfae2; vacuous now): (echo DQ x DQ)(echo DQ a \ b DQ)  -- framing is the same, but the lexer ECHOes the
   backslash while lexing, and file mode lexes everything before executing anything. *)
Theorem pipe_eq_file_lone_backslash_refuted :
  gen_lone_backslash_echo = true ->
  exists s, lex_valid s = true /\ no_escaped_quote s = true /\
            frame_texts (pipe_events all_ok is_exit_command [s]) = file_commands s /\
            visible (pipe_events all_ok is_exit_command [s]) <> file_events is_exit_command all_ok s.
Proof. exact lone_backslash_refuted_lemma. Qed.
Print Assumptions pipe_eq_file_lone_backslash_refuted.

(* exit stops both modes at the same command *)
Theorem exit_stops_both : forall parse_ok exits parse_file_ok cs,
  no_empty cs -> lex_valid (concat cs) = true ->
  (gen_has_string_escape = true \/ no_escaped_quote (concat cs) = true) ->
  all_parse_ok parse_ok (concat cs) -> parse_file_ok (concat cs) = true ->
  executed (pipe_events parse_ok exits cs) = upto_exit exits (file_commands (concat cs)) /\
  executed (file_events exits parse_file_ok (concat cs)) = upto_exit exits (file_commands (concat cs)).
Proof.
  intros p e pf cs H1 H2 H3 H4 H5. split.
  - exact (pipe_executed_valid p e cs H1 H2 H3 H4).
  - exact (file_executed e pf (concat cs) H5).
Qed.
Print Assumptions exit_stops_both.

(* the asserts of the reader loop: for every sequence of reads that respects the requested sizes the
   request is positive and the buffer index stays inside the buffer *)
Theorem reader_buffer_invariants : forall parse_ok exits cs,
  feasible_from parse_ok exits pst0 cs ->
  bufinv (fst (run_from parse_ok exits pst0 cs)) /\
  (forall s, bufinv s -> 0 < request s /\ Z.of_nat (length (buf s)) + request s < grown s).
Proof.
  intros p e cs H. split.
  - exact (run_bufinv p e cs pst0 sst0 Rel0 bufinv0 H).
  - exact request_pos.
Qed.
Print Assumptions reader_buffer_invariants.

(* non-vacuity: a valid script with comments containing ( and DQ, a quoted symbol over two lines containing
   ; ( DQ, a string containing ; | ) ( -- read one byte at a time and seven bytes at a time *)
Example c20_nonvacuous :
  lex_valid w_layout = true /\ no_escaped_quote w_layout = true /\ lex_echo w_layout = [] /\
  length (file_commands w_layout) = 7%nat /\
  length (executed (pipe_events all_ok is_exit_command (chop 400 1 w_layout))) = 6%nat /\
  executed (pipe_events all_ok is_exit_command (chop 400 1 w_layout)) =
  executed (pipe_events all_ok is_exit_command (chop 400 7 w_layout)) /\
  concat (chop 400 7 w_layout) = w_layout.
Proof. exact w_layout_ok. Qed.

(* the guard is sufficient, not necessary: paired escaped quotes do not disturb the scanner *)
Example c20_guard_not_necessary :
  no_escaped_quote w_escq_paired = false /\
  frame_texts (pipe_events all_ok is_exit_command [w_escq_paired]) = file_commands w_escq_paired.
Proof. exact w_escq_paired_same. Qed.
