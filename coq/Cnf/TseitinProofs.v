From Coq Require Import List Bool NArith Lia.
From OsmtV.Cnf Require Import Gen_TseitinTemplates TseitinModel.
Import ListNotations.

(* ---- the regenerated fixed-arity templates define exactly v <-> op args (finite truth-table sweeps) ---- *)
Lemma tmpl_xor_iff v a b : tmpl_val v [a; b] tmpl_xor = true <-> v = xorb a b.
Proof. destruct v, a, b; vm_compute; split; intros; congruence. Qed.
Lemma tmpl_iff_iff v a b : tmpl_val v [a; b] tmpl_iff = true <-> v = Bool.eqb a b.
Proof. destruct v, a, b; vm_compute; split; intros; congruence. Qed.
Lemma tmpl_implies_iff v a b : tmpl_val v [a; b] tmpl_implies = true <-> v = implb a b.
Proof. destruct v, a, b; vm_compute; split; intros; congruence. Qed.
Lemma tmpl_ite_iff v c a b : tmpl_val v [c; a; b] tmpl_ite = true <-> v = (if c then a else b).
Proof. destruct v, c, a, b; vm_compute; split; intros; congruence. Qed.

(* ---- the regenerated n-ary shapes, for argument lists of any length ---- *)
Lemma existsb_negb_forallb (l : list bool) : existsb negb l = negb (forallb (fun a => a) l).
Proof. induction l as [|a r IH]; simpl; [reflexivity|]. rewrite IH. destruct a; reflexivity. Qed.
Lemma forallb_negb_existsb (l : list bool) : forallb negb l = negb (existsb (fun a => a) l).
Proof. induction l as [|a r IH]; simpl; [reflexivity|]. rewrite IH. destruct a; reflexivity. Qed.
Lemma forallb_const_true {A} (l : list A) : forallb (fun _ => true) l = true.
Proof. induction l; simpl; auto. Qed.

Lemma forallb_eq_ext {A} (f g : A -> bool) l : (forall a, f a = g a) -> forallb f l = forallb g l.
Proof. intros H. induction l as [|a r IH]; simpl; [reflexivity|]. now rewrite H, IH. Qed.
Lemma existsb_eq_ext {A} (f g : A -> bool) l : (forall a, f a = g a) -> existsb f l = existsb g l.
Proof. intros H. induction l as [|a r IH]; simpl; [reflexivity|]. now rewrite H, IH. Qed.

Lemma and_small_val v a : clause_val v [a] and_small = negb v || a.
Proof. destruct v, a; reflexivity. Qed.
Lemma or_small_val v a : clause_val v [a] or_small = v || negb a.
Proof. destruct v, a; reflexivity. Qed.

Lemma and_nary_iff v args :
  nary_val and_big_head and_big_neg and_small v args = true <-> v = forallb (fun a => a) args.
Proof.
  unfold nary_val.
  rewrite (forallb_eq_ext _ (fun a => negb v || a) args (and_small_val v)).
  change (tl_val v [] and_big_head) with v.
  rewrite (existsb_eq_ext _ negb args) by reflexivity.
  rewrite existsb_negb_forallb.
  destruct v; cbn [negb orb].
  - rewrite andb_true_r. split; intros H; now rewrite H.
  - rewrite forallb_const_true. cbn [andb].
    destruct (forallb (fun a => a) args); simpl; split; intros; congruence.
Qed.

Lemma or_nary_iff v args :
  nary_val or_big_head or_big_neg or_small v args = true <-> v = existsb (fun a => a) args.
Proof.
  unfold nary_val.
  rewrite (forallb_eq_ext _ (fun a => v || negb a) args (or_small_val v)).
  change (tl_val v [] or_big_head) with (negb v).
  rewrite (existsb_eq_ext _ (fun a => a) args) by reflexivity.
  destruct v; cbn [negb orb].
  - rewrite forallb_const_true. cbn [andb]. split; intros H; now rewrite H.
  - rewrite (forallb_eq_ext _ negb args) by reflexivity.
    rewrite forallb_negb_existsb.
    destruct (existsb (fun a => a) args); simpl; split; intros; congruence.
Qed.

(* ---- induction principle for the nested datatype ---- *)
Section FmInd.
  Variable P : fm -> Prop.
  Hypothesis Hatom : forall n, P (FAtom n).
  Hypothesis Hnot : forall f, P f -> P (FNot f).
  Hypothesis Hand : forall fs, Forall P fs -> P (FAnd fs).
  Hypothesis Hor : forall fs, Forall P fs -> P (FOr fs).
  Hypothesis Hxor : forall a b, P a -> P b -> P (FXor a b).
  Hypothesis Hiff : forall a b, P a -> P b -> P (FIff a b).
  Hypothesis Himp : forall a b, P a -> P b -> P (FImp a b).
  Fixpoint fm_ind' (f : fm) : P f :=
    match f with
    | FAtom n => Hatom n
    | FNot g => Hnot g (fm_ind' g)
    | FAnd fs => Hand fs ((fix go (l : list fm) : Forall P l :=
                             match l with [] => Forall_nil P | x :: r => Forall_cons x (fm_ind' x) (go r) end) fs)
    | FOr fs => Hor fs ((fix go (l : list fm) : Forall P l :=
                           match l with [] => Forall_nil P | x :: r => Forall_cons x (fm_ind' x) (go r) end) fs)
    | FXor a b => Hxor a b (fm_ind' a) (fm_ind' b)
    | FIff a b => Hiff a b (fm_ind' a) (fm_ind' b)
    | FImp a b => Himp a b (fm_ind' a) (fm_ind' b)
    end.
End FmInd.

Lemma eval_and rho fs : eval rho (FAnd fs) = forallb (fun a => a) (map (eval rho) fs).
Proof. simpl. induction fs as [|x r IH]; simpl; [reflexivity | now rewrite IH]. Qed.
Lemma eval_or rho fs : eval rho (FOr fs) = existsb (fun a => a) (map (eval rho) fs).
Proof. simpl. induction fs as [|x r IH]; simpl; [reflexivity | now rewrite IH]. Qed.

Lemma defs_all_iff sigma fs :
  (fix all (l : list fm) := match l with [] => true | x :: r => defs_hold sigma x && all r end) fs = true
  <-> Forall (fun x => defs_hold sigma x = true) fs.
Proof.
  induction fs as [|x r IH]; simpl; [split; auto|].
  rewrite andb_true_iff, IH. split; [intros [H1 H2]; constructor; auto | intros H; inversion H; auto].
Qed.

(* Completeness direction (what C02 needs): an assignment of the solver's variables that satisfies every
   definition clause gives each node the truth value of the sub-formula under the assignment of the atoms. *)
Lemma tseitin_defs_complete sigma f :
  defs_hold sigma f = true -> lit sigma f = eval (fun n => sigma (FAtom n)) f.
Proof.
  induction f as [n|g IH|fs IH|fs IH|a b IHa IHb|a b IHa IHb|a b IHa IHb] using fm_ind'; intros H.
  - reflexivity.
  - simpl in *. now rewrite IH.
  - cbn [defs_hold] in H. apply andb_true_iff in H as [Hn Hall]. apply defs_all_iff in Hall.
    apply and_nary_iff in Hn. cbn [lit]. rewrite Hn, eval_and. f_equal.
    clear Hn. induction fs as [|x r IHr]; simpl; [reflexivity|].
    inversion IH; inversion Hall; subst. f_equal; auto.
  - cbn [defs_hold] in H. apply andb_true_iff in H as [Hn Hall]. apply defs_all_iff in Hall.
    apply or_nary_iff in Hn. cbn [lit]. rewrite Hn, eval_or. f_equal.
    clear Hn. induction fs as [|x r IHr]; simpl; [reflexivity|].
    inversion IH; inversion Hall; subst. f_equal; auto.
  - cbn [defs_hold] in H. apply andb_true_iff in H as [H Hb]. apply andb_true_iff in H as [Ht Ha].
    apply tmpl_xor_iff in Ht. cbn [lit eval]. rewrite Ht, IHa, IHb; auto.
  - cbn [defs_hold] in H. apply andb_true_iff in H as [H Hb]. apply andb_true_iff in H as [Ht Ha].
    apply tmpl_iff_iff in Ht. cbn [lit eval]. rewrite Ht, IHa, IHb; auto.
  - cbn [defs_hold] in H. apply andb_true_iff in H as [H Hb]. apply andb_true_iff in H as [Ht Ha].
    apply tmpl_implies_iff in Ht. cbn [lit eval]. rewrite Ht, IHa, IHb; auto.
Qed.

(* Soundness direction (what C01/C13 need): every assignment of the atoms extends to the definition
   variables so that all definition clauses hold and each node carries its truth value. *)
Lemma lit_eval rho f : lit (eval rho) f = eval rho f.
Proof. induction f using fm_ind'; simpl; auto. now rewrite IHf. Qed.

Lemma tseitin_defs_sound rho f : defs_hold (eval rho) f = true.
Proof.
  induction f as [n|g IH|fs IH|fs IH|a b IHa IHb|a b IHa IHb|a b IHa IHb] using fm_ind'.
  - reflexivity.
  - exact IH.
  - cbn [defs_hold]. apply andb_true_iff. split.
    + apply and_nary_iff. rewrite eval_and. f_equal. apply map_ext. intros x. symmetry. apply lit_eval.
    + apply defs_all_iff. exact IH.
  - cbn [defs_hold]. apply andb_true_iff. split.
    + apply or_nary_iff. rewrite eval_or. f_equal. apply map_ext. intros x. symmetry. apply lit_eval.
    + apply defs_all_iff. exact IH.
  - cbn [defs_hold]. rewrite IHa, IHb, !andb_true_r. apply tmpl_xor_iff. now rewrite !lit_eval.
  - cbn [defs_hold]. rewrite IHa, IHb, !andb_true_r. apply tmpl_iff_iff. now rewrite !lit_eval.
  - cbn [defs_hold]. rewrite IHa, IHb, !andb_true_r. apply tmpl_implies_iff. now rewrite !lit_eval.
Qed.

(* The clause set of cnfizeAndAssert is equisatisfiable with the formula, with model preservation. *)
Theorem tseitin_equisat f :
  (forall sigma, cnf_holds sigma f = true -> eval (fun n => sigma (FAtom n)) f = true) /\
  (forall rho, eval rho f = true -> cnf_holds (eval rho) f = true).
Proof.
  split.
  - intros sigma H. unfold cnf_holds in H. apply andb_true_iff in H as [Hl Hd].
    now rewrite <- (tseitin_defs_complete sigma f Hd).
  - intros rho H. unfold cnf_holds. now rewrite lit_eval, H, tseitin_defs_sound.
Qed.
