(* Tseitin clausification as done by src/cnfizers/Tseitin.cc (templates regenerated into
   Gen_TseitinTemplates.v) over propositional skeletons.  Definitions only. *)
From Coq Require Import List Bool NArith.
From OsmtV.Cnf Require Import Gen_TseitinTemplates.
Import ListNotations.

(* propositional skeleton of a preprocessed formula: theory atoms are FAtom *)
Inductive fm :=
| FAtom (n : N)
| FNot (f : fm)
| FAnd (fs : list fm)
| FOr (fs : list fm)
| FXor (a b : fm)
| FIff (a b : fm)
| FImp (a b : fm).

Section Eval.
  Variable rho : N -> bool.
  Fixpoint eval (f : fm) : bool :=
    match f with
    | FAtom n => rho n
    | FNot g => negb (eval g)
    | FAnd fs => (fix all (l : list fm) := match l with [] => true | x :: r => eval x && all r end) fs
    | FOr fs => (fix any (l : list fm) := match l with [] => false | x :: r => eval x || any r end) fs
    | FXor a b => xorb (eval a) (eval b)
    | FIff a b => Bool.eqb (eval a) (eval b)
    | FImp a b => implb (eval a) (eval b)
    end.
End Eval.

(* value of a template literal given the value of v and of the arguments *)
Definition tl_val (v : bool) (args : list bool) (t : tl) : bool :=
  match t with
  | TV => v | TnV => negb v
  | TA i => nth i args false | TnA i => negb (nth i args false)
  end.
Definition clause_val v args (c : list tl) : bool := existsb (tl_val v args) c.
Definition tmpl_val v args (cs : list (list tl)) : bool := forallb (clause_val v args) cs.

(* n-ary connectives: per-argument clause instantiated with each argument, plus the big clause *)
Definition nary_val (head : tl) (big_neg : bool) (small : list tl) (v : bool) (args : list bool) : bool :=
  forallb (fun a => clause_val v [a] small) args &&
  (tl_val v [] head || existsb (fun a => if big_neg then negb a else a) args).

(* A literal assignment: sigma gives a value to every non-negation node (the solver's variable of the term);
   a negation node is the negated literal of its child (getOrCreateLiteralFor). *)
Section Defs.
  Variable sigma : fm -> bool.
  Fixpoint lit (f : fm) : bool := match f with FNot g => negb (lit g) | _ => sigma f end.

  (* all definition clauses emitted for the DAG below f hold under sigma *)
  Fixpoint defs_hold (f : fm) : bool :=
    match f with
    | FAtom _ => true
    | FNot g => defs_hold g
    | FAnd fs => nary_val and_big_head and_big_neg and_small (sigma f) (map lit fs) &&
                 (fix all (l : list fm) := match l with [] => true | x :: r => defs_hold x && all r end) fs
    | FOr fs => nary_val or_big_head or_big_neg or_small (sigma f) (map lit fs) &&
                (fix all (l : list fm) := match l with [] => true | x :: r => defs_hold x && all r end) fs
    | FXor a b => tmpl_val (sigma f) [lit a; lit b] tmpl_xor && defs_hold a && defs_hold b
    | FIff a b => tmpl_val (sigma f) [lit a; lit b] tmpl_iff && defs_hold a && defs_hold b
    | FImp a b => tmpl_val (sigma f) [lit a; lit b] tmpl_implies && defs_hold a && defs_hold b
    end.

  (* the clause set of  cnfizeAndAssert f : the unit literal of f plus all definitions *)
  Definition cnf_holds (f : fm) : bool := lit f && defs_hold f.
End Defs.
