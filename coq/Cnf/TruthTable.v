(* A verified truth-table validity checker for propositional skeletons (Cnf/TseitinModel.v fm):
   used per run to check that every clause handed to the SAT engine follows from the preprocessed formula and
   that the clauses together imply it (checks/C02.py). *)
From Coq Require Import List Bool NArith.
From OsmtV.Cnf Require Import Gen_TseitinTemplates TseitinModel TseitinProofs.
Import ListNotations.

Fixpoint atoms (f : fm) : list N :=
  match f with
  | FAtom n => [n]
  | FNot g => atoms g
  | FAnd fs => (fix go (l : list fm) := match l with [] => [] | x :: r => atoms x ++ go r end) fs
  | FOr fs => (fix go (l : list fm) := match l with [] => [] | x :: r => atoms x ++ go r end) fs
  | FXor a b | FIff a b | FImp a b => atoms a ++ atoms b
  end.

(* assignment given by the list of atoms that are true *)
Definition rho_of (trues : list N) : N -> bool := fun n => existsb (N.eqb n) trues.

(* all subsets of a list of atoms *)
Fixpoint subsets (l : list N) : list (list N) :=
  match l with [] => [[]] | x :: r => let s := subsets r in s ++ map (cons x) s end.

Definition tt_valid (f : fm) : bool := forallb (fun t => eval (rho_of t) f) (subsets (nodup N.eq_dec (atoms f))).

(* ---------------------------------------------------------------------------------------------- *)
Lemma eval_ext rho1 rho2 f : (forall n, In n (atoms f) -> rho1 n = rho2 n) -> eval rho1 f = eval rho2 f.
Proof.
  induction f as [n|g IH|fs IH|fs IH|a b IHa IHb|a b IHa IHb|a b IHa IHb] using fm_ind'; intros H.
  - simpl. apply H. simpl. auto.
  - simpl. f_equal. apply IH. exact H.
  - rewrite !eval_and. f_equal. simpl in H. induction fs as [|x r IHr]; simpl; [reflexivity|].
    inversion IH; subst. f_equal.
    + apply H2. intros n Hn. apply H. apply in_or_app. auto.
    + apply IHr; auto. intros n Hn. apply H. apply in_or_app. auto.
  - rewrite !eval_or. f_equal. simpl in H. induction fs as [|x r IHr]; simpl; [reflexivity|].
    inversion IH; subst. f_equal.
    + apply H2. intros n Hn. apply H. apply in_or_app. auto.
    + apply IHr; auto. intros n Hn. apply H. apply in_or_app. auto.
  - simpl. simpl in H. rewrite IHa, IHb; auto; intros n Hn; apply H, in_or_app; auto.
  - simpl. simpl in H. rewrite IHa, IHb; auto; intros n Hn; apply H, in_or_app; auto.
  - simpl. simpl in H. rewrite IHa, IHb; auto; intros n Hn; apply H, in_or_app; auto.
Qed.

Lemma subsets_complete (l : list N) (p : N -> bool) : In (filter p l) (subsets l).
Proof.
  induction l as [|x r IH]; simpl; [auto|].
  apply in_or_app. destruct (p x); [right; now apply in_map | left; exact IH].
Qed.

Lemma rho_of_filter (l : list N) (rho : N -> bool) n : In n l -> rho_of (filter rho l) n = rho n.
Proof.
  intros Hin. unfold rho_of. destruct (rho n) eqn:E.
  - apply existsb_exists. exists n. split; [apply filter_In; auto | apply N.eqb_refl].
  - destruct (existsb (N.eqb n) (filter rho l)) eqn:X; [|reflexivity].
    apply existsb_exists in X as [m [Hm Em]]. apply N.eqb_eq in Em. subst m.
    apply filter_In in Hm as [_ Hm]. congruence.
Qed.

(* acceptance by the truth table means validity under every assignment of the atoms *)
Theorem tt_valid_sound f : tt_valid f = true -> forall rho, eval rho f = true.
Proof.
  unfold tt_valid. intros H rho. rewrite forallb_forall in H.
  set (l := nodup N.eq_dec (atoms f)).
  specialize (H (filter rho l) (subsets_complete l rho)).
  rewrite <- H. apply eval_ext. intros n Hn. symmetry. apply rho_of_filter.
  unfold l. now apply nodup_In.
Qed.

Theorem tt_valid_complete f : (forall rho, eval rho f = true) -> tt_valid f = true.
Proof. intros H. unfold tt_valid. apply forallb_forall. intros t _. apply H. Qed.
