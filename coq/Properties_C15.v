(* C15 — rational arithmetic is exact in both representations.  Theorems only; the model is
   Rat/FRModel.v (a branch-by-branch transcription of FastRational.h/.cc, extracted and compared
   with the implementation on every check), proofs are in Rat/FRProofs*.v.

   Reading guide.  `fr` = Word num den | Big q;  `wf` = the class invariant (word form: int32 /
   uint32 ranges, den >= 1, lowest terms; big form: lowest terms and does NOT fit a word);
   `value : fr -> Q`.  Every operation returns `res fr` = Ok x | Err e, where Err is undefined
   behaviour (signed overflow, division by zero), abort(), or a GMP division by zero.  The shape
        exists x, op a b = Ok x /\ wf x /\ value x == <exact result>
   therefore says at once: no UB / abort / wrap on the way (for all well-formed operands), the
   result is canonical (so equal values have equal representation and hash, see repr_unique),
   and it is the mathematically exact result. *)
From Coq Require Import ZArith QArith Qround.
From OsmtV.Rat Require Import FRModel FRBase FRGcd FRProofsAdd FRProofsMul FRProofsCtor FRProofsCmp
  FRProofsRound FRProofsGcd FRProofsDivMod FRProofsRepr CMacro Gen_CheckMacros CheckMacrosProofs.
Local Open Scope Z_scope.

(* ---------------------------------------------------------------------------------------- *)
(* arithmetic core                                                                           *)

Theorem addition_exact : forall a b, wf a -> wf b ->
  exists x, fr_add a b = Ok x /\ wf x /\ value x == value a + value b.
Proof. exact fr_add_exact. Qed.
Print Assumptions addition_exact.

Theorem subtraction_exact : forall a b, wf a -> wf b ->
  exists x, fr_sub a b = Ok x /\ wf x /\ value x == value a - value b.
Proof. exact fr_sub_exact. Qed.
Print Assumptions subtraction_exact.

Theorem multiplication_exact : forall a b, wf a -> wf b ->
  exists x, fr_mul a b = Ok x /\ wf x /\ value x == value a * value b.
Proof. exact fr_mul_exact. Qed.
Print Assumptions multiplication_exact.

Theorem division_exact : forall a b, wf a -> wf b -> ~ value b == 0 ->
  exists x, fr_div a b = Ok x /\ wf x /\ value x == value a / value b.
Proof. exact fr_div_exact. Qed.
Print Assumptions division_exact.

(* the in-place forms (operator+=, -=, *=, /=) *)
Theorem assign_forms_exact : forall a b, wf a -> wf b ->
  (exists x, fr_addA a b = Ok x /\ wf x /\ value x == value a + value b) /\
  (exists x, fr_subA a b = Ok x /\ wf x /\ value x == value a - value b) /\
  (exists x, fr_mulA a b = Ok x /\ wf x /\ value x == value a * value b) /\
  (~ value b == 0 -> exists x, fr_divA a b = Ok x /\ wf x /\ value x == value a / value b).
Proof.
  intros a b Ha Hb. split; [exact (fr_addA_exact a b Ha Hb)|]. split; [exact (fr_subA_exact a b Ha Hb)|].
  split; [exact (fr_mulA_exact a b Ha Hb) | exact (fr_divA_exact a b Ha Hb)].
Qed.
Print Assumptions assign_forms_exact.

(* unary minus, negate() (INT_MIN included: the result 2^31 is a big number), inverse() *)
Theorem negation_exact : forall a, wf a ->
  (exists x, fr_neg a = Ok x /\ wf x /\ value x == - value a) /\
  (exists x, fr_negate a = Ok x /\ wf x /\ value x == - value a).
Proof. intros a Ha. split; [exact (fr_neg_exact a Ha) | exact (fr_negate_exact a Ha)]. Qed.
Print Assumptions negation_exact.

Theorem inverse_exact : forall a, wf a -> ~ value a == 0 ->
  exists x, fr_inv a = Ok x /\ wf x /\ value x == / value a.
Proof. exact fr_inv_exact. Qed.
Print Assumptions inverse_exact.

(* ---------------------------------------------------------------------------------------- *)
(* comparison, equality, sign, integrality, numerator / denominator, floor, ceiling          *)

Theorem compare_exact : forall a b, wf a -> wf b ->
  fr_compare a b = Ok (match Qcompare (value a) (value b) with Lt => -1 | Eq => 0 | Gt => 1 end).
Proof. exact fr_compare_exact. Qed.
Print Assumptions compare_exact.

Theorem equality_exact : forall a b, wf a -> wf b -> (fr_eq a b = true <-> value a == value b).
Proof. exact fr_eq_exact. Qed.
Print Assumptions equality_exact.

Theorem sign_exact : forall a, fr_sign a = match Qcompare (value a) 0 with Lt => -1 | Eq => 0 | Gt => 1 end.
Proof. intros a. rewrite fr_sign_exact. exact (sign_is_sign (value a)). Qed.
Print Assumptions sign_exact.

Theorem isInteger_exact : forall a, wf a -> (fr_isInteger a = true <-> exists z, value a == z # 1).
Proof. exact fr_isInteger_exact. Qed.
Print Assumptions isInteger_exact.

(* get_num / get_den return numerator and denominator of the value in lowest terms
   (wf_value_canonical: the value of a well-formed number is in lowest terms) *)
Theorem numerator_denominator_exact : forall a, wf a ->
  Z.gcd (Qnum (value a)) (Zpos (Qden (value a))) = 1 /\
  wf (fr_get_num a) /\ value (fr_get_num a) == Qnum (value a) # 1 /\
  wf (fr_get_den a) /\ value (fr_get_den a) == Zpos (Qden (value a)) # 1.
Proof.
  intros a Ha. split; [exact (wf_value_canonical a Ha)|].
  destruct (fr_get_num_exact a Ha) as [H1 H2]. destruct (fr_get_den_exact a Ha) as [H3 H4]. tauto.
Qed.
Print Assumptions numerator_denominator_exact.

Theorem floor_ceil_exact : forall a, wf a ->
  (exists x, fr_floor a = Ok x /\ wf x /\ value x == Qfloor (value a) # 1) /\
  (exists x, fr_ceil a = Ok x /\ wf x /\ value x == Qceiling (value a) # 1).
Proof. intros a Ha. split; [exact (fr_floor_exact a Ha) | exact (fr_ceil_exact a Ha)]. Qed.
Print Assumptions floor_ceil_exact.

(* constructors: FastRational(word), (uint32_t), (mpz_t), ("n/d"), (word n, uword d) *)
Theorem constructors_exact :
  (forall x, WORD_MIN <= x <= WORD_MAX -> wf (of_word x) /\ value (of_word x) == x # 1) /\
  (forall x, 0 <= x <= UWORD_MAX -> wf (of_uint32 x) /\ value (of_uint32 x) == x # 1) /\
  (forall z, wf (of_mpz z) /\ value (of_mpz z) == z # 1) /\
  (forall n d, wf (of_string n d) /\ value (of_string n d) == n # d) /\
  (forall n d, WORD_MIN <= n <= WORD_MAX -> 1 <= d <= UWORD_MAX ->
     exists x, of_word_uword n d = Ok x /\ wf x /\ value x == n # Z.to_pos d).
Proof.
  split; [exact of_word_exact|]. split; [exact of_uint32_exact|]. split; [exact of_mpz_exact|].
  split; [exact of_string_exact | exact of_word_uword_exact].
Qed.
Print Assumptions constructors_exact.

(* ---------------------------------------------------------------------------------------- *)
(* one representation per value; hash; independence of the representation                    *)

Theorem repr_unique : forall a b, wf a -> wf b -> value a == value b -> a = b.
Proof. exact repr_unique_lemma. Qed.
Print Assumptions repr_unique.

Theorem hash_respects_eq : forall a b, wf a -> wf b -> value a == value b -> fr_hash a = fr_hash b.
Proof. exact hash_respects_eq_lemma. Qed.
Print Assumptions hash_respects_eq.

(* whatever form the operands have, the word fast path returns exactly the object the GMP path
   (ensure_mpq_valid; mpq_op; try_fit_word) returns; the in-place forms agree with the others *)
Theorem path_independent : forall a b, wf a -> wf b ->
  fr_add a b = big_add a b /\ fr_sub a b = big_sub a b /\ fr_mul a b = big_mul a b /\
  (~ value b == 0 -> fr_div a b = big_div a b) /\
  fr_addA a b = fr_add a b /\ fr_subA a b = fr_sub a b /\ fr_mulA a b = fr_mul a b /\
  (~ value b == 0 -> fr_divA a b = fr_div a b).
Proof.
  intros a b Ha Hb. split; [exact (add_path_independent a b Ha Hb)|]. split; [exact (sub_path_independent a b Ha Hb)|].
  split; [exact (mul_path_independent a b Ha Hb)|]. split; [exact (div_path_independent a b Ha Hb)|].
  exact (assign_forms_agree a b Ha Hb).
Qed.
Print Assumptions path_independent.

(* ---------------------------------------------------------------------------------------- *)
(* intermediate results do not leave their machine type (interval reasoning, all operands)    *)

(* template gcd on unsigned operands computes the gcd; the model's logarithmic fuel suffices *)
Theorem template_gcd_unsigned_correct : forall a b, 0 <= a -> 0 <= b -> gcd_u a b = MOk (Z.gcd a b).
Proof. exact gcd_u_correct. Qed.
Print Assumptions template_gcd_unsigned_correct.

(* multiplication(): k1*k2 (lword) and k3*k4 (ulword) after cross-cancellation *)
Theorem mul_word_path_no_wrap : forall an ad bn bd, wfW an ad -> wfW bn bd ->
  -4611686018427387904 <= (an / Z.gcd an bd) * (bn / Z.gcd ad bn) <= 4611686018427387904 /\
  0 <= (ad / Z.gcd ad bn) * (bd / Z.gcd an bd) <= 18446744065119617025.
Proof. exact mul_word_path_no_wrap_lemma. Qed.
Print Assumptions mul_word_path_no_wrap.

(* subtraction(): the commented-out CHECK_SUB_OVERFLOWS_LWORD in the `common != 1` branch is
   indeed unnecessary *)
Theorem sub_common_no_overflow : forall an ad bn bd, wfW an ad -> wfW bn bd -> 2 <= Z.gcd ad bd ->
  LWORD_MIN <= an * (bd / Z.gcd ad bd) - bn * (ad / Z.gcd ad bd) <= LWORD_MAX.
Proof. exact sub_common_no_overflow_lemma. Qed.
Print Assumptions sub_common_no_overflow.

(* addition()/subtraction()/subtractionAssign(): the 64-bit gcd assigned to `uword common` is
   not truncated: it divides gcd(a.den, b.den) *)
Theorem add_second_gcd_fits_uword : forall an ad bn bd, wfW an ad -> wfW bn bd -> forall s, (s = 1 \/ s = -1) ->
  Z.gcd (an * (bd / Z.gcd ad bd) + s * (bn * (ad / Z.gcd ad bd))) (ad * (bd / Z.gcd ad bd)) <= UWORD_MAX.
Proof. exact lcd_gcd_le. Qed.
Print Assumptions add_second_gcd_fits_uword.

(* division(): the ulword product handed to CHECK_WORD stays below 2^63 (its conversion to lword
   inside the macro is the identity) *)
Theorem div_zn_no_wrap : forall an ad bn bd, wfW an ad -> wfW bn bd -> bn <> 0 ->
  0 <= (Z.abs an / Z.gcd an bn) * (bd / Z.gcd ad bd) <= LWORD_MAX /\
  0 <= (Z.abs bn / Z.gcd an bn) * (ad / Z.gcd ad bd) <= ULWORD_MAX.
Proof. exact div_zn_no_wrap_lemma. Qed.
Print Assumptions div_zn_no_wrap.

(* the overflow-check macros, as regenerated from FastRational.h (Rat/Gen_CheckMacros.v), are the
   range predicates the model uses, and evaluate without signed overflow themselves *)
Theorem check_macros_equivalent :
  (forall t v, run_CHECK_WORD t v = chk_word v) /\
  (forall t v, CMacro.has_type t v -> run_CHECK_UWORD t v = chk_uword v) /\
  (forall s1 s2, LWORD_MIN <= s1 <= LWORD_MAX -> LWORD_MIN <= s2 <= LWORD_MAX ->
     run_CHECK_SUM_OVERFLOWS_LWORD s1 s2 = chk_sum_lword s1 s2) /\
  (forall s1 s2, LWORD_MIN <= s1 <= LWORD_MAX -> LWORD_MIN <= s2 <= LWORD_MAX ->
     run_CHECK_SUB_OVERFLOWS_LWORD s1 s2 = chk_sub_lword s1 s2) /\
  Gen_CheckMacros.GEN_WORD_MIN = WORD_MIN /\ Gen_CheckMacros.GEN_WORD_MAX = WORD_MAX /\
  Gen_CheckMacros.GEN_UWORD_MAX = UWORD_MAX /\ Gen_CheckMacros.GEN_LWORD_MIN = LWORD_MIN /\
  Gen_CheckMacros.GEN_LWORD_MAX = LWORD_MAX.
Proof. exact check_macros_equivalent_lemma. Qed.
Print Assumptions check_macros_equivalent.

(* ---------------------------------------------------------------------------------------- *)
(* integer helpers                                                                           *)

Theorem fdiv_q_exact : forall n d zn zd, wf n -> wf d -> value n == zn # 1 -> value d == zd # 1 -> zd <> 0 ->
  exists x, fr_fdiv_q n d = Ok x /\ wf x /\ value x == (zn / zd) # 1.
Proof. exact fr_fdiv_q_exact. Qed.
Print Assumptions fdiv_q_exact.

Theorem round_to_int_exact : forall n, wf n ->
  exists x, fr_round_to_int n = Ok x /\ wf x /\ value x == Qfloor (value n + (1 # 2)) # 1.
Proof. exact fr_round_to_int_exact. Qed.
Print Assumptions round_to_int_exact.

(* gcd / lcm.  Full statement (the property):
     forall a b integers, gcd a b = Ok x with value x == Z.gcd za zb # 1   (same for lcm).
   The tree after commit 274dc8b ("fix: C15 — gcd/lcm ... absolute values") implements fr_gcd_fixed /
   fr_lcm_fixed (the check verifies on every run that the implementation follows this variant):
   the full statement is gcd_lcm_fixed_exact.  History, about the code before that commit (fr_gcd,
   fr_lcm: signed template gcd): FALSE there (gcd_word_path_refuted, lcm_word_path_refuted,
   int_min_ub_refuted), true when an operand is big or both are non-negative (gcd_lcm_exact_partial). *)
Theorem gcd_lcm_exact_partial : forall a b za zb, wf a -> wf b -> value a == za # 1 -> value b == zb # 1 ->
  (match a, b with Word _ _, Word _ _ => 0 <= za /\ 0 <= zb | _, _ => True end) ->
  (exists x, fr_gcd a b = Ok x /\ wf x /\ value x == Z.gcd za zb # 1) /\
  (exists x, fr_lcm a b = Ok x /\ wf x /\ value x == Z.lcm za zb # 1).
Proof.
  intros a b za zb Ha Hb Ea Eb Hs.
  split; [exact (fr_gcd_exact_partial a b za zb Ha Hb Ea Eb Hs) | exact (fr_lcm_exact_partial a b za zb Ha Hb Ea Eb Hs)].
Qed.
Print Assumptions gcd_lcm_exact_partial.

Theorem gcd_lcm_fixed_exact : forall a b za zb, wf a -> wf b -> value a == za # 1 -> value b == zb # 1 ->
  (exists x, fr_gcd_fixed a b = Ok x /\ wf x /\ value x == Z.gcd za zb # 1) /\
  (exists x, fr_lcm_fixed a b = Ok x /\ wf x /\ value x == Z.lcm za zb # 1).
Proof.
  intros a b za zb Ha Hb Ea Eb.
  split; [exact (fr_gcd_fixed_exact a b za zb Ha Hb Ea Eb) | exact (fr_lcm_fixed_exact a b za zb Ha Hb Ea Eb)].
Qed.
Print Assumptions gcd_lcm_fixed_exact.

Theorem gcd_word_path_refuted :
  exists a b r, wf a /\ wf b /\ value a == 4 # 1 /\ value b == (-6) # 1 /\
                fr_gcd a b = Ok r /\ ~ value r == Z.gcd 4 (-6) # 1.
Proof. exact fr_gcd_word_path_refuted_lemma. Qed.
Print Assumptions gcd_word_path_refuted.

Theorem lcm_word_path_refuted :
  exists a b r, wf a /\ wf b /\ value a == (-4) # 1 /\ value b == 6 # 1 /\
                fr_lcm a b = Ok r /\ ~ value r == Z.lcm (-4) 6 # 1.
Proof. exact fr_lcm_word_path_refuted_lemma. Qed.
Print Assumptions lcm_word_path_refuted.

(* operator%.  Full statement: forall integers a, d <> 0: a % d = Ok x, value x == (a mod d) # 1
   (remainder of the floor division, sign of d).  FALSE on the word path (mod_word_path_refuted,
   int_min_ub_refuted); proved for the GMP path (some operand big) and for the word path on
   a >= 0, d > 0. *)
Theorem mod_exact_partial :
  (forall a d, wf a -> wf d -> ~ value d == 0 ->
     (match a, d with Word _ _, Word _ _ => False | _, _ => True end) ->
     exists x, fr_mod a d = Ok x /\ wf x /\ value x == value a - (Qfloor (value a / value d) # 1) * value d) /\
  (forall zn zd, zd <> 0 -> (zn # 1) - (Qfloor ((zn # 1) / (zd # 1)) # 1) * (zd # 1) == (zn mod zd) # 1) /\
  (forall zn zd, 0 <= zn <= WORD_MAX -> 0 < zd <= WORD_MAX ->
     exists x, fr_mod (Word zn 1) (Word zd 1) = Ok x /\ wf x /\ value x == (zn mod zd) # 1).
Proof.
  split; [exact fr_mod_big_path_exact|]. split; [exact floor_mod_int | exact fr_mod_word_nonneg_exact].
Qed.
Print Assumptions mod_exact_partial.

Theorem mod_word_path_refuted :
  exists a d r, wf a /\ wf d /\ value a == (-7) # 1 /\ value d == 3 # 1 /\
                fr_mod a d = Ok r /\ ~ value r == ((-7) mod 3) # 1.
Proof. exact fr_mod_word_path_refuted_lemma. Qed.
Print Assumptions mod_word_path_refuted.

(* divexact.  Full statement: forall integers n, d <> 0 with d | n.  The tree after commit 0dce736
   ("fix: C15 — divexact(INT_MIN, -1): take the GMP path") implements fr_divexact_fixed:
   divexact_fixed_exact is the full statement.  History, about the code before (fr_divexact): FALSE for
   (INT_MIN, -1) on the word path (int_min_ub_refuted), proved for all other operands
   (divexact_exact_partial). *)
Theorem divexact_fixed_exact : forall n d zn zd, wf n -> wf d -> value n == zn # 1 -> value d == zd # 1 ->
  zd <> 0 -> (zd | zn) ->
  exists x, fr_divexact_fixed n d = Ok x /\ wf x /\ value x == (zn / zd) # 1.
Proof. exact fr_divexact_fixed_exact. Qed.
Print Assumptions divexact_fixed_exact.

Theorem divexact_exact_partial : forall n d zn zd, wf n -> wf d -> value n == zn # 1 -> value d == zd # 1 ->
  zd <> 0 -> (zd | zn) -> ~ (zn = WORD_MIN /\ zd = -1) ->
  exists x, fr_divexact n d = Ok x /\ wf x /\ value x == (zn / zd) # 1.
Proof. exact fr_divexact_exact_partial. Qed.
Print Assumptions divexact_exact_partial.

(* INT_MIN and -1 as word operands: operator% (still in the tree) and, before commits 274dc8b /
   0dce736, gcd and divexact evaluate INT_MIN % -1 or INT_MIN / -1 in int (undefined behaviour;
   SIGFPE on x86-64).  The repaired variants return the exact results. *)
Theorem int_min_ub_refuted :
  wf (Word WORD_MIN 1) /\ wf (Word (-1) 1) /\
  fr_gcd (Word WORD_MIN 1) (Word (-1) 1) = Err UB_overflow /\
  fr_mod (Word WORD_MIN 1) (Word (-1) 1) = Err UB_overflow /\
  fr_divexact (Word WORD_MIN 1) (Word (-1) 1) = Err UB_overflow /\
  fr_gcd_fixed (Word WORD_MIN 1) (Word (-1) 1) = Ok (Word 1 1) /\
  fr_divexact_fixed (Word WORD_MIN 1) (Word (-1) 1) = Ok (Big (2147483648 # 1)).
Proof.
  destruct fr_gcd_int_min_refuted_lemma as (H1 & H2 & H3). destruct fr_mod_int_min_refuted_lemma as (_ & _ & H4).
  destruct fr_divexact_int_min_refuted_lemma as (_ & _ & _ & H5).
  split; [exact H1|]. split; [exact H2|]. split; [exact H3|]. split; [exact H4|]. split; [exact H5|].
  split; vm_compute; reflexivity.
Qed.
Print Assumptions int_min_ub_refuted.

(* ---------------------------------------------------------------------------------------- *)
(* non-vacuity: the hypotheses are satisfiable by non-trivial values and every path is taken  *)

(* word fast path with cancellation: 2147483647/4294967295 + 1/4294967295 = 2147483648/4294967295,
   which no longer fits a word: the result is a big number *)
Example add_crosses_word_bound :
  wf (Word 2147483647 4294967295) /\ wf (Word 1 4294967295) /\
  fr_add (Word 2147483647 4294967295) (Word 1 4294967295) = Ok (Big (2147483648 # 4294967295)).
Proof. repeat split; vm_compute; intuition congruence. Qed.

(* the comment in subtraction(): "-2147483645/4294967294 - 2147483647/4294967295 underflows lword":
   CHECK_SUB_OVERFLOWS_LWORD sends it to GMP, the result is exact *)
Example sub_underflow_goes_to_gmp :
  fr_sub (Word (-2147483645) 4294967294) (Word 2147483647 4294967295)
  = Ok (Big (-18446744050087231493 # 18446744060824649730)).
Proof. vm_compute. reflexivity. Qed.

(* a big operand and a result that fits a word again: 2^32/3 * 3/2^31 = 2 *)
Example mul_back_to_word :
  wf (Big (4294967296 # 3)) /\ wf (Word 3 2147483648) /\
  fr_mul (Big (4294967296 # 3)) (Word 3 2147483648) = Ok (Word 2 1).
Proof. repeat split; vm_compute; intuition congruence. Qed.

Example negate_int_min : fr_negate (Word WORD_MIN 1) = Ok (Big (2147483648 # 1)) /\ fr_neg (Big (2147483648 # 1)) = Ok (Word WORD_MIN 1).
Proof. split; vm_compute; reflexivity. Qed.

Example division_sign_and_cancel : fr_div (Word (-6) 35) (Word 4 (-5 + 26)) = Ok (Word (-9) 10).
Proof. vm_compute. reflexivity. Qed.

Example floor_ceil_negative : fr_floor (Word (-7) 2) = Ok (Word (-4) 1) /\ fr_ceil (Word (-7) 2) = Ok (Word (-3) 1).
Proof. split; vm_compute; reflexivity. Qed.

Example gcd_fixed_on_the_witness : fr_gcd_fixed (Word 4 1) (Word (-6) 1) = Ok (Word 2 1) /\ fr_gcd (Word 4 1) (Word (-6) 1) = Ok (Word (-2) 1).
Proof. split; vm_compute; reflexivity. Qed.

Example hash_word_and_big : fr_hash (Word 1 2) = 63 /\ fr_hash (Big (18446744073709551617 # 1)) = 360903513.
Proof. split; vm_compute; reflexivity. Qed.
