(* C15 — rational arithmetic is exact in both representations.  Theorems only (work in progress). *)
From Coq Require Import ZArith QArith.
From OsmtV.Rat Require Import FRModel.
Local Open Scope Z_scope.

Theorem gcd_word_sign_refuted_tmp : fr_gcd (Word 4 1) (Word (-6) 1) = Ok (Word (-2) 1).
Proof. vm_compute. reflexivity. Qed.
Print Assumptions gcd_word_sign_refuted_tmp.
