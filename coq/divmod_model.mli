
type comparison =
| Eq
| Lt
| Gt

val compOpp : comparison -> comparison

type positive =
| XI of positive
| XO of positive
| XH

type z =
| Z0
| Zpos of positive
| Zneg of positive

module Pos :
 sig
  val succ : positive -> positive

  val add : positive -> positive -> positive

  val add_carry : positive -> positive -> positive

  val pred_double : positive -> positive

  val mul : positive -> positive -> positive

  val compare_cont : comparison -> positive -> positive -> comparison

  val compare : positive -> positive -> comparison

  val eqb : positive -> positive -> bool
 end

module Z :
 sig
  val double : z -> z

  val succ_double : z -> z

  val pred_double : z -> z

  val pos_sub : positive -> positive -> z

  val add : z -> z -> z

  val opp : z -> z

  val sub : z -> z -> z

  val mul : z -> z -> z

  val compare : z -> z -> comparison

  val leb : z -> z -> bool

  val ltb : z -> z -> bool

  val eqb : z -> z -> bool

  val abs : z -> z

  val pos_div_eucl : positive -> z -> z * z

  val div_eucl : z -> z -> z * z

  val div : z -> z -> z

  val modulo : z -> z -> z
 end

type q = { qnum : z; qden : positive }

val qmult : q -> q -> q

val qopp : q -> q

val qinv : q -> q

val qdiv : q -> q -> q

val qfloor : q -> z

val qceiling : q -> z

val q_floor : q -> z

val q_ceil : q -> z

val real_div : z -> z -> q

val fold_div : z -> z -> z option

val fold_mod : z -> z -> z option

val smt_div : z -> z -> z

val smt_mod : z -> z -> z
