
(** val negb : bool -> bool **)

let negb = function
| true -> false
| false -> true

type nat =
| O
| S of nat

(** val option_map : ('a1 -> 'a2) -> 'a1 option -> 'a2 option **)

let option_map f = function
| Some a -> Some (f a)
| None -> None

(** val fst : ('a1 * 'a2) -> 'a1 **)

let fst = function
| (x, _) -> x

(** val length : 'a1 list -> nat **)

let rec length = function
| [] -> O
| _ :: l' -> S (length l')

(** val app : 'a1 list -> 'a1 list -> 'a1 list **)

let rec app l m =
  match l with
  | [] -> m
  | a :: l1 -> a :: (app l1 m)

type comparison =
| Eq
| Lt
| Gt

(** val compOpp : comparison -> comparison **)

let compOpp = function
| Eq -> Eq
| Lt -> Gt
| Gt -> Lt

(** val add : nat -> nat -> nat **)

let rec add n0 m =
  match n0 with
  | O -> m
  | S p -> S (add p m)

(** val sub : nat -> nat -> nat **)

let rec sub n0 m =
  match n0 with
  | O -> n0
  | S k -> (match m with
            | O -> n0
            | S l -> sub k l)

module Nat =
 struct
  (** val eqb : nat -> nat -> bool **)

  let rec eqb n0 m =
    match n0 with
    | O -> (match m with
            | O -> true
            | S _ -> false)
    | S n' -> (match m with
               | O -> false
               | S m' -> eqb n' m')

  (** val leb : nat -> nat -> bool **)

  let rec leb n0 m =
    match n0 with
    | O -> true
    | S n' -> (match m with
               | O -> false
               | S m' -> leb n' m')

  (** val ltb : nat -> nat -> bool **)

  let ltb n0 m =
    leb (S n0) m
 end

(** val removelast : 'a1 list -> 'a1 list **)

let rec removelast = function
| [] -> []
| a :: l0 -> (match l0 with
              | [] -> []
              | _ :: _ -> a :: (removelast l0))

(** val rev : 'a1 list -> 'a1 list **)

let rec rev = function
| [] -> []
| x :: l' -> app (rev l') (x :: [])

(** val fold_right : ('a2 -> 'a1 -> 'a1) -> 'a1 -> 'a2 list -> 'a1 **)

let rec fold_right f a0 = function
| [] -> a0
| b :: t -> f b (fold_right f a0 t)

(** val existsb : ('a1 -> bool) -> 'a1 list -> bool **)

let rec existsb f = function
| [] -> false
| a :: l0 -> (||) (f a) (existsb f l0)

(** val forallb : ('a1 -> bool) -> 'a1 list -> bool **)

let rec forallb f = function
| [] -> true
| a :: l0 -> (&&) (f a) (forallb f l0)

type positive =
| XI of positive
| XO of positive
| XH

type n =
| N0
| Npos of positive

type z =
| Z0
| Zpos of positive
| Zneg of positive

module Pos =
 struct
  (** val compare_cont : comparison -> positive -> positive -> comparison **)

  let rec compare_cont r x y =
    match x with
    | XI p ->
      (match y with
       | XI q -> compare_cont r p q
       | XO q -> compare_cont Gt p q
       | XH -> Gt)
    | XO p ->
      (match y with
       | XI q -> compare_cont Lt p q
       | XO q -> compare_cont r p q
       | XH -> Gt)
    | XH -> (match y with
             | XH -> r
             | _ -> Lt)

  (** val compare : positive -> positive -> comparison **)

  let compare =
    compare_cont Eq

  (** val eqb : positive -> positive -> bool **)

  let rec eqb p q =
    match p with
    | XI p0 -> (match q with
                | XI q0 -> eqb p0 q0
                | _ -> false)
    | XO p0 -> (match q with
                | XO q0 -> eqb p0 q0
                | _ -> false)
    | XH -> (match q with
             | XH -> true
             | _ -> false)

  (** val iter_op : ('a1 -> 'a1 -> 'a1) -> positive -> 'a1 -> 'a1 **)

  let rec iter_op op p a =
    match p with
    | XI p0 -> op a (iter_op op p0 (op a a))
    | XO p0 -> iter_op op p0 (op a a)
    | XH -> a

  (** val to_nat : positive -> nat **)

  let to_nat x =
    iter_op add x (S O)
 end

module N =
 struct
  (** val eqb : n -> n -> bool **)

  let eqb n0 m =
    match n0 with
    | N0 -> (match m with
             | N0 -> true
             | Npos _ -> false)
    | Npos p -> (match m with
                 | N0 -> false
                 | Npos q -> Pos.eqb p q)
 end

module Z =
 struct
  (** val compare : z -> z -> comparison **)

  let compare x y =
    match x with
    | Z0 -> (match y with
             | Z0 -> Eq
             | Zpos _ -> Lt
             | Zneg _ -> Gt)
    | Zpos x' -> (match y with
                  | Zpos y' -> Pos.compare x' y'
                  | _ -> Gt)
    | Zneg x' ->
      (match y with
       | Zneg y' -> compOpp (Pos.compare x' y')
       | _ -> Lt)

  (** val ltb : z -> z -> bool **)

  let ltb x y =
    match compare x y with
    | Lt -> true
    | _ -> false

  (** val to_nat : z -> nat **)

  let to_nat = function
  | Zpos p -> Pos.to_nat p
  | _ -> O
 end

type 't svec = { sv_rev : 't list; sv_limits : nat list }

(** val sv_empty : 'a1 svec **)

let sv_empty =
  { sv_rev = []; sv_limits = [] }

(** val sv_push : 'a1 -> 'a1 svec -> 'a1 svec **)

let sv_push x v =
  { sv_rev = (x :: v.sv_rev); sv_limits = v.sv_limits }

(** val sv_push_scope : 'a1 svec -> 'a1 svec **)

let sv_push_scope v =
  { sv_rev = v.sv_rev; sv_limits = ((length v.sv_rev) :: v.sv_limits) }

(** val sv_elements : 'a1 svec -> 'a1 list **)

let sv_elements v =
  rev v.sv_rev

(** val sv_size : 'a1 svec -> nat **)

let sv_size v =
  length v.sv_rev

(** val sv_is_empty : 'a1 svec -> bool **)

let sv_is_empty v =
  match v.sv_rev with
  | [] -> true
  | _ :: _ -> false

(** val sv_pop_loop :
    ('a1 -> 'a2 -> 'a2 option) -> nat -> 'a1 list -> 'a2 -> ('a1 list * 'a2)
    option **)

let rec sv_pop_loop cb lim els s =
  match els with
  | [] -> Some ([], s)
  | x :: r ->
    if Nat.ltb lim (length els)
    then (match cb x s with
          | Some s' -> sv_pop_loop cb lim r s'
          | None -> None)
    else Some (els, s)

(** val sv_pop_scope :
    ('a1 -> 'a2 -> 'a2 option) -> 'a1 svec -> 'a2 -> ('a1 svec * 'a2) option **)

let sv_pop_scope cb v s =
  match v.sv_limits with
  | [] -> None
  | lim :: ls ->
    (match sv_pop_loop cb lim v.sv_rev s with
     | Some p ->
       let (els, s') = p in Some ({ sv_rev = els; sv_limits = ls }, s')
     | None -> None)

type name = n

type term = n

(** val al_find : n -> (n * 'a1) list -> 'a1 option **)

let rec al_find k = function
| [] -> None
| p :: r -> let (k', v) = p in if N.eqb k k' then Some v else al_find k r

(** val al_remove : n -> (n * 'a1) list -> (n * 'a1) list **)

let rec al_remove k = function
| [] -> []
| p :: r ->
  let (k', v) = p in
  if N.eqb k k' then al_remove k r else (k', v) :: (al_remove k r)

(** val al_set : n -> 'a1 -> (n * 'a1) list -> (n * 'a1) list **)

let al_set k v m =
  (k, v) :: (al_remove k m)

(** val al_has : n -> (n * 'a1) list -> bool **)

let al_has k m =
  match al_find k m with
  | Some _ -> true
  | None -> false

(** val remove_first : n -> n list -> n list option **)

let rec remove_first n0 = function
| [] -> None
| x :: r ->
  if N.eqb n0 x
  then Some r
  else option_map (fun x0 -> x :: x0) (remove_first n0 r)

type maps = { m_n2t : (name * term) list; m_t2n : (term * name list) list }

type tn = { tn_scoped : (name * term) svec; tn_maps : maps }

(** val tn_init : tn **)

let tn_init =
  { tn_scoped = sv_empty; tn_maps = { m_n2t = []; m_t2n = [] } }

(** val contains_name : tn -> name -> bool **)

let contains_name s n0 =
  al_has n0 s.tn_maps.m_n2t

(** val contains_term : tn -> term -> bool **)

let contains_term s t =
  al_has t s.tn_maps.m_t2n

(** val term_by_name : tn -> name -> term option **)

let term_by_name s n0 =
  al_find n0 s.tn_maps.m_n2t

(** val names_for_term : tn -> term -> name list option **)

let names_for_term s t =
  al_find t s.tn_maps.m_t2n

(** val iteration : tn -> (name * term) list **)

let iteration s =
  sv_elements s.tn_scoped

(** val tn_size : tn -> nat **)

let tn_size s =
  sv_size s.tn_scoped

type picked =
| PickNone
| PickUB
| PickName of name

(** val name_for_term : tn -> term -> picked **)

let name_for_term s t =
  match names_for_term s t with
  | Some l -> (match l with
               | [] -> PickUB
               | n0 :: _ -> PickName n0)
  | None -> PickNone

(** val try_insert : name -> term -> tn -> tn * bool **)

let try_insert n0 t s =
  match al_find n0 s.tn_maps.m_n2t with
  | Some _ -> (s, false)
  | None ->
    let old = match al_find t s.tn_maps.m_t2n with
              | Some l -> l
              | None -> [] in
    ({ tn_scoped = (sv_push (n0, t) s.tn_scoped); tn_maps = { m_n2t = ((n0,
    t) :: s.tn_maps.m_n2t); m_t2n =
    (al_set t (app old (n0 :: [])) s.tn_maps.m_t2n) } }, true)

(** val erase_term_name : bool -> name -> maps -> (maps * bool) option **)

let erase_term_name fx n0 m =
  match al_find n0 m.m_n2t with
  | Some t ->
    (match al_find t m.m_t2n with
     | Some l ->
       (match remove_first n0 l with
        | Some l' ->
          let t2n' =
            if (&&) fx (match l' with
                        | [] -> true
                        | _ :: _ -> false)
            then al_remove t m.m_t2n
            else al_set t l' m.m_t2n
          in
          Some ({ m_n2t = (al_remove n0 m.m_n2t); m_t2n = t2n' }, true)
        | None -> None)
     | None -> None)
  | None -> Some (m, false)

(** val erase_cb : bool -> (name * term) -> maps -> maps option **)

let erase_cb fx p m =
  option_map fst (erase_term_name fx (fst p) m)

(** val push_scope : bool -> tn -> tn **)

let push_scope g s =
  if g
  then s
  else { tn_scoped = (sv_push_scope s.tn_scoped); tn_maps = s.tn_maps }

(** val pop_scope : bool -> bool -> bool -> tn -> tn option **)

let pop_scope fx fs g s =
  if g
  then Some s
  else (match s.tn_scoped.sv_limits with
        | [] -> if fs then Some s else None
        | _ :: _ ->
          (match sv_pop_scope (erase_cb fx) s.tn_scoped s.tn_maps with
           | Some p -> let (v, m) = p in Some { tn_scoped = v; tn_maps = m }
           | None -> None))

(** val erase_direct : bool -> name -> tn -> (tn * bool) option **)

let erase_direct fx n0 s =
  match erase_term_name fx n0 s.tn_maps with
  | Some p ->
    let (m, b) = p in Some ({ tn_scoped = s.tn_scoped; tn_maps = m }, b)
  | None -> None

type df = { df_map : (n * n) list; df_scoped : n svec }

(** val df_init : df **)

let df_init =
  { df_map = []; df_scoped = sv_empty }

(** val df_has : df -> n -> bool **)

let df_has d f =
  al_has f d.df_map

(** val df_store : bool -> n -> n -> df -> df * bool **)

let df_store g f body d =
  if df_has d f
  then (d, false)
  else ({ df_map = (al_set f body d.df_map); df_scoped =
         (if g then d.df_scoped else sv_push f d.df_scoped) }, true)

(** val df_push : df -> df **)

let df_push d =
  { df_map = d.df_map; df_scoped = (sv_push_scope d.df_scoped) }

(** val df_pop : df -> df option **)

let df_pop d =
  match sv_pop_scope (fun f m -> Some (al_remove f m)) d.df_scoped d.df_map with
  | Some p -> let (v, m) = p in Some { df_map = m; df_scoped = v }
  | None -> None

type fixes = { fx_erase : bool; fx_assert : bool; fx_pop : bool;
               fx_names : bool; fx_guard : bool }

type status =
| StUndef
| StSat
| StUnsat
| StUnknown

type resp =
| ROk
| RErr
| ROut

type pev =
| PName of name * term
| PUse of n
| PFail

type aterm = { a_evs : pev list; a_id : term; a_bool : bool }

type opt =
| OGlobal
| OModels
| OCores
| OItp
| OAssign

type cmd =
| CSetLogic of bool
| CSetOpt of opt * bool
| CDeclSort of n
| CDeclFun of n * bool
| CDefFun of n * bool * aterm * bool
| CAssert of aterm
| CPush of z
| CPop of z
| CCheckSat of status
| CGetModel
| CGetValue of aterm list
| CGetUnsatCore
| CGetAssignment
| CGetItp of name list list

type book = { b_init : bool; b_global : bool; b_models : bool;
              b_cores : bool; b_itp : bool; b_assign : bool;
              b_assertions : term list; b_inserted : nat;
              b_frames : term list list; b_parts : (term * nat) list;
              b_names : tn; b_defs : df; b_decls : n list; b_sorts : 
              n list; b_status : status }

(** val book_init : book **)

let book_init =
  { b_init = false; b_global = false; b_models = false; b_cores = false;
    b_itp = false; b_assign = false; b_assertions = []; b_inserted = O;
    b_frames = ([] :: []); b_parts = []; b_names = tn_init; b_defs = df_init;
    b_decls = []; b_sorts = (N0 :: []); b_status = StUndef }

(** val level : book -> nat **)

let level b =
  sub (length b.b_frames) (S O)

(** val set_names : book -> tn -> book **)

let set_names b x =
  { b_init = b.b_init; b_global = b.b_global; b_models = b.b_models;
    b_cores = b.b_cores; b_itp = b.b_itp; b_assign = b.b_assign;
    b_assertions = b.b_assertions; b_inserted = b.b_inserted; b_frames =
    b.b_frames; b_parts = b.b_parts; b_names = x; b_defs = b.b_defs;
    b_decls = b.b_decls; b_sorts = b.b_sorts; b_status = b.b_status }

(** val known_sym : book -> n -> bool **)

let known_sym b f =
  (||) (df_has b.b_defs f) (existsb (N.eqb f) b.b_decls)

(** val parse : book -> pev list -> book * bool **)

let rec parse b = function
| [] -> (b, true)
| p :: r ->
  (match p with
   | PName (n0, t) ->
     let (x, ok) = try_insert n0 t b.b_names in
     if ok then parse (set_names b x) r else (b, false)
   | PUse f -> if known_sym b f then parse b r else (b, false)
   | PFail -> (b, false))

(** val reject_after_parse : fixes -> book -> book -> book **)

let reject_after_parse fx b0 b =
  if fx.fx_names then set_names b b0.b_names else b

(** val index_of : term -> term list -> nat option **)

let rec index_of t = function
| [] -> None
| x :: r ->
  if N.eqb t x then Some O else option_map (fun x0 -> S x0) (index_of t r)

(** val push1 : book -> book **)

let push1 b =
  { b_init = b.b_init; b_global = b.b_global; b_models = b.b_models;
    b_cores = b.b_cores; b_itp = b.b_itp; b_assign = b.b_assign;
    b_assertions = b.b_assertions; b_inserted = b.b_inserted; b_frames =
    ([] :: b.b_frames); b_parts = b.b_parts; b_names =
    (push_scope b.b_global b.b_names); b_defs = (df_push b.b_defs); b_decls =
    b.b_decls; b_sorts = b.b_sorts; b_status = b.b_status }

(** val pop1 : fixes -> book -> book option **)

let pop1 fx b =
  match b.b_frames with
  | [] -> None
  | _ :: rest ->
    (match rest with
     | [] -> None
     | _ :: _ ->
       (match pop_scope fx.fx_erase fx.fx_guard b.b_global b.b_names with
        | Some x ->
          (match df_pop b.b_defs with
           | Some d ->
             Some { b_init = b.b_init; b_global = b.b_global; b_models =
               b.b_models; b_cores = b.b_cores; b_itp = b.b_itp; b_assign =
               b.b_assign; b_assertions = b.b_assertions; b_inserted =
               b.b_inserted; b_frames = rest; b_parts = b.b_parts; b_names =
               x; b_defs = d; b_decls = b.b_decls; b_sorts = b.b_sorts;
               b_status = b.b_status }
           | None -> None)
        | None -> None))

(** val push_n : nat -> book -> book **)

let rec push_n k b =
  match k with
  | O -> b
  | S k' -> push_n k' (push1 b)

(** val pop_n : fixes -> nat -> book -> (book * bool) option **)

let rec pop_n fx k b =
  match k with
  | O -> Some (b, true)
  | S k' ->
    if Nat.eqb (level b) O
    then Some (b, false)
    else (match pop1 fx b with
          | Some b' -> pop_n fx k' b'
          | None -> None)

(** val int_max : z **)

let int_max =
  Zpos (XI (XI (XI (XI (XI (XI (XI (XI (XI (XI (XI (XI (XI (XI (XI (XI (XI
    (XI (XI (XI (XI (XI (XI (XI (XI (XI (XI (XI (XI (XI
    XH))))))))))))))))))))))))))))))

(** val add_assertion_vec : book -> term -> book **)

let add_assertion_vec b t =
  { b_init = b.b_init; b_global = b.b_global; b_models = b.b_models;
    b_cores = b.b_cores; b_itp = b.b_itp; b_assign = b.b_assign;
    b_assertions = (app b.b_assertions (t :: [])); b_inserted = b.b_inserted;
    b_frames = b.b_frames; b_parts = b.b_parts; b_names = b.b_names; b_defs =
    b.b_defs; b_decls = b.b_decls; b_sorts = b.b_sorts; b_status =
    b.b_status }

(** val insert_formula : book -> term -> book **)

let insert_formula b t =
  { b_init = b.b_init; b_global = b.b_global; b_models = b.b_models;
    b_cores = b.b_cores; b_itp = b.b_itp; b_assign = b.b_assign;
    b_assertions = b.b_assertions; b_inserted = (S b.b_inserted); b_frames =
    (match b.b_frames with
     | [] -> (t :: []) :: []
     | top :: rest -> (app top (t :: [])) :: rest); b_parts =
    (app b.b_parts ((t, b.b_inserted) :: [])); b_names = b.b_names; b_defs =
    b.b_defs; b_decls = b.b_decls; b_sorts = b.b_sorts; b_status =
    b.b_status }

(** val set_opt : book -> opt -> bool -> book **)

let set_opt b o v =
  { b_init = b.b_init; b_global =
    (match o with
     | OGlobal -> v
     | _ -> b.b_global); b_models =
    (match o with
     | OModels -> v
     | _ -> b.b_models); b_cores =
    (match o with
     | OCores -> v
     | _ -> b.b_cores); b_itp = (match o with
                                 | OItp -> v
                                 | _ -> b.b_itp); b_assign =
    (match o with
     | OAssign -> v
     | _ -> b.b_assign); b_assertions = b.b_assertions; b_inserted =
    b.b_inserted; b_frames = b.b_frames; b_parts = b.b_parts; b_names =
    b.b_names; b_defs = b.b_defs; b_decls = b.b_decls; b_sorts = b.b_sorts;
    b_status = b.b_status }

(** val set_status : book -> status -> book **)

let set_status b r =
  { b_init = b.b_init; b_global = b.b_global; b_models = b.b_models;
    b_cores = b.b_cores; b_itp = b.b_itp; b_assign = b.b_assign;
    b_assertions = b.b_assertions; b_inserted = b.b_inserted; b_frames =
    b.b_frames; b_parts = b.b_parts; b_names = b.b_names; b_defs = b.b_defs;
    b_decls = b.b_decls; b_sorts = b.b_sorts; b_status = r }

(** val is_sat : status -> bool **)

let is_sat = function
| StSat -> true
| _ -> false

(** val is_unsat : status -> bool **)

let is_unsat = function
| StUnsat -> true
| _ -> false

(** val parse_all : book -> aterm list -> book * bool **)

let rec parse_all b = function
| [] -> (b, true)
| a :: r ->
  let (b1, ok) = parse b a.a_evs in
  let (b2, ok2) = parse_all b1 r in (b2, ((&&) ok ok2))

(** val group_terms : book -> name list -> term list option **)

let group_terms b g =
  fold_right (fun n0 acc ->
    match term_by_name b.b_names n0 with
    | Some t -> (match acc with
                 | Some l -> Some (t :: l)
                 | None -> None)
    | None -> None) (Some []) g

(** val group_indices : book -> name list -> nat list option **)

let group_indices b g =
  match group_terms b g with
  | Some ts ->
    fold_right (fun t acc ->
      match index_of t b.b_assertions with
      | Some i -> (match acc with
                   | Some l -> Some (i :: l)
                   | None -> None)
      | None -> None) (Some []) ts
  | None -> None

(** val all_resolve : book -> name list list -> bool **)

let all_resolve b gs =
  forallb (fun g ->
    match group_terms b g with
    | Some _ -> true
    | None -> false) gs

(** val masks : book -> name list list -> nat list list option **)

let masks b gs =
  fold_right (fun g acc ->
    match group_indices b g with
    | Some i -> (match acc with
                 | Some l -> Some (i :: l)
                 | None -> None)
    | None -> None) (Some []) (removelast gs)

(** val group_parts : book -> name list -> nat list option **)

let group_parts b g =
  match group_terms b g with
  | Some ts ->
    fold_right (fun t acc ->
      match al_find t b.b_parts with
      | Some i -> (match acc with
                   | Some l -> Some (i :: l)
                   | None -> None)
      | None -> None) (Some []) ts
  | None -> None

(** val step : fixes -> book -> cmd -> (book * resp) option **)

let step fx b = function
| CSetLogic known ->
  if b.b_init
  then Some (b, RErr)
  else if known
       then Some ({ b_init = true; b_global = b.b_global; b_models =
              b.b_models; b_cores = b.b_cores; b_itp = b.b_itp; b_assign =
              b.b_assign; b_assertions = b.b_assertions; b_inserted =
              b.b_inserted; b_frames = b.b_frames; b_parts = b.b_parts;
              b_names = b.b_names; b_defs = b.b_defs; b_decls = b.b_decls;
              b_sorts = b.b_sorts; b_status = b.b_status }, ROk)
       else Some (b, RErr)
| CSetOpt (o, v) ->
  (match o with
   | OItp -> if b.b_init then Some (b, RErr) else Some ((set_opt b o v), ROk)
   | _ -> Some ((set_opt b o v), ROk))
| CDeclSort s ->
  if negb b.b_init
  then Some (b, RErr)
  else if existsb (N.eqb s) b.b_sorts
       then Some (b, RErr)
       else Some ({ b_init = b.b_init; b_global = b.b_global; b_models =
              b.b_models; b_cores = b.b_cores; b_itp = b.b_itp; b_assign =
              b.b_assign; b_assertions = b.b_assertions; b_inserted =
              b.b_inserted; b_frames = b.b_frames; b_parts = b.b_parts;
              b_names = b.b_names; b_defs = b.b_defs; b_decls = b.b_decls;
              b_sorts = (app b.b_sorts (s :: [])); b_status = b.b_status },
              ROk)
| CDeclFun (f, sorts_known) ->
  if negb b.b_init
  then Some (b, RErr)
  else if negb sorts_known
       then Some (b, RErr)
       else Some ({ b_init = b.b_init; b_global = b.b_global; b_models =
              b.b_models; b_cores = b.b_cores; b_itp = b.b_itp; b_assign =
              b.b_assign; b_assertions = b.b_assertions; b_inserted =
              b.b_inserted; b_frames = b.b_frames; b_parts = b.b_parts;
              b_names = b.b_names; b_defs = b.b_defs; b_decls =
              (app b.b_decls (f :: [])); b_sorts = b.b_sorts; b_status =
              b.b_status }, ROk)
| CDefFun (f, sorts_known, body, sort_matches) ->
  if negb b.b_init
  then Some (b, RErr)
  else if negb sorts_known
       then Some (b, RErr)
       else let (b1, ok) = parse b body.a_evs in
            if negb ok
            then Some ((reject_after_parse fx b b1), RErr)
            else if negb sort_matches
                 then Some ((reject_after_parse fx b b1), RErr)
                 else let (d, stored) =
                        df_store b1.b_global f body.a_id b1.b_defs
                      in
                      if stored
                      then Some ({ b_init = b1.b_init; b_global =
                             b1.b_global; b_models = b1.b_models; b_cores =
                             b1.b_cores; b_itp = b1.b_itp; b_assign =
                             b1.b_assign; b_assertions = b1.b_assertions;
                             b_inserted = b1.b_inserted; b_frames =
                             b1.b_frames; b_parts = b1.b_parts; b_names =
                             b1.b_names; b_defs = d; b_decls = b1.b_decls;
                             b_sorts = b1.b_sorts; b_status = b1.b_status },
                             ROk)
                      else Some ((reject_after_parse fx b b1), RErr)
| CAssert a ->
  if negb b.b_init
  then Some (b, RErr)
  else let (b1, ok) = parse b a.a_evs in
       if negb ok
       then Some ((reject_after_parse fx b b1), RErr)
       else if a.a_bool
            then Some ((insert_formula (add_assertion_vec b1 a.a_id) a.a_id),
                   ROk)
            else if fx.fx_assert
                 then Some ((reject_after_parse fx b b1), RErr)
                 else Some
                        ((reject_after_parse fx b
                           (add_assertion_vec b1 a.a_id)), RErr)
| CPush n0 ->
  if negb b.b_init
  then Some (b, RErr)
  else if Z.ltb int_max n0
       then Some (b, RErr)
       else if Z.ltb n0 Z0
            then Some (b, RErr)
            else Some ((push_n (Z.to_nat n0) b), ROk)
| CPop n0 ->
  if negb b.b_init
  then Some (b, RErr)
  else if Z.ltb int_max n0
       then Some (b, RErr)
       else if Z.ltb n0 Z0
            then Some (b, RErr)
            else if (&&) fx.fx_pop (Nat.ltb (level b) (Z.to_nat n0))
                 then Some (b, RErr)
                 else (match pop_n fx (Z.to_nat n0) b with
                       | Some p ->
                         let (b', b0) = p in
                         if b0 then Some (b', ROk) else Some (b', RErr)
                       | None -> None)
| CCheckSat r ->
  if negb b.b_init then Some (b, RErr) else Some ((set_status b r), ROut)
| CGetModel ->
  if negb b.b_init
  then Some (b, RErr)
  else if negb (is_sat b.b_status)
       then Some (b, RErr)
       else if negb b.b_models then Some (b, RErr) else Some (b, ROut)
| CGetValue ts ->
  if negb b.b_init
  then Some (b, RErr)
  else if negb (is_sat b.b_status)
       then Some (b, RErr)
       else if negb b.b_models
            then Some (b, RErr)
            else let (b1, ok) = parse_all b ts in
                 if ok
                 then Some (b1, ROut)
                 else Some ((reject_after_parse fx b b1), RErr)
| CGetUnsatCore ->
  if negb b.b_cores
  then Some (b, RErr)
  else if negb b.b_init
       then Some (b, RErr)
       else if negb (is_unsat b.b_status)
            then Some (b, RErr)
            else Some (b, ROut)
| CGetAssignment ->
  if negb b.b_init
  then Some (b, RErr)
  else if negb (is_sat b.b_status)
       then Some (b, RErr)
       else if (&&) (negb b.b_assign) (negb (sv_is_empty b.b_names.tn_scoped))
            then Some (b, RErr)
            else Some (b, ROut)
| CGetItp gs ->
  if negb b.b_itp
  then Some (b, RErr)
  else if negb b.b_init
       then Some (b, RErr)
       else if negb (all_resolve b gs)
            then Some (b, RErr)
            else (match masks b gs with
                  | Some _ ->
                    if is_unsat b.b_status
                    then Some (b, ROut)
                    else Some (b, RErr)
                  | None -> Some (b, RErr))
