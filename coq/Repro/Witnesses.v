(* C23 — the side condition `safe` is necessary: for every kind of leaking primitive a program whose only leaking
   construct is of that kind and two environments (both with injective layouts) under which the observations differ.
   And an example of a safe program that allocates, keys a map by addresses, follows pointers, loops, draws from the
   seeded generator and prints: its output is computed under two different layouts. *)
From Coq Require Import ZArith List Bool Lia.
From OsmtV.Repro Require Import Gen_Random Prng Machine NonInterference.
Import ListNotations.
Open Scope Z_scope.

Arguments EVar x%nat.
Arguments CAssign x%nat e.
Arguments CAlloc x%nat.
Arguments CAllocUninit x%nat.
Arguments CLoad x%nat e.
Arguments CMapPut m%nat ek ev.
Arguments CMapGet x%nat m%nat ek.
Arguments CMapHas x%nat m%nat ek.
Arguments CIter o m%nat x%nat body.
Arguments CEntropy x%nat.
Arguments CRand x%nat size%Z.

Lemma app_nil_both : forall (A : Type) (a b : list A), a ++ b = [] <-> a = [] /\ b = [].
Proof. intros A a b. split; [apply app_eq_nil|intros [-> ->]; reflexivity]. Qed.

Lemma safe_expr_iff : forall e, safe_expr e = true <-> leaks_expr e = [].
Proof.
  induction e; simpl; try (split; [reflexivity|reflexivity]);
    try (rewrite andb_true_iff, app_nil_both, IHe1, IHe2; reflexivity);
    split; intros H; discriminate.
Qed.

Lemma safe_iff_no_leaks_lemma : forall c, safe c = true <-> leaks c = [].
Proof.
  induction c; simpl;
    repeat rewrite andb_true_iff; repeat rewrite app_nil_both; repeat rewrite safe_expr_iff;
    try rewrite IHc1; try rewrite IHc2; try rewrite IHc; try tauto;
    try (split; intros H; discriminate).
  destruct o; try tauto; split; intros H; discriminate.
Qed.

(* two allocators: one growing upwards from 4096 in steps of 16, one growing downwards from 2^40 in steps of 48 *)
Definition lay_up (i : nat) : Z := 4096 + 16 * Z.of_nat i.
Definition lay_down (i : nat) : Z := 1099511627776 - 48 * Z.of_nat i.
Lemma lay_up_inj : injective lay_up. Proof. intros i j H. unfold lay_up in H. lia. Qed.
Lemma lay_down_inj : injective lay_down. Proof. intros i j H. unfold lay_down in H. lia. Qed.

Definition envA : env := mkEnv lay_up (fun n => 1700000000 + Z.of_nat n) (fun _ => 0).
Definition envB : env := mkEnv lay_down (fun n => 1700000777 + 3 * Z.of_nat n) (fun n => 165 + Z.of_nat n).

Definition w_addr_order : cmd := seqs [CAlloc 0; CAlloc 1; COut (EAddrLt (EVar 0) (EVar 1))].
Definition w_addr_cast : cmd := seqs [CAlloc 0; COut (ECast (EVar 0))].
Definition w_addr_print : cmd := seqs [CAlloc 0; COutAddr (EVar 0)].
(* three nodes registered in a pointer-keyed container with labels 1 2 3; the labels are printed in iteration order *)
Definition fill3 : list cmd :=
  [CAlloc 0; CAlloc 1; CAlloc 2; CMapPut 0 (EVar 0) (EConst 1); CMapPut 0 (EVar 1) (EConst 2); CMapPut 0 (EVar 2) (EConst 3)].
Definition w_iter_address : cmd := seqs (fill3 ++ [CIter ByAddress 0 3 (seqs [CMapGet 4 0 (EVar 3); COut (EVar 4)])]).
Definition w_iter_hash : cmd := seqs (fill3 ++ [CIter ByHash 0 3 (seqs [CMapGet 4 0 (EVar 3); COut (EVar 4)])]).
Definition w_uninit : cmd := seqs [CAllocUninit 0; CLoad 1 (EVar 0); COut (EVar 1)].
Definition w_entropy : cmd := seqs [CEntropy 0; COut (EVar 0)].

Definition witness (k : leak) : cmd :=
  match k with
  | LAddrOrder => w_addr_order | LAddrCast => w_addr_cast | LAddrPrint => w_addr_print
  | LIterByAddress => w_iter_address | LIterByHash => w_iter_hash | LUninit => w_uninit | LEntropy => w_entropy
  end.

Definition differs (c : cmd) : Prop :=
  exists fuel, fst (run envA fuel c default_seed) <> OutOfFuel /\ fst (run envB fuel c default_seed) <> OutOfFuel /\
               run envA fuel c default_seed <> run envB fuel c default_seed.

Lemma safe_condition_necessary_lemma : forall k : leak, leaks (witness k) = [k] /\ differs (witness k).
Proof.
  intros k. split; [destruct k; reflexivity|].
  exists 40%nat. destruct k; vm_compute; repeat split; discriminate.
Qed.

(* the same container iterated in insertion order (a vector of pointers) is fine *)
Definition ok_iter_insertion : cmd := seqs (fill3 ++ [CIter Insertion 0 3 (seqs [CMapGet 4 0 (EVar 3); COut (EVar 4)])]).

(* ---- a safe program with allocation, pointers in the heap, an address-keyed map, a loop and the generator ---- *)
Definition ex_prog : cmd := seqs [
  CAlloc 0; CAlloc 1; CAlloc 2;                                    (* three nodes *)
  CStore (EVar 0) (EConst 10); CStore (EVar 1) (EConst 20);
  CStore (EVar 2) (EVar 0);                                         (* node 2 points to node 0 *)
  CMapPut 0 (EVar 0) (EConst 100); CMapPut 0 (EVar 1) (EConst 200); CMapPut 0 (EVar 2) (EConst 300);   (* pointer-keyed *)
  CMapPut 1 (EConst 0) (EVar 2); CMapPut 1 (EConst 1) (EVar 0); CMapPut 1 (EConst 2) (EVar 1);         (* worklist of pointers *)
  CIter Insertion 0 3 (seqs [CMapGet 4 0 (EVar 3); COut (EVar 4)]);
  CLoad 5 (EVar 2);                                                 (* follow the pointer *)
  COut (EEq (EVar 5) (EVar 0)); COut (EEq (EVar 5) (EVar 1));
  CLoad 6 (EVar 5); COut (EVar 6);
  CMapHas 7 0 (EVar 5); COut (EVar 7);
  CAssign 8 (EConst 0);
  CWhile (ELt (EVar 8) (EConst 3)) (seqs [
     CMapGet 9 1 (EVar 8); CMapGet 10 0 (EVar 9); COut (EAdd (EVar 10) (EVar 8)); CAssign 8 (EAdd (EVar 8) (EConst 1))]);
  CRand 11 1000; COut (EVar 11); CRand 11 1000; COut (EVar 11);
  CExit (EConst 7)].

Lemma ex_prog_runs : safe ex_prog = true /\
  run envA 60 ex_prog default_seed = (Exited 7, [100; 200; 300; 1; 0; 10; 1; 300; 101; 202; irand default_seed 1000; irand (next_seed default_seed) 1000]) /\
  run envB 60 ex_prog default_seed = run envA 60 ex_prog default_seed.
Proof. vm_compute. repeat split; reflexivity. Qed.

Lemma ok_iter_insertion_runs : safe ok_iter_insertion = true /\
  run envA 40 ok_iter_insertion default_seed = (Running, [1; 2; 3]) /\ run envB 40 ok_iter_insertion default_seed = (Running, [1; 2; 3]).
Proof. vm_compute. repeat split; reflexivity. Qed.
