(* C23 — noninterference of the abstract machine: a program without leaking primitives produces the same output and
   exit status under any two environments whose layouts are injective.  Proof: lock-step simulation; the relation
   between the two states is the renaming of addresses  layout1 i  <->  layout2 i. *)
From Coq Require Import ZArith List Bool Lia.
From OsmtV.Repro Require Import Gen_Random Prng Machine.
Import ListNotations.
Open Scope Z_scope.

Section Sim.
  Variables l1 l2 : nat -> Z.
  Hypothesis inj1 : injective l1.
  Hypothesis inj2 : injective l2.

  Inductive vrel : val -> val -> Prop :=
  | vr_int : forall z, vrel (VInt z) (VInt z)
  | vr_addr : forall i, vrel (VAddr (l1 i)) (VAddr (l2 i)).

  Definition prel (p q : val * val) : Prop := vrel (fst p) (fst q) /\ vrel (snd p) (snd q).
  Definition mrel (m1 m2 : amap) : Prop := Forall2 prel m1 m2.

  Inductive orel : option val -> option val -> Prop :=
  | or_none : orel None None
  | or_some : forall v w, vrel v w -> orel (Some v) (Some w).

  Record srel (s1 s2 : state) : Prop := mkSrel {
    sr_vars : forall x, vrel (vars s1 x) (vars s2 x);
    sr_heap : mrel (heap s1) (heap s2);
    sr_maps : forall m, mrel (maps s1 m) (maps s2 m);
    sr_out : out s1 = out s2;
    sr_nalloc : nalloc s1 = nalloc s2;
    sr_seed : seed s1 = seed s2
  }.

  Definition rrel (r1 r2 : outcome * state) : Prop := fst r1 = fst r2 /\ srel (snd r1) (snd r2).

  Lemma vrel_eqb : forall v1 v2 w1 w2, vrel v1 v2 -> vrel w1 w2 -> val_eqb v1 w1 = val_eqb v2 w2.
  Proof.
    intros v1 v2 w1 w2 Hv Hw. destruct Hv as [z|i]; destruct Hw as [y|j]; simpl; auto.
    destruct (Z.eqb_spec (l1 i) (l1 j)) as [E|N]; destruct (Z.eqb_spec (l2 i) (l2 j)) as [E'|N']; auto; exfalso;
      try (apply inj1 in E; subst; congruence); try (apply inj2 in E'; subst; congruence).
  Qed.

  Lemma lookup_rel : forall m1 m2 k1 k2, mrel m1 m2 -> vrel k1 k2 -> orel (lookup k1 m1) (lookup k2 m2).
  Proof.
    intros m1 m2 k1 k2 Hm Hk. induction Hm as [|[a1 b1] [a2 b2] r1 r2 [Ha Hb] Hr IH]; simpl.
    - constructor.
    - simpl in Ha, Hb. rewrite (vrel_eqb _ _ _ _ Hk Ha). destruct (val_eqb k2 a2); [constructor; exact Hb|exact IH].
  Qed.

  Lemma update_rel : forall m1 m2 k1 k2 v1 v2, mrel m1 m2 -> vrel k1 k2 -> vrel v1 v2 -> mrel (update k1 v1 m1) (update k2 v2 m2).
  Proof.
    intros m1 m2 k1 k2 v1 v2 Hm Hk Hv. induction Hm as [|[a1 b1] [a2 b2] r1 r2 [Ha Hb] Hr IH]; simpl.
    - constructor.
    - simpl in Ha, Hb. rewrite (vrel_eqb _ _ _ _ Hk Ha). destruct (val_eqb k2 a2).
      + constructor; [split; simpl; assumption|exact Hr].
      + constructor; [split; simpl; assumption|exact IH].
  Qed.

  Lemma put_rel : forall m1 m2 k1 k2 v1 v2, mrel m1 m2 -> vrel k1 k2 -> vrel v1 v2 -> mrel (put k1 v1 m1) (put k2 v2 m2).
  Proof.
    intros m1 m2 k1 k2 v1 v2 Hm Hk Hv. unfold put.
    destruct (lookup_rel _ _ _ _ Hm Hk).
    - apply Forall2_app; [exact Hm|]. constructor; [split; simpl; assumption|constructor].
    - apply update_rel; assumption.
  Qed.

  Lemma keys_rel : forall m1 m2, mrel m1 m2 -> Forall2 vrel (map fst m1) (map fst m2).
  Proof. intros m1 m2 Hm. induction Hm as [|p q r1 r2 [Ha _] _ IH]; simpl; constructor; assumption. Qed.

  Lemma eval_rel : forall e vs1 vs2, safe_expr e = true -> (forall x, vrel (vs1 x) (vs2 x)) -> orel (eval vs1 e) (eval vs2 e).
  Proof.
    assert (I2 : forall f a1 a2 b1 b2, orel a1 a2 -> orel b1 b2 -> orel (int2 f a1 b1) (int2 f a2 b2)).
    { intros f a1 a2 b1 b2 Ha Hb. destruct Ha as [|v w Hv]; simpl; [constructor|].
      destruct Hv; [|constructor]. destruct Hb as [|v' w' Hv']; [constructor|]. destruct Hv'; constructor; constructor. }
    induction e; intros vs1 vs2 Hs Hvs; simpl in *; try discriminate;
      try (apply andb_true_iff in Hs; destruct Hs as [Hs1 Hs2]).
    - constructor. constructor.
    - constructor. apply Hvs.
    - apply I2; auto.
    - apply I2; auto.
    - apply I2; auto.
    - apply I2; auto.
    - specialize (IHe1 vs1 vs2 Hs1 Hvs). specialize (IHe2 vs1 vs2 Hs2 Hvs).
      destruct IHe1 as [|v w Hv]; [constructor|]. destruct IHe2 as [|v' w' Hv']; [constructor|].
      rewrite (vrel_eqb _ _ _ _ Hv Hv'). constructor. constructor.
  Qed.

  (* state updates preserve the relation *)
  Lemma set_var_rel : forall s1 s2 x v1 v2, srel s1 s2 -> vrel v1 v2 -> srel (set_var s1 x v1) (set_var s2 x v2).
  Proof.
    intros s1 s2 x v1 v2 [Hv Hh Hm Ho Hn Hs] Hr. constructor; simpl; auto.
    intros y. destruct (Nat.eqb y x); auto.
  Qed.

  Lemma set_heap_rel : forall s1 s2 h1 h2, srel s1 s2 -> mrel h1 h2 -> srel (set_heap s1 h1) (set_heap s2 h2).
  Proof. intros s1 s2 h1 h2 [Hv Hh Hm Ho Hn Hs] Hr. constructor; simpl; auto. Qed.

  Lemma set_map_rel : forall s1 s2 m a1 a2, srel s1 s2 -> mrel a1 a2 -> srel (set_map s1 m a1) (set_map s2 m a2).
  Proof.
    intros s1 s2 m a1 a2 [Hv Hh Hm Ho Hn Hs] Hr. constructor; simpl; auto.
    intros n. destruct (Nat.eqb n m); auto.
  Qed.

  Lemma emit_rel : forall s1 s2 z, srel s1 s2 -> srel (emit s1 z) (emit s2 z).
  Proof. intros s1 s2 z [Hv Hh Hm Ho Hn Hs]. constructor; simpl; auto. congruence. Qed.

  Lemma alloc_rel : forall s1 s2 x, srel s1 s2 ->
    srel (alloc_cell s1 x (VAddr (l1 (nalloc s1))) (VInt 0)) (alloc_cell s2 x (VAddr (l2 (nalloc s2))) (VInt 0)).
  Proof.
    intros s1 s2 x [Hv Hh Hm Ho Hn Hs]. rewrite <- Hn. constructor; simpl; auto.
    - intros y. destruct (Nat.eqb y x); auto. constructor.
    - constructor; [split; simpl; constructor|exact Hh].
  Qed.

  Lemma foreach_rel : forall (run1 run2 : val -> state -> outcome * state),
    (forall k1 k2 s1 s2, vrel k1 k2 -> srel s1 s2 -> rrel (run1 k1 s1) (run2 k2 s2)) ->
    forall ks1 ks2, Forall2 vrel ks1 ks2 -> forall s1 s2, srel s1 s2 -> rrel (foreach run1 ks1 s1) (foreach run2 ks2 s2).
  Proof.
    intros run1 run2 Hrun ks1 ks2 Hks. induction Hks as [|k1 k2 r1 r2 Hk Hr IH]; intros s1 s2 Hs; simpl.
    - split; simpl; auto.
    - destruct (Hrun k1 k2 s1 s2 Hk Hs) as [Ho Hs'].
      destruct (run1 k1 s1) as [o1 t1]; destruct (run2 k2 s2) as [o2 t2]; simpl in *. subst o2.
      destruct o1; try (split; simpl; auto; fail). apply IH. exact Hs'.
  Qed.

  Variables E1 E2 : env.
  Hypothesis lay1 : layout E1 = l1.
  Hypothesis lay2 : layout E2 = l2.

  Ltac stuck := split; simpl; auto.

  Lemma exec_rel : forall fuel c s1 s2, safe c = true -> srel s1 s2 -> rrel (exec E1 fuel c s1) (exec E2 fuel c s2).
  Proof.
    induction fuel as [|f IH]; intros c s1 s2 Hsafe Hs; [split; simpl; auto|].
    destruct c; simpl in Hsafe; try discriminate; simpl.
    - (* skip *) stuck.
    - (* assign *)
      destruct (eval_rel e _ _ Hsafe (sr_vars _ _ Hs)) as [|v w Hv]; [stuck|]. split; simpl; auto. apply set_var_rel; auto.
    - (* seq *)
      apply andb_true_iff in Hsafe. destruct Hsafe as [Ha Hb].
      destruct (IH c1 s1 s2 Ha Hs) as [Ho Hs'].
      destruct (exec E1 f c1 s1) as [o1 t1]; destruct (exec E2 f c1 s2) as [o2 t2]; simpl in *. subst o2.
      destruct o1; try (split; simpl; auto; fail). apply IH; auto.
    - (* if *)
      apply andb_true_iff in Hsafe. destruct Hsafe as [Hsafe Hb]. apply andb_true_iff in Hsafe. destruct Hsafe as [He Ha].
      destruct (eval_rel e _ _ He (sr_vars _ _ Hs)) as [|v w Hv]; [stuck|]. destruct Hv; [|stuck].
      destruct (Z.eqb z 0); apply IH; auto.
    - (* while *)
      apply andb_true_iff in Hsafe. destruct Hsafe as [He Hb].
      destruct (eval_rel e _ _ He (sr_vars _ _ Hs)) as [|v w Hv]; [stuck|]. destruct Hv; [|stuck].
      destruct (Z.eqb z 0); [stuck|].
      destruct (IH c s1 s2 Hb Hs) as [Ho Hs'].
      destruct (exec E1 f c s1) as [o1 t1]; destruct (exec E2 f c s2) as [o2 t2]; simpl in *. subst o2.
      destruct o1; try (split; simpl; auto; fail). apply IH; auto. simpl. rewrite He, Hb. reflexivity.
    - (* alloc *)
      rewrite lay1, lay2. split; simpl; auto. apply alloc_rel; auto.
    - (* load *)
      destruct (eval_rel e _ _ Hsafe (sr_vars _ _ Hs)) as [|k1 k2 Hk]; [stuck|].
      destruct (lookup_rel _ _ _ _ (sr_heap _ _ Hs) Hk) as [|v w Hv]; [stuck|]. split; simpl; auto. apply set_var_rel; auto.
    - (* store *)
      apply andb_true_iff in Hsafe. destruct Hsafe as [H1 H2].
      destruct (eval_rel e1 _ _ H1 (sr_vars _ _ Hs)) as [|k1 k2 Hk]; [stuck|].
      destruct (eval_rel e2 _ _ H2 (sr_vars _ _ Hs)) as [|v1 v2 Hv]; [stuck|].
      destruct (lookup_rel _ _ _ _ (sr_heap _ _ Hs) Hk) as [|o1 o2 Ho]; [stuck|]. split; simpl; auto.
      apply set_heap_rel; auto. apply update_rel; auto. apply (sr_heap _ _ Hs).
    - (* map put *)
      apply andb_true_iff in Hsafe. destruct Hsafe as [H1 H2].
      destruct (eval_rel ek _ _ H1 (sr_vars _ _ Hs)) as [|k1 k2 Hk]; [stuck|].
      destruct (eval_rel ev _ _ H2 (sr_vars _ _ Hs)) as [|v1 v2 Hv]; [stuck|]. split; simpl; auto.
      apply set_map_rel; auto. apply put_rel; auto. apply (sr_maps _ _ Hs).
    - (* map get *)
      destruct (eval_rel ek _ _ Hsafe (sr_vars _ _ Hs)) as [|k1 k2 Hk]; [stuck|].
      destruct (lookup_rel _ _ _ _ (sr_maps _ _ Hs m) Hk) as [|v w Hv]; [stuck|]. split; simpl; auto. apply set_var_rel; auto.
    - (* map has *)
      destruct (eval_rel ek _ _ Hsafe (sr_vars _ _ Hs)) as [|k1 k2 Hk]; [stuck|]. split; simpl; auto.
      apply set_var_rel; auto.
      destruct (lookup_rel _ _ _ _ (sr_maps _ _ Hs m) Hk); constructor.
    - (* iteration in insertion order *)
      destruct o; try discriminate. simpl.
      apply foreach_rel; auto.
      + intros k1 k2 t1 t2 Hk Ht. apply IH; auto. apply set_var_rel; auto.
      + apply keys_rel. apply (sr_maps _ _ Hs).
    - (* out *)
      destruct (eval_rel e _ _ Hsafe (sr_vars _ _ Hs)) as [|v w Hv]; [stuck|]. destruct Hv; [|stuck].
      split; simpl; auto. apply emit_rel; auto.
    - (* rand *)
      rewrite (sr_seed _ _ Hs). split; simpl; auto.
      destruct (set_var_rel s1 s2 x (VInt (irand (seed s2) size)) (VInt (irand (seed s2) size)) Hs (vr_int _)) as [Hv Hh Hm Ho Hn Hsd].
      constructor; simpl; auto.
    - (* exit *)
      destruct (eval_rel e _ _ Hsafe (sr_vars _ _ Hs)) as [|v w Hv]; [stuck|]. destruct Hv; stuck.
  Qed.
End Sim.

Lemma init_rel : forall l1 l2 sd, srel l1 l2 (init_state sd) (init_state sd).
Proof. intros. constructor; simpl; auto; try constructor. Qed.

(* the theorem: same fuel, same program, same seed; any two environments with injective layouts *)
Lemma noninterference_lemma : forall c, safe c = true -> forall E1 E2, injective (layout E1) -> injective (layout E2) ->
  forall fuel sd, run E1 fuel c sd = run E2 fuel c sd.
Proof.
  intros c Hs E1 E2 I1 I2 fuel sd. unfold run, observe.
  destruct (exec_rel (layout E1) (layout E2) I1 I2 E1 E2 eq_refl eq_refl fuel c _ _ Hs (init_rel _ _ sd)) as [Ho Hr].
  rewrite Ho, (sr_out _ _ _ _ Hr). reflexivity.
Qed.

(* fuel-free reading: if the run under E1 ends (exit, normal end or type error) then the run under E2 ends in the
   same way with the same output; the seeded generator is in the same state *)
Definition ends (E : env) (c : cmd) (sd : Z) (o : outcome) (stdout : list Z) (final_seed : Z) : Prop :=
  exists fuel, o <> OutOfFuel /\ fst (exec E fuel c (init_state sd)) = o /\
               out (snd (exec E fuel c (init_state sd))) = stdout /\ seed (snd (exec E fuel c (init_state sd))) = final_seed.

Lemma reproducible_lemma : forall c, safe c = true -> forall E1 E2, injective (layout E1) -> injective (layout E2) ->
  forall sd o stdout fs, ends E1 c sd o stdout fs -> ends E2 c sd o stdout fs.
Proof.
  intros c Hs E1 E2 I1 I2 sd o stdout fs [fuel [Hne [Ho [Hout Hseed]]]]. exists fuel.
  destruct (exec_rel (layout E1) (layout E2) I1 I2 E1 E2 eq_refl eq_refl fuel c _ _ Hs (init_rel _ _ sd)) as [Ho' Hr].
  split; [exact Hne|]. split; [congruence|]. split.
  - rewrite <- (sr_out _ _ _ _ Hr). exact Hout.
  - rewrite <- (sr_seed _ _ _ _ Hr). exact Hseed.
Qed.

(* more fuel does not change a finished run: `ends` determines its result *)
Lemma foreach_mono : forall (runA runB : val -> state -> outcome * state),
  (forall k s, fst (runA k s) <> OutOfFuel -> runB k s = runA k s) ->
  forall ks s, fst (foreach runA ks s) <> OutOfFuel -> foreach runB ks s = foreach runA ks s.
Proof.
  intros runA runB H ks. induction ks as [|k r IH]; intros s Hne; simpl in *; auto.
  destruct (runA k s) as [o t] eqn:EA.
  assert (HB : runB k s = (o, t)).
  { rewrite <- EA. apply H. rewrite EA. simpl. destruct o; simpl in Hne; try discriminate; auto; congruence. }
  rewrite HB. destruct o; auto.
Qed.

Lemma exec_fuel_mono : forall E f c s, fst (exec E f c s) <> OutOfFuel -> exec E (S f) c s = exec E f c s.
Proof.
  intros E. induction f as [|f IH]; intros c s Hne; [simpl in Hne; congruence|].
  destruct c; try reflexivity.
  - (* seq *) change (exec E (S (S f)) (CSeq c1 c2) s) with (match exec E (S f) c1 s with (Running, s') => exec E (S f) c2 s' | res => res end).
    change (exec E (S f) (CSeq c1 c2) s) with (match exec E f c1 s with (Running, s') => exec E f c2 s' | res => res end) in *.
    destruct (exec E f c1 s) as [o t] eqn:E1.
    assert (H1 : exec E (S f) c1 s = (o, t)).
    { rewrite <- E1. apply IH. rewrite E1. simpl. destruct o; simpl in Hne; auto; congruence. }
    rewrite H1. destruct o; auto.
  - (* if *) change (exec E (S (S f)) (CIf e c1 c2) s) with
      (match eval (vars s) e with Some (VInt z) => if Z.eqb z 0 then exec E (S f) c2 s else exec E (S f) c1 s | _ => (Stuck, s) end).
    change (exec E (S f) (CIf e c1 c2) s) with
      (match eval (vars s) e with Some (VInt z) => if Z.eqb z 0 then exec E f c2 s else exec E f c1 s | _ => (Stuck, s) end) in *.
    destruct (eval (vars s) e) as [[z|a]|]; auto. destruct (Z.eqb z 0); apply IH; auto.
  - (* while *) change (exec E (S (S f)) (CWhile e c) s) with
      (match eval (vars s) e with
       | Some (VInt z) => if Z.eqb z 0 then (Running, s)
                          else match exec E (S f) c s with (Running, s') => exec E (S f) (CWhile e c) s' | res => res end
       | _ => (Stuck, s) end).
    change (exec E (S f) (CWhile e c) s) with
      (match eval (vars s) e with
       | Some (VInt z) => if Z.eqb z 0 then (Running, s)
                          else match exec E f c s with (Running, s') => exec E f (CWhile e c) s' | res => res end
       | _ => (Stuck, s) end) in *.
    destruct (eval (vars s) e) as [[z|a]|]; auto. destruct (Z.eqb z 0); auto.
    destruct (exec E f c s) as [o t] eqn:E1.
    assert (H1 : exec E (S f) c s = (o, t)).
    { rewrite <- E1. apply IH. rewrite E1. simpl. destruct o; simpl in Hne; auto; congruence. }
    rewrite H1. destruct o; auto.
  - (* iter *) change (exec E (S (S f)) (CIter o m x c) s) with
      (foreach (fun k s' => exec E (S f) c (set_var s' x k)) (keys_in o (maps s m)) s).
    change (exec E (S f) (CIter o m x c) s) with
      (foreach (fun k s' => exec E f c (set_var s' x k)) (keys_in o (maps s m)) s) in *.
    apply foreach_mono; [intros k t Hk; apply IH; exact Hk | exact Hne].
Qed.

Lemma exec_fuel_le : forall E f g c s, (f <= g)%nat -> fst (exec E f c s) <> OutOfFuel -> exec E g c s = exec E f c s.
Proof.
  intros E f g c s Hle Hne. induction Hle as [|g Hle IH]; auto.
  rewrite <- IH. apply exec_fuel_mono. rewrite IH. exact Hne.
Qed.

Lemma ends_deterministic_lemma : forall E c sd o1 o2 out1 out2 fs1 fs2,
  ends E c sd o1 out1 fs1 -> ends E c sd o2 out2 fs2 -> o1 = o2 /\ out1 = out2 /\ fs1 = fs2.
Proof.
  intros E c sd o1 o2 out1 out2 fs1 fs2 [f [Hn1 [Ho1 [Hout1 Hs1]]]] [g [Hn2 [Ho2 [Hout2 Hs2]]]].
  destruct (Nat.le_ge_cases f g) as [Hle|Hle].
  - rewrite (exec_fuel_le E f g c _ Hle) in Ho2, Hout2, Hs2 by congruence. repeat split; congruence.
  - rewrite (exec_fuel_le E g f c _ Hle) in Ho1, Hout1, Hs1 by congruence. repeat split; congruence.
Qed.
