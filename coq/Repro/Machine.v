(* C23 — an abstract machine in which the address-space layout is an explicit parameter.

   A run is determined by a program, an initial state and an ENVIRONMENT  E = (layout, entropy, garbage):
     layout  : allocation index -> address       what the allocator / ASLR / stack position decide
     entropy : read index -> integer             time(), clock(), getpid(), random_device, thread ids ...
     garbage : read index -> integer             the content of memory that was never written
   Values are integers or addresses.  Programs may freely create, copy, store, dereference and compare-for-
   equality addresses and use them as keys of maps that are looked up; all of that is layout independent.
   The LEAKING primitives, through which the environment can reach the output, are syntactically distinct:
     EAddrLt      order comparison of two addresses          (std::less<T-pointer>, operator< on pointers, sort of pointers)
     ECast        address -> integer                          (reinterpret_cast<uintptr_t>, std::hash<T-pointer>, (size_t)p)
     COutAddr     printing an address                         (%p, os << (void-pointer)p)
     CIter ByAddress / ByHash   iteration over a container ordered / hashed by address
                                                              (std::set<T-pointer>, std::map<T-pointer,..>, unordered_map<T-pointer,..> range-for)
     CAllocUninit reading memory that was never initialised
     CEntropy     reading an external entropy source
   `safe` is the syntactic absence of these.  Definitions only; proofs in NonInterference.v, witnesses in Witnesses.v. *)
From Coq Require Import ZArith List Bool.
From OsmtV.Repro Require Import Gen_Random Prng.
Import ListNotations.
Open Scope Z_scope.

Inductive val := VInt (z : Z) | VAddr (a : Z).

Definition val_eqb (v w : val) : bool :=
  match v, w with
  | VInt a, VInt b => Z.eqb a b
  | VAddr a, VAddr b => Z.eqb a b
  | _, _ => false
  end.

Definition var := nat.
Definition mapid := nat.

Inductive expr :=
| EConst (z : Z)
| EVar (x : var)
| EAdd (a b : expr)
| ESub (a b : expr)
| EMul (a b : expr)
| ELt (a b : expr)        (* integers only *)
| EEq (a b : expr)        (* any two values: pointer equality is layout independent *)
| EAddrLt (a b : expr)    (* LEAK *)
| ECast (a : expr).       (* LEAK *)

Inductive order := Insertion | ByAddress | ByHash.

Inductive cmd :=
| CSkip
| CAssign (x : var) (e : expr)
| CSeq (a b : cmd)
| CIf (e : expr) (a b : cmd)
| CWhile (e : expr) (body : cmd)
| CAlloc (x : var)                    (* x := new cell, initialised to 0 *)
| CAllocUninit (x : var)              (* LEAK: x := new cell, content never written *)
| CLoad (x : var) (e : expr)          (* x := *e *)
| CStore (e1 e2 : expr)               (* *e1 := e2 *)
| CMapPut (m : mapid) (ek ev : expr)  (* m[ek] := ev   (keys: integers or addresses) *)
| CMapGet (x : var) (m : mapid) (ek : expr)   (* x := m.at(ek) *)
| CMapHas (x : var) (m : mapid) (ek : expr)   (* x := m.count(ek) *)
| CIter (o : order) (m : mapid) (x : var) (body : cmd)   (* for (x : keys of m in order o) body;  LEAK unless o = Insertion *)
| COut (e : expr)                     (* print an integer on stdout *)
| COutAddr (e : expr)                 (* LEAK: print an address *)
| CEntropy (x : var)                  (* LEAK *)
| CRand (x : var) (size : Z)          (* x := irand(seed, size) of the seeded generator *)
| CExit (e : expr).

Fixpoint safe_expr (e : expr) : bool :=
  match e with
  | EConst _ | EVar _ => true
  | EAdd a b | ESub a b | EMul a b | ELt a b | EEq a b => safe_expr a && safe_expr b
  | EAddrLt _ _ | ECast _ => false
  end.

Fixpoint safe (c : cmd) : bool :=
  match c with
  | CSkip => true
  | CAssign _ e => safe_expr e
  | CSeq a b => safe a && safe b
  | CIf e a b => safe_expr e && safe a && safe b
  | CWhile e b => safe_expr e && safe b
  | CAlloc _ => true
  | CAllocUninit _ => false
  | CLoad _ e => safe_expr e
  | CStore e1 e2 => safe_expr e1 && safe_expr e2
  | CMapPut _ ek ev => safe_expr ek && safe_expr ev
  | CMapGet _ _ ek => safe_expr ek
  | CMapHas _ _ ek => safe_expr ek
  | CIter o _ _ b => match o with Insertion => safe b | _ => false end
  | COut e => safe_expr e
  | COutAddr _ => false
  | CEntropy _ => false
  | CRand _ _ => true
  | CExit e => safe_expr e
  end.

Record env := mkEnv { layout : nat -> Z; entropy : nat -> Z; garbage : nat -> Z }.

Definition amap := list (val * val).

Record state := mkState {
  vars : var -> val;
  heap : amap;
  maps : mapid -> amap;
  out : list Z;         (* standard output *)
  nalloc : nat;         (* allocations so far *)
  nent : nat;           (* entropy reads so far *)
  ngarb : nat;          (* uninitialised reads so far *)
  seed : Z              (* state of the seeded generator *)
}.

Definition init_state (sd : Z) : state :=
  mkState (fun _ => VInt 0) [] (fun _ => []) [] 0 0 0 sd.

Inductive outcome := Running | Exited (code : Z) | Stuck | OutOfFuel.

(* ---- association lists keyed by values (equality only) ---- *)
Fixpoint lookup (k : val) (m : amap) : option val :=
  match m with
  | [] => None
  | (k', v) :: r => if val_eqb k k' then Some v else lookup k r
  end.

Fixpoint update (k v : val) (m : amap) : amap :=      (* overwrite the first binding of k, if any *)
  match m with
  | [] => []
  | (k', v') :: r => if val_eqb k k' then (k', v) :: r else (k', v') :: update k v r
  end.

Definition put (k v : val) (m : amap) : amap :=
  match lookup k m with Some _ => update k v m | None => m ++ [(k, v)] end.

(* ---- orders that depend on the numeric value of an address ---- *)
Definition val_rank (v : val) : Z * Z := match v with VInt z => (0, z) | VAddr a => (1, a) end.
Definition rank_leb (p q : Z * Z) : bool :=
  if Z.ltb (fst p) (fst q) then true else if Z.ltb (fst q) (fst p) then false else Z.leb (snd p) (snd q).
Definition hash_buckets : Z := 7.
Definition val_hash (v : val) : Z * Z := match v with VInt z => (0, z mod hash_buckets) | VAddr a => (0, (a / 16) mod hash_buckets) end.

Fixpoint insert_by (key : val -> Z * Z) (v : val) (l : list val) : list val :=
  match l with
  | [] => [v]
  | w :: r => if rank_leb (key v) (key w) then v :: l else w :: insert_by key v r
  end.
Definition sort_by (key : val -> Z * Z) (l : list val) : list val := fold_right (insert_by key) [] l.

Definition keys_in (o : order) (m : amap) : list val :=
  match o with
  | Insertion => map fst m
  | ByAddress => sort_by val_rank (map fst m)
  | ByHash => sort_by val_hash (map fst m)
  end.

(* ---- expressions ---- *)
Definition int2 (f : Z -> Z -> Z) (a b : option val) : option val :=
  match a, b with Some (VInt x), Some (VInt y) => Some (VInt (f x y)) | _, _ => None end.
Definition b2z (b : bool) : Z := if b then 1 else 0.

Fixpoint eval (vs : var -> val) (e : expr) : option val :=
  match e with
  | EConst z => Some (VInt z)
  | EVar x => Some (vs x)
  | EAdd a b => int2 Z.add (eval vs a) (eval vs b)
  | ESub a b => int2 Z.sub (eval vs a) (eval vs b)
  | EMul a b => int2 Z.mul (eval vs a) (eval vs b)
  | ELt a b => int2 (fun x y => b2z (Z.ltb x y)) (eval vs a) (eval vs b)
  | EEq a b => match eval vs a, eval vs b with Some v, Some w => Some (VInt (b2z (val_eqb v w))) | _, _ => None end
  | EAddrLt a b => match eval vs a, eval vs b with Some (VAddr x), Some (VAddr y) => Some (VInt (b2z (Z.ltb x y))) | _, _ => None end
  | ECast a => match eval vs a with Some (VAddr x) => Some (VInt x) | _ => None end
  end.

(* ---- commands ---- *)
Definition set_var (s : state) (x : var) (v : val) : state :=
  mkState (fun y => if Nat.eqb y x then v else vars s y) (heap s) (maps s) (out s) (nalloc s) (nent s) (ngarb s) (seed s).
Definition set_heap (s : state) (h : amap) : state :=
  mkState (vars s) h (maps s) (out s) (nalloc s) (nent s) (ngarb s) (seed s).
Definition set_map (s : state) (m : mapid) (a : amap) : state :=
  mkState (vars s) (heap s) (fun n => if Nat.eqb n m then a else maps s n) (out s) (nalloc s) (nent s) (ngarb s) (seed s).
Definition emit (s : state) (z : Z) : state :=
  mkState (vars s) (heap s) (maps s) (out s ++ [z]) (nalloc s) (nent s) (ngarb s) (seed s).
Definition alloc_cell (s : state) (x : var) (a content : val) : state :=
  mkState (fun y => if Nat.eqb y x then a else vars s y) ((a, content) :: heap s) (maps s) (out s) (S (nalloc s)) (nent s) (ngarb s) (seed s).

Fixpoint foreach (run : val -> state -> outcome * state) (ks : list val) (s : state) : outcome * state :=
  match ks with
  | [] => (Running, s)
  | k :: r => match run k s with
              | (Running, s') => foreach run r s'
              | res => res
              end
  end.

Fixpoint exec (E : env) (fuel : nat) (c : cmd) (s : state) : outcome * state :=
  match fuel with
  | O => (OutOfFuel, s)
  | S f =>
    match c with
    | CSkip => (Running, s)
    | CAssign x e => match eval (vars s) e with Some v => (Running, set_var s x v) | None => (Stuck, s) end
    | CSeq a b => match exec E f a s with (Running, s') => exec E f b s' | res => res end
    | CIf e a b => match eval (vars s) e with
                   | Some (VInt z) => if Z.eqb z 0 then exec E f b s else exec E f a s
                   | _ => (Stuck, s)
                   end
    | CWhile e b => match eval (vars s) e with
                    | Some (VInt z) => if Z.eqb z 0 then (Running, s)
                                       else match exec E f b s with (Running, s') => exec E f (CWhile e b) s' | res => res end
                    | _ => (Stuck, s)
                    end
    | CAlloc x => (Running, alloc_cell s x (VAddr (layout E (nalloc s))) (VInt 0))
    | CAllocUninit x =>
        let s1 := alloc_cell s x (VAddr (layout E (nalloc s))) (VInt (garbage E (ngarb s))) in
        (Running, mkState (vars s1) (heap s1) (maps s1) (out s1) (nalloc s1) (nent s1) (S (ngarb s1)) (seed s1))
    | CLoad x e => match eval (vars s) e with
                   | Some k => match lookup k (heap s) with Some v => (Running, set_var s x v) | None => (Stuck, s) end
                   | None => (Stuck, s)
                   end
    | CStore e1 e2 => match eval (vars s) e1, eval (vars s) e2 with
                      | Some k, Some v => match lookup k (heap s) with
                                          | Some _ => (Running, set_heap s (update k v (heap s)))
                                          | None => (Stuck, s)
                                          end
                      | _, _ => (Stuck, s)
                      end
    | CMapPut m ek ev => match eval (vars s) ek, eval (vars s) ev with
                         | Some k, Some v => (Running, set_map s m (put k v (maps s m)))
                         | _, _ => (Stuck, s)
                         end
    | CMapGet x m ek => match eval (vars s) ek with
                        | Some k => match lookup k (maps s m) with Some v => (Running, set_var s x v) | None => (Stuck, s) end
                        | None => (Stuck, s)
                        end
    | CMapHas x m ek => match eval (vars s) ek with
                        | Some k => (Running, set_var s x (VInt (match lookup k (maps s m) with Some _ => 1 | None => 0 end)))
                        | None => (Stuck, s)
                        end
    | CIter o m x b => foreach (fun k s' => exec E f b (set_var s' x k)) (keys_in o (maps s m)) s
    | COut e => match eval (vars s) e with Some (VInt z) => (Running, emit s z) | _ => (Stuck, s) end
    | COutAddr e => match eval (vars s) e with Some (VAddr a) => (Running, emit s a) | _ => (Stuck, s) end
    | CEntropy x =>
        let s1 := set_var s x (VInt (entropy E (nent s))) in
        (Running, mkState (vars s1) (heap s1) (maps s1) (out s1) (nalloc s1) (S (nent s1)) (ngarb s1) (seed s1))
    | CRand x size =>
        let s1 := set_var s x (VInt (irand (seed s) size)) in
        (Running, mkState (vars s1) (heap s1) (maps s1) (out s1) (nalloc s1) (nent s1) (ngarb s1) (next_seed (seed s)))
    | CExit e => match eval (vars s) e with Some (VInt z) => (Exited z, s) | _ => (Stuck, s) end
    end
  end.

(* what the property observes: exit status (or the way the run ended) and the bytes on standard output *)
Definition observe (r : outcome * state) : outcome * list Z := (fst r, out (snd r)).

Definition run (E : env) (fuel : nat) (c : cmd) (sd : Z) : outcome * list Z := observe (exec E fuel c (init_state sd)).

Definition injective (l : nat -> Z) : Prop := forall i j, l i = l j -> i = j.

(* ---- the leaking constructs of a program, by kind (syntactic) ---- *)
Inductive leak := LAddrOrder | LAddrCast | LAddrPrint | LIterByAddress | LIterByHash | LUninit | LEntropy.

Fixpoint leaks_expr (e : expr) : list leak :=
  match e with
  | EConst _ | EVar _ => []
  | EAdd a b | ESub a b | EMul a b | ELt a b | EEq a b => leaks_expr a ++ leaks_expr b
  | EAddrLt a b => LAddrOrder :: leaks_expr a ++ leaks_expr b
  | ECast a => LAddrCast :: leaks_expr a
  end.

Fixpoint leaks (c : cmd) : list leak :=
  match c with
  | CSkip | CAlloc _ | CRand _ _ => []
  | CAssign _ e | CLoad _ e | COut e | CExit e | CMapGet _ _ e | CMapHas _ _ e => leaks_expr e
  | CSeq a b => leaks a ++ leaks b
  | CIf e a b => leaks_expr e ++ leaks a ++ leaks b
  | CWhile e b => leaks_expr e ++ leaks b
  | CAllocUninit _ => [LUninit]
  | CStore e1 e2 | CMapPut _ e1 e2 => leaks_expr e1 ++ leaks_expr e2
  | CIter o _ _ b => match o with Insertion => leaks b | ByAddress => LIterByAddress :: leaks b | ByHash => LIterByHash :: leaks b end
  | COutAddr e => LAddrPrint :: leaks_expr e
  | CEntropy _ => [LEntropy]
  end.

Fixpoint seqs (l : list cmd) : cmd := match l with [] => CSkip | c :: r => CSeq c (seqs r) end.
