(* C23 — the obligation over the regenerated scan: no fact is classified Leaking unless it is a recorded known finding.
   Proved by computation; regenerating Gen_ReproFacts.v from a tree that contains a new leaking primitive breaks it. *)
From Coq Require Import String List Bool.
From OsmtV.Repro Require Import Gen_Random Prng Machine ReproFacts Gen_ReproFacts.
Import ListNotations.

Lemma scan_ok_lemma : forallb fact_ok facts = true.
Proof. vm_compute. reflexivity. Qed.

Lemma scan_explained_lemma : forall f, In f facts -> (exists r, classify f = Benign r) \/ In (fact_key f) known_leaks.
Proof. intros f H. exact (fact_ok_sound facts f scan_ok_lemma H). Qed.

Lemma scan_nonempty_lemma : (50 <= files_scanned)%nat /\ facts <> [] /\
  existsb (fun f => match f_kind f with KOrderedPtrContainer => has AMembershipOnly f | _ => false end) facts = true /\
  existsb (fun f => match f_kind f with KEntropyRoot => has ATraced f | _ => false end) facts = true /\
  existsb (fun f => match f_kind f with KLibcSrand => has ASeedConfig f | _ => false end) facts = true.
Proof. vm_compute. repeat split; try reflexivity; try discriminate. repeat constructor. Qed.

(* the classifier is not vacuous: sample facts of each leaking shape are rejected *)
Definition sample (k : kind) (a : list attr) : fact := mkFact "x.cc" 1 "f" "v" k a.
Lemma classifier_rejects_lemma :
  map (fun f => is_benign (classify f))
    [ sample KOrderedPtrContainer [AIterated]; sample KOrderedPtrContainer [AEscapes]; sample KHashedPtrContainer [AAddressHash; AIterated];
      sample KPtrOrderFunctor []; sample KPtrHashFunctor []; sample KSortPtr [AElemPointer]; sample KSortPtr [ACmpOnAddress];
      sample KPtrToInt [AOperandPointer]; sample KPtrPrint [ASinkStdout]; sample KPtrPrint [ASinkStream];
      sample KEntropyRoot []; sample KEntropyUse [ASinkStdout]; sample KEntropyUse [ASinkCompare]; sample KEntropyUse [ASinkUnknown];
      sample KLibcSrand [ASeedOther]; sample KEngine [ASeedOther]; sample KGetenv []; sample KThread [] ]
  = repeat false 18 /\
  map (fun f => is_benign (classify f))
    [ sample KOrderedPtrContainer [AMembershipOnly]; sample KHashedPtrContainer [AAddressHash; AMembershipOnly];
      sample KHashedPtrContainer [AContentHash; AIterated]; sample KPtrPrint [ASinkStderr]; sample KEntropyUse [ASinkStderr];
      sample KEntropyUse [ASinkAssign]; sample KLibcSrand [ASeedConfig]; sample KLibcRand []; sample KEngine [ASeedDefault] ]
  = repeat true 9.
Proof. vm_compute. split; reflexivity. Qed.
