(* C23 — the seeded pseudo-random generator of the SAT/theory layer (src/common/Random.h: drand, irand), transcribed on
   integers.  The C++ code keeps the state in a double; every value it holds is an integer below 2^53 (drand_double_exact
   below), so the double arithmetic of `seed *= mult; q = (int)(seed / mod); seed -= q * mod` is exact and equals
   next_seed.  The constants are regenerated from the source (Gen_Random.v). *)
From Coq Require Import ZArith List Lia Znumtheory.
From OsmtV.Repro Require Import Gen_Random.
Import ListNotations.
Open Scope Z_scope.

(* the quotient the C++ code truncates to int, and the new state *)
Definition drand_q (s : Z) : Z := (s * rnd_mult) / rnd_mod.
Definition next_seed (s : Z) : Z := s * rnd_mult - drand_q s * rnd_mod.
(* drand returns next_seed s / rnd_mod (a rational in [0,1));  irand(seed, size) = (int)(drand(seed) * size) *)
Definition irand (s size : Z) : Z := (next_seed s * size) / rnd_mod.

(* the first n states after s: all the generator ever reads or writes is this one number *)
Fixpoint stream (n : nat) (s : Z) : list Z :=
  match n with O => [] | S k => let s' := next_seed s in s' :: stream k s' end.

Definition seed_ok (s : Z) : Prop := 0 < s < rnd_mod.

Lemma mod_pos : 0 < rnd_mod. Proof. reflexivity. Qed.

Lemma next_seed_mod : forall s, next_seed s = (s * rnd_mult) mod rnd_mod.
Proof.
  intros s. unfold next_seed, drand_q.
  pose proof (Z.div_mod (s * rnd_mult) rnd_mod) as H.
  assert (rnd_mod <> 0) by (pose proof mod_pos; lia). specialize (H H0). lia.
Qed.

(* "Seed must never be 0" (comment and assert in Random.h): a seed in 1..mod-1 stays there *)
Lemma next_seed_ok_lemma : forall s, seed_ok s -> seed_ok (next_seed s).
Proof.
  intros s [Hlo Hhi]. unfold seed_ok. rewrite next_seed_mod.
  pose proof mod_pos as HM.
  pose proof (Z.mod_pos_bound (s * rnd_mult) rnd_mod HM) as [Hge Hlt].
  split; [|exact Hlt].
  destruct (Z.eq_dec ((s * rnd_mult) mod rnd_mod) 0) as [E|NE]; [|lia].
  exfalso.
  apply Z.mod_divide in E; [|lia].
  assert (G : Z.gcd rnd_mod rnd_mult = 1) by (vm_compute; reflexivity).
  rewrite Z.mul_comm in E.
  pose proof (Z.gauss rnd_mod rnd_mult s E G) as D.
  apply Z.divide_pos_le in D; lia.
Qed.

(* all intermediate values are integers below 2^53 and the truncated quotient fits a 32-bit int: the double
   computation of the C++ code is exact *)
Lemma drand_double_exact_lemma : forall s, seed_ok s -> 0 < s * rnd_mult < 2 ^ 53 /\ 0 <= drand_q s < 2 ^ 31.
Proof.
  intros s [Hlo Hhi]. unfold drand_q.
  assert (Hm : rnd_mult = 1389796) by reflexivity.
  assert (HM : rnd_mod = 2147483647) by reflexivity.
  rewrite Hm, HM in *. change (2 ^ 53) with 9007199254740992. change (2 ^ 31) with 2147483648.
  split; [nia|].
  split; [apply Z.div_pos; nia|].
  apply Z.div_lt_upper_bound; nia.
Qed.

Lemma irand_range_lemma : forall s size, seed_ok s -> 0 < size -> 0 <= irand s size < size.
Proof.
  intros s size Hs Hsz. unfold irand.
  destruct (next_seed_ok_lemma s Hs) as [Hlo Hhi]. pose proof mod_pos as HM.
  split; [apply Z.div_pos; nia|].
  apply Z.div_lt_upper_bound; nia.
Qed.

Lemma stream_ok_lemma : forall n s, seed_ok s -> Forall seed_ok (stream n s).
Proof.
  induction n as [|n IH]; intros s Hs; simpl; constructor.
  - apply next_seed_ok_lemma; exact Hs.
  - apply IH. apply next_seed_ok_lemma; exact Hs.
Qed.

Lemma stream_length : forall n s, length (stream n s) = n.
Proof. induction n; intros; simpl; auto. Qed.

Lemma default_seed_ok_lemma : seed_ok default_seed.
Proof. unfold seed_ok. split; reflexivity. Qed.
