(* C23 — the facts the translator (translate/repro_facts.py) reads off the source text, and the RULES that classify
   them.  A fact is one syntactic occurrence of a primitive through which the address-space layout (or another quantity
   that varies from run to run) could reach the behaviour of the executable, with the attributes the translator
   observed.  The translator does not decide anything: `classify` below does, and Properties_C23.v proves by
   computation over the regenerated list that no fact is classified Leaking unless it is a recorded known finding.

   Correspondence with the abstract machine (Machine.v):
     KOrderedPtrContainer + AIterated/AOrderQuery      CIter ByAddress        (LIterByAddress)
     KHashedPtrContainer + AIterated + AAddressHash    CIter ByHash           (LIterByHash)
     KPtrOrderFunctor, KSortPtr                        EAddrLt                (LAddrOrder)
     KPtrHashFunctor, KPtrToInt                        ECast                  (LAddrCast)
     KPtrPrint                                         COutAddr               (LAddrPrint)
     KEntropyRoot / KEntropyUse, KLibcSrand ASeedOther, KEngine ASeedOther, KGetenv, KThread      CEntropy (LEntropy)
     (reading uninitialised memory, CAllocUninit, has no syntactic counterpart: not scanned — see design/C23.md)
   Containers keyed by pointers that are only inserted into / looked up (AMembershipOnly) correspond to CMapPut /
   CMapGet / CMapHas, which are safe. *)
From Coq Require Import String List Bool.
From OsmtV.Repro Require Import Gen_Random Prng Machine.
Import ListNotations.
Open Scope string_scope.

Inductive kind :=
| KOrderedPtrContainer   (* std::set/map/multiset/multimap/priority_queue with a pointer key *)
| KHashedPtrContainer    (* std::unordered_*/minisat Map with a pointer key *)
| KPtrOrderFunctor       (* std::less/greater over a pointer type *)
| KPtrHashFunctor        (* std::hash over a pointer type *)
| KSortPtr               (* sort-like call over pointers, or whose element type / comparator cannot be resolved *)
| KPtrToInt              (* reinterpret_cast to an integer type, C cast of a pointer to an integer type *)
| KPtrPrint              (* %p, streaming of a pointer *)
| KEntropyRoot           (* call of time, clock, getrusage, getpid, chrono now, random_device ... *)
| KEntropyUse            (* a statement that consumes a value derived from a root *)
| KLibcRand              (* rand() *)
| KLibcSrand             (* srand(x) *)
| KEngine                (* a random engine of the standard library *)
| KGetenv
| KThread.

Inductive attr :=
(* where the occurrence lives *)
| AOutOfBinary           (* under src/parallel: compiled only with PARALLEL=ON into another executable *)
| ACompiledOut           (* under a preprocessor condition that is false in the default build *)
| AHookGuard             (* under ifdef OPENSMT_VERIF: verification hook of this machinery *)
| ADeadCode              (* enclosing class / function referenced nowhere, or all its call sites compiled out *)
(* uses of a declared container *)
| AMembershipOnly | AIterated | AOrderQuery | AEscapes | ACustomCompare | AContentHash | AAddressHash
(* sinks *)
| ASinkStderr | ASinkStdout | ASinkBuffer | ASinkStream | ASinkCompare | ASinkReturn | ASinkAssign | ASinkArg
| ASinkNeutral | ASinkUnknown
(* seeds *)
| ASeedConst | ASeedConfig | ASeedDefault | ASeedOther
(* sort-like calls *)
| AElemPointer | AElemUnresolved | ACmpOnAddress | ACmpUnresolved
(* casts *)
| AOperandPointer | AOperandUnresolved
(* roots *)
| ATraced                (* the translator followed the value to its consuming statements (separate KEntropyUse facts) *)
(* judgement *)
| AAllow.                (* matched by an entry of translate/repro_allowlist.txt *)

Record fact := mkFact {
  f_file : string; f_line : nat; f_func : string; f_ident : string; f_kind : kind; f_attrs : list attr }.

Definition attr_eqb (a b : attr) : bool :=
  match a, b with
  | AOutOfBinary, AOutOfBinary | ACompiledOut, ACompiledOut | AHookGuard, AHookGuard | ADeadCode, ADeadCode
  | AMembershipOnly, AMembershipOnly | AIterated, AIterated | AOrderQuery, AOrderQuery | AEscapes, AEscapes
  | ACustomCompare, ACustomCompare | AContentHash, AContentHash | AAddressHash, AAddressHash
  | ASinkStderr, ASinkStderr | ASinkStdout, ASinkStdout | ASinkBuffer, ASinkBuffer | ASinkStream, ASinkStream
  | ASinkCompare, ASinkCompare | ASinkReturn, ASinkReturn | ASinkAssign, ASinkAssign | ASinkArg, ASinkArg
  | ASinkNeutral, ASinkNeutral | ASinkUnknown, ASinkUnknown
  | ASeedConst, ASeedConst | ASeedConfig, ASeedConfig | ASeedDefault, ASeedDefault | ASeedOther, ASeedOther
  | AElemPointer, AElemPointer | AElemUnresolved, AElemUnresolved | ACmpOnAddress, ACmpOnAddress | ACmpUnresolved, ACmpUnresolved
  | AOperandPointer, AOperandPointer | AOperandUnresolved, AOperandUnresolved
  | ATraced, ATraced | AAllow, AAllow => true
  | _, _ => false
  end.

Definition has (a : attr) (f : fact) : bool := existsb (attr_eqb a) (f_attrs f).

Inductive verdict := Benign (rule : string) | Leaking (primitive : leak) (why : string).

(* The rules, in order.  Every Benign carries the name of the rule that design/C23.md explains. *)
Definition classify (f : fact) : verdict :=
  if has AOutOfBinary f then Benign "R1 not part of the opensmt executable (src/parallel, PARALLEL=OFF)"
  else if has ACompiledOut f then Benign "R2 compiled out in the default build"
  else if has ADeadCode f then Benign "R3 unreachable: enclosing class/function unreferenced or all call sites compiled out"
  else if has AAllow f then Benign "R4 allowlist entry (translate/repro_allowlist.txt)"
  else match f_kind f with
  | KOrderedPtrContainer =>
      if has AIterated f || has AOrderQuery f then Leaking LIterByAddress "pointer-ordered container is iterated or queried by order"
      else if has AEscapes f then Leaking LIterByAddress "pointer-ordered container escapes the uses the scan can follow"
      else if has AMembershipOnly f then Benign "R5 pointer-keyed container used for membership / lookup only"
      else Leaking LIterByAddress "uses not understood"
  | KHashedPtrContainer =>
      if has AEscapes f then Leaking LIterByHash "pointer-hashed container escapes the uses the scan can follow"
      else if has AIterated f || has AOrderQuery f then
        (if has AContentHash f then Benign "R6 iteration order determined by a hash of the pointee's content, not of the address"
         else Leaking LIterByHash "container hashed by address is iterated")
      else if has AMembershipOnly f then Benign "R5 pointer-keyed container used for membership / lookup only"
      else Leaking LIterByHash "uses not understood"
  | KPtrOrderFunctor => Leaking LAddrOrder "ordering functor over addresses"
  | KPtrHashFunctor => Leaking LAddrCast "hash functor over addresses"
  | KSortPtr => Leaking LAddrOrder "sort-like call over pointers, or element type / comparator unresolved"
  | KPtrToInt =>
      if has AHookGuard f then Benign "R7 verification hook (instance label in the trace file)"
      else Leaking LAddrCast "pointer converted to an integer"
  | KPtrPrint =>
      if has AHookGuard f then Benign "R7 verification hook (instance label in the trace file)"
      else if has ASinkStderr f then Benign "R8 printed on stderr only"
      else Leaking LAddrPrint "address printed on a stream that may be stdout"
  | KEntropyRoot =>
      if has ATraced f then Benign "R9 root whose value is followed to its consumers (KEntropyUse facts)"
      else Leaking LEntropy "entropy source whose value could not be followed"
  | KEntropyUse =>
      if has ASinkStdout f then Leaking LEntropy "run-dependent value printed on stdout"
      else if has ASinkUnknown f then Leaking LEntropy "run-dependent value consumed by a statement the scan does not understand"
      else if has ASinkCompare f then Leaking LEntropy "run-dependent value decides a branch"
      else if has ASinkStream f then Leaking LEntropy "run-dependent value written to a stream that may be stdout"
      else if has ASinkBuffer f then Leaking LEntropy "run-dependent value formatted into a buffer"
      else if has ASinkStderr f then Benign "R8 printed on stderr only"
      else if has ASinkAssign f || has ASinkReturn f || has ASinkArg f then Benign "R10 propagation step (the consumers are separate facts)"
      else if has ASinkNeutral f then Benign "R11 value discarded, released or null-checked"
      else Leaking LEntropy "no sink attribute"
  | KLibcRand => Benign "R12 libc rand(): deterministic given the srand history (every srand fact is classified separately)"
  | KLibcSrand =>
      if has ASeedConst f || has ASeedConfig f then Benign "R13 seeded with a literal or with the configured :random-seed"
      else Leaking LEntropy "srand with an argument that is neither a literal nor the configured seed"
  | KEngine =>
      if has ASeedOther f then Leaking LEntropy "random engine seeded from something else than a literal / the configured seed"
      else Benign "R13 engine with the standard's fixed default seed, a literal or the configured seed"
  | KGetenv =>
      if has AHookGuard f then Benign "R7 verification hook (name of the trace file)"
      else Leaking LEntropy "behaviour depends on the environment"
  | KThread => Leaking LEntropy "thread creation: scheduling is not reproducible"
  end.

Definition is_benign (v : verdict) : bool := match v with Benign _ => true | Leaking _ _ => false end.

(* Known findings: leaks that are genuine defects of the code (known_findings/C23.json), keyed by
   enclosing function / identifier.  While the defect is in the tree the fact is present and leaking; after a repair the
   fact disappears or becomes benign; the obligation below holds in both situations. *)
Definition fact_key (f : fact) : string := f_func f ++ "/" ++ f_ident f.
Definition known_leaks : list string :=
  [ "MainSolver::check/query_timer";       (* :time-queries printed the accumulated CPU time on stdout (repaired: /repo aebd21d) *)
    "MainSolver::check/getTime()";
    "ConfValue/union:strval|numval" ].     (* option values: a symbol/string value is read back through .numval = address bits *)

Definition is_known (f : fact) : bool := existsb (String.eqb (fact_key f)) known_leaks.
Definition fact_ok (f : fact) : bool := is_benign (classify f) || is_known f.
Definition unexplained (fs : list fact) : list fact := filter (fun f => negb (fact_ok f)) fs.
Definition leaking_lines (fs : list fact) : list (string * nat) :=
  map (fun f => (f_file f, f_line f)) (filter (fun f => negb (is_benign (classify f))) fs).

Lemma fact_ok_sound : forall fs f, forallb fact_ok fs = true -> In f fs ->
  (exists r, classify f = Benign r) \/ In (fact_key f) known_leaks.
Proof.
  intros fs f H Hin. rewrite forallb_forall in H. specialize (H f Hin). unfold fact_ok in H.
  apply orb_true_iff in H. destruct H as [H|H].
  - left. destruct (classify f) as [r|p w]; [exists r; reflexivity|discriminate].
  - right. unfold is_known in H. apply existsb_exists in H. destruct H as [k [Hk He]].
    apply String.eqb_eq in He. subst k. exact Hk.
Qed.
