(* C22: what a theory solver may answer, as a function of the literals that are asserted NOW.

   src/tsolvers/TSolverHandler.cc:30-45, 57-63, 75-86   assertLit (push + assert), declareAtom, check
   src/tsolvers/THandler.cc:61-82                       THandler::backtrack: pops one backtrack point per
                                                        *declared* theory literal above the target level
   src/tsolvers/THandler.cc:84-116                      THandler::assertLits: pushes every trail literal on its
                                                        stack, asserts the declared theory literals only

   The specification machine keeps the declared atoms and the stack of asserted literals; a verdict is
   judged against the current stack only.  The bound stack of the LA solver (Th/BoundStack.v) is proved
   to be a function of that stack (refinement of the "retracted literals leave no trace" clause).
   Definitions and proofs. *)
From Coq Require Import Arith List Bool Lia.
From OsmtV.Th Require Import BoundStack.
Import ListNotations.

Section Spec.
  Variable atom : Type.
  Definition lit : Type := (atom * bool)%type.
  (* theory satisfiability of a set of literals *)
  Variable t_sat : list lit -> Prop.
  (* a complete check of this theory is a decision (LRA, EUF, arrays, difference logic) *)
  Variable complete_theory : bool.

  Inductive op := Declare (a : atom) | Assert (l : lit) | Backtrack (n : nat) | Check (complete : bool).

  Record state := mkState { declared : list atom; stack : list lit }.
  Definition init : state := mkState [] [].

  Definition step (s : state) (o : op) : state :=
    match o with
    | Declare a => mkState (a :: declared s) (stack s)
    | Assert l => mkState (declared s) (l :: stack s)
    | Backtrack n => mkState (declared s) (skipn n (stack s))
    | Check _ => s
    end.
  Definition run (ops : list op) : state := fold_left step ops init.

  Inductive verdict := VSat | VUnsat | VUnknown.

  (* the verdicts the property allows in state s (expl: the explanation returned with VUnsat) *)
  Definition verdict_ok (s : state) (complete : bool) (v : verdict) (expl : list lit) : Prop :=
    match v with
    | VUnsat => incl expl (stack s) /\ ~ t_sat expl
    | VSat => complete = true -> complete_theory = true -> t_sat (stack s)
    | VUnknown => True
    end.

  (* the current literal stack, computed without the machine *)
  Definition stack_step (l : list lit) (o : op) : list lit :=
    match o with Assert x => x :: l | Backtrack n => skipn n l | _ => l end.
  Definition current_lits (ops : list op) : list lit := fold_left stack_step ops [].

  Lemma run_stack_gen ops : forall s, stack (fold_left step ops s) = fold_left stack_step ops (stack s).
  Proof. induction ops as [|o r IH]; intro s; simpl; [reflexivity|]. rewrite IH. destruct o; reflexivity. Qed.

  Lemma run_stack ops : stack (run ops) = current_lits ops.
  Proof. apply run_stack_gen. Qed.

  Lemma tsolver_spec_history_independent_lemma : forall ops1 ops2,
    current_lits ops1 = current_lits ops2 ->
    forall c v e, verdict_ok (run ops1) c v e <-> verdict_ok (run ops2) c v e.
  Proof.
    intros ops1 ops2 E c v e. unfold verdict_ok. rewrite !run_stack, E. reflexivity.
  Qed.

  (* an explanation that mentions a retracted literal is never allowed *)
  Lemma stale_literal_rejected_lemma : forall ops c e l,
    In l e -> ~ In l (current_lits ops) -> ~ verdict_ok (run ops) c VUnsat e.
  Proof. intros ops c e l Hin Hnot [Hincl _]. apply Hnot. rewrite <- run_stack. apply Hincl. exact Hin. Qed.
End Spec.

(* ---- THandler::backtrack: how many backtrack points are popped ---- *)
Section THandlerCount.
  Variable term : Type.
  (* counted e := e is neither the term true nor false, and its variable is declared (THandler.cc:70-74);
     exactly the literals for which assertLits called assertLit, i.e. pushed a backtrack point (THandler.cc:103-111) *)
  Variable counted : term -> bool.

  (* THandler::stack, last pushed first; the theory solvers hold one backtrack point per counted entry *)
  Definition tpoints (st : list term) : nat := length (filter counted st).

  (* backtrack(lev): pop while size > lev, count the counted entries *)
  Definition popped (st : list term) (lev : nat) : list term := firstn (length st - lev) st.
  Definition backtrack_count (st : list term) (lev : nat) : nat := length (filter counted (popped st lev)).
  Definition after_backtrack (st : list term) (lev : nat) : list term := skipn (length st - lev) st.

  Lemma filter_firstn_skipn (k : nat) : forall st : list term,
    filter counted st = filter counted (firstn k st) ++ filter counted (skipn k st).
  Proof.
    intro st. rewrite <- filter_app. rewrite firstn_skipn. reflexivity.
  Qed.

  (* popping backtrack_count points leaves exactly the points of the literals that remain *)
  Lemma thandler_backtrack_count_lemma : forall st lev,
    tpoints st - backtrack_count st lev = tpoints (after_backtrack st lev) /\
    skipn (backtrack_count st lev) (filter counted st) = filter counted (after_backtrack st lev) /\
    length (after_backtrack st lev) = Nat.min lev (length st).
  Proof.
    intros st lev. unfold tpoints, backtrack_count, after_backtrack, popped.
    set (k := length st - lev). pose proof (filter_firstn_skipn k st) as E.
    split; [|split].
    - rewrite E. rewrite app_length. lia.
    - rewrite E. rewrite skipn_app. rewrite skipn_all. rewrite Nat.sub_diag. reflexivity.
    - rewrite skipn_length. unfold k. lia.
  Qed.
End THandlerCount.

(* ---- refinement: the LA bound stack is a function of the specification's literal stack ---- *)
(* an LA operation sequence seen as operations of the specification machine (atoms = bounds; the sign is
   already resolved into the bound) *)
Definition lop_to_op (o : lop) : op bound :=
  match o with LAssert b => Assert bound (b, true) | LBack n => Backtrack bound n end.

Lemma lstack_is_current_lits ops :
  map (fun b => (b, true)) (lstack ops) = current_lits bound (map lop_to_op ops).
Proof.
  unfold lstack, current_lits.
  assert (G : forall l, map (fun b => (b, true)) (fold_left lstack_step ops l)
                        = fold_left (stack_step bound) (map lop_to_op ops) (map (fun b => (b, true)) l)).
  { induction ops as [|o r IH]; intro l; simpl; [reflexivity|]. rewrite IH. destruct o; simpl; [reflexivity|].
    rewrite skipn_map. reflexivity. }
  apply (G []).
Qed.

Lemma boundstack_refines_spec_lemma st ops1 ops2 :
  lwf_from 0 ops1 = true -> lwf_from 0 ops2 = true ->
  current_lits bound (map lop_to_op ops1) = current_lits bound (map lop_to_op ops2) ->
  bs_eq (lexec st ops1 bs_init) (lexec st ops2 bs_init).
Proof.
  intros H1 H2 E. apply boundstack_history_independent_lemma; try assumption.
  rewrite <- !lstack_is_current_lits in E.
  revert E. generalize (lstack ops1) (lstack ops2). induction l as [|a l IH]; intros [|b m] E; simpl in E; try discriminate; [reflexivity|].
  inversion E; subst. f_equal. apply IH. assumption.
Qed.
