(* C26: the explanation of a violated tableau row is a Farkas certificate.

   Model of   /repo/src/tsolvers/lasolver/Simplex.cc   Simplex::getConflictingBounds  (lines ~311-333),
              Simplex::assertBound's direct bound clash (lines ~236-247, LRAModel::boundTriviallyUnsatisfied),
              /repo/src/tsolvers/lasolver/Delta.h          delta-rationals  r + d*delta, lexicographic order,
              /repo/src/tsolvers/lasolver/LASolver.cc      addBound / getBoundsValueForRealVar / ...ForIntVar
                                                           (literal <-> bound), storeExplanation.

   LA variables (LVRef) are columns/rows of the tableau; [def v] is the polynomial over the term variables that
   the LA variable v stands for (v itself for a column variable, the registered sum for a slack).            *)
From Coq Require Import QArith Qreduction Qround List Bool PArith ZArith Lia Lqa Setoid.
From OsmtV.Th Require Import Farkas LiaCheck.
Import ListNotations.
Local Open Scope Q_scope.
Local Arguments scale : simpl never.
Local Arguments Qfloor : simpl never.
Local Arguments Qceiling : simpl never.

(* ---- delta-rationals ------------------------------------------------------------------------ *)
Record delta := mkD { dr : Q; dd : Q }.
Definition dlt (x y : delta) : Prop := dr x < dr y \/ (dr x == dr y /\ dd x < dd y).      (* Delta.h operator< *)
Definition dle (x y : delta) : Prop := ~ dlt y x.                                         (* operator<= = !(b<a) *)
Definition deq (x y : delta) : Prop := dr x == dr y /\ dd x == dd y.
Definition dzero := mkD 0 0.
Definition dadd (x y : delta) := mkD (dr x + dr y) (dd x + dd y).
Definition dscale (k : Q) (x : delta) := mkD (k * dr x) (k * dd x).
Definition dopp (x : delta) := mkD (- dr x) (- dd x).

Lemma dle_alt : forall x y, dle x y <-> dr x < dr y \/ (dr x == dr y /\ dd x <= dd y).
Proof.
  intros x y. unfold dle, dlt. split.
  - intros H. destruct (Qlt_le_dec (dr x) (dr y)) as [Hl|Hl]; [left; exact Hl|].
    right. destruct (Qlt_le_dec (dr y) (dr x)) as [Hl2|Hl2]; [exfalso; apply H; left; exact Hl2|].
    split; [lra|]. destruct (Qlt_le_dec (dd y) (dd x)) as [Hl3|Hl3]; [|exact Hl3].
    exfalso. apply H. right. split; [lra | exact Hl3].
  - intros [H|[H1 H2]] [H3|[H3 H4]]; lra.
Qed.

(* ---- bounds ---------------------------------------------------------------------------------- *)
Inductive btype := Upper | Lower.
Record bound := mkB { bvar : var; bty : btype; bval : delta }.

(* A bound as a linear constraint over the term variables: an upper bound (c,k) is strict iff k < 0, a lower
   bound iff k > 0 (LASolver::getBoundsValueForRealVar: v < c has UB (c,-1); v > c has LB (c,+1)). *)
Definition bound_constr (def : var -> lin) (b : bound) : constr :=
  match bty b with
  | Upper => mkC (def (bvar b)) (if Qlt_bool (dd (bval b)) 0 then Lt else Le) (dr (bval b))
  | Lower => mkC (scale (-1) (def (bvar b))) (if Qlt_bool 0 (dd (bval b)) then Lt else Le) (- dr (bval b))
  end.

(* ... and this is exactly the delta-semantics of the bound for a real value *)
Lemma bound_constr_holds_iff : forall def a b,
  holds a (bound_constr def b) <->
  match bty b with
  | Upper => dle (mkD (eval a (def (bvar b))) 0) (bval b)
  | Lower => dle (bval b) (mkD (eval a (def (bvar b))) 0)
  end.
Proof.
  intros def a [v t [c k]]. unfold bound_constr, holds. simpl.
  destruct t; simpl; rewrite dle_alt; simpl.
  - destruct (Qlt_bool k 0) eqn:E; simpl.
    + apply Qlt_bool_iff in E. split; intros H; [left; exact H | destruct H as [H|[H1 H2]]; [exact H | lra]].
    + assert (~ k < 0) by (intros Hk; apply Qlt_bool_iff in Hk; congruence).
      split; intros H'.
      * destruct (Qlt_le_dec (eval a (def v)) c); [left; assumption | right; split; lra].
      * destruct H' as [H'|[H1 H2]]; lra.
  - destruct (Qlt_bool 0 k) eqn:E; simpl; rewrite eval_scale.
    + apply Qlt_bool_iff in E. split; intros H; [left; lra | destruct H as [H|[H1 H2]]; lra].
    + assert (~ 0 < k) by (intros Hk; apply Qlt_bool_iff in Hk; congruence).
      split; intros H'.
      * destruct (Qlt_le_dec c (eval a (def v))); [left; assumption | right; split; lra].
      * destruct H' as [H'|[H1 H2]]; lra.
Qed.

(* signed value of a bound: what its constraint has on the right-hand side, as a delta-rational *)
Definition sval (b : bound) : delta := match bty b with Upper => bval b | Lower => dopp (bval b) end.

Definition expl := list (bound * Q).
Fixpoint dsum (e : expl) : delta :=
  match e with [] => dzero | (b, k) :: r => dadd (dscale k (sval b)) (dsum r) end.

Definition expl_constrs (def : var -> lin) (e : expl) : list constr := map (fun p => bound_constr def (fst p)) e.
Definition expl_coeffs (e : expl) : list Q := map snd e.

Lemma rhs_bound_constr : forall def b, rhs (bound_constr def b) = dr (sval b).
Proof. intros def [v [] [c k]]; reflexivity. Qed.

Lemma weighted_rhs_dsum : forall def e, weighted_rhs (expl_constrs def e) (expl_coeffs e) == dr (dsum e).
Proof.
  induction e as [|[b k] e IH]; simpl.
  - reflexivity.
  - rewrite IH, rhs_bound_constr. reflexivity.
Qed.

Lemma no_strict_dd_nonneg : forall def e,
  Forall (fun p => 0 < snd p) e -> some_strict (expl_constrs def e) = false -> 0 <= dd (dsum e).
Proof.
  induction e as [|[b k] e IH]; simpl; intros Hpos Hs.
  - lra.
  - inversion Hpos as [|? ? Hk Hpos']; subst. simpl in Hk.
    apply orb_false_iff in Hs. destruct Hs as [Hs1 Hs2].
    specialize (IH Hpos' Hs2).
    assert (0 <= dd (sval b)).
    { destruct b as [v t [c d]]. unfold bound_constr, sval in *. simpl in *. destruct t; simpl in *.
      - destruct (Qlt_bool d 0) eqn:E; [discriminate|].
        destruct (Qlt_le_dec d 0) as [Hl|Hl]; [apply Qlt_bool_iff in Hl; congruence | exact Hl].
      - destruct (Qlt_bool 0 d) eqn:E; [discriminate|].
        destruct (Qlt_le_dec 0 d) as [Hl|Hl]; [apply Qlt_bool_iff in Hl; congruence | lra]. }
    assert (0 <= k * dd (sval b)) by (apply Qmult_le_0_compat; lra).
    lra.
Qed.

(* The arithmetic core: positive weights, all variables cancel, the delta-sum of the bounds is negative
   ==> the certificate is accepted. *)
Lemma negative_dsum_accepted : forall def e,
  Forall (fun p => 0 < snd p) e ->
  (forall a, eval a (weighted_lhs (expl_constrs def e) (expl_coeffs e)) == 0) ->
  dlt (dsum e) dzero ->
  farkas_check (expl_constrs def e) (expl_coeffs e) = true.
Proof.
  intros def e Hpos Hz Hneg. apply farkas_check_complete.
  - unfold expl_constrs, expl_coeffs. rewrite !map_length. reflexivity.
  - clear - Hpos. induction e as [|[b k] e IH]; simpl; constructor.
    + inversion Hpos; subst. simpl in *. destruct b as [v [] [c d]]; simpl.
      * destruct (Qlt_bool d 0); assumption.
      * destruct (Qlt_bool 0 d); assumption.
    + apply IH. inversion Hpos; assumption.
  - exact Hz.
  - destruct (some_strict (expl_constrs def e)) eqn:Hs.
    + rewrite weighted_rhs_dsum. destruct Hneg as [H|[H _]]; simpl in H; lra.
    + rewrite weighted_rhs_dsum. destruct Hneg as [H|[H1 H2]]; simpl in *; [exact H|].
      pose proof (no_strict_dd_nonneg def e Hpos Hs). lra.
Qed.

(* ---- Simplex::getConflictingBounds ------------------------------------------------------------ *)
Section Row.
  Variable def : var -> lin.
  Variables lb ub : var -> option delta.        (* model->readLBoundRef / readUBoundRef (None = no bound) *)

  Definition pick (upper : bool) (y : var) : option bound :=
    if upper then option_map (mkB y Upper) (ub y) else option_map (mkB y Lower) (lb y).

  (* for (term : row): isNegative(coeff) ? (conflictOnLower ? LB : UB , -coeff) : (conflictOnLower ? UB : LB , coeff) *)
  Fixpoint row_expl (onLower : bool) (row : list (var * Q)) : option expl :=
    match row with
    | [] => Some []
    | (y, c) :: r =>
        let neg := Qlt_bool c 0 in
        let ob := if neg then pick (negb onLower) y else pick onLower y in
        match ob, row_expl onLower r with
        | Some b, Some es => Some ((b, if neg then - c else c) :: es)
        | _, _ => None
        end
    end.

  Definition getConflictingBounds (x : var) (row : list (var * Q)) (onLower : bool) : option expl :=
    match pick (negb onLower) x, row_expl onLower row with
    | Some bx, Some es => Some ((bx, 1) :: es)
    | _, _ => None
    end.

  (* the extreme value the row can reach within the bounds of the non-basic variables:
     onLower: the maximum  sum_{c>0} c*Ub(y) + sum_{c<0} c*Lb(y);  onUpper: the minimum *)
  Fixpoint row_extreme (onLower : bool) (row : list (var * Q)) : option delta :=
    match row with
    | [] => Some dzero
    | (y, c) :: r =>
        let neg := Qlt_bool c 0 in
        let ov := if neg then (if onLower then lb y else ub y) else (if onLower then ub y else lb y) in
        match ov, row_extreme onLower r with
        | Some v, Some s => Some (dadd (dscale c v) s)
        | _, _ => None
        end
    end.

  Definition row_value (a : assign) (row : list (var * Q)) : Q :=
    fold_right (fun p s => snd p * eval a (def (fst p)) + s) 0 row.

  Definition violated (x : var) (row : list (var * Q)) (onLower : bool) : Prop :=
    match (if onLower then lb x else ub x), row_extreme onLower row with
    | Some bx, Some m => if onLower then dlt m bx else dlt bx m
    | _, _ => False
    end.

  Lemma row_expl_pos : forall onLower row es,
    Forall (fun p => ~ snd p == 0) row -> row_expl onLower row = Some es -> Forall (fun p => 0 < snd p) es.
  Proof.
    induction row as [|[y c] row IH]; simpl; intros es Hnz H.
    - inversion H. constructor.
    - inversion Hnz as [|? ? Hc Hnz']; subst. simpl in Hc.
      destruct (Qlt_bool c 0) eqn:E;
        match type of H with match ?o with _ => _ end = _ => destruct o as [b|]; [|discriminate] end;
        destruct (row_expl onLower row) as [es'|]; try discriminate; inversion H; subst;
        (constructor; [simpl | apply IH; [assumption | reflexivity]]).
      + apply Qlt_bool_iff in E. lra.
      + assert (~ c < 0) by (intros Hk; apply Qlt_bool_iff in Hk; congruence). lra.
  Qed.

  Lemma row_expl_lhs : forall a onLower row es,
    row_expl onLower row = Some es ->
    eval a (weighted_lhs (expl_constrs def es) (expl_coeffs es)) ==
      (if onLower then 1 else -1) * row_value a row.
  Proof.
    induction row as [|[y c] row IH]; simpl; intros es H.
    - inversion H. unfold weighted_lhs. simpl. destruct onLower; ring.
    - destruct (Qlt_bool c 0) eqn:E;
        match type of H with match ?o with _ => _ end = _ => destruct o as [b|] eqn:Eb; [|discriminate] end;
        destruct (row_expl onLower row) as [es'|]; try discriminate; inversion H; subst;
        specialize (IH es' eq_refl);
        unfold weighted_lhs in *; simpl; rewrite eval_app, IH, eval_scale;
        unfold pick in Eb; destruct onLower; simpl in Eb;
        match type of Eb with option_map _ ?o = _ => destruct o; [|discriminate] end;
        inversion Eb; subst; simpl; try rewrite eval_scale; ring.
  Qed.

  Lemma row_expl_dsum : forall onLower row es m,
    row_expl onLower row = Some es -> row_extreme onLower row = Some m ->
    deq (dsum es) (if onLower then m else dopp m).
  Proof.
    induction row as [|[y c] row IH]; simpl; intros es m H Hm.
    - inversion H; inversion Hm. destruct onLower; split; simpl; ring.
    - destruct (Qlt_bool c 0) eqn:E;
        match type of H with match ?o with _ => _ end = _ => destruct o as [b|] eqn:Eb; [|discriminate] end;
        destruct (row_expl onLower row) as [es'|]; try discriminate; inversion H; subst;
        match type of Hm with match ?o with _ => _ end = _ => destruct o as [v|] eqn:Ev; [|discriminate] end;
        destruct (row_extreme onLower row) as [m'|]; try discriminate; inversion Hm; subst;
        destruct (IH es' m' eq_refl eq_refl) as [I1 I2];
        unfold pick in Eb; destruct onLower; simpl in Eb, Ev; rewrite Ev in Eb; inversion Eb; subst;
        split; simpl in *; unfold sval; simpl; try rewrite I1; try rewrite I2; ring.
  Qed.

  (* C26, main statement about the explanation function: for every row x = sum c_j y_j that holds as an identity
     over the term variables, with non-zero coefficients, if x is beyond its bound even at the extreme value the
     non-basic variables' bounds allow (the situation in which Simplex::checkSimplex finds no pivot), then the
     bounds and coefficients returned by getConflictingBounds pass the verified Farkas checker. *)
  Theorem row_explanation_is_farkas : forall x row onLower E,
    (forall a, eval a (def x) == row_value a row) ->                  (* the tableau row holds *)
    Forall (fun p => ~ snd p == 0) row ->
    getConflictingBounds x row onLower = Some E ->
    violated x row onLower ->
    farkas_check (expl_constrs def E) (expl_coeffs E) = true.
  Proof.
    intros x row onLower E Hrow Hnz HE Hv. unfold getConflictingBounds in HE.
    destruct (pick (negb onLower) x) as [bx|] eqn:Ebx; [|discriminate].
    destruct (row_expl onLower row) as [es|] eqn:Ees; [|discriminate].
    inversion HE; subst; clear HE.
    unfold violated in Hv.
    apply negative_dsum_accepted.
    - constructor; [simpl; lra | eapply row_expl_pos; eassumption].
    - intros a. pose proof (row_expl_lhs a onLower row es Ees) as Hl.
      unfold weighted_lhs in *. simpl. rewrite eval_app, Hl, eval_scale.
      unfold pick in Ebx. destruct onLower; simpl in Ebx.
      + destruct (lb x); [|discriminate]. inversion Ebx; subst. simpl. rewrite eval_scale, Hrow. ring.
      + destruct (ub x); [|discriminate]. inversion Ebx; subst. simpl. rewrite Hrow. ring.
    - unfold pick in Ebx. destruct onLower; simpl in Ebx, Hv.
      + destruct (lb x) as [l|]; [|discriminate]. inversion Ebx; subst.
        destruct (row_extreme true row) as [m|] eqn:Em; [|contradiction].
        destruct (row_expl_dsum true row es m Ees Em) as [D1 D2].
        unfold dlt in *. simpl in *. unfold sval. simpl. rewrite D1, D2. simpl. destruct Hv as [Hv|[Hv1 Hv2]]; [left|right]; lra.
      + destruct (ub x) as [u|]; [|discriminate]. inversion Ebx; subst.
        destruct (row_extreme false row) as [m|] eqn:Em; [|contradiction].
        destruct (row_expl_dsum false row es m Ees Em) as [D1 D2].
        unfold dlt in *. simpl in *. unfold sval. simpl. rewrite D1, D2. simpl. destruct Hv as [Hv|[Hv1 Hv2]]; [left|right]; lra.
  Qed.

  (* so in particular no real assignment satisfies the explanation's bounds *)
  Corollary row_explanation_refutes : forall x row onLower E,
    (forall a, eval a (def x) == row_value a row) -> Forall (fun p => ~ snd p == 0) row ->
    getConflictingBounds x row onLower = Some E -> violated x row onLower ->
    forall a, ~ all_hold a (expl_constrs def E).
  Proof.
    intros. eapply farkas_check_sound. eapply row_explanation_is_farkas; eassumption.
  Qed.

  (* Why [violated] holds when checkSimplex gives up on x (findNonBasicForPivot* returns Undef):
     beta is the current assignment of delta-rationals; every non-basic y with c>0 is not strictly under its
     upper bound (c<0: not strictly over its lower bound) when x is below its lower bound; symmetric above. *)
  Definition stuck (beta : var -> delta) (onLower : bool) (row : list (var * Q)) : Prop :=
    Forall (fun p =>
      let y := fst p in let c := snd p in
      if Qlt_bool c 0
      then (if onLower then exists l, lb y = Some l /\ dle (beta y) l      (* not isModelStrictlyOverLowerBound *)
                        else exists u, ub y = Some u /\ dle u (beta y))    (* not isModelStrictlyUnderUpperBound *)
      else (if onLower then exists u, ub y = Some u /\ dle u (beta y)
                        else exists l, lb y = Some l /\ dle (beta y) l)) row.

  Definition beta_row (beta : var -> delta) (row : list (var * Q)) : delta :=
    fold_right (fun p s => dadd (dscale (snd p) (beta (fst p))) s) dzero row.

  Lemma dle_scale_pos : forall k x y, 0 < k -> dle x y -> dle (dscale k x) (dscale k y).
  Proof.
    intros k x y Hk H. rewrite dle_alt in *. simpl.
    destruct H as [H|[H1 H2]].
    - left. apply Qmult_lt_l; assumption.
    - right. split; [rewrite H1; reflexivity | apply Qmult_le_l; assumption].
  Qed.

  Lemma dle_scale_neg : forall k x y, k < 0 -> dle x y -> dle (dscale k y) (dscale k x).
  Proof.
    intros k x y Hk H. rewrite dle_alt in *. simpl.
    assert (Hk' : 0 < - k) by lra.
    destruct H as [H|[H1 H2]].
    - left. pose proof (proj2 (Qmult_lt_l (dr x) (dr y) (- k) Hk') H). lra.
    - right. split; [rewrite H1; reflexivity|].
      pose proof (proj2 (Qmult_le_l (dd x) (dd y) (- k) Hk') H2). lra.
  Qed.

  Lemma dle_add : forall x y x' y', dle x y -> dle x' y' -> dle (dadd x x') (dadd y y').
  Proof.
    intros x y x' y' H H'. rewrite dle_alt in *. simpl.
    destruct H as [H|[H1 H2]], H' as [H'|[H1' H2']]; [left; lra | left; lra | left; lra | right; split; lra].
  Qed.

  Lemma dle_refl : forall x, dle x x.
  Proof. intros x. rewrite dle_alt. right. split; [reflexivity | lra]. Qed.

  Lemma stuck_extreme : forall beta onLower row, Forall (fun p => ~ snd p == 0) row -> stuck beta onLower row ->
    exists m, row_extreme onLower row = Some m /\
              (if onLower then dle m (beta_row beta row) else dle (beta_row beta row) m).
  Proof.
    induction row as [|[y c] row IH]; simpl; intros Hnz Hs.
    - exists dzero. split; [reflexivity|]. destruct onLower; apply dle_refl.
    - inversion Hnz as [|? ? Hc Hnz']; subst. inversion Hs as [|? ? Hy Hs']; subst. simpl in Hc, Hy.
      destruct (IH Hnz' Hs') as [m [Em Hm]]. rewrite Em.
      destruct (Qlt_bool c 0) eqn:E.
      + apply Qlt_bool_iff in E.
        destruct onLower; destruct Hy as [v [Ev Hv]]; rewrite Ev; eexists; (split; [reflexivity|]).
        * apply dle_add; [apply dle_scale_neg; assumption | exact Hm].
        * apply dle_add; [apply dle_scale_neg; assumption | exact Hm].
      + assert (0 < c).
        { assert (~ c < 0) by (intros Hk; apply Qlt_bool_iff in Hk; congruence). lra. }
        destruct onLower; destruct Hy as [v [Ev Hv]]; rewrite Ev; eexists; (split; [reflexivity|]).
        * apply dle_add; [apply dle_scale_pos; assumption | exact Hm].
        * apply dle_add; [apply dle_scale_pos; assumption | exact Hm].
  Qed.

  Lemma dle_dlt_trans : forall x y z, dle x y -> dlt y z -> dlt x z.
  Proof.
    intros x y z H H'. rewrite dle_alt in H. unfold dlt in *.
    destruct H as [H|[H1 H2]], H' as [H'|[H1' H2']]; [left; lra | left; lra | left; lra | right; split; lra].
  Qed.

  Lemma dlt_dle_trans : forall x y z, dlt x y -> dle y z -> dlt x z.
  Proof.
    intros x y z H H'. rewrite dle_alt in H'. unfold dlt in *.
    destruct H as [H|[H1 H2]], H' as [H'|[H1' H2']]; [left; lra | left; lra | left; lra | right; split; lra].
  Qed.

  (* the state in which Simplex::checkSimplex calls getConflictingBounds implies [violated] *)
  Theorem stuck_row_violated : forall beta x row onLower,
    Forall (fun p => ~ snd p == 0) row ->
    deq (beta x) (beta_row beta row) ->                               (* value of the basic variable *)
    stuck beta onLower row ->                                          (* no pivot candidate *)
    (if onLower then exists l, lb x = Some l /\ dlt (beta x) l         (* isModelOutOfLowerBound x *)
                else exists u, ub x = Some u /\ dlt u (beta x)) ->
    violated x row onLower.
  Proof.
    intros beta x row onLower Hnz [Hb1 Hb2] Hs Hout.
    destruct (stuck_extreme beta onLower row Hnz Hs) as [m [Em Hm]].
    unfold violated. rewrite Em.
    destruct onLower; destruct Hout as [v [Ev Hv]]; rewrite Ev.
    - eapply dle_dlt_trans; [exact Hm|]. unfold dlt in *. rewrite <- Hb1, <- Hb2. exact Hv.
    - eapply dlt_dle_trans; [|exact Hm]. unfold dlt in *. rewrite <- Hb1, <- Hb2. exact Hv.
  Qed.
End Row.

(* ---- Simplex::assertBound: the new bound clashes with the opposite bound already held ---------- *)
(* LRAModel::boundTriviallyUnsatisfied: the bounds of a variable are sorted by value; a new upper bound with a
   smaller index and a different value than the current lower bound has a strictly smaller value. *)
Definition clash_expl (v : var) (newIsUpper : bool) (newv cur : delta) : expl :=
  if newIsUpper then [ (mkB v Lower cur, 1) ; (mkB v Upper newv, 1) ]
  else [ (mkB v Upper cur, 1) ; (mkB v Lower newv, 1) ].

Theorem bound_clash_is_farkas : forall (def : var -> lin) v (newIsUpper : bool) newv cur,
  (if newIsUpper then dlt newv cur else dlt cur newv) ->
  farkas_check (expl_constrs def (clash_expl v newIsUpper newv cur))
               (expl_coeffs (clash_expl v newIsUpper newv cur)) = true.
Proof.
  intros def v newIsUpper newv cur H. apply negative_dsum_accepted.
  - destruct newIsUpper; repeat constructor.
  - intros a. destruct newIsUpper; unfold weighted_lhs; simpl; rewrite !eval_app, !eval_scale; simpl;
      rewrite ?eval_scale; ring.
  - destruct newIsUpper; unfold dlt in *; simpl in *; unfold sval; simpl; destruct H as [H|[H1 H2]]; [left|right|left|right]; lra.
Qed.

(* ---- LASolver::addBound / getBoundsValue: the bounds of a literal -------------------------------- *)
(* atom  c <= s   where  s = +/- (the term of LA variable v)   [negated = laVarMapper.isNegated(s)]      *)
Definition int_floor (q : Q) : Q := inject_Z (Qfloor q).
Definition int_ceil (q : Q) : Q := inject_Z (Qceiling q).

(* getBoundsValue(v, c, strict) : (upper, lower) bound values for the inequality  v (< | <=) c  *)
Definition getBoundsValue (isInt : bool) (c : Q) (strict : bool) : delta * delta :=
  if isInt then
    if strict then (mkD (int_ceil (c - 1)) 0, mkD (int_ceil c) 0)
    else (mkD (int_floor c) 0, mkD (int_floor (c + 1)) 0)
  else
    if strict then (mkD c (-1), mkD c 0) else (mkD c 0, mkD c 1).

(* bound of the literal with the given polarity (LABoundRefPair {pos, neg}) *)
Definition literal_bound (isInt negated : bool) (v : var) (c : Q) (pol : bool) : bound :=
  if negated then
    let '(u, l) := getBoundsValue isInt (- c) false in
    if pol then mkB v Upper u else mkB v Lower l
  else
    let '(u, l) := getBoundsValue isInt c true in
    if pol then mkB v Lower l else mkB v Upper u.

Definition constr_equiv (c1 c2 : constr) : Prop :=
  cop c1 = cop c2 /\ rhs c1 == rhs c2 /\ forall a, eval a (lhs c1) == eval a (lhs c2).

(* The constraint of the literal's bound coincides with LiaCheck.lit_constraint on the printed term s:
   [sdef] is the linear form of s, equal to +/- def v. *)
Lemma Qfloor_unique : forall (x : Q) (z : Z), inject_Z z <= x -> x < inject_Z (z + 1) -> Qfloor x = z.
Proof.
  intros x z H1 H2. apply Z.le_antisymm.
  - assert (H : inject_Z (Qfloor x) < inject_Z (z + 1)) by (eapply Qle_lt_trans; [apply Qfloor_le | exact H2]).
    rewrite <- Zlt_Qlt in H. lia.
  - rewrite <- (Qfloor_Z z). apply Qfloor_resp_le. exact H1.
Qed.

Lemma Qfloor_plus_1 : forall x, Qfloor (x + 1) = (Qfloor x + 1)%Z.
Proof.
  intros x. apply Qfloor_unique.
  - rewrite inject_Z_plus. change (inject_Z 1) with 1. pose proof (Qfloor_le x). lra.
  - pose proof (Qlt_floor x) as H. rewrite !inject_Z_plus in *. change (inject_Z 1) with 1 in *. lra.
Qed.

Theorem literal_bound_constraint : forall (def : var -> lin) (isInt negated : bool) v c (pol : bool) sdef,
  (forall a, eval a sdef == (if negated then -1 else 1) * eval a (def v)) ->
  constr_equiv (bound_constr def (literal_bound isInt negated v c pol))
               (lit_constraint isInt (mkL sdef c pol)).
Proof.
  intros def isInt negated v c pol sdef Hs.
  assert (Hc1 : inject_Z (Qfloor (- c)) == - inject_Z (Qceiling c)).
  { unfold Qceiling. rewrite inject_Z_opp. ring. }
  assert (Hc2 : inject_Z (Qfloor (- c + 1)) == - inject_Z (Qceiling c) + 1).
  { rewrite Qfloor_plus_1, inject_Z_plus, Hc1. reflexivity. }
  assert (Hc3 : inject_Z (Qceiling (c - 1)) == inject_Z (Qceiling c) - 1).
  { unfold Qceiling.
    assert (E : Qfloor (- (c - 1)) = (Qfloor (- c) + 1)%Z).
    { rewrite <- Qfloor_plus_1. apply Qfloor_comp. ring. }
    rewrite E. rewrite !inject_Z_opp, inject_Z_plus. change (inject_Z 1) with 1. ring. }
  unfold literal_bound, getBoundsValue, lit_constraint, bound_constr, constr_equiv, int_floor, int_ceil.
  destruct isInt, negated, pol; simpl; (split; [reflexivity|]); (split; [lra|]);
    intros a; rewrite ?eval_scale, (Hs a); ring.
Qed.

(* ---- farkas_check does not depend on how the constraints are written ---------------------------- *)
Lemma farkas_check_equiv : forall cs cs' ks,
  Forall2 constr_equiv cs cs' -> farkas_check cs ks = true -> farkas_check cs' ks = true.
Proof.
  intros cs cs' ks Heq H.
  destruct (farkas_check_spec cs ks H) as (Hlen & Hco & Hz & Hr).
  assert (Hl' : length cs' = length ks).
  { rewrite <- Hlen. clear - Heq. induction Heq; simpl; congruence. }
  assert (Hs : some_strict cs' = some_strict cs).
  { clear - Heq. induction Heq as [|c c' cs cs' [Ho _] _ IH]; simpl; [reflexivity|]. rewrite IH, Ho. reflexivity. }
  assert (Hrhs : forall ks, weighted_rhs cs' ks == weighted_rhs cs ks).
  { clear - Heq. induction Heq as [|c c' cs cs' [_ [Hr _]] _ IH]; intros [|k ks]; simpl; try reflexivity.
    rewrite IH, Hr. reflexivity. }
  assert (Hlhs : forall a ks, eval a (weighted_lhs cs' ks) == eval a (weighted_lhs cs ks)).
  { clear - Heq. intros a. induction Heq as [|c c' cs cs' [_ [_ Hl]] _ IH]; intros [|k ks];
      unfold weighted_lhs in *; simpl; try reflexivity.
    rewrite !eval_app, !eval_scale. rewrite (IH ks), (Hl a). reflexivity. }
  apply farkas_check_complete.
  - exact Hl'.
  - clear - Heq Hco. revert cs' Heq. induction Hco as [|c k cs ks Hck _ IH]; intros cs' Heq; inversion Heq; subst.
    + constructor.
    + constructor; [|apply IH; assumption].
      match goal with Hc : constr_equiv c _ |- _ => destruct Hc as [Ho _]; rewrite <- Ho; exact Hck end.
  - intros a. rewrite Hlhs. apply Hz.
  - rewrite Hs. destruct (some_strict cs); rewrite Hrhs; exact Hr.
Qed.

(* LASolver::storeExplanation: each bound of the explanation is reported as the literal it was created for *)
Definition lit_of_bound (def : var -> lin) (isInt : bool) (b : bound) (l : lalit) : Prop :=
  exists negated : bool,
    b = literal_bound isInt negated (bvar b) (lconst l) (lpol l) /\
    forall a, eval a (lterm l) == (if negated then -1 else 1) * eval a (def (bvar b)).

(* End to end: the (literals, coefficients) LASolver reports for a violated row are accepted by the checker the
   tie runs on every emitted certificate (with the integer tightening in integer logics). *)
Theorem la_explanation_certified : forall def isInt (E : expl) (lits : list lalit),
  Forall2 (lit_of_bound def isInt) (map fst E) lits ->
  (isInt = true -> forallb (fun l => lin_integral (lterm l)) lits = true) ->
  farkas_check (expl_constrs def E) (expl_coeffs E) = true ->
  la_conflict_check isInt lits (expl_coeffs E) = true.
Proof.
  intros def isInt E lits HF Hint H. unfold la_conflict_check.
  apply andb_true_iff. split.
  - destruct isInt; simpl; [apply Hint; reflexivity | reflexivity].
  - eapply farkas_check_equiv; [|exact H].
    unfold expl_constrs. clear - HF. revert lits HF.
    induction E as [|[b k] E IH]; intros lits HF; inversion HF; subst; simpl; constructor.
    + match goal with Hl : lit_of_bound _ _ _ ?l |- _ => destruct Hl as [negated [Hb Hs]]; destruct l as [s c p] end.
      simpl in *. rewrite Hb at 1. apply literal_bound_constraint. exact Hs.
    + apply IH. assumption.
Qed.
