(* C22: the bound stack of the LA solver with its backtrack points.

   src/tsolvers/lasolver/LRAModel.h:28-33     int_lbounds / int_ubounds (per variable), bound_limits, bound_trace
   src/tsolvers/lasolver/LRAModel.cc:49-78    pushBound, popBounds
   src/tsolvers/lasolver/LRAModel.cc:97-129   readL/UBoundRef, pushBacktrackPoint, popBacktrackPoint,
                                              boundTriviallySatisfied, boundTriviallyUnsatisfied
   src/tsolvers/lasolver/Simplex.cc:229-254   Simplex::assertBound (conflict / nothing / pushBound)
   src/tsolvers/lasolver/LASolver.cc:412-465  LASolver::pushBacktrackPoint, popBacktrackPoints
   src/tsolvers/TSolverHandler.cc:30-45       TSolverHandler::assertLit: one backtrack point per asserted literal

   A bound is (id, variable, upper?) ; its position in the variable's sorted bound list and its value
   live in the bound store (they change when atoms are declared later: LABoundStore::allocBoundPairAndSort)
   and are looked up there whenever two bounds are compared.  Lists have their LAST pushed element first.
   Definitions and proofs. *)
From Coq Require Import Arith List Bool QArith Lia.
Import ListNotations.
Local Open Scope nat_scope.

Record bound := mkB { b_id : nat; b_var : nat; b_upper : bool }.

Record bstate := mkBS {
  lists : nat -> bool -> list bound;     (* int_ubounds[v] (true) / int_lbounds[v] (false) *)
  trace : list bound;                    (* bound_trace *)
  limits : list nat                      (* bound_limits *)
}.

Definition bs_eq (s t : bstate) : Prop :=
  (forall v u, lists s v u = lists t v u) /\ trace s = trace t /\ limits s = limits t.

Definition upd (f : nat -> bool -> list bound) (v : nat) (u : bool) (l : list bound) : nat -> bool -> list bound :=
  fun v' u' => if (v' =? v) && Bool.eqb u' u then l else f v' u'.

(* LRAModel::LRAModel / clear: bound_limits = [0] *)
Definition bs_init : bstate := mkBS (fun _ _ => []) [] [0].

Definition pushBound (s : bstate) (b : bound) : bstate :=
  mkBS (upd (lists s) (b_var b) (b_upper b) (b :: lists s (b_var b) (b_upper b))) (b :: trace s) (limits s).

Definition pushBacktrackPoint (s : bstate) : bstate :=
  mkBS (lists s) (trace s) (length (trace s) :: limits s).

(* one iteration of the loop of popBounds: the list of the variable of the last trace entry loses its
   last element; the shrink of bound_trace is folded into the loop *)
Definition pop_one (s : bstate) : bstate :=
  match trace s with
  | [] => s
  | b :: t => mkBS (upd (lists s) (b_var b) (b_upper b) (tl (lists s (b_var b) (b_upper b)))) t (limits s)
  end.
Fixpoint pop_n (k : nat) (s : bstate) : bstate :=
  match k with 0 => s | S k' => pop_n k' (pop_one s) end.
Definition popBounds (s : bstate) : bstate := pop_n (length (trace s) - hd 0 (limits s)) s.
Definition popBacktrackPoint (s : bstate) : bstate :=
  let s' := popBounds s in mkBS (lists s') (trace s') (tl (limits s')).

Definition push_bounds (s : bstate) (bs : list bound) : bstate := fold_left pushBound bs s.

(* current lower / upper bound of a variable: readLBoundRef / readUBoundRef (None: hasXBound false) *)
Definition cur_bound (s : bstate) (v : nat) (upper : bool) : option bound := hd_error (lists s v upper).

(* ---- the bound store: position in the sorted list and value (a delta-rational) of a bound id ---- *)
Definition bstore := nat -> nat * (Q * Q).
Definition st_idx (st : bstore) (b : bound) : nat := fst (st (b_id b)).
Definition val_neq (a b : Q * Q) : bool := negb (Qeq_bool (fst a) (fst b) && Qeq_bool (snd a) (snd b)).

Definition triv_sat (st : bstore) (s : bstate) (b : bound) : bool :=
  match cur_bound s (b_var b) (b_upper b) with
  | None => false
  | Some c => if b_upper b then st_idx st c <=? st_idx st b else st_idx st b <=? st_idx st c
  end.
Definition triv_unsat (st : bstore) (s : bstate) (b : bound) : bool :=
  match cur_bound s (b_var b) (negb (b_upper b)) with
  | None => false
  | Some c => (if b_upper b then st_idx st b <? st_idx st c else st_idx st c <? st_idx st b)
              && val_neq (snd (st (b_id b))) (snd (st (b_id c)))
  end.

(* TSolverHandler::assertLit -> LASolver::pushBacktrackPoint ; LASolver::assertLit -> Simplex::assertBound *)
Definition assert_bound (st : bstore) (s : bstate) (b : bound) : bstate :=
  let s1 := pushBacktrackPoint s in
  if triv_unsat st s1 b then s1 else if triv_sat st s1 b then s1 else pushBound s1 b.
Definition assert_conflicts (st : bstore) (s : bstate) (b : bound) : bool := triv_unsat st (pushBacktrackPoint s) b.

Fixpoint backtrack (n : nat) (s : bstate) : bstate :=
  match n with 0 => s | S k => backtrack k (popBacktrackPoint s) end.

(* ---- LRAModel-level operation sequences ---- *)
Inductive mop := MMark | MPush (b : bound) | MPop.
Definition mstep (s : bstate) (o : mop) : bstate :=
  match o with MMark => pushBacktrackPoint s | MPush b => pushBound s b | MPop => popBacktrackPoint s end.
Definition mexec (ops : list mop) (s : bstate) : bstate := fold_left mstep ops s.

(* the bracket structure of a sequence: frames of pushed bounds, innermost first, each with its last push first *)
Definition fstep (fs : list (list bound)) (o : mop) : list (list bound) :=
  match o, fs with
  | MMark, _ => [] :: fs
  | MPush b, f :: r => (b :: f) :: r
  | MPush b, [] => [[b]]
  | MPop, _ => tl fs
  end.
Definition frames_of (ops : list mop) : list (list bound) := fold_left fstep ops [[]].
(* never more pops than marks *)
Fixpoint wf_from (depth : nat) (ops : list mop) : bool :=
  match ops with
  | [] => true
  | MMark :: r => wf_from (S depth) r
  | MPush _ :: r => wf_from depth r
  | MPop :: r => match depth with 0 => false | S d => wf_from d r end
  end.
Definition well_bracketed (ops : list mop) : bool := wf_from 0 ops.

(* the state that pushing the frames, oldest first, produces *)
Fixpoint rebuild (fs : list (list bound)) (s0 : bstate) : bstate :=
  match fs with
  | [] => s0
  | [f] => push_bounds s0 (rev f)
  | f :: r => push_bounds (pushBacktrackPoint (rebuild r s0)) (rev f)
  end.

(* ---- literal-level sequences (THandler's discipline) ---- *)
Inductive lop := LAssert (b : bound) | LBack (n : nat).
Definition lstep (st : bstore) (s : bstate) (o : lop) : bstate :=
  match o with LAssert b => assert_bound st s b | LBack n => backtrack n s end.
Definition lexec (st : bstore) (ops : list lop) (s : bstate) : bstate := fold_left (lstep st) ops s.
Definition lstack_step (l : list bound) (o : lop) : list bound :=
  match o with LAssert b => b :: l | LBack n => skipn n l end.
Definition lstack (ops : list lop) : list bound := fold_left lstack_step ops [].
Fixpoint lwf_from (depth : nat) (ops : list lop) : bool :=
  match ops with
  | [] => true
  | LAssert _ :: r => lwf_from (S depth) r
  | LBack n :: r => (n <=? depth) && lwf_from (depth - n) r
  end.
Definition replay (st : bstore) (l : list bound) (s : bstate) : bstate := fold_left (assert_bound st) l s.

(* ================================ proofs ================================ *)

Lemma bs_eq_refl s : bs_eq s s.
Proof. split; [|split]; reflexivity. Qed.
Lemma bs_eq_sym s t : bs_eq s t -> bs_eq t s.
Proof. intros [A [B C]]. split; [|split]; auto. Qed.
Lemma bs_eq_trans s t u : bs_eq s t -> bs_eq t u -> bs_eq s u.
Proof. intros [A [B C]] [A' [B' C']]. split; [intros; rewrite A; apply A'|split; congruence]. Qed.

Lemma upd_same f v u l : upd f v u l v u = l.
Proof. unfold upd. rewrite Nat.eqb_refl, eqb_reflx. reflexivity. Qed.

Lemma upd_ext f g v u l l' : (forall a b, f a b = g a b) -> l = l' -> forall a b, upd f v u l a b = upd g v u l' a b.
Proof. intros H E a b. unfold upd. destruct ((a =? v) && Bool.eqb b u); auto. Qed.

Lemma upd_upd_id f v u x : forall a b, upd (upd f v u x) v u (f v u) a b = f a b.
Proof.
  intros a b. unfold upd. destruct ((a =? v) && Bool.eqb b u) eqn:E; [|reflexivity].
  apply andb_true_iff in E. destruct E as [E1 E2]. apply Nat.eqb_eq in E1. apply eqb_prop in E2. subst. reflexivity.
Qed.

Lemma pushBound_eq s t b : bs_eq s t -> bs_eq (pushBound s b) (pushBound t b).
Proof.
  intros [A [B C]]. unfold pushBound. split; [|split]; simpl; try congruence.
  apply upd_ext; [exact A|]. rewrite A. reflexivity.
Qed.
Lemma pushBacktrackPoint_eq s t : bs_eq s t -> bs_eq (pushBacktrackPoint s) (pushBacktrackPoint t).
Proof. intros [A [B C]]. unfold pushBacktrackPoint. split; [|split]; simpl; try congruence; try exact A. Qed.
Lemma pop_one_eq s t : bs_eq s t -> bs_eq (pop_one s) (pop_one t).
Proof.
  intros [A [B C]]. unfold pop_one. rewrite <- B. destruct (trace s) as [|b r] eqn:E.
  - split; [|split]; auto. congruence.
  - split; [|split]; simpl; try congruence. apply upd_ext; [exact A|]. rewrite A. reflexivity.
Qed.
Lemma pop_n_eq k : forall s t, bs_eq s t -> bs_eq (pop_n k s) (pop_n k t).
Proof. induction k; intros s t H; simpl; [exact H|]. apply IHk. apply pop_one_eq. exact H. Qed.
Lemma popBounds_eq s t : bs_eq s t -> bs_eq (popBounds s) (popBounds t).
Proof. intros H. unfold popBounds. destruct H as [A [B C]]. rewrite B, C. apply pop_n_eq. split; [|split]; auto. Qed.
Lemma popBacktrackPoint_eq s t : bs_eq s t -> bs_eq (popBacktrackPoint s) (popBacktrackPoint t).
Proof.
  intros H. pose proof (popBounds_eq s t H) as [A [B C]]. unfold popBacktrackPoint. split; [|split]; simpl; try congruence; try exact A.
Qed.
Lemma push_bounds_eq bs : forall s t, bs_eq s t -> bs_eq (push_bounds s bs) (push_bounds t bs).
Proof. induction bs; intros s t H; simpl; [exact H|]. apply IHbs. apply pushBound_eq. exact H. Qed.
Lemma backtrack_eq n : forall s t, bs_eq s t -> bs_eq (backtrack n s) (backtrack n t).
Proof. induction n; intros s t H; simpl; [exact H|]. apply IHn. apply popBacktrackPoint_eq. exact H. Qed.

Lemma pop_one_pushBound s b : bs_eq (pop_one (pushBound s b)) s.
Proof.
  unfold pop_one, pushBound. simpl. split; [|split]; simpl; try reflexivity.
  intros v u. rewrite upd_same. simpl. apply upd_upd_id.
Qed.

Lemma pop_n_S_r k : forall s, pop_n (S k) s = pop_one (pop_n k s).
Proof. induction k; intros s; [reflexivity|]. simpl. simpl in IHk. rewrite IHk. reflexivity. Qed.

Lemma push_bounds_snoc s bs b : push_bounds s (bs ++ [b]) = pushBound (push_bounds s bs) b.
Proof. unfold push_bounds. rewrite fold_left_app. reflexivity. Qed.

Lemma pop_n_limits k : forall s, limits (pop_n k s) = limits s.
Proof.
  induction k; intros s; [reflexivity|]. simpl. rewrite IHk. unfold pop_one. destruct (trace s); reflexivity.
Qed.

Lemma push_bounds_limits bs : forall s, limits (push_bounds s bs) = limits s.
Proof. induction bs; intros s; simpl; [reflexivity|]. rewrite IHbs. reflexivity. Qed.
Lemma push_bounds_trace_len bs : forall s, length (trace (push_bounds s bs)) = length (trace s) + length bs.
Proof. induction bs; intros s; simpl; [lia|]. rewrite IHbs. simpl. lia. Qed.

Lemma pop_n_push_bounds bs : forall s, bs_eq (pop_n (length bs) (push_bounds s bs)) s.
Proof.
  induction bs as [|b bs IH] using rev_ind; intros s.
  - apply bs_eq_refl.
  - rewrite app_length. simpl. rewrite Nat.add_1_r. rewrite push_bounds_snoc.
    change (pop_n (S (length bs)) (pushBound (push_bounds s bs) b)) with (pop_n (length bs) (pop_one (pushBound (push_bounds s bs) b))).
    eapply bs_eq_trans; [apply pop_n_eq; apply pop_one_pushBound|]. apply IH.
Qed.

(* popBacktrackPoint undoes a mark and everything pushed after it *)
Lemma boundstack_undo_lemma s bs : bs_eq (popBacktrackPoint (push_bounds (pushBacktrackPoint s) bs)) s.
Proof.
  unfold popBacktrackPoint, popBounds.
  rewrite push_bounds_limits, push_bounds_trace_len. simpl.
  replace (length (trace s) + length bs - length (trace s)) with (length bs) by lia.
  pose proof (pop_n_push_bounds bs (pushBacktrackPoint s)) as [A [B C]].
  split; [|split]; simpl.
  - intros v u. rewrite A. reflexivity.
  - rewrite B. reflexivity.
  - rewrite C. reflexivity.
Qed.

(* ---- sequences ---- *)
Lemma mexec_eq ops : forall s t, bs_eq s t -> bs_eq (mexec ops s) (mexec ops t).
Proof.
  induction ops as [|o r IH]; intros s t H; simpl; [exact H|]. apply IH.
  destruct o; simpl; [apply pushBacktrackPoint_eq|apply pushBound_eq|apply popBacktrackPoint_eq]; exact H.
Qed.

Lemma rebuild_cons f r s0 : r <> [] -> rebuild (f :: r) s0 = push_bounds (pushBacktrackPoint (rebuild r s0)) (rev f).
Proof. destruct r; [congruence|reflexivity]. Qed.

Lemma rebuild_push b f r s0 : rebuild ((b :: f) :: r) s0 = pushBound (rebuild (f :: r) s0) b.
Proof.
  destruct r as [|g r]; simpl; rewrite push_bounds_snoc; reflexivity.
Qed.

(* general form: from any frames fs (non-empty) with the state equal to their rebuild *)
Lemma mexec_frames ops : forall fs s s0, fs <> [] -> bs_eq s (rebuild fs s0) -> wf_from (length fs - 1) ops = true ->
  bs_eq (mexec ops s) (rebuild (fold_left fstep ops fs) s0) /\ fold_left fstep ops fs <> [].
Proof.
  induction ops as [|o r IH]; intros fs s s0 Hne Hs Hwf.
  - simpl. split; assumption.
  - destruct fs as [|f fs']; [congruence|].
    change (mexec (o :: r) s) with (mexec r (mstep s o)).
    change (fold_left fstep (o :: r) (f :: fs')) with (fold_left fstep r (fstep (f :: fs') o)).
    replace (length (f :: fs') - 1) with (length fs') in Hwf by (simpl; lia).
    destruct o.
    + (* mark *) change (fstep (f :: fs') MMark) with ([] :: f :: fs'). apply IH.
      * discriminate.
      * rewrite rebuild_cons by discriminate. simpl rev. simpl push_bounds. unfold push_bounds. simpl fold_left.
        apply pushBacktrackPoint_eq. exact Hs.
      * replace (length ([] :: f :: fs') - 1) with (S (length fs')) by (simpl; lia). exact Hwf.
    + (* push *) change (fstep (f :: fs') (MPush b)) with ((b :: f) :: fs'). apply IH.
      * discriminate.
      * rewrite rebuild_push. apply pushBound_eq. exact Hs.
      * replace (length ((b :: f) :: fs') - 1) with (length fs') by (simpl; lia). exact Hwf.
    + (* pop *) change (fstep (f :: fs') MPop) with fs'.
      destruct fs' as [|g fs'']; [simpl in Hwf; discriminate|]. apply IH.
      * discriminate.
      * eapply bs_eq_trans; [apply popBacktrackPoint_eq; exact Hs|].
        rewrite rebuild_cons by discriminate. apply boundstack_undo_lemma.
      * replace (length (g :: fs'') - 1) with (length fs'') by (simpl; lia). simpl in Hwf. exact Hwf.
Qed.

Lemma boundstack_frames_lemma ops s0 : well_bracketed ops = true ->
  bs_eq (mexec ops s0) (rebuild (frames_of ops) s0).
Proof.
  intro H. apply (mexec_frames ops [[]] s0 s0); [discriminate|apply bs_eq_refl|exact H].
Qed.

Lemma boundstack_mop_history_independent_lemma ops1 ops2 s0 :
  well_bracketed ops1 = true -> well_bracketed ops2 = true -> frames_of ops1 = frames_of ops2 ->
  bs_eq (mexec ops1 s0) (mexec ops2 s0).
Proof.
  intros H1 H2 E. eapply bs_eq_trans; [apply boundstack_frames_lemma; exact H1|].
  rewrite E. apply bs_eq_sym. apply boundstack_frames_lemma. exact H2.
Qed.

(* ---- literal level ---- *)
Lemma cur_bound_eq s t v u : bs_eq s t -> cur_bound s v u = cur_bound t v u.
Proof. intros [A _]. unfold cur_bound. rewrite A. reflexivity. Qed.
Lemma triv_sat_eq st s t b : bs_eq s t -> triv_sat st s b = triv_sat st t b.
Proof. intro H. unfold triv_sat. rewrite (cur_bound_eq s t _ _ H). reflexivity. Qed.
Lemma triv_unsat_eq st s t b : bs_eq s t -> triv_unsat st s b = triv_unsat st t b.
Proof. intro H. unfold triv_unsat. rewrite (cur_bound_eq s t _ _ H). reflexivity. Qed.

Lemma assert_bound_eq st s t b : bs_eq s t -> bs_eq (assert_bound st s b) (assert_bound st t b).
Proof.
  intro H. unfold assert_bound. pose proof (pushBacktrackPoint_eq s t H) as H1.
  rewrite (triv_unsat_eq st _ _ b H1), (triv_sat_eq st _ _ b H1).
  destruct (triv_unsat st (pushBacktrackPoint t) b); [exact H1|].
  destruct (triv_sat st (pushBacktrackPoint t) b); [exact H1|]. apply pushBound_eq. exact H1.
Qed.

Lemma assert_bound_undo st s b : bs_eq (popBacktrackPoint (assert_bound st s b)) s.
Proof.
  unfold assert_bound.
  destruct (triv_unsat st (pushBacktrackPoint s) b); [exact (boundstack_undo_lemma s [])|].
  destruct (triv_sat st (pushBacktrackPoint s) b); [exact (boundstack_undo_lemma s [])|].
  exact (boundstack_undo_lemma s [b]).
Qed.

Lemma replay_snoc st l b s : replay st (l ++ [b]) s = assert_bound st (replay st l s) b.
Proof. unfold replay. rewrite fold_left_app. reflexivity. Qed.

Lemma backtrack_replay st n : forall l s0, n <= length l ->
  bs_eq (backtrack n (replay st (rev l) s0)) (replay st (rev (skipn n l)) s0).
Proof.
  induction n; intros l s0 Hn; simpl; [apply bs_eq_refl|].
  destruct l as [|b l]; simpl in Hn; [lia|]. simpl rev. rewrite replay_snoc. simpl skipn.
  eapply bs_eq_trans; [apply backtrack_eq; apply assert_bound_undo|]. apply IHn. lia.
Qed.

Lemma lexec_stack st ops : forall l s s0, bs_eq s (replay st (rev l) s0) -> lwf_from (length l) ops = true ->
  bs_eq (lexec st ops s) (replay st (rev (fold_left lstack_step ops l)) s0).
Proof.
  induction ops as [|o r IH]; intros l s s0 Hs Hwf; simpl; [exact Hs|].
  destruct o as [b|n]; simpl in Hwf.
  - apply IH; [|exact Hwf]. simpl rev. rewrite replay_snoc. apply assert_bound_eq. exact Hs.
  - apply andb_true_iff in Hwf. destruct Hwf as [Hn Hwf]. apply Nat.leb_le in Hn. apply IH.
    + simpl. eapply bs_eq_trans; [apply backtrack_eq; exact Hs|]. apply backtrack_replay. exact Hn.
    + simpl. rewrite skipn_length. exact Hwf.
Qed.

(* after any disciplined sequence the bound stack is the one obtained by asserting the CURRENT literal stack,
   oldest literal first, on the initial state: nothing of the retracted literals is left *)
Lemma boundstack_current_stack_lemma st ops s0 : lwf_from 0 ops = true ->
  bs_eq (lexec st ops s0) (replay st (rev (lstack ops)) s0).
Proof. intro H. apply (lexec_stack st ops [] s0 s0); [apply bs_eq_refl|exact H]. Qed.

Lemma boundstack_history_independent_lemma st ops1 ops2 s0 :
  lwf_from 0 ops1 = true -> lwf_from 0 ops2 = true -> lstack ops1 = lstack ops2 ->
  bs_eq (lexec st ops1 s0) (lexec st ops2 s0) /\
  (forall v u, cur_bound (lexec st ops1 s0) v u = cur_bound (lexec st ops2 s0) v u).
Proof.
  intros H1 H2 E.
  assert (H : bs_eq (lexec st ops1 s0) (lexec st ops2 s0)).
  { eapply bs_eq_trans; [apply boundstack_current_stack_lemma; exact H1|]. rewrite E.
    apply bs_eq_sym. apply boundstack_current_stack_lemma. exact H2. }
  split; [exact H|]. intros v u. apply cur_bound_eq. exact H.
Qed.
