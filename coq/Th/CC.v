(* Naive congruence closure over a term DAG, proved sound (DESIGN.md §4.3; property C11, EUF clauses).

   The DAG is a list of nodes; node number i is (f, [c1;...;ck]) : the application of symbol f to the nodes
   c1..ck (constants have no children).  The closure is a labelling  rep : list nat  (rep[i] = label of the class
   of i).  Only soundness is needed for a checker: whatever the fuel, nodes with the same label have the same
   value in every interpretation that satisfies the input equalities [cc_sound].                              *)
From Coq Require Import List Bool Arith PArith Lia.
Import ListNotations.

Definition node := (positive * list nat)%type.
Definition dag := list node.

Definition find (r : list nat) (i : nat) : nat := nth i r i.

Definition merge (r : list nat) (a b : nat) : list nat :=
  let ra := find r a in
  let rb := find r b in
  if Nat.eqb ra rb then r else map (fun x => if Nat.eqb x rb then ra else x) r.

Fixpoint list_nat_eqb (l1 l2 : list nat) : bool :=
  match l1, l2 with
  | [], [] => true
  | x :: l1', y :: l2' => Nat.eqb x y && list_nat_eqb l1' l2'
  | _, _ => false
  end.

Lemma list_nat_eqb_eq : forall l1 l2, list_nat_eqb l1 l2 = true -> l1 = l2.
Proof.
  induction l1 as [|x l1 IH]; destruct l2 as [|y l2]; simpl; intros H; try discriminate; [reflexivity|].
  apply andb_true_iff in H. destruct H as [H1 H2]. apply Nat.eqb_eq in H1. subst. f_equal. apply IH. exact H2.
Qed.

Definition congruent (r : list nat) (n1 n2 : node) : bool :=
  Pos.eqb (fst n1) (fst n2) && list_nat_eqb (map (find r) (snd n1)) (map (find r) (snd n2)).

(* compare node i with the nodes after it *)
Fixpoint round_inner (r : list nat) (i : nat) (ni : node) (rest : list node) (j : nat) : list nat :=
  match rest with
  | [] => r
  | nj :: rest' =>
      let r' := if congruent r ni nj then merge r i j else r in
      round_inner r' i ni rest' (S j)
  end.

Fixpoint round (r : list nat) (g : list node) (i : nat) : list nat :=
  match g with
  | [] => r
  | ni :: g' => round (round_inner r i ni g' (S i)) g' (S i)
  end.

Fixpoint iterate (fuel : nat) (r : list nat) (g : dag) : list nat :=
  match fuel with
  | O => r
  | S f => let r' := round r g 0 in if list_nat_eqb r' r then r else iterate f r' g
  end.

Definition merge_all (r : list nat) (eqs : list (nat * nat)) : list nat :=
  fold_left (fun r e => merge r (fst e) (snd e)) eqs r.

Definition cc_close (g : dag) (eqs : list (nat * nat)) : list nat :=
  iterate (length g) (merge_all (seq 0 (length g)) eqs) g.

Definition same_class (r : list nat) (a b : nat) : bool := Nat.eqb (find r a) (find r b).

Fixpoint has_dup (l : list nat) : bool :=
  match l with
  | [] => false
  | x :: l' => existsb (Nat.eqb x) l' || has_dup l'
  end.

(* the conjunction  eqs /\ diseqs  (with the nodes of dcs pairwise different: true/false, distinct numerals)
   is unsatisfiable *)
Definition euf_conflict_check (g : dag) (eqs diseqs : list (nat * nat)) (dcs : list nat) : bool :=
  let r := cc_close g eqs in
  existsb (fun e => same_class r (fst e) (snd e)) diseqs || has_dup (map (find r) dcs).

(* a clause of equality literals (a, b, polarity) is valid iff its negation is a conflict *)
Definition euf_clause_check (g : dag) (clause : list (nat * nat * bool)) (dcs : list nat) : bool :=
  euf_conflict_check g
    (map (fun l => (fst (fst l), snd (fst l))) (filter (fun l => negb (snd l)) clause))
    (map (fun l => (fst (fst l), snd (fst l))) (filter (fun l => snd l) clause))
    dcs.

(* ---- semantics and soundness ------------------------------------------------------------------- *)
Section Sem.
  Variable D : Type.
  Variable fi : positive -> list D -> D.       (* interpretation of the symbols *)
  Variable den : nat -> D.                     (* value of each node *)
  Variable g : dag.

  Definition consistent : Prop :=
    forall i f cs, nth_error g i = Some (f, cs) -> den i = fi f (map den cs).

  Definition inv (r : list nat) : Prop := forall i, den i = den (find r i).

  Lemma find_map : forall (h : nat -> nat) r i, i < length r -> find (map h r) i = h (find r i).
  Proof.
    intros h r i Hi. unfold find. rewrite (nth_indep (map h r) i (h i)) by (rewrite map_length; exact Hi).
    rewrite map_nth. reflexivity.
  Qed.

  Lemma find_map_out : forall (h : nat -> nat) r i, length r <= i -> find (map h r) i = i.
  Proof. intros h r i Hi. unfold find. apply nth_overflow. rewrite map_length. exact Hi. Qed.

  Lemma inv_merge : forall r a b, inv r -> den a = den b -> inv (merge r a b).
  Proof.
    intros r a b Hr Hab. unfold merge.
    destruct (Nat.eqb (find r a) (find r b)) eqn:E; [exact Hr|].
    intros i. destruct (Nat.lt_ge_cases i (length r)) as [Hi|Hi].
    - rewrite find_map by exact Hi.
      destruct (Nat.eqb_spec (find r i) (find r b)) as [Ei|Ei].
      + rewrite (Hr i), Ei, <- (Hr b), <- Hab. apply Hr.
      + apply Hr.
    - rewrite find_map_out by exact Hi. reflexivity.
  Qed.

  Lemma inv_same : forall r a b, inv r -> find r a = find r b -> den a = den b.
  Proof. intros r a b Hr H. rewrite (Hr a), (Hr b), H. reflexivity. Qed.

  Lemma map_den_congr : forall r l1 l2, inv r -> map (find r) l1 = map (find r) l2 -> map den l1 = map den l2.
  Proof.
    intros r. induction l1 as [|x l1 IH]; destruct l2 as [|y l2]; simpl; intros Hr H; try discriminate; [reflexivity|].
    inversion H. f_equal; [eapply inv_same; eassumption | apply IH; assumption].
  Qed.

  Lemma congruent_sound : forall r i j ni nj,
    consistent -> inv r -> nth_error g i = Some ni -> nth_error g j = Some nj ->
    congruent r ni nj = true -> den i = den j.
  Proof.
    intros r i j [f cs] [f' cs'] Hc Hr Hi Hj H. unfold congruent in H. simpl in H.
    apply andb_true_iff in H. destruct H as [H1 H2]. apply Pos.eqb_eq in H1. subst f'.
    apply list_nat_eqb_eq in H2.
    rewrite (Hc i f cs Hi), (Hc j f cs' Hj). f_equal. eapply map_den_congr; eassumption.
  Qed.

  Lemma inv_round_inner : forall rest r i ni j,
    consistent -> inv r -> nth_error g i = Some ni ->
    (forall k n, nth_error rest k = Some n -> nth_error g (j + k) = Some n) ->
    inv (round_inner r i ni rest j).
  Proof.
    induction rest as [|nj rest IH]; simpl; intros r i ni j Hc Hr Hi Hsuf; [exact Hr|].
    apply IH; try assumption.
    - destruct (congruent r ni nj) eqn:E; [|exact Hr].
      apply inv_merge; [exact Hr|]. eapply congruent_sound; try eassumption.
      specialize (Hsuf 0 nj eq_refl). rewrite Nat.add_0_r in Hsuf. exact Hsuf.
    - intros k n Hk. specialize (Hsuf (S k) n Hk). rewrite <- plus_n_Sm in Hsuf. exact Hsuf.
  Qed.

  Lemma inv_round : forall gs r i,
    consistent -> inv r ->
    (forall k n, nth_error gs k = Some n -> nth_error g (i + k) = Some n) ->
    inv (round r gs i).
  Proof.
    induction gs as [|ni gs IH]; simpl; intros r i Hc Hr Hsuf; [exact Hr|].
    apply IH; try assumption.
    - apply inv_round_inner; try assumption.
      + specialize (Hsuf 0 ni eq_refl). rewrite Nat.add_0_r in Hsuf. exact Hsuf.
      + intros k n Hk. specialize (Hsuf (S k) n Hk). rewrite <- plus_n_Sm in Hsuf. exact Hsuf.
    - intros k n Hk. specialize (Hsuf (S k) n Hk). rewrite <- plus_n_Sm in Hsuf. exact Hsuf.
  Qed.

  Lemma inv_iterate : forall fuel r, consistent -> inv r -> inv (iterate fuel r g).
  Proof.
    induction fuel as [|fuel IH]; simpl; intros r Hc Hr; [exact Hr|].
    destruct (list_nat_eqb (round r g 0) r); [exact Hr|].
    apply IH; [exact Hc|]. apply inv_round; try assumption. intros k n Hk. exact Hk.
  Qed.

  Lemma inv_seq : forall n, inv (seq 0 n).
  Proof.
    intros n i. unfold find. destruct (Nat.lt_ge_cases i n) as [Hi|Hi].
    - rewrite seq_nth by exact Hi. reflexivity.
    - rewrite nth_overflow by (rewrite seq_length; exact Hi). reflexivity.
  Qed.

  Lemma inv_merge_all : forall eqs r,
    inv r -> Forall (fun e => den (fst e) = den (snd e)) eqs -> inv (merge_all r eqs).
  Proof.
    induction eqs as [|e eqs IH]; simpl; intros r Hr He; [exact Hr|].
    inversion He; subst. apply IH; [apply inv_merge; assumption | assumption].
  Qed.

  (* nodes put into one class are equal in every interpretation satisfying the equalities *)
  Theorem cc_sound : forall eqs a b,
    consistent -> Forall (fun e => den (fst e) = den (snd e)) eqs ->
    same_class (cc_close g eqs) a b = true -> den a = den b.
  Proof.
    intros eqs a b Hc He H. unfold same_class in H. apply Nat.eqb_eq in H.
    eapply inv_same; [|exact H]. unfold cc_close.
    apply inv_iterate; [exact Hc|]. apply inv_merge_all; [apply inv_seq | exact He].
  Qed.

  Lemma has_dup_sound : forall r dcs,
    inv r -> ForallOrdPairs (fun i j => den i <> den j) dcs -> has_dup (map (find r) dcs) = false.
  Proof.
    intros r. induction dcs as [|x dcs IH]; simpl; intros Hr Hd; [reflexivity|].
    inversion Hd as [|? ? Hx Hd']; subst.
    rewrite (IH Hr Hd'), orb_false_r.
    destruct (existsb (Nat.eqb (find r x)) (map (find r) dcs)) eqn:E; [|reflexivity].
    apply existsb_exists in E. destruct E as [y [Hy Hxy]]. apply Nat.eqb_eq in Hxy.
    apply in_map_iff in Hy. destruct Hy as [z [Hz Hin]]. subst y.
    rewrite Forall_forall in Hx. exfalso. apply (Hx z Hin). eapply inv_same; [exact Hr | exact Hxy].
  Qed.

  Theorem euf_conflict_check_sound : forall eqs diseqs dcs,
    euf_conflict_check g eqs diseqs dcs = true ->
    consistent -> ForallOrdPairs (fun i j => den i <> den j) dcs ->
    ~ (Forall (fun e => den (fst e) = den (snd e)) eqs /\ Forall (fun e => den (fst e) <> den (snd e)) diseqs).
  Proof.
    intros eqs diseqs dcs H Hc Hd [He Hne]. unfold euf_conflict_check in H.
    assert (Hinv : inv (cc_close g eqs)).
    { unfold cc_close. apply inv_iterate; [exact Hc|]. apply inv_merge_all; [apply inv_seq | exact He]. }
    apply orb_true_iff in H. destruct H as [H|H].
    - apply existsb_exists in H. destruct H as [[a b] [Hin Hs]]. simpl in Hs.
      rewrite Forall_forall in Hne. apply (Hne (a, b) Hin). simpl.
      eapply cc_sound; eassumption.
    - rewrite (has_dup_sound _ dcs Hinv Hd) in H. discriminate.
  Qed.

  Definition lit_false (l : nat * nat * bool) : Prop :=
    if snd l then den (fst (fst l)) <> den (snd (fst l)) else den (fst (fst l)) = den (snd (fst l)).

  (* an accepted clause cannot have all its literals false *)
  Theorem euf_clause_check_sound : forall clause dcs,
    euf_clause_check g clause dcs = true ->
    consistent -> ForallOrdPairs (fun i j => den i <> den j) dcs ->
    ~ Forall lit_false clause.
  Proof.
    intros clause dcs H Hc Hd Hall. unfold euf_clause_check in H.
    apply (euf_conflict_check_sound _ _ _ H Hc Hd). split.
    - apply Forall_map. apply Forall_forall. intros [[a b] p] Hin.
      apply filter_In in Hin. destruct Hin as [Hin Hp]. simpl in *.
      rewrite Forall_forall in Hall. specialize (Hall _ Hin). unfold lit_false in Hall. simpl in Hall.
      destruct p; [discriminate | exact Hall].
    - apply Forall_map. apply Forall_forall. intros [[a b] p] Hin.
      apply filter_In in Hin. destruct Hin as [Hin Hp]. simpl in *.
      rewrite Forall_forall in Hall. specialize (Hall _ Hin). unfold lit_false in Hall. simpl in Hall.
      destruct p; [exact Hall | discriminate].
  Qed.
End Sem.

(* ---- arrays: read-over-write instances on top of the congruence closure ------------------------ *)
(* sel / sto are the symbols of select (2 arguments) and store (3 arguments).  For a node
     n = sel[s; j]  with  s = sto[a; i; e]:
       i ~ j                       ==>  n = e                          (read over write, same index)
       i <> j is an assumed diseq  ==>  n = m  where m = sel[a; j]     (read over write, other index; m must
                                                                        be a node of the DAG)
     and for a node  s = sto[a; i; e]  with  m = sel[a; i] a node and m ~ e   ==>  s = a   (redundant store)   *)
Section ArrayClosure.
  Variables sel sto : positive.

  Fixpoint indexed {A} (i : nat) (l : list A) : list (nat * A) :=
    match l with [] => [] | x :: l' => (i, x) :: indexed (S i) l' end.

  Lemma indexed_nth : forall A (l : list A) i n x, In (n, x) (indexed i l) -> i <= n /\ nth_error l (n - i) = Some x.
  Proof.
    induction l as [|y l IH]; simpl; intros i n x H; [contradiction|].
    destruct H as [H|H].
    - inversion H; subst. split; [lia|]. rewrite Nat.sub_diag. reflexivity.
    - destruct (IH (S i) n x H) as [H1 H2]. split; [lia|].
      replace (n - i) with (S (n - S i)) by lia. exact H2.
  Qed.

  Definition node_eqb (n1 n2 : node) : bool := Pos.eqb (fst n1) (fst n2) && list_nat_eqb (snd n1) (snd n2).

  Fixpoint find_node (g : list node) (i : nat) (n : node) : option nat :=
    match g with
    | [] => None
    | x :: g' => if node_eqb x n then Some i else find_node g' (S i) n
    end.

  Lemma find_node_spec : forall g i n m, find_node g i n = Some m -> i <= m /\ nth_error g (m - i) = Some n.
  Proof.
    induction g as [|x g IH]; simpl; intros i n m H; [discriminate|].
    destruct (node_eqb x n) eqn:E.
    - inversion H; subst. split; [lia|]. rewrite Nat.sub_diag. simpl.
      unfold node_eqb in E. apply andb_true_iff in E. destruct E as [E1 E2].
      apply Pos.eqb_eq in E1. apply list_nat_eqb_eq in E2. destruct x, n. simpl in *. subst. reflexivity.
    - destruct (IH (S i) n m H) as [H1 H2]. split; [lia|].
      replace (m - i) with (S (m - S i)) by lia. exact H2.
  Qed.

  Definition known_diseq (r : list nat) (diseqs : list (nat * nat)) (i j : nat) : bool :=
    existsb (fun e => (same_class r (fst e) i && same_class r (snd e) j) ||
                      (same_class r (fst e) j && same_class r (snd e) i)) diseqs.

  Definition row_instance (g : dag) (r : list nat) (diseqs : list (nat * nat)) (p : nat * node) : list (nat * nat) :=
    let n := fst p in
    let '(f, cs) := snd p in
    if Pos.eqb f sel then
      match cs with
      | [s; j] =>
          match nth_error g s with
          | Some (f', [a; i; e]) =>
              if Pos.eqb f' sto then
                if same_class r i j then [(n, e)]
                else if known_diseq r diseqs i j then
                       match find_node g 0 (sel, [a; j]) with Some m => [(n, m)] | None => [] end
                     else []
              else []
          | _ => []
          end
      | _ => []
      end
    else if Pos.eqb f sto then
      match cs with
      | [a; i; e] =>
          (* store a i (select a i) = a   (extensionality + read over write) *)
          match find_node g 0 (sel, [a; i]) with
          | Some m => if same_class r m e then [(n, a)] else []
          | None => []
          end
      | _ => []
      end
    else [].

  Definition row_instances (g : dag) (r : list nat) (diseqs : list (nat * nat)) : list (nat * nat) :=
    flat_map (row_instance g r diseqs) (indexed 0 g).

  Fixpoint close_arr (fuel : nat) (g : dag) (r : list nat) (diseqs : list (nat * nat)) : list nat :=
    match fuel with
    | O => r
    | S f =>
        let r' := iterate (length g) (merge_all r (row_instances g r diseqs)) g in
        if list_nat_eqb r' r then r else close_arr f g r' diseqs
    end.

  Definition arr_conflict_check (g : dag) (eqs diseqs : list (nat * nat)) (dcs : list nat) : bool :=
    let r := close_arr (length g) g (cc_close g eqs) diseqs in
    existsb (fun e => same_class r (fst e) (snd e)) diseqs || has_dup (map (find r) dcs).

  Definition arr_clause_check (g : dag) (clause : list (nat * nat * bool)) (dcs : list nat) : bool :=
    arr_conflict_check g
      (map (fun l => (fst (fst l), snd (fst l))) (filter (fun l => negb (snd l)) clause))
      (map (fun l => (fst (fst l), snd (fst l))) (filter (fun l => snd l) clause))
      dcs.

  (* case analysis on index pairs chosen by the caller: a pair (i, j) is either assumed equal or assumed different;
     both branches must be conflicts (read-over-write needs to know which) *)
  Fixpoint arr_split_check (splits : list (nat * nat)) (g : dag) (eqs diseqs : list (nat * nat)) (dcs : list nat) : bool :=
    arr_conflict_check g eqs diseqs dcs ||
    match splits with
    | [] => false
    | p :: rest => arr_split_check rest g (p :: eqs) diseqs dcs && arr_split_check rest g eqs (p :: diseqs) dcs
    end.

  Definition arr_clause_split_check (splits : list (nat * nat)) (g : dag) (clause : list (nat * nat * bool)) (dcs : list nat) : bool :=
    arr_split_check splits g
      (map (fun l => (fst (fst l), snd (fst l))) (filter (fun l => negb (snd l)) clause))
      (map (fun l => (fst (fst l), snd (fst l))) (filter (fun l => snd l) clause))
      dcs.

  Section ArrSem.
    Variable D : Type.
    Variable fi : positive -> list D -> D.
    Variable den : nat -> D.
    Variable g : dag.
    Hypothesis Hcons : consistent D fi den g.
    (* the array axioms (McCarthy) for the interpretation of sel / sto *)
    Hypothesis row1 : forall a i e, fi sel [fi sto [a; i; e]; i] = e.
    Hypothesis row2 : forall a i e j, i <> j -> fi sel [fi sto [a; i; e]; j] = fi sel [a; j].
    (* consequence of extensionality: storing the value already there changes nothing *)
    Hypothesis store_id : forall a i, fi sto [a; i; fi sel [a; i]] = a.

    Lemma row_instances_sound : forall r diseqs,
      inv D den r -> Forall (fun e => den (fst e) <> den (snd e)) diseqs ->
      Forall (fun e => den (fst e) = den (snd e)) (row_instances g r diseqs).
    Proof.
      intros r diseqs Hr Hd. unfold row_instances. apply Forall_forall. intros [x y] Hin.
      apply in_flat_map in Hin. destruct Hin as [[n [f cs]] [Hn Hin]].
      apply indexed_nth in Hn. destruct Hn as [_ Hn]. rewrite Nat.sub_0_r in Hn.
      unfold row_instance in Hin. simpl in Hin.
      destruct (Pos.eqb_spec f sel) as [->|Hfs].
      2:{ destruct (Pos.eqb_spec f sto) as [->|]; [|contradiction].
          destruct cs as [|a [|i [|e [|? ?]]]]; try contradiction.
          destruct (find_node g 0 (sel, [a; i])) as [m|] eqn:Em; [|contradiction].
          destruct (same_class r m e) eqn:Eme; [|contradiction].
          destruct Hin as [Hin|[]]. injection Hin as Hx Hy. subst x y. simpl.
          apply find_node_spec in Em. destruct Em as [_ Em]. rewrite Nat.sub_0_r in Em.
          pose proof (Hcons m sel [a; i] Em) as Dm. pose proof (Hcons n sto [a; i; e] Hn) as Dn. simpl in Dm, Dn.
          unfold same_class in Eme. apply Nat.eqb_eq in Eme.
          rewrite Dn, <- (inv_same D den r m e Hr Eme), Dm. apply store_id. }
      destruct cs as [|s [|j [|? ?]]]; try contradiction.
      destruct (nth_error g s) as [[f' cs']|] eqn:Hs; [|contradiction].
      destruct cs' as [|a [|i [|e [|? ?]]]]; try contradiction.
      destruct (Pos.eqb_spec f' sto) as [->|]; [|contradiction].
      pose proof (Hcons n sel [s; j] Hn) as Dn. pose proof (Hcons s sto [a; i; e] Hs) as Ds. simpl in Dn, Ds.
      destruct (same_class r i j) eqn:Eij.
      - destruct Hin as [Hin|[]]. injection Hin as Hx Hy. subst x y. simpl.
        unfold same_class in Eij. apply Nat.eqb_eq in Eij.
        rewrite Dn, Ds, <- (inv_same D den r i j Hr Eij). apply row1.
      - destruct (known_diseq r diseqs i j) eqn:Ek; [|contradiction].
        destruct (find_node g 0 (sel, [a; j])) as [m|] eqn:Em; [|contradiction].
        destruct Hin as [Hin|[]]. injection Hin as Hx Hy. subst x y. simpl.
        apply find_node_spec in Em. destruct Em as [_ Em]. rewrite Nat.sub_0_r in Em.
        pose proof (Hcons m sel [a; j] Em) as Dm. simpl in Dm.
        rewrite Dn, Ds, Dm. apply row2.
        unfold known_diseq in Ek. apply existsb_exists in Ek. destruct Ek as [[u v] [Huv Ek]]. simpl in Ek.
        rewrite Forall_forall in Hd. specialize (Hd (u, v) Huv). simpl in Hd.
        unfold same_class in Ek. apply orb_true_iff in Ek.
        destruct Ek as [Ek|Ek]; apply andb_true_iff in Ek; destruct Ek as [E1 E2];
          apply Nat.eqb_eq in E1; apply Nat.eqb_eq in E2;
          pose proof (inv_same D den r _ _ Hr E1) as F1; pose proof (inv_same D den r _ _ Hr E2) as F2; congruence.
    Qed.

    Lemma inv_close_arr : forall fuel r diseqs,
      inv D den r -> Forall (fun e => den (fst e) <> den (snd e)) diseqs -> inv D den (close_arr fuel g r diseqs).
    Proof.
      induction fuel as [|fuel IH]; simpl; intros r diseqs Hr Hd; [exact Hr|].
      destruct (list_nat_eqb _ r); [exact Hr|].
      apply IH; [|exact Hd]. apply (inv_iterate D fi den g); [exact Hcons|].
      apply inv_merge_all; [exact Hr | apply row_instances_sound; assumption].
    Qed.

    Theorem arr_conflict_check_sound : forall eqs diseqs dcs,
      arr_conflict_check g eqs diseqs dcs = true ->
      ForallOrdPairs (fun i j => den i <> den j) dcs ->
      ~ (Forall (fun e => den (fst e) = den (snd e)) eqs /\ Forall (fun e => den (fst e) <> den (snd e)) diseqs).
    Proof.
      intros eqs diseqs dcs H Hd [He Hne]. unfold arr_conflict_check in H.
      assert (Hinv : inv D den (close_arr (length g) g (cc_close g eqs) diseqs)).
      { apply inv_close_arr; [|exact Hne]. unfold cc_close.
        apply (inv_iterate D fi den g); [exact Hcons|]. apply inv_merge_all; [apply inv_seq | exact He]. }
      apply orb_true_iff in H. destruct H as [H|H].
      - apply existsb_exists in H. destruct H as [[a b] [Hin Hs]]. simpl in Hs.
        rewrite Forall_forall in Hne. apply (Hne (a, b) Hin). simpl.
        unfold same_class in Hs. apply Nat.eqb_eq in Hs. eapply inv_same; eassumption.
      - rewrite (has_dup_sound D den _ dcs Hinv Hd) in H. discriminate.
    Qed.

    Theorem arr_clause_check_sound : forall clause dcs,
      arr_clause_check g clause dcs = true ->
      ForallOrdPairs (fun i j => den i <> den j) dcs ->
      ~ Forall (lit_false D den) clause.
    Proof.
      intros clause dcs H Hd Hall. unfold arr_clause_check in H.
      apply (arr_conflict_check_sound _ _ _ H Hd). split.
      - apply Forall_map. apply Forall_forall. intros [[a b] p] Hin.
        apply filter_In in Hin. destruct Hin as [Hin Hp]. simpl in *.
        rewrite Forall_forall in Hall. specialize (Hall _ Hin). unfold lit_false in Hall. simpl in Hall.
        destruct p; [discriminate | exact Hall].
      - apply Forall_map. apply Forall_forall. intros [[a b] p] Hin.
        apply filter_In in Hin. destruct Hin as [Hin Hp]. simpl in *.
        rewrite Forall_forall in Hall. specialize (Hall _ Hin). unfold lit_false in Hall. simpl in Hall.
        destruct p; [exact Hall | discriminate].
    Qed.

    Theorem arr_split_check_sound : forall splits eqs diseqs dcs,
      arr_split_check splits g eqs diseqs dcs = true ->
      ForallOrdPairs (fun i j => den i <> den j) dcs ->
      ~ (Forall (fun e => den (fst e) = den (snd e)) eqs /\ Forall (fun e => den (fst e) <> den (snd e)) diseqs).
    Proof.
      induction splits as [|p rest IH]; intros eqs diseqs dcs H Hd; simpl in H.
      - rewrite orb_false_r in H. exact (arr_conflict_check_sound _ _ _ H Hd).
      - apply orb_true_iff in H. destruct H as [H|H]; [exact (arr_conflict_check_sound _ _ _ H Hd)|].
        apply andb_true_iff in H. destruct H as [H1 H2]. intros [He Hne].
        assert (Hp : den (fst p) <> den (snd p)).
        { intros E. apply (IH _ _ _ H1 Hd). split; [constructor; assumption | exact Hne]. }
        apply (IH _ _ _ H2 Hd). split; [exact He | constructor; assumption].
    Qed.

    Theorem arr_clause_split_check_sound : forall splits clause dcs,
      arr_clause_split_check splits g clause dcs = true ->
      ForallOrdPairs (fun i j => den i <> den j) dcs ->
      ~ Forall (lit_false D den) clause.
    Proof.
      intros splits clause dcs H Hd Hall. unfold arr_clause_split_check in H.
      apply (arr_split_check_sound _ _ _ _ H Hd). split.
      - apply Forall_map. apply Forall_forall. intros [[a b] p] Hin.
        apply filter_In in Hin. destruct Hin as [Hin Hp]. simpl in *.
        rewrite Forall_forall in Hall. specialize (Hall _ Hin). unfold lit_false in Hall. simpl in Hall.
        destruct p; [discriminate | exact Hall].
      - apply Forall_map. apply Forall_forall. intros [[a b] p] Hin.
        apply filter_In in Hin. destruct Hin as [Hin Hp]. simpl in *.
        rewrite Forall_forall in Hall. specialize (Hall _ Hin). unfold lit_false in Hall. simpl in Hall.
        destruct p; [exact Hall | discriminate].
    Qed.
  End ArrSem.
End ArrayClosure.
