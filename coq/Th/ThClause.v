(* Theory clauses over linear arithmetic that also contain equality atoms (theory combination:
   UFLATHandler.cc addInterfaceClausesForEquality; Egraph/LA interface equalities), and clauses checked with only
   a subset of their literals (coefficient 0 = literal not used).  Built on Farkas / LiaCheck.             *)
From Coq Require Import QArith Qreduction Qround List Bool PArith ZArith Lia Lqa Setoid.
From OsmtV.Th Require Import Farkas LiaCheck.
Import ListNotations.
Local Open Scope Q_scope.
Local Arguments scale : simpl never.

Inductive glit :=
| GLeq (l : lalit)                       (* (<= c s) with polarity *)
| GEq (s : lin) (c : Q) (pol : bool).    (* (= s c)  with polarity *)

Definition glit_true (a : assign) (g : glit) : Prop :=
  match g with
  | GLeq l => lit_true a l
  | GEq s c pol => if pol then eval a s == c else ~ eval a s == c
  end.

Definition glit_term (g : glit) : lin := match g with GLeq l => lterm l | GEq s _ _ => s end.

Lemma glit_true_dec : forall a g, glit_true a g \/ ~ glit_true a g.
Proof.
  intros a [l|s c p]; simpl.
  - apply lit_true_dec.
  - destruct (Qeq_dec (eval a s) c); destruct p; tauto.
Qed.

(* constraints (with coefficients) of the negations of the literals that are used (coefficient <> 0);
   a used positive equality (its negation is a disequality) is not a single constraint: refused here *)
Fixpoint build_rest (isInt : bool) (rest : list glit) (ks : list Q) : option (list constr * list Q) :=
  match rest, ks with
  | [], [] => Some ([], [])
  | g :: rest', k :: ks' =>
      match build_rest isInt rest' ks' with
      | None => None
      | Some (cs, qs) =>
          if Qeq_bool k 0 then Some (cs, qs)
          else match g with
               | GLeq l => Some (lit_constraint isInt (negate l) :: cs, k :: qs)
               | GEq s c false => Some (mkC s Eq c :: cs, k :: qs)
               | GEq s c true => None
               end
      end
  | _, _ => None
  end.

Definition terms_integral (isInt : bool) (gs : list glit) : bool :=
  negb isInt || forallb (fun g => lin_integral (glit_term g)) gs.

(* d = Some (s, c): the clause is  (= s c) \/ rest  and the disequality s <> c of its negation is split into
   s < c (coefficients kd1, ks1) and s > c (coefficients kd2, ks2);  d = None: the clause is rest (ks1 only) *)
Definition mixed_clause_check (isInt : bool) (d : option (lin * Q)) (rest : list glit)
           (kd1 : Q) (ks1 : list Q) (kd2 : Q) (ks2 : list Q) : bool :=
  match d with
  | None =>
      terms_integral isInt rest &&
      match build_rest isInt rest ks1 with Some (cs, qs) => farkas_check cs qs | None => false end
  | Some (s, c) =>
      terms_integral isInt (GEq s c true :: rest) &&
      match build_rest isInt rest ks1, build_rest isInt rest ks2 with
      | Some (cs1, qs1), Some (cs2, qs2) =>
          farkas_check (lit_constraint isInt (mkL s c false) :: cs1) (kd1 :: qs1) &&
          farkas_check (lit_constraint isInt (mkL (scale (-1) s) (- c) false) :: cs2) (kd2 :: qs2)
      | _, _ => false
      end
  end.

Definition mixed_clause (d : option (lin * Q)) (rest : list glit) : list glit :=
  match d with Some (s, c) => GEq s c true :: rest | None => rest end.

Definition sem_ok (isInt : bool) (a : assign) : Prop := isInt = true -> int_assign a.

Lemma lit_constraint_holds : forall isInt a l,
  sem_ok isInt a -> (isInt = true -> lin_integral (lterm l) = true) ->
  lit_true a l -> holds a (lit_constraint isInt l).
Proof.
  intros isInt a l Hs Hi Hl. destruct isInt.
  - apply lit_constraint_int; [|exact Hl]. apply eval_integral; [apply Hs; reflexivity | apply Hi; reflexivity].
  - apply lit_constraint_real. exact Hl.
Qed.

Lemma build_rest_holds : forall isInt a rest ks cs qs,
  sem_ok isInt a -> (isInt = true -> forallb (fun g => lin_integral (glit_term g)) rest = true) ->
  build_rest isInt rest ks = Some (cs, qs) ->
  Forall (fun g => ~ glit_true a g) rest -> all_hold a cs.
Proof.
  induction rest as [|g rest IH]; intros ks cs qs Hs Hi Hb Hf.
  - destruct ks; simpl in Hb; [|discriminate]. inversion Hb. constructor.
  - destruct ks as [|k ks]; simpl in Hb; [discriminate|].
    destruct (build_rest isInt rest ks) as [[cs' qs']|] eqn:Hr; [|discriminate].
    inversion Hf as [|? ? Hg Hf']; subst.
    assert (Hi' : isInt = true -> forallb (fun g => lin_integral (glit_term g)) rest = true).
    { intros E. specialize (Hi E). simpl in Hi. apply andb_true_iff in Hi. tauto. }
    assert (Hig : isInt = true -> lin_integral (glit_term g) = true).
    { intros E. specialize (Hi E). simpl in Hi. apply andb_true_iff in Hi. tauto. }
    specialize (IH ks cs' qs' Hs Hi' Hr Hf').
    destruct (Qeq_bool k 0); [inversion Hb; subst; exact IH|].
    destruct g as [l|s c [|]]; [| discriminate |]; inversion Hb; subst; constructor; try exact IH.
    + apply lit_constraint_holds; [exact Hs | exact Hig |]. apply lit_true_negate. exact Hg.
    + unfold holds. simpl in *. destruct (Qeq_dec (eval a s) c); [assumption | contradiction].
Qed.

Lemma all_false_absurd_exists : forall a gs, (Forall (fun g => ~ glit_true a g) gs -> False) -> Exists (glit_true a) gs.
Proof.
  induction gs as [|g gs IH]; intros H.
  - exfalso. apply H. constructor.
  - destruct (glit_true_dec a g) as [Hg|Hg]; [left; exact Hg|].
    right. apply IH. intros Hf. apply H. constructor; assumption.
Qed.

Theorem mixed_clause_check_sound : forall isInt d rest kd1 ks1 kd2 ks2,
  mixed_clause_check isInt d rest kd1 ks1 kd2 ks2 = true ->
  forall a, sem_ok isInt a -> Exists (glit_true a) (mixed_clause d rest).
Proof.
  intros isInt d rest kd1 ks1 kd2 ks2 H a Hs. apply all_false_absurd_exists. intros Hf.
  unfold mixed_clause_check in H. destruct d as [[s c]|]; simpl in Hf.
  - apply andb_true_iff in H. destruct H as [Hi H].
    assert (Hi' : isInt = true -> forallb (fun g => lin_integral (glit_term g)) (GEq s c true :: rest) = true).
    { intros E. unfold terms_integral in Hi. rewrite E in Hi. exact Hi. }
    assert (Hir : isInt = true -> forallb (fun g => lin_integral (glit_term g)) rest = true).
    { intros E. specialize (Hi' E). simpl in Hi'. apply andb_true_iff in Hi'. tauto. }
    assert (His : isInt = true -> lin_integral s = true).
    { intros E. specialize (Hi' E). simpl in Hi'. apply andb_true_iff in Hi'. tauto. }
    destruct (build_rest isInt rest ks1) as [[cs1 qs1]|] eqn:B1; [|discriminate].
    destruct (build_rest isInt rest ks2) as [[cs2 qs2]|] eqn:B2; [|discriminate].
    apply andb_true_iff in H. destruct H as [F1 F2].
    inversion Hf as [|? ? Hd Hf']; subst. simpl in Hd.
    destruct (Qlt_le_dec (eval a s) c) as [Hlt|Hge].
    + apply (farkas_check_sound _ _ F1 a). constructor.
      * apply lit_constraint_holds; [exact Hs | exact His |]. unfold lit_true, atom_true. simpl. lra.
      * eapply build_rest_holds; eassumption.
    + apply (farkas_check_sound _ _ F2 a). constructor.
      * apply lit_constraint_holds; [exact Hs | |].
        -- intros E. simpl. apply lin_integral_opp. apply His. exact E.
        -- unfold lit_true, atom_true. simpl. rewrite eval_scale.
           assert (~ eval a s == c) by exact Hd.
           assert (c < eval a s) by (destruct (Qlt_le_dec c (eval a s)); [assumption | exfalso; apply H; lra]).
           lra.
      * eapply build_rest_holds; eassumption.
  - apply andb_true_iff in H. destruct H as [Hi H].
    destruct (build_rest isInt rest ks1) as [[cs1 qs1]|] eqn:B1; [|discriminate].
    apply (farkas_check_sound _ _ H a).
    eapply build_rest_holds; try eassumption.
    intros E. unfold terms_integral in Hi. rewrite E in Hi. exact Hi.
Qed.

(* ---- UFLATHandler.cc addInterfaceClausesForEquality:  x = y  iff  x <= y and x >= y ------------- *)
(* with s = x - y (as printed: (= x y) is s = 0, x <= y is 0 <= -s, x >= y is 0 <= s) *)
Definition interface_trichotomy (s : lin) : list glit :=
  [ GEq s 0 true ; GLeq (mkL (scale (-1) s) 0 false) ; GLeq (mkL s 0 false) ].   (* x=y \/ not x<=y \/ not x>=y *)
Definition interface_eq_le (s : lin) : list glit :=
  [ GEq s 0 false ; GLeq (mkL (scale (-1) s) 0 true) ].                           (* not x=y \/ x<=y *)
Definition interface_eq_ge (s : lin) : list glit :=
  [ GEq s 0 false ; GLeq (mkL s 0 true) ].                                        (* not x=y \/ x>=y *)

Theorem interface_eq_clauses_valid : forall s a,
  Exists (glit_true a) (interface_trichotomy s) /\
  Exists (glit_true a) (interface_eq_le s) /\
  Exists (glit_true a) (interface_eq_ge s).
Proof.
  intros s a. repeat split.
  - destruct (Q_dec (eval a s) 0) as [[H|H]|H].
    + right. right. left. unfold glit_true, lit_true, atom_true. simpl. lra.
    + right. left. unfold glit_true, lit_true, atom_true. simpl. rewrite eval_scale. lra.
    + left. exact H.
  - destruct (Qeq_dec (eval a s) 0) as [H|H].
    + right. left. unfold glit_true, lit_true, atom_true. simpl. rewrite eval_scale. lra.
    + left. exact H.
  - destruct (Qeq_dec (eval a s) 0) as [H|H].
    + right. left. unfold glit_true, lit_true, atom_true. simpl. lra.
    + left. exact H.
Qed.

(* and the checker accepts them, with unit coefficients *)
Theorem interface_eq_clauses_checked : forall s,
  mixed_clause_check false (Some (s, 0)) [GLeq (mkL (scale (-1) s) 0 false); GLeq (mkL s 0 false)]
                     1 [0; 1] 1 [1; 0] = true /\
  mixed_clause_check false None (interface_eq_le s) 0 [1; 1] 0 [] = true /\
  mixed_clause_check false None (interface_eq_ge s) 0 [-1; 1] 0 [] = true.
Proof.
  intros s. repeat split; unfold mixed_clause_check; simpl.
  - apply andb_true_iff. split; apply farkas_check_complete; simpl;
      try reflexivity; try (repeat constructor; fail);
      try (intros a; unfold weighted_lhs; simpl; rewrite !eval_app, !eval_scale; simpl; rewrite ?eval_scale; ring);
      try lra.
  - apply farkas_check_complete; simpl; try reflexivity.
    + repeat constructor. simpl. lra.
    + intros a; unfold weighted_lhs; simpl; rewrite !eval_app, !eval_scale; simpl; rewrite ?eval_scale; ring.
    + lra.
  - apply farkas_check_complete; simpl; try reflexivity.
    + repeat constructor. simpl. lra.
    + intros a; unfold weighted_lhs; simpl; rewrite !eval_app, !eval_scale; simpl; rewrite ?eval_scale; ring.
    + lra.
Qed.
