(* Farkas certificates for linear constraints over Q  (DESIGN.md §4.3; properties C26, C11).

   lin        : association list  variable -> coefficient   (duplicates allowed, summed by [eval])
   constr     : lhs (op) rhs  with op in {Le, Lt, Eq}
   farkas_check cs ks = true  ->  no assignment satisfies all of cs          [farkas_check_sound]
   is_zero is also complete   (used by Th/SimplexRow.v to show that the solver's explanation passes) *)
From Coq Require Import QArith Qreduction List Bool PArith ZArith Lia Lqa Setoid Morphisms.
Import ListNotations.
Local Open Scope Q_scope.
Arguments Qred : simpl never.

Definition var := positive.
Definition lin := list (var * Q).
Definition assign := var -> Q.

Fixpoint eval (a : assign) (l : lin) : Q :=
  match l with
  | [] => 0
  | (v, c) :: r => c * a v + eval a r
  end.

Definition scale (k : Q) (l : lin) : lin := map (fun p => (fst p, k * snd p)) l.

Lemma eval_app : forall a p q, eval a (p ++ q) == eval a p + eval a q.
Proof.
  induction p as [|[v c] p IH]; intros; simpl.
  - ring.
  - rewrite IH. ring.
Qed.

Lemma eval_scale : forall a k l, eval a (scale k l) == k * eval a l.
Proof.
  induction l as [|[v c] l IH]; simpl.
  - ring.
  - rewrite IH. ring.
Qed.

(* ---- normalising sum --------------------------------------------------------------------- *)

Fixpoint insert (v : var) (c : Q) (l : lin) : lin :=
  match l with
  | [] => [(v, c)]
  | (w, d) :: r => if Pos.eqb v w then (w, Qred (d + c)) :: r else (w, d) :: insert v c r
  end.

Fixpoint norm (l : lin) : lin :=
  match l with
  | [] => []
  | (v, c) :: r => insert v c (norm r)
  end.

Definition all_zero (l : lin) : bool := forallb (fun p => Qeq_bool (snd p) 0) l.
Definition is_zero (l : lin) : bool := all_zero (norm l).

Lemma eval_insert : forall a v c l, eval a (insert v c l) == c * a v + eval a l.
Proof.
  induction l as [|[w d] l IH]; simpl.
  - ring.
  - destruct (Pos.eqb_spec v w) as [->|Hne]; simpl.
    + setoid_rewrite (Qred_correct (d + c)). ring.
    + rewrite IH. ring.
Qed.

Lemma eval_norm : forall a l, eval a (norm l) == eval a l.
Proof.
  induction l as [|[v c] l IH]; simpl.
  - reflexivity.
  - rewrite eval_insert, IH. reflexivity.
Qed.

Lemma all_zero_eval : forall a l, all_zero l = true -> eval a l == 0.
Proof.
  induction l as [|[v c] l IH]; simpl; intros H.
  - reflexivity.
  - apply andb_true_iff in H. destruct H as [H1 H2].
    apply Qeq_bool_iff in H1. simpl in H1. rewrite H1, (IH H2). ring.
Qed.

Lemma is_zero_sound : forall l, is_zero l = true -> forall a, eval a l == 0.
Proof.
  intros l H a. rewrite <- eval_norm. apply all_zero_eval. exact H.
Qed.

(* completeness of is_zero: keys of a normal form are pairwise different, so the indicator
   assignment of a key reads its coefficient *)
Definition keys (l : lin) : list var := map fst l.

Lemma keys_insert : forall v c l,
  keys (insert v c l) = if existsb (Pos.eqb v) (keys l) then keys l else keys l ++ [v].
Proof.
  induction l as [|[w d] l IH]; simpl.
  - reflexivity.
  - destruct (Pos.eqb_spec v w) as [->|Hne]; simpl.
    + reflexivity.
    + rewrite IH. destruct (existsb (Pos.eqb v) (keys l)); reflexivity.
Qed.

Lemma existsb_eqb_In : forall v l, existsb (Pos.eqb v) l = true <-> In v l.
Proof.
  intros v l. rewrite existsb_exists. split.
  - intros [x [Hx He]]. apply Pos.eqb_eq in He. subst. exact Hx.
  - intros H. exists v. split; [exact H | apply Pos.eqb_refl].
Qed.

Lemma NoDup_snoc : forall (A : Type) (l : list A) (x : A), NoDup l -> ~ In x l -> NoDup (l ++ [x]).
Proof.
  induction l as [|y l IH]; simpl; intros x Hnd Hx.
  - constructor; [intros []|constructor].
  - inversion Hnd; subst. constructor.
    + rewrite in_app_iff. simpl. intros [H|[H|[]]]; [contradiction|]. subst. apply Hx. left. reflexivity.
    + apply IH; [assumption|]. tauto.
Qed.

Lemma NoDup_keys_insert : forall v c l, NoDup (keys l) -> NoDup (keys (insert v c l)).
Proof.
  intros v c l H. rewrite keys_insert.
  destruct (existsb (Pos.eqb v) (keys l)) eqn:E.
  - exact H.
  - apply NoDup_snoc; [exact H|].
    intros Hin. apply existsb_eqb_In in Hin. congruence.
Qed.

Lemma NoDup_keys_norm : forall l, NoDup (keys (norm l)).
Proof.
  induction l as [|[v c] l IH]; simpl.
  - constructor.
  - apply NoDup_keys_insert. exact IH.
Qed.

Definition indicator (v : var) : assign := fun w => if Pos.eqb w v then 1 else 0.

Lemma eval_indicator_notin : forall v l, ~ In v (keys l) -> eval (indicator v) l == 0.
Proof.
  induction l as [|[w d] l IH]; simpl; intros H.
  - reflexivity.
  - unfold indicator at 1. destruct (Pos.eqb_spec w v) as [->|Hne].
    + exfalso. apply H. left. reflexivity.
    + rewrite IH by tauto. ring.
Qed.

Lemma nodup_zero_complete : forall l, NoDup (keys l) -> (forall a, eval a l == 0) -> all_zero l = true.
Proof.
  induction l as [|[w d] l IH]; simpl; intros Hnd H.
  - reflexivity.
  - inversion Hnd as [|? ? Hnotin Hnd']; subst.
    assert (Hd : d == 0).
    { specialize (H (indicator w)). simpl in H.
      rewrite (eval_indicator_notin w l Hnotin) in H.
      unfold indicator in H. rewrite Pos.eqb_refl in H. lra. }
    apply andb_true_iff. split.
    + apply Qeq_bool_iff. exact Hd.
    + apply IH; [exact Hnd'|]. intros a. specialize (H a). simpl in H. rewrite Hd in H. lra.
Qed.

Lemma is_zero_complete : forall l, (forall a, eval a l == 0) -> is_zero l = true.
Proof.
  intros l H. unfold is_zero. apply nodup_zero_complete.
  - apply NoDup_keys_norm.
  - intros a. rewrite eval_norm. apply H.
Qed.

Lemma is_zero_iff : forall l, is_zero l = true <-> (forall a, eval a l == 0).
Proof. intros l; split; [apply is_zero_sound | apply is_zero_complete]. Qed.

(* ---- constraints ------------------------------------------------------------------------- *)

Inductive op := Le | Lt | Eq.

Record constr := mkC { lhs : lin; cop : op; rhs : Q }.

Definition holds (a : assign) (c : constr) : Prop :=
  match cop c with
  | Le => eval a (lhs c) <= rhs c
  | Lt => eval a (lhs c) < rhs c
  | Eq => eval a (lhs c) == rhs c
  end.

Definition Qlt_bool (x y : Q) : bool := (Qnum x * QDen y <? Qnum y * QDen x)%Z.

Lemma Qlt_bool_iff : forall x y, Qlt_bool x y = true <-> x < y.
Proof. intros x y. unfold Qlt_bool, Qlt. apply Z.ltb_lt. Qed.

Definition is_lt (o : op) : bool := match o with Lt => true | _ => false end.

Definition coeff_ok (c : constr) (k : Q) : bool :=
  match cop c with
  | Eq => negb (Qeq_bool k 0)
  | _ => Qlt_bool 0 k
  end.

(* weighted sum: (sum of k_i * lhs_i, sum of k_i * rhs_i, some strict constraint used) *)
Fixpoint comb (cs : list constr) (ks : list Q) : option (lin * Q * bool) :=
  match cs, ks with
  | [], [] => Some ([], 0, false)
  | c :: cs', k :: ks' =>
      if coeff_ok c k then
        match comb cs' ks' with
        | Some (l, r, s) => Some (scale k (lhs c) ++ l, Qred (k * rhs c + r), orb (is_lt (cop c)) s)
        | None => None
        end
      else None
  | _, _ => None
  end.

(* the constant inequality  0 (< | <=) r  is false *)
Definition const_false (r : Q) (strict : bool) : bool :=
  if strict then Qle_bool r 0 else Qlt_bool r 0.

Definition farkas_check (cs : list constr) (ks : list Q) : bool :=
  match comb cs ks with
  | Some (l, r, s) => is_zero l && const_false r s
  | None => false
  end.

Definition all_hold (a : assign) (cs : list constr) : Prop := Forall (holds a) cs.

Lemma comb_bound : forall a cs ks l r s,
  comb cs ks = Some (l, r, s) -> all_hold a cs ->
  if s then eval a l < r else eval a l <= r.
Proof.
  induction cs as [|c cs IH]; intros ks l r s Hc Hall.
  - destruct ks; simpl in Hc; [|discriminate]. inversion Hc; subst. simpl. lra.
  - destruct ks as [|k ks]; simpl in Hc; [discriminate|].
    destruct (coeff_ok c k) eqn:Hk; [|discriminate].
    destruct (comb cs ks) as [[[l' r'] s']|] eqn:Hrec; [|discriminate].
    inversion Hc; subst; clear Hc.
    inversion Hall as [|? ? Hh Hall']; subst.
    specialize (IH ks l' r' s' Hrec Hall').
    assert (E : eval a (scale k (lhs c) ++ l') == k * eval a (lhs c) + eval a l')
      by (rewrite eval_app, eval_scale; reflexivity).
    unfold holds in Hh. unfold coeff_ok in Hk.
    pose proof (Qred_correct (k * rhs c + r')) as HR.
    destruct (cop c); simpl.
    + apply Qlt_bool_iff in Hk.
      assert (k * eval a (lhs c) <= k * rhs c) by (apply Qmult_le_l; assumption).
      destruct s'; rewrite E; lra.
    + apply Qlt_bool_iff in Hk.
      assert (k * eval a (lhs c) < k * rhs c) by (apply Qmult_lt_l; assumption).
      rewrite E. destruct s'; lra.
    + assert (k * eval a (lhs c) == k * rhs c) by (rewrite Hh; reflexivity).
      destruct s'; rewrite E; lra.
Qed.

Theorem farkas_check_sound : forall cs ks,
  farkas_check cs ks = true -> forall a, ~ all_hold a cs.
Proof.
  intros cs ks H a Hall. unfold farkas_check in H.
  destruct (comb cs ks) as [[[l r] s]|] eqn:Hc; [|discriminate].
  apply andb_true_iff in H. destruct H as [Hz Hf].
  pose proof (comb_bound a cs ks l r s Hc Hall) as Hb.
  pose proof (is_zero_sound l Hz a) as Hz'.
  unfold const_false in Hf. destruct s.
  - apply Qle_bool_iff in Hf. lra.
  - apply Qlt_bool_iff in Hf. lra.
Qed.

(* What an accepted certificate is, spelled out (the statement of property C26):
   every coefficient is positive (non-zero for an equality), the weighted sum of the left-hand sides
   is the zero polynomial, and the weighted sum of the right-hand sides r makes  0 (<|<=) r  false. *)
Definition weighted_lhs (cs : list constr) (ks : list Q) : lin :=
  concat (map (fun p => scale (snd p) (lhs (fst p))) (combine cs ks)).
Fixpoint weighted_rhs (cs : list constr) (ks : list Q) : Q :=
  match cs, ks with c :: cs', k :: ks' => k * rhs c + weighted_rhs cs' ks' | _, _ => 0 end.
Definition some_strict (cs : list constr) : bool := existsb (fun c => is_lt (cop c)) cs.

Lemma comb_spec : forall cs ks l r s, comb cs ks = Some (l, r, s) ->
  length cs = length ks /\
  Forall2 (fun c k => coeff_ok c k = true) cs ks /\
  l = weighted_lhs cs ks /\ r == weighted_rhs cs ks /\ s = some_strict cs.
Proof.
  induction cs as [|c cs IH]; intros ks l r s H.
  - destruct ks; simpl in H; [|discriminate]. inversion H; subst.
    repeat split; try reflexivity. constructor.
  - destruct ks as [|k ks]; simpl in H; [discriminate|].
    destruct (coeff_ok c k) eqn:Hk; [|discriminate].
    destruct (comb cs ks) as [[[l' r'] s']|] eqn:Hrec; [|discriminate].
    inversion H; subst; clear H.
    destruct (IH ks l' r' s' Hrec) as (Hlen & Hf & Hl & Hr & Hs).
    repeat split.
    + simpl. congruence.
    + constructor; assumption.
    + unfold weighted_lhs. simpl. f_equal. exact Hl.
    + simpl. rewrite Qred_correct, Hr. reflexivity.
    + simpl. congruence.
Qed.

Theorem farkas_check_spec : forall cs ks, farkas_check cs ks = true ->
  length cs = length ks /\
  Forall2 (fun c k => match cop c with Eq => ~ k == 0 | _ => 0 < k end) cs ks /\
  (forall a, eval a (weighted_lhs cs ks) == 0) /\
  (if some_strict cs then weighted_rhs cs ks <= 0 else weighted_rhs cs ks < 0).
Proof.
  intros cs ks H. unfold farkas_check in H.
  destruct (comb cs ks) as [[[l r] s]|] eqn:Hc; [|discriminate].
  apply andb_true_iff in H. destruct H as [Hz Hf].
  destruct (comb_spec cs ks l r s Hc) as (Hlen & Hf2 & Hl & Hr & Hs).
  repeat split.
  - exact Hlen.
  - clear - Hf2. induction Hf2 as [|c k cs ks Hck _ IH]; constructor; [|exact IH].
    unfold coeff_ok in Hck. destruct (cop c).
    + apply Qlt_bool_iff. exact Hck.
    + apply Qlt_bool_iff. exact Hck.
    + intros E. apply Qeq_bool_iff in E. rewrite E in Hck. discriminate.
  - subst l. apply is_zero_sound. exact Hz.
  - subst s. unfold const_false in Hf. destruct (some_strict cs).
    + apply Qle_bool_iff in Hf. rewrite <- Hr. exact Hf.
    + apply Qlt_bool_iff in Hf. rewrite <- Hr. exact Hf.
Qed.

(* and conversely: anything with these properties is accepted *)
Theorem farkas_check_complete : forall cs ks,
  length cs = length ks ->
  Forall2 (fun c k => match cop c with Eq => ~ k == 0 | _ => 0 < k end) cs ks ->
  (forall a, eval a (weighted_lhs cs ks) == 0) ->
  (if some_strict cs then weighted_rhs cs ks <= 0 else weighted_rhs cs ks < 0) ->
  farkas_check cs ks = true.
Proof.
  intros cs ks _ Hf Hz Hc.
  assert (Hcomb : exists r, comb cs ks = Some (weighted_lhs cs ks, r, some_strict cs) /\ r == weighted_rhs cs ks).
  { clear Hz Hc. induction Hf as [|c k cs ks Hck _ IH].
    - exists 0. split; reflexivity.
    - destruct IH as [r [IH1 IH2]]. simpl.
      assert (Hok : coeff_ok c k = true).
      { unfold coeff_ok. destruct (cop c).
        - apply Qlt_bool_iff. exact Hck.
        - apply Qlt_bool_iff. exact Hck.
        - destruct (Qeq_bool k 0) eqn:E; [|reflexivity]. apply Qeq_bool_iff in E. contradiction. }
      rewrite Hok, IH1. eexists. split; [reflexivity|].
      rewrite Qred_correct, IH2. reflexivity. }
  destruct Hcomb as [r [Hcomb Hr]]. unfold farkas_check. rewrite Hcomb.
  apply andb_true_iff. split.
  - apply is_zero_complete. exact Hz.
  - unfold const_false. destruct (some_strict cs).
    + apply Qle_bool_iff. rewrite Hr. exact Hc.
    + apply Qlt_bool_iff. rewrite Hr. exact Hc.
Qed.
