(* C29: how the difference-logic (STP) solver reads a linear atom, as the release build behaves.

   src/tsolvers/stpsolver/STPSolver_implementations.hpp:22-55   STPSolver<T>::parseRef
   src/tsolvers/stpsolver/STPSolver_implementations.hpp:57-96   declareAtom: vertices are looked up by the
                                                                 *term id* of parsed.x / parsed.y
   src/tsolvers/stpsolver/STPMapper_implementations.hpp:13-27   setVert: any PTRef is a vertex key (the
                                                                 isVar check is an assert)
   src/logics/ArithLogic.cc:693-718, 1196-1308                   mkBinaryLeq / sumToNormalized*: shape of atoms
   src/api/MainSolver.cc:486-495                                 QF_RDL / QF_IDL are the logics solved by STP
   src/logics/LogicFactory.h:80-92                               QFLogicToProperties (Arithmetic_t::Difference)

   src/logics/Logic.cc:778, 1553-1555                            arguments of commutative symbols are sorted by
                                                                 term id (so a product is [k, x] or [x, k])

   An LA atom is  c <= k1*x1 + ... + kn*xn ; the children of the sum are in the order the term has them
   (sorted by variable id), a child with coefficient 1 is the bare variable node, any other child is a
   product node whose two children are ordered by term id: the constant is child 0 exactly when it was
   created before the variable (flag cf; always the case for -1, which exists from the start).

   parseRef (asserts compiled out):
     rhs is a variable               -> x := rhs, y := undef
     rhs is a sum                    -> ix := (child 0 is a variable ? 0 : 1); x := child ix (WHATEVER node it is);
                                        mul := child (1-ix); y := mul[1]   (further children never read,
                                        coefficient of mul never read - mul[1] is the CONSTANT when the product
                                        is [x, k]; mul a bare variable: mul[1] is a read beyond the arguments
                                        of a 0-ary term = PR_oob)
     otherwise (a single product)    -> x := undef, y := rhs[1]
   and the edge  y --(-c)--> x  stands for  y - x <= -c.

   [strict = true] is the repaired variant (every assert of parseRef turned into a rejection).
   Constants are exact rationals here; their conversion to the edge-cost type is C27's subject.
   Definitions and proofs (small enough for one file). *)
From Coq Require Import ZArith QArith List Bool Lia Lqa.
Import ListNotations.
Local Open Scope Q_scope.

Definition var := positive.

(* a summand  k * x ; cf: the constant is child 0 of the product node *)
Record smd := mkS { s_k : Q; s_v : var; s_cf : bool }.
Record atom := mkAtom { a_c : Q; a_sum : list smd }.

Inductive node := NVar (v : var) | NTimes (k : Q) (v : var) (cf : bool) | NConst (k : Q).

Definition node_of (s : smd) : node :=
  if Qeq_bool (s_k s) 1 then NVar (s_v s) else NTimes (s_k s) (s_v s) (s_cf s).
(* child [1] of a product node *)
Definition child1 (k : Q) (v : var) (cf : bool) : node := if cf then NVar v else NConst k.

Definition is_var_node (n : node) : bool := match n with NVar _ => true | _ => false end.

(* a vertex of the STP graph: the implicit zero vertex (PTRef_Undef) or a term used as key *)
Inductive vertex := VZero | VTerm (n : node).

Inductive parsed :=
| PR (x y : vertex) (c : Q)      (* edge y --c--> x :  y - x <= c *)
| PR_oob (x : vertex) (c : Q)    (* y read out of the bounds of a 0-ary term: undefined behaviour *)
| PR_reject.                     (* strict variant: not a difference atom, exception *)

Definition is_m1 (k : Q) : bool := Qeq_bool k (-1).

Definition parseRef (strict : bool) (a : atom) : parsed :=
  let c := - a_c a in
  match map node_of (a_sum a) with
  | [] => PR_reject                                   (* no such atom: mkLeq folds constants *)
  | [n] => match n with
           | NVar x => PR (VTerm (NVar x)) VZero c
           | NTimes k y cf => if strict && negb (is_m1 k && cf) then PR_reject else PR VZero (VTerm (child1 k y cf)) c
           | NConst _ => PR_reject
           end
  | n0 :: n1 :: rest =>
      let xn := if is_var_node n0 then n0 else n1 in
      let mul := if is_var_node n0 then n1 else n0 in
      if strict && negb (match rest with [] => true | _ => false end) then PR_reject
      else if strict && negb (is_var_node xn) then PR_reject
      else match mul with
           | NVar _ => if strict then PR_reject else PR_oob (VTerm xn) c
           | NTimes k y cf => if strict && negb (is_m1 k && cf) then PR_reject
                              else PR (VTerm xn) (VTerm (child1 k y cf)) c
           | NConst _ => PR_reject
           end
  end.

(* ---- semantics ---- *)
Definition env := var -> Q.
Fixpoint sum_eval (s : env) (l : list smd) : Q :=
  match l with [] => 0 | m :: r => s_k m * s (s_v m) + sum_eval s r end.
Definition holds (s : env) (a : atom) : Prop := a_c a <= sum_eval s (a_sum a).

Definition venv := node -> Q.
Definition vval (r : venv) (v : vertex) : Q := match v with VZero => 0 | VTerm n => r n end.
Definition holds_parsed (r : venv) (p : parsed) : Prop :=
  match p with PR x y c => vval r y - vval r x <= c | _ => False end.
(* the most charitable reading of a term vertex: its true value *)
Definition lift (s : env) : venv :=
  fun n => match n with NVar v => s v | NTimes k v _ => k * s v | NConst k => k end.

Definition vertex_is_var (v : vertex) : bool :=
  match v with VZero => true | VTerm (NVar _) => true | VTerm _ => false end.
Definition parsed_on_vars (p : parsed) : bool :=
  match p with PR x y _ => vertex_is_var x && vertex_is_var y | _ => false end.

(* ---- the difference fragment ---- *)
Definition is_p1 (k : Q) : bool := Qeq_bool k 1.
Definition is_dl_atomb (a : atom) : bool :=
  match a_sum a with
  | [m] => is_p1 (s_k m) || (is_m1 (s_k m) && s_cf m)
  | [m1; m2] => ((is_p1 (s_k m1) && is_m1 (s_k m2) && s_cf m2) || (is_m1 (s_k m1) && s_cf m1 && is_p1 (s_k m2)))
                && negb (Pos.eqb (s_v m1) (s_v m2))
  | _ => false
  end.
Definition is_dl_atom (a : atom) : Prop := is_dl_atomb a = true.

Definition linear (a : atom) : Prop :=
  a_sum a <> [] /\ Forall (fun s => ~ s_k s == 0) (a_sum a) /\ NoDup (map s_v (a_sum a)).

Fixpoint nodupb (l : list var) : bool :=
  match l with [] => true | x :: r => negb (existsb (Pos.eqb x) r) && nodupb r end.
Definition linearb (a : atom) : bool :=
  match a_sum a with [] => false | _ => true end
  && forallb (fun s => negb (Qeq_bool (s_k s) 0)) (a_sum a) && nodupb (map s_v (a_sum a)).

(* ---- logics and the front-end guard ---- *)
Inductive logic := QF_IDL | QF_RDL | QF_LIA | QF_LRA | QF_UFIDL | QF_UFRDL | QF_UFLIA | QF_UFLRA.
(* MainSolver::createTheory: only these two get the STP solver (QF_UFIDL / QF_UFRDL get UFLATheory) *)
Definition uses_stp (L : logic) : bool := match L with QF_IDL | QF_RDL => true | _ => false end.
(* QFLogicToProperties: arithType = Difference *)
Definition declared_difference (L : logic) : bool :=
  match L with QF_IDL | QF_RDL | QF_UFIDL | QF_UFRDL => true | _ => false end.
(* what Interpret / ArithLogic accept: guard_fixed = false is the code as it is (every linear atom is
   accepted in every arithmetic logic), guard_fixed = true the repaired front end *)
Definition accepts_in_logic (guard_fixed : bool) (L : logic) (a : atom) : bool :=
  if guard_fixed && uses_stp L then is_dl_atomb a else true.

Definition atom_handled_correctly (L : logic) (a : atom) : Prop :=
  uses_stp L = true ->
  parsed_on_vars (parseRef false a) = true /\
  forall s, holds_parsed (lift s) (parseRef false a) <-> holds s a.

(* satisfiability of atom sets / of the graph the solver builds *)
Definition la_sat (l : list atom) : Prop := exists s : env, Forall (holds s) l.
Definition dl_sat (l : list parsed) : Prop := exists r : venv, Forall (holds_parsed r) l.

(* ================================ proofs ================================ *)

Lemma is_p1_iff k : is_p1 k = true <-> k == 1.
Proof. apply Qeq_bool_iff. Qed.
Lemma is_m1_iff k : is_m1 k = true <-> k == -1.
Proof. apply Qeq_bool_iff. Qed.

Lemma node_of_p1 m : s_k m == 1 -> node_of m = NVar (s_v m).
Proof. intro H. unfold node_of. apply Qeq_bool_iff in H. now rewrite H. Qed.
Lemma node_of_not1 m : Qeq_bool (s_k m) 1 = false -> node_of m = NTimes (s_k m) (s_v m) (s_cf m).
Proof. intro H. unfold node_of. now rewrite H. Qed.
Lemma m1_not1 k : is_m1 k = true -> Qeq_bool k 1 = false.
Proof.
  intro H. apply is_m1_iff in H. destruct (Qeq_bool k 1) eqn:E; [|reflexivity].
  apply Qeq_bool_iff in E. rewrite E in H. discriminate.
Qed.

Lemma dl_parse_sound_lemma : forall strict a, is_dl_atom a ->
  parsed_on_vars (parseRef strict a) = true /\
  forall s, holds_parsed (lift s) (parseRef strict a) <-> holds s a.
Proof.
  intros strict [c l] H. unfold is_dl_atom, is_dl_atomb in H; simpl in H.
  destruct l as [|m1 [|m2 [|]]]; try discriminate.
  - apply orb_true_iff in H. destruct H as [H|H].
    + apply is_p1_iff in H. unfold parseRef, holds; simpl. rewrite (node_of_p1 _ H).
      split; [reflexivity|]. intro s. simpl. rewrite H. split; intro; lra.
    + apply andb_true_iff in H. destruct H as [Hb Hc]. pose proof (m1_not1 _ Hb) as Hn.
      unfold parseRef, holds; simpl. rewrite (node_of_not1 _ Hn). rewrite Hb, Hc. rewrite andb_false_r. simpl.
      split; [reflexivity|]. intro s. apply is_m1_iff in Hb. rewrite Hb. split; intro; lra.
  - apply andb_true_iff in H. destruct H as [H _]. apply orb_true_iff in H.
    destruct H as [H|H]; apply andb_true_iff in H; destruct H as [H H3].
    + apply andb_true_iff in H. destruct H as [H1 H2]. apply is_p1_iff in H1. pose proof (m1_not1 _ H2) as Hn.
      unfold parseRef, holds; simpl. rewrite (node_of_p1 _ H1), (node_of_not1 _ Hn). simpl.
      rewrite H2, H3. rewrite !andb_false_r. simpl. split; [reflexivity|]. intro s.
      apply is_m1_iff in H2. rewrite H1, H2. split; intro; lra.
    + apply andb_true_iff in H. destruct H as [H1 H2]. apply is_p1_iff in H3. pose proof (m1_not1 _ H1) as Hn.
      unfold parseRef, holds; simpl. rewrite (node_of_not1 _ Hn), (node_of_p1 _ H3). simpl.
      rewrite H1, H2. rewrite !andb_false_r. simpl. split; [reflexivity|]. intro s.
      apply is_m1_iff in H1. rewrite H1, H3. split; intro; lra.
Qed.

(* the strict parser accepts exactly the difference atoms (on linear atoms, i.e. distinct variables) *)
Lemma strict_rejects_lemma : forall a, NoDup (map s_v (a_sum a)) -> is_dl_atomb a = false -> parseRef true a = PR_reject.
Proof.
  intros [c l] ND H. unfold is_dl_atomb in H; simpl in *. unfold parseRef; simpl.
  destruct l as [|m1 [|m2 rest]]; simpl.
  - reflexivity.
  - apply orb_false_iff in H. destruct H as [H1 H2]. unfold is_p1 in H1. unfold node_of. rewrite H1. rewrite H2. reflexivity.
  - destruct rest as [|s3 rest]; [|reflexivity].
    assert (Hne : Pos.eqb (s_v m1) (s_v m2) = false).
    { apply Pos.eqb_neq. intro E. inversion ND as [|? ? Hni _]; subst. apply Hni. simpl. left. symmetry. exact E. }
    rewrite Hne in H. simpl in H. rewrite andb_true_r in H. apply orb_false_iff in H. destruct H as [Ha Hb].
    unfold node_of, is_p1 in *.
    destruct (Qeq_bool (s_k m1) 1) eqn:E1; destruct (Qeq_bool (s_k m2) 1) eqn:E2; simpl in *; try reflexivity.
    + rewrite Ha. reflexivity.
    + rewrite andb_true_r in Hb. rewrite Hb. reflexivity.
Qed.

(* ---- witnesses ---- *)
Definition x1 : var := 1%positive.
Definition x2 : var := 2%positive.
Definition x3 : var := 3%positive.
(* 2x - y <= 0   i.e.   0 <= -2x + y ; the product is [x, -2] (the constant is created after x) *)
Definition w_scaled : atom := mkAtom 0 [mkS (-2 # 1) x1 false; mkS 1 x2 true].
(* the same atom when the constant existed before x: product [-2, x] *)
Definition w_scaled_cf : atom := mkAtom 0 [mkS (-2 # 1) x1 true; mkS 1 x2 true].
(* x + y <= 1         i.e.  -1 <= -x - y *)
Definition w_sum : atom := mkAtom (-1 # 1) [mkS (-1 # 1) x1 true; mkS (-1 # 1) x2 true].
(* x + z - y <= 0   i.e.   0 <= -x + y - z *)
Definition w_three : atom := mkAtom 0 [mkS (-1 # 1) x1 true; mkS 1 x2 true; mkS (-1 # 1) x3 true].
Definition w_lb (v : var) : atom := mkAtom 1 [mkS 1 v true].                   (* v >= 1 *)
Definition w_ub (v : var) : atom := mkAtom (-1 # 1) [mkS (-1 # 1) v true].     (* v <= 1 *)

Lemma linearb_sound a : linearb a = true -> linear a.
Proof.
  unfold linearb, linear. intro H. apply andb_true_iff in H. destruct H as [H H3]. apply andb_true_iff in H. destruct H as [H1 H2].
  split; [destruct (a_sum a); [discriminate|discriminate]|]. split.
  - apply Forall_forall. intros s Hs. rewrite forallb_forall in H2. specialize (H2 s Hs).
    apply negb_true_iff in H2. intro E. apply Qeq_bool_iff in E. congruence.
  - clear H1 H2. induction (map s_v (a_sum a)) as [|v r IH]; [constructor|].
    simpl in H3. apply andb_true_iff in H3. destruct H3 as [Ha Hb]. constructor; [|auto].
    intro Hin. apply negb_true_iff in Ha. assert (existsb (Pos.eqb v) r = true); [|congruence].
    apply existsb_exists. exists v. split; [assumption|apply Pos.eqb_refl].
Qed.

Definition s11 : env := fun _ => 1.

Lemma dl_parse_refuted_lemma : exists a, linear a /\ ~ is_dl_atom a /\
  exists s, ~ (holds_parsed (lift s) (parseRef false a) <-> holds s a).
Proof.
  exists w_scaled_cf. split; [apply linearb_sound; reflexivity|]. split; [unfold is_dl_atom; vm_compute; discriminate|].
  exists s11. intros [H _].
  assert (Hp : holds_parsed (lift s11) (parseRef false w_scaled_cf)) by (vm_compute; discriminate).
  specialize (H Hp). vm_compute in H. apply H. reflexivity.
Qed.

(* with the product [x, -2] the edge is drawn to the vertex of the CONSTANT -2 *)
Lemma dl_parse_scaled_const_vertex : parseRef false w_scaled = PR (VTerm (NVar x2)) (VTerm (NConst (-2 # 1))) (- 0).
Proof. reflexivity. Qed.

Lemma dl_parse_refuted_three_lemma : linear w_three /\ ~ is_dl_atom w_three /\
  exists s, ~ (holds_parsed (lift s) (parseRef false w_three) <-> holds s w_three).
Proof.
  split; [apply linearb_sound; reflexivity|]. split; [unfold is_dl_atom; vm_compute; discriminate|].
  exists s11. intros [H _].
  assert (Hp : holds_parsed (lift s11) (parseRef false w_three)) by (vm_compute; discriminate).
  specialize (H Hp). vm_compute in H. apply H. reflexivity.
Qed.

(* x + y <= 1, x >= 1, y >= 1: no solution, yet the graph built from the parse has one, because the
   summand (-1)*y is used as a vertex of its own, unrelated to the vertex of y *)
Definition w_set : list atom := [w_sum; w_lb x1; w_lb x2].

Lemma w_set_la_unsat : ~ la_sat w_set.
Proof.
  intros [s H]. inversion H as [|? ? H1 H']; subst. inversion H' as [|? ? H2 H'']; subst. inversion H'' as [|? ? H3 _]; subst.
  unfold holds, w_sum, w_lb, x1, x2 in *; simpl in *. lra.
Qed.

Definition r_wit : venv := fun n => match n with NVar _ => 1 | _ => 0 end.

Lemma w_set_dl_sat : dl_sat (map (parseRef false) w_set).
Proof. exists r_wit. repeat constructor; vm_compute; discriminate. Qed.

Lemma w_sum_not_on_vars : parsed_on_vars (parseRef false w_sum) = false.
Proof. reflexivity. Qed.

Lemma c29_reject_or_correct_lemma : forall L a, linear a -> accepts_in_logic true L a = true -> atom_handled_correctly L a.
Proof.
  intros L a _ Hacc Hstp. unfold accepts_in_logic in Hacc. rewrite Hstp in Hacc. simpl in Hacc.
  exact (dl_parse_sound_lemma false a Hacc).
Qed.

Lemma c29_reject_or_correct_refuted_lemma : exists L a, linear a /\ accepts_in_logic false L a = true /\ ~ atom_handled_correctly L a.
Proof.
  exists QF_IDL, w_sum. split; [apply linearb_sound; reflexivity|]. split; [reflexivity|].
  intro H. destruct (H eq_refl) as [Hv _]. rewrite w_sum_not_on_vars in Hv. discriminate.
Qed.

Lemma c29_strict_lemma : forall a, linear a ->
  parseRef true a = PR_reject \/
  (parsed_on_vars (parseRef true a) = true /\ forall s, holds_parsed (lift s) (parseRef true a) <-> holds s a).
Proof.
  intros a [_ [_ ND]]. destruct (is_dl_atomb a) eqn:E.
  - right. exact (dl_parse_sound_lemma true a E).
  - left. exact (strict_rejects_lemma a ND E).
Qed.

Lemma dl_wrong_sat_witness_lemma : Forall linear w_set /\ ~ la_sat w_set /\ dl_sat (map (parseRef false) w_set).
Proof.
  split.
  - unfold w_set. constructor; [apply linearb_sound; reflexivity|].
    constructor; [apply linearb_sound; reflexivity|]. constructor; [apply linearb_sound; reflexivity|constructor].
  - split; [exact w_set_la_unsat | exact w_set_dl_sat].
Qed.
