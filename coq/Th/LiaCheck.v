(* Linear-arithmetic literals of the solver  (atom  (<= c s)  with a polarity)  as linear constraints,
   with the integer tightening LASolver applies to bounds of integer terms
   (/repo/src/tsolvers/lasolver/LASolver.cc: addBound, getBoundsValueForIntVar / ...ForRealVar), and the
   checkers for LA conflicts / LA theory clauses built on Farkas.farkas_check.                         *)
From Coq Require Import QArith Qreduction Qround List Bool PArith ZArith Lia Lqa Setoid.
From OsmtV.Th Require Import Farkas.
Import ListNotations.
Local Open Scope Q_scope.

Record lalit := mkL { lterm : lin; lconst : Q; lpol : bool }.   (* (<= lconst lterm), polarity *)

Definition atom_true (a : assign) (l : lalit) : Prop := lconst l <= eval a (lterm l).
Definition lit_true (a : assign) (l : lalit) : Prop := if lpol l then atom_true a l else ~ atom_true a l.

Definition negate (l : lalit) : lalit := mkL (lterm l) (lconst l) (negb (lpol l)).

(* the bound the solver holds for a literal, as a constraint on the literal's term s:
     real:  c <= s  ~>  -s <= -c              not (c <= s)  ~>  s < c
     int :  c <= s  ~>  -s <= -ceil(c)        not (c <= s)  ~>  s <= ceil(c) - 1          *)
Definition lit_constraint (isInt : bool) (l : lalit) : constr :=
  if isInt then
    let k := inject_Z (Qceiling (lconst l)) in
    if lpol l then mkC (scale (-1) (lterm l)) Le (- k) else mkC (lterm l) Le (k - 1)
  else
    if lpol l then mkC (scale (-1) (lterm l)) Le (- lconst l) else mkC (lterm l) Lt (lconst l).

Definition is_integer (q : Q) : Prop := exists z : Z, q == inject_Z z.
Definition int_assign (a : assign) : Prop := forall v, is_integer (a v).

Definition coeff_integral (c : Q) : bool := Pos.eqb (Qden (Qred c)) 1.
Definition lin_integral (l : lin) : bool := forallb (fun p => coeff_integral (snd p)) l.

Lemma coeff_integral_spec : forall c, coeff_integral c = true -> is_integer c.
Proof.
  intros c H. unfold coeff_integral in H. apply Pos.eqb_eq in H.
  exists (Qnum (Qred c)). rewrite <- (Qred_correct c) at 1.
  destruct (Qred c) as [n d]. simpl in *. subst d. reflexivity.
Qed.

Lemma is_integer_plus : forall x y, is_integer x -> is_integer y -> is_integer (x + y).
Proof.
  intros x y [zx Hx] [zy Hy]. exists (zx + zy)%Z. rewrite inject_Z_plus, Hx, Hy. reflexivity.
Qed.

Lemma is_integer_mult : forall x y, is_integer x -> is_integer y -> is_integer (x * y).
Proof.
  intros x y [zx Hx] [zy Hy]. exists (zx * zy)%Z. rewrite inject_Z_mult, Hx, Hy. reflexivity.
Qed.

Lemma eval_integral : forall a l, int_assign a -> lin_integral l = true -> is_integer (eval a l).
Proof.
  induction l as [|[v c] l IH]; simpl; intros Ha H.
  - exists 0%Z. reflexivity.
  - apply andb_true_iff in H. destruct H as [H1 H2]. simpl in H1.
    apply is_integer_plus; [|apply IH; assumption].
    apply is_integer_mult; [apply coeff_integral_spec; exact H1 | apply Ha].
Qed.

Lemma ceiling_le_int : forall (q : Q) (z : Z), q <= inject_Z z <-> (Qceiling q <= z)%Z.
Proof.
  intros q z. split; intros H.
  - rewrite <- (Qceiling_Z z). apply Qceiling_resp_le. exact H.
  - apply Qle_trans with (inject_Z (Qceiling q)); [apply Qle_ceiling|].
    rewrite <- Zle_Qle. exact H.
Qed.

Lemma lit_constraint_real : forall a l, holds a (lit_constraint false l) <-> lit_true a l.
Proof.
  intros a [s c p]. unfold lit_constraint, lit_true, atom_true, holds. simpl.
  destruct p; simpl.
  - rewrite eval_scale. split; intros H; lra.
  - split; intros H; lra.
Qed.

Lemma lit_constraint_int : forall a l, is_integer (eval a (lterm l)) ->
  (holds a (lit_constraint true l) <-> lit_true a l).
Proof.
  intros a [s c p] [z Hz]. unfold lit_constraint, lit_true, atom_true, holds. simpl in *.
  destruct p; simpl.
  - rewrite eval_scale, Hz. rewrite ceiling_le_int.
    rewrite Zle_Qle. split; intros H; lra.
  - rewrite Hz. rewrite ceiling_le_int.
    assert (E : inject_Z (Qceiling c) - 1 == inject_Z (Qceiling c - 1)).
    { unfold Zminus. rewrite inject_Z_plus. simpl. unfold Qminus. reflexivity. }
    rewrite E, <- Zle_Qle. lia.
Qed.

(* ---- conflicts (conjunctions of literals) with coefficients ------------------------------- *)

Definition la_conflict_check (isInt : bool) (lits : list lalit) (ks : list Q) : bool :=
  (negb isInt || forallb (fun l => lin_integral (lterm l)) lits) &&
  farkas_check (map (lit_constraint isInt) lits) ks.

Theorem la_conflict_check_sound_real : forall lits ks,
  la_conflict_check false lits ks = true -> forall a, ~ Forall (lit_true a) lits.
Proof.
  intros lits ks H a Hall. unfold la_conflict_check in H. simpl in H.
  apply (farkas_check_sound _ _ H a). unfold all_hold.
  apply Forall_map. eapply Forall_impl; [|exact Hall].
  intros l Hl. apply lit_constraint_real. exact Hl.
Qed.

Theorem la_conflict_check_sound_int : forall lits ks,
  la_conflict_check true lits ks = true -> forall a, int_assign a -> ~ Forall (lit_true a) lits.
Proof.
  intros lits ks H a Ha Hall. unfold la_conflict_check in H. simpl in H.
  apply andb_true_iff in H. destruct H as [Hint H].
  apply (farkas_check_sound _ _ H a). unfold all_hold.
  apply Forall_map. rewrite forallb_forall in Hint. rewrite Forall_forall in *.
  intros l Hin. apply lit_constraint_int.
  - apply eval_integral; [exact Ha | apply Hint; exact Hin].
  - apply Hall. exact Hin.
Qed.

(* C26: an accepted LA conflict has positive coefficients throughout *)
Theorem la_conflict_check_positive : forall isInt lits ks,
  la_conflict_check isInt lits ks = true -> length lits = length ks /\ Forall (fun k => 0 < k) ks.
Proof.
  intros isInt lits ks H. unfold la_conflict_check in H.
  apply andb_true_iff in H. destruct H as [_ H].
  destruct (farkas_check_spec _ _ H) as (Hlen & Hf & _).
  rewrite map_length in Hlen. split; [exact Hlen|].
  clear - Hf. remember (map (lit_constraint isInt) lits) as cs eqn:E.
  revert lits E. induction Hf as [|c k cs ks Hck _ IH]; intros lits E.
  - constructor.
  - destruct lits as [|l lits]; [discriminate|]. simpl in E. inversion E; subst.
    constructor; [|eapply IH; reflexivity].
    unfold lit_constraint in Hck. destruct isInt, (lpol l); simpl in Hck; exact Hck.
Qed.

(* ---- theory clauses (disjunctions of literals): valid iff the negation is a conflict ------- *)

Definition la_clause_check (isInt : bool) (clause : list lalit) (ks : list Q) : bool :=
  la_conflict_check isInt (map negate clause) ks.

Lemma lit_true_negate : forall a l, lit_true a (negate l) <-> ~ lit_true a l.
Proof.
  intros a [s c p]. unfold lit_true, negate, atom_true. simpl. destruct p; simpl.
  - tauto.
  - split; [tauto|]. intros H. destruct (Qlt_le_dec (eval a s) c); [lra | assumption].
Qed.

Lemma lit_true_dec : forall a l, lit_true a l \/ ~ lit_true a l.
Proof.
  intros a [s c p]. unfold lit_true, atom_true. simpl.
  destruct (Qlt_le_dec (eval a s) c); destruct p; simpl; [right|left|left|right]; lra.
Qed.

Lemma not_all_negated_exists : forall a cl, ~ Forall (lit_true a) (map negate cl) -> Exists (lit_true a) cl.
Proof.
  induction cl as [|l cl IH]; simpl; intros H.
  - exfalso. apply H. constructor.
  - destruct (lit_true_dec a l) as [Hl|Hl].
    + left. exact Hl.
    + right. apply IH. intros Hall. apply H. constructor; [|exact Hall].
      apply lit_true_negate. exact Hl.
Qed.

Theorem lra_clause_check_sound : forall cl ks,
  la_clause_check false cl ks = true -> forall a, Exists (lit_true a) cl.
Proof.
  intros cl ks H a. apply not_all_negated_exists.
  exact (la_conflict_check_sound_real _ _ H a).
Qed.

Theorem lia_check_sound : forall cl ks,
  la_clause_check true cl ks = true -> forall a, int_assign a -> Exists (lit_true a) cl.
Proof.
  intros cl ks H a Ha. apply not_all_negated_exists.
  exact (la_conflict_check_sound_int _ _ H a Ha).
Qed.

(* branch-and-bound / cut split clauses  (t <= k) \/ (t >= k+1)  for an integral term t and ANY rational k
   (LASolver::checkIntegersAndSplit: k = floor of the current value; cutToSplit: k from the cut) :
   printed as the atoms  (<= (-k) (-t))  and  (<= (k+1) t), both positive. *)
Definition branch_clause (t : lin) (k : Q) : list lalit :=
  [ mkL (scale (-1) t) (- k) true ; mkL t (k + 1) true ].

Theorem branch_clause_valid : forall t k a,
  int_assign a -> lin_integral t = true -> is_integer k -> Exists (lit_true a) (branch_clause t k).
Proof.
  intros t k a Ha Ht [zk Hk].
  destruct (eval_integral a t Ha Ht) as [z Hz].
  unfold branch_clause. destruct (Z_le_gt_dec z zk) as [Hle|Hgt].
  - left. unfold lit_true, atom_true. simpl. rewrite eval_scale, Hz, Hk.
    rewrite Zle_Qle in Hle. lra.
  - right. left. unfold lit_true, atom_true. simpl. rewrite Hz, Hk.
    assert (zk + 1 <= z)%Z by lia. rewrite Zle_Qle, inject_Z_plus in H. change (inject_Z 1) with 1 in H. lra.
Qed.

Lemma coeff_integral_opp : forall c, coeff_integral c = true -> coeff_integral (-1 * c) = true.
Proof.
  intros c H. unfold coeff_integral in *.
  assert (E : Qred (-1 * c) = Qopp (Qred c)).
  { rewrite <- Qred_opp. apply Qred_complete. ring. }
  rewrite E. destruct (Qred c). exact H.
Qed.

Lemma lin_integral_opp : forall t, lin_integral t = true -> lin_integral (scale (-1) t) = true.
Proof.
  induction t as [|[v c] t IH]; intros H; [reflexivity|].
  unfold lin_integral in *. cbn [scale map forallb fst snd] in *.
  apply andb_true_iff in H. destruct H as [H1 H2].
  apply andb_true_iff. split; [apply coeff_integral_opp; exact H1 | apply IH; exact H2].
Qed.

(* ... and the checker accepts every such clause with coefficients 1, 1 *)
Theorem branch_clause_checked : forall t k,
  lin_integral t = true -> is_integer k -> la_clause_check true (branch_clause t k) [1; 1] = true.
Proof.
  intros t k Ht [zk Hk]. unfold la_clause_check, la_conflict_check. simpl.
  pose proof (lin_integral_opp t Ht) as Hs.
  rewrite Hs, Ht. simpl.
  apply farkas_check_complete; simpl.
  - reflexivity.
  - repeat constructor.
  - intros a. unfold weighted_lhs. simpl. rewrite !eval_app, !eval_scale. simpl. ring.
  - assert (E1 : Qceiling (- k) = (- zk)%Z).
    { rewrite <- (Qceiling_Z (- zk)). apply Qceiling_comp. rewrite Hk, inject_Z_opp. reflexivity. }
    assert (E2 : Qceiling (k + 1) = (zk + 1)%Z).
    { rewrite <- (Qceiling_Z (zk + 1)). apply Qceiling_comp. rewrite Hk, inject_Z_plus. reflexivity. }
    rewrite E1, E2, inject_Z_opp, inject_Z_plus. simpl. change (inject_Z 1) with 1. lra.
Qed.
