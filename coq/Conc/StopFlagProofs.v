(* C25: proofs about the stop-flag control skeleton (StopFlag.v). *)
From Coq Require Import List Arith Bool Lia.
Import ListNotations.
From OsmtV.Conc Require Import StopFlag.

Section Proofs.
  Variable S : Type.
  Variable pac : bool.
  Variable elim_work : S -> S * elim_out.
  Variable elim_cleanup : S -> S.
  Variable search_init : S -> S * option lbool.
  Variable prop : S -> S * bool.
  Variable rest : S -> S * outcome.
  Variable cancel0 : S -> S.
  Variable restart : S -> S.

  Notation step_ps := (step_ps S pac elim_work elim_cleanup search_init prop rest cancel0 restart).
  Notation step := (step S pac elim_work elim_cleanup search_init prop rest cancel0 restart).
  Notation run := (run S pac elim_work elim_cleanup search_init prop rest cancel0 restart).

  Definition flag_at (f : flagfn) (c : cfg S) : bool := f (c_steps c) (c_polls c).

  (* ---------- basic facts ---------- *)
  Lemma step_done : forall f c r, c_pc c = PDone r -> step f c = c.
  Proof. intros f [p s i j] r H; simpl in *; subst; reflexivity. Qed.

  Lemma run_done : forall fuel f c r, c_pc c = PDone r -> run fuel f c = c.
  Proof. induction fuel; intros; simpl; trivial. rewrite (step_done f c r H). eauto. Qed.

  Lemma run_plus : forall a b f c, run (a + b) f c = run b f (run a f c).
  Proof. induction a; intros; simpl; trivial. Qed.

  (* a micro-step reads the flag only at a poll *)
  Lemma step_indep : forall f g c,
    (is_poll (c_pc c) = true -> flag_at f c = flag_at g c) -> step f c = step g c.
  Proof.
    intros f g [p s i j] H. unfold flag_at in H. simpl in H.
    destruct p; unfold StopFlag.step, StopFlag.step_ps; simpl in *; try reflexivity; rewrite H by reflexivity; reflexivity.
  Qed.

  Lemma step_counts : forall f c, c_steps c <= c_steps (step f c) /\ c_polls c <= c_polls (step f c).
  Proof.
    intros f [p s i j]. unfold StopFlag.step. destruct p; simpl; lia.
  Qed.

  (* ---------- once a poll has seen the request (and it stays visible) ---------- *)
  (* distance to `return l_Undef` *)
  Definition dist (p : pc) : option nat :=
    match p with
    | PDone LUndef => Some 0
    | PSolveHead => Some 1
    | PElimCleanup => Some 2
    | PAfterSearch LUndef => Some 2
    | PSearchBreak => Some 3
    | _ => None
    end.

  Lemma dist_step : forall f c d, monotone f -> flag_at f c = true -> dist (c_pc c) = Some d ->
    dist (c_pc (step f c)) = Some (pred d) /\ flag_at f (step f c) = true.
  Proof.
    intros f c d Hm Hf Hd. split.
    - destruct c as [p s i j]. unfold flag_at in Hf. simpl in *.
      destruct p as [| | | | | | | | | |r|r]; try discriminate; try destruct r; try discriminate;
        simpl in *; rewrite ?Hf; simpl; injection Hd as <-; reflexivity.
    - destruct (step_counts f c). unfold flag_at in *. eapply Hm; eauto.
  Qed.

  Lemma dist_run : forall fuel f c d, monotone f -> flag_at f c = true -> dist (c_pc c) = Some d ->
    dist (c_pc (run fuel f c)) = Some (d - fuel).
  Proof.
    induction fuel; intros f c d Hm Hf Hd; simpl. { now rewrite Nat.sub_0_r. }
    destruct (dist_step f c d Hm Hf Hd) as [H1 H2].
    rewrite (IHfuel f _ _ Hm H2 H1). f_equal. lia.
  Qed.

  Lemma poll_sees_stop : forall f c, monotone f -> is_poll (c_pc c) = true -> flag_at f c = true ->
    exists d, d <= 3 /\ dist (c_pc (step f c)) = Some d /\ flag_at f (step f c) = true.
  Proof.
    intros f c Hm Hp Hf.
    assert (F : flag_at f (step f c) = true).
    { destruct (step_counts f c). unfold flag_at in *. eapply Hm; eauto. }
    destruct c as [p s i j]. unfold flag_at in Hf. simpl in *.
    destruct p; try discriminate; simpl; rewrite Hf; simpl.
    - exists 2; auto.
    - exists 0; auto.
    - exists 3; auto.
    - exists 3; auto.
  Qed.

  Lemma dist_result : forall (c : cfg S) d, dist (c_pc c) = Some d -> result c = None \/ result c = Some LUndef.
  Proof.
    intros [p s i j] d H. unfold result. simpl in *.
    destruct p as [| | | | | | | | | |r|r]; try discriminate; auto. destruct r; try discriminate; auto.
  Qed.

  Lemma stopped_run : forall fuel f c, monotone f -> is_poll (c_pc c) = true -> flag_at f c = true ->
    result (run (Datatypes.S fuel) f c) = None \/ result (run (Datatypes.S fuel) f c) = Some LUndef.
  Proof.
    intros fuel f c Hm Hp Hf. simpl.
    destruct (poll_sees_stop f c Hm Hp Hf) as (d & _ & Hd & Hf').
    eapply dist_result. apply dist_run; eauto.
  Qed.

  Lemma stopped_done4 : forall fuel f c, monotone f -> is_poll (c_pc c) = true -> flag_at f c = true ->
    result (run (4 + fuel) f c) = Some LUndef.
  Proof.
    intros fuel f c Hm Hp Hf.
    destruct (poll_sees_stop f c Hm Hp Hf) as (d & Hle & Hd & Hf').
    assert (E : run (4 + fuel) f c = run (3 + fuel) f (step f c)) by reflexivity.
    rewrite E. clear E.
    pose proof (dist_run (3 + fuel) f _ d Hm Hf' Hd) as H.
    replace (d - (3 + fuel)) with 0 in H by lia.
    remember (run (3 + fuel) f (step f c)) as c'. clear - H.
    unfold result. destruct (c_pc c') as [| | | | | | | | | |r|r]; try discriminate;
      destruct r; try discriminate; reflexivity.
  Qed.

  (* ---------- Theorem A: a stop request never changes a definitive answer ---------- *)
  Theorem stop_answer_safe_gen : forall fuel f c r, monotone f ->
    result (run fuel f c) = Some r -> r = LUndef \/ result (run fuel nostop c) = Some r.
  Proof.
    induction fuel; intros f c r Hm H. { right. exact H. }
    destruct (is_poll (c_pc c) && flag_at f c) eqn:E.
    - apply andb_prop in E as [Hp Hf]. left.
      destruct (stopped_run fuel f c Hm Hp Hf) as [H'|H']; rewrite H' in H; [discriminate | now injection H as <-].
    - simpl in *. rewrite (step_indep nostop f c).
      + apply (IHfuel f); trivial.
      + intro Hp. rewrite Hp in E. simpl in E. now rewrite E.
  Qed.

  Lemma monotone_stop_at_step : forall k, monotone (stop_at_step k).
  Proof. unfold monotone, stop_at_step. intros. apply Nat.leb_le. apply Nat.leb_le in H1. lia. Qed.
  Lemma monotone_stop_at_poll : forall n, monotone (stop_at_poll n).
  Proof. unfold monotone, stop_at_poll. intros. apply Nat.leb_le. apply Nat.leb_le in H1. lia. Qed.

  Theorem stop_answer_safe : forall k fuel c r,
    result (run fuel (stop_at_step k) c) = Some r -> r = LUndef \/ result (run fuel nostop c) = Some r.
  Proof. intros. eapply stop_answer_safe_gen; eauto using monotone_stop_at_step. Qed.

  (* ---------- exact prediction: a request visible at poll n, with n below the number of polls of
     the undisturbed run, gives unknown; otherwise it is not seen at all ---------- *)
  Theorem stop_effective : forall n fuel c,
    c_polls c <= n -> n < c_polls (run fuel nostop c) ->
    result (run (fuel + 4) (stop_at_poll n) c) = Some LUndef.
  Proof.
    induction fuel; intros c Hle Hlt; simpl in Hlt. { lia. }
    destruct (is_poll (c_pc c) && flag_at (stop_at_poll n) c) eqn:E.
    - apply andb_prop in E as [Hp Hf].
      replace (Datatypes.S fuel + 4) with (4 + Datatypes.S fuel) by lia.
      apply stopped_done4; auto using monotone_stop_at_poll.
    - assert (Es : step (stop_at_poll n) c = step nostop c).
      { apply step_indep. intro Hp. rewrite Hp in E. simpl in E. now rewrite E. }
      change (Datatypes.S fuel + 4) with (Datatypes.S (fuel + 4)). simpl. rewrite Es.
      apply IHfuel; trivial.
      (* the poll counter after this step is still <= n *)
      destruct c as [p s i j]. unfold flag_at, stop_at_poll in E. simpl in *.
      destruct p; simpl in *; try lia;
        try (destruct (elim_work s) as [? []]; simpl; lia);
        try (destruct (search_init s) as [? []]; simpl; lia);
        try (destruct (rest s) as [? []]; simpl; lia);
        try (apply Nat.leb_gt in E; lia);
        try (destruct r; simpl; lia).
  Qed.

  Theorem stop_not_seen : forall n fuel c,
    c_polls (run fuel nostop c) <= n -> run fuel (stop_at_poll n) c = run fuel nostop c.
  Proof.
    induction fuel; intros c H; simpl in *; trivial.
    assert (Es : step (stop_at_poll n) c = step nostop c).
    { apply step_indep. intro Hp. unfold flag_at, stop_at_poll, nostop.
      (* had the poll counter already reached n it would exceed n after this poll *)
      apply Nat.leb_gt.
      assert (c_polls (step nostop c) <= c_polls (run fuel nostop (step nostop c))).
      { clear. generalize (step nostop c). induction fuel; intro c0; simpl; trivial.
        etransitivity; [apply (step_counts nostop c0) | apply IHfuel]. }
      assert (c_polls (step nostop c) = Datatypes.S (c_polls c)).
      { destruct c as [p s i j]. simpl in *. destruct p; try discriminate; reflexivity. }
      lia. }
    rewrite Es. now apply IHfuel.
  Qed.

  (* the two together: the closed form used as oracle by the check when the counter hook is present *)
  Corollary predict_correct : forall n fuel do_simp s r0,
    let c0 := entry do_simp s in
    result (run fuel nostop c0) = Some r0 ->
    result (run (fuel + 4) (stop_at_poll n) c0) = Some (predict (c_polls (run fuel nostop c0)) r0 n).
  Proof.
    intros n fuel do_simp s r0 c0 H. unfold predict.
    destruct (n <? c_polls (run fuel nostop c0)) eqn:E.
    - apply Nat.ltb_lt in E. apply stop_effective; trivial. unfold c0, entry. simpl. lia.
    - apply Nat.ltb_ge in E. rewrite run_plus, (stop_not_seen n fuel c0 E).
      unfold result in H. destruct (c_pc (run fuel nostop c0)) eqn:Ep; try discriminate.
      rewrite (run_done 4 _ _ r Ep). unfold result. now rewrite Ep.
  Qed.

  (* ---------- Theorem B: relative to sound inner steps (C01/C02), ANY behaviour of the flag —
     set, reset, set again — gives unknown or the right answer, and leaves a good state.
     Needs the source NOT to poll between propagate() finding a conflict and the handling of that
     conflict (pac = false): cancelUntil(0) after the loop can only be shown to keep the state good when
     no conflict is pending.  For pac = true see stop_state_refuted below. ---------- *)
  Variable is_sat : Prop.               (* the current assertion stack is satisfiable *)
  Variable Good : S -> Prop.            (* the solver state is consistent with the assertion stack *)
  Variable NoPending : S -> Prop.       (* no conflict found by propagate() is waiting to be handled *)
  Definition sound_search : Prop :=
    (forall s s' o, Good s -> elim_work s = (s', o) -> Good s' /\ (o = EConflict -> ~ is_sat)) /\
    (forall s, Good s -> Good (elim_cleanup s)) /\
    (forall s s' o, Good s -> search_init s = (s', o) ->
       Good s' /\ (o = Some LTrue -> is_sat) /\ (o = Some LFalse -> ~ is_sat) /\ (o = None -> NoPending s')) /\
    (forall s s' c, Good s -> prop s = (s', c) -> Good s' /\ (c = false -> NoPending s')) /\
    (forall s s' o, Good s -> rest s = (s', o) ->
       Good s' /\ (o = Ret LTrue -> is_sat) /\ (o = Ret LFalse -> ~ is_sat) /\ (o = Cont -> NoPending s')) /\
    (forall s, Good s -> NoPending s -> Good (cancel0 s)) /\
    (forall s, Good s -> Good (restart s)).

  Definition verdict_ok (p : pc) : Prop :=
    match p with
    | PAfterSearch LTrue | PDone LTrue => is_sat
    | PAfterSearch LFalse | PDone LFalse => ~ is_sat
    | _ => True
    end.
  Definition needs_np (p : pc) : bool :=
    match p with PSearchHead | PAfterProp | PSearchBreak => true | _ => false end.
  Definition GoodC (c : cfg S) : Prop :=
    Good (c_st c) /\ verdict_ok (c_pc c) /\ (needs_np (c_pc c) = true -> NoPending (c_st c)).

  Section Sound.
  Hypothesis Hpac : pac = false.
  Hypothesis Hsound : sound_search.

  Lemma goodc_step : forall f c, GoodC c -> GoodC (step f c).
  Proof.
    destruct Hsound as (Hel & Hcl & Hin & Hpr & Hre & Hca & Hrs).
    intros f [p s i j] (Hg & Hv & Hn). unfold GoodC, StopFlag.step, StopFlag.step_ps in *. simpl in *.
    destruct p as [| | | | | | | | | |r|r]; simpl.
    - destruct (f i j); simpl; repeat split; auto; discriminate.
    - destruct (elim_work s) as [s' o] eqn:E. destruct (Hel _ _ _ Hg E) as [G1 G2].
      destruct o; simpl; repeat split; auto; discriminate.
    - repeat split; auto; discriminate.
    - destruct (f i j); simpl; repeat split; auto; discriminate.
    - destruct (search_init s) as [s' o] eqn:E. destruct (Hin _ _ _ Hg E) as (G1 & G2 & G3 & G4).
      destruct o as [[| |]|]; simpl; repeat split; auto; discriminate.
    - destruct (f i j); simpl; repeat split; auto; discriminate.
    - destruct (prop s) as [s' c] eqn:E. destruct (Hpr _ _ _ Hg E) as [G1 G2]. rewrite Hpac.
      destruct c; simpl; repeat split; auto; discriminate.
    - destruct (f i j); simpl; repeat split; auto; discriminate.
    - destruct (rest s) as [s' o] eqn:E. destruct (Hre _ _ _ Hg E) as (G1 & G2 & G3 & G4).
      destruct o as [|[| |]]; simpl; repeat split; auto; discriminate.
    - repeat split; auto; discriminate.
    - destruct r; simpl; repeat split; auto; discriminate.
    - repeat split; auto.
  Qed.

  Lemma goodc_run : forall fuel f c, GoodC c -> GoodC (run fuel f c).
  Proof. induction fuel; intros; simpl; auto using goodc_step. Qed.

  Theorem stop_answer_correct : forall fuel (f : flagfn) do_simp s r,
    Good s -> result (run fuel f (entry do_simp s)) = Some r ->
    (r = LTrue -> is_sat) /\ (r = LFalse -> ~ is_sat) /\ Good (c_st (run fuel f (entry do_simp s))).
  Proof.
    intros fuel f do_simp s r Hg H.
    assert (G : GoodC (run fuel f (entry do_simp s))).
    { apply goodc_run. unfold GoodC, entry. destruct do_simp; simpl; repeat split; trivial; discriminate. }
    destruct G as (G1 & G2 & _). unfold result in H.
    destruct (c_pc (run fuel f (entry do_simp s))); try discriminate. injection H as ->.
    repeat split; trivial; intros ->; exact G2.
  Qed.
  End Sound.

  (* ---------- MainSolver::check ---------- *)
  Variable simplify : S -> S * bool.
  Variable is_ok : S -> bool.
  Variable simp_frame : S -> nat.
  Variable conflict_frame : S -> nat.
  Variable compute_model : S -> S.
  Variable clear_search : S -> S.
  Notation check := (check S pac elim_work elim_cleanup search_init prop rest cancel0 restart
                           simplify is_ok simp_frame conflict_frame compute_model clear_search).

  (* the answer of check-sat under a stop request is unknown or the answer without it *)
  Theorem check_stop_answer_safe : forall do_simp fuel f m r m', monotone f ->
    check do_simp fuel f m = Some (r, m') ->
    r = SUnknown \/ exists m'', check do_simp fuel nostop m = Some (r, m'').
  Proof.
    intros do_simp fuel f m r m' Hm. unfold StopFlag.check.
    destruct (last_unsat m). { intro H; injection H as <- <-. right; eauto. }
    destruct (simplify (core m)) as [s1 undet].
    destruct (negb undet). { intro H; injection H as <- <-. right; eauto. }
    destruct (negb (is_ok s1)). { intro H; injection H as <- <-. right; eauto. }
    destruct (c_pc (run fuel f (entry do_simp s1))) as [| | | | | | | | | |r'|r'] eqn:Ep; try discriminate.
    assert (R : result (run fuel f (entry do_simp s1)) = Some r') by (unfold result; now rewrite Ep).
    destruct (stop_answer_safe_gen fuel f _ r' Hm R) as [->|R'].
    - intro H; injection H as <- <-. now left.
    - unfold result in R'. destruct (c_pc (run fuel nostop (entry do_simp s1))); try discriminate.
      injection R' as ->. destruct r'; intro H; injection H as <- <-; eauto.
  Qed.

  Definition sound_main : Prop :=
    (forall s s' b, Good s -> simplify s = (s', b) -> Good s' /\ (b = false -> ~ is_sat)) /\
    (forall s, Good s -> is_ok s = false -> ~ is_sat) /\
    (forall s, Good s -> Good (compute_model s)) /\
    (forall s, Good s -> Good (clear_search s)).

  (* frames marked unsat really are; the core is good *)
  Definition GoodM (m : msolver S) : Prop := Good (core m) /\ (last_unsat m = true -> ~ is_sat).

  (* what C25 asks of the state after an interrupted check-sat: whatever the flag did during the
     first call, a later call (again under any flag behaviour) answers unknown or the truth *)
  Definition consistent_after_stop : Prop :=
    forall do_simp fuel1 fuel2 (f g : flagfn) m m' r m'',
      GoodM m -> check do_simp fuel1 f m = Some (SUnknown, m') -> check do_simp fuel2 g m' = Some (r, m'') ->
      (r = SSat -> is_sat) /\ (r = SUnsat -> ~ is_sat).

  Section SoundMain.
  Hypothesis Hpac : pac = false.
  Hypothesis Hsound : sound_search.
  Hypothesis Hmain : sound_main.

  Theorem check_correct : forall do_simp fuel (f : flagfn) m r m',
    GoodM m -> check do_simp fuel f m = Some (r, m') ->
    (r = SSat -> is_sat) /\ (r = SUnsat -> ~ is_sat) /\ GoodM m'.
  Proof.
    destruct Hmain as (Hsi & Hok & Hcm & Hcs).
    intros do_simp fuel f m r m' [Hg Hl]. unfold StopFlag.check.
    destruct (last_unsat m) eqn:El.
    { intro H; injection H as <- <-. repeat split; auto; try discriminate. }
    destruct (simplify (core m)) as [s1 undet] eqn:Es.
    destruct (Hsi _ _ _ Hg Es) as [G1 G2].
    destruct undet; simpl.
    2:{ intro H; injection H as <- <-. repeat split; simpl; auto; try discriminate. }
    destruct (is_ok s1) eqn:Eo; simpl.
    2:{ intro H; injection H as <- <-. pose proof (Hok _ G1 Eo). repeat split; simpl; auto; try discriminate. }
    destruct (c_pc (run fuel f (entry do_simp s1))) as [| | | | | | | | | |r'|r'] eqn:Ep; try discriminate.
    assert (R : result (run fuel f (entry do_simp s1)) = Some r') by (unfold result; now rewrite Ep).
    destruct (stop_answer_correct Hpac Hsound fuel f do_simp s1 r' G1 R) as (A1 & A2 & A3).
    destruct r'; intro H; injection H as <- <-; unfold GoodM; simpl; repeat split; auto; try discriminate.
    all: unfold last_unsat in *; simpl; intros E; rewrite El in E; discriminate.
  Qed.

  (* after an unknown the frame bookkeeping is untouched and the state is good *)
  Theorem stop_then_state_consistent : forall do_simp fuel (f : flagfn) m m',
    GoodM m -> check do_simp fuel f m = Some (SUnknown, m') ->
    frames_unsat m' = frames_unsat m /\ GoodM m'.
  Proof.
    intros do_simp fuel f m m' HG H. split; [| now destruct (check_correct _ _ _ _ _ _ HG H) as (_ & _ & ?)].
    revert H. unfold StopFlag.check.
    destruct (last_unsat m); [discriminate|].
    destruct (simplify (core m)) as [s1 undet]. destruct (negb undet); [discriminate|].
    destruct (negb (is_ok s1)); [discriminate|].
    destruct (c_pc (run fuel f (entry do_simp s1))) as [| | | | | | | | | |r'|r']; try discriminate.
    destruct r'; try discriminate. intro H; injection H as <-. reflexivity.
  Qed.

  Corollary check_after_stop_correct : consistent_after_stop.
  Proof.
    intros do_simp fuel1 fuel2 f g m m' r m'' HG H1 H2.
    destruct (stop_then_state_consistent _ _ _ _ _ HG H1) as [_ HG'].
    destruct (check_correct _ _ _ _ _ _ HG' H2) as (? & ? & _). auto.
  Qed.
  End SoundMain.

  (* ---------- the lookahead loop ---------- *)
  Variable la_round : S -> S * la_res.
  Notation la_run := (la_run S la_round).

  (* without a poll in the loop the flag is simply not an input: recorded liveness gap *)
  Theorem lookahead_ignores_stop : forall fuel f g i c, la_run false fuel f i c = la_run false fuel g i c.
  Proof. induction fuel; intros; simpl; trivial. Qed.

  (* were the loop condition to poll, it would be safe in the same sense as the CDCL loop *)
  Theorem lookahead_polling_safe : forall fuel f i c r,
    (forall a b, a <= b -> f a = true -> f b = true) ->
    fst (la_run true fuel f i c) = LDone r ->
    r = LUndef \/ fst (la_run true fuel (fun _ => false) i c) = LDone r.
  Proof.
    induction fuel; intros f i c r Hm H. { right; exact H. }
    simpl in *. destruct c as [[|r0] s].
    - destruct (f i) eqn:Ef; simpl in *.
      + left. clear IHfuel.
        assert (forall fuel i, la_run true fuel f i (LDone LUndef, s) = (LDone LUndef, s)).
        { clear. induction fuel; intros; simpl; auto. }
        rewrite H0 in H. simpl in H. now injection H as <-.
      + apply (IHfuel f); trivial.
    - simpl in *. apply (IHfuel f); trivial.
  Qed.
End Proofs.

(* two-sided statements indexed by what the translator finds in the source *)
Theorem lookahead_discipline : forall (polls : bool) S la_round,
  if polls
  then forall fuel f i c r, (forall a b, a <= b -> f a = true -> f b = true) ->
         fst (la_run S la_round true fuel f i c) = LDone r ->
         r = LUndef \/ fst (la_run S la_round true fuel (fun _ => false) i c) = LDone r
  else forall fuel f g i c, la_run S la_round false fuel f i c = la_run S la_round false fuel g i c.
Proof. intros [|] S la_round; [apply lookahead_polling_safe | apply lookahead_ignores_stop]. Qed.

(* ---------- the flag as a memory location ---------- *)
Theorem no_race_atomic : forall tr, data_race true tr = false.
Proof. reflexivity. Qed.

(* one request (thread 1 writes) during one poll (thread 0 reads) *)
Definition race_trace : list access := [mkAcc 0 false; mkAcc 1 true; mkAcc 0 false].
Theorem race_plain_flag : exists tr, data_race false tr = true.
Proof. exists race_trace. vm_compute. reflexivity. Qed.

Theorem flag_discipline : forall atomic : bool,
  if atomic then forall tr, data_race atomic tr = false else exists tr, data_race atomic tr = true.
Proof. intros [|]; [exact no_race_atomic | exact race_plain_flag]. Qed.

(* ---------- the state after an interrupted search, when the poll sits between propagate() finding a
   conflict and the handling of that conflict (pac = true, the source today) ----------
   A toy instance of the skeleton that satisfies every soundness hypothesis (sound_search, sound_main)
   and still answers sat on an unsatisfiable problem after a stop:
     state = (pending, lost);  the problem is unsatisfiable (is_sat = False);
     propagate() finds the level-0 conflict (pending := true);  handling it (rest) answers unsat;
     cancelUntil(0) on a state with a pending conflict forgets it (lost := true: the trail keeps the
     falsified clause, nothing will look at it again);  a later search on a `lost` state finds a "model".
   Good s := lost s = false.  cancel0 keeps Good on states WITHOUT pending conflict - all that can be
   asked of it - and the stop at the poll after propagate() applies it to a state WITH one. *)
Definition toy := (bool * bool)%type.      (* (pending, lost) *)
Definition toy_elim_work (s : toy) : toy * elim_out := (s, EDone).
Definition toy_id (s : toy) : toy := s.
Definition toy_init (s : toy) : toy * option lbool := if fst s then (s, Some LFalse) else (s, None).
Definition toy_prop (s : toy) : toy * bool := if snd s then ((false, true), false) else ((true, false), true).
Definition toy_rest (s : toy) : toy * outcome :=
  if fst s then (s, Ret LFalse) else if snd s then (s, Ret LTrue) else (s, Cont).
Definition toy_cancel0 (s : toy) : toy := if fst s then (false, true) else s.
Definition toy_simplify (s : toy) : toy * bool := (s, true).
Definition toy_ok (s : toy) : bool := true.
Definition toy_frame (s : toy) : nat := 0.
Definition toy_good (s : toy) : Prop := snd s = false.
Definition toy_nopending (s : toy) : Prop := fst s = false.
Definition toy_check (pac : bool) :=
  check toy pac toy_elim_work toy_id toy_init toy_prop toy_rest toy_cancel0 toy_id
        toy_simplify toy_ok toy_frame toy_frame toy_id toy_id.

Lemma toy_sound_search :
  sound_search toy toy_elim_work toy_id toy_init toy_prop toy_rest toy_cancel0 toy_id False toy_good toy_nopending.
Proof.
  unfold sound_search, toy_good, toy_nopending, toy_elim_work, toy_id, toy_init, toy_prop, toy_rest, toy_cancel0.
  repeat split; intros; repeat match goal with s : toy |- _ => destruct s as [[|] [|]] end; simpl in *;
    try congruence; try tauto;
    repeat match goal with H : (_, _) = (_, _) |- _ => injection H as <- <- end; simpl; try congruence; try tauto; try discriminate.
Qed.

Lemma toy_sound_main : sound_main toy False toy_good toy_simplify toy_ok toy_id toy_id.
Proof.
  unfold sound_main, toy_good, toy_simplify, toy_ok, toy_id. repeat split; intros; try discriminate; auto;
    try (injection H0 as <- <-; first [exact H | discriminate]).
Qed.

Theorem stop_state_refuted : 
  sound_search toy toy_elim_work toy_id toy_init toy_prop toy_rest toy_cancel0 toy_id False toy_good toy_nopending /\
  sound_main toy False toy_good toy_simplify toy_ok toy_id toy_id /\
  ~ consistent_after_stop toy true toy_elim_work toy_id toy_init toy_prop toy_rest toy_cancel0 toy_id False toy_good
      toy_simplify toy_ok toy_frame toy_frame toy_id toy_id.
Proof.
  split; [apply toy_sound_search | split; [apply toy_sound_main |]].
  intro C.
  (* first call: the request becomes visible at poll 2 = the poll right after propagate() found the conflict *)
  specialize (C false 20 20 (stop_at_poll 2) nostop (mkM [false] (false, false)) (mkM [false] (false, true)) SSat
                (mkM [false] (false, true))).
  destruct C as [C _].
  - split; [reflexivity | discriminate].
  - vm_compute. reflexivity.
  - vm_compute. reflexivity.
  - exact (C eq_refl).
Qed.

(* with the conflict handled before the poll (pac = false) the same toy is fine *)
Example toy_fixed :
  toy_check false false 20 (stop_at_poll 2) (mkM [false] (false, false)) = Some (SUnsat, mkM [true] (true, false)).
Proof. vm_compute. reflexivity. Qed.

(* both directions, indexed by what the translator finds in search() *)
Theorem stop_state_discipline : forall pac : bool,
  if pac
  then exists S elim_work elim_cleanup search_init prop rest cancel0 restart (is_sat : Prop) Good NoPending
              simplify is_ok simp_frame conflict_frame compute_model clear_search,
         sound_search S elim_work elim_cleanup search_init prop rest cancel0 restart is_sat Good NoPending /\
         sound_main S is_sat Good simplify is_ok compute_model clear_search /\
         ~ consistent_after_stop S pac elim_work elim_cleanup search_init prop rest cancel0 restart is_sat Good
             simplify is_ok simp_frame conflict_frame compute_model clear_search
  else forall S elim_work elim_cleanup search_init prop rest cancel0 restart (is_sat : Prop) Good NoPending
              simplify is_ok simp_frame conflict_frame compute_model clear_search,
         sound_search S elim_work elim_cleanup search_init prop rest cancel0 restart is_sat Good NoPending ->
         sound_main S is_sat Good simplify is_ok compute_model clear_search ->
         consistent_after_stop S pac elim_work elim_cleanup search_init prop rest cancel0 restart is_sat Good
             simplify is_ok simp_frame conflict_frame compute_model clear_search.
Proof.
  intros [|].
  - do 17 eexists. exact stop_state_refuted.
  - intros. eapply check_after_stop_correct; eauto.
Qed.

(* ---------- the scripted instance computes ---------- *)
Example script_nostop :
  run_script true true 100 nostop [EvElim EMore; EvElim EDone; EvInit None; EvRest Cont; EvRest (Ret LUndef); EvInit None; EvRest (Ret LFalse)]
  = (Some LFalse, 9).
Proof. vm_compute. reflexivity. Qed.
Example script_stop_seen :
  run_script true true 100 (stop_at_poll 5) [EvElim EMore; EvElim EDone; EvInit None; EvRest Cont; EvRest (Ret LUndef); EvInit None; EvRest (Ret LFalse)]
  = (Some LUndef, 7).
Proof. vm_compute. reflexivity. Qed.
Example script_stop_late :
  run_script true true 100 (stop_at_poll 9) [EvElim EMore; EvElim EDone; EvInit None; EvRest Cont; EvRest (Ret LUndef); EvInit None; EvRest (Ret LFalse)]
  = (Some LFalse, 9).
Proof. vm_compute. reflexivity. Qed.
