(* C25: the control skeleton around the stop flags.  Definitions only; proofs: StopFlagProofs.v.

   src/smtsolvers/CoreSMTSolver.h:85,95,100   bool stopFlag{false}; notifyStop(){stopFlag = true;} stopped()
   src/api/GlobalStop.cc:11-24                bool globalStopFlag; notifyGlobalStop / resetGlobalStop / globallyStopped
   src/smtsolvers/CoreSMTSolver.cc:1344       okContinue() = not stopped() and not globallyStopped()   (a POLL)
   src/smtsolvers/SimpSMTSolver.cc:121-175    SimpSMTSolver::solve_(do_simp,..): eliminate; solve_(); extendModel
   src/smtsolvers/SimpSMTSolver.cc:691-760    eliminate: main loop polls okContinue (also 427, 726)
   src/smtsolvers/CoreSMTSolver.cc:1676-1745  CoreSMTSolver::solve_: while (status == l_Undef && okContinue()) status = search(..)
   src/smtsolvers/CoreSMTSolver.cc:1395-1593  search: first checkTheory; while (okContinue()) { propagate; runPeriodic;
                                              if (not okContinue()) break; ... } cancelUntil(0); notifyEnd(); return l_Undef
   src/smtsolvers/LookaheadSMTSolver.cc:23-66 LookaheadSMTSolver::solve_: while (res == unknown || res == restart) res = solveLookahead();
                                              (no poll of the flag at all)
   src/api/MainSolver.cc:343-385              MainSolver::check / solve: result mapping, rememberUnsatFrame only on s_False

   The work between two polls is abstract: arbitrary (deterministic) functions of an abstract solver
   state S, given as Section variables.  The flag is adversarial: its value at each poll is given by a
   function of (number of micro-steps done, number of polls done); "stop requested before micro-step
   k" and "stop becomes visible at the n-th poll" are the two monotone instances. *)
From Coq Require Import List Arith Bool.
Import ListNotations.

Inductive lbool := LTrue | LFalse | LUndef.
Inductive sstat := SSat | SUnsat | SUnknown.           (* s_True / s_False / s_Undef *)
Definition to_sstat (r : lbool) : sstat := match r with LTrue => SSat | LFalse => SUnsat | LUndef => SUnknown end.

Inductive outcome := Cont | Ret (r : lbool).           (* of the part of a search-loop iteration after the 2nd poll *)
Inductive elim_out := EMore | EDone | EConflict.       (* of the work between two polls of eliminate() *)

Inductive pc :=
| PElimHead      (* eliminate(): `if (not okContinue())` inside the simplification loops              POLL *)
| PElimWork      (* subsumption / variable elimination up to the next poll site (EMore) or the end *)
| PElimCleanup   (* label cleanup: *)
| PSolveHead     (* solve_(): while (status == l_Undef && okContinue())                               POLL *)
| PSearchInit    (* search(): level-0 checkTheory before the loop *)
| PSearchHead    (* while (okContinue())                                                              POLL *)
| PProp          (* propagate(); runPeriodic() *)
| PAfterProp     (* if (not okContinue()) break                                                       POLL *)
| PRest          (* analyze/learn/backjump or simplify/reduceDB/checkTheory/decide *)
| PSearchBreak   (* after the loop: cancelUntil(0); notifyEnd(); return l_Undef *)
| PAfterSearch (r : lbool)   (* status = r; nof_conflicts = restartNextLimit(..) *)
| PDone (r : lbool).

Definition is_poll (p : pc) : bool :=
  match p with PElimHead | PSolveHead | PSearchHead | PAfterProp => true | _ => false end.

(* poll sites per function, as the model has them (compared with the source by translate/stop_flag.py) *)
Definition model_polls_solve : nat := 1.
Definition model_polls_search : nat := 2.
Definition model_polls_lookahead_solve : nat := 0.

Definition flagfn := nat -> nat -> bool.     (* micro-steps done -> polls done -> value read by okContinue *)
Definition nostop : flagfn := fun _ _ => false.
Definition stop_at_step (k : nat) : flagfn := fun i _ => k <=? i.
Definition stop_at_poll (n : nat) : flagfn := fun _ j => n <=? j.
Definition monotone (f : flagfn) : Prop :=
  forall i j i' j', i <= i' -> j <= j' -> f i j = true -> f i' j' = true.

Section Skeleton.
  Variable S : Type.
  Variable elim_work : S -> S * elim_out.
  Variable elim_cleanup : S -> S.
  Variable search_init : S -> S * option lbool.
  Variable prop : S -> S.
  Variable rest : S -> S * outcome.
  Variable cancel0 : S -> S.
  Variable restart : S -> S.

  Record cfg := mkCfg { c_pc : pc; c_st : S; c_steps : nat; c_polls : nat }.

  (* the next pc and state, given the value b the flag has if this micro-step is a poll
     (b = true: stop requested) *)
  Definition step_ps (b : bool) (p : pc) (s : S) : pc * S :=
    match p with
    | PElimHead => if b then (PElimCleanup, s) else (PElimWork, s)
    | PElimWork => let (s', o) := elim_work s in
                   match o with
                   | EMore => (PElimHead, s')
                   | EDone => (PElimCleanup, s')
                   | EConflict => (PDone LFalse, elim_cleanup s')     (* ok = false; goto cleanup; result = l_False *)
                   end
    | PElimCleanup => (PSolveHead, elim_cleanup s)
    | PSolveHead => if b then (PDone LUndef, s) else (PSearchInit, s)
    | PSearchInit => let (s', o) := search_init s in
                     match o with Some r => (PAfterSearch r, s') | None => (PSearchHead, s') end
    | PSearchHead => if b then (PSearchBreak, s) else (PProp, s)
    | PProp => (PAfterProp, prop s)
    | PAfterProp => if b then (PSearchBreak, s) else (PRest, s)
    | PRest => let (s', o) := rest s in
               match o with Cont => (PSearchHead, s') | Ret r => (PAfterSearch r, s') end
    | PSearchBreak => (PAfterSearch LUndef, cancel0 s)
    | PAfterSearch r => match r with LUndef => (PSolveHead, restart s) | _ => (PDone r, restart s) end
    | PDone r => (PDone r, s)
    end.

  Definition step (f : flagfn) (c : cfg) : cfg :=
    match c_pc c with
    | PDone _ => c
    | p => let ps := step_ps (f (c_steps c) (c_polls c)) p (c_st c) in
           mkCfg (fst ps) (snd ps) (Datatypes.S (c_steps c)) (if is_poll p then Datatypes.S (c_polls c) else c_polls c)
    end.

  Fixpoint run (fuel : nat) (f : flagfn) (c : cfg) : cfg :=
    match fuel with 0 => c | Datatypes.S n => run n f (step f c) end.

  Definition result (c : cfg) : option lbool := match c_pc c with PDone r => Some r | _ => None end.

  (* eliminate() starts with work; its loops may end before any poll is reached *)
  Definition entry (do_simp : bool) (s : S) : cfg := mkCfg (if do_simp then PElimWork else PSolveHead) s 0 0.

  (* what the exact-prediction theorem says the implementation returns when the stop becomes
     visible at poll n, given the no-stop run (N polls, answer r0) *)
  Definition predict (N : nat) (r0 : lbool) (n : nat) : lbool := if n <? N then LUndef else r0.

  (* ---- the lookahead solver: its solve_ loop has no poll ---- *)
  Inductive la_res := LAunknown | LArestart | LAsat | LAunsat | LAunknown_final.
  Variable la_round : S -> S * la_res.          (* solveLookahead(); restartNextLimit *)
  Inductive la_pc := LLoop | LDone (r : lbool).
  (* `polls`: whether the loop condition also reads the flag (regenerated: false today) *)
  Definition la_step (polls : bool) (b : bool) (c : la_pc * S) : la_pc * S :=
    match c with
    | (LLoop, s) =>
        if polls && b then (LDone LUndef, s)
        else let (s', r) := la_round s in
             match r with
             | LAunknown | LArestart => (LLoop, s')
             | LAsat => (LDone LTrue, s')
             | LAunsat => (LDone LFalse, s')
             | LAunknown_final => (LDone LUndef, s')
             end
    | (LDone r, s) => (LDone r, s)
    end.
  Fixpoint la_run (polls : bool) (fuel : nat) (f : nat -> bool) (i : nat) (c : la_pc * S) : la_pc * S :=
    match fuel with 0 => c | Datatypes.S n => la_run polls n f (Datatypes.S i) (la_step polls (f i) c) end.

  (* ---- MainSolver::check around it ---- *)
  Variable simplify : S -> S * bool.      (* simplifyFormulas: false = unsat found while handing clauses over *)
  Variable is_ok : S -> bool.             (* smt_solver->isOK() *)
  Variable simp_frame : S -> nat.         (* firstNotSimplifiedFrame - 1 *)
  Variable conflict_frame : S -> nat.     (* smt_solver->getConflictFrame() *)
  Variable compute_model : S -> S.        (* thandler->computeModel(), only on s_True *)
  Variable clear_search : S -> S.         (* smt_solver->clearSearch() *)

  Record msolver := mkM { frames_unsat : list bool; core : S }.
  Definition last_unsat (m : msolver) : bool := last (frames_unsat m) false.
  Definition remember (i : nat) (l : list bool) : list bool := firstn i l ++ repeat true (length l - i).

  Definition check (do_simp : bool) (fuel : nat) (f : flagfn) (m : msolver) : option (sstat * msolver) :=
    if last_unsat m then Some (SUnsat, m)
    else
      let (s1, undet) := simplify (core m) in
      if negb undet then Some (SUnsat, mkM (remember (simp_frame s1) (frames_unsat m)) s1)
      else if negb (is_ok s1) then Some (SUnsat, mkM (remember (conflict_frame s1) (frames_unsat m)) s1)
      else
        let c := run fuel f (entry do_simp s1) in
        match c_pc c with
        | PDone LTrue => Some (SSat, mkM (frames_unsat m) (clear_search (compute_model (c_st c))))
        | PDone LFalse => Some (SUnsat, mkM (remember (conflict_frame (c_st c)) (frames_unsat m)) (clear_search (c_st c)))
        | PDone LUndef => Some (SUnknown, mkM (frames_unsat m) (clear_search (c_st c)))
        | _ => None                                       (* out of fuel *)
        end.
End Skeleton.

Arguments mkCfg {S}. Arguments c_pc {S}. Arguments c_st {S}. Arguments c_steps {S}. Arguments c_polls {S}.
Arguments result {S}. Arguments entry {S}.
Arguments mkM {S}. Arguments frames_unsat {S}. Arguments core {S}. Arguments last_unsat {S}.

(* ---- the flag as a memory location (C++ [intro.races]) ----
   Accesses to the flag by the thread calling notifyStop / notifyGlobalStop (writes) and by the
   solving thread (reads in okContinue).  The API lets the request be issued "at any moment during
   check-sat": there is no synchronisation edge between the two threads, so two accesses by different
   threads are never ordered by happens-before.  A data race is then a pair of conflicting accesses
   (different threads, at least one write) unless the location is atomic. *)
Record access := mkAcc { a_tid : nat; a_write : bool }.
Definition conflicting (a b : access) : bool := negb (Nat.eqb (a_tid a) (a_tid b)) && (a_write a || a_write b).
Fixpoint has_conflict (tr : list access) : bool :=
  match tr with [] => false | a :: r => existsb (conflicting a) r || has_conflict r end.
Definition data_race (atomic : bool) (tr : list access) : bool := negb atomic && has_conflict tr.

(* ---- a scripted instance of the skeleton, for the extracted driver ----
   The abstract state is a position in a script of the outcomes of successive pieces of work. *)
Inductive ev := EvElim (o : elim_out) | EvInit (o : option lbool) | EvRest (o : outcome).
Definition script := list ev.
Definition sc_elim (s : script) : script * elim_out :=
  match s with EvElim o :: r => (r, o) | _ => (s, EDone) end.
Definition sc_init (s : script) : script * option lbool :=
  match s with EvInit o :: r => (r, o) | _ => (s, Some LUndef) end.
Definition sc_rest (s : script) : script * outcome :=
  match s with EvRest o :: r => (r, o) | _ => (s, Ret LUndef) end.
Definition sc_id (s : script) : script := s.

Definition run_script (do_simp : bool) (fuel : nat) (f : flagfn) (s : script) : option lbool * nat :=
  let c := run script sc_elim sc_id sc_init sc_id sc_rest sc_id sc_id fuel f (entry do_simp s) in
  (result c, c_polls c).
