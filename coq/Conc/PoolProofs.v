(* C24: proofs about the pool model (Pool.v).
   pool_safe_locked   : with the critical section, Inv holds after EVERY schedule of EVERY programs
   pool_race_unlocked : without it, an explicit 2-thread schedule gives one cell two owners *)
From Coq Require Import List Arith Bool Lia Permutation.
Import ListNotations.
From OsmtV.Conc Require Import Pool.

(* ---------- small list facts ---------- *)
Lemma remove_nth_perm : forall A (l : list A) i c,
  nth_error l i = Some c -> Permutation l (c :: remove_nth i l).
Proof.
  induction l as [|a l IH]; intros [|i] c H; simpl in *; try discriminate.
  - injection H as ->. reflexivity.
  - unfold remove_nth in *. simpl. specialize (IH i c H).
    eapply perm_trans; [apply perm_skip, IH | apply perm_swap].
Qed.

Lemma upd_same : forall f t v, upd f t v t = v.
Proof. intros; unfold upd; now rewrite Nat.eqb_refl. Qed.
Lemma upd_other : forall f t v t', t' <> t -> upd f t v t' = f t'.
Proof. intros; unfold upd. destruct (Nat.eqb_spec t' t); congruence. Qed.

(* ---------- the strengthened invariant ---------- *)
Record SInv (s : state) : Prop := mkSInv {
  s_inv : Inv s;
  s_fresh_free : forall c, In c (free s) -> c < next s;
  s_fresh_held : forall t c, In c (held (thr s t)) -> c < next s;
  s_lock : forall t, t_pc (thr s t) <> Idle -> lock s = Some t;
  s_branch : forall t, t_pc (thr s t) = ABranch false -> free s <> [];
  s_pop : forall t r, t_pc (thr s t) = APop r -> exists f, free s = r :: f }.

Lemma sinv_init : forall progs, SInv (init progs).
Proof.
  intros. constructor; [constructor|..]; simpl; intros; try easy; try constructor.
Qed.

(* When thread t is inside an operation every other thread is idle. *)
Lemma others_idle : forall s t t', SInv s -> t_pc (thr s t) <> Idle -> t' <> t -> t_pc (thr s t') = Idle.
Proof.
  intros s t t' H Ht Hne. destruct (t_pc (thr s t')) eqn:E; trivial;
    assert (lock s = Some t') by (apply (s_lock _ H); rewrite E; discriminate);
    assert (lock s = Some t) by (apply (s_lock _ H); trivial); congruence.
Qed.
Lemma lock_free_all_idle : forall s t', SInv s -> lock s = None -> t_pc (thr s t') = Idle.
Proof.
  intros s t' H Hl. destruct (t_pc (thr s t')) eqn:E; trivial;
    assert (lock s = Some t') by (apply (s_lock _ H); rewrite E; discriminate); congruence.
Qed.

(* A generic preservation lemma: thread t moves to th', shared part changes to (fr, nx, lk); the
   side conditions are what each micro-step has to establish. *)
Lemma sinv_step_frame : forall s t th' fr nx lk,
  SInv s ->
  next s <= nx ->
  NoDup fr ->
  NoDup (held th') ->
  (forall c, In c fr -> c < nx) ->
  (forall c, In c (held th') -> c < nx) ->
  (forall c, In c (held th') -> ~ In c fr) ->
  (* cells of the other threads: still not free, and not taken by t *)
  (forall t' c, t' <> t -> In c (held (thr s t')) -> ~ In c fr /\ ~ In c (held th')) ->
  (* lock discipline *)
  (t_pc th' <> Idle -> lk = Some t) ->
  (forall t', t' <> t -> t_pc (thr s t') <> Idle -> lk = Some t') ->
  (t_pc th' = ABranch false -> fr <> []) ->
  (forall r, t_pc th' = APop r -> exists f, fr = r :: f) ->
  (forall t', t' <> t -> t_pc (thr s t') = Idle) ->
  SInv (mkState fr nx lk false (upd (thr s) t th')).
Proof.
  intros s t th' fr nx lk H Hnx Hnd Hndh Hff Hfh Hdis Hoth Hlk Hlk' Hbr Hpop Hidle.
  assert (G : forall t', (t' = t /\ upd (thr s) t th' t' = th') \/ (t' <> t /\ upd (thr s) t th' t' = thr s t')).
  { intro t'. destruct (Nat.eq_dec t' t) as [->|n]; [left; now rewrite upd_same | right; now rewrite upd_other]. }
  constructor; [constructor|..]; simpl.
  - reflexivity.
  - exact Hnd.
  - intro t'. destruct (G t') as [[-> ->]|[n ->]]; trivial. apply (inv_held_nodup _ (s_inv _ H)).
  - intros t' c. destruct (G t') as [[-> ->]|[n ->]]; [apply Hdis | intro Hc; apply (Hoth t' c n Hc)].
  - intros t1 t2 c. destruct (G t1) as [[-> ->]|[n1 ->]]; destruct (G t2) as [[-> ->]|[n2 ->]]; trivial; intros H1 H2.
    + exfalso. apply (Hoth t2 c n2 H2); trivial.
    + exfalso. apply (Hoth t1 c n1 H1); trivial.
    + apply (inv_one_owner _ (s_inv _ H) t1 t2 c); trivial.
  - exact Hff.
  - intros t' c. destruct (G t') as [[-> ->]|[n ->]]; [apply Hfh|]. intro Hc.
    pose proof (s_fresh_held _ H t' c Hc). lia.
  - intros t'. destruct (G t') as [[-> ->]|[n ->]]; [apply Hlk | apply Hlk'; trivial].
  - intros t'. destruct (G t') as [[-> ->]|[n ->]]; [apply Hbr|]. intro E. rewrite (Hidle t' n) in E. discriminate.
  - intros t' r. destruct (G t') as [[-> ->]|[n ->]]; [apply Hpop|]. intro E. rewrite (Hidle t' n) in E. discriminate.
Qed.

Ltac inv_facts H :=
  pose proof (inv_ub _ (s_inv _ H)) as Iub;
  pose proof (inv_free_nodup _ (s_inv _ H)) as Ifn;
  pose proof (inv_held_nodup _ (s_inv _ H)) as Ihn;
  pose proof (inv_free_held _ (s_inv _ H)) as Ifh;
  pose proof (inv_one_owner _ (s_inv _ H)) as Ioo;
  pose proof (s_fresh_free _ H) as Iff;
  pose proof (s_fresh_held _ H) as Ifrh.

Lemma state_eta : forall s, s = mkState (free s) (next s) (lock s) (ub s) (thr s).
Proof. now destruct s. Qed.

(* stuttering on the thread component *)
Lemma sinv_same : forall s t th', SInv s -> th' = thr s t ->
  SInv (mkState (free s) (next s) (lock s) (ub s) (upd (thr s) t th')) .
Proof.
  intros s t th' H ->.
  assert (E : forall t', upd (thr s) t (thr s t) t' = thr s t').
  { intro t'. unfold upd. destruct (Nat.eqb_spec t' t); congruence. }
  destruct H as [[? ? ? ? ?] ? ? ? ? ?]. constructor; [constructor|..]; simpl in *; intros *; rewrite ?E; eauto.
Qed.

Theorem step_preserves : forall s t, SInv s -> SInv (step true t s).
Proof.
  intros s t H. inv_facts H. unfold step.
  destruct (thr s t) as [p owned prog] eqn:Et. simpl.
  assert (Hheld : held (thr s t) = inflight p ++ owned) by (rewrite Et; reflexivity).
  assert (Tnd : NoDup (inflight p ++ owned)) by (rewrite <- Hheld; apply Ihn).
  assert (Tfr : forall c, In c (inflight p ++ owned) -> c < next s) by (rewrite <- Hheld; apply Ifrh).
  assert (Tfh : forall c, In c (inflight p ++ owned) -> ~ In c (free s)) by (rewrite <- Hheld; apply Ifh).
  assert (Too : forall t' c, t' <> t -> In c (held (thr s t')) -> ~ In c (inflight p ++ owned)).
  { intros t' c n Hc Hc'. apply n. apply (Ioo t' t c); trivial. now rewrite Hheld. }
  assert (Tpc : t_pc (thr s t) = p) by now rewrite Et.
  destruct p as [| |e|r|r|c]; simpl in *.
  - (* Idle *)
    destruct prog as [|[|i] prog']; trivial.
    + (* begin alloc *)
      unfold acquire. destruct (lock s) eqn:El; trivial.
      rewrite Iub. apply sinv_step_frame; trivial; simpl; unfold held; simpl; try discriminate.
      * intros t' c n Hc. split; [now apply (Ifh t') | now apply (Too t')].
      * intros t' n Hp. exfalso. apply Hp. now apply lock_free_all_idle.
      * intros t' _. now apply lock_free_all_idle.
    + (* begin release *)
      destruct (nth_error owned i) as [c|] eqn:En.
      * unfold acquire. destruct (lock s) eqn:El; trivial.
        pose proof (remove_nth_perm _ _ _ _ En) as P.
        assert (Q : forall x, In x (c :: remove_nth i owned) -> In x owned)
          by (intros x Hx; eapply Permutation_in; [symmetry; exact P | exact Hx]).
        rewrite Iub. apply sinv_step_frame; trivial; simpl; unfold held; simpl; try discriminate.
        -- eapply Permutation_NoDup; [exact P | exact Tnd].
        -- intros x Hx. apply Tfr. now apply Q.
        -- intros x Hx. apply Tfh. now apply Q.
        -- intros t' x n Hx. split; [now apply (Ifh t')|]. intro Hx'. apply (Too t' x n Hx). now apply Q.
        -- intros t' n Hp. exfalso. apply Hp. now apply lock_free_all_idle.
        -- intros t' _. now apply lock_free_all_idle.
      * (* nothing to release: only the program advances *)
        assert (Hp : forall t', t_pc (upd (thr s) t (mkThread Idle owned prog') t') = t_pc (thr s t')).
        { intro t'. unfold upd. destruct (Nat.eqb_spec t' t) as [->|]; trivial. now rewrite Et. }
        assert (Hh : forall t', held (upd (thr s) t (mkThread Idle owned prog') t') = held (thr s t')).
        { intro t'. unfold upd. destruct (Nat.eqb_spec t' t) as [->|]; trivial. now rewrite Et. }
        destruct H as [[? ? ? ? ?] ? ? ? ? ?]. constructor; [constructor|..]; simpl in *; intros *; rewrite ?Hp, ?Hh; eauto.
  - (* AEmpty *)
    assert (Hn : t_pc (thr s t) <> Idle) by (rewrite Tpc; discriminate).
    rewrite Iub. apply sinv_step_frame; trivial; simpl; unfold held; simpl; try discriminate.
    + intros t' c n Hc. split; [now apply (Ifh t') | now apply (Too t')].
    + intros _. now apply (s_lock _ H).
    + intros t' n Hp. exfalso. apply Hp. now apply (others_idle s t t').
    + intros E. injection E as E. destruct (free s); discriminate.
    + intros t' n. now apply (others_idle s t t').
  - (* ABranch *)
    assert (Hn : t_pc (thr s t) <> Idle) by (rewrite Tpc; discriminate).
    destruct e.
    + (* emplace *)
      rewrite Iub. apply sinv_step_frame; trivial; simpl; unfold held; simpl; try discriminate; try lia.
      * constructor; trivial. intro Hc. specialize (Tfr _ Hc). lia.
      * intros c Hc. specialize (Iff c Hc). lia.
      * intros c [<-|Hc]; [lia|]. specialize (Tfr c Hc). lia.
      * intros c [<-|Hc]. { intro Hc. specialize (Iff _ Hc). lia. } now apply Tfh.
      * intros t' c n Hc. split; [now apply (Ifh t')|]. intros [<-|Hc'].
        { specialize (Ifrh t' _ Hc). lia. } now apply (Too t' c).
      * intros _. now apply (s_lock _ H).
      * intros t' n Hp. exfalso. apply Hp. now apply (others_idle s t t').
      * intros t' n. now apply (others_idle s t t').
    + (* top *)
      assert (Hne : free s <> []) by (apply (s_branch _ H t); now rewrite Tpc).
      destruct (free s) as [|r f] eqn:Ef; [congruence|].
      rewrite Iub. apply sinv_step_frame; trivial; simpl; unfold held; simpl; try discriminate.
      * intros t' c n Hc. split; [exact (Ifh t' c Hc) | now apply (Too t')].
      * intros _. now apply (s_lock _ H).
      * intros t' n Hp. exfalso. apply Hp. now apply (others_idle s t t').
      * intros r' E. injection E as <-. now exists f.
      * intros t' n. now apply (others_idle s t t').
  - (* APop *)
    assert (Hn : t_pc (thr s t) <> Idle) by (rewrite Tpc; discriminate).
    destruct (s_pop _ H t r) as [f Ef]; [now rewrite Tpc|]. rewrite Ef in *.
    inversion Ifn as [|? ? Hrf Hndf]; subst.
    rewrite Iub. apply sinv_step_frame; trivial; simpl; unfold held; simpl; try discriminate.
    + constructor; trivial. intro Hc. apply (Tfh r Hc). now left.
    + intros c Hc. apply Iff. now right.
    + intros c [<-|Hc]; [apply Iff; now left | now apply Tfr].
    + intros c [<-|Hc]; trivial. intro Hc'. apply (Tfh c Hc). now right.
    + intros t' c n Hc. split. { intro Hc'. apply (Ifh t' c Hc). now right. }
      intros [<-|Hc']. { apply (Ifh t' r Hc). now left. } now apply (Too t' c).
    + intros _. now apply (s_lock _ H).
    + intros t' n Hp. exfalso. apply Hp. now apply (others_idle s t t').
    + intros t' n. now apply (others_idle s t t').
  - (* ARet *)
    assert (Hn : t_pc (thr s t) <> Idle) by (rewrite Tpc; discriminate).
    rewrite Iub. apply sinv_step_frame; trivial; simpl; unfold held; simpl; try discriminate; try easy.
    + intros t' c n Hc. split; [now apply (Ifh t') | now apply (Too t')].
    + intros t' n Hp. exfalso. apply Hp. now apply (others_idle s t t').
    + intros t' n. now apply (others_idle s t t').
  - (* RPush *)
    assert (Hn : t_pc (thr s t) <> Idle) by (rewrite Tpc; discriminate).
    inversion Tnd as [|? ? Hco Hndo]; subst.
    rewrite Iub. apply sinv_step_frame; trivial; simpl; unfold held; simpl; try discriminate; try easy.
    + constructor; trivial. apply Tfh. now left.
    + intros x [<-|Hx]; [apply Tfr; now left | now apply Iff].
    + intros x Hx. apply Tfr. now right.
    + intros x Hx [<-|Hx']; [contradiction|]. apply (Tfh x); trivial. now right.
    + intros t' x n Hx. split.
      * intros [<-|Hx']; [apply (Too t' c n Hx); now left | now apply (Ifh t' x)].
      * intro Hx'. apply (Too t' x n Hx). now right.
    + intros t' n Hp. exfalso. apply Hp. now apply (others_idle s t t').
    + intros t' n. now apply (others_idle s t t').
Qed.

Theorem run_preserves : forall sch s, SInv s -> SInv (run true sch s).
Proof. induction sch as [|t r IH]; intros s H; simpl; [exact H | apply IH, step_preserves, H]. Qed.

(* With the critical section the discipline holds whatever the threads do and however they are
   scheduled: all programs (of all threads), all schedules, no bound. *)
Theorem pool_safe_locked : forall progs sch, Inv (run true sch (init progs)).
Proof. intros. apply s_inv, run_preserves, sinv_init. Qed.

(* ---------- the failing schedule without the critical section ---------- *)
(* thread 0: alloc, alloc, release, release (free list = [c0; c1]), then alloc; thread 1: alloc.
   The two last allocs interleave: both evaluate empty() = false, both read top() = c0, both pop. *)
Definition race_progs : tid -> list op :=
  fun t => match t with 0 => [Alloc; Alloc; Release 0; Release 0; Alloc] | 1 => [Alloc] | _ => [] end.
Definition race_schedule : schedule :=
  repeat 0 12 ++ [0; 0; 0; 1; 1; 1; 0; 0; 1; 1].

Theorem pool_race_unlocked : exists progs sch, two_owners (run false sch (init progs)) /\ ub (run false sch (init progs)) = false.
Proof.
  exists race_progs, race_schedule. split.
  - exists 0, 1, 0. vm_compute. repeat split; auto. discriminate.
  - vm_compute. reflexivity.
Qed.

(* the same ingredients one step shorter also reach the undefined stack operation *)
Definition ub_progs : tid -> list op :=
  fun t => match t with 0 => [Alloc; Release 0; Alloc] | 1 => [Alloc] | _ => [] end.
Definition ub_schedule : schedule := repeat 0 6 ++ [0; 0; 0; 1; 1; 1; 0; 1].
Theorem pool_ub_unlocked : exists progs sch, ub (run false sch (init progs)) = true.
Proof. exists ub_progs, ub_schedule. vm_compute. reflexivity. Qed.

(* two owners contradict Inv *)
Lemma two_owners_not_inv : forall s, two_owners s -> ~ Inv s.
Proof.
  intros s (t1 & t2 & c & Hne & H1 & H2) I. apply Hne. apply (inv_one_owner _ I t1 t2 c); unfold held; apply in_or_app; now right.
Qed.

(* Both directions, indexed by the synchronisation found in the source. *)
Theorem pool_discipline : forall locked : bool,
  if locked then forall progs sch, Inv (run locked sch (init progs))
  else exists progs sch, ~ Inv (run locked sch (init progs)).
Proof.
  intros [|].
  - exact pool_safe_locked.
  - destruct pool_race_unlocked as (p & sch & H & _). exists p, sch. now apply two_owners_not_inv.
Qed.

(* sequential sanity of the model: a single thread sees a LIFO pool *)
Example seq_lifo : seq_exec false [Alloc; Alloc; Release 0; Alloc; Release 1; Release 0; Alloc; Alloc; Alloc] (init (fun _ => []))
  = [Some 0; Some 1; None; Some 1; None; None; Some 1; Some 0; Some 2].
Proof. vm_compute. reflexivity. Qed.
