(* C01 — an unsat answer is never given for a satisfiable assertion set.
   Stage 1 (this file): the certified-counterexample direction — whenever some model (the solver's own, or
   one proposed by an untrusted oracle) passes the verified evaluator, the assertion set is satisfiable, so an
   `unsat` answer for it is wrong.  This is what turns a disagreement into a machine-checked violation.
   The positive direction (every accepted trace of the abstract CDCL(T) machine refutes the assertions) is
   in Properties_C12 / C11 / C26 (clause-level soundness) and is assembled per run by the trace check. *)
From Coq Require Import ZArith QArith List Bool.
From OsmtV.Sem Require Import Syntax Eval Model SemProofs.
From OsmtV.Sat Require Import PropLogic RupCheck.
From OsmtV.Trace Require Import TraceSound.
Import ListNotations.

Theorem c01_certified_counterexample : forall S M A, model_ok S M A = true -> sat S A.
Proof. exact model_ok_sat. Qed.
Print Assumptions c01_certified_counterexample.

(* The answer `unsat` claims ~ sat S A; a validated model contradicts it. *)
Theorem c01_unsat_answer_refuted : forall S M A, model_ok S M A = true -> ~ ~ sat S A.
Proof. exact unsat_answer_refuted. Qed.
Print Assumptions c01_unsat_answer_refuted.

(* Monotonicity used when judging incremental histories: a superset of a satisfiable set may be unsat, but a
   subset of a satisfiable set is satisfiable (so `unsat` for fewer assertions than a validated model covers is wrong). *)
Theorem c01_sat_subset : forall S A B, (forall a, In a A -> In a B) -> sat S B -> sat S A.
Proof. intros S A B Hsub [I [Hwf H]]. exists I. split; [exact Hwf | intros a Ha; apply H, Hsub, Ha]. Qed.
Print Assumptions c01_sat_subset.

(* The positive direction, for ALL traces of the abstract CDCL(T) machine: if every input clause is a
   consequence of the assertions (clausal form: Properties_C02 tseitin_complete / C13), every theory clause is
   T-valid (C11, C26) and every learnt, derived or final clause passes reverse unit propagation against the
   clauses seen before it (C12), then a trace that reaches the empty clause — or a final conflict that is false
   under the activation of the live levels — refutes the assertions.  Whatever the heuristics did. *)
Theorem c01_trace_sound : forall (Interp : Type) (satisfies : Interp -> Prop) (induced : Interp -> assignment) evs,
  (forall I, satisfies I -> models (induced I) (inputs evs)) ->
  (forall I, models (induced I) (theory_clauses evs)) ->
  forall db, replay [] evs = Some db ->
  (In [] db -> forall I, ~ satisfies I) /\
  (forall final, In final db -> (forall I, satisfies I -> clause_true (induced I) final = false) -> forall I, ~ satisfies I).
Proof.
  intros Interp satisfies induced evs Hin Hth db H. split.
  - exact (trace_refutes Interp satisfies induced evs Hin Hth db H).
  - intros final. exact (trace_refutes_under_assumptions Interp satisfies induced evs Hin Hth db final H).
Qed.
Print Assumptions c01_trace_sound.

Example c01_trace_nonvacuous :
  replay [] [Input [1; 2]; Input [-1; 2]; Theory [-2; 3]; Input [-3]; Derive [2]; Derive []]%Z <> None.
Proof. vm_compute. discriminate. Qed.
