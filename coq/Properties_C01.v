(* C01 — an unsat answer is never given for a satisfiable assertion set.
   Stage 1 (this file): the certified-counterexample direction — whenever some model (the solver's own, or
   one proposed by an untrusted oracle) passes the verified evaluator, the assertion set is satisfiable, so an
   `unsat` answer for it is wrong.  This is what turns a disagreement into a machine-checked violation.
   The positive direction (every accepted trace of the abstract CDCL(T) machine refutes the assertions) is
   in Properties_C12 / C11 / C26 (clause-level soundness) and is assembled per run by the trace check. *)
From Coq Require Import ZArith QArith List Bool.
From OsmtV.Sem Require Import Syntax Eval Model SemProofs.
Import ListNotations.

Theorem c01_certified_counterexample : forall S M A, model_ok S M A = true -> sat S A.
Proof. exact model_ok_sat. Qed.
Print Assumptions c01_certified_counterexample.

(* The answer `unsat` claims ~ sat S A; a validated model contradicts it. *)
Theorem c01_unsat_answer_refuted : forall S M A, model_ok S M A = true -> ~ ~ sat S A.
Proof. exact unsat_answer_refuted. Qed.
Print Assumptions c01_unsat_answer_refuted.

(* Monotonicity used when judging incremental histories: a superset of a satisfiable set may be unsat, but a
   subset of a satisfiable set is satisfiable (so `unsat` for fewer assertions than a validated model covers is wrong). *)
Theorem c01_sat_subset : forall S A B, (forall a, In a A -> In a B) -> sat S B -> sat S A.
Proof. intros S A B Hsub [I [Hwf H]]. exists I. split; [exact Hwf | intros a Ha; apply H, Hsub, Ha]. Qed.
Print Assumptions c01_sat_subset.
