(* C21: model of  class DefinedFunctions  (src/api/Interpret.h:42-67) as used by
   Interpret::storeDefinedFun / resolveTerm / push / pop (src/api/Interpret.cc:420-426, 588-625,
   1014-1020), its specification (global set + stack of scopes) and the refinement proof.

     unordered_map<string,TemplateFunction> defined_functions;  ScopedVector<string> scopedNames;
     has(name)                     defined_functions.find(name) != end()
     insert(name, templ, scoped)   defined_functions[name] = templ; if (scoped) scopedNames.push(name)
     pushScope()                   scopedNames.pushScope()
     popScope()                    scopedNames.popScope([&](name){ defined_functions.erase(name); })
     storeDefinedFun(f, .., body)  if (has(f)) return false;
                                   insert(f, templ, scoped = not config.declarations_are_global())

   A TemplateFunction is represented by an identifier of its body (N). *)
From Coq Require Import List Arith NArith Bool Lia.
From OsmtV.Names Require Import ScopedVec TermNames TermNamesProofs.
Import ListNotations.

Record df := mk_df { df_map : list (N * N); df_scoped : svec N }.
Definition df_init : df := mk_df [] sv_empty.

Definition df_find (d : df) (f : N) : option N := al_find f (df_map d).
Definition df_has (d : df) (f : N) : bool := al_has f (df_map d).

(* storeDefinedFun; [g] = config.declarations_are_global() at the time of the definition *)
Definition df_store (g : bool) (f body : N) (d : df) : df * bool :=
  if df_has d f then (d, false)
  else (mk_df (al_set f body (df_map d)) (if g then df_scoped d else sv_push f (df_scoped d)), true).

Definition df_push (d : df) : df := mk_df (df_map d) (sv_push_scope (df_scoped d)).

Definition df_pop (d : df) : option df :=
  match sv_pop_scope (fun f m => Some (al_remove f m)) (df_scoped d) (df_map d) with
  | Some (v, m) => Some (mk_df m v)
  | None => None
  end.

Inductive dop := DDefine (g : bool) (f body : N) | DPush | DPop.

Definition dstep (d : df) (o : dop) : option df :=
  match o with
  | DDefine g f b => Some (fst (df_store g f b d))
  | DPush => Some (df_push d)
  | DPop => df_pop d
  end.

Fixpoint drun_from (d : df) (ops : list dop) : option df :=
  match ops with
  | [] => Some d
  | o :: r => match dstep d o with Some d' => drun_from d' r | None => None end
  end.
Definition drun (ops : list dop) : option df := drun_from df_init ops.

(* ---- specification ---------------------------------------------------------------------------- *)
Record dspec := mk_dspec { d_glob : list (N * N); d_top : list (N * N); d_rest : list (list (N * N)) }.
Definition dspec_init : dspec := mk_dspec [] [] [].
Definition d_all (sp : dspec) : list (N * N) := d_glob sp ++ concat (d_top sp :: d_rest sp).
Definition dspec_find (sp : dspec) (f : N) : option N := al_find f (d_all sp).

Definition dspec_step (sp : dspec) (o : dop) : option dspec :=
  match o with
  | DDefine g f b =>
      match dspec_find sp f with
      | Some _ => Some sp
      | None => Some (if g then mk_dspec ((f, b) :: d_glob sp) (d_top sp) (d_rest sp)
                      else mk_dspec (d_glob sp) (d_top sp ++ [(f, b)]) (d_rest sp))
      end
  | DPush => Some (mk_dspec (d_glob sp) [] (d_top sp :: d_rest sp))
  | DPop => match d_rest sp with
            | [] => None
            | sc :: r => Some (mk_dspec (d_glob sp) sc r)
            end
  end.

Fixpoint dspec_run_from (sp : dspec) (ops : list dop) : option dspec :=
  match ops with
  | [] => Some sp
  | o :: r => match dspec_step sp o with Some sp' => dspec_run_from sp' r | None => None end
  end.
Definition dspec_run (ops : list dop) : option dspec := dspec_run_from dspec_init ops.

(* ---- refinement ------------------------------------------------------------------------------- *)
Definition Rd (d : df) (sp : dspec) : Prop :=
  df_scoped d = conc (map fst (d_top sp)) (map (map fst) (d_rest sp)) /\
  NoDup (map fst (d_all sp)) /\
  (forall f b, al_find f (df_map d) = Some b <-> In (f, b) (d_all sp)).

Lemma Rd_find : forall d sp f, Rd d sp -> df_find d f = dspec_find sp f.
Proof.
  intros d sp f (_ & Hnd & Hm). unfold df_find, dspec_find.
  destruct (al_find f (df_map d)) as [b|] eqn:E.
  - symmetry. apply in_find_nodup; [exact Hnd|]. apply Hm; exact E.
  - destruct (al_find f (d_all sp)) as [b|] eqn:E'; [|reflexivity].
    apply find_in, Hm in E'. congruence.
Qed.

Lemma remove_all_find : forall (l : list N) (m : list (N * N)),
  exists m', cb_all (fun f m => Some (al_remove f m)) l m = Some m' /\
    forall f, al_find f m' = if in_dec N.eq_dec f l then None else al_find f m.
Proof.
  induction l as [|x r IH]; intros m.
  - exists m. split; [reflexivity|]. intros f. reflexivity.
  - cbn [cb_all]. destruct (IH (al_remove x m)) as (m' & E & Hf). exists m'. split; [exact E|].
    intros f. rewrite Hf. destruct (in_dec N.eq_dec f r) as [Hin|Hni].
    + destruct (in_dec N.eq_dec f (x :: r)) as [_|Hn]; [reflexivity|]. exfalso; apply Hn; right; exact Hin.
    + destruct (N.eq_dec f x) as [->|Hne].
      * rewrite find_remove_same. destruct (in_dec N.eq_dec x (x :: r)) as [_|Hn]; [reflexivity|].
        exfalso; apply Hn; left; reflexivity.
      * rewrite find_remove_other by exact Hne.
        destruct (in_dec N.eq_dec f (x :: r)) as [[Heq|Hin]|_]; [congruence|contradiction|reflexivity].
Qed.

Lemma nodup_fst_fresh : forall (l1 l2 : list (N * N)) f b,
  NoDup (map fst (l1 ++ l2)) -> ~ In f (map fst (l1 ++ l2)) -> NoDup (map fst (l1 ++ (f, b) :: l2)).
Proof.
  intros l1 l2 f b Hnd Hni. rewrite map_app in *. cbn [map fst].
  apply NoDup_Add with (a := f) (l := map fst l1 ++ map fst l2).
  - apply Add_app.
  - split; assumption.
Qed.

Lemma in_middle : forall {A} (l1 l2 : list A) x y, In y (l1 ++ x :: l2) <-> (y = x \/ In y (l1 ++ l2)).
Proof.
  intros. rewrite !in_app_iff. simpl. intuition congruence.
Qed.

Lemma nodup_drop_mid : forall {A} (a b c : list A), NoDup (a ++ b ++ c) -> NoDup (a ++ c).
Proof.
  intros A a b; induction b as [|x b IH]; intros c H; [exact H|].
  apply IH. cbn [app] in H. apply NoDup_remove_1 in H. exact H.
Qed.

Lemma nodup_mid_disjoint : forall {A} (a b c : list A) x, NoDup (a ++ b ++ c) -> In x b -> ~ In x (a ++ c).
Proof.
  intros A a b c x H Hin. apply in_split in Hin. destruct Hin as (b1 & b2 & ->).
  rewrite <- app_assoc in H. cbn [app] in H. rewrite app_assoc in H. apply NoDup_remove_2 in H.
  intros Hx. apply H. rewrite !in_app_iff in *. intuition.
Qed.

Lemma Rd_step : forall d sp o, Rd d sp ->
  match dstep d o, dspec_step sp o with
  | Some d', Some sp' => Rd d' sp'
  | None, None => True
  | _, _ => False
  end.
Proof.
  intros d sp o HR. pose proof HR as (Hsc & Hnd & Hm).
  destruct o as [g f b| |]; cbn [dstep dspec_step].
  - unfold df_store, df_has, al_has. rewrite <- (Rd_find _ _ f HR). unfold df_find.
    destruct (al_find f (df_map d)) eqn:E; cbn [fst]; [exact HR|].
    assert (Hfresh : ~ In f (map fst (d_all sp))).
    { intros Hin. apply in_map_iff in Hin. destruct Hin as ([f' b'] & Hf & Hin). simpl in Hf; subst.
      apply Hm in Hin. congruence. }
    assert (Hmap : forall l', (forall y, In y l' <-> (y = (f, b) \/ In y (d_all sp))) ->
              forall f0 b0, al_find f0 (al_set f b (df_map d)) = Some b0 <-> In (f0, b0) l').
    { intros l' Hl' f0 b0. rewrite Hl'. destruct (N.eq_dec f0 f) as [->|Hne].
      - rewrite find_set_same. split.
        + intros H; inversion H; subst. left; reflexivity.
        + intros [H|Hin]; [inversion H; reflexivity|]. exfalso. apply Hfresh.
          change f with (fst (f, b0)). apply in_map; exact Hin.
      - rewrite find_set_other by exact Hne. rewrite Hm. split; [intros H; right; exact H|].
        intros [H|Hin]; [inversion H; subst; contradiction|exact Hin]. }
    destruct g; (split; [|split]); cbn [df_scoped df_map d_glob d_top d_rest].
    + exact Hsc.
    + unfold d_all; cbn [d_glob d_top d_rest app map fst]. constructor; assumption.
    + apply Hmap. intros y. unfold d_all; cbn [d_glob d_top d_rest]. simpl. intuition.
    + rewrite Hsc, conc_push, map_app. reflexivity.
    + unfold d_all in *; cbn [d_glob d_top d_rest concat] in *.
      rewrite <- app_assoc. cbn [app]. rewrite app_assoc.
      apply nodup_fst_fresh; rewrite <- app_assoc; assumption.
    + apply Hmap. intros y. unfold d_all; cbn [d_glob d_top d_rest concat].
      rewrite <- app_assoc. cbn [app]. rewrite app_assoc, in_middle, <- app_assoc. reflexivity.
  - split; [|split]; cbn [df_push df_scoped df_map d_glob d_top d_rest].
    + rewrite Hsc, conc_push_scope. reflexivity.
    + exact Hnd.
    + exact Hm.
  - unfold df_pop. rewrite Hsc. destruct (d_rest sp) as [|sc r] eqn:Er; cbn [map].
    + rewrite pop_scope_base. exact I.
    + rewrite pop_scope_conc.
      destruct (remove_all_find (rev (map fst (d_top sp))) (df_map d)) as (m' & E & Hf).
      rewrite E.
      unfold d_all in Hnd, Hm. rewrite Er in Hnd, Hm. cbn [concat] in Hnd, Hm.
      split; [|split]; cbn [df_scoped df_map d_glob d_top d_rest]; [reflexivity| |].
      * unfold d_all; cbn [d_glob d_top d_rest concat].
        rewrite !map_app in *. apply nodup_drop_mid in Hnd. exact Hnd.
      * intros f b. unfold d_all; cbn [d_glob d_top d_rest concat]. rewrite Hf.
        destruct (in_dec N.eq_dec f (rev (map fst (d_top sp)))) as [Hin|Hni].
        -- split; [discriminate|]. intros Hin2. exfalso.
           rewrite <- in_rev in Hin.
           rewrite !map_app in Hnd. apply (nodup_mid_disjoint _ _ _ f Hnd Hin).
           rewrite <- !map_app. change f with (fst (f, b)). apply in_map. exact Hin2.
        -- rewrite Hm, !in_app_iff. split; [|intuition].
           intros [H|[H|H]]; [left; exact H| |right; exact H].
           exfalso. apply Hni. rewrite <- in_rev. change f with (fst (f, b)). apply in_map; exact H.
Qed.

Lemma Rd_init : Rd df_init dspec_init.
Proof. split; [reflexivity|split; [constructor|]]. intros f b; simpl. split; [discriminate|contradiction]. Qed.

Lemma Rd_run_from : forall ops d sp, Rd d sp ->
  match drun_from d ops, dspec_run_from sp ops with
  | Some d', Some sp' => Rd d' sp'
  | None, None => True
  | _, _ => False
  end.
Proof.
  induction ops as [|o r IH]; intros d sp HR; cbn [drun_from dspec_run_from]; [exact HR|].
  pose proof (Rd_step d sp o HR) as H.
  destruct (dstep d o) as [d'|], (dspec_step sp o) as [sp'|]; try contradiction; [apply IH; exact H|exact I].
Qed.

(* define-fun follows the assertion-stack scopes: after any history of definitions (scoped or
   global), pushes and pops, the table answers has()/operator[] exactly like the specification;
   the only undefined history is a pop without a matching push. *)
Lemma define_fun_scoped_lemma : forall ops,
  match drun ops, dspec_run ops with
  | Some d, Some sp => forall f, df_find d f = dspec_find sp f
  | None, None => True
  | _, _ => False
  end.
Proof.
  intros ops. unfold drun, dspec_run. pose proof (Rd_run_from ops _ _ Rd_init) as H.
  destruct (drun_from df_init ops) as [d|], (dspec_run_from dspec_init ops) as [sp|]; try contradiction; [|exact I].
  intros f. apply Rd_find; exact H.
Qed.

(* consequences on the specification side *)
Lemma dspec_pop_forgets : forall sp f b sc r,
  d_rest sp = sc :: r -> In (f, b) (d_top sp) -> NoDup (map fst (d_all sp)) ->
  dspec_find (mk_dspec (d_glob sp) sc r) f = None.
Proof.
  intros sp f b sc r Er Hin Hnd. unfold dspec_find.
  destruct (al_find f (d_all (mk_dspec (d_glob sp) sc r))) as [b'|] eqn:E; [|reflexivity].
  exfalso. apply find_in in E. unfold d_all in *. rewrite Er in Hnd. cbn [d_glob d_top d_rest concat] in *.
  rewrite !map_app in Hnd.
  apply (nodup_mid_disjoint _ _ _ f Hnd).
  - change f with (fst (f, b)). apply in_map; exact Hin.
  - rewrite <- !map_app. change f with (fst (f, b')). apply in_map; exact E.
Qed.
