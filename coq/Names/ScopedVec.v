(* C21: model of  opensmt::ScopedVector<T>  (src/common/ScopedVector.h:14-63).  Definitions and the
   lemmas that relate the limit-vector representation to a stack of scopes.

     std::vector<T> elements;  std::vector<unsigned> limits;
     push(e)       elements.push_back(e)                               (ScopedVector.h:24)
     pushScope()   limits.push_back(elements.size())                   (ScopedVector.h:26)
     popScope(cb)  lastLimit = limits.back(); limits.pop_back();       (ScopedVector.h:51-62)
                   while (elements.size() > lastLimit) { cb(elements.back()); elements.pop_back(); }

   Representation: both vectors are kept BACK FIRST (head of the list = back() of the vector), so
   begin()..end() is [rev sv_rev].  [limits.back()] on an empty vector is undefined behaviour (the
   assert at ScopedVector.h:54 is compiled out in release builds): modelled as [None]. *)
From Coq Require Import List Arith Lia.
Import ListNotations.

Section ScopedVec.
Context {T : Type}.

Record svec := mk_svec { sv_rev : list T; sv_limits : list nat }.

Definition sv_empty : svec := mk_svec [] [].
Definition sv_push (x : T) (v : svec) : svec := mk_svec (x :: sv_rev v) (sv_limits v).
Definition sv_push_scope (v : svec) : svec := mk_svec (sv_rev v) (length (sv_rev v) :: sv_limits v).
Definition sv_elements (v : svec) : list T := rev (sv_rev v).
Definition sv_size (v : svec) : nat := length (sv_rev v).
Definition sv_is_empty (v : svec) : bool := match sv_rev v with [] => true | _ => false end.

(* the while loop; the callback may itself run into undefined behaviour (None) *)
Fixpoint sv_pop_loop {S : Type} (cb : T -> S -> option S) (lim : nat) (els : list T) (s : S)
  : option (list T * S) :=
  match els with
  | [] => Some ([], s)
  | x :: r =>
      if lim <? length els
      then match cb x s with Some s' => sv_pop_loop cb lim r s' | None => None end
      else Some (els, s)
  end.

Definition sv_pop_scope {S : Type} (cb : T -> S -> option S) (v : svec) (s : S) : option (svec * S) :=
  match sv_limits v with
  | [] => None
  | lim :: ls =>
      match sv_pop_loop cb lim (sv_rev v) s with
      | Some (els, s') => Some (mk_svec els ls, s')
      | None => None
      end
  end.

(* ---- stack-of-scopes view ------------------------------------------------------------------ *)
(* A stack is (top, rest): innermost scope first, every scope in insertion order. *)

Fixpoint conc_rev (scopes : list (list T)) : list T :=
  match scopes with [] => [] | sc :: r => rev sc ++ conc_rev r end.

Fixpoint conc_limits (scopes : list (list T)) : list nat :=
  match scopes with
  | [] => []
  | sc :: r => match r with [] => [] | _ => length (conc_rev r) :: conc_limits r end
  end.

Definition conc (top : list T) (rest : list (list T)) : svec :=
  mk_svec (conc_rev (top :: rest)) (conc_limits (top :: rest)).

(* abstraction function: cut the element vector at the limits *)
Fixpoint split_scopes (rev_els : list T) (limits : list nat) : list (list T) :=
  match limits with
  | [] => [rev rev_els]
  | lim :: ls =>
      let k := length rev_els - lim in
      rev (firstn k rev_els) :: split_scopes (skipn k rev_els) ls
  end.

Definition sv_abs (v : svec) : list (list T) := split_scopes (sv_rev v) (sv_limits v).

Lemma split_conc : forall top rest,
  split_scopes (conc_rev (top :: rest)) (conc_limits (top :: rest)) = top :: rest.
Proof.
  intros top rest; revert top; induction rest as [|sc r IH]; intros top.
  - simpl. rewrite app_nil_r, rev_involutive. reflexivity.
  - change (conc_limits (top :: sc :: r)) with (length (conc_rev (sc :: r)) :: conc_limits (sc :: r)).
    change (conc_rev (top :: sc :: r)) with (rev top ++ conc_rev (sc :: r)).
    cbn [split_scopes].
    rewrite app_length.
    replace (length (rev top) + length (conc_rev (sc :: r)) - length (conc_rev (sc :: r))) with (length (rev top)) by lia.
    rewrite firstn_app, firstn_all, Nat.sub_diag, firstn_O, app_nil_r, rev_involutive.
    rewrite skipn_app, skipn_all, Nat.sub_diag, skipn_O. cbn [app].
    rewrite IH. reflexivity.
Qed.

Lemma sv_abs_conc : forall top rest, sv_abs (conc top rest) = top :: rest.
Proof. intros; unfold sv_abs, conc; cbn [sv_rev sv_limits]; apply split_conc. Qed.

Lemma sv_elements_conc : forall top rest,
  sv_elements (conc top rest) = concat (rev (top :: rest)).
Proof.
  intros top rest. unfold sv_elements, conc; cbn [sv_rev].
  generalize (top :: rest) as l. induction l as [|sc r IH]; [reflexivity|].
  cbn [conc_rev rev]. rewrite rev_app_distr, rev_involutive, IH, concat_app. simpl.
  rewrite app_nil_r. reflexivity.
Qed.

Lemma conc_push : forall x top rest, sv_push x (conc top rest) = conc (top ++ [x]) rest.
Proof.
  intros. unfold sv_push, conc; cbn [sv_rev sv_limits conc_rev conc_limits].
  rewrite rev_app_distr. reflexivity.
Qed.

Lemma conc_push_scope : forall top rest, sv_push_scope (conc top rest) = conc [] (top :: rest).
Proof. intros. unfold sv_push_scope, conc; cbn [sv_rev sv_limits conc_rev conc_limits rev app]. reflexivity. Qed.

(* running the callback over a list of elements, back first *)
Fixpoint cb_all {S : Type} (cb : T -> S -> option S) (l : list T) (s : S) : option S :=
  match l with
  | [] => Some s
  | x :: r => match cb x s with Some s' => cb_all cb r s' | None => None end
  end.

Lemma pop_loop_app : forall {S} (cb : T -> S -> option S) l X s,
  sv_pop_loop cb (length X) (l ++ X) s =
  match cb_all cb l s with Some s' => Some (X, s') | None => None end.
Proof.
  intros S cb l X; induction l as [|x r IH]; intros s.
  - cbn [app cb_all]. destruct X as [|y X']; [reflexivity|].
    cbn [sv_pop_loop]. rewrite Nat.ltb_irrefl. reflexivity.
  - cbn [app cb_all sv_pop_loop].
    assert (H : (length X <? length (x :: r ++ X)) = true).
    { apply Nat.ltb_lt. cbn [length]. rewrite app_length. lia. }
    rewrite H. destruct (cb x s); [apply IH | reflexivity].
Qed.

Lemma pop_scope_conc : forall {S} (cb : T -> S -> option S) top sc rest s,
  sv_pop_scope cb (conc top (sc :: rest)) s =
  match cb_all cb (rev top) s with Some s' => Some (conc sc rest, s') | None => None end.
Proof.
  intros. unfold sv_pop_scope, conc.
  cbn [sv_limits sv_rev].
  change (conc_limits (top :: sc :: rest)) with (length (conc_rev (sc :: rest)) :: conc_limits (sc :: rest)).
  change (conc_rev (top :: sc :: rest)) with (rev top ++ conc_rev (sc :: rest)).
  cbv iota. rewrite pop_loop_app. destruct (cb_all cb (rev top) s); reflexivity.
Qed.

Lemma pop_scope_base : forall {S} (cb : T -> S -> option S) top s,
  sv_pop_scope cb (conc top []) s = None.
Proof. reflexivity. Qed.

End ScopedVec.

Arguments svec : clear implicits.
