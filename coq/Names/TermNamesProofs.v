(* C21: proofs about the TermNames model (TermNames.v): representation invariant, refinement of the
   stack-of-scopes specification, the contains(term) defect and its repair, scoping theorems. *)
From Coq Require Import List Arith NArith Bool Lia.
From OsmtV.Names Require Import ScopedVec TermNames.
Import ListNotations.

(* ---- association lists --------------------------------------------------------------------- *)
Section AL.
Context {V : Type}.
Implicit Types (m : list (N * V)).

Lemma find_remove_same : forall k m, al_find k (al_remove k m) = None.
Proof.
  intros k m; induction m as [|[k' v] r IH]; simpl; [reflexivity|].
  destruct (N.eqb_spec k k'); [exact IH|]. simpl. destruct (N.eqb_spec k k'); [contradiction|exact IH].
Qed.

Lemma find_remove_other : forall k k' m, k <> k' -> al_find k (al_remove k' m) = al_find k m.
Proof.
  intros k k' m Hne; induction m as [|[k2 v] r IH]; simpl; [reflexivity|].
  destruct (N.eqb_spec k' k2).
  - subst. destruct (N.eqb_spec k k2); [contradiction|exact IH].
  - simpl. destruct (N.eqb_spec k k2); [reflexivity|exact IH].
Qed.

Lemma find_set_same : forall k v m, al_find k (al_set k v m) = Some v.
Proof. intros; unfold al_set; simpl. rewrite N.eqb_refl. reflexivity. Qed.

Lemma find_set_other : forall k k' v m, k <> k' -> al_find k (al_set k' v m) = al_find k m.
Proof.
  intros; unfold al_set; simpl. destruct (N.eqb_spec k k'); [contradiction|].
  apply find_remove_other; assumption.
Qed.

Lemma find_in : forall k v m, al_find k m = Some v -> In (k, v) m.
Proof.
  intros k v m; induction m as [|[k' v'] r IH]; simpl; [discriminate|].
  destruct (N.eqb_spec k k'); intros H.
  - inversion H; subst. left; reflexivity.
  - right; apply IH; exact H.
Qed.

Lemma in_find_nodup : forall k v m, NoDup (map fst m) -> In (k, v) m -> al_find k m = Some v.
Proof.
  intros k v m; induction m as [|[k' v'] r IH]; simpl; intros Hnd Hin; [contradiction|].
  inversion Hnd as [|? ? Hni Hnd']; subst.
  destruct Hin as [Heq | Hin].
  - inversion Heq; subst. rewrite N.eqb_refl. reflexivity.
  - destruct (N.eqb_spec k k'); [|apply IH; assumption].
    subst. exfalso. apply Hni. change k' with (fst (k', v)). apply in_map; exact Hin.
Qed.

Lemma find_perm_nodup : forall k m m', NoDup (map fst m) -> NoDup (map fst m') ->
  (forall x, In x m <-> In x m') -> al_find k m = al_find k m'.
Proof.
  intros k m m' H1 H2 Heq.
  destruct (al_find k m) as [v|] eqn:E.
  - symmetry. apply in_find_nodup; [exact H2|]. apply Heq, find_in, E.
  - destruct (al_find k m') as [v|] eqn:E'; [|reflexivity].
    apply find_in, Heq, (in_find_nodup _ _ _ H1) in E'. congruence.
Qed.
End AL.

Lemma nodup_map_fst_rev : forall {A B} (l : list (A * B)), NoDup (map fst l) -> NoDup (map fst (rev l)).
Proof.
  intros A B l H. rewrite map_rev. apply NoDup_rev. exact H.
Qed.

Lemma nodup_snoc : forall {A} (l : list A) x, NoDup l -> ~ In x l -> NoDup (l ++ [x]).
Proof.
  intros A l x Hnd Hni. induction Hnd as [|y l Hy Hnd IH]; simpl.
  - constructor; [intros []|constructor].
  - constructor.
    + intros Hin. apply in_app_or in Hin. destruct Hin as [Hin|[->|[]]]; [contradiction|].
      apply Hni; left; reflexivity.
    + apply IH. intros Hin; apply Hni; right; exact Hin.
Qed.

Lemma remove_first_spec : forall n l, NoDup l -> In n l ->
  exists l', remove_first n l = Some l' /\ NoDup l' /\ (forall x, In x l' <-> (In x l /\ x <> n)).
Proof.
  intros n l; induction l as [|x r IH]; intros Hnd Hin; [contradiction|].
  inversion Hnd as [|? ? Hni Hnd']; subst. simpl.
  destruct (N.eqb_spec n x).
  - subst. exists r. split; [reflexivity|]. split; [exact Hnd'|].
    intros y; split.
    + intros Hy. split; [right; exact Hy|]. intros ->. contradiction.
    + intros [[->|Hy] Hne]; [contradiction|exact Hy].
  - destruct Hin as [->|Hin]; [contradiction|].
    destruct (IH Hnd' Hin) as (l' & E & Hnd2 & Hl'). rewrite E. simpl.
    exists (x :: l'). split; [reflexivity|]. split.
    + constructor; [|exact Hnd2]. intros Hx. apply Hl' in Hx. tauto.
    + intros y; simpl. rewrite Hl'. split.
      * intros [->|[Hy Hne]]; [split; [left; reflexivity|congruence] | split; [right; exact Hy|exact Hne]].
      * intros [[->|Hy] Hne]; [left; reflexivity | right; split; assumption].
Qed.

(* ---- representation invariant ------------------------------------------------------------------
   [els] is the content of the scoped vector (any order).  The invariant holds in every state
   reachable by the client operations; it implies that eraseTermName never hits undefined behaviour. *)
Definition ok (fx : bool) (els : list (name * term)) (m : maps) : Prop :=
  NoDup (map fst els) /\
  (forall n t, al_find n (m_n2t m) = Some t <-> In (n, t) els) /\
  (forall t l, al_find t (m_t2n m) = Some l ->
     NoDup l /\ (forall n, In n l <-> In (n, t) els) /\ (fx = true -> l <> [])) /\
  (forall n t, In (n, t) els -> exists l, al_find t (m_t2n m) = Some l).

Lemma ok_init : forall fx, ok fx [] (mk_maps [] []).
Proof.
  intros fx. repeat split; simpl; try constructor; try discriminate; try contradiction.
Qed.

Lemma ok_insert : forall fx els m n t,
  ok fx els m -> al_find n (m_n2t m) = None ->
  ok fx ((n, t) :: els)
     (mk_maps ((n, t) :: m_n2t m)
              (al_set t ((match al_find t (m_t2n m) with Some l => l | None => [] end) ++ [n]) (m_t2n m))).
Proof.
  intros fx els m n t (Hnd & Hn2t & Ht2n & Hex) Hnone.
  assert (Hfresh : forall t', ~ In (n, t') els).
  { intros t' Hin. apply Hn2t in Hin. congruence. }
  unfold ok; cbn [m_n2t m_t2n]. split; [|split; [|split]].
  - cbn [map fst]. constructor; [|exact Hnd].
    intros Hin. apply in_map_iff in Hin. destruct Hin as ([n' t'] & Hfst & Hin). simpl in Hfst; subst.
    exact (Hfresh _ Hin).
  - intros n0 t0. simpl. split.
    + destruct (N.eqb_spec n0 n).
      * subst. intros H; inversion H; subst. left; reflexivity.
      * intros H. right. apply Hn2t; exact H.
    + intros [Heq|Hin].
      * inversion Heq; subst. rewrite N.eqb_refl. reflexivity.
      * destruct (N.eqb_spec n0 n); [subst; exfalso; exact (Hfresh _ Hin)|]. apply Hn2t; exact Hin.
  - intros t0 l H. destruct (N.eq_dec t0 t) as [->|Hne].
    + rewrite find_set_same in H. inversion H; subst; clear H.
      assert (Hold : forall old, al_find t (m_t2n m) = Some old ->
                NoDup old /\ (forall n, In n old <-> In (n, t) els)).
      { intros old E. destruct (Ht2n _ _ E) as (A & B & _). split; assumption. }
      split; [|split].
      * destruct (al_find t (m_t2n m)) as [old|] eqn:E.
        -- destruct (Hold _ eq_refl) as (Hnd_old & Hin_old).
           apply nodup_snoc; [exact Hnd_old|]. intros Hin. apply Hin_old in Hin. exact (Hfresh _ Hin).
        -- simpl. constructor; [intros []|constructor].
      * intros n0. split.
        -- intros Hin. apply in_app_or in Hin. destruct Hin as [Hin|[<-|[]]]; [|left; reflexivity].
           right. destruct (al_find t (m_t2n m)) as [old|] eqn:E; [|contradiction].
           apply (Hold _ eq_refl); exact Hin.
        -- intros [Heq|Hin]; apply in_or_app.
           ++ inversion Heq; subst. right; left; reflexivity.
           ++ left. destruct (Hex _ _ Hin) as (l & E). rewrite E. apply (Ht2n _ _ E); exact Hin.
      * intros _ Habs. apply app_eq_nil in Habs. destruct Habs; discriminate.
    + rewrite find_set_other in H by exact Hne. destruct (Ht2n _ _ H) as (A & B & C).
      split; [exact A|split; [|exact C]].
      intros n0. rewrite B. simpl. split; [intros Hin; right; exact Hin|].
      intros [Heq|Hin]; [inversion Heq; subst; contradiction|exact Hin].
  - intros n0 t0 [Heq|Hin].
    + inversion Heq; subst. rewrite find_set_same. eexists; reflexivity.
    + destruct (N.eq_dec t0 t) as [->|Hne]; [rewrite find_set_same; eexists; reflexivity|].
      rewrite find_set_other by exact Hne. exact (Hex _ _ Hin).
Qed.

Lemma ok_erase_head : forall fx n t r m, ok fx ((n, t) :: r) m ->
  exists m', erase_term_name fx n m = Some (m', true) /\ ok fx r m'.
Proof.
  intros fx n t r m (Hnd & Hn2t & Ht2n & Hex).
  inversion Hnd as [|? ? Hni Hnd']; subst. cbn [fst] in Hni.
  assert (Hnr : forall t', ~ In (n, t') r).
  { intros t' Hin. apply Hni. change n with (fst (n, t')). apply in_map; exact Hin. }
  assert (E1 : al_find n (m_n2t m) = Some t) by (apply Hn2t; left; reflexivity).
  destruct (Hex n t (or_introl eq_refl)) as (l & E2).
  destruct (Ht2n _ _ E2) as (Hndl & Hl & Hfx).
  assert (Hnl : In n l) by (apply Hl; left; reflexivity).
  destruct (remove_first_spec n l Hndl Hnl) as (l' & E3 & Hndl' & Hl').
  unfold erase_term_name. rewrite E1, E2, E3.
  eexists; split; [reflexivity|].
  assert (Hother : forall t0 l0, t0 <> t -> al_find t0 (m_t2n m) = Some l0 ->
            NoDup l0 /\ (forall n0, In n0 l0 <-> In (n0, t0) r) /\ (fx = true -> l0 <> [])).
  { intros t0 l0 Hne E. destruct (Ht2n _ _ E) as (A & B & C). split; [exact A|split; [|exact C]].
    intros n0. rewrite B. simpl. split; [|intros Hin; right; exact Hin].
    intros [Heq|Hin]; [inversion Heq; subst; contradiction|exact Hin]. }
  assert (Hl'r : forall n0, In n0 l' <-> In (n0, t) r).
  { intros n0. rewrite Hl', Hl. simpl. split.
    - intros [[Heq|Hin] Hne]; [inversion Heq; subst; contradiction|exact Hin].
    - intros Hin. split; [right; exact Hin|]. intros ->. exact (Hnr _ Hin). }
  unfold ok; cbn [m_n2t m_t2n]. split; [exact Hnd'|split; [|split]].
  - intros n0 t0. destruct (N.eq_dec n0 n) as [->|Hne].
    + rewrite find_remove_same. split; [discriminate|]. intros Hin. exfalso. exact (Hnr _ Hin).
    + rewrite find_remove_other by exact Hne. rewrite Hn2t. simpl. split; [|intros Hin; right; exact Hin].
      intros [Heq|Hin]; [inversion Heq; subst; contradiction|exact Hin].
  - intros t0 l0. destruct (fx && match l' with [] => true | _ => false end) eqn:Ec.
    + destruct (N.eq_dec t0 t) as [->|Hne]; [rewrite find_remove_same; discriminate|].
      rewrite find_remove_other by exact Hne. apply Hother; exact Hne.
    + destruct (N.eq_dec t0 t) as [->|Hne].
      * rewrite find_set_same. intros H; inversion H; subst; clear H.
        split; [exact Hndl'|split; [exact Hl'r|]].
        intros ->. simpl in Ec. destruct l0; [discriminate|discriminate].
      * rewrite find_set_other by exact Hne. apply Hother; exact Hne.
  - intros n0 t0 Hin. destruct (fx && match l' with [] => true | _ => false end) eqn:Ec.
    + destruct (N.eq_dec t0 t) as [->|Hne].
      * exfalso. apply Hl'r in Hin. apply andb_prop in Ec. destruct Ec as [_ Ec].
        destruct l'; [contradiction|discriminate].
      * rewrite find_remove_other by exact Hne. apply (Hex n0 t0). right; exact Hin.
    + destruct (N.eq_dec t0 t) as [->|Hne]; [rewrite find_set_same; eexists; reflexivity|].
      rewrite find_set_other by exact Hne. apply (Hex n0 t0). right; exact Hin.
Qed.

Lemma ok_erase_all : forall fx l X m, ok fx (l ++ X) m ->
  exists m', cb_all (erase_cb fx) l m = Some m' /\ ok fx X m'.
Proof.
  intros fx l; induction l as [|[n t] r IH]; intros X m Hok.
  - exists m. split; [reflexivity|exact Hok].
  - cbn [app] in Hok. destruct (ok_erase_head _ _ _ _ _ Hok) as (m1 & E & Hok1).
    cbn [cb_all]. unfold erase_cb at 1. cbn [fst]. rewrite E. cbn [option_map fst].
    apply IH; exact Hok1.
Qed.

(* ---- simulation -------------------------------------------------------------------------------- *)
Definition R (fx : bool) (s : st) (sp : spec) : Prop :=
  tn_scoped (fst s) = conc (sp_top sp) (sp_rest sp) /\
  snd s = sp_global sp /\
  ok fx (sv_rev (tn_scoped (fst s))) (tn_maps (fst s)).

Lemma R_init : forall fx, R fx st_init spec_init.
Proof. intros fx. split; [reflexivity|split; [reflexivity|apply ok_init]]. Qed.

Lemma R_abs : forall fx s sp, R fx s sp -> abs s = sp.
Proof.
  intros fx [x g] [top rest gl] (Hsc & Hg & _). simpl in *. subst g.
  unfold abs. cbn [fst snd]. rewrite Hsc, sv_abs_conc. reflexivity.
Qed.

(* under the invariant every lookup through the maps equals a lookup in the scopes *)
Lemma R_lookup : forall fx s sp n, R fx s sp -> term_by_name (fst s) n = spec_lookup sp n.
Proof.
  intros fx [x g] sp n (Hsc & _ & Hnd & Hn2t & _). cbn [fst] in *.
  unfold term_by_name, spec_lookup, spec_all.
  rewrite <- sv_elements_conc, <- Hsc. unfold sv_elements.
  destruct (al_find n (m_n2t (tn_maps x))) as [t|] eqn:E.
  - symmetry. apply in_find_nodup; [apply nodup_map_fst_rev; exact Hnd|].
    rewrite <- in_rev. apply Hn2t; exact E.
  - destruct (al_find n (rev (sv_rev (tn_scoped x)))) as [t|] eqn:E'; [|reflexivity].
    apply find_in in E'. rewrite <- in_rev in E'. apply Hn2t in E'. congruence.
Qed.

Lemma R_has : forall fx s sp n, R fx s sp -> contains_name (fst s) n = spec_has sp n.
Proof.
  intros. unfold contains_name, spec_has, al_has.
  change (al_find n (m_n2t (tn_maps (fst s)))) with (term_by_name (fst s) n).
  change (al_find n (spec_all sp)) with (spec_lookup sp n).
  rewrite (R_lookup _ _ _ _ H). reflexivity.
Qed.

Lemma R_iteration : forall fx s sp, R fx s sp -> iteration (fst s) = spec_all sp.
Proof.
  intros fx s sp (Hsc & _). unfold iteration, spec_all. rewrite Hsc. apply sv_elements_conc.
Qed.

Section WithGuard.
Variable fs : bool.

Lemma R_step : forall fx s sp o, R fx s sp ->
  match step fx fs s o, spec_step fs sp o with
  | Some s', Some sp' => R fx s' sp'
  | None, None => True
  | _, _ => False
  end.
Proof.
  intros fx [x g] sp o HR. pose proof HR as (Hsc & Hg & Hok). cbn [fst snd] in *. subst g.
  destruct o as [n t| | |b]; cbn [step spec_step].
  - (* Insert *)
    rewrite <- (R_has _ _ _ n HR). cbn [fst]. unfold contains_name, al_has, try_insert.
    destruct (al_find n (m_n2t (tn_maps x))) eqn:E; cbn [fst].
    + exact HR.
    + split; [|split]; cbn [fst snd tn_scoped tn_maps sp_top sp_rest sp_global].
      * rewrite Hsc. apply conc_push.
      * reflexivity.
      * cbn [sv_push sv_rev]. apply ok_insert; assumption.
  - (* PushScope *)
    unfold push_scope. destruct (sp_global sp) eqn:G; [exact HR|].
    split; [|split]; cbn [fst snd tn_scoped tn_maps sp_top sp_rest sp_global].
    + rewrite Hsc. apply conc_push_scope.
    + reflexivity.
    + exact Hok.
  - (* PopScope *)
    unfold pop_scope. destruct (sp_global sp) eqn:G; [exact HR|].
    destruct (sp_rest sp) as [|sc r] eqn:Er.
    + assert (El : sv_limits (tn_scoped x) = []).
      { rewrite Hsc. reflexivity. }
      rewrite El. destruct fs; [|exact I].
      split; [|split]; cbn [fst snd]; [rewrite Er; exact Hsc|symmetry; exact G|exact Hok].
    + assert (El : exists l ls, sv_limits (tn_scoped x) = l :: ls).
      { rewrite Hsc. unfold conc. cbn [sv_limits conc_limits]. eexists; eexists; reflexivity. }
      destruct El as (l & ls & El). rewrite El.
      rewrite Hsc. rewrite pop_scope_conc.
      rewrite Hsc in Hok. unfold conc in Hok. cbn [sv_rev] in Hok.
      change (conc_rev (sp_top sp :: sc :: r)) with (rev (sp_top sp) ++ conc_rev (sc :: r)) in Hok.
      destruct (ok_erase_all _ _ _ _ Hok) as (m' & E & Hok').
      rewrite E.
      split; [|split]; cbn [fst snd tn_scoped tn_maps sp_top sp_rest sp_global]; [reflexivity|reflexivity|].
      exact Hok'.
  - (* SetGlobal *)
    split; [|split]; cbn [fst snd tn_scoped tn_maps sp_top sp_rest sp_global]; [exact Hsc|reflexivity|exact Hok].
Qed.

Lemma R_run_from : forall fx ops s sp, R fx s sp ->
  match run_from fx fs s ops, spec_run_from fs sp ops with
  | Some s', Some sp' => R fx s' sp'
  | None, None => True
  | _, _ => False
  end.
Proof.
  intros fx ops; induction ops as [|o r IH]; intros s sp HR; cbn [run_from spec_run_from].
  - exact HR.
  - pose proof (R_step fx s sp o HR) as H.
    destruct (step fx fs s o) as [s'|], (spec_step fs sp o) as [sp'|]; try contradiction.
    + apply IH; exact H.
    + exact I.
Qed.

(* Refinement: the class, driven by any sequence of client operations, IS the stack of scopes. *)
Lemma names_refine_lemma : forall fx ops, option_map abs (run fx fs ops) = spec_run fs ops.
Proof.
  intros fx ops. unfold run, spec_run.
  pose proof (R_run_from fx ops _ _ (R_init fx)) as H.
  destruct (run_from fx fs st_init ops) as [s|], (spec_run_from fs spec_init ops) as [sp|]; try contradiction.
  - simpl. f_equal. apply (R_abs fx); exact H.
  - reflexivity.
Qed.

Lemma run_R : forall fx ops s, run fx fs ops = Some s -> exists sp, spec_run fs ops = Some sp /\ R fx s sp.
Proof.
  intros fx ops s E. unfold run in E.
  pose proof (R_run_from fx ops _ _ (R_init fx)) as H. rewrite E in H. unfold spec_run.
  destruct (spec_run_from fs spec_init ops) as [sp|]; [|contradiction].
  exists sp; split; [reflexivity|exact H].
Qed.

Lemma names_obs_lemma : forall fx ops s, run fx fs ops = Some s ->
  (forall n, term_by_name (fst s) n = spec_lookup (abs s) n) /\
  (forall n, contains_name (fst s) n = spec_has (abs s) n) /\
  iteration (fst s) = spec_all (abs s).
Proof.
  intros fx ops s E. destruct (run_R _ _ _ E) as (sp & _ & HR).
  rewrite (R_abs _ _ _ HR). split; [|split].
  - intros n; apply (R_lookup fx); exact HR.
  - intros n; apply (R_has fx); exact HR.
  - apply (R_iteration fx); exact HR.
Qed.

(* The only way a run can be undefined is popScope without an open scope. *)
Lemma run_defined_iff_spec : forall fx ops, run fx fs ops = None <-> spec_run fs ops = None.
Proof.
  intros fx ops. rewrite <- (names_refine_lemma fx). destruct (run fx fs ops); simpl; split; congruence.
Qed.

(* ---- contains(term): the defect and the repair --------------------------------------------------- *)
Definition named_by (sp : spec) (t : term) : Prop := exists n, spec_lookup sp n = Some t.

Lemma R_lookup_in : forall fx s sp n t, R fx s sp ->
  (spec_lookup sp n = Some t <-> In (n, t) (sv_rev (tn_scoped (fst s)))).
Proof.
  intros fx s sp n t HR. rewrite <- (R_lookup _ _ _ n HR).
  destruct HR as (_ & _ & _ & Hn2t & _). apply Hn2t.
Qed.

Lemma contains_term_complete : forall fx ops s t, run fx fs ops = Some s ->
  named_by (abs s) t -> contains_term (fst s) t = true.
Proof.
  intros fx ops s t E (n & Hn). destruct (run_R _ _ _ E) as (sp & _ & HR).
  rewrite (R_abs _ _ _ HR) in Hn. apply (R_lookup_in _ _ _ _ _ HR) in Hn.
  destruct HR as (_ & _ & _ & _ & _ & Hex). destruct (Hex _ _ Hn) as (l & El).
  unfold contains_term, al_has. rewrite El. reflexivity.
Qed.

Lemma contains_term_repaired_lemma : forall ops s t, run true fs ops = Some s ->
  (contains_term (fst s) t = true <-> named_by (abs s) t) /\
  name_for_term (fst s) t <> PickUB /\
  (forall n, name_for_term (fst s) t = PickName n -> spec_lookup (abs s) n = Some t).
Proof.
  intros ops s t E. destruct (run_R _ _ _ E) as (sp & _ & HR).
  rewrite (R_abs _ _ _ HR). pose proof HR as (_ & _ & _ & _ & Ht2n & _).
  unfold contains_term, name_for_term, names_for_term, al_has.
  destruct (al_find t (m_t2n (tn_maps (fst s)))) as [l|] eqn:El.
  - destruct (Ht2n _ _ El) as (_ & Hl & Hne).
    destruct l as [|n l]; [exfalso; apply (Hne eq_refl); reflexivity|].
    assert (Hn : spec_lookup sp n = Some t).
    { apply (R_lookup_in _ _ _ _ _ HR), Hl. left; reflexivity. }
    split; [|split].
    + split; [intros _; exists n; exact Hn|reflexivity].
    + discriminate.
    + intros n0 H; inversion H; subst; exact Hn.
  - split; [|split]; try discriminate.
    split; [discriminate|]. intros Hnb. exfalso.
    pose proof (contains_term_complete true ops s t E) as Hc. rewrite (R_abs _ _ _ HR) in Hc.
    specialize (Hc Hnb). unfold contains_term, al_has in Hc. rewrite El in Hc. discriminate.
Qed.

(* also on the code as it is, a name that IS picked is a live name of that term *)
Lemma picked_name_live : forall fx ops s t n, run fx fs ops = Some s ->
  name_for_term (fst s) t = PickName n -> spec_lookup (abs s) n = Some t.
Proof.
  intros fx ops s t n E. destruct (run_R _ _ _ E) as (sp & _ & HR).
  rewrite (R_abs _ _ _ HR). pose proof HR as (_ & _ & _ & _ & Ht2n & _).
  unfold name_for_term, names_for_term.
  destruct (al_find t (m_t2n (tn_maps (fst s)))) as [l|] eqn:El; [|discriminate].
  destruct l as [|n0 l]; [discriminate|]. intros H; inversion H; subst.
  destruct (Ht2n _ _ El) as (_ & Hl & _).
  apply (R_lookup_in _ _ _ _ _ HR), Hl. left; reflexivity.
Qed.

(* ---- well-bracketed histories ------------------------------------------------------------------- *)
Inductive balanced : list op -> Prop :=
| bal_nil : balanced []
| bal_ins : forall n t l, balanced l -> balanced (Insert n t :: l)
| bal_scope : forall a b, balanced a -> balanced b -> balanced (PushScope :: a ++ PopScope :: b).

Lemma spec_run_from_app : forall a b sp,
  spec_run_from fs sp (a ++ b) =
  match spec_run_from fs sp a with Some sp' => spec_run_from fs sp' b | None => None end.
Proof.
  induction a as [|o a IH]; intros b sp; cbn [app spec_run_from]; [reflexivity|].
  destruct (spec_step fs sp o); [apply IH|reflexivity].
Qed.

Lemma run_from_app : forall fx a b s,
  run_from fx fs s (a ++ b) = match run_from fx fs s a with Some s' => run_from fx fs s' b | None => None end.
Proof.
  induction a as [|o a IH]; intros b s; cbn [app run_from]; [reflexivity|].
  destruct (step fx fs s o); [apply IH|reflexivity].
Qed.

(* a balanced history only extends the scope it starts in *)
Lemma balanced_extends : forall l, balanced l -> forall top rest,
  exists ext, spec_run_from fs (mk_spec top rest false) l = Some (mk_spec (top ++ ext) rest false).
Proof.
  intros l Hb; induction Hb as [|n t l Hb IH|a b Ha IHa Hb IHb]; intros top rest.
  - exists []. rewrite app_nil_r. reflexivity.
  - cbn [spec_run_from spec_step]. destruct (spec_has (mk_spec top rest false) n).
    + apply IH.
    + cbn [sp_top sp_rest sp_global]. destruct (IH (top ++ [(n, t)]) rest) as (ext & E).
      exists ((n, t) :: ext). rewrite E. rewrite <- app_assoc. reflexivity.
  - cbn [spec_run_from spec_step sp_global sp_top sp_rest].
    rewrite spec_run_from_app. destruct (IHa [] (top :: rest)) as (ext & E). rewrite E.
    cbn [spec_run_from spec_step sp_global sp_rest sp_top]. apply IHb.
Qed.

(* Names introduced inside a level disappear with it: after (push) .. (pop) the specification is
   exactly what it was before the push -- lookups, membership and iteration included. *)
Lemma pop_restores_spec : forall pre mid sp,
  spec_run fs pre = Some sp -> sp_global sp = false -> balanced mid ->
  spec_run fs (pre ++ PushScope :: mid ++ [PopScope]) = Some sp.
Proof.
  intros pre mid [top rest g] Epre Hg Hb. cbn [sp_global] in Hg. subst g.
  unfold spec_run in *. rewrite spec_run_from_app, Epre.
  cbn [spec_run_from spec_step sp_global sp_top sp_rest].
  rewrite spec_run_from_app. destruct (balanced_extends mid Hb [] (top :: rest)) as (ext & E).
  rewrite E. reflexivity.
Qed.

Lemma pop_restores_names_lemma : forall fx pre mid s0,
  run fx fs pre = Some s0 -> snd s0 = false -> balanced mid ->
  exists s, run fx fs (pre ++ PushScope :: mid ++ [PopScope]) = Some s /\ abs s = abs s0 /\
    (forall n, term_by_name (fst s) n = term_by_name (fst s0) n) /\
    (forall n, contains_name (fst s) n = contains_name (fst s0) n) /\
    iteration (fst s) = iteration (fst s0).
Proof.
  intros fx pre mid s0 E0 Hg Hb.
  destruct (run_R _ _ _ E0) as (sp0 & Esp0 & HR0).
  assert (Hg0 : sp_global sp0 = false) by (destruct HR0 as (_ & <- & _); exact Hg).
  pose proof (pop_restores_spec pre mid sp0 Esp0 Hg0 Hb) as Esp.
  destruct (run fx fs (pre ++ PushScope :: mid ++ [PopScope])) as [s|] eqn:E.
  - exists s. split; [reflexivity|].
    destruct (run_R _ _ _ E) as (sp & Esp' & HR). rewrite Esp in Esp'. inversion Esp'; subst sp.
    split; [rewrite (R_abs _ _ _ HR), (R_abs _ _ _ HR0); reflexivity|].
    split; [|split].
    + intros n. rewrite (R_lookup _ _ _ n HR), (R_lookup _ _ _ n HR0). reflexivity.
    + intros n. rewrite (R_has _ _ _ n HR), (R_has _ _ _ n HR0). reflexivity.
    + rewrite (R_iteration _ _ _ HR), (R_iteration _ _ _ HR0). reflexivity.
  - apply run_defined_iff_spec in E. congruence.
Qed.

(* A name is accepted by tryInsert exactly when no live scope holds it; in particular a name whose
   level was popped can be introduced again (with any term). *)
Lemma insert_iff_not_live : forall fx ops s n t, run fx fs ops = Some s ->
  snd (try_insert n t (fst s)) = negb (spec_has (abs s) n).
Proof.
  intros fx ops s n t E. destruct (run_R _ _ _ E) as (sp & _ & HR).
  rewrite (R_abs _ _ _ HR), <- (R_has _ _ _ n HR).
  unfold try_insert, contains_name, al_has.
  destruct (al_find n (m_n2t (tn_maps (fst s)))); reflexivity.
Qed.

Lemma popped_name_reusable_lemma : forall fx pre mid s0 n t',
  run fx fs pre = Some s0 -> snd s0 = false -> balanced mid ->
  contains_name (fst s0) n = false ->
  exists s, run fx fs (pre ++ PushScope :: mid ++ [PopScope]) = Some s /\
            term_by_name (fst s) n = None /\
            snd (try_insert n t' (fst s)) = true /\
            term_by_name (fst (try_insert n t' (fst s))) n = Some t'.
Proof.
  intros fx pre mid s0 n t' E0 Hg Hb Hn.
  destruct (pop_restores_names_lemma fx pre mid s0 E0 Hg Hb) as (s & E & _ & Hl & Hc & _).
  exists s. split; [exact E|].
  assert (Hnone : term_by_name (fst s) n = None).
  { specialize (Hc n). rewrite Hn in Hc. unfold contains_name, al_has in Hc. unfold term_by_name.
    destruct (al_find n (m_n2t (tn_maps (fst s)))); [discriminate|reflexivity]. }
  split; [exact Hnone|].
  unfold try_insert. unfold term_by_name in Hnone. rewrite Hnone. cbn [fst snd].
  split; [reflexivity|]. unfold term_by_name. cbn [tn_maps m_n2t al_find]. rewrite N.eqb_refl. reflexivity.
Qed.

(* ---- global declarations ------------------------------------------------------------------------- *)
Fixpoint no_set_global (ops : list op) : bool :=
  match ops with
  | [] => true
  | SetGlobal _ :: _ => false
  | _ :: r => no_set_global r
  end.

Lemma try_insert_keeps : forall n t x n0 t0,
  term_by_name x n0 = Some t0 -> term_by_name (fst (try_insert n t x)) n0 = Some t0.
Proof.
  intros n t x n0 t0 H. unfold try_insert.
  destruct (al_find n (m_n2t (tn_maps x))) eqn:E; cbn [fst]; [exact H|].
  unfold term_by_name in *. cbn [tn_maps m_n2t al_find].
  destruct (N.eqb_spec n0 n); [subst; congruence|exact H].
Qed.

(* With the switch on (and not touched), no sequence of insertions, pushes and pops is undefined,
   and no name ever disappears or changes its term. *)
Lemma global_persists_lemma : forall fx ops x,
  no_set_global ops = true ->
  exists x', run_from fx fs (x, true) ops = Some (x', true) /\
    forall n t, term_by_name x n = Some t -> term_by_name x' n = Some t.
Proof.
  intros fx ops; induction ops as [|o r IH]; intros x Hns.
  - exists x. split; [reflexivity|auto].
  - destruct o as [n t| | |b]; cbn [no_set_global] in Hns; try discriminate; cbn [run_from step push_scope pop_scope].
    + destruct (IH (fst (try_insert n t x)) Hns) as (x' & E & Hk). exists x'. split; [exact E|].
      intros n0 t0 H. apply Hk, try_insert_keeps, H.
    + apply IH; exact Hns.
    + apply IH; exact Hns.
Qed.

Lemma global_insert_persists_lemma : forall fx ops x n t,
  no_set_global ops = true -> term_by_name x n = None ->
  exists x', run_from fx fs (x, true) (Insert n t :: ops) = Some (x', true) /\ term_by_name x' n = Some t.
Proof.
  intros fx ops x n t Hns Hnone. cbn [run_from step].
  destruct (global_persists_lemma fx ops (fst (try_insert n t x)) Hns) as (x' & E & Hk).
  exists x'. split; [exact E|]. apply Hk.
  unfold try_insert. unfold term_by_name in Hnone. rewrite Hnone. cbn [fst].
  unfold term_by_name. cbn [tn_maps m_n2t al_find]. rewrite N.eqb_refl. reflexivity.
Qed.

(* ---- definedness ----------------------------------------------------------------------------------- *)
(* every popScope has an earlier unmatched pushScope, counting the COMMANDS (what MainSolver::push/pop
   guarantee through the frame counter), whatever the global switch says *)
Fixpoint pops_matched_from (d : nat) (ops : list op) : bool :=
  match ops with
  | [] => true
  | PushScope :: r => pops_matched_from (S d) r
  | PopScope :: r => match d with O => false | S d' => pops_matched_from d' r end
  | _ :: r => pops_matched_from d r
  end.

Lemma matched_defined_from : forall ops sp,
  no_set_global ops = true -> sp_global sp = false ->
  pops_matched_from (length (sp_rest sp)) ops = true -> spec_run_from fs sp ops <> None.
Proof.
  induction ops as [|o r IH]; intros sp Hns Hg Hm; cbn [spec_run_from]; [discriminate|].
  destruct o as [n t| | |b]; cbn [no_set_global pops_matched_from spec_step] in *; try discriminate.
  - destruct (spec_has sp n); apply IH; auto.
  - rewrite Hg. apply IH; auto.
  - rewrite Hg. destruct (sp_rest sp) as [|sc rest] eqn:Er; cbn [length] in Hm; [discriminate|].
    apply IH; auto.
Qed.

Lemma matched_defined_lemma : forall fx ops,
  no_set_global ops = true -> pops_matched_from 0 ops = true -> run fx fs ops <> None.
Proof.
  intros fx ops Hns Hm E. apply run_defined_iff_spec in E. revert E.
  apply matched_defined_from; auto.
Qed.

End WithGuard.

(* with the guarded popScope no operation sequence at all is undefined *)
Lemma spec_run_from_guarded_total : forall ops sp, spec_run_from true sp ops <> None.
Proof.
  induction ops as [|o r IH]; intros sp; cbn [spec_run_from]; [discriminate|].
  destruct o as [n t| | |b]; cbn [spec_step].
  - destruct (spec_has sp n); apply IH.
  - destruct (sp_global sp); apply IH.
  - destruct (sp_global sp); [apply IH|]. destruct (sp_rest sp); apply IH.
  - apply IH.
Qed.

Lemma run_guarded_total : forall fx ops, run fx true ops <> None.
Proof.
  intros fx ops E. apply run_defined_iff_spec in E. revert E. apply spec_run_from_guarded_total.
Qed.
