(* C21: model of  opensmt::TermNames  (src/common/TermNames.h:20-145), operation by operation, and
   the abstract specification (a stack of scopes).  Definitions only; proofs in TermNamesProofs.v.

     ScopedVector<pair<TermName,PTRef>> scopedNamesAndTerms;     (TermNames.h:142)
     unordered_map<TermName,PTRef>       nameToTerm;              (TermNames.h:143)
     unordered_map<PTRef,vector<TermName>> termToNames;           (TermNames.h:144)

   Names (std::string) and terms (PTRef) only matter up to equality: both are [N] here.  The
   unordered maps are association lists read through [al_find] (iteration order of the hash maps
   is never observed by the code; only the scoped vector is iterated).

   The boolean [fx] selects the repaired variant of eraseTermName (the map entry of a term is
   removed when its last name is erased); [fx = false] is the code as it is. *)
From Coq Require Import List Arith NArith Bool Lia.
From OsmtV.Names Require Import ScopedVec.
Import ListNotations.

Definition name := N.
Definition term := N.

(* ---- association lists as maps ------------------------------------------------------------- *)
Fixpoint al_find {V : Type} (k : N) (m : list (N * V)) : option V :=
  match m with
  | [] => None
  | (k', v) :: r => if N.eqb k k' then Some v else al_find k r
  end.

Fixpoint al_remove {V : Type} (k : N) (m : list (N * V)) : list (N * V) :=
  match m with
  | [] => []
  | (k', v) :: r => if N.eqb k k' then al_remove k r else (k', v) :: al_remove k r
  end.

Definition al_set {V : Type} (k : N) (v : V) (m : list (N * V)) : list (N * V) := (k, v) :: al_remove k m.

Definition al_has {V : Type} (k : N) (m : list (N * V)) : bool :=
  match al_find k m with Some _ => true | None => false end.

(* std::find + vector::erase(it): removes the first occurrence; erase(end()) is undefined *)
Fixpoint remove_first (n : N) (l : list N) : option (list N) :=
  match l with
  | [] => None
  | x :: r => if N.eqb n x then Some r else option_map (cons x) (remove_first n r)
  end.

(* ---- the class state ------------------------------------------------------------------------ *)
Record maps := mk_maps { m_n2t : list (name * term); m_t2n : list (term * list name) }.
Record tn := mk_tn { tn_scoped : svec (name * term); tn_maps : maps }.

Definition tn_init : tn := mk_tn sv_empty (mk_maps [] []).

(* observers *)
Definition contains_name (s : tn) (n : name) : bool := al_has n (m_n2t (tn_maps s)).      (* TermNames.h:26 *)
Definition contains_term (s : tn) (t : term) : bool := al_has t (m_t2n (tn_maps s)).      (* TermNames.h:27 *)
Definition term_by_name (s : tn) (n : name) : option term := al_find n (m_n2t (tn_maps s)). (* tryGetTermByName, :67 *)
Definition names_for_term (s : tn) (t : term) : option (list name) := al_find t (m_t2n (tn_maps s)). (* tryGetNamesForTerm, :74 *)
Definition iteration (s : tn) : list (name * term) := sv_elements (tn_scoped s).           (* begin()/end(), :86 *)
Definition tn_size (s : tn) : nat := sv_size (tn_scoped s).

(* tryGetNameForTerm / nameForTerm (TermNames.h:56-59, 62-65, 80-84): pickName = vec.front();
   front() of an empty vector is undefined behaviour. *)
Inductive picked := PickNone | PickUB | PickName (n : name).
Definition name_for_term (s : tn) (t : term) : picked :=
  match names_for_term s t with
  | None => PickNone
  | Some [] => PickUB
  | Some (n :: _) => PickName n
  end.

(* tryInsert (TermNames.h:36-43) *)
Definition try_insert (n : name) (t : term) (s : tn) : tn * bool :=
  match al_find n (m_n2t (tn_maps s)) with
  | Some _ => (s, false)
  | None =>
      let old := match al_find t (m_t2n (tn_maps s)) with Some l => l | None => [] end in
      (mk_tn (sv_push (n, t) (tn_scoped s))
             (mk_maps ((n, t) :: m_n2t (tn_maps s)) (al_set t (old ++ [n]) (m_t2n (tn_maps s)))),
       true)
  end.

(* eraseTermName (TermNames.h:129-138).  None = undefined behaviour (termToNames.at(term) on a
   missing key throws std::out_of_range out of a noexcept-free path; erase(end()) is undefined). *)
Definition erase_term_name (fx : bool) (n : name) (m : maps) : option (maps * bool) :=
  match al_find n (m_n2t m) with
  | None => Some (m, false)
  | Some t =>
      match al_find t (m_t2n m) with
      | None => None
      | Some l =>
          match remove_first n l with
          | None => None
          | Some l' =>
              let t2n' := if fx && (match l' with [] => true | _ => false end)
                          then al_remove t (m_t2n m) else al_set t l' (m_t2n m) in
              Some (mk_maps (al_remove n (m_n2t m)) t2n', true)
          end
      end
  end.

Definition erase_cb (fx : bool) (p : name * term) (m : maps) : option maps :=
  option_map fst (erase_term_name fx (fst p) m).

(* pushScope / popScope (TermNames.h:115-127); [g] = config.declarations_are_global() *)
Definition push_scope (g : bool) (s : tn) : tn :=
  if g then s else mk_tn (sv_push_scope (tn_scoped s)) (tn_maps s).

(* [fs] selects the guarded variant: popScope does nothing when no scope is open (the matching
   pushScope was skipped because declarations were global then); [fs = false] is the code as it is,
   where this situation is undefined behaviour. *)
Definition pop_scope (fx fs g : bool) (s : tn) : option tn :=
  if g then Some s
  else match sv_limits (tn_scoped s) with
       | [] => if fs then Some s else None
       | _ :: _ =>
           match sv_pop_scope (erase_cb fx) (tn_scoped s) (tn_maps s) with
           | Some (v, m) => Some (mk_tn v m)
           | None => None
           end
       end.

(* direct call of the protected eraseTermName (reachable only from a friend / subclass; the scoped
   vector keeps its entry) -- used by the harness, not by the client operations below *)
Definition erase_direct (fx : bool) (n : name) (s : tn) : option (tn * bool) :=
  match erase_term_name fx n (tn_maps s) with
  | Some (m, b) => Some (mk_tn (tn_scoped s) m, b)
  | None => None
  end.

(* ---- operation sequences --------------------------------------------------------------------- *)
Inductive op := Insert (n : name) (t : term) | PushScope | PopScope | SetGlobal (b : bool).

Definition st := (tn * bool)%type.          (* the object and the configuration flag it reads *)
Definition st_init : st := (tn_init, false).

Definition step (fx fs : bool) (s : st) (o : op) : option st :=
  let (x, g) := s in
  match o with
  | Insert n t => Some (fst (try_insert n t x), g)
  | PushScope => Some (push_scope g x, g)
  | PopScope => match pop_scope fx fs g x with Some x' => Some (x', g) | None => None end
  | SetGlobal b => Some (x, b)
  end.

Fixpoint run_from (fx fs : bool) (s : st) (ops : list op) : option st :=
  match ops with
  | [] => Some s
  | o :: r => match step fx fs s o with Some s' => run_from fx fs s' r | None => None end
  end.

Definition run (fx fs : bool) (ops : list op) : option st := run_from fx fs st_init ops.

(* ---- abstract specification: a stack of scopes, innermost first ------------------------------ *)
Notation scope := (list (name * term)) (only parsing).
Record spec := mk_spec { sp_top : scope; sp_rest : list scope; sp_global : bool }.

Definition spec_init : spec := mk_spec [] [] false.
Definition spec_all (sp : spec) : list (name * term) := concat (rev (sp_top sp :: sp_rest sp)).
Definition spec_lookup (sp : spec) (n : name) : option term := al_find n (spec_all sp).
Definition spec_has (sp : spec) (n : name) : bool := al_has n (spec_all sp).

Definition spec_step (fs : bool) (sp : spec) (o : op) : option spec :=
  match o with
  | Insert n t =>
      if spec_has sp n then Some sp
      else Some (mk_spec (sp_top sp ++ [(n, t)]) (sp_rest sp) (sp_global sp))
  | PushScope =>
      if sp_global sp then Some sp else Some (mk_spec [] (sp_top sp :: sp_rest sp) false)
  | PopScope =>
      if sp_global sp then Some sp
      else match sp_rest sp with
           | [] => if fs then Some sp else None
           | sc :: r => Some (mk_spec sc r false)
           end
  | SetGlobal b => Some (mk_spec (sp_top sp) (sp_rest sp) b)
  end.

Fixpoint spec_run_from (fs : bool) (sp : spec) (ops : list op) : option spec :=
  match ops with
  | [] => Some sp
  | o :: r => match spec_step fs sp o with Some sp' => spec_run_from fs sp' r | None => None end
  end.

Definition spec_run (fs : bool) (ops : list op) : option spec := spec_run_from fs spec_init ops.

(* abstraction function *)
Definition abs (s : st) : spec :=
  match sv_abs (tn_scoped (fst s)) with
  | [] => mk_spec [] [] (snd s)              (* unreachable: sv_abs is never empty *)
  | top :: rest => mk_spec top rest (snd s)
  end.
