(* C01: soundness of every accepted trace of the abstract CDCL(T) machine.
   Events (the alphabet of the hooked trace, design/TRACE_FORMAT.md):
     Input c   — a clause handed to the SAT engine ("o"): must be true under every T-model of the assertions
     Theory c  — a theory clause ("t": conflict, reason, split): must be T-valid
     Derive c  — a learnt / derived / final-conflict clause ("l", "d", "f"): checked by reverse unit propagation
                 against everything seen so far
   replay returns the final clause database, or None when some Derive event is not RUP. *)
From Coq Require Import ZArith List Bool.
From OsmtV.Sat Require Import PropLogic RupCheck.
Import ListNotations.

Inductive event := Input (c : clause) | Theory (c : clause) | Derive (c : clause).

Fixpoint replay (db : cnf) (evs : list event) : option cnf :=
  match evs with
  | [] => Some db
  | Input c :: r => replay (c :: db) r
  | Theory c :: r => replay (c :: db) r
  | Derive c :: r => if rup db c then replay (c :: db) r else None
  end.

Definition inputs (evs : list event) : cnf :=
  concat (map (fun e => match e with Input c => [c] | _ => [] end) evs).
Definition theory_clauses (evs : list event) : cnf :=
  concat (map (fun e => match e with Theory c => [c] | _ => [] end) evs).

Lemma models_cons a c F : clause_true a c = true -> models a F -> models a (c :: F).
Proof. intros Hc HF d [<-|Hd]; auto. Qed.

Lemma replay_sound : forall evs db db' a,
  replay db evs = Some db' -> models a db ->
  models a (inputs evs) -> models a (theory_clauses evs) -> models a db'.
Proof.
  induction evs as [|e r IH]; intros db db' a H Hdb Hin Hth; simpl in H.
  - now injection H as <-.
  - destruct e as [c|c|c].
    + apply (IH (c :: db) db' a H).
      * apply models_cons; auto. apply Hin. simpl. now left.
      * intros d Hd. apply Hin. simpl. now right.
      * exact Hth.
    + apply (IH (c :: db) db' a H).
      * apply models_cons; auto. apply Hth. simpl. now left.
      * exact Hin.
      * intros d Hd. apply Hth. simpl. now right.
    + destruct (rup db c) eqn:R; [|discriminate].
      apply (IH (c :: db) db' a H); auto.
      apply models_cons; auto. exact (rup_sound db c R a Hdb).
Qed.

Section Answer.
  (* T-interpretations of the declared symbols, the assertion set they may satisfy, and the assignment of the
     SAT variables they induce (atoms get their truth value, definition variables the value of the
     sub-formula they stand for — Cnf/TseitinProofs.v tseitin_defs_sound) *)
  Variable Interp : Type.
  Variable satisfies : Interp -> Prop.
  Variable induced : Interp -> assignment.

  Variable evs : list event.
  (* every input clause holds under the induced assignment of every model of the assertions *)
  Hypothesis inputs_ok : forall I, satisfies I -> models (induced I) (inputs evs).
  (* every theory clause is valid in the theory *)
  Hypothesis theory_ok : forall I, models (induced I) (theory_clauses evs).

  (* an accepted trace that derives the empty clause refutes the assertions *)
  Theorem trace_refutes : forall db, replay [] evs = Some db -> In [] db -> forall I, ~ satisfies I.
  Proof.
    intros db H Hin I HI.
    assert (M : models (induced I) db).
    { apply (replay_sound evs [] db (induced I) H); [intros c [] | now apply inputs_ok | apply theory_ok]. }
    specialize (M [] Hin). discriminate.
  Qed.

  (* incremental use: the final conflict is a clause over (negated) frame-activation literals; if the trace is
     accepted and the activation literals of the live frames are true under every induced assignment, the
     final conflict refutes the assertions *)
  Theorem trace_refutes_under_assumptions : forall db final,
    replay [] evs = Some db -> In final db ->
    (forall I, satisfies I -> clause_true (induced I) final = false) ->
    forall I, ~ satisfies I.
  Proof.
    intros db final H Hin Hfalse I HI.
    assert (M : models (induced I) db).
    { apply (replay_sound evs [] db (induced I) H); [intros c [] | now apply inputs_ok | apply theory_ok]. }
    specialize (M final Hin). rewrite (Hfalse I HI) in M. discriminate.
  Qed.
End Answer.
