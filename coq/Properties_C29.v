(* C29 — input outside the declared logic is rejected, never answered wrongly.
   Theorems only; model and proofs are in Th/DLParse.v *)
From Coq Require Import ZArith QArith List.
From OsmtV.Th Require Import DLParse.
Import ListNotations.
Local Open Scope Q_scope.

(* On atoms of the difference fragment ( c <= x, c <= -y, c <= x - y in either child order ) the
   parser of the STP solver (both variants: as released, and with its asserts enforced) produces an
   edge between *variable* vertices whose meaning is exactly the atom, for every assignment. *)
Theorem dl_parse_sound : forall strict a, is_dl_atom a ->
  parsed_on_vars (parseRef strict a) = true /\
  forall s, holds_parsed (lift s) (parseRef strict a) <-> holds s a.
Proof. exact dl_parse_sound_lemma. Qed.
Print Assumptions dl_parse_sound.

Example dl_parse_sound_nonvacuous :
  is_dl_atom (mkAtom (3 # 1) [mkS 1 x1 true; mkS (-1 # 1) x2 true]) /\
  is_dl_atom (mkAtom (3 # 1) [mkS (-1 # 1) x1 true; mkS 1 x2 true]) /\
  parseRef false (mkAtom (3 # 1) [mkS (-1 # 1) x1 true; mkS 1 x2 true]) = PR (VTerm (NVar x2)) (VTerm (NVar x1)) (- (3 # 1)).
Proof. repeat split. Qed.

(* FULL STATEMENT WANTED: forall a, linear a -> meaning (parseRef false a) = meaning a.
   It is false on the faithful model of the release build: a linear atom outside the fragment whose
   parse means something else even when a product vertex is read as its true value
   (2x - y <= 0 is read as x - y <= 0 when the product node is [2, x]; when it is [x, 2] the edge goes
   to a vertex made of the constant 2: dl_parse_scaled_const_vertex in Th/DLParse.v). *)
Theorem dl_parse_refuted : exists a, linear a /\ ~ is_dl_atom a /\
  exists s, ~ (holds_parsed (lift s) (parseRef false a) <-> holds s a).
Proof. exact dl_parse_refuted_lemma. Qed.
Print Assumptions dl_parse_refuted.

(* the three-variable witness: the third summand is never read *)
Theorem dl_parse_refuted_three : linear w_three /\ ~ is_dl_atom w_three /\
  exists s, ~ (holds_parsed (lift s) (parseRef false w_three) <-> holds s w_three).
Proof. exact dl_parse_refuted_three_lemma. Qed.
Print Assumptions dl_parse_refuted_three.

(* DESIGN.md §9 #5:  x + y <= 1, x >= 1, y >= 1  has no solution, but the graph the release build
   constructs from it is satisfiable (the summand -y becomes a vertex of its own): answered sat. *)
Theorem dl_wrong_sat_witness : Forall linear w_set /\ ~ la_sat w_set /\ dl_sat (map (parseRef false) w_set).
Proof. exact dl_wrong_sat_witness_lemma. Qed.
Print Assumptions dl_wrong_sat_witness.

(* The repaired parser (asserts enforced) either rejects a linear atom or reads it correctly. *)
Theorem c29_strict_reject_or_correct : forall a, linear a ->
  parseRef true a = PR_reject \/
  (parsed_on_vars (parseRef true a) = true /\ forall s, holds_parsed (lift s) (parseRef true a) <-> holds s a).
Proof. exact c29_strict_lemma. Qed.
Print Assumptions c29_strict_reject_or_correct.

Example c29_strict_nonvacuous :
  parseRef true w_sum = PR_reject /\ parseRef true w_scaled = PR_reject /\ parseRef true w_three = PR_reject /\
  parseRef true (w_lb x1) = PR (VTerm (NVar x1)) VZero (- 1).
Proof. repeat split. Qed.

(* With a front end that admits only difference atoms under the logics solved by the STP solver
   (guard_fixed = true), every accepted linear atom is handled correctly. *)
Theorem c29_reject_or_correct : forall L a, linear a -> accepts_in_logic true L a = true -> atom_handled_correctly L a.
Proof. exact c29_reject_or_correct_lemma. Qed.
Print Assumptions c29_reject_or_correct.

(* The front end as it is (guard_fixed = false: every linear atom accepted under every arithmetic
   logic) does not have that property: QF_IDL accepts x + y <= 1. *)
Theorem c29_reject_or_correct_refuted : exists L a, linear a /\ accepts_in_logic false L a = true /\ ~ atom_handled_correctly L a.
Proof. exact c29_reject_or_correct_refuted_lemma. Qed.
Print Assumptions c29_reject_or_correct_refuted.
