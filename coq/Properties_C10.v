(* C10 — printed resolution proofs are closed, valid refutations.  Theorems only; see Sat/ResChain.v,
   Sat/ProofCheck.v, Sat/ProofPrint.v.

   check_proof decides each printed proof (checks/C10.py runs the extracted function on every (get-proof)
   output): names bound once and before use, every step a resolution on a pivot with opposite signs, the stated
   clauses are the resolvents, :core names are leaves, the final reference is bound to the empty clause, every
   leaf is an admitted clause.  check_proof_sound: an accepted proof shows the admitted leaves unsatisfiable.
   Which leaves are admitted (clause of an active assertion with its guard / activation of an active frame /
   T-valid lemma) is decided per run outside Coq (frame bookkeeping exact, entailment by oracles): partial.

   Before the "fix:" commits e93c417, 6bc717e, 8911063 three statements of the property were FALSE for the printer;
   each is refuted below on a model of the code as it was (fixed = false) with a witness taken from a run, next to
   the statement that holds for the repaired code (fixed = true), which is the code of the current tree: the
   theorems that apply now are printed_final_fixed_ok, printed_constants_fixed_ok, store_fixed_is_last. *)
From Coq Require Import ZArith NArith List Bool.
From OsmtV.Sat Require Import PropLogic ResChain ProofCheck ProofPrint.
Import ListNotations.
Local Open Scope Z_scope.

Theorem res_step_sound : forall (a : assignment) (c1 c2 : clause) (p : lit) (r : clause),
  res_step c1 c2 p = Some r -> clause_true a c1 = true -> clause_true a c2 = true -> clause_true a r = true.
Proof. exact ResChain.res_step_sound. Qed.
Print Assumptions res_step_sound.

Theorem res_chain_sound : forall (a : assignment) (steps : list (clause * lit)) (cur r : clause),
  res_chain cur steps = Some r -> clause_true a cur = true ->
  (forall c p, In (c, p) steps -> clause_true a c = true) -> clause_true a r = true.
Proof. exact ResChain.res_chain_sound. Qed.
Print Assumptions res_chain_sound.

Theorem check_proof_sound : forall (leaves : cnf) (P : proof), check_proof leaves P = true -> entails leaves [].
Proof. exact ProofCheck.check_proof_sound. Qed.
Print Assumptions check_proof_sound.

(* the structural half alone: the leaves of an accepted proof are jointly unsatisfiable *)
Theorem check_struct_sound : forall P : proof, check_struct P = true -> unsat (proof_leaves (p_steps P)).
Proof. exact ProofCheck.check_struct_sound. Qed.
Print Assumptions check_struct_sound.

(* closed: the final reference of an accepted proof is bound, and bound to the empty clause *)
Theorem check_proof_final_bound : forall (leaves : cnf) (P : proof), check_proof leaves P = true ->
  exists e lf, check_steps leaves (FMapPositive.PositiveMap.empty clause) [] (p_steps P) = Ok (e, lf)
               /\ lookup e (p_final P) = Some [].
Proof. exact ProofCheck.check_proof_final_bound. Qed.
Print Assumptions check_proof_final_bound.

(* --- "every referenced clause name is bound": false for the printer as it is (cls_0), true after the repair *)
Theorem printed_final_refuted :
  exists steps core,
    check_struct (mkProof steps cref_undef core) = true /\
    check_proof_err (proof_leaves steps) (printed_proof false steps core) = Some (EFinalUnbound 0%N).
Proof. exact ProofPrint.printed_final_refuted. Qed.
Print Assumptions printed_final_refuted.

Theorem printed_final_fixed_ok : forall steps core,
  check_struct (mkProof steps cref_undef core) = true -> check_struct (printed_proof true steps core) = true.
Proof. exact ProofPrint.printed_final_fixed_ok. Qed.
Print Assumptions printed_final_fixed_ok.

(* --- "resolves two premises on a pivot occurring with opposite signs": false when constant literals are not printed *)
Theorem elided_constants_refuted :
  exists steps core,
    check_struct (mkProof steps cref_undef core) = true /\
    check_proof_err (proof_leaves (map (print_step false) steps))
                    (mkProof (map (print_step false) steps) cref_undef core) = Some (EBadPivot 254%N 0).
Proof. exact ProofPrint.elided_constants_refuted. Qed.
Print Assumptions elided_constants_refuted.

Theorem printed_constants_fixed_ok : forall steps core,
  check_struct (mkProof steps cref_undef core) = true ->
  check_struct (mkProof (map (print_step true) steps) cref_undef core) = true.
Proof. exact ProofPrint.printed_constants_fixed_ok. Qed.
Print Assumptions printed_constants_fixed_ok.

(* --- "never refutes an earlier, popped assertion set": false for the empty-clause slot of the proof store *)
Theorem stale_empty_clause_refuted :
  exists es active, frames_active active (run_store false es) = false
                    /\ (exists d, last es (EvAddUnsat d) = EvAddUnsat (mkE None [])).
Proof. exact ProofPrint.stale_empty_clause_refuted. Qed.
Print Assumptions stale_empty_clause_refuted.

Theorem store_fixed_is_last : forall es s d,
  fold_left (pstep_store true) (es ++ [EvAddUnsat d]) s = Some d.
Proof. exact ProofPrint.store_fixed_is_last. Qed.
Print Assumptions store_fixed_is_last.

(* non-vacuity *)
Example c10_check_example :
  check_struct (mkProof ex_steps 4294967295%N [21%N; 9%N]) = true
  /\ check_proof_err (proof_leaves ex_steps) (mkProof ex_steps 0%N [21%N; 9%N]) = Some (EFinalUnbound 0%N)
  /\ check_proof_err [[-1; 2]; [3; 1]; [4; -3]; [-2]] (mkProof ex_steps 4294967295%N []) = Some (ELeafNotAdmitted 60%N).
Proof. exact ProofCheck.check_proof_example. Qed.
Example c10_chain_example :
  res_chain [1; 2] [([-1; 3], 1); ([-2; 3], 2); ([-3], 3)] = Some [] /\ res_step [1; 2] [1; 3] 1 = None.
Proof. exact ResChain.res_chain_example. Qed.
