
(** val negb : bool -> bool **)

let negb = function
| true -> false
| false -> true

type nat =
| O
| S of nat

(** val fst : ('a1 * 'a2) -> 'a1 **)

let fst = function
| (x, _) -> x

(** val snd : ('a1 * 'a2) -> 'a2 **)

let snd = function
| (_, y) -> y

type comparison =
| Eq
| Lt
| Gt

(** val compOpp : comparison -> comparison **)

let compOpp = function
| Eq -> Eq
| Lt -> Gt
| Gt -> Lt

module Coq__1 = struct
 (** val add : nat -> nat -> nat **)
 let rec add n0 m =
   match n0 with
   | O -> m
   | S p -> S (add p m)
end
include Coq__1

(** val mul : nat -> nat -> nat **)

let rec mul n0 m =
  match n0 with
  | O -> O
  | S p -> add m (mul p m)

type positive =
| XI of positive
| XO of positive
| XH

type n =
| N0
| Npos of positive

type z =
| Z0
| Zpos of positive
| Zneg of positive

module Pos =
 struct
  type mask =
  | IsNul
  | IsPos of positive
  | IsNeg
 end

module Coq_Pos =
 struct
  (** val succ : positive -> positive **)

  let rec succ = function
  | XI p -> XO (succ p)
  | XO p -> XI p
  | XH -> XO XH

  (** val add : positive -> positive -> positive **)

  let rec add x y =
    match x with
    | XI p ->
      (match y with
       | XI q0 -> XO (add_carry p q0)
       | XO q0 -> XI (add p q0)
       | XH -> XO (succ p))
    | XO p ->
      (match y with
       | XI q0 -> XI (add p q0)
       | XO q0 -> XO (add p q0)
       | XH -> XI p)
    | XH -> (match y with
             | XI q0 -> XO (succ q0)
             | XO q0 -> XI q0
             | XH -> XO XH)

  (** val add_carry : positive -> positive -> positive **)

  and add_carry x y =
    match x with
    | XI p ->
      (match y with
       | XI q0 -> XI (add_carry p q0)
       | XO q0 -> XO (add_carry p q0)
       | XH -> XI (succ p))
    | XO p ->
      (match y with
       | XI q0 -> XO (add_carry p q0)
       | XO q0 -> XI (add p q0)
       | XH -> XO (succ p))
    | XH ->
      (match y with
       | XI q0 -> XI (succ q0)
       | XO q0 -> XO (succ q0)
       | XH -> XI XH)

  (** val pred_double : positive -> positive **)

  let rec pred_double = function
  | XI p -> XI (XO p)
  | XO p -> XI (pred_double p)
  | XH -> XH

  (** val pred_N : positive -> n **)

  let pred_N = function
  | XI p -> Npos (XO p)
  | XO p -> Npos (pred_double p)
  | XH -> N0

  type mask = Pos.mask =
  | IsNul
  | IsPos of positive
  | IsNeg

  (** val succ_double_mask : mask -> mask **)

  let succ_double_mask = function
  | IsNul -> IsPos XH
  | IsPos p -> IsPos (XI p)
  | IsNeg -> IsNeg

  (** val double_mask : mask -> mask **)

  let double_mask = function
  | IsPos p -> IsPos (XO p)
  | x0 -> x0

  (** val double_pred_mask : positive -> mask **)

  let double_pred_mask = function
  | XI p -> IsPos (XO (XO p))
  | XO p -> IsPos (XO (pred_double p))
  | XH -> IsNul

  (** val sub_mask : positive -> positive -> mask **)

  let rec sub_mask x y =
    match x with
    | XI p ->
      (match y with
       | XI q0 -> double_mask (sub_mask p q0)
       | XO q0 -> succ_double_mask (sub_mask p q0)
       | XH -> IsPos (XO p))
    | XO p ->
      (match y with
       | XI q0 -> succ_double_mask (sub_mask_carry p q0)
       | XO q0 -> double_mask (sub_mask p q0)
       | XH -> IsPos (pred_double p))
    | XH -> (match y with
             | XH -> IsNul
             | _ -> IsNeg)

  (** val sub_mask_carry : positive -> positive -> mask **)

  and sub_mask_carry x y =
    match x with
    | XI p ->
      (match y with
       | XI q0 -> succ_double_mask (sub_mask_carry p q0)
       | XO q0 -> double_mask (sub_mask p q0)
       | XH -> IsPos (pred_double p))
    | XO p ->
      (match y with
       | XI q0 -> double_mask (sub_mask_carry p q0)
       | XO q0 -> succ_double_mask (sub_mask_carry p q0)
       | XH -> double_pred_mask p)
    | XH -> IsNeg

  (** val sub : positive -> positive -> positive **)

  let sub x y =
    match sub_mask x y with
    | IsPos z0 -> z0
    | _ -> XH

  (** val mul : positive -> positive -> positive **)

  let rec mul x y =
    match x with
    | XI p -> add y (XO (mul p y))
    | XO p -> XO (mul p y)
    | XH -> y

  (** val size_nat : positive -> nat **)

  let rec size_nat = function
  | XI p0 -> S (size_nat p0)
  | XO p0 -> S (size_nat p0)
  | XH -> S O

  (** val size : positive -> positive **)

  let rec size = function
  | XI p0 -> succ (size p0)
  | XO p0 -> succ (size p0)
  | XH -> XH

  (** val compare_cont : comparison -> positive -> positive -> comparison **)

  let rec compare_cont r x y =
    match x with
    | XI p ->
      (match y with
       | XI q0 -> compare_cont r p q0
       | XO q0 -> compare_cont Gt p q0
       | XH -> Gt)
    | XO p ->
      (match y with
       | XI q0 -> compare_cont Lt p q0
       | XO q0 -> compare_cont r p q0
       | XH -> Gt)
    | XH -> (match y with
             | XH -> r
             | _ -> Lt)

  (** val compare : positive -> positive -> comparison **)

  let compare =
    compare_cont Eq

  (** val eqb : positive -> positive -> bool **)

  let rec eqb p q0 =
    match p with
    | XI p0 -> (match q0 with
                | XI q1 -> eqb p0 q1
                | _ -> false)
    | XO p0 -> (match q0 with
                | XO q1 -> eqb p0 q1
                | _ -> false)
    | XH -> (match q0 with
             | XH -> true
             | _ -> false)

  (** val gcdn : nat -> positive -> positive -> positive **)

  let rec gcdn n0 a b =
    match n0 with
    | O -> XH
    | S n1 ->
      (match a with
       | XI a' ->
         (match b with
          | XI b' ->
            (match compare a' b' with
             | Eq -> a
             | Lt -> gcdn n1 (sub b' a') a
             | Gt -> gcdn n1 (sub a' b') b)
          | XO b0 -> gcdn n1 a b0
          | XH -> XH)
       | XO a0 ->
         (match b with
          | XI _ -> gcdn n1 a0 b
          | XO b0 -> XO (gcdn n1 a0 b0)
          | XH -> XH)
       | XH -> XH)

  (** val gcd : positive -> positive -> positive **)

  let gcd a b =
    gcdn (Coq__1.add (size_nat a) (size_nat b)) a b

  (** val ggcdn :
      nat -> positive -> positive -> positive * (positive * positive) **)

  let rec ggcdn n0 a b =
    match n0 with
    | O -> (XH, (a, b))
    | S n1 ->
      (match a with
       | XI a' ->
         (match b with
          | XI b' ->
            (match compare a' b' with
             | Eq -> (a, (XH, XH))
             | Lt ->
               let (g, p) = ggcdn n1 (sub b' a') a in
               let (ba, aa) = p in (g, (aa, (add aa (XO ba))))
             | Gt ->
               let (g, p) = ggcdn n1 (sub a' b') b in
               let (ab, bb) = p in (g, ((add bb (XO ab)), bb)))
          | XO b0 ->
            let (g, p) = ggcdn n1 a b0 in
            let (aa, bb) = p in (g, (aa, (XO bb)))
          | XH -> (XH, (a, XH)))
       | XO a0 ->
         (match b with
          | XI _ ->
            let (g, p) = ggcdn n1 a0 b in
            let (aa, bb) = p in (g, ((XO aa), bb))
          | XO b0 -> let (g, p) = ggcdn n1 a0 b0 in ((XO g), p)
          | XH -> (XH, (a, XH)))
       | XH -> (XH, (XH, b)))

  (** val ggcd : positive -> positive -> positive * (positive * positive) **)

  let ggcd a b =
    ggcdn (Coq__1.add (size_nat a) (size_nat b)) a b

  (** val coq_Nsucc_double : n -> n **)

  let coq_Nsucc_double = function
  | N0 -> Npos XH
  | Npos p -> Npos (XI p)

  (** val coq_Ndouble : n -> n **)

  let coq_Ndouble = function
  | N0 -> N0
  | Npos p -> Npos (XO p)

  (** val coq_lxor : positive -> positive -> n **)

  let rec coq_lxor p q0 =
    match p with
    | XI p0 ->
      (match q0 with
       | XI q1 -> coq_Ndouble (coq_lxor p0 q1)
       | XO q1 -> coq_Nsucc_double (coq_lxor p0 q1)
       | XH -> Npos (XO p0))
    | XO p0 ->
      (match q0 with
       | XI q1 -> coq_Nsucc_double (coq_lxor p0 q1)
       | XO q1 -> coq_Ndouble (coq_lxor p0 q1)
       | XH -> Npos (XI p0))
    | XH ->
      (match q0 with
       | XI q1 -> Npos (XO q1)
       | XO q1 -> Npos (XI q1)
       | XH -> N0)

  (** val iter_op : ('a1 -> 'a1 -> 'a1) -> positive -> 'a1 -> 'a1 **)

  let rec iter_op op p a =
    match p with
    | XI p0 -> op a (iter_op op p0 (op a a))
    | XO p0 -> iter_op op p0 (op a a)
    | XH -> a

  (** val to_nat : positive -> nat **)

  let to_nat x =
    iter_op Coq__1.add x (S O)
 end

module N =
 struct
  (** val succ_double : n -> n **)

  let succ_double = function
  | N0 -> Npos XH
  | Npos p -> Npos (XI p)

  (** val double : n -> n **)

  let double = function
  | N0 -> N0
  | Npos p -> Npos (XO p)

  (** val succ_pos : n -> positive **)

  let succ_pos = function
  | N0 -> XH
  | Npos p -> Coq_Pos.succ p

  (** val sub : n -> n -> n **)

  let sub n0 m =
    match n0 with
    | N0 -> N0
    | Npos n' ->
      (match m with
       | N0 -> n0
       | Npos m' ->
         (match Coq_Pos.sub_mask n' m' with
          | Coq_Pos.IsPos p -> Npos p
          | _ -> N0))

  (** val compare : n -> n -> comparison **)

  let compare n0 m =
    match n0 with
    | N0 -> (match m with
             | N0 -> Eq
             | Npos _ -> Lt)
    | Npos n' -> (match m with
                  | N0 -> Gt
                  | Npos m' -> Coq_Pos.compare n' m')

  (** val leb : n -> n -> bool **)

  let leb x y =
    match compare x y with
    | Gt -> false
    | _ -> true

  (** val pos_div_eucl : positive -> n -> n * n **)

  let rec pos_div_eucl a b =
    match a with
    | XI a' ->
      let (q0, r) = pos_div_eucl a' b in
      let r' = succ_double r in
      if leb b r' then ((succ_double q0), (sub r' b)) else ((double q0), r')
    | XO a' ->
      let (q0, r) = pos_div_eucl a' b in
      let r' = double r in
      if leb b r' then ((succ_double q0), (sub r' b)) else ((double q0), r')
    | XH ->
      (match b with
       | N0 -> (N0, (Npos XH))
       | Npos p -> (match p with
                    | XH -> ((Npos XH), N0)
                    | _ -> (N0, (Npos XH))))

  (** val coq_lxor : n -> n -> n **)

  let coq_lxor n0 m =
    match n0 with
    | N0 -> m
    | Npos p -> (match m with
                 | N0 -> n0
                 | Npos q0 -> Coq_Pos.coq_lxor p q0)
 end

module Z =
 struct
  (** val double : z -> z **)

  let double = function
  | Z0 -> Z0
  | Zpos p -> Zpos (XO p)
  | Zneg p -> Zneg (XO p)

  (** val succ_double : z -> z **)

  let succ_double = function
  | Z0 -> Zpos XH
  | Zpos p -> Zpos (XI p)
  | Zneg p -> Zneg (Coq_Pos.pred_double p)

  (** val pred_double : z -> z **)

  let pred_double = function
  | Z0 -> Zneg XH
  | Zpos p -> Zpos (Coq_Pos.pred_double p)
  | Zneg p -> Zneg (XI p)

  (** val pos_sub : positive -> positive -> z **)

  let rec pos_sub x y =
    match x with
    | XI p ->
      (match y with
       | XI q0 -> double (pos_sub p q0)
       | XO q0 -> succ_double (pos_sub p q0)
       | XH -> Zpos (XO p))
    | XO p ->
      (match y with
       | XI q0 -> pred_double (pos_sub p q0)
       | XO q0 -> double (pos_sub p q0)
       | XH -> Zpos (Coq_Pos.pred_double p))
    | XH ->
      (match y with
       | XI q0 -> Zneg (XO q0)
       | XO q0 -> Zneg (Coq_Pos.pred_double q0)
       | XH -> Z0)

  (** val add : z -> z -> z **)

  let add x y =
    match x with
    | Z0 -> y
    | Zpos x' ->
      (match y with
       | Z0 -> x
       | Zpos y' -> Zpos (Coq_Pos.add x' y')
       | Zneg y' -> pos_sub x' y')
    | Zneg x' ->
      (match y with
       | Z0 -> x
       | Zpos y' -> pos_sub y' x'
       | Zneg y' -> Zneg (Coq_Pos.add x' y'))

  (** val opp : z -> z **)

  let opp = function
  | Z0 -> Z0
  | Zpos x0 -> Zneg x0
  | Zneg x0 -> Zpos x0

  (** val sub : z -> z -> z **)

  let sub m n0 =
    add m (opp n0)

  (** val mul : z -> z -> z **)

  let mul x y =
    match x with
    | Z0 -> Z0
    | Zpos x' ->
      (match y with
       | Z0 -> Z0
       | Zpos y' -> Zpos (Coq_Pos.mul x' y')
       | Zneg y' -> Zneg (Coq_Pos.mul x' y'))
    | Zneg x' ->
      (match y with
       | Z0 -> Z0
       | Zpos y' -> Zneg (Coq_Pos.mul x' y')
       | Zneg y' -> Zpos (Coq_Pos.mul x' y'))

  (** val compare : z -> z -> comparison **)

  let compare x y =
    match x with
    | Z0 -> (match y with
             | Z0 -> Eq
             | Zpos _ -> Lt
             | Zneg _ -> Gt)
    | Zpos x' -> (match y with
                  | Zpos y' -> Coq_Pos.compare x' y'
                  | _ -> Gt)
    | Zneg x' ->
      (match y with
       | Zneg y' -> compOpp (Coq_Pos.compare x' y')
       | _ -> Lt)

  (** val sgn : z -> z **)

  let sgn = function
  | Z0 -> Z0
  | Zpos _ -> Zpos XH
  | Zneg _ -> Zneg XH

  (** val leb : z -> z -> bool **)

  let leb x y =
    match compare x y with
    | Gt -> false
    | _ -> true

  (** val ltb : z -> z -> bool **)

  let ltb x y =
    match compare x y with
    | Lt -> true
    | _ -> false

  (** val geb : z -> z -> bool **)

  let geb x y =
    match compare x y with
    | Lt -> false
    | _ -> true

  (** val gtb : z -> z -> bool **)

  let gtb x y =
    match compare x y with
    | Gt -> true
    | _ -> false

  (** val eqb : z -> z -> bool **)

  let eqb x y =
    match x with
    | Z0 -> (match y with
             | Z0 -> true
             | _ -> false)
    | Zpos p -> (match y with
                 | Zpos q0 -> Coq_Pos.eqb p q0
                 | _ -> false)
    | Zneg p -> (match y with
                 | Zneg q0 -> Coq_Pos.eqb p q0
                 | _ -> false)

  (** val abs : z -> z **)

  let abs = function
  | Zneg p -> Zpos p
  | x -> x

  (** val to_nat : z -> nat **)

  let to_nat = function
  | Zpos p -> Coq_Pos.to_nat p
  | _ -> O

  (** val of_N : n -> z **)

  let of_N = function
  | N0 -> Z0
  | Npos p -> Zpos p

  (** val to_pos : z -> positive **)

  let to_pos = function
  | Zpos p -> p
  | _ -> XH

  (** val pos_div_eucl : positive -> z -> z * z **)

  let rec pos_div_eucl a b =
    match a with
    | XI a' ->
      let (q0, r) = pos_div_eucl a' b in
      let r' = add (mul (Zpos (XO XH)) r) (Zpos XH) in
      if ltb r' b
      then ((mul (Zpos (XO XH)) q0), r')
      else ((add (mul (Zpos (XO XH)) q0) (Zpos XH)), (sub r' b))
    | XO a' ->
      let (q0, r) = pos_div_eucl a' b in
      let r' = mul (Zpos (XO XH)) r in
      if ltb r' b
      then ((mul (Zpos (XO XH)) q0), r')
      else ((add (mul (Zpos (XO XH)) q0) (Zpos XH)), (sub r' b))
    | XH -> if leb (Zpos (XO XH)) b then (Z0, (Zpos XH)) else ((Zpos XH), Z0)

  (** val div_eucl : z -> z -> z * z **)

  let div_eucl a b =
    match a with
    | Z0 -> (Z0, Z0)
    | Zpos a' ->
      (match b with
       | Z0 -> (Z0, a)
       | Zpos _ -> pos_div_eucl a' b
       | Zneg b' ->
         let (q0, r) = pos_div_eucl a' (Zpos b') in
         (match r with
          | Z0 -> ((opp q0), Z0)
          | _ -> ((opp (add q0 (Zpos XH))), (add b r))))
    | Zneg a' ->
      (match b with
       | Z0 -> (Z0, a)
       | Zpos _ ->
         let (q0, r) = pos_div_eucl a' b in
         (match r with
          | Z0 -> ((opp q0), Z0)
          | _ -> ((opp (add q0 (Zpos XH))), (sub b r)))
       | Zneg b' -> let (q0, r) = pos_div_eucl a' (Zpos b') in (q0, (opp r)))

  (** val div : z -> z -> z **)

  let div a b =
    let (q0, _) = div_eucl a b in q0

  (** val modulo : z -> z -> z **)

  let modulo a b =
    let (_, r) = div_eucl a b in r

  (** val quotrem : z -> z -> z * z **)

  let quotrem a b =
    match a with
    | Z0 -> (Z0, Z0)
    | Zpos a0 ->
      (match b with
       | Z0 -> (Z0, a)
       | Zpos b0 ->
         let (q0, r) = N.pos_div_eucl a0 (Npos b0) in ((of_N q0), (of_N r))
       | Zneg b0 ->
         let (q0, r) = N.pos_div_eucl a0 (Npos b0) in
         ((opp (of_N q0)), (of_N r)))
    | Zneg a0 ->
      (match b with
       | Z0 -> (Z0, a)
       | Zpos b0 ->
         let (q0, r) = N.pos_div_eucl a0 (Npos b0) in
         ((opp (of_N q0)), (opp (of_N r)))
       | Zneg b0 ->
         let (q0, r) = N.pos_div_eucl a0 (Npos b0) in
         ((of_N q0), (opp (of_N r))))

  (** val quot : z -> z -> z **)

  let quot a b =
    fst (quotrem a b)

  (** val rem : z -> z -> z **)

  let rem a b =
    snd (quotrem a b)

  (** val log2 : z -> z **)

  let log2 = function
  | Zpos p0 ->
    (match p0 with
     | XI p -> Zpos (Coq_Pos.size p)
     | XO p -> Zpos (Coq_Pos.size p)
     | XH -> Z0)
  | _ -> Z0

  (** val gcd : z -> z -> z **)

  let gcd a b =
    match a with
    | Z0 -> abs b
    | Zpos a0 ->
      (match b with
       | Z0 -> abs a
       | Zpos b0 -> Zpos (Coq_Pos.gcd a0 b0)
       | Zneg b0 -> Zpos (Coq_Pos.gcd a0 b0))
    | Zneg a0 ->
      (match b with
       | Z0 -> abs a
       | Zpos b0 -> Zpos (Coq_Pos.gcd a0 b0)
       | Zneg b0 -> Zpos (Coq_Pos.gcd a0 b0))

  (** val ggcd : z -> z -> z * (z * z) **)

  let ggcd a b =
    match a with
    | Z0 -> ((abs b), (Z0, (sgn b)))
    | Zpos a0 ->
      (match b with
       | Z0 -> ((abs a), ((sgn a), Z0))
       | Zpos b0 ->
         let (g, p) = Coq_Pos.ggcd a0 b0 in
         let (aa, bb) = p in ((Zpos g), ((Zpos aa), (Zpos bb)))
       | Zneg b0 ->
         let (g, p) = Coq_Pos.ggcd a0 b0 in
         let (aa, bb) = p in ((Zpos g), ((Zpos aa), (Zneg bb))))
    | Zneg a0 ->
      (match b with
       | Z0 -> ((abs a), ((sgn a), Z0))
       | Zpos b0 ->
         let (g, p) = Coq_Pos.ggcd a0 b0 in
         let (aa, bb) = p in ((Zpos g), ((Zneg aa), (Zpos bb)))
       | Zneg b0 ->
         let (g, p) = Coq_Pos.ggcd a0 b0 in
         let (aa, bb) = p in ((Zpos g), ((Zneg aa), (Zneg bb))))

  (** val coq_lxor : z -> z -> z **)

  let coq_lxor a b =
    match a with
    | Z0 -> b
    | Zpos a0 ->
      (match b with
       | Z0 -> a
       | Zpos b0 -> of_N (Coq_Pos.coq_lxor a0 b0)
       | Zneg b0 ->
         Zneg (N.succ_pos (N.coq_lxor (Npos a0) (Coq_Pos.pred_N b0))))
    | Zneg a0 ->
      (match b with
       | Z0 -> a
       | Zpos b0 ->
         Zneg (N.succ_pos (N.coq_lxor (Coq_Pos.pred_N a0) (Npos b0)))
       | Zneg b0 -> of_N (N.coq_lxor (Coq_Pos.pred_N a0) (Coq_Pos.pred_N b0)))

  (** val lcm : z -> z -> z **)

  let lcm a b =
    abs (mul a (div b (gcd a b)))
 end

(** val fold_left : ('a1 -> 'a2 -> 'a1) -> 'a2 list -> 'a1 -> 'a1 **)

let rec fold_left f l a0 =
  match l with
  | [] -> a0
  | b :: t -> fold_left f t (f a0 b)

type q = { qnum : z; qden : positive }

(** val qcompare : q -> q -> comparison **)

let qcompare p q0 =
  Z.compare (Z.mul p.qnum (Zpos q0.qden)) (Z.mul q0.qnum (Zpos p.qden))

(** val qplus : q -> q -> q **)

let qplus x y =
  { qnum = (Z.add (Z.mul x.qnum (Zpos y.qden)) (Z.mul y.qnum (Zpos x.qden)));
    qden = (Coq_Pos.mul x.qden y.qden) }

(** val qmult : q -> q -> q **)

let qmult x y =
  { qnum = (Z.mul x.qnum y.qnum); qden = (Coq_Pos.mul x.qden y.qden) }

(** val qopp : q -> q **)

let qopp x =
  { qnum = (Z.opp x.qnum); qden = x.qden }

(** val qminus : q -> q -> q **)

let qminus x y =
  qplus x (qopp y)

(** val qinv : q -> q **)

let qinv x =
  match x.qnum with
  | Z0 -> { qnum = Z0; qden = XH }
  | Zpos p -> { qnum = (Zpos x.qden); qden = p }
  | Zneg p -> { qnum = (Zneg x.qden); qden = p }

(** val qdiv : q -> q -> q **)

let qdiv x y =
  qmult x (qinv y)

(** val qred : q -> q **)

let qred q0 =
  let { qnum = q1; qden = q2 } = q0 in
  let (r1, r2) = snd (Z.ggcd q1 (Zpos q2)) in
  { qnum = r1; qden = (Z.to_pos r2) }

(** val qfloor : q -> z **)

let qfloor x =
  let { qnum = n0; qden = d } = x in Z.div n0 (Zpos d)

(** val qceiling : q -> z **)

let qceiling x =
  Z.opp (qfloor (qopp x))

(** val wORD_MIN : z **)

let wORD_MIN =
  Zneg (XO (XO (XO (XO (XO (XO (XO (XO (XO (XO (XO (XO (XO (XO (XO (XO (XO
    (XO (XO (XO (XO (XO (XO (XO (XO (XO (XO (XO (XO (XO (XO
    XH)))))))))))))))))))))))))))))))

(** val wORD_MAX : z **)

let wORD_MAX =
  Zpos (XI (XI (XI (XI (XI (XI (XI (XI (XI (XI (XI (XI (XI (XI (XI (XI (XI
    (XI (XI (XI (XI (XI (XI (XI (XI (XI (XI (XI (XI (XI
    XH))))))))))))))))))))))))))))))

(** val uWORD_MAX : z **)

let uWORD_MAX =
  Zpos (XI (XI (XI (XI (XI (XI (XI (XI (XI (XI (XI (XI (XI (XI (XI (XI (XI
    (XI (XI (XI (XI (XI (XI (XI (XI (XI (XI (XI (XI (XI (XI
    XH)))))))))))))))))))))))))))))))

(** val lWORD_MIN : z **)

let lWORD_MIN =
  Zneg (XO (XO (XO (XO (XO (XO (XO (XO (XO (XO (XO (XO (XO (XO (XO (XO (XO
    (XO (XO (XO (XO (XO (XO (XO (XO (XO (XO (XO (XO (XO (XO (XO (XO (XO (XO
    (XO (XO (XO (XO (XO (XO (XO (XO (XO (XO (XO (XO (XO (XO (XO (XO (XO (XO
    (XO (XO (XO (XO (XO (XO (XO (XO (XO (XO
    XH)))))))))))))))))))))))))))))))))))))))))))))))))))))))))))))))

(** val lWORD_MAX : z **)

let lWORD_MAX =
  Zpos (XI (XI (XI (XI (XI (XI (XI (XI (XI (XI (XI (XI (XI (XI (XI (XI (XI
    (XI (XI (XI (XI (XI (XI (XI (XI (XI (XI (XI (XI (XI (XI (XI (XI (XI (XI
    (XI (XI (XI (XI (XI (XI (XI (XI (XI (XI (XI (XI (XI (XI (XI (XI (XI (XI
    (XI (XI (XI (XI (XI (XI (XI (XI (XI
    XH))))))))))))))))))))))))))))))))))))))))))))))))))))))))))))))

(** val in_word : z -> bool **)

let in_word z0 =
  (&&) (Z.leb wORD_MIN z0) (Z.leb z0 wORD_MAX)

(** val in_lword : z -> bool **)

let in_lword z0 =
  (&&) (Z.leb lWORD_MIN z0) (Z.leb z0 lWORD_MAX)

(** val to_uword : z -> z **)

let to_uword z0 =
  Z.modulo z0 (Zpos (XO (XO (XO (XO (XO (XO (XO (XO (XO (XO (XO (XO (XO (XO
    (XO (XO (XO (XO (XO (XO (XO (XO (XO (XO (XO (XO (XO (XO (XO (XO (XO (XO
    XH)))))))))))))))))))))))))))))))))

(** val to_ulword : z -> z **)

let to_ulword z0 =
  Z.modulo z0 (Zpos (XO (XO (XO (XO (XO (XO (XO (XO (XO (XO (XO (XO (XO (XO
    (XO (XO (XO (XO (XO (XO (XO (XO (XO (XO (XO (XO (XO (XO (XO (XO (XO (XO
    (XO (XO (XO (XO (XO (XO (XO (XO (XO (XO (XO (XO (XO (XO (XO (XO (XO (XO
    (XO (XO (XO (XO (XO (XO (XO (XO (XO (XO (XO (XO (XO (XO
    XH)))))))))))))))))))))))))))))))))))))))))))))))))))))))))))))))))

(** val to_word : z -> z **)

let to_word z0 =
  Z.sub
    (Z.modulo
      (Z.add z0 (Zpos (XO (XO (XO (XO (XO (XO (XO (XO (XO (XO (XO (XO (XO (XO
        (XO (XO (XO (XO (XO (XO (XO (XO (XO (XO (XO (XO (XO (XO (XO (XO (XO
        XH))))))))))))))))))))))))))))))))) (Zpos (XO (XO (XO (XO (XO (XO (XO
      (XO (XO (XO (XO (XO (XO (XO (XO (XO (XO (XO (XO (XO (XO (XO (XO (XO (XO
      (XO (XO (XO (XO (XO (XO (XO XH)))))))))))))))))))))))))))))))))) (Zpos
    (XO (XO (XO (XO (XO (XO (XO (XO (XO (XO (XO (XO (XO (XO (XO (XO (XO (XO
    (XO (XO (XO (XO (XO (XO (XO (XO (XO (XO (XO (XO (XO
    XH))))))))))))))))))))))))))))))))

(** val to_lword : z -> z **)

let to_lword z0 =
  Z.sub
    (Z.modulo
      (Z.add z0 (Zpos (XO (XO (XO (XO (XO (XO (XO (XO (XO (XO (XO (XO (XO (XO
        (XO (XO (XO (XO (XO (XO (XO (XO (XO (XO (XO (XO (XO (XO (XO (XO (XO
        (XO (XO (XO (XO (XO (XO (XO (XO (XO (XO (XO (XO (XO (XO (XO (XO (XO
        (XO (XO (XO (XO (XO (XO (XO (XO (XO (XO (XO (XO (XO (XO (XO
        XH)))))))))))))))))))))))))))))))))))))))))))))))))))))))))))))))))
      (Zpos (XO (XO (XO (XO (XO (XO (XO (XO (XO (XO (XO (XO (XO (XO (XO (XO
      (XO (XO (XO (XO (XO (XO (XO (XO (XO (XO (XO (XO (XO (XO (XO (XO (XO (XO
      (XO (XO (XO (XO (XO (XO (XO (XO (XO (XO (XO (XO (XO (XO (XO (XO (XO (XO
      (XO (XO (XO (XO (XO (XO (XO (XO (XO (XO (XO (XO
      XH))))))))))))))))))))))))))))))))))))))))))))))))))))))))))))))))))
    (Zpos (XO (XO (XO (XO (XO (XO (XO (XO (XO (XO (XO (XO (XO (XO (XO (XO (XO
    (XO (XO (XO (XO (XO (XO (XO (XO (XO (XO (XO (XO (XO (XO (XO (XO (XO (XO
    (XO (XO (XO (XO (XO (XO (XO (XO (XO (XO (XO (XO (XO (XO (XO (XO (XO (XO
    (XO (XO (XO (XO (XO (XO (XO (XO (XO (XO
    XH))))))))))))))))))))))))))))))))))))))))))))))))))))))))))))))))

type err =
| UB_overflow
| UB_divzero
| Abort_called
| Gmp_divzero
| Gmp_inexact
| Out_of_fuel

type 'a res =
| Ok of 'a
| Err of err

type 'a mres =
| MOk of 'a
| MOvf
| MErr of err

(** val mbind : 'a1 mres -> ('a1 -> 'a2 mres) -> 'a2 mres **)

let mbind m k =
  match m with
  | MOk a -> k a
  | MOvf -> MOvf
  | MErr e -> MErr e

(** val rbind : 'a1 res -> ('a1 -> 'a2 res) -> 'a2 res **)

let rbind m k =
  match m with
  | Ok a -> k a
  | Err e -> Err e

(** val lift : 'a1 mres -> 'a1 res **)

let lift = function
| MOk a -> Ok a
| MOvf -> Err UB_overflow
| MErr e -> Err e

(** val sadd64 : z -> z -> z mres **)

let sadd64 x y =
  let r = Z.add x y in if in_lword r then MOk r else MErr UB_overflow

(** val ssub64 : z -> z -> z mres **)

let ssub64 x y =
  let r = Z.sub x y in if in_lword r then MOk r else MErr UB_overflow

(** val smul64 : z -> z -> z mres **)

let smul64 x y =
  let r = Z.mul x y in if in_lword r then MOk r else MErr UB_overflow

(** val sneg64 : z -> z mres **)

let sneg64 x =
  let r = Z.opp x in if in_lword r then MOk r else MErr UB_overflow

(** val sdiv64 : z -> z -> z mres **)

let sdiv64 x y =
  if Z.eqb y Z0
  then MErr UB_divzero
  else if (&&) (Z.eqb x lWORD_MIN) (Z.eqb y (Zneg XH))
       then MErr UB_overflow
       else MOk (Z.quot x y)

(** val sneg32 : z -> z mres **)

let sneg32 x =
  let r = Z.opp x in if in_word r then MOk r else MErr UB_overflow

(** val sadd32 : z -> z -> z mres **)

let sadd32 x y =
  let r = Z.add x y in if in_word r then MOk r else MErr UB_overflow

(** val sdiv32 : z -> z -> z mres **)

let sdiv32 x y =
  if Z.eqb y Z0
  then MErr UB_divzero
  else if (&&) (Z.eqb x wORD_MIN) (Z.eqb y (Zneg XH))
       then MErr UB_overflow
       else MOk (Z.quot x y)

(** val srem32 : z -> z -> z mres **)

let srem32 x y =
  if Z.eqb y Z0
  then MErr UB_divzero
  else if (&&) (Z.eqb x wORD_MIN) (Z.eqb y (Zneg XH))
       then MErr UB_overflow
       else MOk (Z.rem x y)

(** val umul64 : z -> z -> z **)

let umul64 x y =
  to_ulword (Z.mul x y)

(** val udiv : z -> z -> z mres **)

let udiv x y =
  if Z.eqb y Z0 then MErr UB_divzero else MOk (Z.div x y)

(** val absVal_w : z -> z **)

let absVal_w x =
  if Z.ltb x Z0 then to_uword (Z.opp (to_uword x)) else to_uword x

(** val absVal_l : z -> z **)

let absVal_l x =
  if Z.ltb x Z0 then to_ulword (Z.opp (to_ulword x)) else to_ulword x

(** val chk_word : z -> z mres **)

let chk_word v =
  let tmp = to_lword v in
  if (||) (Z.ltb tmp wORD_MIN) (Z.gtb tmp wORD_MAX) then MOvf else MOk tmp

(** val chk_uword : z -> z mres **)

let chk_uword v =
  if Z.ltb v (Zpos XH)
  then MErr Abort_called
  else let tmp = to_ulword v in if Z.gtb tmp uWORD_MAX then MOvf else MOk tmp

(** val chk_sum_lword : z -> z -> z mres **)

let chk_sum_lword s1 s2 =
  if in_lword (Z.add s1 s2) then MOk (Z.add s1 s2) else MOvf

(** val chk_sub_lword : z -> z -> z mres **)

let chk_sub_lword s1 s2 =
  if in_lword (Z.sub s1 s2) then MOk (Z.sub s1 s2) else MOvf

(** val gcd_loop : z option -> nat -> z -> z -> z mres **)

let rec gcd_loop smin fuel a b =
  match fuel with
  | O -> MErr Out_of_fuel
  | S f ->
    if match smin with
       | Some m -> (&&) (Z.eqb a m) (Z.eqb b (Zneg XH))
       | None -> false
    then MErr UB_overflow
    else let r = Z.rem a b in
         if Z.eqb r Z0 then MOk b else gcd_loop smin f b r

(** val gcd_fuel : z -> nat **)

let gcd_fuel b =
  S (mul (S (S O)) (Z.to_nat (Z.add (Z.log2 (Z.abs b)) (Zpos XH))))

(** val tgcd : z option -> z -> z -> z mres **)

let tgcd smin a b =
  if Z.eqb a Z0
  then MOk b
  else if Z.eqb b Z0
       then MOk a
       else if Z.gtb b a
            then gcd_loop smin (gcd_fuel a) b a
            else gcd_loop smin (gcd_fuel b) a b

(** val gcd_u : z -> z -> z mres **)

let gcd_u a b =
  tgcd None a b

(** val gcd_s32 : z -> z -> z mres **)

let gcd_s32 a b =
  tgcd (Some wORD_MIN) a b

type fr =
| Word of z * z
| Big of q

(** val fits_word : q -> bool **)

let fits_word q0 =
  (&&) (in_word q0.qnum) (Z.leb (Zpos q0.qden) uWORD_MAX)

(** val wfb : fr -> bool **)

let wfb = function
| Word (n0, d) ->
  (&&) ((&&) ((&&) (in_word n0) (Z.leb (Zpos XH) d)) (Z.leb d uWORD_MAX))
    (Z.eqb (Z.gcd n0 d) (Zpos XH))
| Big q0 ->
  (&&) (Z.eqb (Z.gcd q0.qnum (Zpos q0.qden)) (Zpos XH)) (negb (fits_word q0))

(** val try_fit_word : q -> fr **)

let try_fit_word q0 =
  if fits_word q0 then Word (q0.qnum, (Zpos q0.qden)) else Big q0

(** val mpq_of : fr -> q **)

let mpq_of = function
| Word (n0, d) -> { qnum = n0; qden = (Z.to_pos d) }
| Big q0 -> q0

(** val gmp_add : q -> q -> q **)

let gmp_add x y =
  qred (qplus x y)

(** val gmp_sub : q -> q -> q **)

let gmp_sub x y =
  qred (qminus x y)

(** val gmp_mul : q -> q -> q **)

let gmp_mul x y =
  qred (qmult x y)

(** val gmp_div : q -> q -> q res **)

let gmp_div x y =
  if Z.eqb y.qnum Z0 then Err Gmp_divzero else Ok (qred (qdiv x y))

(** val gmp_inv : q -> q res **)

let gmp_inv x =
  if Z.eqb x.qnum Z0 then Err Gmp_divzero else Ok (qred (qinv x))

(** val gmp_neg : q -> q **)

let gmp_neg =
  qopp

(** val of_word : z -> fr **)

let of_word x =
  Word (x, (Zpos XH))

(** val of_uint32 : z -> fr **)

let of_uint32 x =
  if Z.gtb x wORD_MAX
  then Big { qnum = x; qden = XH }
  else Word (x, (Zpos XH))

(** val of_mpz : z -> fr **)

let of_mpz z0 =
  if in_word z0 then Word (z0, (Zpos XH)) else Big { qnum = z0; qden = XH }

(** val of_string : z -> positive -> fr **)

let of_string n0 d =
  try_fit_word (qred { qnum = n0; qden = d })

(** val of_word_uword : z -> z -> fr res **)

let of_word_uword n0 d =
  let absN = absVal_w n0 in
  rbind (lift (gcd_u absN d)) (fun common ->
    if Z.gtb common (Zpos XH)
    then rbind (lift (udiv absN common)) (fun absNum ->
           rbind (lift (udiv d common)) (fun den ->
             let w = to_word absNum in
             if Z.geb n0 Z0
             then Ok (Word (w, den))
             else rbind (lift (sneg32 w)) (fun m -> Ok (Word (m, den)))))
    else Ok (Word (n0, d)))

(** val finish : (z * z) mres -> fr res -> fr res **)

let finish w slow =
  match w with
  | MOk a -> let (n0, d) = a in Ok (Word (n0, d))
  | MOvf -> slow
  | MErr e -> Err e

(** val reduce_tail : (z -> z) -> (z -> bool) -> z -> z -> (z * z) mres **)

let reduce_tail conv test n0 d =
  mbind (gcd_u (absVal_l n0) d) (fun g ->
    let common = conv g in
    if test common
    then mbind (sdiv64 n0 common) (fun q0 ->
           mbind (chk_word q0) (fun zn ->
             mbind (udiv d (to_ulword common)) (fun dq ->
               mbind (chk_uword dq) (fun zd -> MOk (zn, zd)))))
    else mbind (chk_word n0) (fun zn ->
           mbind (chk_uword d) (fun zd -> MOk (zn, zd))))

(** val ne1 : z -> bool **)

let ne1 c =
  negb (Z.eqb c (Zpos XH))

(** val gt1 : z -> bool **)

let gt1 c =
  Z.gtb c (Zpos XH)

(** val add_word : z -> z -> z -> z -> (z * z) mres **)

let add_word an ad bn bd =
  if Z.eqb bn Z0
  then MOk (an, ad)
  else if Z.eqb an Z0
       then MOk (bn, bd)
       else if (&&) ((&&) (Z.eqb ad bd) (Z.gtb bn wORD_MIN))
                 (Z.eqb an (Z.opp bn))
            then MOk (Z0, (Zpos XH))
            else if Z.eqb bd (Zpos XH)
                 then mbind (smul64 bn ad) (fun t ->
                        mbind (sadd64 an t) (fun num_tmp ->
                          mbind (chk_word num_tmp) (fun zn -> MOk (zn, ad))))
                 else if Z.eqb ad (Zpos XH)
                      then mbind (smul64 an bd) (fun t ->
                             mbind (sadd64 bn t) (fun num_tmp ->
                               mbind (chk_word num_tmp) (fun zn -> MOk (zn,
                                 bd))))
                      else mbind (gcd_u ad bd) (fun common ->
                             mbind (udiv bd common) (fun bq ->
                               mbind
                                 (if ne1 common
                                  then mbind (udiv ad common) (fun aq ->
                                         mbind (smul64 an bq) (fun n1 ->
                                           mbind (smul64 bn aq) (fun n2 ->
                                             MOk (n1, n2))))
                                  else mbind (smul64 an bd) (fun n1 ->
                                         mbind (smul64 bn ad) (fun n2 -> MOk
                                           (n1, n2)))) (fun pat ->
                                 let (n1, n2) = pat in
                                 mbind (chk_sum_lword n1 n2) (fun n0 ->
                                   let d = umul64 ad bq in
                                   reduce_tail to_uword ne1 n0 d))))

(** val big_add : fr -> fr -> fr res **)

let big_add a b =
  Ok (try_fit_word (gmp_add (mpq_of a) (mpq_of b)))

(** val fr_add : fr -> fr -> fr res **)

let fr_add a b =
  match a with
  | Word (an, ad) ->
    (match b with
     | Word (bn, bd) -> finish (add_word an ad bn bd) (big_add a b)
     | Big _ -> big_add a b)
  | Big _ -> big_add a b

(** val sub_word : z -> z -> z -> z -> (z * z) mres **)

let sub_word an ad bn bd =
  if Z.eqb bn Z0
  then MOk (an, ad)
  else if Z.eqb an Z0
       then mbind (sneg64 bn) (fun m ->
              mbind (chk_word m) (fun zn -> MOk (zn, bd)))
       else if (&&) (Z.eqb ad bd) (Z.eqb an bn)
            then MOk (Z0, (Zpos XH))
            else if Z.eqb bd (Zpos XH)
                 then mbind (smul64 bn ad) (fun t ->
                        mbind (ssub64 an t) (fun v ->
                          mbind (chk_word v) (fun zn -> MOk (zn, ad))))
                 else if Z.eqb ad (Zpos XH)
                      then mbind (smul64 an bd) (fun t ->
                             mbind (ssub64 t bn) (fun v ->
                               mbind (chk_word v) (fun zn -> MOk (zn, bd))))
                      else mbind (gcd_u ad bd) (fun common ->
                             mbind
                               (if ne1 common
                                then mbind (udiv bd common) (fun bq ->
                                       mbind (udiv ad common) (fun aq ->
                                         mbind (smul64 an bq) (fun n1 ->
                                           mbind (smul64 bn aq) (fun n2 ->
                                             mbind (ssub64 n1 n2) (fun n0 ->
                                               MOk (n0, (umul64 ad bq)))))))
                                else mbind (smul64 an bd) (fun n1 ->
                                       mbind (smul64 bn ad) (fun n2 ->
                                         mbind (chk_sub_lword n1 n2)
                                           (fun n0 -> MOk (n0,
                                           (umul64 ad bd)))))) (fun pat ->
                               let (n0, d) = pat in
                               reduce_tail to_uword ne1 n0 d))

(** val big_sub : fr -> fr -> fr res **)

let big_sub a b =
  Ok (try_fit_word (gmp_sub (mpq_of a) (mpq_of b)))

(** val fr_sub : fr -> fr -> fr res **)

let fr_sub a b =
  match a with
  | Word (an, ad) ->
    (match b with
     | Word (bn, bd) -> finish (sub_word an ad bn bd) (big_sub a b)
     | Big _ -> big_sub a b)
  | Big _ -> big_sub a b

(** val is_word_zero : fr -> bool **)

let is_word_zero = function
| Word (n0, _) -> Z.eqb n0 Z0
| Big _ -> false

(** val is_word_one : fr -> bool **)

let is_word_one = function
| Word (n0, d) -> (&&) (Z.eqb n0 (Zpos XH)) (Z.eqb d (Zpos XH))
| Big _ -> false

(** val mul_word : z -> z -> z -> z -> (z * z) mres **)

let mul_word an ad bn bd =
  mbind (gcd_u (absVal_w an) bd) (fun common1 ->
    mbind (gcd_u ad (absVal_w bn)) (fun common2 ->
      mbind
        (if gt1 common1
         then mbind (sdiv64 an common1) (fun k1 ->
                mbind (udiv bd common1) (fun k4 -> MOk (k1, k4)))
         else MOk (an, bd)) (fun pat ->
        let (k1, k4) = pat in
        mbind
          (if gt1 common2
           then mbind (sdiv64 bn common2) (fun k2 ->
                  mbind (udiv ad common2) (fun k3 -> MOk (k2, k3)))
           else MOk (bn, ad)) (fun pat0 ->
          let (k2, k3) = pat0 in
          mbind (smul64 k1 k2) (fun p ->
            mbind (chk_word p) (fun zn ->
              mbind (chk_uword (umul64 k3 k4)) (fun zd -> MOk (zn, zd))))))))

(** val big_mul : fr -> fr -> fr res **)

let big_mul a b =
  Ok (try_fit_word (gmp_mul (mpq_of a) (mpq_of b)))

(** val fr_mul : fr -> fr -> fr res **)

let fr_mul a b =
  if (||) (is_word_zero a) (is_word_zero b)
  then Ok (Word (Z0, (Zpos XH)))
  else if is_word_one a
       then Ok b
       else if is_word_one b
            then Ok a
            else (match a with
                  | Word (an, ad) ->
                    (match b with
                     | Word (bn, bd) ->
                       finish (mul_word an ad bn bd) (big_mul a b)
                     | Big _ -> big_mul a b)
                  | Big _ -> big_mul a b)

(** val flip_sign : z -> z -> bool **)

let flip_sign an bn =
  (||) ((&&) (Z.ltb bn Z0) (Z.geb an Z0)) ((&&) (Z.gtb bn Z0) (Z.leb an Z0))

(** val div_core : z -> z -> z -> z -> (z * z) mres **)

let div_core an ad bn bd =
  mbind (gcd_u (absVal_w an) (absVal_w bn)) (fun common1 ->
    mbind (gcd_u ad bd) (fun common2 ->
      mbind (udiv (absVal_w an) common1) (fun x1 ->
        mbind (udiv bd common2) (fun y1 ->
          mbind (chk_word (umul64 x1 y1)) (fun zn ->
            mbind (udiv (absVal_w bn) common1) (fun x2 ->
              mbind (udiv ad common2) (fun y2 ->
                mbind (chk_uword (umul64 x2 y2)) (fun zd ->
                  if flip_sign an bn
                  then mbind (sneg32 zn) (fun zn' -> MOk (zn', zd))
                  else MOk (zn, zd)))))))))

(** val div_word : z -> z -> z -> z -> (z * z) mres **)

let div_word an ad bn bd =
  if (&&) (Z.eqb an bn) (Z.eqb ad bd)
  then MOk ((Zpos XH), (Zpos XH))
  else div_core an ad bn bd

(** val big_div : fr -> fr -> fr res **)

let big_div a b =
  rbind (gmp_div (mpq_of a) (mpq_of b)) (fun q0 -> Ok (try_fit_word q0))

(** val fr_div : fr -> fr -> fr res **)

let fr_div a b =
  if is_word_one b
  then Ok a
  else if is_word_zero a
       then Ok (Word (Z0, (Zpos XH)))
       else (match a with
             | Word (an, ad) ->
               (match b with
                | Word (bn, bd) -> finish (div_word an ad bn bd) (big_div a b)
                | Big _ -> big_div a b)
             | Big _ -> big_div a b)

(** val addA_word : z -> z -> z -> z -> (z * z) mres **)

let addA_word an ad bn bd =
  if Z.eqb bd (Zpos XH)
  then mbind (smul64 bn ad) (fun t ->
         mbind (sadd64 an t) (fun v ->
           mbind (chk_word v) (fun zn -> MOk (zn, ad))))
  else if Z.eqb an Z0
       then MOk (bn, bd)
       else mbind (smul64 an bd) (fun c1 ->
              mbind (smul64 bn ad) (fun c2 ->
                mbind (chk_sum_lword c1 c2) (fun n0 ->
                  let d = umul64 ad bd in reduce_tail to_lword gt1 n0 d)))

(** val fr_addA : fr -> fr -> fr res **)

let fr_addA a b = match b with
| Word (bn, bd) ->
  if Z.eqb bn Z0
  then Ok a
  else (match a with
        | Word (an, ad) -> finish (addA_word an ad bn bd) (big_add a b)
        | Big _ -> big_add a b)
| Big _ -> big_add a b

(** val subA_word : z -> z -> z -> z -> (z * z) mres **)

let subA_word an ad bn bd =
  mbind (gcd_u ad bd) (fun common ->
    mbind (udiv bd common) (fun bq ->
      mbind (udiv ad common) (fun aq ->
        mbind (smul64 an bq) (fun p1 ->
          mbind (chk_word p1) (fun n1 ->
            mbind (smul64 bn aq) (fun p2 ->
              mbind (chk_word p2) (fun n2 ->
                mbind (ssub64 n1 n2) (fun n0 ->
                  let d = umul64 ad bq in reduce_tail to_uword gt1 n0 d))))))))

(** val fr_subA : fr -> fr -> fr res **)

let fr_subA a b =
  match a with
  | Word (an, ad) ->
    (match b with
     | Word (bn, bd) -> finish (subA_word an ad bn bd) (big_sub a b)
     | Big _ -> big_sub a b)
  | Big _ -> big_sub a b

(** val mulA_word : z -> z -> z -> z -> (z * z) mres **)

let mulA_word an ad bn bd =
  mbind (gcd_u (absVal_w an) bd) (fun common1 ->
    mbind (gcd_u ad (absVal_w bn)) (fun common2 ->
      mbind
        (if gt1 common1 then udiv (absVal_w an) common1 else MOk (absVal_w an))
        (fun x ->
        mbind
          (if gt1 common2
           then udiv (absVal_w bn) common2
           else MOk (absVal_w bn)) (fun y ->
          mbind (smul64 x y) (fun p ->
            mbind (chk_word p) (fun zn ->
              mbind (if gt1 common2 then udiv ad common2 else MOk ad)
                (fun u ->
                mbind (if gt1 common1 then udiv bd common1 else MOk bd)
                  (fun v ->
                  mbind (chk_uword (umul64 u v)) (fun zd ->
                    if flip_sign an bn
                    then mbind (sneg32 zn) (fun zn' -> MOk (zn', zd))
                    else MOk (zn, zd))))))))))

(** val fr_mulA : fr -> fr -> fr res **)

let fr_mulA a b =
  match a with
  | Word (an, ad) ->
    (match b with
     | Word (bn, bd) -> finish (mulA_word an ad bn bd) (big_mul a b)
     | Big _ -> big_mul a b)
  | Big _ -> big_mul a b

(** val fr_divA : fr -> fr -> fr res **)

let fr_divA a b =
  match a with
  | Word (an, ad) ->
    (match b with
     | Word (bn, bd) -> finish (div_core an ad bn bd) (big_div a b)
     | Big _ -> big_div a b)
  | Big _ -> big_div a b

(** val big_neg : fr -> fr res **)

let big_neg a =
  Ok (try_fit_word (gmp_neg (mpq_of a)))

(** val fr_neg : fr -> fr res **)

let fr_neg a = match a with
| Word (n0, d) ->
  if Z.gtb n0 wORD_MIN
  then rbind (lift (sneg32 n0)) (fun m -> of_word_uword m d)
  else big_neg a
| Big _ -> big_neg a

(** val fr_negate : fr -> fr res **)

let fr_negate a = match a with
| Word (n0, d) ->
  if Z.gtb n0 wORD_MIN
  then rbind (lift (sneg32 n0)) (fun m -> Ok (Word (m, d)))
  else big_neg a
| Big _ -> big_neg a

(** val inv_word : z -> z -> (z * z) mres **)

let inv_word n0 d =
  if Z.gtb n0 Z0
  then mbind (chk_word d) (fun zn ->
         mbind (chk_uword n0) (fun zd -> MOk (zn, zd)))
  else mbind (sneg64 d) (fun m ->
         mbind (chk_word m) (fun zn ->
           mbind (sneg64 n0) (fun k ->
             mbind (chk_uword k) (fun zd -> MOk (zn, zd)))))

(** val big_inv : fr -> fr res **)

let big_inv a =
  rbind (gmp_inv (mpq_of a)) (fun q0 -> Ok (try_fit_word q0))

(** val fr_inv : fr -> fr res **)

let fr_inv a = match a with
| Word (n0, d) -> finish (inv_word n0 d) (big_inv a)
| Big _ -> big_inv a

(** val cmp_lword : z -> z -> z **)

let cmp_lword a b =
  if Z.ltb a b then Zneg XH else if Z.gtb a b then Zpos XH else Z0

(** val z_of_comparison : comparison -> z **)

let z_of_comparison = function
| Eq -> Z0
| Lt -> Zneg XH
| Gt -> Zpos XH

(** val fr_compare : fr -> fr -> z res **)

let fr_compare a b =
  match a with
  | Word (an, ad) ->
    (match b with
     | Word (bn, bd) ->
       if Z.eqb bd ad
       then Ok (cmp_lword an bn)
       else (match smul64 an bd with
             | MOk x ->
               (match smul64 bn ad with
                | MOk y -> Ok (cmp_lword x y)
                | MOvf -> Err UB_overflow
                | MErr e -> Err e)
             | MOvf ->
               (match smul64 bn ad with
                | MErr e -> Err e
                | _ -> Err UB_overflow)
             | MErr e -> Err e)
     | Big _ -> Ok (z_of_comparison (qcompare (mpq_of a) (mpq_of b))))
  | Big _ -> Ok (z_of_comparison (qcompare (mpq_of a) (mpq_of b)))

(** val qeq_numden : q -> q -> bool **)

let qeq_numden x y =
  (&&) (Z.eqb x.qnum y.qnum) (Z.eqb (Zpos x.qden) (Zpos y.qden))

(** val fr_eq : fr -> fr -> bool **)

let fr_eq a b =
  match a with
  | Word (an, ad) ->
    (match b with
     | Word (bn, bd) -> (&&) (Z.eqb an bn) (Z.eqb ad bd)
     | Big _ -> qeq_numden (mpq_of a) (mpq_of b))
  | Big _ -> qeq_numden (mpq_of a) (mpq_of b)

(** val fr_sign : fr -> z **)

let fr_sign = function
| Word (n0, _) ->
  if Z.ltb n0 Z0 then Zneg XH else if Z.gtb n0 Z0 then Zpos XH else Z0
| Big q0 -> Z.sgn q0.qnum

(** val fr_isInteger : fr -> bool **)

let fr_isInteger = function
| Word (_, d) -> Z.eqb d (Zpos XH)
| Big q0 ->
  (&&) (Z.leb (Zpos q0.qden) uWORD_MAX) (Z.eqb (Zpos q0.qden) (Zpos XH))

(** val fr_isZero : fr -> bool **)

let fr_isZero =
  is_word_zero

(** val fr_isOne : fr -> bool **)

let fr_isOne =
  is_word_one

(** val fr_get_num : fr -> fr **)

let fr_get_num = function
| Word (n0, _) -> of_word n0
| Big q0 -> of_mpz q0.qnum

(** val fr_get_den : fr -> fr **)

let fr_get_den = function
| Word (_, d) -> if Z.leb d wORD_MAX then of_uint32 d else of_mpz d
| Big q0 -> of_mpz (Zpos q0.qden)

(** val fr_ceil : fr -> fr res **)

let fr_ceil a =
  if fr_isInteger a
  then Ok a
  else (match a with
        | Word (n0, d) ->
          (match udiv (absVal_w n0) d with
           | MOk q0 ->
             let ret = to_word q0 in
             (match if Z.ltb n0 Z0 then sneg32 ret else sadd32 ret (Zpos XH) with
              | MOk r -> Ok (of_word r)
              | MOvf -> Err UB_overflow
              | MErr e -> Err e)
           | MOvf -> Err UB_overflow
           | MErr e -> Err e)
        | Big q0 -> Ok (of_mpz (qceiling q0)))

(** val fr_floor : fr -> fr res **)

let fr_floor a =
  if fr_isInteger a
  then Ok a
  else rbind (fr_ceil a) (fun c -> fr_sub c (of_word (Zpos XH)))

(** val fr_gcd : fr -> fr -> fr res **)

let fr_gcd a b =
  match a with
  | Word (an, _) ->
    (match b with
     | Word (bn, _) -> rbind (lift (gcd_s32 an bn)) (fun g -> Ok (of_word g))
     | Big _ -> Ok (of_mpz (Z.gcd (mpq_of a).qnum (mpq_of b).qnum)))
  | Big _ -> Ok (of_mpz (Z.gcd (mpq_of a).qnum (mpq_of b).qnum))

(** val lcm_word : z -> z -> fr res **)

let lcm_word a b =
  if Z.eqb a Z0
  then Ok (of_word Z0)
  else if Z.eqb b Z0
       then Ok (of_word Z0)
       else if Z.gtb b a
            then rbind (lift (gcd_s32 a b)) (fun g ->
                   rbind (lift (sdiv32 b g)) (fun q0 ->
                     fr_mul (of_word q0) (of_word a)))
            else rbind (lift (gcd_s32 a b)) (fun g ->
                   rbind (lift (sdiv32 a g)) (fun q0 ->
                     fr_mul (of_word q0) (of_word b)))

(** val fr_lcm : fr -> fr -> fr res **)

let fr_lcm a b =
  match a with
  | Word (an, _) ->
    (match b with
     | Word (bn, _) -> lcm_word an bn
     | Big _ -> Ok (of_mpz (Z.lcm (mpq_of a).qnum (mpq_of b).qnum)))
  | Big _ -> Ok (of_mpz (Z.lcm (mpq_of a).qnum (mpq_of b).qnum))

(** val fr_gcd_fixed : fr -> fr -> fr res **)

let fr_gcd_fixed a b =
  match a with
  | Word (an, _) ->
    (match b with
     | Word (bn, _) ->
       rbind (lift (gcd_u (absVal_w an) (absVal_w bn))) (fun g -> Ok
         (of_uint32 g))
     | Big _ -> Ok (of_mpz (Z.gcd (mpq_of a).qnum (mpq_of b).qnum)))
  | Big _ -> Ok (of_mpz (Z.gcd (mpq_of a).qnum (mpq_of b).qnum))

(** val lcm_uword : z -> z -> fr res **)

let lcm_uword a b =
  if Z.eqb a Z0
  then Ok (of_word Z0)
  else if Z.eqb b Z0
       then Ok (of_word Z0)
       else if Z.gtb b a
            then rbind (lift (gcd_u a b)) (fun g ->
                   rbind (lift (udiv b g)) (fun q0 ->
                     fr_mul (of_uint32 q0) (of_uint32 a)))
            else rbind (lift (gcd_u a b)) (fun g ->
                   rbind (lift (udiv a g)) (fun q0 ->
                     fr_mul (of_uint32 q0) (of_uint32 b)))

(** val fr_lcm_fixed : fr -> fr -> fr res **)

let fr_lcm_fixed a b =
  match a with
  | Word (an, _) ->
    (match b with
     | Word (bn, _) -> lcm_uword (absVal_w an) (absVal_w bn)
     | Big _ -> Ok (of_mpz (Z.lcm (mpq_of a).qnum (mpq_of b).qnum)))
  | Big _ -> Ok (of_mpz (Z.lcm (mpq_of a).qnum (mpq_of b).qnum))

(** val gmp_fdiv_q : z -> z -> fr res **)

let gmp_fdiv_q n0 d =
  if Z.eqb d Z0 then Err Gmp_divzero else Ok (of_mpz (Z.div n0 d))

(** val fr_fdiv_q : fr -> fr -> fr res **)

let fr_fdiv_q n0 d =
  match n0 with
  | Word (num, _) ->
    (match d with
     | Word (den, _) ->
       if Z.eqb num wORD_MIN
       then gmp_fdiv_q num den
       else rbind (lift (sdiv32 num den)) (fun q0 ->
              rbind (lift (srem32 num den)) (fun r ->
                if (&&) (negb (Z.eqb r Z0))
                     ((||) ((&&) (Z.ltb num Z0) (Z.geb den Z0))
                       ((&&) (Z.ltb den Z0) (Z.geb num Z0)))
                then rbind (lift (sadd32 q0 (Zneg XH))) (fun q' -> Ok
                       (of_word q'))
                else Ok (of_word q0)))
     | Big _ -> gmp_fdiv_q (mpq_of n0).qnum (mpq_of d).qnum)
  | Big _ -> gmp_fdiv_q (mpq_of n0).qnum (mpq_of d).qnum

(** val fr_mod : fr -> fr -> fr res **)

let fr_mod a d =
  match a with
  | Word (num, _) ->
    (match d with
     | Word (dnum, _) ->
       rbind (lift (srem32 num dnum)) (fun r ->
         let w = absVal_w r in
         Ok
         (of_word (to_word (if Z.gtb dnum Z0 then w else to_uword (Z.opp w)))))
     | Big _ ->
       rbind (fr_div a d) (fun r ->
         rbind (fr_floor r) (fun r0 ->
           rbind (fr_mul r0 d) (fun p -> fr_sub a p))))
  | Big _ ->
    rbind (fr_div a d) (fun r ->
      rbind (fr_floor r) (fun r0 -> rbind (fr_mul r0 d) (fun p -> fr_sub a p)))

(** val fr_divexact : fr -> fr -> fr res **)

let fr_divexact n0 d =
  match n0 with
  | Word (num, _) ->
    (match d with
     | Word (den, _) ->
       if negb (Z.eqb den Z0)
       then rbind (lift (sdiv32 num den)) (fun q0 -> Ok (of_word q0))
       else Ok (of_word Z0)
     | Big _ ->
       let nn = (mpq_of n0).qnum in
       let dd = (mpq_of d).qnum in
       if Z.eqb dd Z0
       then Err Gmp_inexact
       else if Z.eqb (Z.modulo nn dd) Z0
            then Ok (of_mpz (Z.div nn dd))
            else Err Gmp_inexact)
  | Big _ ->
    let nn = (mpq_of n0).qnum in
    let dd = (mpq_of d).qnum in
    if Z.eqb dd Z0
    then Err Gmp_inexact
    else if Z.eqb (Z.modulo nn dd) Z0
         then Ok (of_mpz (Z.div nn dd))
         else Err Gmp_inexact

(** val fr_divexact_fixed : fr -> fr -> fr res **)

let fr_divexact_fixed n0 d =
  let gmp =
    let nn = (mpq_of n0).qnum in
    let dd = (mpq_of d).qnum in
    if Z.eqb dd Z0
    then Err Gmp_inexact
    else if Z.eqb (Z.modulo nn dd) Z0
         then Ok (of_mpz (Z.div nn dd))
         else Err Gmp_inexact
  in
  (match n0 with
   | Word (num, _) ->
     (match d with
      | Word (den, _) ->
        if negb ((&&) (Z.eqb num wORD_MIN) (Z.eqb den (Zneg XH)))
        then if negb (Z.eqb den Z0)
             then rbind (lift (sdiv32 num den)) (fun q0 -> Ok (of_word q0))
             else Ok (of_word Z0)
        else gmp
      | Big _ -> gmp)
   | Big _ -> gmp)

(** val fr_round_to_int : fr -> fr res **)

let fr_round_to_int n0 =
  rbind (of_word_uword (Zpos XH) (Zpos (XO XH))) (fun h ->
    rbind (fr_add n0 h) (fun r -> fr_fdiv_q (fr_get_num r) (fr_get_den r)))

(** val hash_word : z -> z -> z **)

let hash_word n0 d =
  to_uword
    (Z.add
      (to_uword (Z.mul (Zpos (XI (XO (XI (XO (XO XH)))))) (to_uword n0)))
      (to_uword (Z.mul (Zpos (XI (XO (XI XH)))) (to_uword d))))

(** val limbs : nat -> z -> z list **)

let rec limbs fuel z0 =
  match fuel with
  | O -> []
  | S f ->
    if Z.leb z0 Z0
    then []
    else (Z.modulo z0 (Zpos (XO (XO (XO (XO (XO (XO (XO (XO (XO (XO (XO (XO
           (XO (XO (XO (XO (XO (XO (XO (XO (XO (XO (XO (XO (XO (XO (XO (XO
           (XO (XO (XO (XO (XO (XO (XO (XO (XO (XO (XO (XO (XO (XO (XO (XO
           (XO (XO (XO (XO (XO (XO (XO (XO (XO (XO (XO (XO (XO (XO (XO (XO
           (XO (XO (XO (XO
           XH)))))))))))))))))))))))))))))))))))))))))))))))))))))))))))))))))) :: 
           (limbs f
             (Z.div z0 (Zpos (XO (XO (XO (XO (XO (XO (XO (XO (XO (XO (XO (XO
               (XO (XO (XO (XO (XO (XO (XO (XO (XO (XO (XO (XO (XO (XO (XO
               (XO (XO (XO (XO (XO (XO (XO (XO (XO (XO (XO (XO (XO (XO (XO
               (XO (XO (XO (XO (XO (XO (XO (XO (XO (XO (XO (XO (XO (XO (XO
               (XO (XO (XO (XO (XO (XO (XO
               XH)))))))))))))))))))))))))))))))))))))))))))))))))))))))))))))))))))

(** val limbs_of : z -> z list **)

let limbs_of z0 =
  limbs (S
    (Z.to_nat (Z.div (Z.log2 z0) (Zpos (XO (XO (XO (XO (XO (XO XH)))))))))) z0

(** val fnv : z list -> z **)

let fnv ls =
  fold_left (fun h l ->
    to_uword
      (Z.coq_lxor
        (to_uword
          (Z.mul h (Zpos (XI (XI (XO (XO (XI (XO (XO (XI (XI (XO (XO (XO (XO
            (XO (XO (XO (XO (XO (XO (XO (XO (XO (XO (XO
            XH))))))))))))))))))))))))))) l)) ls (Zpos (XI (XO (XI (XO (XO
    (XO (XI (XI (XI (XO (XI (XI (XI (XO (XO (XI (XO (XO (XI (XI (XI (XO (XO
    (XO (XI (XO (XO (XO (XO (XO (XO XH))))))))))))))))))))))))))))))))

(** val hash_mpz : z -> z **)

let hash_mpz z0 =
  if Z.ltb z0 Z0
  then Zpos (XI (XO (XI (XO (XO (XO (XI (XI (XI (XO (XI (XI (XI (XO (XO (XI
         (XO (XO (XI (XI (XI (XO (XO (XO (XI (XO (XO (XO (XO (XO (XO
         XH)))))))))))))))))))))))))))))))
  else fnv (limbs_of z0)

(** val fr_hash : fr -> z **)

let fr_hash = function
| Word (n0, d) -> hash_word n0 d
| Big q0 -> to_uword (Z.add (hash_mpz q0.qnum) (hash_mpz (Zpos q0.qden)))
