
val negb : bool -> bool

type nat =
| O
| S of nat

val option_map : ('a1 -> 'a2) -> 'a1 option -> 'a2 option

val length : 'a1 list -> nat

val app : 'a1 list -> 'a1 list -> 'a1 list

val add : nat -> nat -> nat

val mul : nat -> nat -> nat

val sub : nat -> nat -> nat

type positive =
| XI of positive
| XO of positive
| XH

type n =
| N0
| Npos of positive

module Nat :
 sig
  val eqb : nat -> nat -> bool

  val leb : nat -> nat -> bool

  val ltb : nat -> nat -> bool

  val eq_dec : nat -> nat -> bool
 end

module Pos :
 sig
  val succ : positive -> positive

  val add : positive -> positive -> positive

  val add_carry : positive -> positive -> positive

  val mul : positive -> positive -> positive

  val iter_op : ('a1 -> 'a1 -> 'a1) -> positive -> 'a1 -> 'a1

  val to_nat : positive -> nat
 end

module N :
 sig
  val add : n -> n -> n

  val mul : n -> n -> n

  val to_nat : n -> nat
 end

val n_of_digits : bool list -> n

val n_of_ascii : char -> n

val nat_of_ascii : char -> nat

val nth : nat -> 'a1 list -> 'a1 -> 'a1

val nth_error : 'a1 list -> nat -> 'a1 option

val list_eq_dec : ('a1 -> 'a1 -> bool) -> 'a1 list -> 'a1 list -> bool

val existsb : ('a1 -> bool) -> 'a1 list -> bool

val forallb : ('a1 -> bool) -> 'a1 list -> bool

val string_dec : char list -> char list -> bool

type syminfo = { sy_nargs : nat; sy_comm : bool; sy_boolop : bool;
                 sy_flex : bool; sy_times : bool; sy_const : bool }

type node = { n_sym : nat; n_args : nat list }

type key = nat * nat list

val key_eq_dec : key -> key -> bool

val key_eqb : key -> key -> bool

type skey = char list * nat

val skey_eq_dec : skey -> skey -> bool

val skey_eqb : skey -> skey -> bool

val assoc : ('a1 -> 'a1 -> bool) -> 'a1 -> ('a1 * 'a2) list -> 'a2 option

type store = { syms : syminfo list; symtab : (skey * nat) list;
               nodes : node list; cmap : (nat * nat) list;
               bmap : (key * nat) list; xmap : (key * nat) list;
               dcount : nat; dmax : nat }

val empty_store : nat -> store

val sym_flag : (syminfo -> bool) -> store -> nat -> bool

val boolop : store -> nat -> bool

val comm : store -> nat -> bool

type sortmode =
| SortCore
| SortDeep
| SortDeepTie

val is_const_term : store -> nat -> bool

val deep_key : store -> nat -> nat

val term_lt : sortmode -> store -> nat -> nat -> bool

val argmin : (nat -> nat -> bool) -> nat -> nat list -> nat option

val replace_nth : nat -> nat -> nat list -> nat list

val ssort_f : (nat -> nat -> bool) -> nat -> nat list -> nat list

val ssort : (nat -> nat -> bool) -> nat list -> nat list

val tsort : sortmode -> store -> nat list -> nat list

type result =
| RSym of nat
| RTerm of nat
| RSimp
| RExc

val valid_args : store -> nat list -> bool

val declare : store -> char list -> nat -> syminfo -> store * nat

type table =
| TC
| TB
| TX

val new_term : store -> table -> nat -> nat list -> store * nat

val mkFun : sortmode -> store -> nat -> nat list -> store * result

val has_adj_dup : nat list -> bool

val mkDistinct : sortmode -> store -> nat -> nat list -> store * result

type op =
| OpDeclare of char list * nat * syminfo
| OpMkVar of char list * nat * syminfo
| OpMkFun of nat * nat list
| OpMkDistinct of nat * nat list

val step : sortmode -> store -> op -> store * result

type tree =
| T of nat * tree list

val tree_of : nat -> store -> nat -> tree option

val sorted_b : (nat -> nat -> bool) -> nat list -> bool

val dup_free : node list -> bool

val nodes_ok : sortmode -> store -> nat -> node list -> bool

val dump_store : syminfo list -> node list -> store

val hc_check : sortmode -> syminfo list -> node list -> bool

val digit_val : char -> nat option

val digits_val : nat -> char list -> nat option

val numeral_value : char list -> (bool * nat) option
