(* C06: proofs about Core/CoreExtract.v. *)
From Coq Require Import List NArith Bool Arith Lia.
From OsmtV.Core Require Import CoreExtract.
Import ListNotations.
Local Open Scope N_scope.

Lemma memN_In x l : memN x l = true <-> In x l.
Proof.
  unfold memN. rewrite existsb_exists. split.
  - intros (y & Hy & E). apply N.eqb_eq in E. subst. exact Hy.
  - intros H. exists x. split; [exact H | apply N.eqb_refl].
Qed.

Lemma tstbit_In m i : tstbit m i = true <-> In i m.
Proof.
  unfold tstbit. rewrite existsb_exists. split.
  - intros (y & Hy & E). apply Nat.eqb_eq in E. subst. exact Hy.
  - intros H. exists i. split; [exact H | apply Nat.eqb_refl].
Qed.

Lemma or_masks_acc (cmask : cref -> mask) (clauses : list cref) : forall (acc : mask) (i : nat),
  In i (fold_left (fun a c => orbit a (cmask c)) clauses acc) <-> In i acc \/ exists c, In c clauses /\ In i (cmask c).
Proof.
  induction clauses as [|c r IH]; intros acc i; simpl.
  - split; [auto | intros [H | (c & [] & _)]; exact H].
  - rewrite IH. unfold orbit. rewrite in_app_iff. split.
    + intros [[H|H]|(c' & H1 & H2)]; [left; exact H | right; exists c; auto | right; exists c'; auto].
    + intros [H|(c' & [->|H1] & H2)]; [left; left; exact H | left; right; exact H2 | right; exists c'; auto].
Qed.

Lemma or_masks_In (cmask : cref -> mask) (clauses : list cref) (i : nat) : In i (or_masks cmask clauses) <-> exists c, In c clauses /\ In i (cmask c).
Proof. unfold or_masks. rewrite or_masks_acc. simpl. tauto. Qed.

Lemma getPartitions_In (parts : partmap) (m : mask) (t : term) :
  In t (getPartitions parts m) <-> exists is i, In (t, is) parts /\ In i is /\ In i m.
Proof.
  unfold getPartitions. rewrite in_map_iff. split.
  - intros ([t' is] & <- & H). apply filter_In in H. destruct H as [H1 H2]. simpl in *.
    apply existsb_exists in H2. destruct H2 as (i & Hi & Hb). apply tstbit_In in Hb. exists is, i. auto.
  - intros (is & i & H1 & H2 & H3). exists (t, is). split; [reflexivity|]. apply filter_In. split; [exact H1|]. simpl.
    apply existsb_exists. exists i. split; [exact H2 | apply tstbit_In, H3].
Qed.

Lemma getPartitions_mono (cmask : cref -> mask) (parts : partmap) orig (clauses : list cref) (c : cref) (t : term) :
  In c clauses -> In t (map orig (getPartitions parts (cmask c))) -> In t (mapClausesToTerms cmask parts orig clauses).
Proof.
  unfold mapClausesToTerms. rewrite !in_map_iff. intros Hc (t0 & <- & Ht). exists t0. split; [reflexivity|].
  apply getPartitions_In in Ht. destruct Ht as (is & i & H1 & H2 & H3). apply getPartitions_In. exists is, i.
  split; [exact H1|]. split; [exact H2|]. apply or_masks_In. eauto.
Qed.

(* ---- the traversal ----------------------------------------------------------------------------- *)
Section Dfs.
  Variable P : proof.

  Definition dinv (stack processed acc : list cref) : Prop :=
    forall c, In c processed -> exists d, pfind c P = Some d /\
      (d_type d = CLA_ORIG -> In c acc) /\
      (d_type d = CLA_LEARNT -> forall p, In p (d_chain d) -> In p processed \/ In p stack).

  Lemma dfs_inv : forall fuel stack processed acc L PR,
    dfs P fuel stack processed acc = Some (L, PR) -> dinv stack processed acc ->
    (forall c, In c stack -> In c PR) /\ (forall c, In c processed -> In c PR) /\ dinv [] PR L.
  Proof.
    induction fuel as [|fuel IH]; intros stack processed acc L PR H Hinv.
    - destruct stack; simpl in H; [|discriminate]. injection H as <- <-.
      split; [intros c []|]. split; [auto|]. exact Hinv.
    - destruct stack as [|cur stack']; simpl in H.
      + injection H as <- <-. split; [intros c []|]. split; [auto|]. exact Hinv.
      + destruct (memN cur processed) eqn:Em.
        * apply memN_In in Em.
          destruct (IH _ _ _ _ _ H) as (H1 & H2 & H3).
          { intros c Hc. destruct (Hinv c Hc) as (d & Hd & Ho & Hl). exists d. split; [exact Hd|]. split; [exact Ho|].
            intros Ht p Hp. destruct (Hl Ht p Hp) as [Hq|[<-|Hq]]; auto. }
          split; [intros c [<-|Hc]; auto|]. split; assumption.
        * destruct (pfind cur P) as [d|] eqn:Ef; [|discriminate].
          destruct (d_type d) eqn:Et.
          -- (* CLA_ORIG *)
             destruct (IH _ _ _ _ _ H) as (H1 & H2 & H3).
             { intros c [<-|Hc].
               - exists d. split; [exact Ef|]. split; [intros _; apply in_or_app; right; left; reflexivity|]. intros Ht; congruence.
               - destruct (Hinv c Hc) as (d' & Hd & Ho & Hl). exists d'. split; [exact Hd|].
                 split; [intros Ht; apply in_or_app; left; exact (Ho Ht)|].
                 intros Ht p Hp. destruct (Hl Ht p Hp) as [Hq|[<-|Hq]]; [left; right; exact Hq | left; left; reflexivity | right; exact Hq]. }
             split; [intros c [<-|Hc]; [apply H2; left; reflexivity | apply H1, Hc]|].
             split; [intros c Hc; apply H2; right; exact Hc | exact H3].
          -- (* CLA_LEARNT *)
             destruct (IH _ _ _ _ _ H) as (H1 & H2 & H3).
             { intros c [<-|Hc].
               - exists d. split; [exact Ef|]. split; [intros Ht; congruence|].
                 intros _ p Hp. right. apply in_or_app. left. apply in_rev in Hp. exact Hp.
               - destruct (Hinv c Hc) as (d' & Hd & Ho & Hl). exists d'. split; [exact Hd|]. split; [exact Ho|].
                 intros Ht p Hp. destruct (Hl Ht p Hp) as [Hq|[<-|Hq]];
                   [left; right; exact Hq | left; left; reflexivity | right; apply in_or_app; right; exact Hq]. }
             split; [intros c [<-|Hc]; [apply H2; left; reflexivity | apply H1, in_or_app; right; exact Hc]|].
             split; [intros c Hc; apply H2; right; exact Hc | exact H3].
          -- destruct (IH _ _ _ _ _ H) as (H1 & H2 & H3); [|split; [intros c [<-|Hc]; [apply H2; left; reflexivity | apply H1, Hc]|split; [intros c Hc; apply H2; right; exact Hc | exact H3]]].
             intros c [<-|Hc]; [exists d; split; [exact Ef|]; split; intros Ht; congruence|].
             destruct (Hinv c Hc) as (d' & Hd & Ho & Hl). exists d'. split; [exact Hd|]. split; [exact Ho|].
             intros Ht p Hp. destruct (Hl Ht p Hp) as [Hq|[<-|Hq]]; [left; right; exact Hq | left; left; reflexivity | right; exact Hq].
          -- destruct (IH _ _ _ _ _ H) as (H1 & H2 & H3); [|split; [intros c [<-|Hc]; [apply H2; left; reflexivity | apply H1, Hc]|split; [intros c Hc; apply H2; right; exact Hc | exact H3]]].
             intros c [<-|Hc]; [exists d; split; [exact Ef|]; split; intros Ht; congruence|].
             destruct (Hinv c Hc) as (d' & Hd & Ho & Hl). exists d'. split; [exact Hd|]. split; [exact Ho|].
             intros Ht p Hp. destruct (Hl Ht p Hp) as [Hq|[<-|Hq]]; [left; right; exact Hq | left; left; reflexivity | right; exact Hq].
          -- destruct (IH _ _ _ _ _ H) as (H1 & H2 & H3); [|split; [intros c [<-|Hc]; [apply H2; left; reflexivity | apply H1, Hc]|split; [intros c Hc; apply H2; right; exact Hc | exact H3]]].
             intros c [<-|Hc]; [exists d; split; [exact Ef|]; split; intros Ht; congruence|].
             destruct (Hinv c Hc) as (d' & Hd & Ho & Hl). exists d'. split; [exact Hd|]. split; [exact Ho|].
             intros Ht p Hp. destruct (Hl Ht p Hp) as [Hq|[<-|Hq]]; [left; right; exact Hq | left; left; reflexivity | right; exact Hq].
          -- destruct (IH _ _ _ _ _ H) as (H1 & H2 & H3); [|split; [intros c [<-|Hc]; [apply H2; left; reflexivity | apply H1, Hc]|split; [intros c Hc; apply H2; right; exact Hc | exact H3]]].
             intros c [<-|Hc]; [exists d; split; [exact Ef|]; split; intros Ht; congruence|].
             destruct (Hinv c Hc) as (d' & Hd & Ho & Hl). exists d'. split; [exact Hd|]. split; [exact Ho|].
             intros Ht p Hp. destruct (Hl Ht p Hp) as [Hq|[<-|Hq]]; [left; right; exact Hq | left; left; reflexivity | right; exact Hq].
  Qed.

  (* the leaves returned are CLA_ORIG entries of the proof *)
  Lemma dfs_acc_orig : forall fuel stack processed acc L PR,
    dfs P fuel stack processed acc = Some (L, PR) ->
    (forall c, In c acc -> exists d, pfind c P = Some d /\ d_type d = CLA_ORIG) ->
    forall c, In c L -> exists d, pfind c P = Some d /\ d_type d = CLA_ORIG.
  Proof.
    induction fuel as [|fuel IH]; intros stack processed acc L PR H Ha.
    - destruct stack; simpl in H; [|discriminate]. injection H as <- <-. exact Ha.
    - destruct stack as [|cur stack']; simpl in H; [injection H as <- <-; exact Ha|].
      destruct (memN cur processed); [exact (IH _ _ _ _ _ H Ha)|].
      destruct (pfind cur P) as [d|] eqn:Ef; [|discriminate].
      destruct (d_type d) eqn:Et; try exact (IH _ _ _ _ _ H Ha).
      apply (IH _ _ _ _ _ H). intros c Hc. apply in_app_or in Hc. destruct Hc as [Hc|[<-|[]]]; [exact (Ha c Hc)|]. eauto.
  Qed.
End Dfs.

(* ---- the fuel is enough: on a proof whose references all resolve the traversal never answers None ------ *)
Section Fuel.
  Variable P : proof.

  (* chain lengths of the entries whose key is not yet processed *)
  Fixpoint pending (Q : proof) (processed : list cref) : nat :=
    match Q with
    | [] => O
    | (c, d) :: r => ((if memN c processed then O else length (d_chain d)) + pending r processed)%nat
    end.

  Lemma pending_mono Q processed x : (pending Q (x :: processed) <= pending Q processed)%nat.
  Proof.
    induction Q as [|[c d] r IH]; simpl; [lia|].
    destruct (N.eqb c x); simpl; destruct (memN c processed); simpl; lia.
  Qed.

  Lemma pending_found Q processed c d : pfind c Q = Some d -> memN c processed = false ->
    (pending Q (c :: processed) + length (d_chain d) <= pending Q processed)%nat.
  Proof.
    induction Q as [|[c' d'] r IH]; simpl; [discriminate|]. intros H Hm.
    destruct (N.eqb_spec c c') as [<-|Hne].
    - injection H as <-. rewrite N.eqb_refl. simpl. rewrite Hm. pose proof (pending_mono r processed c). lia.
    - specialize (IH H Hm). destruct (N.eqb_spec c' c) as [->|_]; [contradiction|]. simpl.
      destruct (memN c' processed); simpl; lia.
  Qed.

  Lemma pending_nil Q : pending Q [] = fold_right (fun e n => (length (d_chain (snd e)) + n)%nat) O Q.
  Proof. induction Q as [|[c d] r IH]; simpl; [reflexivity|]. rewrite IH. reflexivity. Qed.

  Definition closed_proof : Prop :=
    forall c d, pfind c P = Some d -> forall p, In p (d_chain d) -> pfind p P <> None.

  Lemma dfs_total : closed_proof -> forall fuel stack processed acc,
    (forall c, In c stack -> pfind c P <> None) ->
    (length stack + pending P processed <= fuel)%nat ->
    dfs P fuel stack processed acc <> None.
  Proof.
    intros Hcl. induction fuel as [|fuel IH]; intros stack processed acc Hs Hf.
    - destruct stack; simpl in *; [discriminate | lia].
    - destruct stack as [|cur stack']; simpl; [discriminate|].
      assert (Hs' : forall c, In c stack' -> pfind c P <> None) by (intros c Hc; apply Hs; right; exact Hc).
      destruct (memN cur processed) eqn:Em; [apply IH; [exact Hs' | simpl in Hf; lia]|].
      destruct (pfind cur P) as [d|] eqn:Ef; [|exfalso; apply (Hs cur (or_introl eq_refl)); exact Ef].
      pose proof (pending_found P processed cur d Ef Em) as Hp.
      pose proof (pending_mono P processed cur) as Hm. simpl in Hf.
      destruct (d_type d); try (apply IH; [exact Hs' | lia]).
      apply IH.
      + intros c Hc. apply in_app_or in Hc. destruct Hc as [Hc|Hc]; [|exact (Hs' c Hc)].
        apply in_rev in Hc. exact (Hcl cur d Ef c Hc).
      + rewrite app_length, rev_length. lia.
  Qed.

  Lemma computeClauses_total undef : closed_proof -> pfind undef P <> None -> computeClauses undef P <> None.
  Proof.
    intros Hcl Hu. unfold computeClauses.
    destruct (dfs P (compute_fuel P) [undef] [] []) eqn:E; [discriminate|]. exfalso.
    apply (dfs_total Hcl (compute_fuel P) [undef] [] []); [intros c [<-|[]]; exact Hu | | exact E].
    unfold compute_fuel. rewrite pending_nil. simpl. lia.
  Qed.
End Fuel.

(* ---- soundness of the extraction, abstractly ---------------------------------------------------- *)
Section Sound.
  Variable W : Type.                          (* interpretations *)
  Variable holds_c : W -> cref -> Prop.       (* the clause is true *)
  Variable holds_t : W -> term -> Prop.       (* the top-level assertion is true *)

  Definition sat (S : list term) : Prop := exists w, forall t, In t S -> holds_t w t.

  Lemma sat_mono S T : incl S T -> sat T -> sat S.
  Proof. intros Hi (w & H). exists w. intros t Ht. apply H, Hi, Ht. Qed.

  (* a valid refutation: a DAG (rank) whose learnt clauses follow from their premises, whose non-original
     leaves (theory lemmas, assumption units of the active frames, split clauses) are true in every
     interpretation considered, and whose root (CRef_Undef, the empty clause) is false *)
  Definition valid_refutation (undef : cref) (P : proof) : Prop :=
    (exists rank : cref -> nat, forall c d, pfind c P = Some d -> d_type d = CLA_LEARNT ->
        forall p, In p (d_chain d) -> (rank p < rank c)%nat) /\
    (forall c d, pfind c P = Some d -> d_type d = CLA_LEARNT ->
        forall w, (forall p, In p (d_chain d) -> holds_c w p) -> holds_c w c) /\
    (forall c d, pfind c P = Some d -> d_type d <> CLA_ORIG -> d_type d <> CLA_LEARNT -> forall w, holds_c w c) /\
    (forall w, ~ holds_c w undef).

  (* every original leaf is implied by the assertions its partition mask maps to (through the map as it is
     when the core is built) *)
  Definition masks_correct (cmask : cref -> mask) (parts : partmap) (orig : term -> term) (leaves : list cref) : Prop :=
    forall c, In c leaves -> forall w, (forall t, In t (map orig (getPartitions parts (cmask c))) -> holds_t w t) -> holds_c w c.

  Theorem core_unsat_lemma undef P cmask parts orig leaves :
    valid_refutation undef P -> computeClauses undef P = Some leaves -> masks_correct cmask parts orig leaves ->
    ~ sat (mapClausesToTerms cmask parts orig leaves).
  Proof.
    intros ((rank & Hrank) & Hstep & Hleaf & Hroot) Hc Hm (w & Hw).
    unfold computeClauses in Hc.
    destruct (dfs P (compute_fuel P) [undef] [] []) as [[L PR]|] eqn:E; [|discriminate].
    simpl in Hc. injection Hc as ->.
    destruct (dfs_inv P _ _ _ _ _ _ E) as (H1 & _ & H3); [intros c []|].
    assert (Hall : forall n c, (rank c < n)%nat -> In c PR -> holds_c w c).
    { induction n as [|n IH]; intros c Hr Hc; [lia|].
      destruct (H3 c Hc) as (d & Hd & Ho & Hl).
      destruct (d_type d) eqn:Et.
      - apply (Hm c (Ho eq_refl)). intros t Ht. apply Hw. eapply getPartitions_mono; [exact (Ho eq_refl) | exact Ht].
      - apply (Hstep c d Hd Et). intros p Hp.
        destruct (Hl eq_refl p Hp) as [Hq|[]]. apply IH; [|exact Hq].
        specialize (Hrank c d Hd Et p Hp). lia.
      - apply (Hleaf c d Hd); rewrite Et; discriminate.
      - apply (Hleaf c d Hd); rewrite Et; discriminate.
      - apply (Hleaf c d Hd); rewrite Et; discriminate.
      - apply (Hleaf c d Hd); rewrite Et; discriminate. }
    apply (Hroot w). apply (Hall (S (rank undef))); [lia|]. apply H1. left. reflexivity.
  Qed.

  (* named mode without minimisation: named ++ hidden is the whole extracted set *)
  Lemma partition_covers minCore ne contains allTerms t :
    minCore = false -> In t allTerms ->
    In t (fst (partitionNamedTerms minCore ne contains allTerms) ++ snd (partitionNamedTerms minCore ne contains allTerms)).
  Proof.
    intros -> Ht. unfold partitionNamedTerms. destruct ne; simpl; [exact Ht|].
    apply in_or_app. destruct (contains t) eqn:E; [left | right]; apply filter_In; rewrite ?E; auto.
  Qed.

  Lemma partition_named_contains minCore contains allTerms t :
    In t (fst (partitionNamedTerms minCore false contains allTerms)) <-> In t allTerms /\ contains t = true.
  Proof. unfold partitionNamedTerms. simpl. apply filter_In. Qed.

  Theorem core_named_unsat_lemma undef P cmask parts orig leaves ne contains :
    valid_refutation undef P -> computeClauses undef P = Some leaves -> masks_correct cmask parts orig leaves ->
    let allTerms := mapClausesToTerms cmask parts orig leaves in
    let nh := partitionNamedTerms false ne contains allTerms in
    ~ sat (fst nh ++ snd nh).
  Proof.
    intros Hv Hc Hm allTerms nh Hs. apply (core_unsat_lemma undef P cmask parts orig leaves Hv Hc Hm).
    eapply sat_mono; [|exact Hs]. intros t Ht. apply partition_covers; [reflexivity | exact Ht].
  Qed.

  (* ... hence the printed names' terms together with ALL unnamed current assertions, provided every
     extracted term that carries no name is an unnamed current assertion *)
  Theorem core_with_unnamed_unsat_lemma undef P cmask parts orig leaves ne contains unnamed :
    valid_refutation undef P -> computeClauses undef P = Some leaves -> masks_correct cmask parts orig leaves ->
    let allTerms := mapClausesToTerms cmask parts orig leaves in
    (forall t, In t allTerms -> (ne = true \/ contains t = false) -> In t unnamed) ->
    ~ sat (fst (partitionNamedTerms false ne contains allTerms) ++ unnamed).
  Proof.
    intros Hv Hc Hm allTerms Hu Hs. apply (core_unsat_lemma undef P cmask parts orig leaves Hv Hc Hm).
    eapply sat_mono; [|exact Hs]. intros t Ht. fold allTerms in Ht. apply in_or_app.
    unfold partitionNamedTerms. destruct ne; simpl; [right; apply Hu; auto|].
    destruct (contains t) eqn:E; [left; apply filter_In; auto | right; apply Hu; auto].
  Qed.
End Sound.

(* ---- the partition map loses the index of a term that is asserted again -------------------------- *)
(* a : term 1, (not a) : term 2.  (assert a) gets index 0 and is clausified (clause 10, mask {0});
   (assert a) again: top_level_flas[a] = 1; (assert (not a)): index 2, clause 12 with mask {2};
   refutation 99 from 10 and 12.  All masks were right when the clauses were added, the refutation is valid,
   but the extracted set is {(not a)}: satisfiable. *)
Definition rx_holds_t (w : bool) (t : term) : Prop := match t with 1 => w = true | 2 => w = false | _ => True end.
Definition rx_holds_c (w : bool) (c : cref) : Prop := match c with 10 => w = true | 12 => w = false | 99 => False | _ => True end.
Definition rx_proof : proof := [(10, mk_der CLA_ORIG []); (12, mk_der CLA_ORIG []); (99, mk_der CLA_LEARNT [10; 12])].
Definition rx_cmask (c : cref) : mask := match c with 10 => [0%nat] | 12 => [2%nat] | _ => [] end.
Definition rx_parts_first : partmap := pm_set false 1 0 [].
Definition rx_parts_final : partmap := pm_set false 2 2 (pm_set false 1 1 rx_parts_first).
Definition rx_parts_final_repaired : partmap := pm_set true 2 2 (pm_set true 1 1 (pm_set true 1 0 [])).
Definition rx_id (t : term) : term := t.

Lemma rx_valid : valid_refutation bool rx_holds_c 99 rx_proof.
Proof.
  split; [|split; [|split]].
  - exists (fun c => match c with 99 => 1%nat | _ => 0%nat end). intros c d H Ht p Hp.
    unfold rx_proof in H. simpl in H.
    destruct (N.eqb c 10); [injection H as <-; discriminate|].
    destruct (N.eqb c 12); [injection H as <-; discriminate|].
    destruct (N.eqb_spec c 99); [|discriminate]. injection H as <-. subst c. simpl in Hp.
    destruct Hp as [<-|[<-|[]]]; simpl; lia.
  - intros c d H Ht w Hp. unfold rx_proof in H. simpl in H.
    destruct (N.eqb c 10); [injection H as <-; discriminate|].
    destruct (N.eqb c 12); [injection H as <-; discriminate|].
    destruct (N.eqb_spec c 99); [|discriminate]. injection H as <-. subst c. simpl in Hp.
    pose proof (Hp 10 (or_introl eq_refl)) as A. pose proof (Hp 12 (or_intror (or_introl eq_refl))) as B.
    simpl in A, B. congruence.
  - intros c d H H1 H2 w. unfold rx_proof in H. simpl in H.
    destruct (N.eqb c 10); [injection H as <-; simpl in H1; congruence|].
    destruct (N.eqb c 12); [injection H as <-; simpl in H1; congruence|].
    destruct (N.eqb c 99); [injection H as <-; simpl in H2; congruence|discriminate].
  - intros w H. exact H.
Qed.

Lemma reindex_witness :
  valid_refutation bool rx_holds_c 99 rx_proof /\
  computeClauses 99 rx_proof = Some [12; 10] /\
  masks_correct bool rx_holds_c rx_holds_t rx_cmask rx_parts_first rx_id [10] /\
  mapClausesToTerms rx_cmask rx_parts_final rx_id [12; 10] = [2] /\
  sat bool rx_holds_t [2].
Proof.
  split; [exact rx_valid|split; [vm_compute; reflexivity|split; [|split; [vm_compute; reflexivity|]]]].
  - intros c [<-|[]] w H. simpl. apply (H 1). vm_compute. left. reflexivity.
  - exists false. intros t [<-|[]]. reflexivity.
Qed.

(* with every index kept the masks stay correct and the extracted set is {a, (not a)} *)
Lemma reindex_repaired_witness :
  masks_correct bool rx_holds_c rx_holds_t rx_cmask rx_parts_final_repaired rx_id [12; 10] /\
  mapClausesToTerms rx_cmask rx_parts_final_repaired rx_id [12; 10] = [1; 2].
Proof.
  split; [|vm_compute; reflexivity].
  intros c [<-|[<-|[]]] w H; simpl.
  - apply (H 2). vm_compute. left. reflexivity.
  - apply (H 1). vm_compute. left. reflexivity.
Qed.

(* ---- TermNames ---------------------------------------------------------------------------------- *)
Definition tinv (fx : bool) (s : tnames) : Prop :=
  (forall t l, t2n s t = Some l -> NoDup l /\ (forall n, In n l -> n2t s n = Some t) /\ (fx = true -> l <> [])) /\
  (forall n t, n2t s n = Some t -> In (n, t) (tn_live s)).

Lemma upd_same {V} (f : N -> V) k v : upd f k v k = v.
Proof. unfold upd. rewrite N.eqb_refl. reflexivity. Qed.
Lemma upd_other {V} (f : N -> V) k v x : x <> k -> upd f k v x = f x.
Proof. unfold upd. intros H. destruct (N.eqb_spec x k); [contradiction|reflexivity]. Qed.

Lemma NoDup_snoc {A} (l : list A) x : NoDup l -> ~ In x l -> NoDup (l ++ [x]).
Proof.
  induction 1 as [|y l Hy Hnd IH]; intros Hx; simpl; [constructor; [intros []|constructor]|].
  constructor; [|apply IH; intros Hc; apply Hx; right; exact Hc].
  intros Hc. apply in_app_or in Hc. destruct Hc as [Hc|[<-|[]]]; [contradiction|]. apply Hx. left. reflexivity.
Qed.

Lemma tinv_init fx : tinv fx tn_init.
Proof. split; [intros t l H; discriminate | intros n t H; discriminate]. Qed.

Lemma tinv_insert fx n t s : tinv fx s -> tinv fx (tn_try_insert n t s).
Proof.
  intros [I1 I2]. unfold tn_try_insert. destruct (n2t s n) eqn:En; [split; assumption|].
  split; simpl.
  - intros t' l H. destruct (N.eq_dec t' t) as [->|Hne].
    + rewrite upd_same in H. injection H as <-.
      assert (Hold : NoDup (match t2n s t with Some l => l | None => [] end) /\
                     forall n', In n' (match t2n s t with Some l => l | None => [] end) -> n2t s n' = Some t).
      { destruct (t2n s t) as [l|] eqn:El; [destruct (I1 t l El) as (A & B & _); auto | split; [constructor | intros n' []]]. }
      destruct Hold as [Hnd Hin]. split; [|split].
      * apply NoDup_snoc; [exact Hnd|]. intros Hc. rewrite (Hin n Hc) in En. discriminate.
      * intros n' Hn'. apply in_app_or in Hn'. destruct Hn' as [Hn'|[<-|[]]]; [|apply upd_same].
        rewrite upd_other; [exact (Hin n' Hn')|]. intros ->. rewrite (Hin n Hn') in En. discriminate.
      * intros _ Hc. destruct (match t2n s t with Some l => l | None => [] end); discriminate.
    + rewrite upd_other in H by exact Hne. destruct (I1 t' l H) as (A & B & C). split; [exact A|]. split; [|exact C].
      intros n' Hn'. rewrite upd_other; [exact (B n' Hn')|]. intros ->. rewrite (B n Hn') in En. discriminate.
  - intros n' t' H. unfold tn_live. simpl.
    destruct (N.eq_dec n' n) as [->|Hne].
    + rewrite upd_same in H. injection H as <-. destruct (scopes s); simpl; left; reflexivity.
    + rewrite upd_other in H by exact Hne. specialize (I2 n' t' H). unfold tn_live in I2.
      destruct (scopes s) as [|top r]; simpl in *; [destruct I2 | right; exact I2].
Qed.

Lemma remove_first_In n x l : In x (remove_first n l) -> In x l.
Proof. induction l as [|y l IH]; simpl; [auto|]. destruct (N.eqb n y); [auto|]. intros [->|H]; auto. Qed.

Lemma remove_first_NoDup n l : NoDup l -> NoDup (remove_first n l) /\ ~ In n (remove_first n l).
Proof.
  induction 1 as [|y l Hy Hnd IH]; simpl; [split; [constructor | auto]|].
  destruct (N.eqb_spec n y) as [->|Hne]; [split; assumption|].
  destruct IH as [A B]. split.
  - constructor; [|exact A]. intros Hc. apply Hy. eapply remove_first_In, Hc.
  - intros [Hc|Hc]; [congruence | contradiction].
Qed.

Lemma tinv_erase fx n0 s : tinv fx s ->
  tinv fx (tn_erase fx n0 s) /\ scopes (tn_erase fx n0 s) = scopes s /\
  forall n, n2t (tn_erase fx n0 s) n = if N.eqb n n0 then None else n2t s n.
Proof.
  intros [I1 I2]. unfold tn_erase. destruct (n2t s n0) as [t0|] eqn:En.
  2:{ split; [split; assumption|]. split; [reflexivity|]. intros n. destruct (N.eqb_spec n n0); [subst; exact En | reflexivity]. }
  split; [|split; [reflexivity | intros n; simpl; unfold upd; reflexivity]].
  set (l0 := match t2n s t0 with Some l => l | None => [] end).
  assert (H0 : NoDup l0 /\ forall n', In n' l0 -> n2t s n' = Some t0).
  { unfold l0. destruct (t2n s t0) as [l|] eqn:El; [destruct (I1 t0 l El) as (A & B & _); auto | split; [constructor | intros n' []]]. }
  destruct H0 as [Hnd Hin]. destruct (remove_first_NoDup n0 l0 Hnd) as [Hnd' Hnot].
  split; simpl.
  - intros t l H. destruct (N.eq_dec t t0) as [->|Hne].
    + rewrite upd_same in H.
      destruct (fx && match remove_first n0 l0 with [] => true | _ => false end) eqn:Eb; [discriminate|].
      injection H as <-. split; [exact Hnd'|]. split.
      * intros n' Hn'. rewrite upd_other; [apply Hin; eapply remove_first_In, Hn'|]. intros ->. contradiction.
      * intros -> Hc. rewrite Hc in Eb. discriminate.
    + rewrite upd_other in H by exact Hne. destruct (I1 t l H) as (A & B & C). split; [exact A|]. split; [|exact C].
      intros n' Hn'. rewrite upd_other; [exact (B n' Hn')|]. intros ->. rewrite (B n0 Hn') in En. congruence.
  - intros n t H. destruct (N.eq_dec n n0) as [->|Hne]; [rewrite upd_same in H; discriminate|].
    rewrite upd_other in H by exact Hne. exact (I2 n t H).
Qed.

Lemma tinv_erase_fold fx (top : list (name * term)) : forall s, tinv fx s ->
  let s' := fold_left (fun acc p => tn_erase fx (fst p) acc) top s in
  tinv fx s' /\ scopes s' = scopes s /\
  forall n, n2t s' n = if memN n (map fst top) then None else n2t s n.
Proof.
  induction top as [|[n0 t0] top IH]; intros s Hs; simpl; [split; [exact Hs|]; split; reflexivity|].
  destruct (tinv_erase fx n0 s Hs) as (H1 & H2 & H3).
  destruct (IH _ H1) as (A & B & C). split; [exact A|]. split; [rewrite B; exact H2|].
  intros n. rewrite C, H3. destruct (N.eqb n n0); simpl; [destruct (memN n (map fst top)); reflexivity | reflexivity].
Qed.

Lemma tinv_pop fx s s' : tinv fx s -> tn_pop fx s = Some s' -> tinv fx s'.
Proof.
  intros Hs H. unfold tn_pop in H. destruct (scopes s) as [|top [|next rest]] eqn:Es; try discriminate.
  injection H as <-. destruct (tinv_erase_fold fx top s Hs) as ([I1 I2] & B & C).
  split; simpl; [exact I1|].
  intros n t H. rewrite C in H. destruct (memN n (map fst top)) eqn:Em; [discriminate|].
  destruct Hs as [_ J2]. specialize (J2 n t H). unfold tn_live in *. rewrite Es in J2. simpl in *.
  apply in_app_or in J2. destruct J2 as [J|J]; [|exact J].
  exfalso. assert (memN n (map fst top) = true); [|congruence].
  apply memN_In. apply in_map_iff. exists (n, t). auto.
Qed.

Lemma tinv_run fx : forall ops s s', tinv fx s -> tn_run fx ops s = Some s' -> tinv fx s'.
Proof.
  induction ops as [|o ops IH]; intros s s' Hs H; simpl in H; [injection H as <-; exact Hs|].
  destruct o as [n t| |].
  - apply (IH _ _ (tinv_insert fx n t s Hs) H).
  - apply (IH (tn_push s) s'); [|exact H]. destruct Hs as [I1 I2]. split; [exact I1|]. intros n t Hn. exact (I2 n t Hn).
  - destruct (tn_pop fx s) as [s1|] eqn:Ep; [|discriminate]. apply (IH _ _ (tinv_pop fx s s1 Hs Ep) H).
Qed.

(* repaired TermNames: a term the builder classifies as named has a first name, that name is live and denotes it *)
Lemma names_in_scope_lemma ops s : tn_run true ops tn_init = Some s ->
  forall t, tn_contains s t = true -> exists n, tn_name_for_term s t = PickName n /\ In (n, t) (tn_live s).
Proof.
  intros H t Hc. destruct (tinv_run true ops _ _ (tinv_init true) H) as [I1 I2].
  unfold tn_contains in Hc. unfold tn_name_for_term. destruct (t2n s t) as [l|] eqn:El; [|discriminate].
  destruct (I1 t l El) as (_ & B & C). destruct l as [|n l]; [exfalso; apply C; reflexivity|].
  exists n. split; [reflexivity|]. apply I2, B. left. reflexivity.
Qed.

(* in both variants: a name that is actually picked denotes the term, so distinct terms print distinct names *)
Lemma picked_name_denotes fx ops s : tn_run fx ops tn_init = Some s ->
  forall t n, tn_name_for_term s t = PickName n -> n2t s n = Some t /\ In (n, t) (tn_live s).
Proof.
  intros H t n Hp. destruct (tinv_run fx ops _ _ (tinv_init fx) H) as [I1 I2].
  unfold tn_name_for_term in Hp. destruct (t2n s t) as [[|n' l]|] eqn:El; try discriminate. injection Hp as ->.
  destruct (I1 t _ El) as (_ & B & _). specialize (B n (or_introl eq_refl)). split; [exact B | exact (I2 n t B)].
Qed.

Lemma printed_names_nodup fx ops s : tn_run fx ops tn_init = Some s ->
  forall named, NoDup named -> (forall t, In t named -> exists n, tn_name_for_term s t = PickName n) ->
  NoDup (printed_names s named).
Proof.
  intros H named Hnd. induction Hnd as [|t named Ht Hnd IH]; intros Hall; simpl; [constructor|].
  constructor; [|apply IH; intros t' Ht'; apply Hall; right; exact Ht'].
  intros Hc. unfold printed_names in Hc. apply in_map_iff in Hc. destruct Hc as (t' & E & Ht').
  destruct (Hall t (or_introl eq_refl)) as (n & Hn). rewrite Hn in E.
  destruct (picked_name_denotes fx ops s H t n Hn) as [A _].
  destruct (picked_name_denotes fx ops s H t' n E) as [B _].
  rewrite A in B. injection B as ->. contradiction.
Qed.

(* the code as it is: (push) (assert (! a :named n1)) (pop) (assert (! (not a) :named n2)) with a = term 7,
   (not a) = term 8 (a may or may not be asserted unnamed elsewhere): contains(a) still holds, the builder
   classifies a as named, and nameForTerm(a) is front() of an empty vector; n1 is not live *)
Lemma popped_name_witness :
  exists s, tn_run false [NPush; NInsert 1 7; NPop; NInsert 2 8] tn_init = Some s /\
    fst (partitionNamedTerms false (tn_empty s) (tn_contains s) [7; 8]) = [7; 8] /\
    printed_names s [7; 8] = [PickUB; PickName 2] /\
    tn_live s = [(2, 8)].
Proof. eexists. split; [vm_compute; reflexivity|]. split; [vm_compute; reflexivity|]. split; vm_compute; reflexivity. Qed.
