(* C06: model of unsat-core extraction,
     UnsatCoreBuilder::computeClauses       (src/unsatcores/UnsatCoreBuilder.cc:46-71)
     UnsatCoreBuilder::mapClausesToTerms    (UnsatCoreBuilder.cc:73-84)
       PartitionManager::getClauseClassMask (src/api/PartitionManager.h:45, PartitionInfo.cc:36-43)
       PartitionManager::getPartitions(mask)(src/api/PartitionManager.cc:83-91)
       FlaPartitionMap (std::map<PTRef,unsigned>)  (src/common/FlaPartitionMap.h:16-24)
     UnsatCoreBuilder::partitionNamedTerms  (UnsatCoreBuilder.cc:86-114)
     UnsatCoreBuilder::buildBody/buildReturn(UnsatCoreBuilder.cc:29-44)
     NamedUnsatCore::printTerm              (src/unsatcores/UnsatCore.cc:36-39)
   and of the part of opensmt::TermNames the core builder reads (src/common/TermNames.h), with the
   boolean [fx] selecting the repaired eraseTermName.  Definitions only; proofs in CoreProofs.v.

   Clause references (CRef), terms (PTRef) and names are natural numbers [N]; partition masks
   (ipartitions_t, an mpz used as a bit set) are lists of bit indices. *)
From Coq Require Import List NArith Bool Arith.
Import ListNotations.
Local Open Scope N_scope.

Definition cref := N.
Definition term := N.
Definition name := N.
Definition mask := list nat.

(* ---- the resolution proof as the builder reads it ------------------------------------------- *)
Inductive ctype := CLA_ORIG | CLA_LEARNT | CLA_THEORY | CLA_DERIVED | CLA_ASSUMPTION | CLA_SPLIT.
Record der := mk_der { d_type : ctype; d_chain : list cref }.
Definition proof := list (cref * der).           (* ResolutionProof::getProof(): unordered_map CRef -> derivation *)

Fixpoint pfind (c : cref) (P : proof) : option der :=
  match P with
  | [] => None
  | (c', d) :: r => if N.eqb c c' then Some d else pfind c r
  end.

Definition memN (x : N) (l : list N) : bool := existsb (N.eqb x) l.

(* computeClauses: stack = [CRef_Undef]; while stack not empty: pop the back; skip if processed; look the
   derivation up (assert: present); CLA_ORIG -> clauses.push; CLA_LEARNT -> push the premises in order;
   other types: nothing.  The stack is kept top first, so pushing p1..pn gives rev [p1..pn] ++ stack.
   None = the asserted lookup fails, or out of fuel (see compute_fuel). *)
Fixpoint dfs (P : proof) (fuel : nat) (stack processed acc : list cref) : option (list cref * list cref) :=
  match stack with
  | [] => Some (acc, processed)
  | cur :: stack' =>
      match fuel with
      | O => None
      | S fuel' =>
          if memN cur processed then dfs P fuel' stack' processed acc
          else match pfind cur P with
               | None => None
               | Some d =>
                   match d_type d with
                   | CLA_ORIG => dfs P fuel' stack' (cur :: processed) (acc ++ [cur])
                   | CLA_LEARNT => dfs P fuel' (rev (d_chain d) ++ stack') (cur :: processed) acc
                   | _ => dfs P fuel' stack' (cur :: processed) acc
                   end
               end
      end
  end.

(* every loop iteration pops one element; elements are pushed only when an unprocessed CLA_LEARNT entry is
   expanded, once per distinct clause: 1 + sum of chain lengths bounds the number of iterations when the
   keys are distinct; duplicates in the list only add to the bound *)
Definition compute_fuel (P : proof) : nat := S (fold_right (fun e n => (length (d_chain (snd e)) + n)%nat) O P).

Definition computeClauses (undef : cref) (P : proof) : option (list cref) :=
  option_map fst (dfs P (compute_fuel P) [undef] [] []).

(* ---- partitions ------------------------------------------------------------------------------ *)
(* FlaPartitionMap::top_level_flas : std::map<PTRef, unsigned>, iterated in key order.
   [parts] is that map as a key-sorted association list.  Each term carries the LIST of indices that count for
   it: the code as it is keeps only the latest index (store_top_level_fla_index overwrites), i.e. a singleton
   list; the repaired variant (proposed_fixes/C06_partition_reindex.diff) keeps every index the term received. *)
Definition partmap := list (term * list nat).

Definition orbit (a b : mask) : mask := a ++ b.                          (* orbit(p, p, q): bitwise or *)
Definition tstbit (m : mask) (i : nat) : bool := existsb (Nat.eqb i) m.

Definition or_masks (cmask : cref -> mask) (clauses : list cref) : mask :=
  fold_left (fun acc c => orbit acc (cmask c)) clauses [].

(* PartitionManager::getPartitions(mask): every top-level formula one of whose index bits is set, in map order *)
Definition getPartitions (parts : partmap) (m : mask) : list term :=
  map fst (filter (fun e => existsb (tstbit m) (snd e)) parts).

(* [orig]: the assertion as it was given to insertFormula for a stored (ite-rewritten) formula; the identity in
   the code as it is, MainSolver::getOriginalAssertion with proposed_fixes/C06_ite_original_assertion.diff *)
Definition mapClausesToTerms (cmask : cref -> mask) (parts : partmap) (orig : term -> term) (clauses : list cref) : list term :=
  map orig (getPartitions parts (or_masks cmask clauses)).

(* store_top_level_fla_index.  keep_all = false: top_level_flas[fla] = idx (the code as it is);
   keep_all = true: the older indices of a term asserted again are kept as well *)
Fixpoint pm_set (keep_all : bool) (t : term) (i : nat) (parts : partmap) : partmap :=
  match parts with
  | [] => [(t, [i])]
  | (t', is') :: r => if N.eqb t t' then (t, if keep_all then is' ++ [i] else [i]) :: r
                      else if N.ltb t t' then (t, [i]) :: (t', is') :: r
                      else (t', is') :: pm_set keep_all t i r
  end.

(* ---- named / hidden split ------------------------------------------------------------------- *)
(* partitionNamedTerms: minCore = config.minimal_unsat_cores(); names_empty = termNames.empty() *)
Definition partitionNamedTerms (minCore names_empty : bool) (contains : term -> bool) (allTerms : list term)
  : list term * list term :=
  if names_empty then ([], if minCore then [] else allTerms)
  else (filter contains allTerms,
        if minCore then [] else filter (fun t => negb (contains t)) allTerms).

(* the result of build() before minimisation: full core, or (named, hidden) *)
Inductive core :=
| FullCore (terms : list term)
| NamedCore (named hidden : list term).

Definition buildCore (full minCore names_empty : bool) (contains : term -> bool) (cmask : cref -> mask)
  (parts : partmap) (orig : term -> term) (undef : cref) (P : proof) : option core :=
  match computeClauses undef P with
  | None => None
  | Some clauses =>
      let allTerms := mapClausesToTerms cmask parts orig clauses in
      if full then Some (FullCore allTerms)
      else let (named, hidden) := partitionNamedTerms minCore names_empty contains allTerms in
           Some (NamedCore named hidden)
  end.

(* ---- TermNames, as far as the core builder reads it ------------------------------------------- *)
(* nameToTerm / termToNames as functions; scopedNamesAndTerms as a stack of scopes (innermost first,
   newest first inside a scope). *)
Record tnames := mk_tn {
  n2t : name -> option term;
  t2n : term -> option (list name);
  scopes : list (list (name * term)) }.

Definition upd {V : Type} (f : N -> V) (k : N) (v : V) : N -> V := fun x => if N.eqb x k then v else f x.

Definition tn_init : tnames := mk_tn (fun _ => None) (fun _ => None) [[]].

Definition tn_contains (s : tnames) (t : term) : bool := match t2n s t with Some _ => true | None => false end.
Definition tn_empty (s : tnames) : bool := forallb (fun sc => match sc with [] => true | _ => false end) (scopes s).

(* nameForTerm = pickName(namesForTerm(term)) = vec.front(): undefined on an empty vector *)
Inductive picked := PickNone | PickUB | PickName (n : name).
Definition tn_name_for_term (s : tnames) (t : term) : picked :=
  match t2n s t with None => PickNone | Some [] => PickUB | Some (n :: _) => PickName n end.

Definition tn_try_insert (n : name) (t : term) (s : tnames) : tnames :=
  match n2t s n with
  | Some _ => s
  | None =>
      let old := match t2n s t with Some l => l | None => [] end in
      mk_tn (upd (n2t s) n (Some t)) (upd (t2n s) t (Some (old ++ [n])))
            (match scopes s with [] => [[(n, t)]] | top :: r => ((n, t) :: top) :: r end)
  end.

Fixpoint remove_first (n : name) (l : list name) : list name :=
  match l with [] => [] | x :: r => if N.eqb n x then r else x :: remove_first n r end.

(* eraseTermName; [fx]: drop the map entry of the term together with its last name *)
Definition tn_erase (fx : bool) (n : name) (s : tnames) : tnames :=
  match n2t s n with
  | None => s
  | Some t =>
      let l' := remove_first n (match t2n s t with Some l => l | None => [] end) in
      mk_tn (upd (n2t s) n None)
            (upd (t2n s) t (if fx && (match l' with [] => true | _ => false end) then None else Some l'))
            (scopes s)
  end.

Definition tn_push (s : tnames) : tnames := mk_tn (n2t s) (t2n s) ([] :: scopes s).

(* popScope: erase the names of the innermost scope, newest first; None: no open scope (undefined) *)
Definition tn_pop (fx : bool) (s : tnames) : option tnames :=
  match scopes s with
  | top :: (next :: rest) =>
      let s' := fold_left (fun acc p => tn_erase fx (fst p) acc) top s in
      Some (mk_tn (n2t s') (t2n s') (next :: rest))
  | _ => None
  end.

Inductive nop := NInsert (n : name) (t : term) | NPush | NPop.

Fixpoint tn_run (fx : bool) (ops : list nop) (s : tnames) : option tnames :=
  match ops with
  | [] => Some s
  | NInsert n t :: r => tn_run fx r (tn_try_insert n t s)
  | NPush :: r => tn_run fx r (tn_push s)
  | NPop :: r => match tn_pop fx s with Some s' => tn_run fx r s' | None => None end
  end.

(* the live (name, term) pairs: what the scope stack holds *)
Definition tn_live (s : tnames) : list (name * term) := concat (scopes s).

(* NamedUnsatCore printing: one name per named term *)
Definition printed_names (s : tnames) (named : list term) : list picked := map (tn_name_for_term s) named.
