(* C07: model of the deletion-based unsat-core minimisation,
     UnsatCoreBuilder::minimize                 (src/unsatcores/UnsatCoreBuilder.cc:116-137)
     UnsatCoreBuilder::Minimize::perform        (UnsatCoreBuilder.cc:171-178)
     UnsatCoreBuilder::Minimize::performNaive   (UnsatCoreBuilder.cc:180-213)
   Definitions only; proofs in MinimizeProofs.v.

   Elements (PTRef of top-level assertions) are an abstract type [elt].  The inner solver
   ("min unsat core solver", a fresh incremental MainSolver) is modelled by what performNaive uses of
   it: an assertion stack driven by insertFormula / push / pop, and check(), whose answer on the
   current assertions is the Section variable [chk] (true = satisfiable, i.e. res != s_False).

   The loop is written literally (index loop over targetTerms, push; insert targetTerms[idx+1..];
   check; pop; keep or drop) and additionally returns the log of inner checks (asserted list in
   insertion order, answer) -- the quantity emitted by the trace hook proposed_hooks/C07_minimize.diff. *)
From Coq Require Import List Bool Arith.
Import ListNotations.

Section Minimize.
  Variable elt : Type.
  Variable chk : list elt -> bool.          (* inner solver answer on an assertion list: true = sat *)

  (* ---- the inner solver's assertion stack: innermost frame first ------------------------------ *)
  Definition istack := list (list elt).
  Definition is_init : istack := [[]].                                   (* MainSolver::initialize: frames.push() *)
  Definition is_insert (t : elt) (s : istack) : istack :=                (* insertFormula: frames.add(fla) *)
    match s with [] => [[t]] | f :: r => (f ++ [t]) :: r end.
  Definition is_push (s : istack) : istack := [] :: s.                   (* push *)
  Definition is_pop (s : istack) : istack :=                             (* pop: false at level 0 *)
    match s with _ :: (f :: r) => f :: r | _ => s end.
  Definition is_assertions (s : istack) : list elt := concat (rev s).    (* getCurrentAssertions: frame 0 first *)
  Definition is_check (s : istack) : bool := chk (is_assertions s).
  Definition is_insert_all (ts : list elt) (s : istack) : istack := fold_left (fun s t => is_insert t s) ts s.

  (* ---- performNaive, literally ------------------------------------------------------------------
       for (idx = 0; idx < targetTermsSize; ++idx) {
           smtSolver.push();
           for (keptIdx = idx + 1; keptIdx < targetTermsSize; ++keptIdx) insertFormula(targetTerms[keptIdx]);
           res = smtSolver.check();  isRedundant = (res == s_False);
           smtSolver.pop();
           if (isRedundant) continue;
           insertFormula(targetTerms[idx]);  newTargetTerms.push(targetTerms[idx]);
       }
     [left] = targetTermsSize - idx (structural).  The log records (asserted list, answer). *)
  Definition log := list (list elt * bool).

  Fixpoint naive_loop (targets : list elt) (left idx : nat) (s : istack) (newT : list elt) (lg : log)
    : list elt * log :=
    match left with
    | O => (newT, lg)
    | S left' =>
        let s1 := is_push s in
        let s2 := is_insert_all (skipn (S idx) targets) s1 in
        let res := is_check s2 in
        let lg' := lg ++ [(is_assertions s2, res)] in
        let s3 := is_pop s2 in
        if negb res then naive_loop targets left' (S idx) s3 newT lg'
        else match nth_error targets idx with
             | Some t => naive_loop targets left' (S idx) (is_insert t s3) (newT ++ [t]) lg'
             | None => (newT, lg')                      (* unreachable: idx < length targets *)
             end
    end.

  Definition performNaive_log (bg targets : list elt) : list elt * log :=
    naive_loop targets (length targets) 0 (is_insert_all bg is_init) [] [].

  Definition performNaive (bg targets : list elt) : list elt := fst (performNaive_log bg targets).

  (* Minimize::perform: no inner solver at all for an empty target list *)
  Definition perform (bg targets : list elt) : list elt :=
    match targets with [] => [] | _ => performNaive bg targets end.

  (* ---- the same function without the solver state (proved equal in MinimizeProofs.v) ----------- *)
  Fixpoint naive_fun (bg kept rest : list elt) : list elt :=
    match rest with
    | [] => kept
    | t :: rest' => if chk (bg ++ kept ++ rest') then naive_fun bg (kept ++ [t]) rest'
                    else naive_fun bg kept rest'
    end.

  Fixpoint naive_fun_log (bg kept rest : list elt) : log :=
    match rest with
    | [] => []
    | t :: rest' =>
        let a := chk (bg ++ kept ++ rest') in
        (bg ++ kept ++ rest', a) :: naive_fun_log bg (if a then kept ++ [t] else kept) rest'
    end.

  (* ---- UnsatCoreBuilder::minimize -----------------------------------------------------------------
     full = config.print_cores_full().  Full mode: targets = allTerms, no background.  Named mode:
     targets = namedTerms (the terms of the proof core for which termNames.contains holds); background
     = every current assertion t with  not termNames.contains(t)  (getCurrentAssertionsView order). *)
  Variable contains : elt -> bool.           (* TermNames::contains(PTRef) *)

  Definition hidden_of (current : list elt) : list elt := filter (fun t => negb (contains t)) current.

  Definition minimize (full : bool) (allTerms namedTerms current : list elt) : list elt :=
    if full then perform [] allTerms
    else perform (hidden_of current) namedTerms.
End Minimize.

Arguments is_init {elt}.
Arguments is_insert {elt}.
Arguments is_push {elt}.
Arguments is_pop {elt}.
Arguments is_assertions {elt}.
Arguments is_insert_all {elt}.
Arguments naive_loop {elt}.
Arguments performNaive_log {elt}.
Arguments performNaive {elt}.
Arguments perform {elt}.
Arguments naive_fun {elt}.
Arguments naive_fun_log {elt}.
Arguments hidden_of {elt}.
Arguments minimize {elt}.

(* order-preserving sublist *)
Inductive sublist {A : Type} : list A -> list A -> Prop :=
| sl_nil : sublist [] []
| sl_skip : forall x l1 l2, sublist l1 l2 -> sublist l1 (x :: l2)
| sl_keep : forall x l1 l2, sublist l1 l2 -> sublist (x :: l1) (x :: l2).

(* removal of the first occurrence *)
Fixpoint remove_one {A : Type} (eqb : A -> A -> bool) (x : A) (l : list A) : list A :=
  match l with
  | [] => []
  | y :: r => if eqb x y then r else y :: remove_one eqb x r
  end.

(* ---- assertion-level reading of the property (named mode) --------------------------------------
   A current assertion is a term with an optional name; the property keeps ALL unnamed current
   assertions when an element of the core is dropped. *)
Definition unnamed_terms {elt : Type} (A : list (elt * option nat)) : list elt :=
  map fst (filter (fun a => match snd a with None => true | Some _ => false end) A).
Definition named_terms {elt : Type} (A : list (elt * option nat)) : list elt :=
  map fst (filter (fun a => match snd a with None => false | Some _ => true end) A).
