(* C07: proofs about Core/MinimizeNaive.v. *)
From Coq Require Import List Bool Arith Lia.
From OsmtV.Core Require Import MinimizeNaive.
Import ListNotations.

Ltac incl_tac :=
  let x := fresh "x" in let Hx := fresh "Hx" in
  intros x Hx; repeat rewrite in_app_iff in *; simpl in *; repeat rewrite in_app_iff in *; tauto.

(* ---- list facts ------------------------------------------------------------------------------ *)
Lemma snoc_decomp {A} (kept : list A) t K1 r K2 :
  kept ++ [t] = K1 ++ r :: K2 ->
  (K2 = [] /\ r = t /\ K1 = kept) \/ (exists K2', K2 = K2' ++ [t] /\ kept = K1 ++ r :: K2').
Proof.
  destruct K2 as [|y K2' _] using rev_ind; intros H.
  - left. apply (app_inj_tail kept K1 t r) in H. destruct H; subst; auto.
  - right. exists K2'.
    assert (E : K1 ++ r :: K2' ++ [y] = (K1 ++ r :: K2') ++ [y]) by (rewrite <- app_assoc; reflexivity).
    rewrite E in H. apply app_inj_tail in H. destruct H; subst; auto.
Qed.

Lemma nth_skipn {A} (l : list A) idx : idx < length l ->
  exists t, nth_error l idx = Some t /\ skipn idx l = t :: skipn (S idx) l.
Proof.
  revert idx; induction l as [|a l IH]; intros idx H; simpl in H; [lia|].
  destruct idx as [|idx]; [exists a; auto|].
  destruct (IH idx ltac:(lia)) as (t & H1 & H2). exists t; split; [exact H1|]. exact H2.
Qed.

Lemma sublist_refl {A} (l : list A) : sublist l l.
Proof. induction l; [apply sl_nil | apply sl_keep; assumption]. Qed.

Lemma sublist_app_skip {A} (a b : list A) x : forall l, sublist l (a ++ b) -> sublist l (a ++ x :: b).
Proof.
  induction a as [|y a IH]; intros l H; simpl in *; [apply sl_skip; exact H|].
  inversion H; subst; [apply sl_skip | apply sl_keep]; apply IH; assumption.
Qed.

Lemma sublist_incl {A} (l1 l2 : list A) : sublist l1 l2 -> incl l1 l2.
Proof. induction 1; intros y Hy; simpl in *; [tauto | right; auto | destruct Hy; [left; auto | right; auto]]. Qed.

Lemma sublist_length {A} (l1 l2 : list A) : sublist l1 l2 -> length l1 <= length l2.
Proof. induction 1; simpl; lia. Qed.

Lemma sublist_proper {A} (l1 l2 : list A) : sublist l1 l2 ->
  l1 = l2 \/ exists R1 r R2, l2 = R1 ++ r :: R2 /\ sublist l1 (R1 ++ R2).
Proof.
  induction 1.
  - left; reflexivity.
  - right. exists [], x, l2. split; [reflexivity | exact H].
  - destruct IHsublist as [-> | (R1 & r & R2 & -> & Hs)]; [left; reflexivity|].
    right. exists (x :: R1), r, R2. split; [reflexivity|]. simpl. apply sl_keep; exact Hs.
Qed.

Lemma remove_one_decomp {A} (eqb : A -> A -> bool) (eqb_spec : forall x y, eqb x y = true <-> x = y) r :
  forall R, In r R -> exists R1 R2, R = R1 ++ r :: R2 /\ remove_one eqb r R = R1 ++ R2.
Proof.
  induction R as [|y R IH]; intros H; [destruct H|]. simpl.
  destruct (eqb r y) eqn:E.
  - apply eqb_spec in E; subst. exists [], R; auto.
  - destruct H as [->|H]; [assert (eqb r r = true) by (apply eqb_spec; reflexivity); congruence|].
    destruct (IH H) as (R1 & R2 & -> & E2). exists (y :: R1), R2. rewrite E2. auto.
Qed.

(* ---- the solver-state loop is the plain function ---------------------------------------------- *)
Section Refine.
  Variable elt : Type.
  Variable chk : list elt -> bool.

  Lemma is_insert_all_head ts : forall (f : list elt) r, is_insert_all ts (f :: r) = (f ++ ts) :: r.
  Proof.
    induction ts as [|t ts IH]; intros f r; simpl; [rewrite app_nil_r; reflexivity|].
    unfold is_insert_all in *. simpl. rewrite IH. rewrite <- app_assoc. reflexivity.
  Qed.

  Lemma naive_loop_eq bg targets : forall left idx kept lg,
    left + idx = length targets ->
    naive_loop chk targets left idx [bg ++ kept] kept lg =
    (naive_fun chk bg kept (skipn idx targets), lg ++ naive_fun_log chk bg kept (skipn idx targets)).
  Proof.
    induction left as [|left IH]; intros idx kept lg H.
    - assert (idx = length targets) by lia. subst. rewrite skipn_all. simpl. rewrite app_nil_r. reflexivity.
    - destruct (nth_skipn targets idx ltac:(lia)) as (t & Hn & Hs). rewrite Hs.
      cbn [naive_loop naive_fun naive_fun_log]. rewrite Hn.
      unfold is_push, is_check. rewrite is_insert_all_head.
      assert (EA : is_assertions [[] ++ skipn (S idx) targets; bg ++ kept] = bg ++ kept ++ skipn (S idx) targets).
      { unfold is_assertions. cbn [rev concat app]. rewrite app_nil_r, app_assoc. reflexivity. }
      rewrite EA. cbn [is_pop].
      destruct (chk (bg ++ kept ++ skipn (S idx) targets)) eqn:E; cbn [negb].
      + cbn [is_insert].
        replace ((bg ++ kept) ++ [t]) with (bg ++ (kept ++ [t])) by (rewrite app_assoc; reflexivity).
        rewrite IH by lia. rewrite <- app_assoc. reflexivity.
      + rewrite IH by lia. rewrite <- app_assoc. reflexivity.
  Qed.

  Lemma performNaive_log_eq bg targets :
    performNaive_log chk bg targets = (naive_fun chk bg [] targets, naive_fun_log chk bg [] targets).
  Proof.
    unfold performNaive_log, is_init. rewrite is_insert_all_head. simpl.
    pose proof (naive_loop_eq bg targets (length targets) 0 [] [] ltac:(lia)) as H.
    rewrite app_nil_r in H. simpl in H. exact H.
  Qed.

  Lemma performNaive_eq bg targets : performNaive chk bg targets = naive_fun chk bg [] targets.
  Proof. unfold performNaive. rewrite performNaive_log_eq. reflexivity. Qed.

  (* order-preserving sublist of the targets: needs nothing about the oracle *)
  Lemma naive_fun_sublist bg : forall rest kept, sublist (naive_fun chk bg kept rest) (kept ++ rest).
  Proof.
    induction rest as [|t rest IH]; intros kept; simpl.
    - rewrite app_nil_r. apply sublist_refl.
    - destruct (chk (bg ++ kept ++ rest)).
      + specialize (IH (kept ++ [t])). rewrite <- app_assoc in IH. exact IH.
      + apply sublist_app_skip. apply IH.
  Qed.

  Lemma performNaive_sublist bg targets : sublist (performNaive chk bg targets) targets.
  Proof. rewrite performNaive_eq. exact (naive_fun_sublist bg targets []). Qed.

  (* every logged check asserts  bg ++ (elements kept so far) ++ (targets not yet visited), and the number
     of checks is the number of targets *)
  Lemma naive_fun_log_length bg : forall rest kept, length (naive_fun_log chk bg kept rest) = length rest.
  Proof. induction rest; intros; simpl; auto. Qed.
End Refine.

(* ---- irreducibility for a correct oracle ------------------------------------------------------ *)
Section Correct.
  Variable elt : Type.
  Variable sat : list elt -> Prop.
  Hypothesis sat_mono : forall S T, incl S T -> sat T -> sat S.
  Variable chk : list elt -> bool.
  Hypothesis chk_spec : forall S, chk S = true <-> sat S.

  Lemma naive_fun_inv bg : forall rest kept,
    ~ sat (bg ++ kept ++ rest) ->
    (forall K1 r K2, kept = K1 ++ r :: K2 -> sat (bg ++ K1 ++ K2 ++ rest)) ->
    ~ sat (bg ++ naive_fun chk bg kept rest) /\
    forall R1 r R2, naive_fun chk bg kept rest = R1 ++ r :: R2 -> sat (bg ++ R1 ++ R2).
  Proof.
    induction rest as [|t rest IH]; intros kept Hu Hn; simpl.
    - rewrite app_nil_r in Hu. split; [exact Hu|].
      intros R1 r R2 E. specialize (Hn R1 r R2 E). rewrite app_nil_r in Hn. exact Hn.
    - destruct (chk (bg ++ kept ++ rest)) eqn:E.
      + apply chk_spec in E. apply IH.
        * rewrite <- app_assoc. exact Hu.
        * intros K1 r K2 D. apply snoc_decomp in D. destruct D as [(-> & -> & ->) | (K2' & -> & ->)].
          -- simpl. exact E.
          -- specialize (Hn K1 r K2' eq_refl). rewrite <- app_assoc. exact Hn.
      + assert (Hns : ~ sat (bg ++ kept ++ rest)).
        { intros Hs. apply chk_spec in Hs. congruence. }
        apply IH; [exact Hns|].
        intros K1 r K2 D. specialize (Hn K1 r K2 D).
        eapply sat_mono; [|exact Hn]. incl_tac.
  Qed.

  Theorem irreducible_pos bg targets : ~ sat (bg ++ targets) ->
    let R := performNaive chk bg targets in
    ~ sat (bg ++ R) /\ forall R1 r R2, R = R1 ++ r :: R2 -> sat (bg ++ R1 ++ R2).
  Proof.
    intros Hu R. unfold R. rewrite performNaive_eq. apply naive_fun_inv; [exact Hu|].
    intros K1 r K2 D. destruct K1; discriminate.
  Qed.

  Theorem irreducible_remove (eqb : elt -> elt -> bool) (eqb_spec : forall x y, eqb x y = true <-> x = y)
    bg targets : ~ sat (bg ++ targets) ->
    let R := performNaive chk bg targets in
    ~ sat (bg ++ R) /\ forall r, In r R -> sat (bg ++ remove_one eqb r R).
  Proof.
    intros Hu R. destruct (irreducible_pos bg targets Hu) as [H1 H2]. split; [exact H1|].
    intros r Hr. destruct (remove_one_decomp eqb eqb_spec r R Hr) as (R1 & R2 & E1 & E2).
    rewrite E2. exact (H2 R1 r R2 E1).
  Qed.

  (* every proper (order-preserving) sub-selection of the result is satisfiable with the background *)
  Theorem minimal_proper bg targets : ~ sat (bg ++ targets) ->
    forall R', sublist R' (performNaive chk bg targets) -> R' <> performNaive chk bg targets -> sat (bg ++ R').
  Proof.
    intros Hu R' Hs Hne. destruct (irreducible_pos bg targets Hu) as [_ H2].
    destruct (sublist_proper _ _ Hs) as [E | (R1 & r & R2 & E & Hs')]; [contradiction|].
    eapply sat_mono; [|exact (H2 R1 r R2 E)].
    apply incl_app; [apply incl_appl, incl_refl | apply incl_appr, sublist_incl, Hs'].
  Qed.

  (* ---- minimize ------------------------------------------------------------------------------- *)
  Lemma perform_eq bg targets : perform chk bg targets = performNaive chk bg targets.
  Proof. destruct targets; [reflexivity|reflexivity]. Qed.

  Theorem minimize_full contains allTerms namedTerms current : ~ sat allTerms ->
    let R := minimize chk contains true allTerms namedTerms current in
    ~ sat R /\ forall R1 r R2, R = R1 ++ r :: R2 -> sat (R1 ++ R2).
  Proof.
    intros Hu R. unfold R, minimize. rewrite perform_eq.
    exact (irreducible_pos [] allTerms Hu).
  Qed.

  Lemma hidden_is_unnamed (contains : elt -> bool) (A : list (elt * option nat)) :
    (forall t, In t (unnamed_terms A) -> contains t = false) ->
    (forall t, In t (named_terms A) -> contains t = true) ->
    hidden_of contains (map fst A) = unnamed_terms A.
  Proof.
    unfold hidden_of, unnamed_terms, named_terms. intros H1 H2.
    induction A as [|[t [n|]] A IH]; simpl in *; [reflexivity| |].
    - rewrite (H2 t (or_introl eq_refl)). simpl. apply IH; intros; [apply H1 | apply H2; right]; assumption.
    - rewrite (H1 t (or_introl eq_refl)). simpl. f_equal. apply IH; intros; [apply H1; right | apply H2]; assumption.
  Qed.

  Theorem minimize_named contains (A : list (elt * option nat)) allTerms namedTerms :
    (forall t, In t (unnamed_terms A) -> contains t = false) ->
    (forall t, In t (named_terms A) -> contains t = true) ->
    ~ sat (unnamed_terms A ++ namedTerms) ->
    let R := minimize chk contains false allTerms namedTerms (map fst A) in
    ~ sat (unnamed_terms A ++ R) /\ forall R1 r R2, R = R1 ++ r :: R2 -> sat (unnamed_terms A ++ R1 ++ R2).
  Proof.
    intros H1 H2 Hu R. unfold R, minimize. rewrite perform_eq, (hidden_is_unnamed contains A H1 H2).
    exact (irreducible_pos _ _ Hu).
  Qed.
End Correct.

(* ---- a concrete world: constraints on one variable x in {0,1,2,3} ------------------------------ *)
Definition cx_holds (c x : nat) : bool :=
  match c with
  | 0 => 1 <=? x          (* x >= 1 *)
  | 1 => 2 <=? x          (* x >= 2 *)
  | 2 => x <=? 1          (* x <= 1 *)
  | 3 => x <=? 2          (* x <= 2 *)
  | _ => true
  end.
Definition cx_dom := [0; 1; 2; 3].
Definition cx_sat (S : list nat) : Prop := exists x, In x cx_dom /\ forall c, In c S -> cx_holds c x = true.
Definition cx_chk (S : list nat) : bool := existsb (fun x => forallb (fun c => cx_holds c x) S) cx_dom.

Lemma cx_sat_mono : forall S T, incl S T -> cx_sat T -> cx_sat S.
Proof. intros S T Hi (x & Hx & H). exists x. split; [exact Hx|]. intros c Hc. apply H, Hi, Hc. Qed.

Lemma cx_chk_spec : forall S, cx_chk S = true <-> cx_sat S.
Proof.
  intros S. unfold cx_chk, cx_sat. rewrite existsb_exists. split.
  - intros (x & Hx & H). exists x. split; [exact Hx|]. rewrite forallb_forall in H. exact H.
  - intros (x & Hx & H). exists x. split; [exact Hx|]. rewrite forallb_forall. exact H.
Qed.

(* The assertion-level reading fails when the term of a named assertion is ALSO asserted unnamed:
   minimize leaves every assertion whose term carries a name out of the background (contains(term)),
   so the unnamed copy is not kept while the named copy is tested.
   A = [ (x>=2) unnamed ; (x>=2) named 10 ; (x<=1) named 11 ]. *)
Lemma named_also_unnamed_witness :
  let A := [(1, None); (1, Some 10); (2, Some 11)] in
  let contains := fun t => Nat.eqb t 1 || Nat.eqb t 2 in
  let namedTerms := [1; 2] in
  ~ cx_sat (unnamed_terms A ++ namedTerms) /\
  minimize cx_chk contains false [] namedTerms (map fst A) = [] ++ 1 :: [2] /\
  ~ cx_sat (unnamed_terms A ++ [] ++ [2]).
Proof.
  simpl. split; [|split].
  - intros H. apply cx_chk_spec in H. vm_compute in H. discriminate.
  - vm_compute. reflexivity.
  - intros H. apply cx_chk_spec in H. vm_compute in H. discriminate.
Qed.
