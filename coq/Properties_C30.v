(* C30 — check-sat always returns outside integer arithmetic.  Theorems only (Term/*.v).
   PARTIAL: proved are (1) boundedness of every restart-free segment of the CDCL(T) search in terms of the trail
   shape, (2) soundness of the executable progress test applied to the traced trail shapes of the real
   solver, (3) unboundedness of the Luby restart limits REGENERATED from CoreSMTSolver::restartNextLimit.
   Termination of the theory solvers' own loops (Simplex pivoting, congruence closure, lookahead tree) is
   not proved; it is watched per run by the wall-clock backstop. *)
From Coq Require Import List Arith.
From OsmtV.Term Require Import MeasureModel MeasureProofs Gen_Restart RestartProofs.
Import ListNotations.

(* every sequence of decide / propagate / backjump steps over n variables that contains no restart has fewer
   than 3^n steps, whatever the heuristics choose *)
Theorem segment_bounded : forall n a c k, length a <= n -> chain n a c k -> k < 3 ^ n.
Proof. exact segment_bounded_lemma. Qed.
Print Assumptions segment_bounded.

(* each step strictly increases the base-3 trail measure, and the executable test `progress` used on the
   traced snapshots recognises exactly such increases *)
Theorem step_increases_measure : forall n a b, step n a b -> mu n a < mu n b /\ progress a b = true.
Proof. intros n a b H. split; [exact (step_mu n a b H) | exact (step_progress n a b H)]. Qed.
Print Assumptions step_increases_measure.

Theorem progress_sound : forall n a b, length a <= n -> length b <= n -> progress a b = true -> mu n a < mu n b.
Proof. exact progress_mu. Qed.
Print Assumptions progress_sound.

(* the restart limits of the Luby policy as written in the source exceed every bound (so the restart-free
   segments get arbitrarily long budgets and the search cannot be cut short forever) *)
Theorem restart_limits_unbounded : forall j, exists n, 0 < n /\ snd (iter n (luby_i0, luby_k0, [])) = 2 ^ j.
Proof. exact luby_unbounded_lemma. Qed.
Print Assumptions restart_limits_unbounded.

Example c30_nonvacuous :
  chain 3 [] [P; D; P] 3 /\ progress [P; D; D] [P; P] = true /\
  map (fun n => snd (iter n (luby_i0, luby_k0, []))) [1; 2; 3; 4; 5; 6; 7] = [1; 1; 2; 1; 1; 2; 4].
Proof.
  split; [|split; vm_compute; reflexivity].
  eapply ch_cons; [apply (st_propagate 3 []); simpl; auto|].
  eapply ch_cons; [apply (st_decide 3 [P]); simpl; auto|].
  eapply ch_cons; [apply (st_propagate 3 [P; D]); simpl; auto|]. apply ch_nil.
Qed.
