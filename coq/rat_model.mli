
val negb : bool -> bool

type nat =
| O
| S of nat

val fst : ('a1 * 'a2) -> 'a1

val snd : ('a1 * 'a2) -> 'a2

type comparison =
| Eq
| Lt
| Gt

val compOpp : comparison -> comparison

val add : nat -> nat -> nat

val mul : nat -> nat -> nat

type positive =
| XI of positive
| XO of positive
| XH

type n =
| N0
| Npos of positive

type z =
| Z0
| Zpos of positive
| Zneg of positive

module Pos :
 sig
  type mask =
  | IsNul
  | IsPos of positive
  | IsNeg
 end

module Coq_Pos :
 sig
  val succ : positive -> positive

  val add : positive -> positive -> positive

  val add_carry : positive -> positive -> positive

  val pred_double : positive -> positive

  val pred_N : positive -> n

  type mask = Pos.mask =
  | IsNul
  | IsPos of positive
  | IsNeg

  val succ_double_mask : mask -> mask

  val double_mask : mask -> mask

  val double_pred_mask : positive -> mask

  val sub_mask : positive -> positive -> mask

  val sub_mask_carry : positive -> positive -> mask

  val sub : positive -> positive -> positive

  val mul : positive -> positive -> positive

  val size_nat : positive -> nat

  val size : positive -> positive

  val compare_cont : comparison -> positive -> positive -> comparison

  val compare : positive -> positive -> comparison

  val eqb : positive -> positive -> bool

  val gcdn : nat -> positive -> positive -> positive

  val gcd : positive -> positive -> positive

  val ggcdn : nat -> positive -> positive -> positive * (positive * positive)

  val ggcd : positive -> positive -> positive * (positive * positive)

  val coq_Nsucc_double : n -> n

  val coq_Ndouble : n -> n

  val coq_lxor : positive -> positive -> n

  val iter_op : ('a1 -> 'a1 -> 'a1) -> positive -> 'a1 -> 'a1

  val to_nat : positive -> nat
 end

module N :
 sig
  val succ_double : n -> n

  val double : n -> n

  val succ_pos : n -> positive

  val sub : n -> n -> n

  val compare : n -> n -> comparison

  val leb : n -> n -> bool

  val pos_div_eucl : positive -> n -> n * n

  val coq_lxor : n -> n -> n
 end

module Z :
 sig
  val double : z -> z

  val succ_double : z -> z

  val pred_double : z -> z

  val pos_sub : positive -> positive -> z

  val add : z -> z -> z

  val opp : z -> z

  val sub : z -> z -> z

  val mul : z -> z -> z

  val compare : z -> z -> comparison

  val sgn : z -> z

  val leb : z -> z -> bool

  val ltb : z -> z -> bool

  val geb : z -> z -> bool

  val gtb : z -> z -> bool

  val eqb : z -> z -> bool

  val abs : z -> z

  val to_nat : z -> nat

  val of_N : n -> z

  val to_pos : z -> positive

  val pos_div_eucl : positive -> z -> z * z

  val div_eucl : z -> z -> z * z

  val div : z -> z -> z

  val modulo : z -> z -> z

  val quotrem : z -> z -> z * z

  val quot : z -> z -> z

  val rem : z -> z -> z

  val log2 : z -> z

  val gcd : z -> z -> z

  val ggcd : z -> z -> z * (z * z)

  val coq_lxor : z -> z -> z

  val lcm : z -> z -> z
 end

val fold_left : ('a1 -> 'a2 -> 'a1) -> 'a2 list -> 'a1 -> 'a1

type q = { qnum : z; qden : positive }

val qcompare : q -> q -> comparison

val qplus : q -> q -> q

val qmult : q -> q -> q

val qopp : q -> q

val qminus : q -> q -> q

val qinv : q -> q

val qdiv : q -> q -> q

val qred : q -> q

val qfloor : q -> z

val qceiling : q -> z

val wORD_MIN : z

val wORD_MAX : z

val uWORD_MAX : z

val lWORD_MIN : z

val lWORD_MAX : z

val in_word : z -> bool

val in_lword : z -> bool

val to_uword : z -> z

val to_ulword : z -> z

val to_word : z -> z

val to_lword : z -> z

type err =
| UB_overflow
| UB_divzero
| Abort_called
| Gmp_divzero
| Gmp_inexact
| Out_of_fuel

type 'a res =
| Ok of 'a
| Err of err

type 'a mres =
| MOk of 'a
| MOvf
| MErr of err

val mbind : 'a1 mres -> ('a1 -> 'a2 mres) -> 'a2 mres

val rbind : 'a1 res -> ('a1 -> 'a2 res) -> 'a2 res

val lift : 'a1 mres -> 'a1 res

val sadd64 : z -> z -> z mres

val ssub64 : z -> z -> z mres

val smul64 : z -> z -> z mres

val sneg64 : z -> z mres

val sdiv64 : z -> z -> z mres

val sneg32 : z -> z mres

val sadd32 : z -> z -> z mres

val sdiv32 : z -> z -> z mres

val srem32 : z -> z -> z mres

val umul64 : z -> z -> z

val udiv : z -> z -> z mres

val absVal_w : z -> z

val absVal_l : z -> z

val chk_word : z -> z mres

val chk_uword : z -> z mres

val chk_sum_lword : z -> z -> z mres

val chk_sub_lword : z -> z -> z mres

val gcd_loop : z option -> nat -> z -> z -> z mres

val gcd_fuel : z -> nat

val tgcd : z option -> z -> z -> z mres

val gcd_u : z -> z -> z mres

val gcd_s32 : z -> z -> z mres

type fr =
| Word of z * z
| Big of q

val fits_word : q -> bool

val wfb : fr -> bool

val try_fit_word : q -> fr

val mpq_of : fr -> q

val gmp_add : q -> q -> q

val gmp_sub : q -> q -> q

val gmp_mul : q -> q -> q

val gmp_div : q -> q -> q res

val gmp_inv : q -> q res

val gmp_neg : q -> q

val of_word : z -> fr

val of_uint32 : z -> fr

val of_mpz : z -> fr

val of_string : z -> positive -> fr

val of_word_uword : z -> z -> fr res

val finish : (z * z) mres -> fr res -> fr res

val reduce_tail : (z -> z) -> (z -> bool) -> z -> z -> (z * z) mres

val ne1 : z -> bool

val gt1 : z -> bool

val add_word : z -> z -> z -> z -> (z * z) mres

val big_add : fr -> fr -> fr res

val fr_add : fr -> fr -> fr res

val sub_word : z -> z -> z -> z -> (z * z) mres

val big_sub : fr -> fr -> fr res

val fr_sub : fr -> fr -> fr res

val is_word_zero : fr -> bool

val is_word_one : fr -> bool

val mul_word : z -> z -> z -> z -> (z * z) mres

val big_mul : fr -> fr -> fr res

val fr_mul : fr -> fr -> fr res

val flip_sign : z -> z -> bool

val div_core : z -> z -> z -> z -> (z * z) mres

val div_word : z -> z -> z -> z -> (z * z) mres

val big_div : fr -> fr -> fr res

val fr_div : fr -> fr -> fr res

val addA_word : z -> z -> z -> z -> (z * z) mres

val fr_addA : fr -> fr -> fr res

val subA_word : z -> z -> z -> z -> (z * z) mres

val fr_subA : fr -> fr -> fr res

val mulA_word : z -> z -> z -> z -> (z * z) mres

val fr_mulA : fr -> fr -> fr res

val fr_divA : fr -> fr -> fr res

val big_neg : fr -> fr res

val fr_neg : fr -> fr res

val fr_negate : fr -> fr res

val inv_word : z -> z -> (z * z) mres

val big_inv : fr -> fr res

val fr_inv : fr -> fr res

val cmp_lword : z -> z -> z

val z_of_comparison : comparison -> z

val fr_compare : fr -> fr -> z res

val qeq_numden : q -> q -> bool

val fr_eq : fr -> fr -> bool

val fr_sign : fr -> z

val fr_isInteger : fr -> bool

val fr_isZero : fr -> bool

val fr_isOne : fr -> bool

val fr_get_num : fr -> fr

val fr_get_den : fr -> fr

val fr_ceil : fr -> fr res

val fr_floor : fr -> fr res

val fr_gcd : fr -> fr -> fr res

val lcm_word : z -> z -> fr res

val fr_lcm : fr -> fr -> fr res

val fr_gcd_fixed : fr -> fr -> fr res

val lcm_uword : z -> z -> fr res

val fr_lcm_fixed : fr -> fr -> fr res

val gmp_fdiv_q : z -> z -> fr res

val fr_fdiv_q : fr -> fr -> fr res

val fr_mod : fr -> fr -> fr res

val fr_divexact : fr -> fr -> fr res

val fr_divexact_fixed : fr -> fr -> fr res

val fr_round_to_int : fr -> fr res

val hash_word : z -> z -> z

val limbs : nat -> z -> z list

val limbs_of : z -> z list

val fnv : z list -> z

val hash_mpz : z -> z

val fr_hash : fr -> z
