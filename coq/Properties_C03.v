(* C03 — models produced after sat satisfy every current assertion.
   The decision procedure applied to every printed model is the verified evaluator of coq/Sem:
   theorems only; proofs are in Sem/SemProofs.v. *)
From Coq Require Import ZArith QArith List Bool.
From OsmtV.Sem Require Import Syntax Eval Model SemProofs.
Import ListNotations.

(* Acceptance by the evaluator means: the printed model, read as an interpretation, is well-sorted for
   the declared signature, defines every declared symbol, and makes every assertion true.  In particular
   the assertion set is satisfiable. *)
Theorem c03_model_check_sound : forall S M A, model_ok S M A = true ->
  wf_interp S (interp_of M) /\ (forall a, In a A -> holds (interp_of M) a) /\ sat S A.
Proof.
  intros S M A H. pose proof (model_ok_sat S M A H) as Hs.
  unfold model_ok in H. apply andb_true_iff in H as [Hc Ha]. rewrite forallb_forall in Ha.
  split; [exact (model_covers_wf S M Hc)|]. split; [|exact Hs].
  intros a Hin. exact (is_true_holds _ _ (Ha a Hin)).
Qed.
Print Assumptions c03_model_check_sound.

(* Rejection is decisive as well: some current assertion is not true under the printed model. *)
Theorem c03_model_check_complete : forall S M A, model_covers S M = true -> model_ok S M A = false ->
  exists a, In a A /\ ~ holds (interp_of M) a.
Proof. exact model_ok_false. Qed.
Print Assumptions c03_model_check_complete.

(* Integer division and remainder in printed values and assertions are evaluated with the SMT-LIB
   (Euclidean) meaning. *)
Theorem c03_divmod_semantics : forall I x y, y <> 0%Z ->
  exists q r, sem I [] (TIDiv (TInt x) (TInt y)) = Some (VZ q) /\ sem I [] (TMod (TInt x) (TInt y)) = Some (VZ r) /\
              (x = y * q + r /\ 0 <= r < Z.abs y)%Z.
Proof. exact sem_divmod_spec. Qed.
Print Assumptions c03_divmod_semantics.

(* non-vacuity: a two-symbol signature, a model with a function table, assertions it satisfies *)
Example c03_nonvacuous :
  let S := {| sig_vars := [(1%N, SInt)]; sig_funs := [(2%N, ([SInt], SInt))] |} in
  let M := [(1%N, {| d_params := []; d_res := SInt; d_body := TInt 5 |});
            (2%N, {| d_params := [(10%N, SInt)]; d_res := SInt;
                     d_body := TIte (TEq [TVar 10%N; TInt 5]) (TInt 7) (TInt 0) |})] in
  model_ok S M [TEq [TApp 2%N [TVar 1%N]; TInt 7]; TLt [TInt 3; TVar 1%N]] = true /\
  model_ok S M [TLt [TVar 1%N; TInt 3]] = false.
Proof. split; vm_compute; reflexivity. Qed.
