From Coq Require Import ZArith QArith Qround Lia.
From OsmtV.IntArith Require Import DivModModel.
Local Open Scope Z_scope.

Lemma smt_divmod_spec n d : d <> 0 ->
  n = d * smt_div n d + smt_mod n d /\ 0 <= smt_mod n d < Z.abs d.
Proof.
  intros Hd. unfold smt_div, smt_mod.
  destruct (Z.ltb_spec 0 d) as [Hp|Hn].
  - rewrite (Z.abs_eq d) by lia. split; [apply Z.div_mod; lia | apply Z.mod_pos_bound; lia].
  - assert (Hd' : 0 < - d) by lia. rewrite (Z.abs_neq d) by lia.
    split; [| apply Z.mod_pos_bound; lia].
    pose proof (Z.div_mod n (- d) ltac:(lia)). lia.
Qed.

Lemma smt_divmod_unique n d q r : d <> 0 -> n = d * q + r -> 0 <= r < Z.abs d ->
  q = smt_div n d /\ r = smt_mod n d.
Proof.
  intros Hd Hn Hr. destruct (smt_divmod_spec n d Hd) as [Hn' Hr'].
  set (q' := smt_div n d) in *. set (r' := smt_mod n d) in *.
  assert (Hq : q = q') by nia. split; [exact Hq | nia].
Qed.

Lemma Qfloor_div_Z n d : 0 < d -> Qfloor (real_div n d) = n / d.
Proof.
  intros Hd. unfold real_div, Qdiv, Qinv, Qfloor. simpl.
  destruct d as [|p|p]; try lia. simpl. rewrite Z.mul_1_r. reflexivity.
Qed.

Lemma real_div_neg n d : d < 0 -> (real_div n d == real_div (- n) (- d))%Q.
Proof.
  intros Hd. destruct d as [|p|p]; try lia. unfold real_div, Qdiv, Qinv, Qeq. simpl. lia.
Qed.

Lemma Qceiling_div_neg n d : d < 0 -> Qceiling (real_div n d) = - (n / - d).
Proof.
  intros Hd. unfold Qceiling.
  assert (H : (- real_div n d == real_div n (- d))%Q).
  { destruct d as [|p|p]; try lia. unfold real_div, Qdiv, Qinv, Qeq, Qopp. simpl. lia. }
  rewrite (Qfloor_comp _ _ H). rewrite Qfloor_div_Z by lia. reflexivity.
Qed.

Lemma fold_div_smtlib n d : d <> 0 -> fold_div n d = Some (smt_div n d).
Proof.
  intros Hd. unfold fold_div, smt_div, q_floor, q_ceil.
  destruct (Z.eqb_spec d 0); [lia|].
  destruct (Z.eqb_spec d 1) as [->|]; [simpl; now rewrite Z.div_1_r|].
  destruct (Z.eqb_spec d (-1)) as [->|]; [simpl; now rewrite Z.div_1_r|].
  destruct (Z.ltb_spec 0 d); [now rewrite Qfloor_div_Z | now rewrite Qceiling_div_neg by lia].
Qed.

Lemma fold_mod_smtlib n d : d <> 0 -> fold_mod n d = Some (smt_mod n d).
Proof.
  intros Hd. unfold fold_mod, q_floor, q_ceil.
  destruct (Z.eqb_spec d 0); [lia|].
  destruct (smt_divmod_spec n d Hd) as [Hn Hr].
  assert (Hq : (if 0 <? d then Qfloor (real_div n d) else Qceiling (real_div n d)) = smt_div n d).
  { unfold smt_div. destruct (Z.ltb_spec 0 d); [now rewrite Qfloor_div_Z | now rewrite Qceiling_div_neg by lia]. }
  rewrite Hq.
  destruct (Z.eqb_spec d 1) as [->|]; [cbn [orb]; unfold smt_mod; f_equal; change (Z.abs 1) with 1; now rewrite Z.mod_1_r|].
  destruct (Z.eqb_spec d (-1)) as [->|]; [cbn [orb]; unfold smt_mod; f_equal; change (Z.abs (-1)) with 1; now rewrite Z.mod_1_r|].
  cbn [orb]. f_equal. lia.
Qed.

Lemma fold_div_zero n : fold_div n 0 = None /\ fold_mod n 0 = None.
Proof. split; reflexivity. Qed.

Lemma divmod_def_iff n d q r :
  divmod_def n d q r = true <-> (n = d * q + r /\ 0 <= r <= Z.abs d - 1).
Proof.
  unfold divmod_def. rewrite !Bool.andb_true_iff, Z.eqb_eq, !Z.leb_le. tauto.
Qed.
