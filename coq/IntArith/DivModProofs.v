From Coq Require Import ZArith QArith Qround Lia.
From OsmtV.IntArith Require Import DivModModel.
Local Open Scope Z_scope.

Lemma smt_divmod_spec n d : d <> 0 ->
  n = d * smt_div n d + smt_mod n d /\ 0 <= smt_mod n d < Z.abs d.
Proof.
  intros Hd. unfold smt_div, smt_mod.
  destruct (Z.ltb_spec 0 d) as [Hp|Hn].
  - rewrite (Z.abs_eq d) by lia. split; [apply Z.div_mod; lia | apply Z.mod_pos_bound; lia].
  - assert (Hd' : 0 < - d) by lia. rewrite (Z.abs_neq d) by lia.
    split; [| apply Z.mod_pos_bound; lia].
    pose proof (Z.div_mod n (- d) ltac:(lia)). lia.
Qed.

Lemma smt_divmod_unique n d q r : d <> 0 -> n = d * q + r -> 0 <= r < Z.abs d ->
  q = smt_div n d /\ r = smt_mod n d.
Proof.
  intros Hd Hn Hr. destruct (smt_divmod_spec n d Hd) as [Hn' Hr'].
  set (q' := smt_div n d) in *. set (r' := smt_mod n d) in *.
  assert (Hq : q = q') by nia. split; [exact Hq | nia].
Qed.

Lemma Qfloor_div_Z n d : 0 < d -> Qfloor (real_div n d) = n / d.
Proof.
  intros Hd. unfold real_div, Qdiv, Qinv, Qfloor. simpl.
  destruct d as [|p|p]; try lia. simpl. rewrite Z.mul_1_r. reflexivity.
Qed.

Lemma real_div_neg n d : d < 0 -> (real_div n d == real_div (- n) (- d))%Q.
Proof.
  intros Hd. destruct d as [|p|p]; try lia. unfold real_div, Qdiv, Qinv, Qeq. simpl. lia.
Qed.

Lemma Qceiling_div_neg n d : d < 0 -> Qceiling (real_div n d) = - (n / - d).
Proof.
  intros Hd. unfold Qceiling.
  assert (H : (- real_div n d == real_div n (- d))%Q).
  { destruct d as [|p|p]; try lia. unfold real_div, Qdiv, Qinv, Qeq, Qopp. simpl. lia. }
  rewrite (Qfloor_comp _ _ H). rewrite Qfloor_div_Z by lia. reflexivity.
Qed.

Lemma fold_div_smtlib n d : d <> 0 -> fold_div n d = Some (smt_div n d).
Proof.
  intros Hd. unfold fold_div, smt_div, q_floor, q_ceil.
  destruct (Z.eqb_spec d 0); [lia|].
  destruct (Z.eqb_spec d 1) as [->|]; [simpl; now rewrite Z.div_1_r|].
  destruct (Z.eqb_spec d (-1)) as [->|]; [simpl; now rewrite Z.div_1_r|].
  destruct (Z.ltb_spec 0 d); [now rewrite Qfloor_div_Z | now rewrite Qceiling_div_neg by lia].
Qed.

Lemma fold_mod_smtlib n d : d <> 0 -> fold_mod n d = Some (smt_mod n d).
Proof.
  intros Hd. unfold fold_mod, q_floor, q_ceil.
  destruct (Z.eqb_spec d 0); [lia|].
  destruct (smt_divmod_spec n d Hd) as [Hn Hr].
  assert (Hq : (if 0 <? d then Qfloor (real_div n d) else Qceiling (real_div n d)) = smt_div n d).
  { unfold smt_div. destruct (Z.ltb_spec 0 d); [now rewrite Qfloor_div_Z | now rewrite Qceiling_div_neg by lia]. }
  rewrite Hq.
  destruct (Z.eqb_spec d 1) as [->|]; [cbn [orb]; unfold smt_mod; f_equal; change (Z.abs 1) with 1; now rewrite Z.mod_1_r|].
  destruct (Z.eqb_spec d (-1)) as [->|]; [cbn [orb]; unfold smt_mod; f_equal; change (Z.abs (-1)) with 1; now rewrite Z.mod_1_r|].
  cbn [orb]. f_equal. lia.
Qed.

Lemma fold_div_zero n : fold_div n 0 = None /\ fold_mod n 0 = None.
Proof. split; reflexivity. Qed.

Lemma divmod_def_iff n d q r :
  divmod_def n d q r = true <-> (n = d * q + r /\ 0 <= r <= Z.abs d - 1).
Proof.
  unfold divmod_def. rewrite !Bool.andb_true_iff, Z.eqb_eq, !Z.leb_le. tauto.
Qed.

(* ---- the rewriter's cache ------------------------------------------------------------------------------ *)
From Coq Require Import List Bool.
Import ListNotations.

Lemma key_eqb_eq a b : key_eqb a b = true -> a = b.
Proof.
  destruct a, b. unfold key_eqb. cbn. rewrite Bool.andb_true_iff, Nat.eqb_eq, Z.eqb_eq. intros [-> ->]. reflexivity.
Qed.

Lemma cache_find_spec defs k : forall i j, cache_find defs k i = Some j -> (i <= j)%nat /\ nth_error defs (j - i) = Some k.
Proof.
  induction defs as [|d r IH]; intros i j H; cbn in H; [discriminate|].
  destruct (key_eqb d k) eqn:E.
  - injection H as <-. apply key_eqb_eq in E. subst. rewrite Nat.sub_diag. split; [lia | reflexivity].
  - apply IH in H. destruct H as [Hle Hn]. split; [lia|]. replace (j - i)%nat with (S (j - S i)) by lia. exact Hn.
Qed.

Lemma rw_apps_spec apps : forall defs0 defs vs, rw_apps defs0 apps = (defs, vs) ->
  (exists ext, defs = defs0 ++ ext /\ forall k, In k ext -> exists a, In a apps /\ app_key a = k) /\
  Forall2 (fun a v => nth_error defs (fst v) = Some (app_key a) /\ snd v = app_kind a) apps vs.
Proof.
  induction apps as [|[[k n] d] r IH]; intros defs0 defs vs H; cbn in H.
  - injection H as <- <-. split; [exists []; split; [now rewrite app_nil_r | intros ? []] | constructor].
  - destruct (cache_find defs0 (n, d) 0) as [i|] eqn:E.
    + destruct (rw_apps defs0 r) as [defs' vs'] eqn:R. injection H as <- <-.
      destruct (IH _ _ _ R) as ((ext & -> & Hext) & HF). split.
      * exists ext. split; [reflexivity|]. intros k0 Hk. destruct (Hext k0 Hk) as (a & Ha & Hka). exists a. split; [now right | assumption].
      * constructor; [|assumption]. cbn [fst snd app_key app_kind]. split; [|reflexivity].
        apply cache_find_spec in E. destruct E as [_ E]. rewrite Nat.sub_0_r in E. rewrite nth_error_app1; [assumption|].
        apply nth_error_Some. congruence.
    + destruct (rw_apps (defs0 ++ [(n, d)]) r) as [defs' vs'] eqn:R. injection H as <- <-.
      destruct (IH _ _ _ R) as ((ext & -> & Hext) & HF). split.
      * exists ((n, d) :: ext). split; [now rewrite <- app_assoc|]. intros k0 [<-|Hk].
        -- exists (k, n, d). split; [now left | reflexivity].
        -- destruct (Hext k0 Hk) as (a & Ha & Hka). exists a. split; [now right | assumption].
      * constructor; [|assumption]. cbn [fst snd app_key app_kind]. split; [|reflexivity].
        rewrite <- app_assoc. rewrite nth_error_app2 by lia. rewrite Nat.sub_diag. reflexivity.
Qed.

(* Soundness of the elimination with sharing: whenever the definitions hold, every application is replaced
   by a variable whose value is the SMT-LIB value of the application. *)
Lemma rw_apps_sound rho sigma apps defs vs :
  Forall (fun a => snd (app_key a) <> 0) apps -> rw_apps [] apps = (defs, vs) -> defs_hold rho sigma defs ->
  Forall2 (fun a v => aux_val sigma v = app_val rho a) apps vs.
Proof.
  intros Hnz R Hd. destruct (rw_apps_spec apps [] defs vs R) as (_ & HF).
  clear R. induction HF as [|a v apps' vs' [Hn Hk] _ IH]; constructor.
  - destruct a as [[k n] d]. destruct v as [i k']. cbn in Hn, Hk. subst k'.
    inversion Hnz as [|? ? Hd0 _]; subst. cbn in Hd0.
    specialize (Hd i n d Hn). apply divmod_def_iff in Hd.
    assert (Hc : fst (sigma i) = smt_div (rho n) d /\ snd (sigma i) = smt_mod (rho n) d).
    { destruct Hd as [H1 H2]. apply smt_divmod_unique; [assumption | assumption | lia]. }
    unfold aux_val, app_val. cbn [fst snd]. destruct k; tauto.
  - apply IH. now inversion Hnz.
Qed.

(* ... and the definitions are satisfiable: the canonical extension satisfies them (conservativity). *)
Lemma rw_apps_canon rho apps defs vs :
  Forall (fun a => snd (app_key a) <> 0) apps -> rw_apps [] apps = (defs, vs) -> defs_hold rho (canon_sigma rho defs) defs.
Proof.
  intros Hnz R i n d Hn. unfold canon_sigma. rewrite Hn. cbn [fst snd]. apply divmod_def_iff.
  destruct (rw_apps_spec apps [] defs vs R) as ((ext & E & Hext) & _). cbn in E. subst ext.
  assert (Hin : In (n, d) defs) by (eapply nth_error_In; eassumption).
  destruct (Hext _ Hin) as (a & Ha & Hka). rewrite Forall_forall in Hnz. specialize (Hnz a Ha). rewrite Hka in Hnz. cbn in Hnz.
  destruct (smt_divmod_spec (rho n) d Hnz). split; [assumption | lia].
Qed.
