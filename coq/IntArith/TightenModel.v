(* C27 (a): integer bound tightening in LASolver::getBoundsValueForIntVar and its use in
   LASolver::addBound (src/tsolvers/lasolver/LASolver.cc:27-37, 649-658).  Definitions only.

   getBoundsValueForIntVar(c, strict) returns the pair {upper, lower}:
       strict  (v <  c):  upper = ceil(c-1)      lower (of the negation, v >= c) = ceil(c)
       !strict (v <= c):  upper = floor(c)       lower (of the negation, v >  c) = floor(c+1)
   addBound(leq) with leq = (c <= s), s = v or s = -v ("negated"):
       not negated:  values = getBoundsValue(v,  c, strict=true);   pos bound = lower, neg bound = upper
       negated:      values = getBoundsValue(v, -c, strict=false);  pos bound = upper, neg bound = lower *)
From Coq Require Import ZArith QArith Qround.
Local Open Scope Z_scope.

Record bound_pair := { bp_upper : Z; bp_lower : Z }.

Definition bounds_int (c : Q) (strict : bool) : bound_pair :=
  if strict then {| bp_upper := Qceiling (c - 1); bp_lower := Qceiling c |}
  else {| bp_upper := Qfloor c; bp_lower := Qfloor (c + 1) |}.

Inductive bound := UB (z : Z) | LB (z : Z).
Definition bound_holds (b : bound) (v : Z) : Prop :=
  match b with UB z => v <= z | LB z => z <= v end.

(* (bound asserted when the atom is true, bound asserted when the atom is false) *)
Definition add_bound (c : Q) (negated : bool) : bound * bound :=
  if negated then let p := bounds_int (- c) false in (UB (bp_upper p), LB (bp_lower p))
  else let p := bounds_int c true in (LB (bp_lower p), UB (bp_upper p)).

(* meaning of the atom  c <= s  with s = v (negated = false) or s = -v (negated = true) *)
Definition atom_holds (c : Q) (negated : bool) (v : Z) : Prop :=
  (c <= inject_Z (if negated then - v else v))%Q.
