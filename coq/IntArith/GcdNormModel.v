(* C27 (b): lcm / gcd normalisation of integer inequalities and equalities,
   ArithLogic::sumToNormalizedIntPair, sumToNormalizedInequality, sumToNormalizedEquality
   (src/logics/ArithLogic.cc:1196-1320) and the single-factor cases of mkBinaryLeq / mkBinaryEq
   (ArithLogic.cc:693-792).  Definitions only; proofs in GcdNormProofs.v.

   A sum  a1*x1 + ... + an*xn + c  (n >= 1, all ai <> 0) is the list of coefficients [a1..an] (in the
   order of varFactors) and the constant c; the atom built from it is  0 <= sum  resp.  0 = sum.
   FastRational values are canonical: every operation below re-canonicalises with Qred.
   FastRational gcd / lcm are applied to non-negative integers only here (denominators, absolute
   values), where they are the mathematical gcd / lcm (their sign behaviour is property C15). *)
From Coq Require Import ZArith QArith Qround List Bool.
Import ListNotations.
Local Open Scope Z_scope.

Definition q_num (q : Q) : Z := Qnum (Qred q).
Definition q_den (q : Q) : Z := Zpos (Qden (Qred q)).
Definition q_is_int (q : Q) : bool := q_den q =? 1.

(* accumulateLCMofDenominators (ArithLogic.cc:1222-1234) *)
Definition lcm_step (l : Z) (a : Q) : Z :=
  if q_is_int a then l else if l =? 1 then q_den a else Z.lcm l (q_den a).
Definition lcm_dens (cs : list Q) : Z := fold_left lcm_step cs 1.

(* coeffs_gcd loop (ArithLogic.cc:1246-1250), with its early exit at gcd 1 *)
Definition gcd_step (g : Z) (a : Q) : Z := if g =? 1 then g else Z.gcd g (Z.abs (q_num a)).
Definition gcd_coeffs (cs : list Q) : Z :=
  match cs with [] => 1 | a0 :: r => fold_left gcd_step r (Z.abs (q_num a0)) end.

Definition q_mul (a b : Q) : Q := Qred (a * b).
Definition q_div (a b : Q) : Q := Qred (a / b).
Definition q_neg (a : Q) : Q := Qred (- a).

(* sumToNormalizedIntPair: (normalised coefficients, constant moved to the other side) *)
Definition norm_int_pair (cs : list Q) (c : Q) : list Q * Q :=
  let all_int := forallb q_is_int cs in
  let l := inject_Z (lcm_dens cs) in
  let cs1 := if all_int then cs else map (fun a => q_mul a l) cs in
  let c1 := if all_int then c else q_mul c l in
  let g := gcd_coeffs cs1 in
  let cs2 := if g =? 1 then cs1 else map (fun a => q_div a (inject_Z g)) cs1 in
  let c2 := if g =? 1 then c1 else q_div c1 (inject_Z g) in
  (cs2, q_neg c2).

(* sumToNormalizedInequality (Int sort):   ceil(lhs) <= sum' *)
Definition norm_ineq (cs : list Q) (c : Q) : Z * list Q :=
  let (cs', l) := norm_int_pair cs c in (Qceiling l, cs').

(* sumToNormalizedEquality (Int sort): None is the term `false`.  Whether the two sides are negated
   depends on which factor comes first in the hash-consed sum (term ids), so it is a parameter here;
   the theorem holds for both values and the tie checks that the choice made gives a positive
   leading coefficient. *)
Definition norm_eq (flip : bool) (cs : list Q) (c : Q) : option (Q * list Q) :=
  let (cs', l) := norm_int_pair cs c in
  if q_is_int l then Some (if flip then (q_neg l, map q_neg cs') else (l, cs')) else None.

(* mkBinaryLeq / mkBinaryEq on a single factor a*x (no constant):  0 <= a*x  becomes  0 <= x or
   0 <= -x (normalizeMul keeps the sign only);  0 = a*x  becomes  0 = x. *)
Definition norm_single_leq (a : Q) : Z := match Qnum a with Z0 => 0 | Zpos _ => 1 | Zneg _ => -1 end.

(* value of a sum under an integer assignment (xs in the order of the coefficients) *)
Fixpoint eval (cs : list Q) (xs : list Z) : Q :=
  match cs, xs with
  | a :: cs', x :: xs' => (a * inject_Z x + eval cs' xs')%Q
  | _, _ => 0%Q
  end.
