(* C27: constant folding of div / mod in ArithLogic::mkIntDiv / ArithLogic::mkMod
   (src/logics/ArithLogic.cc).  Definitions only; proofs are in DivModProofs.v.

   The code computes, for integer constants n (dividend) and d (divisor, d <> 0):
       realDiv = n / d                                 (exact rational)
       intDiv  = d.sign() > 0 ? realDiv.floor() : realDiv.ceil()
       intMod  = n - intDiv * d
   with the special cases  d = 1 -> div is n, mod is 0;  d = -1 -> div is -n, mod is 0;
   d = 0 -> ArithDivisionByZeroException (modelled as None). *)
From Coq Require Import ZArith QArith Qround.
Local Open Scope Z_scope.

(* floor / ceiling of the exact rational n/d, as FastRational::floor / ceil compute them on the
   canonical form (see Rat/FRModel.v for the machine paths). *)
Definition q_floor (q : Q) : Z := Qfloor q.
Definition q_ceil (q : Q) : Z := Qceiling q.

Definition real_div (n d : Z) : Q := Qmake n 1 / Qmake d 1.

Definition fold_div (n d : Z) : option Z :=
  if d =? 0 then None
  else if d =? 1 then Some n
  else if d =? -1 then Some (- n)
  else Some (if 0 <? d then q_floor (real_div n d) else q_ceil (real_div n d)).

Definition fold_mod (n d : Z) : option Z :=
  if d =? 0 then None
  else if (d =? 1) || (d =? -1) then Some 0
  else let q := if 0 <? d then q_floor (real_div n d) else q_ceil (real_div n d) in
       Some (n - q * d).

(* SMT-LIB (Ints theory) semantics: for d <> 0, the unique q, r with n = d*q + r, 0 <= r < |d|. *)
Definition smt_div (n d : Z) : Z := if 0 <? d then n / d else - (n / - d).
Definition smt_mod (n d : Z) : Z := n mod (Z.abs d).

(* C27 (d): the definitions DivModConfig::rewrite introduces for (div n d) / (mod n d) with fresh
   variables q, r (src/rewriters/DivModRewriter.h:43-50):
       n = d * q + r   /\   0 <= r   /\   r <= |d| - 1                                       *)
Definition divmod_def (n d q r : Z) : bool :=
  (n =? d * q + r) && (0 <=? r) && (r <=? Z.abs d - 1).

(* C27 (d'): the cache of DivModConfig::rewrite (src/rewriters/DivModRewriter.h:30-36, 95-96): one pair of
   auxiliary variables (.div, .mod) and one set of definitions per distinct (dividend, divisor); a later
   application with the SAME dividend and the SAME divisor reuses the pair.  Applications are listed in the
   order rewrite() is called; dividends are abstract terms numbered 0,1,...; the result gives, per
   application, the index of its pair (in order of creation) and which component replaces it. *)
From Coq Require Import List Bool.
Import ListNotations.
Inductive dm_kind := KDiv | KMod.
Definition dm_app := (dm_kind * nat * Z)%type.
Definition key_eqb (a b : nat * Z) : bool := Nat.eqb (fst a) (fst b) && Z.eqb (snd a) (snd b).
Fixpoint cache_find (defs : list (nat * Z)) (k : nat * Z) (i : nat) : option nat :=
  match defs with
  | [] => None
  | d :: r => if key_eqb d k then Some i else cache_find r k (S i)
  end.
Fixpoint rw_apps (defs : list (nat * Z)) (apps : list dm_app) : list (nat * Z) * list (nat * dm_kind) :=
  match apps with
  | [] => (defs, [])
  | (k, n, d) :: r =>
    match cache_find defs (n, d) 0 with
    | Some i => let (defs', vs) := rw_apps defs r in (defs', (i, k) :: vs)
    | None => let (defs', vs) := rw_apps (defs ++ [(n, d)]) r in (defs', (length defs, k) :: vs)
    end
  end.
Definition app_key (a : dm_app) : nat * Z := let '(_, n, d) := a in (n, d).
Definition app_kind (a : dm_app) : dm_kind := let '(k, _, _) := a in k.
(* values: rho gives the dividends, sigma the auxiliary pairs *)
Definition app_val (rho : nat -> Z) (a : dm_app) : Z :=
  let '(k, n, d) := a in match k with KDiv => smt_div (rho n) d | KMod => smt_mod (rho n) d end.
Definition aux_val (sigma : nat -> Z * Z) (v : nat * dm_kind) : Z :=
  match snd v with KDiv => fst (sigma (fst v)) | KMod => snd (sigma (fst v)) end.
Definition defs_hold (rho : nat -> Z) (sigma : nat -> Z * Z) (defs : list (nat * Z)) : Prop :=
  forall i n d, nth_error defs i = Some (n, d) -> divmod_def (rho n) d (fst (sigma i)) (snd (sigma i)) = true.
(* evaluation of the rewritten conjunction  /\ (= t_i aux_i)  /\ definitions, with t_i := value of application i *)
Definition rewritten_holds (rho : nat -> Z) (sigma : nat -> Z * Z) (apps : list dm_app) : bool :=
  let (defs, vs) := rw_apps [] apps in
  forallb (fun p => Z.eqb (app_val rho (fst p)) (aux_val sigma (snd p))) (combine apps vs) &&
  forallb (fun p => divmod_def (rho (fst (snd p))) (snd (snd p)) (fst (sigma (fst p))) (snd (sigma (fst p))))
          (combine (seq 0 (length defs)) defs).
(* the canonical extension: pair i gets the Euclidean quotient and remainder of its definition *)
Definition canon_sigma (rho : nat -> Z) (defs : list (nat * Z)) (i : nat) : Z * Z :=
  match nth_error defs i with Some (n, d) => (smt_div (rho n) d, smt_mod (rho n) d) | None => (0, 0) end.
