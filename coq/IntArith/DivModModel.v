(* C27: constant folding of div / mod in ArithLogic::mkIntDiv / ArithLogic::mkMod
   (src/logics/ArithLogic.cc).  Definitions only; proofs are in DivModProofs.v.

   The code computes, for integer constants n (dividend) and d (divisor, d <> 0):
       realDiv = n / d                                 (exact rational)
       intDiv  = d.sign() > 0 ? realDiv.floor() : realDiv.ceil()
       intMod  = n - intDiv * d
   with the special cases  d = 1 -> div is n, mod is 0;  d = -1 -> div is -n, mod is 0;
   d = 0 -> ArithDivisionByZeroException (modelled as None). *)
From Coq Require Import ZArith QArith Qround.
Local Open Scope Z_scope.

(* floor / ceiling of the exact rational n/d, as FastRational::floor / ceil compute them on the
   canonical form (see Rat/FRModel.v for the machine paths). *)
Definition q_floor (q : Q) : Z := Qfloor q.
Definition q_ceil (q : Q) : Z := Qceiling q.

Definition real_div (n d : Z) : Q := Qmake n 1 / Qmake d 1.

Definition fold_div (n d : Z) : option Z :=
  if d =? 0 then None
  else if d =? 1 then Some n
  else if d =? -1 then Some (- n)
  else Some (if 0 <? d then q_floor (real_div n d) else q_ceil (real_div n d)).

Definition fold_mod (n d : Z) : option Z :=
  if d =? 0 then None
  else if (d =? 1) || (d =? -1) then Some 0
  else let q := if 0 <? d then q_floor (real_div n d) else q_ceil (real_div n d) in
       Some (n - q * d).

(* SMT-LIB (Ints theory) semantics: for d <> 0, the unique q, r with n = d*q + r, 0 <= r < |d|. *)
Definition smt_div (n d : Z) : Z := if 0 <? d then n / d else - (n / - d).
Definition smt_mod (n d : Z) : Z := n mod (Z.abs d).

(* C27 (d): the definitions DivModConfig::rewrite introduces for (div n d) / (mod n d) with fresh
   variables q, r (src/rewriters/DivModRewriter.h:43-50):
       n = d * q + r   /\   0 <= r   /\   r <= |d| - 1                                       *)
Definition divmod_def (n d q r : Z) : bool :=
  (n =? d * q + r) && (0 <=? r) && (r <=? Z.abs d - 1).
