From Coq Require Import ZArith QArith Qround List Bool Lia Lqa Morphisms.
From OsmtV.IntArith Require Import TightenProofs GcdNormModel.
Import ListNotations.
Local Open Scope Z_scope.

(* ---- canonical form facts -------------------------------------------------------------- *)
Lemma Qred_inject_Z z : Qred (inject_Z z) = inject_Z z.
Proof.
  unfold Qred, inject_Z.
  generalize (Z.ggcd_gcd z 1) (Z.ggcd_correct_divisors z 1).
  destruct (Z.ggcd z 1) as (g, (a, b)). cbn [fst snd]. intros Hg [Ha Hb].
  rewrite Z.gcd_1_r in Hg. subst g. rewrite Z.mul_1_l in Ha, Hb. subst a b. reflexivity.
Qed.

Lemma q_of_int q z : (q == inject_Z z)%Q -> q_num q = z /\ q_den q = 1 /\ q_is_int q = true.
Proof.
  intros H. unfold q_is_int, q_num, q_den. rewrite (Qred_complete _ _ H), Qred_inject_Z. cbn. auto.
Qed.

Lemma q_int_is q : q_is_int q = true -> (q == inject_Z (q_num q))%Q.
Proof.
  unfold q_is_int, q_den, q_num. intros H. apply Z.eqb_eq in H.
  rewrite <- (Qred_correct q) at 1. destruct (Qred q) as [n d]. cbn in *.
  injection H as ->. reflexivity.
Qed.

Lemma q_num_den q : (q == q_num q # Z.to_pos (q_den q))%Q.
Proof. unfold q_num, q_den. rewrite <- (Qred_correct q) at 1. destruct (Qred q); reflexivity. Qed.

Lemma q_den_pos q : 0 < q_den q. Proof. unfold q_den. lia. Qed.

Lemma q_num_nonzero q : ~ (q == 0)%Q -> q_num q <> 0.
Proof.
  intros H E. apply H. rewrite (q_num_den q), E. reflexivity.
Qed.

(* a * l is an integer whenever den(a) | l *)
Lemma scale_int a l : (q_den a | l) -> exists z, (a * inject_Z l == inject_Z z)%Q /\ (q_num a | z).
Proof.
  intros [k Hk]. exists (q_num a * k). split; [| exists k; ring].
  rewrite (q_num_den a) at 1. subst l. unfold Qeq, Qmult, inject_Z. cbn.
  rewrite Pos.mul_1_r. fold (q_den a). ring.
Qed.

Lemma div_int z g : 0 < g -> (g | z) -> (inject_Z z / inject_Z g == inject_Z (z / g))%Q.
Proof.
  intros Hg [k ->]. rewrite Z.div_mul by lia.
  rewrite inject_Z_mult. field. intros E. 
  assert (H : inject_Z g == inject_Z 0) by exact E. rewrite inject_Z_injective in H. lia.
Qed.

(* ---- the lcm loop ---------------------------------------------------------------------- *)
Lemma lcm_step_spec l a : 0 < l -> 0 < lcm_step l a /\ (l | lcm_step l a) /\ (q_den a | lcm_step l a).
Proof.
  intros Hl. unfold lcm_step. pose proof (q_den_pos a) as Hd.
  destruct (q_is_int a) eqn:Hi.
  - unfold q_is_int in Hi. apply Z.eqb_eq in Hi. rewrite Hi.
    (split; [|split]); [assumption | apply Z.divide_refl | apply Z.divide_1_l].
  - destruct (Z.eqb_spec l 1) as [->|_].
    + (split; [|split]); [assumption | apply Z.divide_1_l | apply Z.divide_refl].
    + (split; [|split]); [| apply Z.divide_lcm_l | apply Z.divide_lcm_r].
      pose proof (Z.lcm_nonneg l (q_den a)).
      assert (Z.lcm l (q_den a) <> 0) by (rewrite Z.lcm_eq_0; lia). lia.
Qed.

Lemma lcm_fold_spec cs : forall l, 0 < l ->
  0 < fold_left lcm_step cs l /\ (l | fold_left lcm_step cs l) /\
  Forall (fun a => (q_den a | fold_left lcm_step cs l)) cs.
Proof.
  induction cs as [|a cs IH]; intros l Hl; cbn [fold_left].
  - (split; [|split]); [assumption | apply Z.divide_refl | constructor].
  - destruct (lcm_step_spec l a Hl) as (H1 & H2 & H3).
    destruct (IH _ H1) as (I1 & I2 & I3).
    (split; [|split]); [assumption | eapply Z.divide_trans; eassumption |].
    constructor; [eapply Z.divide_trans; eassumption | assumption].
Qed.

Lemma lcm_dens_spec cs : 0 < lcm_dens cs /\ Forall (fun a => (q_den a | lcm_dens cs)) cs.
Proof. destruct (lcm_fold_spec cs 1 ltac:(lia)) as (H1 & _ & H3). split; assumption. Qed.

(* ---- the gcd loop ---------------------------------------------------------------------- *)
Lemma gcd_step_spec g a : 0 < g -> 0 < gcd_step g a /\ (gcd_step g a | g) /\ (gcd_step g a | q_num a).
Proof.
  intros Hg. unfold gcd_step. destruct (Z.eqb_spec g 1) as [->|_].
  - (split; [|split]); [lia | apply Z.divide_refl | apply Z.divide_1_l].
  - (split; [|split]); [| apply Z.gcd_divide_l |].
    + pose proof (Z.gcd_nonneg g (Z.abs (q_num a))).
      assert (Z.gcd g (Z.abs (q_num a)) <> 0) by (intros E; apply Z.gcd_eq_0_l in E; lia). lia.
    + apply Z.divide_abs_r. apply Z.gcd_divide_r.
Qed.

Lemma gcd_fold_spec cs : forall g, 0 < g ->
  0 < fold_left gcd_step cs g /\ (fold_left gcd_step cs g | g) /\
  Forall (fun a => (fold_left gcd_step cs g | q_num a)) cs.
Proof.
  induction cs as [|a cs IH]; intros g Hg; cbn [fold_left].
  - (split; [|split]); [assumption | apply Z.divide_refl | constructor].
  - destruct (gcd_step_spec g a Hg) as (H1 & H2 & H3).
    destruct (IH _ H1) as (I1 & I2 & I3).
    (split; [|split]); [assumption | eapply Z.divide_trans; eassumption |].
    constructor; [eapply Z.divide_trans; eassumption | assumption].
Qed.

Lemma gcd_coeffs_spec cs : cs <> [] -> Forall (fun a => q_num a <> 0) cs ->
  0 < gcd_coeffs cs /\ Forall (fun a => (gcd_coeffs cs | q_num a)) cs.
Proof.
  destruct cs as [|a0 r]; [congruence|]. intros _ Hnz. inversion Hnz as [|? ? H0 Hr]; subst.
  unfold gcd_coeffs. destruct (gcd_fold_spec r (Z.abs (q_num a0)) ltac:(lia)) as (H1 & H2 & H3).
  split; [assumption|]. constructor; [| assumption]. apply Z.divide_abs_r. exact H2.
Qed.

(* ---- specification of sumToNormalizedIntPair ------------------------------------------------ *)
(* there is one positive multiplier m with  cs' = m * cs (all integers),  l = -(m * c) *)
Definition scaled (m : Q) (cs cs' : list Q) : Prop := Forall2 (fun a a' => (a' == a * m)%Q) cs cs'.

Lemma scaled_map m cs f : (forall a, (f a == a * m)%Q) -> scaled m cs (map f cs).
Proof. intros H. induction cs; cbn; constructor; auto. Qed.

Lemma scaled_refl cs : scaled 1 cs cs.
Proof. induction cs; constructor; [ring | assumption]. Qed.

Lemma scaled_trans m1 m2 cs cs1 cs2 : scaled m1 cs cs1 -> scaled m2 cs1 cs2 -> scaled (m1 * m2) cs cs2.
Proof.
  intros H. revert cs2. induction H as [|a a1 cs cs1 Ha _ IH]; intros cs2 H2; inversion H2; subst; constructor.
  - match goal with E : (_ == a1 * m2)%Q |- _ => rewrite E end. rewrite Ha. ring.
  - apply IH. assumption.
Qed.

Lemma forallb_int_Forall cs : forallb q_is_int cs = true -> Forall (fun a => q_is_int a = true) cs.
Proof. rewrite forallb_forall, Forall_forall. auto. Qed.

Lemma inject_Z_pos z : 0 < z -> (0 < inject_Z z)%Q.
Proof. intros. change 0%Q with (inject_Z 0). now rewrite <- Zlt_Qlt. Qed.

Lemma inject_Z_nonzero z : z <> 0 -> ~ (inject_Z z == 0)%Q.
Proof. intros H E. change 0%Q with (inject_Z 0) in E. rewrite inject_Z_injective in E. lia. Qed.

Lemma norm_int_pair_spec cs c : cs <> [] -> Forall (fun a => ~ (a == 0)%Q) cs ->
  let (cs', l) := norm_int_pair cs c in
  exists m, (0 < m)%Q /\ scaled m cs cs' /\ (l == - (c * m))%Q /\
            Forall (fun a => q_is_int a = true) cs' /\ Forall (fun a => ~ (a == 0)%Q) cs'.
Proof.
  intros Hne Hnz. unfold norm_int_pair.
  set (L := lcm_dens cs). destruct (lcm_dens_spec cs) as [HL HLd]. fold L in HL, HLd.
  (* step 1 *)
  set (cs1 := if forallb q_is_int cs then cs else map (fun a => q_mul a (inject_Z L)) cs).
  set (c1 := if forallb q_is_int cs then c else q_mul c (inject_Z L)).
  assert (S1 : exists m1, (0 < m1)%Q /\ scaled m1 cs cs1 /\ (c1 == c * m1)%Q /\
                          Forall (fun a => q_is_int a = true) cs1).
  { subst cs1 c1. destruct (forallb q_is_int cs) eqn:Hall.
    - exists 1%Q. (split; [|split; [|split]]); [reflexivity | apply scaled_refl | ring | now apply forallb_int_Forall].
    - exists (inject_Z L). (split; [|split; [|split]]); [now apply inject_Z_pos | | apply Qred_correct |].
      + apply scaled_map. intros a. apply Qred_correct.
      + rewrite Forall_map. rewrite Forall_forall in HLd |- *. intros a Ha.
        destruct (scale_int a L (HLd a Ha)) as (z & Hz & _).
        unfold q_mul. apply (q_of_int _ z). rewrite Qred_correct. exact Hz. }
  destruct S1 as (m1 & Hm1 & Hs1 & Hc1 & Hi1).
  assert (Hne1 : cs1 <> []).
  { intros E. rewrite E in Hs1. inversion Hs1. congruence. }
  assert (Hnz1 : Forall (fun a => ~ (a == 0)%Q) cs1).
  { clear - Hs1 Hnz Hm1. induction Hs1 as [|a a1 ? ? Ha _ IH]; constructor; inversion Hnz; subst; auto.
    intros E. rewrite Ha in E. apply Qmult_integral in E. destruct E as [E|E]; [auto | rewrite E in Hm1; now apply Qlt_irrefl in Hm1]. }
  (* step 2 *)
  set (g := gcd_coeffs cs1).
  destruct (gcd_coeffs_spec cs1 Hne1) as [Hg Hgd].
  { eapply Forall_impl; [| exact Hnz1]. intros a. apply q_num_nonzero. }
  fold g in Hg, Hgd.
  destruct (Z.eqb_spec g 1) as [Eg|Ng].
  - exists m1. split; [assumption|]. split; [assumption|]. split; [|split; assumption]. unfold q_neg. rewrite Qred_correct, Hc1. reflexivity.
  - exists (m1 * / inject_Z g)%Q. split; [|split; [|split; [|split]]].
    + apply Qmult_lt_0_compat; [assumption | apply Qinv_lt_0_compat; now apply inject_Z_pos].
    + eapply scaled_trans; [exact Hs1|]. apply scaled_map. intros a. unfold q_div. apply Qred_correct.
    + unfold q_neg, q_div. rewrite !Qred_correct, Hc1. unfold Qdiv. ring.
    + rewrite Forall_map. rewrite Forall_forall in Hgd, Hi1 |- *. intros a Ha.
      unfold q_div. apply (q_of_int _ (q_num a / g)). rewrite Qred_correct.
      rewrite (q_int_is a (Hi1 a Ha)) at 1. apply div_int; auto.
    + rewrite Forall_map. rewrite Forall_forall in Hnz1 |- *. intros a Ha E.
      unfold q_div in E. rewrite Qred_correct in E. unfold Qdiv in E. apply Qmult_integral in E.
      destruct E as [E|E]; [exact (Hnz1 a Ha E)|].
      apply (inject_Z_nonzero g ltac:(lia)). rewrite <- (Qinv_involutive (inject_Z g)), E. reflexivity.
Qed.

(* ---- evaluation -------------------------------------------------------------------------- *)
Lemma eval_scaled m cs cs' : scaled m cs cs' -> forall xs, (eval cs' xs == m * eval cs xs)%Q.
Proof.
  induction 1 as [|a a' cs cs' Ha _ IH]; intros xs; cbn [eval].
  - ring.
  - destruct xs as [|x xs]; [ring|]. rewrite IH, Ha. ring.
Qed.

Lemma eval_int cs : Forall (fun a => q_is_int a = true) cs -> forall xs, exists T, (eval cs xs == inject_Z T)%Q.
Proof.
  induction 1 as [|a cs Ha _ IH]; intros xs; cbn [eval].
  - exists 0. reflexivity.
  - destruct xs as [|x xs]; [exists 0; reflexivity|].
    destruct (IH xs) as [T HT]. exists (q_num a * x + T).
    rewrite HT, (q_int_is a Ha) at 1. rewrite inject_Z_plus, inject_Z_mult. reflexivity.
Qed.

(* ---- the theorems ------------------------------------------------------------------------ *)
Lemma gcd_norm_ineq_equiv cs c xs : cs <> [] -> Forall (fun a => ~ (a == 0)%Q) cs ->
  let (k, cs') := norm_ineq cs c in
  ((0 <= eval cs xs + c)%Q <-> (inject_Z k <= eval cs' xs)%Q) /\ Forall (fun a => q_is_int a = true) cs'.
Proof.
  intros Hne Hnz. unfold norm_ineq. pose proof (norm_int_pair_spec cs c Hne Hnz) as H.
  destruct (norm_int_pair cs c) as [cs' l]. destruct H as (m & Hm & Hs & Hl & Hi & _).
  split; [| exact Hi].
  destruct (eval_int cs' Hi xs) as [T HT]. rewrite HT. rewrite <- Zle_Qle, <- ceil_le_iff.
  rewrite <- HT, (eval_scaled _ _ _ Hs), Hl.
  split; intros H.
  - assert (0 <= m * (eval cs xs + c))%Q by (apply Qmult_le_0_compat; [apply Qlt_le_weak|]; assumption). lra.
  - assert (H' : (0 <= m * (eval cs xs + c))%Q) by lra.
    destruct (Qlt_le_dec (eval cs xs + c) 0) as [Hlt|]; [|assumption]. exfalso.
    assert (m * (eval cs xs + c) < 0)%Q.
    { rewrite Qmult_comm. setoid_replace 0%Q with (0 * m)%Q by ring. apply Qmult_lt_compat_r; assumption. }
    lra.
Qed.

Lemma Qopp_eq_iff a b : (a == b <-> - a == - b)%Q.
Proof. split; intros H; lra. Qed.

Lemma eval_map_neg cs xs : (eval (map q_neg cs) xs == - eval cs xs)%Q.
Proof.
  revert xs. induction cs as [|a cs IH]; intros xs; cbn [map eval]; [ring|].
  destruct xs as [|x xs]; [ring|]. rewrite IH. unfold q_neg. rewrite Qred_correct. ring.
Qed.

Lemma gcd_norm_eq_equiv flip cs c xs : cs <> [] -> Forall (fun a => ~ (a == 0)%Q) cs ->
  match norm_eq flip cs c with
  | Some (l, cs') => ((0 == eval cs xs + c)%Q <-> (l == eval cs' xs)%Q) /\ Forall (fun a => q_is_int a = true) cs'
  | None => ~ (0 == eval cs xs + c)%Q
  end.
Proof.
  intros Hne Hnz. unfold norm_eq. pose proof (norm_int_pair_spec cs c Hne Hnz) as H.
  destruct (norm_int_pair cs c) as [cs' l]. destruct H as (m & Hm & Hs & Hl & Hi & _).
  assert (Hequiv : (0 == eval cs xs + c)%Q <-> (l == eval cs' xs)%Q).
  { rewrite (eval_scaled _ _ _ Hs), Hl. split; intros H.
    - assert (E : (eval cs xs == - c)%Q) by lra. rewrite E. ring.
    - assert (E : (m * (eval cs xs + c) == 0)%Q) by lra. apply Qmult_integral in E.
      destruct E as [E|E]; [rewrite E in Hm; now apply Qlt_irrefl in Hm | now rewrite E]. }
  destruct (q_is_int l) eqn:Hli.
  - destruct flip.
    + split.
      * rewrite Hequiv, eval_map_neg. unfold q_neg. rewrite Qred_correct. apply Qopp_eq_iff.
      * rewrite Forall_map. eapply Forall_impl; [| exact Hi]. intros a Ha.
        unfold q_neg. apply (q_of_int _ (- q_num a)). rewrite Qred_correct, (q_int_is a Ha) at 1.
        rewrite inject_Z_opp. reflexivity.
    + split; assumption.
  - rewrite Hequiv. intros E. destruct (eval_int cs' Hi xs) as [T HT]. rewrite HT in E.
    destruct (q_of_int _ _ E) as (_ & _ & Hint). congruence.
Qed.

(* single factor:  0 <= a*x  <->  0 <= sign(a)*x *)
Lemma norm_single_leq_equiv (a : Q) (x : Z) :
  (0 <= a * inject_Z x)%Q <-> 0 <= norm_single_leq a * x.
Proof.
  unfold norm_single_leq, Qle, Qmult, inject_Z. destruct a as [n d]. cbn. destruct n; nia.
Qed.
