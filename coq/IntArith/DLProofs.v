From Coq Require Import ZArith Bool Lia.
From OsmtV.IntArith Require Import DLModel.
Local Open Scope Z_scope.

Lemma in_range_iff z : in_range z = true <-> PMIN <= z <= PMAX.
Proof. unfold in_range. rewrite andb_true_iff, !Z.leb_le. tauto. Qed.

Lemma safe_add_spec a b : in_range a = true -> in_range b = true ->
  match safe_add a b with
  | Some r => r = a + b /\ in_range r = true
  | None => in_range (a + b) = false
  end.
Proof.
  rewrite !in_range_iff. unfold safe_add, PMIN, PMAX in *. intros Ha Hb.
  destruct (((0 <? a) && (2 ^ 63 - 1 - a <? b)) || ((a <? 0) && (b <? - 2 ^ 63 - a))) eqn:E.
  - apply orb_true_iff in E. rewrite !andb_true_iff, !Z.ltb_lt in E.
    apply not_true_is_false. rewrite in_range_iff. unfold PMIN, PMAX. lia.
  - apply orb_false_iff in E. rewrite !andb_false_iff, !Z.ltb_ge in E.
    split; [reflexivity|]. rewrite in_range_iff. unfold PMIN, PMAX. lia.
Qed.

(* the guards themselves never overflow *)
Lemma safe_add_guard_no_overflow a b : in_range a = true -> in_range b = true ->
  (0 < a -> in_range (PMAX - a) = true) /\ (a < 0 -> in_range (PMIN - a) = true).
Proof. rewrite !in_range_iff. unfold PMIN, PMAX. lia. Qed.

Lemma safe_sub_spec a b : in_range a = true -> in_range b = true ->
  match safe_sub a b with
  | Some r => r = a - b /\ in_range r = true
  | None => in_range (a - b) = false
  end.
Proof.
  rewrite !in_range_iff. unfold safe_sub, PMIN, PMAX in *. intros Ha Hb.
  destruct (((0 <? b) && (a <? - 2 ^ 63 + b)) || ((b <? 0) && (2 ^ 63 - 1 + b <? a))) eqn:E.
  - apply orb_true_iff in E. rewrite !andb_true_iff, !Z.ltb_lt in E.
    apply not_true_is_false. rewrite in_range_iff. unfold PMIN, PMAX. lia.
  - apply orb_false_iff in E. rewrite !andb_false_iff, !Z.ltb_ge in E.
    split; [reflexivity|]. rewrite in_range_iff. unfold PMIN, PMAX. lia.
Qed.

Lemma safe_sub_guard_no_overflow a b : in_range a = true -> in_range b = true ->
  (0 < b -> in_range (PMIN + b) = true) /\ (b < 0 -> in_range (PMAX + b) = true).
Proof. rewrite !in_range_iff. unfold PMIN, PMAX. lia. Qed.

(* negation of an integer difference constraint *)
Lemma dl_negate_math (x y c : Z) : ~ (x - y <= c) <-> y - x <= - (c + 1).
Proof. lia. Qed.

Lemma dl_negate_spec c : in_range c = true ->
  match dl_negate c with
  | Some c' => c' = - (c + 1) /\ in_range (c + 1) = true /\ in_range c' = true
  | None => c = PMAX
  end.
Proof.
  rewrite in_range_iff. unfold dl_negate. intros Hc. destruct (Z.eqb_spec c PMAX); [assumption|].
  rewrite !in_range_iff. unfold PMIN, PMAX in *. lia.
Qed.

Lemma dl_negate_int (x y c : Z) : in_range c = true -> c <> PMAX ->
  exists c', dl_negate c = Some c' /\ in_range c' = true /\ (~ (x - y <= c) <-> y - x <= c').
Proof.
  intros Hc Hne. pose proof (dl_negate_spec c Hc) as H. unfold dl_negate in *.
  destruct (Z.eqb_spec c PMAX); [contradiction|]. destruct H as (_ & _ & H).
  eexists; split; [reflexivity|]. split; [assumption | apply dl_negate_math].
Qed.

(* conversion through double *)
Lemma trunc53_small z : Z.abs z <= 2 ^ 53 -> trunc53 z = z.
Proof.
  intros H. unfold trunc53.
  destruct (Z.eq_dec (Z.abs z) 0) as [E|NE].
  - rewrite E. cbn. lia.
  - assert (Hpos : 0 < Z.abs z) by lia.
    destruct (Z.ltb_spec (Z.log2 (Z.abs z)) 53) as [_|Hk]; [lia|].
    assert (Hge : 2 ^ 53 <= Z.abs z).
    { destruct (Z_lt_le_dec (Z.abs z) (2 ^ 53)) as [Hlt|]; [|assumption].
      apply Z.log2_lt_pow2 in Hlt; lia. }
    assert (E : Z.abs z = 2 ^ 53) by lia. rewrite E.
    replace (Z.log2 (2 ^ 53)) with 53 by (symmetry; apply Z.log2_pow2; lia).
    change ((2 ^ 53 / 2 ^ (53 - 52)) * 2 ^ (53 - 52)) with (2 ^ 53). lia.
Qed.

Lemma dl_conv_exact_small z : Z.abs z <= 2 ^ 53 -> dl_conv z = Some z.
Proof.
  intros H. unfold dl_conv. rewrite (trunc53_small z H).
  assert (2 ^ 53 < 2 ^ 63) by (apply Z.pow_lt_mono_r; lia).
  unfold PMIN. destruct (Z.leb_spec (- 2 ^ 63) z), (Z.ltb_spec z (2 ^ 63)); try reflexivity; lia.
Qed.

Lemma dl_conv_inexact : exists z, in_range z = true /\ exists z', dl_conv z = Some z' /\ z' <> z.
Proof. exists (2 ^ 53 + 1). split; [reflexivity|]. exists (2 ^ 53). split; [vm_compute; reflexivity | discriminate]. Qed.

(* the unsoundness of #4: two constraints that are jointly unsatisfiable over the integers become
   satisfiable after their constants went through dl_conv *)
Lemma dl_conv_unsound : exists k1 k2 x y,
  (forall x y : Z, ~ (x - y <= k1 /\ y - x <= k2)) /\
  exists d1 d2, dl_conv k1 = Some d1 /\ dl_conv k2 = Some d2 /\ x - y <= d1 /\ y - x <= d2.
Proof.
  exists (2 ^ 53), (- (2 ^ 53 + 1)), (2 ^ 53), 0. split; [intros; lia|].
  exists (2 ^ 53), (- 2 ^ 53). repeat split; vm_compute; congruence.
Qed.

Lemma dl_conv_fixed_exact z : match dl_conv_fixed z with Some d => d = z /\ in_range d = true | None => in_range z = false end.
Proof. unfold dl_conv_fixed. destruct (in_range z) eqn:E; auto. Qed.
