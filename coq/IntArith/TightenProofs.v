From Coq Require Import ZArith QArith Qround Lia Lqa.
From OsmtV.IntArith Require Import TightenModel.
Local Open Scope Z_scope.

Lemma floor_le_iff (v : Z) (c : Q) : (inject_Z v <= c)%Q <-> v <= Qfloor c.
Proof.
  split; intros H.
  - rewrite <- (Qfloor_Z v). now apply Qfloor_resp_le.
  - apply Qle_trans with (inject_Z (Qfloor c)); [now rewrite <- Zle_Qle | apply Qfloor_le].
Qed.

Lemma ceil_le_iff (v : Z) (c : Q) : (c <= inject_Z v)%Q <-> Qceiling c <= v.
Proof.
  split; intros H.
  - rewrite <- (Qceiling_Z v). now apply Qceiling_resp_le.
  - apply Qle_trans with (inject_Z (Qceiling c)); [apply Qle_ceiling | now rewrite <- Zle_Qle].
Qed.

Lemma lt_floor_iff (v : Z) (c : Q) : (c < inject_Z v)%Q <-> Qfloor c < v.
Proof.
  split; intros H.
  - destruct (Z_lt_le_dec (Qfloor c) v) as [|Hc]; [assumption|].
    apply floor_le_iff in Hc. exfalso. exact (Qlt_not_le _ _ H Hc).
  - apply Qnot_le_lt. intros Hc. apply floor_le_iff in Hc. lia.
Qed.

Lemma lt_ceil_iff (v : Z) (c : Q) : (inject_Z v < c)%Q <-> v < Qceiling c.
Proof.
  split; intros H.
  - destruct (Z_lt_le_dec v (Qceiling c)) as [|Hc]; [assumption|].
    apply ceil_le_iff in Hc. exfalso. exact (Qlt_not_le _ _ H Hc).
  - apply Qnot_le_lt. intros Hc. apply ceil_le_iff in Hc. lia.
Qed.

Lemma inject_Z_pred v : (inject_Z (v + 1) == inject_Z v + 1)%Q.
Proof. rewrite inject_Z_plus. reflexivity. Qed.

Lemma Qceiling_minus_1 c : Qceiling (c - 1) = Qceiling c - 1.
Proof.
  apply Z.le_antisymm.
  - apply ceil_le_iff. assert (H : (c <= inject_Z (Qceiling c))%Q) by apply Qle_ceiling.
    replace (Qceiling c) with ((Qceiling c - 1) + 1) in H by lia.
    rewrite inject_Z_pred in H. lra.
  - enough (Qceiling c <= Qceiling (c - 1) + 1) by lia.
    apply ceil_le_iff. rewrite inject_Z_pred.
    assert (H : (c - 1 <= inject_Z (Qceiling (c - 1)))%Q) by apply Qle_ceiling. lra.
Qed.

Lemma Qfloor_plus_1 c : Qfloor (c + 1) = Qfloor c + 1.
Proof.
  apply Z.le_antisymm.
  - enough (Qfloor (c + 1) - 1 <= Qfloor c) by lia.
    apply floor_le_iff.
    assert (H : (inject_Z (Qfloor (c + 1)) <= c + 1)%Q) by apply Qfloor_le.
    replace (Qfloor (c + 1)) with ((Qfloor (c + 1) - 1) + 1) in H at 1 by lia.
    rewrite inject_Z_pred in H. lra.
  - apply floor_le_iff. rewrite inject_Z_pred. pose proof (Qfloor_le c). lra.
Qed.

Ltac red_bounds := unfold bounds_int; cbv beta iota; cbn [bp_lower bp_upper].

(* v < c  <->  v <= upper ;  not (v < c)  <->  lower <= v *)
Lemma tighten_strict_ub (v : Z) (c : Q) : (inject_Z v < c)%Q <-> v <= bp_upper (bounds_int c true).
Proof. red_bounds. rewrite Qceiling_minus_1, lt_ceil_iff. lia. Qed.
Lemma tighten_strict_lb (v : Z) (c : Q) : ~ (inject_Z v < c)%Q <-> bp_lower (bounds_int c true) <= v.
Proof. red_bounds. rewrite lt_ceil_iff. lia. Qed.
(* v <= c  <->  v <= upper ;  not (v <= c)  <->  lower <= v *)
Lemma tighten_nonstrict_ub (v : Z) (c : Q) : (inject_Z v <= c)%Q <-> v <= bp_upper (bounds_int c false).
Proof. red_bounds. apply floor_le_iff. Qed.
Lemma tighten_nonstrict_lb (v : Z) (c : Q) : ~ (inject_Z v <= c)%Q <-> bp_lower (bounds_int c false) <= v.
Proof. red_bounds. rewrite Qfloor_plus_1, floor_le_iff. lia. Qed.

(* the two bounds of one atom are complementary and adjacent: no integer is lost or shared *)
Lemma tighten_adjacent c s : bp_lower (bounds_int c s) = bp_upper (bounds_int c s) + 1.
Proof. destruct s; red_bounds; [rewrite Qceiling_minus_1 | rewrite Qfloor_plus_1]; lia. Qed.


Lemma add_bound_pos c negated v : atom_holds c negated v <-> bound_holds (fst (add_bound c negated)) v.
Proof.
  unfold atom_holds, add_bound. destruct negated; cbn [fst bound_holds].
  - rewrite <- tighten_nonstrict_ub. rewrite inject_Z_opp. split; intros H.
    + apply Qopp_le_compat in H. now rewrite Qopp_opp in H.
    + apply Qopp_le_compat in H. now rewrite Qopp_opp in H.
  - red_bounds. apply ceil_le_iff.
Qed.

Lemma add_bound_neg c negated v : ~ atom_holds c negated v <-> bound_holds (snd (add_bound c negated)) v.
Proof.
  unfold atom_holds, add_bound. destruct negated; cbn [snd bound_holds].
  - rewrite <- tighten_nonstrict_lb. rewrite inject_Z_opp. split; intros H H'; apply H.
    + apply Qopp_le_compat in H'. now rewrite Qopp_opp in H'.
    + apply Qopp_le_compat in H'. now rewrite Qopp_opp in H'.
  - rewrite <- tighten_strict_ub. split; [apply Qnot_le_lt | apply Qlt_not_le].
Qed.
