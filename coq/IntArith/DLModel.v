(* C27 (c): integer difference constraints in the STP/IDL solver.
   src/tsolvers/stpsolver/SafeInt.h (checked add / sub on ptrdiff_t),
   src/tsolvers/stpsolver/IDLSolver.h:16-30  (Converter<SafeInt>::getValue via double, ::negate),
   src/tsolvers/stpsolver/STPSolver_implementations.hpp:22-55 (parseRef: c := -const, getValue(c)),
   :89-90 (the negated edge gets Converter<T>::negate(c)).
   Machine integers are unbounded Z with the range written explicitly; None = undefined behaviour of
   the C++ (signed overflow, out-of-range floating->integer conversion) or a thrown overflow_error
   (safe_add / safe_sub). Definitions only. *)
From Coq Require Import ZArith Bool.
Local Open Scope Z_scope.

Definition PMAX : Z := 2 ^ 63 - 1.     (* PTRDIFF_MAX on the LP64 target *)
Definition PMIN : Z := - 2 ^ 63.
Definition in_range (z : Z) : bool := (PMIN <=? z) && (z <=? PMAX).

(* SafeInt::operator+ : None = std::overflow_error *)
Definition safe_add (a b : Z) : option Z :=
  if ((0 <? a) && (PMAX - a <? b)) || ((a <? 0) && (b <? PMIN - a)) then None else Some (a + b).

(* SafeInt::operator-= / operator- : None = std::underflow_error *)
Definition safe_sub (a b : Z) : option Z :=
  if ((0 <? b) && (a <? PMIN + b)) || ((b <? 0) && (PMAX + b <? a)) then None else Some (a - b).

(* SafeInt::operator-() : -val, UB for PTRDIFF_MIN *)
Definition safe_neg (a : Z) : option Z := if a =? PMIN then None else Some (- a).

(* Converter<SafeInt>::negate: -(val + 1); val + 1 overflows (UB) for PTRDIFF_MAX *)
Definition dl_negate (c : Z) : option Z := if c =? PMAX then None else Some (- (c + 1)).

(* FastRational::get_d on an integer: word path double(num)/double(1) (exact, |num| < 2^31), mpq path
   mpq_get_d = truncation toward zero to 53 significant bits. *)
Definition trunc53 (z : Z) : Z :=
  let a := Z.abs z in
  let k := Z.log2 a in
  Z.sgn z * (if k <? 53 then a else (a / 2 ^ (k - 52)) * 2 ^ (k - 52)).

(* Converter<SafeInt>::getValue(Number): static_cast<ptrdiff_t>(val.get_d()); the conversion is
   undefined when the truncated double is outside [-2^63, 2^63) *)
Definition dl_conv (z : Z) : option Z :=
  let d := trunc53 z in if (PMIN <=? d) && (d <? 2 ^ 63) then Some d else None.

(* the repaired conversion (proposed fix): exact or rejected *)
Definition dl_conv_fixed (z : Z) : option Z := if in_range z then Some z else None.

(* parseRef on the atom  k <= x - y  (normalised form  k <= x + (-1)*y):  c := -k,  edge  y -> x
   with cost conv(c), i.e. the constraint  y - x <= c ... in the orientation of the code
   "(y <= x + c)"; the negated edge carries dl_negate(conv c). *)
Definition parse_leq (k : Z) : option (Z * option Z) :=
  match dl_conv (- k) with
  | None => None
  | Some c => Some (c, dl_negate c)
  end.
