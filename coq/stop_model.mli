
val negb : bool -> bool

type nat =
| O
| S of nat

val fst : ('a1 * 'a2) -> 'a1

val snd : ('a1 * 'a2) -> 'a2



module Nat :
 sig
  val eqb : nat -> nat -> bool

  val leb : nat -> nat -> bool

  val ltb : nat -> nat -> bool
 end

val existsb : ('a1 -> bool) -> 'a1 list -> bool

type lbool =
| LTrue
| LFalse
| LUndef

type outcome =
| Cont
| Ret of lbool

type elim_out =
| EMore
| EDone
| EConflict

type pc =
| PElimHead
| PElimWork
| PElimCleanup
| PSolveHead
| PSearchInit
| PSearchHead
| PProp
| PAfterProp
| PRest
| PSearchBreak
| PAfterSearch of lbool
| PDone of lbool

val is_poll : pc -> bool

type flagfn = nat -> nat -> bool

val nostop : flagfn

val stop_at_step : nat -> flagfn

val stop_at_poll : nat -> flagfn

type 's cfg = { c_pc : pc; c_st : 's; c_steps : nat; c_polls : nat }

val step_ps :
  bool -> ('a1 -> 'a1 * elim_out) -> ('a1 -> 'a1) -> ('a1 -> 'a1 * lbool
  option) -> ('a1 -> 'a1 * bool) -> ('a1 -> 'a1 * outcome) -> ('a1 -> 'a1) ->
  ('a1 -> 'a1) -> bool -> pc -> 'a1 -> pc * 'a1

val step :
  bool -> ('a1 -> 'a1 * elim_out) -> ('a1 -> 'a1) -> ('a1 -> 'a1 * lbool
  option) -> ('a1 -> 'a1 * bool) -> ('a1 -> 'a1 * outcome) -> ('a1 -> 'a1) ->
  ('a1 -> 'a1) -> flagfn -> 'a1 cfg -> 'a1 cfg

val run :
  bool -> ('a1 -> 'a1 * elim_out) -> ('a1 -> 'a1) -> ('a1 -> 'a1 * lbool
  option) -> ('a1 -> 'a1 * bool) -> ('a1 -> 'a1 * outcome) -> ('a1 -> 'a1) ->
  ('a1 -> 'a1) -> nat -> flagfn -> 'a1 cfg -> 'a1 cfg

val result : 'a1 cfg -> lbool option

val entry : bool -> 'a1 -> 'a1 cfg

val predict : nat -> lbool -> nat -> lbool

type access = { a_tid : nat; a_write : bool }

val conflicting : access -> access -> bool

val has_conflict : access list -> bool

val data_race : bool -> access list -> bool

type ev =
| EvElim of elim_out
| EvInit of lbool option
| EvProp of bool
| EvRest of outcome

type script = ev list

val sc_elim : script -> script * elim_out

val sc_init : script -> script * lbool option

val sc_rest : script -> script * outcome

val sc_prop : script -> script * bool

val sc_id : script -> script

val run_script : bool -> bool -> nat -> flagfn -> script -> lbool option * nat

val atomic : bool

val lookahead_polls : bool

val poll_after_conflict : bool
