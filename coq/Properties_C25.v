(* C25 — asynchronous stop never produces a wrong answer.   PARTIAL (see design/C25.md):
   proved for the control skeleton of SimpSMTSolver::solve_ / CoreSMTSolver::solve_ / search and
   MainSolver::check with an adversarial flag; the work between two polls is abstract (arbitrary
   functions of an abstract state) and its soundness is a hypothesis naming C01/C02.  The flag as a
   memory location is modelled only up to "conflicting unordered accesses to a non-atomic object";
   real interleavings and the C++ memory model are runtime behaviour (ThreadSanitizer, checks/C25.py).

   Two statements are indexed by constants regenerated from the source (translate/stop_flag.py) and are
   refutations today:
     c25_state_after_stop  (Gen_StopFlag.poll_after_conflict = true): search() polls the flag between
        propagate() finding a conflict and the handling of that conflict; a level-0 conflict is then lost and
        the NEXT check-sat can answer sat on an unsatisfiable problem.  Full statement
            forall sound instantiations, consistent_after_stop        -- FALSE today, the `then` branch exhibits one
     c25_flag_discipline   (Gen_StopFlag.atomic = false): plain bool flags, a racy trace exists.
   Theorems only; proofs are in Conc/StopFlagProofs.v. *)
From Coq Require Import List Arith.
Import ListNotations.
From OsmtV.Conc Require Import StopFlag StopFlagProofs Gen_StopFlag.

(* A stop requested before any micro-step k: the answer of THIS call is unknown or exactly the answer of
   the undisturbed run — for every instantiation of the inner steps and either form of the poll after
   propagate(); no hypothesis. *)
Theorem stop_answer_safe : forall S pac elim_work elim_cleanup search_init prop rest cancel0 restart k fuel (c : cfg S) r,
  result (run S pac elim_work elim_cleanup search_init prop rest cancel0 restart fuel (stop_at_step k) c) = Some r ->
  r = LUndef \/ result (run S pac elim_work elim_cleanup search_init prop rest cancel0 restart fuel nostop c) = Some r.
Proof. exact StopFlagProofs.stop_answer_safe. Qed.
Print Assumptions stop_answer_safe.

(* The same at the level of MainSolver::check, for every monotone behaviour of the flag. *)
Theorem check_stop_answer_safe : forall S pac elim_work elim_cleanup search_init prop rest cancel0 restart
    simplify is_ok simp_frame conflict_frame compute_model clear_search do_simp fuel f (m : msolver S) r m',
  monotone f ->
  check S pac elim_work elim_cleanup search_init prop rest cancel0 restart simplify is_ok simp_frame conflict_frame
        compute_model clear_search do_simp fuel f m = Some (r, m') ->
  r = SUnknown \/ exists m'',
    check S pac elim_work elim_cleanup search_init prop rest cancel0 restart simplify is_ok simp_frame conflict_frame
          compute_model clear_search do_simp fuel nostop m = Some (r, m'').
Proof. exact StopFlagProofs.check_stop_answer_safe. Qed.
Print Assumptions check_stop_answer_safe.

(* Exact form: a request that becomes visible at poll n gives unknown iff the undisturbed run polls
   more than n times (CDCL solver: a visible request is always honoured). *)
Theorem stop_prediction : forall S pac elim_work elim_cleanup search_init prop rest cancel0 restart n fuel do_simp (s : S) r0,
  let c0 := entry do_simp s in
  result (run S pac elim_work elim_cleanup search_init prop rest cancel0 restart fuel nostop c0) = Some r0 ->
  result (run S pac elim_work elim_cleanup search_init prop rest cancel0 restart (fuel + 4) (stop_at_poll n) c0)
  = Some (predict (c_polls (run S pac elim_work elim_cleanup search_init prop rest cancel0 restart fuel nostop c0)) r0 n).
Proof. exact StopFlagProofs.predict_correct. Qed.
Print Assumptions stop_prediction.

(* Relative to sound inner steps (sound_search / sound_main: C01/C02 for each piece of work, preservation
   of a state invariant Good, cancelUntil(0) keeps Good on states without a pending conflict) and with the
   conflict handled before the poll (pac = false): whatever the flag does — set, reset, set again, at any
   poll — check-sat answers unknown or the truth, and leaves a good state. *)
Theorem stop_answer_correct : forall S pac elim_work elim_cleanup search_init prop rest cancel0 restart
    (is_sat : Prop) (Good NoPending : S -> Prop) simplify is_ok simp_frame conflict_frame compute_model clear_search,
  pac = false ->
  sound_search S elim_work elim_cleanup search_init prop rest cancel0 restart is_sat Good NoPending ->
  sound_main S is_sat Good simplify is_ok compute_model clear_search ->
  forall do_simp fuel (f : flagfn) (m : msolver S) r m',
  GoodM S is_sat Good m ->
  check S pac elim_work elim_cleanup search_init prop rest cancel0 restart simplify is_ok simp_frame conflict_frame
        compute_model clear_search do_simp fuel f m = Some (r, m') ->
  (r = SSat -> is_sat) /\ (r = SUnsat -> ~ is_sat) /\ GoodM S is_sat Good m'.
Proof. intros. eapply StopFlagProofs.check_correct; eauto. Qed.
Print Assumptions stop_answer_correct.

(* After an unknown the unsat-frame bookkeeping is as before the call and the state is good (same
   hypotheses). *)
Theorem stop_then_state_consistent : forall S pac elim_work elim_cleanup search_init prop rest cancel0 restart
    (is_sat : Prop) (Good NoPending : S -> Prop) simplify is_ok simp_frame conflict_frame compute_model clear_search,
  pac = false ->
  sound_search S elim_work elim_cleanup search_init prop rest cancel0 restart is_sat Good NoPending ->
  sound_main S is_sat Good simplify is_ok compute_model clear_search ->
  forall do_simp fuel (f : flagfn) (m m' : msolver S),
  GoodM S is_sat Good m ->
  check S pac elim_work elim_cleanup search_init prop rest cancel0 restart simplify is_ok simp_frame conflict_frame
        compute_model clear_search do_simp fuel f m = Some (SUnknown, m') ->
  frames_unsat m' = frames_unsat m /\ GoodM S is_sat Good m'.
Proof. intros. eapply StopFlagProofs.stop_then_state_consistent; eauto. Qed.
Print Assumptions stop_then_state_consistent.

(* The state after an interrupted check-sat, for the CURRENT source: indexed by the constant regenerated
   from search().  true (today): there is a sound instantiation for which a later check-sat answers sat
   although the problem is unsatisfiable (stop_state_refuted: the stop lands on the poll right after
   propagate() found the level-0 conflict, cancelUntil(0) forgets it).  false (after the fix): for all
   sound instantiations every later check-sat answers unknown or the truth. *)
Theorem c25_state_after_stop :
  if Gen_StopFlag.poll_after_conflict
  then exists S elim_work elim_cleanup search_init prop rest cancel0 restart (is_sat : Prop) Good NoPending
              simplify is_ok simp_frame conflict_frame compute_model clear_search,
         sound_search S elim_work elim_cleanup search_init prop rest cancel0 restart is_sat Good NoPending /\
         sound_main S is_sat Good simplify is_ok compute_model clear_search /\
         ~ consistent_after_stop S Gen_StopFlag.poll_after_conflict elim_work elim_cleanup search_init prop rest cancel0 restart
             is_sat Good simplify is_ok simp_frame conflict_frame compute_model clear_search
  else forall S elim_work elim_cleanup search_init prop rest cancel0 restart (is_sat : Prop) Good NoPending
              simplify is_ok simp_frame conflict_frame compute_model clear_search,
         sound_search S elim_work elim_cleanup search_init prop rest cancel0 restart is_sat Good NoPending ->
         sound_main S is_sat Good simplify is_ok compute_model clear_search ->
         consistent_after_stop S Gen_StopFlag.poll_after_conflict elim_work elim_cleanup search_init prop rest cancel0 restart
             is_sat Good simplify is_ok simp_frame conflict_frame compute_model clear_search.
Proof. exact (stop_state_discipline Gen_StopFlag.poll_after_conflict). Qed.
Print Assumptions c25_state_after_stop.

(* The lookahead solver (LookaheadSMTSolver::solve_), indexed by whether the source polls the flag in
   its loop: today it does not, so the flag is not an input of that loop at all (recorded liveness
   gap; allowed by C25 because the answer it then returns is its definitive one). *)
Theorem lookahead_ignores_stop : forall S la_round,
  if Gen_StopFlag.lookahead_polls
  then forall fuel f i c r, (forall a b, a <= b -> f a = true -> f b = true) ->
         fst (la_run S la_round true fuel f i c) = LDone r ->
         r = LUndef \/ fst (la_run S la_round true fuel (fun _ => false) i c) = LDone r
  else forall fuel f g i c, la_run S la_round false fuel f i c = la_run S la_round false fuel g i c.
Proof. exact (lookahead_discipline Gen_StopFlag.lookahead_polls). Qed.
Print Assumptions lookahead_ignores_stop.

(* The flag as a memory location, indexed by the declared types found in the source:
   std::atomic<bool> -> no trace has a data race; plain bool -> the trace "one request during one
   poll" has one.  Full statement  c25_no_race : forall tr, data_race Gen_StopFlag.atomic tr = false
   is FALSE while atomic = false. *)
Theorem c25_flag_discipline :
  if Gen_StopFlag.atomic then forall tr, data_race Gen_StopFlag.atomic tr = false
  else exists tr, data_race Gen_StopFlag.atomic tr = true.
Proof. exact (flag_discipline Gen_StopFlag.atomic). Qed.
Print Assumptions c25_flag_discipline.

(* The poll sites of the model are the ones the translator counted in the source, and there is no poll
   anywhere else: in particular none inside a piece of work the model treats as atomic (eliminateVar,
   asymmVar, strengthenClause, ... mutate the clause database in several steps; the hypotheses on
   elim_work speak about the database BETWEEN two polls). *)
Theorem c25_model_matches_source_polls :
  (Gen_StopFlag.polls_solve, Gen_StopFlag.polls_search) = (model_polls_solve, model_polls_search)
  /\ 1 <= Gen_StopFlag.polls_eliminate /\ Gen_StopFlag.polls_elsewhere = 0.
Proof. split; [reflexivity | split; [repeat constructor | reflexivity]]. Qed.
Print Assumptions c25_model_matches_source_polls.

Example c25_nonvacuous :
  let sc := [EvElim EMore; EvElim EDone; EvInit None; EvRest Cont; EvRest (Ret LUndef); EvInit None; EvRest (Ret LFalse)] in
  run_script true true 100 nostop sc = (Some LFalse, 9) /\
  run_script true true 100 (stop_at_poll 5) sc = (Some LUndef, 7) /\
  run_script true true 100 (stop_at_step 17) sc = (Some LUndef, 9) /\
  run_script true true 100 (stop_at_poll 9) sc = (Some LFalse, 9).
Proof. vm_compute. repeat split. Qed.
(* the poll after a conflict: taken when pac = true (7 polls), skipped when pac = false *)
Example c25_nonvacuous_conflict :
  let sc := [EvInit None; EvProp true; EvRest (Ret LFalse)] in
  run_script true false 100 nostop sc = (Some LFalse, 3) /\ run_script false false 100 nostop sc = (Some LFalse, 2) /\
  run_script true false 100 (stop_at_poll 2) sc = (Some LUndef, 4) /\ run_script false false 100 (stop_at_poll 2) sc = (Some LFalse, 2).
Proof. vm_compute. repeat split. Qed.
