From Coq Require Import ZArith QArith List.
From Coq Require Import ExtrOcamlBasic ExtrOcamlString.
From OsmtV.Num Require Import Chars Regex Gen_RealString Gen_LexNum LitModel RatPrint.
Extraction "num_model.ml" is_int_string is_real_string string_to_rational mk_const mk_const_sort fr_of_string mk_eq_int_consts
  term_to_smt2 term_print fr_print get_str qd_str read_num_term lex lex_rules matches
  re_TK_NUM re_TK_DEC re_TK_HEX re_TK_BIN re_TK_SYM re_TK_KEY Qred N_to_str.
