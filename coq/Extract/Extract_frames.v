From Coq Require Import List Arith.
From Coq Require Import ExtrOcamlBasic ExtrOcamlString.
From OsmtV.Stack Require Import FramesModel.
Extraction "frames_model.ml" init step frames fns inserted funsat.
