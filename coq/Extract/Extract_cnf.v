From Coq Require Import List NArith.
From Coq Require Import ExtrOcamlBasic ExtrOcamlString.
From OsmtV.Cnf Require Import TseitinModel TruthTable.
Extraction "cnf_model.ml" tt_valid.
