From Coq Require Import ZArith QArith.
From Coq Require Import ExtrOcamlBasic ExtrOcamlString.
From OsmtV.IntArith Require Import DivModModel TightenModel GcdNormModel DLModel.
Extraction "intarith_model.ml" bounds_int add_bound norm_ineq norm_eq norm_single_leq
  dl_conv dl_conv_fixed dl_negate safe_add safe_sub safe_neg in_range divmod_def smt_div smt_mod Qred rw_apps rewritten_holds canon_sigma.
