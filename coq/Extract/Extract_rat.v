From Coq Require Import ZArith QArith.
From Coq Require Import ExtrOcamlBasic ExtrOcamlString.
From OsmtV.Rat Require Import FRModel.
Extraction "rat_model.ml" of_string of_word of_uint32 of_word_uword
  fr_add fr_sub fr_mul fr_div fr_addA fr_subA fr_mulA fr_divA fr_neg fr_negate fr_inv
  fr_compare fr_eq fr_sign fr_isInteger fr_isZero fr_isOne fr_get_num fr_get_den fr_ceil fr_floor
  fr_gcd fr_lcm fr_gcd_fixed fr_lcm_fixed fr_fdiv_q fr_mod fr_divexact fr_divexact_fixed fr_round_to_int fr_hash wfb.
