From Coq Require Import List Arith.
From Coq Require Import ExtrOcamlBasic ExtrOcamlString.
From OsmtV.Conc Require Import Pool Gen_PoolSync StopFlag Gen_StopFlag.
Extraction "pool_model.ml" Pool.seq_exec Pool.run Pool.init Pool.bad_b Pool.thr Pool.t_owned Pool.free Pool.ub Gen_PoolSync.locked Gen_PoolSync.discipline.
Extraction "stop_model.ml" StopFlag.run_script StopFlag.stop_at_poll StopFlag.stop_at_step StopFlag.nostop StopFlag.predict StopFlag.data_race Gen_StopFlag.atomic Gen_StopFlag.lookahead_polls Gen_StopFlag.poll_after_conflict.
