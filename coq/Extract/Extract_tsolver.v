From Coq Require Import ZArith QArith List.
From Coq Require Import ExtrOcamlBasic ExtrOcamlString.
From OsmtV.Th Require Import DLParse BoundStack.
Extraction "tsolver_model.ml" parseRef is_dl_atomb linearb accepts_in_logic
  bs_init assert_bound assert_conflicts backtrack cur_bound lists trace limits.
