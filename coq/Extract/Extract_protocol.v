From Coq Require Import List Bool.
From Coq Require Import ExtrOcamlBasic ExtrOcamlString.
From OsmtV.Front Require Import ProtocolBase Protocol_Gen Protocol.
Extraction "protocol_model.ml" run gen_cfg fixed_cfg escaping caught all_exn.
