From Coq Require Import ZArith List.
From Coq Require Import ExtrOcamlBasic ExtrOcamlString.
From OsmtV.Sat Require Import PropLogic RupCheck.
From OsmtV.Trace Require Import TraceSound.
Extraction "trace_model.ml" replay rup.
