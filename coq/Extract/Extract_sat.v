From Coq Require Import ZArith NArith List.
From Coq Require Import ExtrOcamlBasic ExtrOcamlString.
From OsmtV.Sat Require Import PropLogic RupCheck Dpll ResChain ProofCheck.
Extraction "sat_model.ml" rup countermodel total_of check_proof_err proof_leaves.
