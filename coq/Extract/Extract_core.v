From Coq Require Import List Arith NArith.
From Coq Require Import ExtrOcamlBasic ExtrOcamlString.
From OsmtV.Core Require Import MinimizeNaive CoreExtract.
Extraction "core_model.ml" performNaive_log perform minimize computeClauses mapClausesToTerms partitionNamedTerms buildCore.
