From Coq Require Import List Arith.
From Coq Require Import ExtrOcamlBasic ExtrOcamlString.
From OsmtV.Core Require Import MinimizeNaive.
Extraction "core_model.ml" performNaive_log perform minimize.
