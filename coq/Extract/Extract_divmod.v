From Coq Require Import ZArith QArith.
From Coq Require Import ExtrOcamlBasic ExtrOcamlString.
From OsmtV.IntArith Require Import DivModModel.
Extraction "divmod_model.ml" fold_div fold_mod smt_div smt_mod.
