From Coq Require Import ZArith QArith List.
From Coq Require Import ExtrOcamlBasic ExtrOcamlString.
From OsmtV.Th Require Import Farkas LiaCheck ThClause CC.
Extraction "th_model.ml" farkas_check la_conflict_check la_clause_check mixed_clause_check euf_clause_check arr_clause_check arr_clause_split_check.
