From Coq Require Import List Ascii ZArith.
From Coq Require Import ExtrOcamlBasic ExtrOcamlString.
From OsmtV.Pipe Require Import PipeBase Gen_PipeFlags Gen_LexRules LexStates PipeModel.
Extraction "pipe_model.ml" pipe_events read_pieces stream_events file_events file_commands lex_valid
  no_escaped_quote lex_echo is_exit_command cut executed visible frame_texts
  gen_has_string_escape gen_lone_backslash_echo gen_init_buf_sz.
