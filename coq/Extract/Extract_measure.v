From Coq Require Import List Arith.
From Coq Require Import ExtrOcamlBasic ExtrOcamlString.
From OsmtV.Term Require Import MeasureModel.
Extraction "measure_model.ml" shape progress.
