From Coq Require Import String Ascii List.
From Coq Require Import ExtrOcamlBasic ExtrOcamlString.
From OsmtV.Print Require Import Gen_Tokens Reader Quote.
Extraction "print_model.ml"
  std_cfg osmt_cfg lex read_symbol read_sexps norm_sexp quote_symbol legal_char
  faithful repaired protectName hasQuotableChars isReservedWord sortToString symToString print_term
  builder_definition default_definition resolve_clashes def_header_const def_header_fun
  assignment_text core_names_text echo ast_sexp dump_sort_decl dump_decl formal_base dec term_sexp create_params.
