From Coq Require Import ZArith QArith.
From Coq Require Import ExtrOcamlBasic ExtrOcamlString.
From OsmtV.Terms Require Import TermSem BoolCtors LinNorm.
Extraction "ctors_model.ml" eval term_eqb wf wf_nc sort_of wsort nfb canonb
  mkNot mkAnd mkOr mkXor mkImpl mkIte mkUF
  mkPlus mkNeg mkMinus mkTimes mkRealDiv mkIntDiv mkMod mkLeq mkGeq mkLt mkGt mkEq mkDistinct.
