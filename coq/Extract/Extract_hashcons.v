From Coq Require Import ExtrOcamlBasic ExtrOcamlString.
From OsmtV.Terms Require Import HashCons.
Extraction "hashcons_model.ml" empty_store step hc_check tree_of numeral_value.
