From Coq Require Import List NArith ZArith.
From Coq Require Import ExtrOcamlBasic ExtrOcamlString.
From OsmtV.Names Require Import ScopedVec TermNames DefinedFuns.
From OsmtV.Front Require Import InterpBook.
Extraction "names_model.ml"
  tn_init try_insert push_scope pop_scope erase_direct contains_name contains_term term_by_name
  names_for_term name_for_term iteration tn_size
  df_init df_store df_push df_pop df_has
  book_init step level masks group_parts.
