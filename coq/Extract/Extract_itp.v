From Coq Require Import List Bool Arith.
From Coq Require Import ExtrOcamlBasic ExtrOcamlString.
From OsmtV.Itp Require Import Labelled PathItp.
From OsmtV.Front Require Import ItpRequest.
Extraction "itp_model.ml" impl_itp path_itps cumulative vmask_of alg_of_nat feval fvars request_masks spec_masks.
