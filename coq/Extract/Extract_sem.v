From Coq Require Import ZArith QArith List.
From Coq Require Import ExtrOcamlBasic ExtrOcamlString.
From OsmtV.Sem Require Import Syntax Eval Model.
Extraction "sem_model.ml" sem interp_of model_ok model_covers const_wellsorted is_true covers_var covers_fun.
