
(** val implb : bool -> bool -> bool **)

let implb b1 b2 =
  if b1 then b2 else true

(** val xorb : bool -> bool -> bool **)

let xorb b1 b2 =
  if b1 then if b2 then false else true else b2

(** val negb : bool -> bool **)

let negb = function
| true -> false
| false -> true

type nat =
| O
| S of nat

(** val fst : ('a1 * 'a2) -> 'a1 **)

let fst = function
| (x, _) -> x

(** val snd : ('a1 * 'a2) -> 'a2 **)

let snd = function
| (_, y) -> y

(** val length : 'a1 list -> nat **)

let rec length = function
| [] -> O
| _ :: l' -> S (length l')

type comparison =
| Eq
| Lt
| Gt

(** val compOpp : comparison -> comparison **)

let compOpp = function
| Eq -> Eq
| Lt -> Gt
| Gt -> Lt

type positive =
| XI of positive
| XO of positive
| XH

type n =
| N0
| Npos of positive

type z =
| Z0
| Zpos of positive
| Zneg of positive

(** val eqb : bool -> bool -> bool **)

let eqb b1 b2 =
  if b1 then b2 else if b2 then false else true

module Nat =
 struct
  (** val eqb : nat -> nat -> bool **)

  let rec eqb n0 m =
    match n0 with
    | O -> (match m with
            | O -> true
            | S _ -> false)
    | S n' -> (match m with
               | O -> false
               | S m' -> eqb n' m')
 end

module Pos =
 struct
  (** val succ : positive -> positive **)

  let rec succ = function
  | XI p -> XO (succ p)
  | XO p -> XI p
  | XH -> XO XH

  (** val add : positive -> positive -> positive **)

  let rec add x y =
    match x with
    | XI p ->
      (match y with
       | XI q0 -> XO (add_carry p q0)
       | XO q0 -> XI (add p q0)
       | XH -> XO (succ p))
    | XO p ->
      (match y with
       | XI q0 -> XI (add p q0)
       | XO q0 -> XO (add p q0)
       | XH -> XI p)
    | XH -> (match y with
             | XI q0 -> XO (succ q0)
             | XO q0 -> XI q0
             | XH -> XO XH)

  (** val add_carry : positive -> positive -> positive **)

  and add_carry x y =
    match x with
    | XI p ->
      (match y with
       | XI q0 -> XI (add_carry p q0)
       | XO q0 -> XO (add_carry p q0)
       | XH -> XI (succ p))
    | XO p ->
      (match y with
       | XI q0 -> XO (add_carry p q0)
       | XO q0 -> XI (add p q0)
       | XH -> XO (succ p))
    | XH ->
      (match y with
       | XI q0 -> XI (succ q0)
       | XO q0 -> XO (succ q0)
       | XH -> XI XH)

  (** val pred_double : positive -> positive **)

  let rec pred_double = function
  | XI p -> XI (XO p)
  | XO p -> XI (pred_double p)
  | XH -> XH

  (** val mul : positive -> positive -> positive **)

  let rec mul x y =
    match x with
    | XI p -> add y (XO (mul p y))
    | XO p -> XO (mul p y)
    | XH -> y

  (** val compare_cont : comparison -> positive -> positive -> comparison **)

  let rec compare_cont r x y =
    match x with
    | XI p ->
      (match y with
       | XI q0 -> compare_cont r p q0
       | XO q0 -> compare_cont Gt p q0
       | XH -> Gt)
    | XO p ->
      (match y with
       | XI q0 -> compare_cont Lt p q0
       | XO q0 -> compare_cont r p q0
       | XH -> Gt)
    | XH -> (match y with
             | XH -> r
             | _ -> Lt)

  (** val compare : positive -> positive -> comparison **)

  let compare =
    compare_cont Eq

  (** val eqb : positive -> positive -> bool **)

  let rec eqb p q0 =
    match p with
    | XI p0 -> (match q0 with
                | XI q1 -> eqb p0 q1
                | _ -> false)
    | XO p0 -> (match q0 with
                | XO q1 -> eqb p0 q1
                | _ -> false)
    | XH -> (match q0 with
             | XH -> true
             | _ -> false)
 end

module N =
 struct
  (** val eqb : n -> n -> bool **)

  let eqb n0 m =
    match n0 with
    | N0 -> (match m with
             | N0 -> true
             | Npos _ -> false)
    | Npos p -> (match m with
                 | N0 -> false
                 | Npos q0 -> Pos.eqb p q0)
 end

module Z =
 struct
  (** val double : z -> z **)

  let double = function
  | Z0 -> Z0
  | Zpos p -> Zpos (XO p)
  | Zneg p -> Zneg (XO p)

  (** val succ_double : z -> z **)

  let succ_double = function
  | Z0 -> Zpos XH
  | Zpos p -> Zpos (XI p)
  | Zneg p -> Zneg (Pos.pred_double p)

  (** val pred_double : z -> z **)

  let pred_double = function
  | Z0 -> Zneg XH
  | Zpos p -> Zpos (Pos.pred_double p)
  | Zneg p -> Zneg (XI p)

  (** val pos_sub : positive -> positive -> z **)

  let rec pos_sub x y =
    match x with
    | XI p ->
      (match y with
       | XI q0 -> double (pos_sub p q0)
       | XO q0 -> succ_double (pos_sub p q0)
       | XH -> Zpos (XO p))
    | XO p ->
      (match y with
       | XI q0 -> pred_double (pos_sub p q0)
       | XO q0 -> double (pos_sub p q0)
       | XH -> Zpos (Pos.pred_double p))
    | XH ->
      (match y with
       | XI q0 -> Zneg (XO q0)
       | XO q0 -> Zneg (Pos.pred_double q0)
       | XH -> Z0)

  (** val add : z -> z -> z **)

  let add x y =
    match x with
    | Z0 -> y
    | Zpos x' ->
      (match y with
       | Z0 -> x
       | Zpos y' -> Zpos (Pos.add x' y')
       | Zneg y' -> pos_sub x' y')
    | Zneg x' ->
      (match y with
       | Z0 -> x
       | Zpos y' -> pos_sub y' x'
       | Zneg y' -> Zneg (Pos.add x' y'))

  (** val opp : z -> z **)

  let opp = function
  | Z0 -> Z0
  | Zpos x0 -> Zneg x0
  | Zneg x0 -> Zpos x0

  (** val sub : z -> z -> z **)

  let sub m n0 =
    add m (opp n0)

  (** val mul : z -> z -> z **)

  let mul x y =
    match x with
    | Z0 -> Z0
    | Zpos x' ->
      (match y with
       | Z0 -> Z0
       | Zpos y' -> Zpos (Pos.mul x' y')
       | Zneg y' -> Zneg (Pos.mul x' y'))
    | Zneg x' ->
      (match y with
       | Z0 -> Z0
       | Zpos y' -> Zneg (Pos.mul x' y')
       | Zneg y' -> Zpos (Pos.mul x' y'))

  (** val compare : z -> z -> comparison **)

  let compare x y =
    match x with
    | Z0 -> (match y with
             | Z0 -> Eq
             | Zpos _ -> Lt
             | Zneg _ -> Gt)
    | Zpos x' -> (match y with
                  | Zpos y' -> Pos.compare x' y'
                  | _ -> Gt)
    | Zneg x' ->
      (match y with
       | Zneg y' -> compOpp (Pos.compare x' y')
       | _ -> Lt)

  (** val leb : z -> z -> bool **)

  let leb x y =
    match compare x y with
    | Gt -> false
    | _ -> true

  (** val ltb : z -> z -> bool **)

  let ltb x y =
    match compare x y with
    | Lt -> true
    | _ -> false

  (** val eqb : z -> z -> bool **)

  let eqb x y =
    match x with
    | Z0 -> (match y with
             | Z0 -> true
             | _ -> false)
    | Zpos p -> (match y with
                 | Zpos q0 -> Pos.eqb p q0
                 | _ -> false)
    | Zneg p -> (match y with
                 | Zneg q0 -> Pos.eqb p q0
                 | _ -> false)

  (** val abs : z -> z **)

  let abs = function
  | Zneg p -> Zpos p
  | x -> x

  (** val pos_div_eucl : positive -> z -> z * z **)

  let rec pos_div_eucl a b =
    match a with
    | XI a' ->
      let (q0, r) = pos_div_eucl a' b in
      let r' = add (mul (Zpos (XO XH)) r) (Zpos XH) in
      if ltb r' b
      then ((mul (Zpos (XO XH)) q0), r')
      else ((add (mul (Zpos (XO XH)) q0) (Zpos XH)), (sub r' b))
    | XO a' ->
      let (q0, r) = pos_div_eucl a' b in
      let r' = mul (Zpos (XO XH)) r in
      if ltb r' b
      then ((mul (Zpos (XO XH)) q0), r')
      else ((add (mul (Zpos (XO XH)) q0) (Zpos XH)), (sub r' b))
    | XH -> if leb (Zpos (XO XH)) b then (Z0, (Zpos XH)) else ((Zpos XH), Z0)

  (** val div_eucl : z -> z -> z * z **)

  let div_eucl a b =
    match a with
    | Z0 -> (Z0, Z0)
    | Zpos a' ->
      (match b with
       | Z0 -> (Z0, a)
       | Zpos _ -> pos_div_eucl a' b
       | Zneg b' ->
         let (q0, r) = pos_div_eucl a' (Zpos b') in
         (match r with
          | Z0 -> ((opp q0), Z0)
          | _ -> ((opp (add q0 (Zpos XH))), (add b r))))
    | Zneg a' ->
      (match b with
       | Z0 -> (Z0, a)
       | Zpos _ ->
         let (q0, r) = pos_div_eucl a' b in
         (match r with
          | Z0 -> ((opp q0), Z0)
          | _ -> ((opp (add q0 (Zpos XH))), (sub b r)))
       | Zneg b' -> let (q0, r) = pos_div_eucl a' (Zpos b') in (q0, (opp r)))

  (** val div : z -> z -> z **)

  let div a b =
    let (q0, _) = div_eucl a b in q0

  (** val modulo : z -> z -> z **)

  let modulo a b =
    let (_, r) = div_eucl a b in r
 end

(** val zeq_bool : z -> z -> bool **)

let zeq_bool x y =
  match Z.compare x y with
  | Eq -> true
  | _ -> false

(** val map : ('a1 -> 'a2) -> 'a1 list -> 'a2 list **)

let rec map f = function
| [] -> []
| a :: t -> (f a) :: (map f t)

(** val existsb : ('a1 -> bool) -> 'a1 list -> bool **)

let rec existsb f = function
| [] -> false
| a :: l0 -> (||) (f a) (existsb f l0)

(** val forallb : ('a1 -> bool) -> 'a1 list -> bool **)

let rec forallb f = function
| [] -> true
| a :: l0 -> (&&) (f a) (forallb f l0)

(** val combine : 'a1 list -> 'a2 list -> ('a1 * 'a2) list **)

let rec combine l l' =
  match l with
  | [] -> []
  | x :: tl ->
    (match l' with
     | [] -> []
     | y :: tl' -> (x, y) :: (combine tl tl'))

type q = { qnum : z; qden : positive }

(** val qeq_bool : q -> q -> bool **)

let qeq_bool x y =
  zeq_bool (Z.mul x.qnum (Zpos y.qden)) (Z.mul y.qnum (Zpos x.qden))

(** val qle_bool : q -> q -> bool **)

let qle_bool x y =
  Z.leb (Z.mul x.qnum (Zpos y.qden)) (Z.mul y.qnum (Zpos x.qden))

(** val qplus : q -> q -> q **)

let qplus x y =
  { qnum = (Z.add (Z.mul x.qnum (Zpos y.qden)) (Z.mul y.qnum (Zpos x.qden)));
    qden = (Pos.mul x.qden y.qden) }

(** val qmult : q -> q -> q **)

let qmult x y =
  { qnum = (Z.mul x.qnum y.qnum); qden = (Pos.mul x.qden y.qden) }

(** val qopp : q -> q **)

let qopp x =
  { qnum = (Z.opp x.qnum); qden = x.qden }

(** val qminus : q -> q -> q **)

let qminus x y =
  qplus x (qopp y)

(** val qinv : q -> q **)

let qinv x =
  match x.qnum with
  | Z0 -> { qnum = Z0; qden = XH }
  | Zpos p -> { qnum = (Zpos x.qden); qden = p }
  | Zneg p -> { qnum = (Zneg x.qden); qden = p }

(** val qdiv : q -> q -> q **)

let qdiv x y =
  qmult x (qinv y)

type sort =
| SBool
| SInt
| SReal
| SU of n

type value =
| VB of bool
| VZ of z
| VQ of q
| VU of n * n

(** val sort_eqb : sort -> sort -> bool **)

let sort_eqb a b =
  match a with
  | SBool -> (match b with
              | SBool -> true
              | _ -> false)
  | SInt -> (match b with
             | SInt -> true
             | _ -> false)
  | SReal -> (match b with
              | SReal -> true
              | _ -> false)
  | SU n0 -> (match b with
              | SU m -> N.eqb n0 m
              | _ -> false)

(** val has_sort : value -> sort -> bool **)

let has_sort v s =
  match v with
  | VB _ -> (match s with
             | SBool -> true
             | _ -> false)
  | VZ _ -> (match s with
             | SInt -> true
             | _ -> false)
  | VQ _ -> (match s with
             | SReal -> true
             | _ -> false)
  | VU (s', _) -> (match s with
                   | SU s'' -> N.eqb s' s''
                   | _ -> false)

(** val default_of : sort -> value **)

let default_of = function
| SBool -> VB false
| SInt -> VZ Z0
| SReal -> VQ { qnum = Z0; qden = XH }
| SU n0 -> VU (n0, N0)

(** val val_eqb : value -> value -> bool option **)

let val_eqb a b =
  match a with
  | VB x -> (match b with
             | VB y -> Some (eqb x y)
             | _ -> None)
  | VZ x -> (match b with
             | VZ y -> Some (Z.eqb x y)
             | _ -> None)
  | VQ x -> (match b with
             | VQ y -> Some (qeq_bool x y)
             | _ -> None)
  | VU (s, x) ->
    (match b with
     | VU (s', y) -> if N.eqb s s' then Some (N.eqb x y) else None
     | _ -> None)

type term =
| TVar of n
| TBool of bool
| TInt of z
| TReal of q
| TAbs of n * n
| TNot of term
| TAnd of term list
| TOr of term list
| TXor of term * term
| TImp of term list
| TIte of term * term * term
| TEq of term list
| TDistinct of term list
| TAdd of term list
| TSub of term list
| TNeg of term
| TMul of term list
| TRDiv of term * term
| TIDiv of term * term
| TMod of term * term
| TLe of term list
| TLt of term list
| TGe of term list
| TGt of term list
| TApp of n * term list

type interp = { ivar : (n -> value); ifun : (n -> value list -> value) }

type sig0 = { sig_vars : (n * sort) list;
              sig_funs : (n * (sort list * sort)) list }

(** val smt_div : z -> z -> z **)

let smt_div n0 d =
  if Z.ltb Z0 d then Z.div n0 d else Z.opp (Z.div n0 (Z.opp d))

(** val smt_mod : z -> z -> z **)

let smt_mod n0 d =
  Z.modulo n0 (Z.abs d)

(** val lookup : n -> (n * 'a1) list -> 'a1 option **)

let rec lookup x = function
| [] -> None
| p :: r -> let (y, a) = p in if N.eqb x y then Some a else lookup x r

(** val as_bool : value option -> bool option **)

let as_bool = function
| Some v0 -> (match v0 with
              | VB b -> Some b
              | _ -> None)
| None -> None

(** val all_bools : value option list -> bool list option **)

let rec all_bools = function
| [] -> Some []
| v :: r ->
  (match as_bool v with
   | Some b ->
     (match all_bools r with
      | Some bs -> Some (b :: bs)
      | None -> None)
   | None -> None)

(** val all_some : 'a1 option list -> 'a1 list option **)

let rec all_some = function
| [] -> Some []
| o :: r ->
  (match o with
   | Some v -> (match all_some r with
                | Some l -> Some (v :: l)
                | None -> None)
   | None -> None)

(** val num_add : value -> value -> value option **)

let num_add a b =
  match a with
  | VZ x -> (match b with
             | VZ y -> Some (VZ (Z.add x y))
             | _ -> None)
  | VQ x -> (match b with
             | VQ y -> Some (VQ (qplus x y))
             | _ -> None)
  | _ -> None

(** val num_sub : value -> value -> value option **)

let num_sub a b =
  match a with
  | VZ x -> (match b with
             | VZ y -> Some (VZ (Z.sub x y))
             | _ -> None)
  | VQ x -> (match b with
             | VQ y -> Some (VQ (qminus x y))
             | _ -> None)
  | _ -> None

(** val num_mul : value -> value -> value option **)

let num_mul a b =
  match a with
  | VZ x -> (match b with
             | VZ y -> Some (VZ (Z.mul x y))
             | _ -> None)
  | VQ x -> (match b with
             | VQ y -> Some (VQ (qmult x y))
             | _ -> None)
  | _ -> None

(** val num_neg : value -> value option **)

let num_neg = function
| VZ x -> Some (VZ (Z.opp x))
| VQ x -> Some (VQ (qopp x))
| _ -> None

(** val num_le : value -> value -> bool option **)

let num_le a b =
  match a with
  | VZ x -> (match b with
             | VZ y -> Some (Z.leb x y)
             | _ -> None)
  | VQ x -> (match b with
             | VQ y -> Some (qle_bool x y)
             | _ -> None)
  | _ -> None

(** val num_lt : value -> value -> bool option **)

let num_lt a b =
  match a with
  | VZ x -> (match b with
             | VZ y -> Some (Z.ltb x y)
             | _ -> None)
  | VQ x -> (match b with
             | VQ y -> Some (negb (qle_bool y x))
             | _ -> None)
  | _ -> None

(** val fold_num :
    (value -> value -> value option) -> value -> value list -> value option **)

let rec fold_num op acc = function
| [] -> Some acc
| v :: r -> (match op acc v with
             | Some a -> fold_num op a r
             | None -> None)

(** val chain :
    (value -> value -> bool option) -> value list -> bool option **)

let rec chain rel = function
| [] -> Some true
| a :: r ->
  (match r with
   | [] -> Some true
   | b :: _ ->
     (match rel a b with
      | Some x ->
        (match chain rel r with
         | Some y -> Some ((&&) x y)
         | None -> None)
      | None -> None))

(** val none_equal : value -> value list -> bool option **)

let rec none_equal v = function
| [] -> Some true
| w :: r ->
  (match val_eqb v w with
   | Some e ->
     (match none_equal v r with
      | Some y -> Some ((&&) (negb e) y)
      | None -> None)
   | None -> None)

(** val pairwise_distinct : value list -> bool option **)

let rec pairwise_distinct = function
| [] -> Some true
| v :: r ->
  (match none_equal v r with
   | Some x ->
     (match pairwise_distinct r with
      | Some y -> Some ((&&) x y)
      | None -> None)
   | None -> None)

(** val imp_right : bool list -> bool **)

let rec imp_right = function
| [] -> true
| b :: r -> (match r with
             | [] -> b
             | _ :: _ -> implb b (imp_right r))

(** val sem : interp -> (n * value) list -> term -> value option **)

let rec sem i loc t =
  let sems =
    let rec sems = function
    | [] -> []
    | t0 :: r -> (sem i loc t0) :: (sems r)
    in sems
  in
  (match t with
   | TVar x ->
     (match lookup x loc with
      | Some v -> Some v
      | None -> Some (i.ivar x))
   | TBool b -> Some (VB b)
   | TInt z0 -> Some (VZ z0)
   | TReal q0 -> Some (VQ q0)
   | TAbs (s, n0) -> Some (VU (s, n0))
   | TNot a ->
     (match as_bool (sem i loc a) with
      | Some b -> Some (VB (negb b))
      | None -> None)
   | TAnd ts ->
     (match all_bools (sems ts) with
      | Some bs -> Some (VB (forallb (fun b -> b) bs))
      | None -> None)
   | TOr ts ->
     (match all_bools (sems ts) with
      | Some bs -> Some (VB (existsb (fun b -> b) bs))
      | None -> None)
   | TXor (a, b) ->
     (match as_bool (sem i loc a) with
      | Some x ->
        (match as_bool (sem i loc b) with
         | Some y -> Some (VB (xorb x y))
         | None -> None)
      | None -> None)
   | TImp ts ->
     (match all_bools (sems ts) with
      | Some bs -> Some (VB (imp_right bs))
      | None -> None)
   | TIte (c, a, b) ->
     (match as_bool (sem i loc c) with
      | Some cb ->
        (match sem i loc a with
         | Some va ->
           (match sem i loc b with
            | Some vb ->
              (match val_eqb va vb with
               | Some _ -> Some (if cb then va else vb)
               | None -> None)
            | None -> None)
         | None -> None)
      | None -> None)
   | TEq ts ->
     (match all_some (sems ts) with
      | Some vs ->
        (match chain val_eqb vs with
         | Some b -> Some (VB b)
         | None -> None)
      | None -> None)
   | TDistinct ts ->
     (match all_some (sems ts) with
      | Some vs ->
        (match pairwise_distinct vs with
         | Some b -> Some (VB b)
         | None -> None)
      | None -> None)
   | TAdd ts ->
     (match all_some (sems ts) with
      | Some l -> (match l with
                   | [] -> None
                   | v :: vs -> fold_num num_add v vs)
      | None -> None)
   | TSub ts ->
     (match all_some (sems ts) with
      | Some l ->
        (match l with
         | [] -> None
         | v :: vs ->
           (match vs with
            | [] -> None
            | _ :: _ -> fold_num num_sub v vs))
      | None -> None)
   | TNeg a -> (match sem i loc a with
                | Some v -> num_neg v
                | None -> None)
   | TMul ts ->
     (match all_some (sems ts) with
      | Some l -> (match l with
                   | [] -> None
                   | v :: vs -> fold_num num_mul v vs)
      | None -> None)
   | TRDiv (a, b) ->
     (match sem i loc a with
      | Some v ->
        (match v with
         | VQ x ->
           (match sem i loc b with
            | Some v0 ->
              (match v0 with
               | VQ y ->
                 if qeq_bool y { qnum = Z0; qden = XH }
                 then None
                 else Some (VQ (qdiv x y))
               | _ -> None)
            | None -> None)
         | _ -> None)
      | None -> None)
   | TIDiv (a, b) ->
     (match sem i loc a with
      | Some v ->
        (match v with
         | VZ x ->
           (match sem i loc b with
            | Some v0 ->
              (match v0 with
               | VZ y -> if Z.eqb y Z0 then None else Some (VZ (smt_div x y))
               | _ -> None)
            | None -> None)
         | _ -> None)
      | None -> None)
   | TMod (a, b) ->
     (match sem i loc a with
      | Some v ->
        (match v with
         | VZ x ->
           (match sem i loc b with
            | Some v0 ->
              (match v0 with
               | VZ y -> if Z.eqb y Z0 then None else Some (VZ (smt_mod x y))
               | _ -> None)
            | None -> None)
         | _ -> None)
      | None -> None)
   | TLe ts ->
     (match all_some (sems ts) with
      | Some vs ->
        (match chain num_le vs with
         | Some b -> Some (VB b)
         | None -> None)
      | None -> None)
   | TLt ts ->
     (match all_some (sems ts) with
      | Some vs ->
        (match chain num_lt vs with
         | Some b -> Some (VB b)
         | None -> None)
      | None -> None)
   | TGe ts ->
     (match all_some (sems ts) with
      | Some vs ->
        (match chain (fun a b -> num_le b a) vs with
         | Some b -> Some (VB b)
         | None -> None)
      | None -> None)
   | TGt ts ->
     (match all_some (sems ts) with
      | Some vs ->
        (match chain (fun a b -> num_lt b a) vs with
         | Some b -> Some (VB b)
         | None -> None)
      | None -> None)
   | TApp (f, args) ->
     (match all_some (sems args) with
      | Some vs -> Some (i.ifun f vs)
      | None -> None))

type def = { d_params : (n * sort) list; d_res : sort; d_body : term }

type model = (n * def) list

(** val dummy_interp : interp **)

let dummy_interp =
  { ivar = (fun _ -> VB false); ifun = (fun _ _ -> VB false) }

(** val clamp : sort -> value option -> value **)

let clamp s = function
| Some w -> if has_sort w s then w else default_of s
| None -> default_of s

(** val eval_def : def -> value list -> value **)

let eval_def d args =
  clamp d.d_res
    (sem dummy_interp (combine (map fst d.d_params) args) d.d_body)

(** val interp_of : model -> interp **)

let interp_of m =
  { ivar = (fun x ->
    match lookup x m with
    | Some d -> eval_def d []
    | None -> VB false); ifun = (fun f args ->
    match lookup f m with
    | Some d -> eval_def d args
    | None -> VB false) }

(** val covers_var : model -> (n * sort) -> bool **)

let covers_var m xs =
  match lookup (fst xs) m with
  | Some d -> (&&) (sort_eqb d.d_res (snd xs)) (Nat.eqb (length d.d_params) O)
  | None -> false

(** val covers_fun : model -> (n * (sort list * sort)) -> bool **)

let covers_fun m fs =
  match lookup (fst fs) m with
  | Some d ->
    (&&) (sort_eqb d.d_res (snd (snd fs)))
      (Nat.eqb (length d.d_params) (length (fst (snd fs))))
  | None -> false

(** val model_covers : sig0 -> model -> bool **)

let model_covers s m =
  (&&) (forallb (covers_var m) s.sig_vars) (forallb (covers_fun m) s.sig_funs)

(** val is_true : value option -> bool **)

let is_true = function
| Some v0 -> (match v0 with
              | VB b -> b
              | _ -> false)
| None -> false

(** val model_ok : sig0 -> model -> term list -> bool **)

let model_ok s m a =
  (&&) (model_covers s m)
    (forallb (fun a0 -> is_true (sem (interp_of m) [] a0)) a)

(** val const_wellsorted : def -> bool **)

let const_wellsorted d =
  match sem dummy_interp [] d.d_body with
  | Some v -> has_sort v d.d_res
  | None -> false
