(* C28 — the store invariant and its consequences, for all operation sequences. *)
From Coq Require Import String List Arith Bool PeanoNat Sorted Permutation Lia.
From OsmtV.Terms Require Import HashCons HashConsSort.
Import ListNotations.

(* ---- small facts ----------------------------------------------------------------------------- *)
Lemma key_eqb_eq : forall a b, key_eqb a b = true <-> a = b.
Proof. intros a b. unfold key_eqb. destruct (key_eq_dec a b); split; congruence. Qed.
Lemma skey_eqb_eq : forall a b, skey_eqb a b = true <-> a = b.
Proof. intros a b. unfold skey_eqb. destruct (skey_eq_dec a b); split; congruence. Qed.

Lemma nth_error_prefix : forall {A} (l r : list A) i x, nth_error l i = Some x -> nth_error (l ++ r) i = Some x.
Proof.
  intros A l r i x H. rewrite nth_error_app1; [assumption|]. apply nth_error_Some. congruence.
Qed.

Lemma nth_error_snoc : forall {A} (l : list A) y i x,
  nth_error (l ++ [y]) i = Some x <-> (nth_error l i = Some x \/ (i = length l /\ x = y)).
Proof.
  intros A l y i x. destruct (Nat.lt_ge_cases i (length l)) as [Hlt|Hge].
  - rewrite nth_error_app1 by assumption. split; [tauto|]. intros [H|[H _]]; [assumption|lia].
  - rewrite nth_error_app2 by assumption. split.
    + intros H. right. destruct (i - length l) as [|k] eqn:E; simpl in H.
      * split; [lia|congruence].
      * destruct k; discriminate.
    + intros [H|[-> ->]].
      * apply nth_error_None in Hge. congruence.
      * rewrite Nat.sub_diag. reflexivity.
Qed.

Lemma nth_error_lt : forall {A} (l : list A) i x, nth_error l i = Some x -> i < length l.
Proof. intros. apply nth_error_Some. congruence. Qed.

Lemma valid_args_Forall : forall s args, valid_args s args = true <-> Forall (fun a => a < length (nodes s)) args.
Proof.
  intros. unfold valid_args. rewrite forallb_forall, Forall_forall.
  split; intros H x Hx; specialize (H x Hx); [apply Nat.ltb_lt|apply Nat.ltb_lt]; assumption.
Qed.

(* ---- growth of the store --------------------------------------------------------------------- *)
Record ext (s s' : store) : Prop := {
  ext_nodes : exists ns, nodes s' = nodes s ++ ns;
  ext_syms : exists sy, syms s' = syms s ++ sy;
  ext_symtab : forall k f, assoc skey_eqb k (symtab s) = Some f -> assoc skey_eqb k (symtab s') = Some f;
  ext_dmax : dmax s' = dmax s
}.

Lemma ext_refl : forall s, ext s s.
Proof. intros s. split; [exists []; rewrite app_nil_r | exists []; rewrite app_nil_r | |]; auto. Qed.

Lemma ext_trans : forall a b c, ext a b -> ext b c -> ext a c.
Proof.
  intros a b c [[n1 H1] [s1 S1] T1 D1] [[n2 H2] [s2 S2] T2 D2]. split.
  - exists (n1 ++ n2). rewrite H2, H1, app_assoc. reflexivity.
  - exists (s1 ++ s2). rewrite S2, S1, app_assoc. reflexivity.
  - auto.
  - congruence.
Qed.

Lemma ext_node : forall s s' i n, ext s s' -> nth_error (nodes s) i = Some n -> nth_error (nodes s') i = Some n.
Proof. intros s s' i n [[ns H] _ _ _] Hn. rewrite H. apply nth_error_prefix. assumption. Qed.

Lemma ext_sym : forall s s' f si, ext s s' -> nth_error (syms s) f = Some si -> nth_error (syms s') f = Some si.
Proof. intros s s' f si [_ [sy H] _ _] Hn. rewrite H. apply nth_error_prefix. assumption. Qed.

Lemma ext_len : forall s s', ext s s' -> length (nodes s) <= length (nodes s').
Proof. intros s s' [[ns H] _ _ _]. rewrite H, app_length. lia. Qed.

Lemma sym_flag_ext : forall p s s' f, ext s s' -> f < length (syms s) -> sym_flag p s' f = sym_flag p s f.
Proof.
  intros p s s' f E Hf. unfold sym_flag.
  destruct (nth_error (syms s) f) eqn:H; [|apply nth_error_None in H; lia].
  rewrite (ext_sym _ _ _ _ E H). reflexivity.
Qed.

(* ---- stability of the comparison under growth -------------------------------------------------- *)
Section Stable.
  Variables (m0 : sortmode) (s s' : store).
  Hypothesis H : HC m0 s.
  Hypothesis E : ext s s'.

  Lemma is_const_term_ext : forall a, a < length (nodes s) -> is_const_term s' a = is_const_term s a.
  Proof.
    intros a Ha. unfold is_const_term.
    destruct (nth_error (nodes s) a) eqn:Hn; [|apply nth_error_None in Hn; lia].
    rewrite (ext_node _ _ _ _ E Hn). apply sym_flag_ext; [assumption|]. eapply hc_syms; eassumption.
  Qed.

  Lemma deep_key_ext : forall a, a < length (nodes s) -> deep_key s' a = deep_key s a.
  Proof.
    intros a Ha. unfold deep_key.
    destruct (nth_error (nodes s) a) as [[f args]|] eqn:Hn; [|apply nth_error_None in Hn; lia].
    rewrite (ext_node _ _ _ _ E Hn).
    destruct args as [|u [|v [|w r]]]; try reflexivity.
    rewrite (sym_flag_ext _ _ _ _ E (hc_syms _ _ H _ _ Hn)).
    pose proof (hc_sub _ _ H _ _ Hn) as Hs. simpl in Hs. inversion Hs; subst.
    rewrite is_const_term_ext by lia. reflexivity.
  Qed.

  Lemma term_lt_ext : forall m a b, a < length (nodes s) -> b < length (nodes s) -> term_lt m s' a b = term_lt m s a b.
  Proof. intros m a b Ha Hb. destruct m; simpl; rewrite ?deep_key_ext by assumption; reflexivity. Qed.

  Lemma tsort_ext : forall m l, Forall (fun a => a < length (nodes s)) l -> tsort m s' l = tsort m s l.
  Proof.
    intros m l Hl. apply ssort_ext. rewrite Forall_forall in Hl. intros a b Ha Hb. apply term_lt_ext; auto.
  Qed.

  Lemma sorted_args_ext : forall m l, Forall (fun a => a < length (nodes s)) l -> sorted_args m s l -> sorted_args m s' l.
  Proof.
    intros m l Hl. unfold sorted_args. induction 1 as [|a l Hs IH Hf]; constructor.
    - apply IH. inversion Hl; assumption.
    - inversion Hl as [|? ? Ha Hl']; subst. rewrite Forall_forall in *. intros b Hb.
      rewrite term_lt_ext; auto.
  Qed.
End Stable.

(* ---- adding a node and a table entry ----------------------------------------------------------- *)
Section MapAdd.
  Context {K : Type} (eqb : K -> K -> bool).
  Hypothesis eqb_eq : forall a b, eqb a b = true <-> a = b.
  Variables (mp : list (K * nat)) (ns : list node) (P : K -> node -> Prop) (n0 : node).
  Hypothesis Hold : forall k i, assoc eqb k mp = Some i <-> exists n, nth_error ns i = Some n /\ P k n.

  Lemma map_add_iff : forall k0, assoc eqb k0 mp = None -> P k0 n0 -> (forall k, P k n0 -> k = k0) ->
    forall k i, assoc eqb k ((k0, length ns) :: mp) = Some i <-> exists n, nth_error (ns ++ [n0]) i = Some n /\ P k n.
  Proof.
    intros k0 Hnone HP Huniq k i. simpl. destruct (eqb k k0) eqn:Ek.
    - apply eqb_eq in Ek. subst k. split.
      + intros Hi. injection Hi as <-. exists n0. split; [apply nth_error_snoc; right; auto | assumption].
      + intros (n & Hn & Pn). apply nth_error_snoc in Hn. destruct Hn as [Hn|[-> _]]; [|reflexivity].
        assert (assoc eqb k0 mp = Some i) by (apply Hold; eauto). congruence.
    - rewrite Hold. split; intros (n & Hn & Pn); exists n.
      + split; [apply nth_error_snoc; left|]; assumption.
      + apply nth_error_snoc in Hn. destruct Hn as [Hn|[_ ->]]; [auto|].
        apply Huniq in Pn. subst. assert (eqb k0 k0 = true) by (apply eqb_eq; reflexivity). congruence.
  Qed.

  Lemma map_keep_iff : (forall k, ~ P k n0) ->
    forall k i, assoc eqb k mp = Some i <-> exists n, nth_error (ns ++ [n0]) i = Some n /\ P k n.
  Proof.
    intros Hno k i. rewrite Hold. split; intros (n & Hn & Pn); exists n.
    - split; [apply nth_error_snoc; left|]; assumption.
    - apply nth_error_snoc in Hn. destruct Hn as [Hn|[_ ->]]; [auto|]. exfalso. eapply Hno; eassumption.
  Qed.
End MapAdd.

Definition Pc (f : nat) (n : node) : Prop := n = Node f [].
Definition Px (s : store) (k : key) (n : node) : Prop := n = Node (fst k) (snd k) /\ snd k <> [] /\ boolop s (fst k) = false.
Definition Pb (s : store) (k : key) (n : node) : Prop := n = Node (fst k) (snd k) /\ snd k <> [] /\ boolop s (fst k) = true.

Lemma Pc_iff : forall ns f i, (exists n, nth_error ns i = Some n /\ Pc f n) <-> nth_error ns i = Some (Node f []).
Proof. intros. unfold Pc. split; [intros (n & H & ->); assumption | eauto]. Qed.
Lemma Px_iff : forall s ns f a i, (exists n, nth_error ns i = Some n /\ Px s (f, a) n) <->
  (nth_error ns i = Some (Node f a) /\ a <> [] /\ boolop s f = false).
Proof. intros. unfold Px; simpl. split; [intros (n & H & -> & ?); auto | intros (H & ?); eauto]. Qed.
Lemma Pb_iff : forall s ns f a i, (exists n, nth_error ns i = Some n /\ Pb s (f, a) n) <->
  (nth_error ns i = Some (Node f a) /\ a <> [] /\ boolop s f = true).
Proof. intros. unfold Pb; simpl. split; [intros (n & H & -> & ?); auto | intros (H & ?); eauto]. Qed.

Lemma nat_eqb_eq : forall a b : nat, (a =? b) = true <-> a = b.
Proof. apply Nat.eqb_eq. Qed.

Lemma new_term_ext : forall s t f args, ext s (fst (new_term s t f args)).
Proof. intros. split; simpl; [eexists; reflexivity | exists []; rewrite app_nil_r; reflexivity | auto | reflexivity]. Qed.

Lemma new_term_HC : forall m s t f args si,
  HC m s -> nth_error (syms s) f = Some si ->
  Forall (fun a => a < length (nodes s)) args ->
  match t with
  | TC => args = [] /\ assoc Nat.eqb f (cmap s) = None
  | TX => args <> [] /\ sy_boolop si = false /\ assoc key_eqb (f, args) (xmap s) = None /\ (sy_comm si = true -> sorted_args m s args)
  | TB => args <> [] /\ sy_boolop si = true /\ assoc key_eqb (f, args) (bmap s) = None
  end ->
  HC m (fst (new_term s t f args)).
Proof.
  intros m s t f args si H Hsi Hargs Ht.
  pose proof (new_term_ext s t f args) as E.
  assert (Hbo : boolop s f = sy_boolop si) by (unfold boolop, sym_flag; rewrite Hsi; reflexivity).
  assert (Hco : comm s f = sy_comm si) by (unfold comm, sym_flag; rewrite Hsi; reflexivity).
  assert (Hc : forall f' i, assoc Nat.eqb f' (cmap s) = Some i <-> exists n, nth_error (nodes s) i = Some n /\ Pc f' n)
    by (intros; rewrite Pc_iff; apply (hc_cmap _ _ H)).
  assert (Hx : forall k i, assoc key_eqb k (xmap s) = Some i <-> exists n, nth_error (nodes s) i = Some n /\ Px s k n)
    by (intros [f' a'] i; rewrite Px_iff; apply (hc_xmap _ _ H)).
  assert (Hb : forall k i, assoc key_eqb k (bmap s) = Some i <-> exists n, nth_error (nodes s) i = Some n /\ Pb s k n)
    by (intros [f' a'] i; rewrite Pb_iff; apply (hc_bmap _ _ H)).
  split.
  - (* hc_syms *) simpl. intros i n Hn. apply nth_error_snoc in Hn. destruct Hn as [Hn|[_ ->]].
    + eapply hc_syms; eassumption.
    + simpl. eapply nth_error_lt; eassumption.
  - (* hc_sub *) simpl. intros i n Hn. apply nth_error_snoc in Hn. destruct Hn as [Hn|[-> ->]].
    + eapply hc_sub; eassumption.
    + assumption.
  - (* hc_cmap *) intros f' i. simpl nodes. rewrite <- Pc_iff. destruct t; simpl cmap.
    + destruct Ht as [-> Hnone]. apply (map_add_iff Nat.eqb nat_eqb_eq); try assumption; unfold Pc; [reflexivity | congruence].
    + apply map_keep_iff; [assumption|]. unfold Pc. intros k Hk. injection Hk as _ Hk. apply (proj1 Ht). assumption.
    + apply map_keep_iff; [assumption|]. unfold Pc. intros k Hk. injection Hk as _ Hk. apply (proj1 Ht). assumption.
  - (* hc_xmap *) intros f' a' i. simpl nodes. change (boolop (fst (new_term s t f args)) f') with (boolop s f').
    rewrite <- Px_iff. destruct t; simpl xmap.
    + apply map_keep_iff; [assumption|]. unfold Px. intros [kf ka] (Hk & Hne & _). simpl in *. injection Hk as _ Hk.
      apply Hne. destruct Ht; congruence.
    + apply map_keep_iff; [assumption|]. unfold Px. intros [kf ka] (Hk & _ & Hbf). simpl in *. injection Hk as -> _.
      destruct Ht as (_ & Hbt & _). congruence.
    + destruct Ht as (Hne & Hbf & Hnone & _).
      apply (map_add_iff key_eqb key_eqb_eq); try assumption; unfold Px; simpl.
      * repeat split; [assumption | congruence].
      * intros [kf ka] (Hk & _). simpl in Hk. injection Hk as -> ->. reflexivity.
  - (* hc_bmap *) intros f' a' i. simpl nodes. change (boolop (fst (new_term s t f args)) f') with (boolop s f').
    rewrite <- Pb_iff. destruct t; simpl bmap.
    + apply map_keep_iff; [assumption|]. unfold Pb. intros [kf ka] (Hk & Hne & _). simpl in *. injection Hk as _ Hk.
      apply Hne. destruct Ht; congruence.
    + destruct Ht as (Hne & Hbt & Hnone).
      apply (map_add_iff key_eqb key_eqb_eq); try assumption; unfold Pb; simpl.
      * repeat split; [assumption | congruence].
      * intros [kf ka] (Hk & _). simpl in Hk. injection Hk as -> ->. reflexivity.
    + apply map_keep_iff; [assumption|]. unfold Pb. intros [kf ka] (Hk & _ & Hbt). simpl in *. injection Hk as -> _.
      destruct Ht as (_ & Hbf & _). congruence.
  - (* hc_sorted *) intros i f' a' Hn Hcm Hbf.
    change (comm (fst (new_term s t f args)) f') with (comm s f') in Hcm.
    change (boolop (fst (new_term s t f args)) f') with (boolop s f') in Hbf.
    simpl in Hn. apply nth_error_snoc in Hn. destruct Hn as [Hn|[-> Hn]].
    + eapply sorted_args_ext; try eassumption.
      * pose proof (hc_sub _ _ H _ _ Hn) as Hs. simpl in Hs. apply nth_error_lt in Hn.
        eapply Forall_impl; [|exact Hs]. simpl. intros. lia.
      * eapply hc_sorted; eassumption.
    + injection Hn as -> ->. eapply sorted_args_ext; try eassumption.
      destruct t.
      * destruct Ht as [-> _]. constructor.
      * destruct Ht as (_ & Hbt & _). congruence.
      * destruct Ht as (_ & _ & _ & Hs). apply Hs. congruence.
  - (* hc_symtab *) simpl. apply (hc_symtab _ _ H).
Qed.

(* ---- the operations preserve the invariant and only grow the store ------------------------------ *)
Lemma HC_empty : forall m dm, HC m (empty_store dm).
Proof.
  intros. split; simpl; intros.
  - destruct i; discriminate.
  - destruct i; discriminate.
  - split; [discriminate | destruct i; discriminate].
  - split; [discriminate | intros [Hn _]; destruct i; discriminate].
  - split; [discriminate | intros [Hn _]; destruct i; discriminate].
  - destruct i; discriminate.
  - discriminate.
Qed.

Lemma declare_ext : forall s name sig info, ext s (fst (declare s name sig info)).
Proof.
  intros. unfold declare. destruct (assoc skey_eqb (name, sig) (symtab s)) eqn:A; simpl; [apply ext_refl|].
  split; simpl; [exists []; rewrite app_nil_r; reflexivity | eexists; reflexivity | | reflexivity].
  intros k f Hk. destruct (skey_eqb k (name, sig)) eqn:Ek; [|assumption].
  apply skey_eqb_eq in Ek. subst. congruence.
Qed.

Lemma declare_HC : forall m s name sig info, HC m s -> HC m (fst (declare s name sig info)).
Proof.
  intros m s name sig info H.
  pose proof (declare_ext s name sig info) as E. revert E.
  unfold declare. destruct (assoc skey_eqb (name, sig) (symtab s)) eqn:A; simpl; [auto|]. intros E.
  set (s' := Store _ _ _ _ _ _ _ _) in *.
  assert (Hfl : forall p i f a, nth_error (nodes s) i = Some (Node f a) -> sym_flag p s' f = sym_flag p s f).
  { intros p i f a Hn. apply sym_flag_ext; [assumption|]. apply (hc_syms _ _ H _ _ Hn). }
  split; simpl.
  - intros i n Hn. rewrite app_length. pose proof (hc_syms _ _ H _ _ Hn). simpl. lia.
  - apply (hc_sub _ _ H).
  - apply (hc_cmap _ _ H).
  - intros f a i. rewrite (hc_xmap _ _ H). unfold boolop.
    split; intros (Hn & Hne & Hb); (split; [exact Hn | split; [exact Hne|]]);
      [rewrite (Hfl _ _ _ _ Hn) | rewrite <- (Hfl _ _ _ _ Hn)]; exact Hb.
  - intros f a i. rewrite (hc_bmap _ _ H). unfold boolop.
    split; intros (Hn & Hne & Hb); (split; [exact Hn | split; [exact Hne|]]);
      [rewrite (Hfl _ _ _ _ Hn) | rewrite <- (Hfl _ _ _ _ Hn)]; exact Hb.
  - intros i f a Hn Hc Hb. unfold comm, boolop in *.
    rewrite (Hfl sy_comm _ _ _ Hn) in Hc. rewrite (Hfl sy_boolop _ _ _ Hn) in Hb.
    eapply sorted_args_ext; try eassumption.
    + pose proof (hc_sub _ _ H _ _ Hn) as Hs. simpl in Hs. apply nth_error_lt in Hn.
      eapply Forall_impl; [|exact Hs]. simpl. intros. lia.
    + exact (hc_sorted _ _ H i f a Hn Hc Hb).
  - intros k f. rewrite app_length. simpl. destruct (skey_eqb k (name, sig)).
    + intros Hf. injection Hf as <-. lia.
    + intros Hf. apply (hc_symtab _ _ H) in Hf. lia.
Qed.

Lemma tsort_nonempty : forall m s l, l <> [] -> tsort m s l <> [].
Proof.
  intros m s l Hl Hn. pose proof (tsort_perm m s l) as P. rewrite Hn in P.
  apply Permutation_nil in P. auto.
Qed.

Lemma tsort_valid : forall m s l, Forall (fun a => a < length (nodes s)) l -> Forall (fun a => a < length (nodes s)) (tsort m s l).
Proof.
  intros m s l Hl. rewrite Forall_forall in *. intros x Hx. apply Hl.
  eapply Permutation_in; [apply tsort_perm | eassumption].
Qed.

Lemma mkFun_HC_ext : forall m s f args, HC m s -> HC m (fst (mkFun m s f args)) /\ ext s (fst (mkFun m s f args)).
Proof.
  intros m s f args H. unfold mkFun.
  destruct (nth_error (syms s) f) as [si|] eqn:Hsi; [|split; [assumption | apply ext_refl]].
  destruct (valid_args s args) eqn:Hv; simpl; [|split; [assumption | apply ext_refl]].
  apply valid_args_Forall in Hv.
  destruct args as [|a0 ar].
  - destruct (assoc Nat.eqb f (cmap s)) eqn:A; simpl; [split; [assumption | apply ext_refl]|].
    split; [|apply (new_term_ext s TC f [])].
    apply (new_term_HC m s TC f [] si); auto.
  - destruct (sy_boolop si) eqn:Hbo; simpl.
    + destruct (assoc key_eqb (f, a0 :: ar) (bmap s)) eqn:A; simpl; [split; [assumption | apply ext_refl]|].
      split; [|apply (new_term_ext s TB f (a0 :: ar))].
      apply (new_term_HC m s TB f (a0 :: ar) si); auto. repeat split; [discriminate | assumption..].
    + destruct (negb (sy_flex si) && negb (sy_nargs si =? S (length ar))); [split; [assumption | apply ext_refl]|].
      set (a := if sy_comm si then tsort m s (a0 :: ar) else a0 :: ar).
      destruct (assoc key_eqb (f, a) (xmap s)) eqn:A; simpl; [split; [assumption | apply ext_refl]|].
      split; [|apply (new_term_ext s TX f a)].
      apply (new_term_HC m s TX f a si); auto.
      * subst a. destruct (sy_comm si); [apply tsort_valid|]; assumption.
      * repeat split; try assumption.
        -- subst a. destruct (sy_comm si); [apply tsort_nonempty|]; discriminate.
        -- intros Hc. subst a. rewrite Hc. apply tsort_sorted.
Qed.

Lemma HC_dcount : forall m s d, HC m s -> HC m (Store (syms s) (symtab s) (nodes s) (cmap s) (bmap s) (xmap s) d (dmax s)).
Proof. intros m s d [H1 H2 H3 H4 H5 H6 H7]. split; assumption. Qed.

Lemma ext_dcount : forall s0 s d, ext s0 s -> ext s0 (Store (syms s) (symtab s) (nodes s) (cmap s) (bmap s) (xmap s) d (dmax s)).
Proof. intros s0 s d [H1 H2 H3 H4]. split; assumption. Qed.

Lemma mkDistinct_HC_ext : forall m s f args, HC m s -> HC m (fst (mkDistinct m s f args)) /\ ext s (fst (mkDistinct m s f args)).
Proof.
  intros m s f args H. unfold mkDistinct.
  destruct (nth_error (syms s) f) as [si|] eqn:Hsi; [|split; [assumption | apply ext_refl]].
  destruct (valid_args s args) eqn:Hv; simpl; [|split; [assumption | apply ext_refl]].
  destruct (length args <? 3) eqn:Hlen; simpl; [split; [assumption | apply ext_refl]|].
  apply valid_args_Forall in Hv.
  destruct (sy_boolop si) eqn:Hbo; [split; [assumption | apply ext_refl]|].
  destruct (has_adj_dup (tsort m s args)); [split; [assumption | apply ext_refl]|].
  destruct (forallb (is_const_term s) (tsort m s args)); [split; [assumption | apply ext_refl]|].
  destruct (assoc key_eqb (f, tsort m s args) (xmap s)) eqn:A; simpl; [split; [assumption | apply ext_refl]|].
  destruct (dcount s <? dmax s); simpl; [|split; [assumption | apply ext_refl]].
  assert (args <> []) by (destruct args; [discriminate | discriminate]).
  split.
  - apply (HC_dcount m (fst (new_term s TX f (tsort m s args)))).
    apply (new_term_HC m s TX f (tsort m s args) si); auto.
    + apply tsort_valid; assumption.
    + repeat split; try assumption; [apply tsort_nonempty; assumption | intros; apply tsort_sorted].
  - apply (ext_dcount s (fst (new_term s TX f (tsort m s args)))). apply new_term_ext.
Qed.

Lemma step_HC_ext : forall m s o, HC m s -> HC m (fst (step m s o)) /\ ext s (fst (step m s o)).
Proof.
  intros m s o H. destruct o as [name sig info | name sig info | f args | f args]; simpl.
  - pose proof (declare_HC m s name sig info H). pose proof (declare_ext s name sig info).
    destruct (declare s name sig info); simpl in *. auto.
  - pose proof (declare_HC m s name sig info H) as H1. pose proof (declare_ext s name sig info) as E1.
    destruct (declare s name sig info) as [s1 f]; simpl in *.
    destruct (mkFun_HC_ext m s1 f [] H1). split; [assumption | eapply ext_trans; eassumption].
  - apply mkFun_HC_ext; assumption.
  - apply mkDistinct_HC_ext; assumption.
Qed.

Lemma run_from_HC_ext : forall m ops s, HC m s -> HC m (run_from m s ops) /\ ext s (run_from m s ops).
Proof.
  intros m ops. unfold run_from. induction ops as [|o ops IH]; intros s H; simpl.
  - split; [assumption | apply ext_refl].
  - destruct (step_HC_ext m s o H) as [H1 E1]. destruct (IH _ H1) as [H2 E2].
    split; [assumption | eapply ext_trans; eassumption].
Qed.

Theorem hc_invariant_run : forall m dm ops, HC m (run m dm ops).
Proof. intros. apply run_from_HC_ext. apply HC_empty. Qed.

(* ---- consequences of the invariant -------------------------------------------------------------- *)
Lemma HC_nodup : forall m s i j n, HC m s -> nth_error (nodes s) i = Some n -> nth_error (nodes s) j = Some n -> i = j.
Proof.
  intros m s i j [f a] H Hi Hj. destruct a as [|a0 ar].
  - apply (hc_cmap _ _ H) in Hi, Hj. congruence.
  - destruct (boolop s f) eqn:Hb.
    + assert (assoc key_eqb (f, a0 :: ar) (bmap s) = Some i) by (apply (hc_bmap _ _ H); repeat split; [assumption | discriminate | assumption]).
      assert (assoc key_eqb (f, a0 :: ar) (bmap s) = Some j) by (apply (hc_bmap _ _ H); repeat split; [assumption | discriminate | assumption]).
      congruence.
    + assert (assoc key_eqb (f, a0 :: ar) (xmap s) = Some i) by (apply (hc_xmap _ _ H); repeat split; [assumption | discriminate | assumption]).
      assert (assoc key_eqb (f, a0 :: ar) (xmap s) = Some j) by (apply (hc_xmap _ _ H); repeat split; [assumption | discriminate | assumption]).
      congruence.
Qed.

(* the key under which mkFun files (f, args) *)
Definition canon (m : sortmode) (s : store) (si : syminfo) (args : list nat) : list nat :=
  match args with
  | [] => []
  | _ => if negb (sy_boolop si) && sy_comm si then tsort m s args else args
  end.

Definition arity_ok (si : syminfo) (args : list nat) : bool :=
  match args with
  | [] => true
  | _ => sy_boolop si || sy_flex si || (sy_nargs si =? length args)
  end.

(* a successful mkFun returns the node filed under the canonical key *)
Lemma mkFun_result : forall m s f args s' id,
  HC m s -> mkFun m s f args = (s', RTerm id) ->
  exists si, nth_error (syms s) f = Some si /\ valid_args s args = true /\ arity_ok si args = true /\
             nth_error (nodes s') id = Some (Node f (canon m s si args)).
Proof.
  intros m s f args s' id H. unfold mkFun.
  destruct (nth_error (syms s) f) as [si|] eqn:Hsi; [|discriminate].
  destruct (valid_args s args) eqn:Hv; simpl; [|discriminate].
  assert (Hbo : boolop s f = sy_boolop si) by (unfold boolop, sym_flag; rewrite Hsi; reflexivity).
  destruct args as [|a0 ar].
  - destruct (assoc Nat.eqb f (cmap s)) eqn:A; simpl; intros R; injection R as <- <-; exists si; repeat split; auto.
    + apply (hc_cmap _ _ H). assumption.
    + simpl. apply nth_error_snoc. right. auto.
  - destruct (sy_boolop si) eqn:Hb; simpl.
    + destruct (assoc key_eqb (f, a0 :: ar) (bmap s)) eqn:A; simpl; intros R; injection R as <- <-; exists si; rewrite Hb; repeat split; auto.
      * apply (hc_bmap _ _ H) in A. tauto.
      * simpl. apply nth_error_snoc. right. auto.
    + destruct (sy_flex si) eqn:Hf; simpl.
      * destruct (assoc key_eqb _ (xmap s)) eqn:A; simpl; intros R; injection R as <- <-; exists si; rewrite Hb, ?Hf; repeat split; auto.
        -- apply (hc_xmap _ _ H) in A. simpl. tauto.
        -- simpl. apply nth_error_snoc. right. auto.
      * destruct (sy_nargs si =? S (length ar)) eqn:Hn; simpl; [|discriminate].
        destruct (assoc key_eqb _ (xmap s)) eqn:A; simpl; intros R; injection R as <- <-; exists si; rewrite Hb, ?Hf; repeat split; auto.
        -- apply (hc_xmap _ _ H) in A. simpl. tauto.
        -- simpl. apply nth_error_snoc. right. auto.
Qed.

(* conversely: if the node filed under the canonical key exists, mkFun returns it and changes nothing *)
Lemma mkFun_hit : forall m s f args si id,
  HC m s -> nth_error (syms s) f = Some si -> valid_args s args = true -> arity_ok si args = true ->
  nth_error (nodes s) id = Some (Node f (canon m s si args)) ->
  mkFun m s f args = (s, RTerm id).
Proof.
  intros m s f args si id H Hsi Hv Har Hn. unfold mkFun. rewrite Hsi, Hv. simpl.
  assert (Hbo : boolop s f = sy_boolop si) by (unfold boolop, sym_flag; rewrite Hsi; reflexivity).
  destruct args as [|a0 ar].
  - simpl in Hn. apply (hc_cmap _ _ H) in Hn. rewrite Hn. reflexivity.
  - unfold canon in Hn. simpl in Har. destruct (sy_boolop si) eqn:Hb; simpl in *.
    + assert (A : assoc key_eqb (f, a0 :: ar) (bmap s) = Some id)
        by (apply (hc_bmap _ _ H); repeat split; [assumption | discriminate | congruence]).
      rewrite A. reflexivity.
    + assert (negb (sy_flex si) && negb (sy_nargs si =? S (length ar)) = false) as ->
        by (destruct (sy_flex si); simpl in *; [reflexivity | rewrite Har; reflexivity]).
      set (a := if sy_comm si then tsort m s (a0 :: ar) else a0 :: ar) in *.
      assert (a <> []) by (subst a; destruct (sy_comm si); [apply tsort_nonempty|]; discriminate).
      assert (A : assoc key_eqb (f, a) (xmap s) = Some id)
        by (apply (hc_xmap _ _ H); repeat split; [assumption | assumption | congruence]).
      rewrite A. reflexivity.
Qed.

Lemma mkFun_fst_HC : forall m s f args s' r, HC m s -> mkFun m s f args = (s', r) -> HC m s' /\ ext s s'.
Proof. intros m s f args s' r H E. pose proof (mkFun_HC_ext m s f args H) as P. rewrite E in P. exact P. Qed.

Lemma valid_args_ext : forall s s' l, ext s s' -> valid_args s l = true -> valid_args s' l = true.
Proof.
  intros s s' l E. rewrite !valid_args_Forall. apply Forall_impl. intros a Ha. pose proof (ext_len _ _ E). lia.
Qed.

Lemma arity_ok_perm : forall si l l', Permutation l l' -> arity_ok si l = arity_ok si l'.
Proof.
  intros si l l' P. pose proof (Permutation_length P) as L.
  destruct l, l'; try discriminate; [reflexivity|]. unfold arity_ok. rewrite L. reflexivity.
Qed.

(* general form: rebuilding with arguments that have the same canonical key returns the same identity *)
Lemma rebuild_same_id : forall m s0 f args s1 id ops s3 args' si,
  HC m s0 -> mkFun m s0 f args = (s1, RTerm id) -> s3 = run_from m s1 ops ->
  nth_error (syms s0) f = Some si ->
  valid_args s0 args' = true -> arity_ok si args' = arity_ok si args ->
  canon m s3 si args' = canon m s0 si args ->
  mkFun m s3 f args' = (s3, RTerm id).
Proof.
  intros m s0 f args s1 id ops s3 args' si H0 E -> Hsi Hv' Har Hc.
  destruct (mkFun_result _ _ _ _ _ _ H0 E) as (si' & Hsi' & Hv & Ha & Hn).
  assert (si' = si) by congruence. subst si'.
  destruct (mkFun_fst_HC _ _ _ _ _ _ H0 E) as [H1 E01].
  destruct (run_from_HC_ext m ops s1 H1) as [H3 E13].
  pose proof (ext_trans _ _ _ E01 E13) as E03.
  apply mkFun_hit with (si := si); try assumption.
  - exact (ext_sym _ _ _ _ E03 Hsi).
  - exact (valid_args_ext _ _ _ E03 Hv').
  - congruence.
  - rewrite Hc. exact (ext_node _ _ _ _ E13 Hn).
Qed.

Lemma canon_ext : forall m s s' si args, HC m s -> ext s s' -> valid_args s args = true ->
  canon m s' si args = canon m s si args.
Proof.
  intros m s s' si args H E Hv. unfold canon. destruct args; [reflexivity|].
  destruct (negb (sy_boolop si) && sy_comm si); [|reflexivity].
  eapply tsort_ext; try eassumption. apply valid_args_Forall. assumption.
Qed.

Lemma canon_perm : forall m s si args args', total_mode m -> Permutation args args' ->
  sy_comm si = true -> sy_boolop si = false -> canon m s si args' = canon m s si args.
Proof.
  intros m s si args args' Hm P Hc Hb. unfold canon. rewrite Hc, Hb. simpl.
  destruct args, args'; try reflexivity.
  - apply Permutation_nil in P. discriminate.
  - apply Permutation_sym, Permutation_nil in P. discriminate.
  - apply tsort_perm_eq; [assumption | apply Permutation_sym; assumption].
Qed.

Lemma valid_args_perm : forall s l l', Permutation l l' -> valid_args s l = true -> valid_args s l' = true.
Proof.
  intros s l l' P. rewrite !valid_args_Forall, !Forall_forall. intros Hl x Hx. apply Hl.
  eapply Permutation_in; [apply Permutation_sym|]; eassumption.
Qed.

Theorem same_term_same_id_run : forall m dm ops1 ops2 f args s1 id,
  mkFun m (run m dm ops1) f args = (s1, RTerm id) ->
  mkFun m (run_from m s1 ops2) f args = (run_from m s1 ops2, RTerm id).
Proof.
  intros m dm ops1 ops2 f args s1 id E.
  pose proof (hc_invariant_run m dm ops1) as H0.
  destruct (mkFun_result _ _ _ _ _ _ H0 E) as (si & Hsi & Hv & Ha & Hn).
  destruct (mkFun_fst_HC _ _ _ _ _ _ H0 E) as [H1 E01].
  destruct (run_from_HC_ext m ops2 s1 H1) as [H3 E13].
  apply (rebuild_same_id m (run m dm ops1) f args s1 id ops2 _ args si H0 E eq_refl Hsi Hv eq_refl).
  apply canon_ext; [assumption | exact (ext_trans _ _ _ E01 E13) | assumption].
Qed.

Theorem commutative_order_insensitive_run : forall m dm ops1 ops2 f args args' s1 id,
  total_mode m ->
  comm (run m dm ops1) f = true -> boolop (run m dm ops1) f = false -> Permutation args args' ->
  mkFun m (run m dm ops1) f args = (s1, RTerm id) ->
  mkFun m (run_from m s1 ops2) f args' = (run_from m s1 ops2, RTerm id).
Proof.
  intros m dm ops1 ops2 f args args' s1 id Hm Hc Hb P E.
  pose proof (hc_invariant_run m dm ops1) as H0.
  destruct (mkFun_result _ _ _ _ _ _ H0 E) as (si & Hsi & Hv & Ha & Hn).
  destruct (mkFun_fst_HC _ _ _ _ _ _ H0 E) as [H1 E01].
  destruct (run_from_HC_ext m ops2 s1 H1) as [H3 E13].
  assert (Hv' : valid_args (run m dm ops1) args' = true) by (eapply valid_args_perm; eassumption).
  unfold comm, boolop, sym_flag in Hc, Hb. rewrite Hsi in Hc, Hb.
  apply (rebuild_same_id m (run m dm ops1) f args s1 id ops2 _ args' si H0 E eq_refl Hsi Hv').
  - symmetry. apply arity_ok_perm. assumption.
  - rewrite (canon_ext m (run m dm ops1)); [|assumption | exact (ext_trans _ _ _ E01 E13) | assumption].
    apply canon_perm; assumption.
Qed.

(* variables and constants: the same (name, signature) gives the same symbol, hence the same term *)
Theorem same_var_same_id_run : forall m dm ops1 ops2 name sig info info' s1 id,
  step m (run m dm ops1) (OpMkVar name sig info) = (s1, RTerm id) ->
  step m (run_from m s1 ops2) (OpMkVar name sig info') = (run_from m s1 ops2, RTerm id).
Proof.
  intros m dm ops1 ops2 name sig info info' s1 id. simpl.
  pose proof (hc_invariant_run m dm ops1) as H0.
  pose proof (declare_HC m _ name sig info H0) as Hd. pose proof (declare_ext (run m dm ops1) name sig info) as Ed.
  assert (Hs : assoc skey_eqb (name, sig) (symtab (fst (declare (run m dm ops1) name sig info))) = Some (snd (declare (run m dm ops1) name sig info))).
  { unfold declare. destruct (assoc skey_eqb (name, sig) (symtab (run m dm ops1))) eqn:A; simpl; [assumption|].
    assert (skey_eqb (name, sig) (name, sig) = true) as -> by (apply skey_eqb_eq; reflexivity). reflexivity. }
  destruct (declare (run m dm ops1) name sig info) as [sd f]; simpl in *. intros E.
  destruct (mkFun_result _ _ _ _ _ _ Hd E) as (si & Hsi & Hv & Ha & Hn).
  destruct (mkFun_fst_HC _ _ _ _ _ _ Hd E) as [H1 E01].
  destruct (run_from_HC_ext m ops2 s1 H1) as [H3 E13].
  pose proof (ext_trans _ _ _ E01 E13) as E03.
  unfold declare. rewrite (ext_symtab _ _ E03 _ _ Hs).
  apply (rebuild_same_id m sd f [] s1 id ops2 _ [] si Hd E eq_refl Hsi Hv eq_refl). reflexivity.
Qed.

(* ids unfold to trees: functional, total on valid ids, injective *)
Section TreeInd.
  Variable P : tree -> Prop.
  Hypothesis HT : forall f ts, Forall P ts -> P (T f ts).
  Fixpoint tree_ind' (t : tree) : P t :=
    match t with
    | T f ts => HT f ts ((fix go (l : list tree) : Forall P l :=
                            match l with [] => Forall_nil P | x :: r => Forall_cons x (tree_ind' x) (go r) end) ts)
    end.
End TreeInd.

Lemma denotes_injective : forall m s, HC m s -> forall t i j, denotes s i t -> denotes s j t -> i = j.
Proof.
  intros m s H. induction t as [f ts IH] using tree_ind'. intros i j Di Dj.
  inversion Di as [? ? ai ? Hi Fi]; inversion Dj as [? ? aj ? Hj Fj]; subst.
  assert (ai = aj).
  { clear Hi Hj Di Dj. revert ai aj Fi Fj. induction IH as [|t ts Pt _ IHts]; intros ai aj Fi Fj.
    - inversion Fi; inversion Fj; reflexivity.
    - inversion Fi; inversion Fj; subst. f_equal; [apply Pt; assumption | apply IHts; assumption]. }
  subst. eapply HC_nodup; eassumption.
Qed.

Lemma denotes_functional : forall s t i, denotes s i t -> forall t', denotes s i t' -> t = t'.
Proof.
  intros s. induction t as [f ts IH] using tree_ind'. intros i D t' D'.
  inversion D as [? ? a ? Hn F]; inversion D' as [? f' a' ts' Hn' F']; subst.
  rewrite Hn in Hn'. injection Hn' as <- <-. f_equal.
  clear Hn D D'. revert a ts' F F'. induction IH as [|t ts Pt _ IHts]; intros a ts' F F'.
  - inversion F; subst. inversion F'. reflexivity.
  - inversion F; subst. inversion F'; subst. f_equal; [eapply Pt; eassumption | eapply IHts; eassumption].
Qed.

Lemma denotes_total : forall m s, HC m s -> forall i, i < length (nodes s) -> exists t, denotes s i t.
Proof.
  intros m s H i. induction i as [i IH] using lt_wf_ind. intros Hi.
  destruct (nth_error (nodes s) i) as [[f a]|] eqn:Hn; [|apply nth_error_None in Hn; lia].
  pose proof (hc_sub _ _ H _ _ Hn) as Hs. simpl in Hs.
  assert (exists ts, Forall2 (denotes s) a ts) as [ts Hts].
  { clear Hn. induction a as [|x a IHa]; [exists []; constructor|].
    inversion Hs; subst. destruct IHa as [ts Hts]; [assumption|].
    destruct (IH x) as [t Ht]; [assumption | lia|]. exists (t :: ts). constructor; assumption. }
  exists (T f ts). econstructor; eassumption.
Qed.

Theorem distinct_ids_distinct_trees_run : forall m dm ops i j t t',
  let s := run m dm ops in
  denotes s i t -> denotes s j t' -> i <> j -> t <> t'.
Proof.
  intros m dm ops i j t t' s Di Dj Hne Heq. subst t'. apply Hne.
  eapply denotes_injective; try eassumption. apply hc_invariant_run.
Qed.

Theorem subterms_first_run : forall m dm ops i n,
  nth_error (nodes (run m dm ops)) i = Some n -> Forall (fun a => a < i) (n_args n).
Proof. intros m dm ops i n. apply (hc_sub _ _ (hc_invariant_run m dm ops)). Qed.

(* identities are handed out in creation order: an operation appends at most one node *)
Lemma new_term_nodes : forall s t f a, nodes (fst (new_term s t f a)) = nodes s ++ [Node f a].
Proof. reflexivity. Qed.

Theorem step_appends : forall m s o, nodes (fst (step m s o)) = nodes s \/ exists n, nodes (fst (step m s o)) = nodes s ++ [n].
Proof.
  assert (HF : forall m s f args, nodes (fst (mkFun m s f args)) = nodes s \/ exists n, nodes (fst (mkFun m s f args)) = nodes s ++ [n]).
  { intros m s f args. unfold mkFun.
    destruct (nth_error (syms s) f); [|auto]. destruct (negb (valid_args s args)); [auto|].
    destruct args.
    - destruct (assoc Nat.eqb f (cmap s)); simpl; eauto.
    - destruct (negb (sy_boolop s0)).
      + destruct (negb (sy_flex s0) && negb (sy_nargs s0 =? length (n :: args))); [auto|].
        destruct (assoc key_eqb _ (xmap s)); simpl; eauto.
      + destruct (assoc key_eqb _ (bmap s)); simpl; eauto. }
  intros m s o. destruct o as [name sig info | name sig info | f args | f args]; simpl.
  - unfold declare. destruct (assoc skey_eqb (name, sig) (symtab s)); simpl; auto.
  - assert (nodes (fst (declare s name sig info)) = nodes s) as Hd
      by (unfold declare; destruct (assoc skey_eqb (name, sig) (symtab s)); reflexivity).
    destruct (declare s name sig info) as [s1 f]. simpl in Hd. rewrite <- Hd. apply HF.
  - apply HF.
  - unfold mkDistinct. destruct (nth_error (syms s) f); [|auto].
    destruct (negb (valid_args s args) || (length args <? 3)); [auto|].
    destruct (sy_boolop s0); [auto|]. destruct (has_adj_dup _); [auto|]. destruct (forallb _ _); [auto|].
    destruct (assoc key_eqb _ (xmap s)); simpl; [auto|]. destruct (dcount s <? dmax s); simpl; eauto.
Qed.

(* ---- the dump checker -------------------------------------------------------------------------- *)
Definition dump_ok (m : sortmode) (sy : list syminfo) (ns : list node) : Prop :=
  let s := dump_store sy ns in
  (forall i j n, nth_error ns i = Some n -> nth_error ns j = Some n -> i = j) /\
  (forall i n, nth_error ns i = Some n -> n_sym n < length sy /\ Forall (fun a => a < i) (n_args n)) /\
  (forall i n, nth_error ns i = Some n -> comm s (n_sym n) = true -> boolop s (n_sym n) = false -> sorted_args m s (n_args n)).

Lemma sorted_b_sound : forall lt l, sorted_b lt l = true -> StronglySorted (fun a b => lt b a = false) l.
Proof.
  induction l as [|a l IH]; simpl; intros H; constructor.
  - apply IH. apply andb_true_iff in H. tauto.
  - apply andb_true_iff in H. destruct H as [H _]. rewrite forallb_forall in H. rewrite Forall_forall.
    intros x Hx. specialize (H x Hx). apply negb_true_iff in H. assumption.
Qed.

Lemma sorted_b_complete : forall lt l, StronglySorted (fun a b => lt b a = false) l -> sorted_b lt l = true.
Proof.
  induction 1 as [|a l Hs IH Hf]; simpl; [reflexivity|]. rewrite IH, andb_true_r.
  rewrite forallb_forall. rewrite Forall_forall in Hf. intros x Hx. rewrite (Hf x Hx). reflexivity.
Qed.

Lemma dup_free_sound : forall l, dup_free l = true -> forall i j n, nth_error l i = Some n -> nth_error l j = Some n -> i = j.
Proof.
  induction l as [|n0 l IH]; simpl; intros H i j n Hi Hj; [destruct i; discriminate|].
  apply andb_true_iff in H. destruct H as [Hn Hd]. apply negb_true_iff in Hn.
  assert (Hnot : forall k, nth_error l k = Some n0 -> False).
  { intros k Hk. apply nth_error_In in Hk.
    assert (existsb (fun n' => key_eqb (n_sym n0, n_args n0) (n_sym n', n_args n')) l = true)
      by (apply existsb_exists; exists n0; split; [assumption | apply key_eqb_eq; reflexivity]).
    congruence. }
  destruct i, j; simpl in *.
  - reflexivity.
  - injection Hi as <-. exfalso. eauto.
  - injection Hj as <-. exfalso. eauto.
  - f_equal. eapply IH; eassumption.
Qed.

Lemma nodes_ok_sound : forall m s l i0, nodes_ok m s i0 l = true ->
  forall i n, nth_error l i = Some n ->
    n_sym n < length (syms s) /\ Forall (fun a => a < i0 + i) (n_args n) /\
    (comm s (n_sym n) = true -> boolop s (n_sym n) = false -> sorted_args m s (n_args n)).
Proof.
  induction l as [|n0 l IH]; simpl; intros i0 H i n Hn; [destruct i; discriminate|].
  apply andb_true_iff in H. destruct H as [H Hr]. apply andb_true_iff in H. destruct H as [H Hs].
  apply andb_true_iff in H. destruct H as [Hsym Hargs].
  destruct i; simpl in Hn.
  - injection Hn as <-. rewrite Nat.add_0_r. repeat split.
    + apply Nat.ltb_lt. assumption.
    + rewrite forallb_forall in Hargs. rewrite Forall_forall. intros x Hx. apply Nat.ltb_lt. auto.
    + intros Hc Hb. rewrite Hc, Hb in Hs. simpl in Hs. apply sorted_b_sound. assumption.
  - specialize (IH (S i0) Hr i n Hn). replace (i0 + S i) with (S i0 + i) by lia. assumption.
Qed.

Theorem hc_check_sound_thm : forall m sy ns, hc_check m sy ns = true -> dump_ok m sy ns.
Proof.
  intros m sy ns H. unfold hc_check in H. apply andb_true_iff in H. destruct H as [Hd Hn].
  unfold dump_ok. repeat split.
  - apply dup_free_sound. assumption.
  - destruct (nodes_ok_sound _ _ _ _ Hn i n H) as (? & ? & ?). assumption.
  - destruct (nodes_ok_sound _ _ _ _ Hn i n H) as (? & ? & ?). assumption.
  - intros i n Hi. destruct (nodes_ok_sound _ _ _ _ Hn i n Hi) as (? & ? & ?). assumption.
Qed.

Lemma dup_free_complete : forall l, (forall i j n, nth_error l i = Some n -> nth_error l j = Some n -> i = j) -> dup_free l = true.
Proof.
  induction l as [|n0 l IH]; intros H; [reflexivity|]. simpl. apply andb_true_iff. split.
  - apply negb_true_iff. destruct (existsb _ l) eqn:Ex; [|reflexivity].
    apply existsb_exists in Ex. destruct Ex as (n' & Hin & Hk). apply key_eqb_eq in Hk.
    assert (n' = n0) by (destruct n', n0; simpl in *; congruence). subst.
    apply In_nth_error in Hin. destruct Hin as [k Hk']. specialize (H 0 (S k) n0 eq_refl Hk'). discriminate.
  - apply IH. intros i j n Hi Hj. specialize (H (S i) (S j) n Hi Hj). lia.
Qed.

Lemma nodes_ok_complete : forall m s l i0,
  (forall i n, nth_error l i = Some n ->
     n_sym n < length (syms s) /\ Forall (fun a => a < i0 + i) (n_args n) /\
     (comm s (n_sym n) = true -> boolop s (n_sym n) = false -> sorted_args m s (n_args n))) ->
  nodes_ok m s i0 l = true.
Proof.
  induction l as [|n0 l IH]; intros i0 H; [reflexivity|]. simpl.
  destruct (H 0 n0 eq_refl) as (Hs & Ha & Hso). rewrite Nat.add_0_r in Ha.
  repeat (apply andb_true_iff; split).
  - apply Nat.ltb_lt. assumption.
  - rewrite forallb_forall. rewrite Forall_forall in Ha. intros x Hx. apply Nat.ltb_lt. auto.
  - destruct (comm s (n_sym n0)) eqn:Hc, (boolop s (n_sym n0)) eqn:Hb; simpl; try reflexivity.
    apply sorted_b_complete. apply Hso; reflexivity.
  - apply IH. intros i n Hn. specialize (H (S i) n Hn). replace (S i0 + i) with (i0 + S i) by lia. assumption.
Qed.

Theorem hc_check_complete_thm : forall m s, HC m s -> hc_check m (syms s) (nodes s) = true.
Proof.
  intros m s H. unfold hc_check. apply andb_true_iff. split.
  - apply dup_free_complete. intros i j n. apply (HC_nodup m s i j n H).
  - apply nodes_ok_complete. intros i [f a] Hn. simpl. repeat split.
    + apply (hc_syms _ _ H _ _ Hn).
    + apply (hc_sub _ _ H _ _ Hn).
    + intros Hc Hb. exact (hc_sorted _ _ H i f a Hn Hc Hb).
Qed.
