(* C14: model of the Boolean / core term constructors of src/logics/Logic.cc.  Definitions only; the
   proofs are in BoolCtorsProofs.v.

   Result type [option term]: [None] models "no term is returned" (PTRef_Undef, an ApiException, or an
   assert that fails).  Terms are hash-consed in the code, so PTRef equality is structural equality
   here ([term_eqb]).  The order of PTRefs (creation order) is the Section variable [leb]: an arbitrary
   boolean relation, so that everything proved holds for every creation order. *)
From Coq Require Import ZArith QArith List Bool Arith.
From OsmtV.Terms Require Import TermSem.
Import ListNotations.

Fixpoint insert_by {A} (le : A -> A -> bool) (x : A) (l : list A) : list A :=
  match l with
  | [] => [x]
  | y :: r => if le x y then x :: l else y :: insert_by le x r
  end.
Definition isort {A} (le : A -> A -> bool) (l : list A) : list A := fold_right (insert_by le) [] l.

Definition is_true (t : term) : bool := match t with TBool true => true | _ => false end.
Definition is_false (t : term) : bool := match t with TBool false => true | _ => false end.
Definition is_bool (t : term) : bool := sort_eqb (sort_of t) SBool.

(* Logic::mkNot(PTRef), Logic.cc:589, without the sort test *)
Definition mkNot_raw (t : term) : term :=
  match t with
  | TApp ONot [a] => a
  | TBool b => TBool (negb b)
  | _ => TApp ONot [t]
  end.
Definition mkNot (t : term) : option term := if is_bool t then Some (mkNot_raw t) else None.

(* PtAsgn: (atom, sign) *)
Definition lit := (term * bool)%type.
Definition split_lit (t : term) : lit := match t with TApp ONot [a] => (a, false) | _ => (t, true) end.
Definition lit_term (p : lit) : term := if snd p then fst p else mkNot_raw (fst p).

Section Ctors.
  Variable leb : term -> term -> bool.          (* PTRef order: x.x <= y.x *)

  Definition lit_leb (a b : lit) : bool := leb (fst a) (fst b).      (* LessThan_PtAsgn: by term only *)

  (* Logic::termSort / ArithLogic::termSort call the MiniSat sort (minisat/mtl/Sort.h), which is a selection
     sort with swaps for at most 15 elements.  It is modelled literally because ArithLogic's comparison
     (LessThan_deepPTRef) has ties (x and c*x), and then the result depends on the algorithm; argument lists
     longer than 15 (quicksort in the code) are sorted by the same selection sort here.
     [sel_min x0 best r]: the inner loop over r with current minimum [best]; returns the minimum, r with the
     minimum's place taken by x0 (the swap), and whether the minimum was found in r. *)
  Definition ltb (a b : term) : bool := negb (leb b a).              (* x.x < y.x *)
  Fixpoint sel_min (x0 best : term) (r : list term) : term * list term * bool :=
    match r with
    | [] => (best, [], false)
    | y :: r' =>
        if ltb y best
        then match sel_min x0 y r' with
             | (m, r'', true) => (m, y :: r'', true)
             | (_, _, false) => (y, x0 :: r', true)
             end
        else match sel_min x0 best r' with
             | (m, r'', rep) => (m, y :: r'', rep)
             end
    end.
  Fixpoint sel_sort (fuel : nat) (l : list term) : list term :=
    match fuel, l with
    | S n, x :: r => match sel_min x x r with (m, r', _) => m :: sel_sort n r' end
    | _, _ => l
    end.
  Definition tsort (l : list term) : list term := sel_sort (length l) l.       (* Logic::termSort *)

  (* the scan loop of Logic::mkAnd (Logic.cc:376-390); [p] is the last literal kept; None = "return false" *)
  Fixpoint and_scan (p : option lit) (l : list lit) : option (list lit) :=
    match l with
    | [] => Some []
    | e :: r =>
        if is_false (fst e) then None
        else if is_true (fst e) then and_scan p r
        else match p with
             | Some q =>
                 if term_eqb (fst q) (fst e)
                 then (if Bool.eqb (snd q) (snd e) then and_scan p r else None)
                 else option_map (cons e) (and_scan (Some e) r)
             | None => option_map (cons e) (and_scan (Some e) r)
             end
    end.

  (* Logic::mkOr, Logic.cc:421-433; None = "return true" *)
  Fixpoint or_scan (p : option lit) (l : list lit) : option (list lit) :=
    match l with
    | [] => Some []
    | e :: r =>
        if is_true (fst e) then None
        else if is_false (fst e) then or_scan p r
        else match p with
             | Some q =>
                 if term_eqb (fst q) (fst e)
                 then (if Bool.eqb (snd q) (snd e) then or_scan p r else None)
                 else option_map (cons e) (or_scan (Some e) r)
             | None => option_map (cons e) (or_scan (Some e) r)
             end
    end.

  Definition mkAnd (args : list term) : option term :=
    match args with
    | [] => Some (TBool true)
    | _ =>
        if negb (forallb is_bool args) then None
        else match and_scan None (isort lit_leb (map split_lit args)) with
             | None => Some (TBool false)
             | Some [] => Some (TBool true)
             | Some [e] => Some (lit_term e)
             | Some l => Some (TApp OAnd (map lit_term l))
             end
    end.

  Definition mkOr (args : list term) : option term :=
    match args with
    | [] => Some (TBool false)
    | _ =>
        if negb (forallb is_bool args) then None
        else match or_scan None (isort lit_leb (map split_lit args)) with
             | None => Some (TBool true)
             | Some [] => Some (TBool false)
             | Some [e] => Some (lit_term e)
             | Some l => Some (TApp OOr (map lit_term l))
             end
    end.

  (* Logic::mkXor, Logic.cc:448 *)
  Definition mkXor (args : list term) : option term :=
    if negb (forallb is_bool args) then None
    else match args with
         | [a; b] =>
             if term_eqb a b then Some (TBool false)
             else if term_eqb a (mkNot_raw b) then Some (TBool true)
             else if is_true a then Some (mkNot_raw b)
             else if is_true b then Some (mkNot_raw a)
             else if is_false a then Some b
             else if is_false b then Some a
             else Some (TApp OXor (tsort [a; b]))
         | _ => None
         end.

  (* Logic::mkImpl, Logic.cc:476 (exactly two arguments: assert) *)
  Definition mkImpl (args : list term) : option term :=
    if negb (forallb is_bool args) then None
    else match args with
         | [a; b] =>
             if is_false a then Some (TBool true)
             else if is_true b then Some (TBool true)
             else if is_true a && is_false b then Some (TBool false)
             else mkOr [mkNot_raw a; b]
         | _ => None
         end.

  (* Logic::mkIte, Logic.cc:343 *)
  Definition mkIte (args : list term) : option term :=
    match args with
    | [c; a; b] =>
        if negb (is_bool c) then None
        else if is_true c then Some a
        else if is_false c then Some b
        else if term_eqb a b then Some a
        else if negb (sort_eqb (sort_of a) (sort_of b)) then None
        else Some (TApp OIte [c; a; b])
    | _ => None
    end.

  (* Logic::mkBinaryEq, Logic.cc:502.  "two distinct constants => false" is line 505. *)
  Definition core_mkBinaryEq (lhs rhs : term) : option term :=
    if negb (sort_eqb (sort_of lhs) (sort_of rhs)) then None
    else if term_eqb lhs rhs then Some (TBool true)
    else if is_const lhs && is_const rhs then Some (TBool false)
    else if is_bool lhs then
      if term_eqb lhs (mkNot_raw rhs) then Some (TBool false)
      else if is_true lhs then Some rhs
      else if is_true rhs then Some lhs
      else if is_false lhs then Some (mkNot_raw rhs)
      else if is_false rhs then Some (mkNot_raw lhs)
      else Some (TApp OEq [lhs; rhs])         (* the Bool equality is a "Boolean operator": mkFun does not sort it *)
    else Some (TApp OEq (tsort [lhs; rhs])).

  (* Logic::mkEq, Logic.cc:520; [beq] is the virtual mkBinaryEq (Logic's or ArithLogic's) *)
  Fixpoint eq_chain (beq : term -> term -> option term) (l : list term) : option (list term) :=
    match l with
    | a :: t =>
        match t with
        | b :: _ =>
            match beq a b, eq_chain beq t with
            | Some e, Some r => Some (e :: r)
            | _, _ => None
            end
        | [] => Some []
        end
    | [] => Some []
    end.

  Definition mkEq_gen (beq : term -> term -> option term) (args : list term) : option term :=
    match args with
    | [] | [_] => None
    | [a; b] => beq a b
    | _ => match eq_chain beq args with Some es => mkAnd es | None => None end
    end.

  Fixpoint has_adjacent_dup (l : list term) : bool :=
    match l with
    | a :: t => match t with b :: _ => term_eqb a b || has_adjacent_dup t | [] => false end
    | [] => false
    end.

  Fixpoint all_pairs (l : list term) : list (term * term) :=
    match l with [] => [] | a :: t => map (pair a) t ++ all_pairs t end.

  Fixpoint sequence {A} (l : list (option A)) : option (list A) :=
    match l with
    | [] => Some []
    | Some a :: r => option_map (cons a) (sequence r)
    | None :: _ => None
    end.

  Definition mkDistinct2 (beq : term -> term -> option term) (a b : term) : option term :=
    match beq a b with Some e => mkNot e | None => None end.

  (* Logic::mkDistinct, Logic.cc:537.  [expand] = the distinct classes are used up
     (distinctClassCount >= maxDistinctClasses): the O(n^2) expansion is returned instead of a
     distinct term. *)
  Definition mkDistinct_gen (beq : term -> term -> option term) (expand : bool) (args : list term) : option term :=
    match args with
    | [] | [_] => Some (TBool true)
    | [a; b] => mkDistinct2 beq a b
    | a0 :: _ =>
        if is_bool a0 then Some (TBool false)
        else
          let s := tsort args in
          if has_adjacent_dup s then Some (TBool false)
          else if forallb is_const s then Some (TBool true)
          else if expand
               then match sequence (map (fun p => mkDistinct2 beq (fst p) (snd p)) (all_pairs s)) with
                    | Some ds => mkAnd ds
                    | None => None
                    end
               else if forallb (fun t => sort_eqb (sort_of t) (sort_of a0)) args
                    then Some (TApp ODistinct s) else None
    end.

  Definition core_mkEq := mkEq_gen core_mkBinaryEq.
  Definition core_mkDistinct := mkDistinct_gen core_mkBinaryEq.

  (* pass-through constructors: Logic::mkSelect / mkStore / mkUninterpFun (Logic.cc:713, 719, 661) *)
  Definition mkUF (f : nat) (rs : sort) (args : list term) : option term := Some (TApp (OUF f rs) args).
End Ctors.
