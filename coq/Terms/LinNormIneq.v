(* C14: the normalised inequalities and equalities of ArithLogic (mkBinaryLeq / sumToNormalizedInequality,
   mkBinaryEq / sumToNormalizedEquality) are equivalent to the comparison of the arguments: Real by positive
   scaling, Int by gcd scaling and ceiling (for all integer assignments). *)
From Coq Require Import ZArith QArith Qround Qreduction Qabs List Bool Arith Lia Lqa Permutation.
From OsmtV.Terms Require Import TermSem BoolCtors BoolCtorsBase BoolCtorsProofs LinNorm LinNormBase LinNormProofs.
Import ListNotations.

(* ---------- number facts ---------- *)
Lemma Qdiv_nonneg x d : 0 < d -> (0 <= x / d <-> 0 <= x).
Proof.
  intros Hd. split; intros H.
  - assert (E : x == (x / d) * d) by (field; intros E; rewrite E in Hd; now apply Qlt_irrefl in Hd).
    rewrite E. apply Qmult_le_0_compat; [exact H | now apply Qlt_le_weak].
  - apply Qle_shift_div_l; [exact Hd|]. now rewrite Qmult_0_l.
Qed.

Lemma ceil_le_Z q z : inject_Z (Qceiling q) <= inject_Z z <-> q <= inject_Z z.
Proof.
  split; intros H.
  - eapply Qle_trans; [apply Qle_ceiling | exact H].
  - rewrite <- Zle_Qle. pose proof (Qceiling_lt q) as Hl.
    assert (Hlt : inject_Z (Qceiling q - 1) < inject_Z z) by (eapply Qlt_le_trans; eauto).
    rewrite <- Zlt_Qlt in Hlt. lia.
Qed.

Lemma Zgcd_list_divide l z : In z l -> (Zgcd_list l | z)%Z.
Proof.
  induction l as [|x r IH]; simpl; [tauto|]. intros [-> | H].
  - apply Z.gcd_divide_l.
  - eapply Z.divide_trans; [apply Z.gcd_divide_r | now apply IH].
Qed.
Lemma Zgcd_list_nonneg l : (0 <= Zgcd_list l)%Z.
Proof. destruct l; simpl; [lia | apply Z.gcd_nonneg]. Qed.
Lemma Zgcd_list_pos l z : In z l -> z <> 0%Z -> (0 < Zgcd_list l)%Z.
Proof.
  intros Hin Hz. pose proof (Zgcd_list_nonneg l). pose proof (Zgcd_list_divide l z Hin) as [w Hw].
  destruct (Z.eq_dec (Zgcd_list l) 0) as [E|]; [rewrite E in Hw; lia | lia].
Qed.

Lemma Qint_floor q : Qint q -> q == inject_Z (Qfloor q).
Proof. intros [z Hz]. rewrite (Qfloor_comp _ _ Hz), Qfloor_Z. exact Hz. Qed.

Lemma nonzero_spec (m : mono) : nonzero m = true <-> ~ snd m == 0.
Proof.
  unfold nonzero. rewrite negb_true_iff. split.
  - intros H. now apply Qeq_bool_neq.
  - intros H. destruct (Qeq_bool (snd m) 0) eqn:E; [|reflexivity]. apply Qeq_bool_eq in E. contradiction.
Qed.

Section Ineq.
  Variable leb : term -> term -> bool.
  Variable I : interp.

  Lemma lead_of_in : forall r m, In (lead_of leb m r) (m :: r).
  Proof.
    induction r as [|m' r IH]; intros m; simpl; [auto|].
    destruct (leb (fst m) (fst m')).
    - destruct (IH m) as [H|H]; [left; exact H | right; right; exact H].
    - right. apply IH.
  Qed.

  Definition all_nonzero (ms : list mono) : Prop := Forall (fun m => nonzero m = true) ms.

  Lemma norm_div_pos s ms d : all_nonzero ms -> norm_div leb s ms = Some d -> 0 < d.
  Proof.
    intros Hnz E. unfold norm_div in E. destruct ms as [|m r]; [discriminate|].
    destruct s; try discriminate.
    - destruct (all_int (m :: r)) eqn:Hi; [|discriminate]. inversion E; subst d.
      apply Forall_cons_iff in Hnz. destruct Hnz as [Hm _]. apply nonzero_spec in Hm.
      unfold all_int in Hi. simpl in Hi. apply andb_true_iff in Hi. destruct Hi as [Hi _].
      apply Q_is_int_spec, Qint_floor in Hi.
      assert (Hz : Qfloor (snd m) <> 0%Z) by (intros Hz; rewrite Hz in Hi; contradiction).
      change 0 with (inject_Z 0). rewrite <- Zlt_Qlt.
      apply (Zgcd_list_pos (Qfloor (snd m) :: map (fun m0 : mono => Qfloor (snd m0)) r) (Qfloor (snd m))); [simpl; auto | exact Hz].
    - inversion E; subst d. pose proof (lead_of_in r m) as Hin.
      unfold all_nonzero in Hnz. rewrite Forall_forall in Hnz. specialize (Hnz _ Hin). apply nonzero_spec in Hnz.
      destruct (Qlt_le_dec 0 (Qabs (snd (lead_of leb m r)))) as [H|H]; [exact H|].
      exfalso. apply Hnz. pose proof (Qabs_nonneg (snd (lead_of leb m r))) as H0.
      assert (E0 : Qabs (snd (lead_of leb m r)) == 0) by (apply Qle_antisym; assumption).
      revert E0. apply Qabs_case; intros Hs E0; lra.
  Qed.

  Lemma div_gcd_int (k : Q) (l : list Z) : Qint k -> In (Qfloor k) l -> Qint (k / inject_Z (Zgcd_list l)).
  Proof.
    intros Hk Hin. apply Qint_floor in Hk. destruct (Zgcd_list_divide l _ Hin) as [w Hw].
    destruct (Z.eq_dec (Zgcd_list l) 0) as [E0|E0].
    - exists 0%Z. rewrite E0. change (inject_Z 0) with 0. unfold Qdiv. change (/ 0) with 0. ring.
    - exists w. rewrite Hk, Hw, inject_Z_mult. field. intros Hc.
      apply E0. unfold Qeq in Hc. simpl in Hc. lia.
  Qed.

  Lemma norm_div_int ms d : norm_div leb SInt ms = Some d -> Forall (fun m => Qint (snd m / d)) ms.
  Proof.
    intros E. unfold norm_div in E. destruct ms as [|m r]; [discriminate|].
    destruct (all_int (m :: r)) eqn:Hi; [|discriminate]. injection E as <-.
    apply Forall_forall. intros x Hx. unfold all_int in Hi. rewrite forallb_forall in Hi.
    specialize (Hi x Hx). apply Q_is_int_spec in Hi.
    assert (Hin : In (Qfloor (snd x)) (map (fun m0 : mono => Qfloor (snd m0)) (m :: r))) by (apply in_map_iff; eauto).
    exact (div_gcd_int (snd x) _ Hi Hin).
  Qed.

  Lemma msum_scale_div d ms : ~ d == 0 -> msum I (scale_monos d ms) == msum I ms / d.
  Proof.
    intros Hd. unfold scale_monos. induction ms as [|m r IH].
    - rewrite !msum_nil. field. exact Hd.
    - simpl map. rewrite !msum_cons, IH. unfold mval. simpl. field. exact Hd.
  Qed.

  Lemma scale_atoms P d ms : atoms_P P ms -> atoms_P P (scale_monos d ms).
  Proof. intros H. unfold scale_monos. apply Forall_map. exact H. Qed.

  Lemma msum_int ms : Forall (fun m => Qint (snd m) /\ Qint (aval I (fst m))) ms -> Qint (msum I ms).
  Proof.
    induction 1 as [|m r [H1 H2] _ IH]; [apply (Qint_Z 0)|].
    apply (Qint_comp (mval I m + msum I r)); [symmetry; apply msum_cons|].
    apply Qint_plus; [now apply Qint_mult | exact IH].
  Qed.

  Lemma eval_leq2 a b : eval I (TApp OLeq [a; b]) = VB (Qle_bool (aval I a) (aval I b)).
  Proof. unfold aval. simpl. now rewrite andb_true_r. Qed.

  Lemma Qle_bool_ext a b a' b' : (a <= b <-> a' <= b') -> Qle_bool a b = Qle_bool a' b'.
  Proof.
    intros H. destruct (Qle_bool a b) eqn:E1, (Qle_bool a' b') eqn:E2; try reflexivity.
    - apply Qle_bool_iff in E1. apply H in E1. apply Qle_bool_iff in E1. congruence.
    - apply Qle_bool_iff in E2. apply H in E2. apply Qle_bool_iff in E2. congruence.
  Qed.
  Lemma Qeq_bool_ext a b a' b' : (a == b <-> a' == b') -> Qeq_bool a b = Qeq_bool a' b'.
  Proof.
    intros H. destruct (Qeq_bool a b) eqn:E1, (Qeq_bool a' b') eqn:E2; try reflexivity.
    - apply Qeq_bool_iff in E1. apply H in E1. apply Qeq_bool_iff in E1. congruence.
    - apply Qeq_bool_iff in E2. apply H in E2. apply Qeq_bool_iff in E2. congruence.
  Qed.

  Definition int_atoms (s : sort) (ms : list mono) : Prop :=
    s = SInt -> Forall (fun m => Qint (aval I (fst m))) ms.

  Lemma scaled_int ms d : norm_div leb SInt ms = Some d -> int_atoms SInt ms ->
    Qint (msum I (scale_monos d ms)).
  Proof.
    intros E Hi. apply msum_int. unfold scale_monos. apply Forall_map. simpl.
    pose proof (norm_div_int ms d E) as Hd. specialize (Hi eq_refl).
    rewrite Forall_forall in *. intros x Hx. split; [now apply Hd | now apply Hi].
  Qed.

  Lemma aval_neg_atom s a : aval I (TApp OTimes (tsort leb [num s (-1); a])) == - aval I a.
  Proof.
    rewrite aval_times. destruct (tsort2 leb (num s (-1)) a) as [-> | ->]; simpl; rewrite aval_num; ring.
  Qed.

  (* 0 <= p *)
  Lemma leq_of_poly_sound s p t :
    is_num_sort s = true -> atoms_ok (fst p) -> all_nonzero (fst p) -> int_atoms s (fst p) ->
    leq_of_poly leb s p = Some t ->
    eval I t = VB (Qle_bool 0 (peval I p)) /\ bok I t.
  Proof.
    intros Hs Hok Hnz Hint E. destruct p as [ms c]. unfold leq_of_poly in E. simpl fst in *.
    unfold peval. simpl fst. simpl snd.
    destruct ms as [|m r].
    { inversion E; subst t. split; [|apply bok_TBool]. cbn [eval]. f_equal. apply Qleb_comp; [reflexivity|].
      rewrite msum_nil. symmetry. apply Qplus_0_l. }
    assert (Hgen : forall d, norm_div leb s (m :: r) = Some d ->
              let bound := - c / d in
              let bound' := match s with SInt => inject_Z (Qceiling bound) | _ => bound end in
              eval I (TApp OLeq [num s bound'; to_term leb s (scale_monos d (m :: r), 0)]) =
              VB (Qle_bool 0 (msum I (m :: r) + c))).
    { intros d Ed bound bound'. pose proof (norm_div_pos s _ d Hnz Ed) as Hd.
      assert (Hd0 : ~ d == 0) by (intros E0; rewrite E0 in Hd; now apply Qlt_irrefl in Hd).
      rewrite eval_leq2. f_equal. rewrite aval_num, aval_to_term. unfold peval. simpl fst. simpl snd.
      set (S := msum I (m :: r)).
      assert (HS : msum I (scale_monos d (m :: r)) + 0 == S / d) by (unfold S; rewrite msum_scale_div by exact Hd0; apply Qplus_0_r).
      assert (Hreal : bound <= S / d <-> 0 <= S + c).
      { unfold bound. rewrite <- (Qdiv_nonneg (S + c) d Hd).
        assert (E1 : (S + c) / d == S / d - (- c / d)) by (field; exact Hd0). rewrite E1. split; intros; lra. }
      apply Qle_bool_ext. rewrite HS.
      destruct s; try discriminate; [|exact Hreal].
      rewrite <- Hreal. unfold bound'.
      destruct (scaled_int _ d Ed Hint) as [z Hz].
      assert (Hz' : S / d == inject_Z z) by (rewrite <- Hz, msum_scale_div by exact Hd0; reflexivity).
      rewrite Hz'. apply ceil_le_Z. }
    assert (Hbok : forall l, bok I (TApp OLeq l)).
    { intros l. apply bok_app_bool; [simpl; eexists; reflexivity | discriminate]. }
    destruct r as [|m2 r'].
    - destruct (Qeq_bool c 0) eqn:Ec.
      + inversion E; subst t. split; [|apply Hbok]. apply Qeq_bool_eq in Ec.
        rewrite eval_leq2. f_equal. rewrite aval_num. rewrite msum_cons, msum_nil. unfold mval.
        apply Forall_cons_iff in Hnz. destruct Hnz as [Hm _]. apply nonzero_spec in Hm.
        apply Qle_bool_ext.
        destruct (Qle_bool 0 (snd m)) eqn:Ek.
        * apply Qle_bool_iff in Ek. assert (0 < snd m) by (apply Qle_lteq in Ek; destruct Ek as [|Ek]; [assumption | symmetry in Ek; contradiction]).
          split; intros; nra.
        * assert (snd m < 0).
          { destruct (Qlt_le_dec (snd m) 0) as [Hl|Hl]; [exact Hl|]. apply Qle_bool_iff in Hl. congruence. }
          rewrite aval_neg_atom. split; intros; nra.
      + destruct (norm_div leb s [m]) as [d|] eqn:Ed; [|discriminate]. inversion E; subst t.
        split; [apply (Hgen d eq_refl) | apply Hbok].
    - destruct (norm_div leb s (m :: m2 :: r')) as [d|] eqn:Ed.
      + assert (Et : t = TApp OLeq [num s match s with SInt => inject_Z (Qceiling (- c / d)) | _ => - c / d end;
                                   to_term leb s (scale_monos d (m :: m2 :: r'), 0)]).
        { destruct (Qeq_bool c 0); inversion E; reflexivity. }
        subst t. split; [apply (Hgen d eq_refl) | apply Hbok].
      + destruct (Qeq_bool c 0); discriminate.
  Qed.

  (* the polynomial rhs - lhs *)
  Lemma diff_poly_sound lhs rhs p : wsort lhs = true -> wsort rhs = true -> sort_of lhs = sort_of rhs ->
    diff_poly lhs rhs = Some p ->
    peval I p == aval I rhs - aval I lhs /\ atoms_ok (fst p) /\ all_nonzero (fst p) /\
    int_atoms (sort_of lhs) (fst p).
  Proof.
    intros Wl Wr Hs E. unfold diff_poly in E.
    destruct (linearize rhs) as [pr|] eqn:Er; [|discriminate].
    destruct (linearize lhs) as [pl|] eqn:El; [|discriminate]. inversion E; subst p.
    split; [|split; [|split]].
    - rewrite peval_pnorm, peval_padd, peval_pscale, <- (linearize_sound I rhs pr Er), <- (linearize_sound I lhs pl El). ring.
    - apply pnorm_atoms, padd_atoms; [now apply (linearize_atoms rhs) | apply pscale_atoms; now apply (linearize_atoms lhs)].
    - apply pnorm_nonzero.
    - intros Hi.
      assert (Hsorts : atoms_P (fun a => wsort a = true /\ sort_of a = SInt)
                         (fst (pnorm (padd pr (pscale (-1) pl))))).
      { apply pnorm_atoms, padd_atoms; [|apply pscale_atoms].
        - pose proof (linearize_atoms rhs pr Wr Er) as H1. pose proof (linearize_sorts rhs pr Wr Er) as H2.
          unfold atoms_P in *. rewrite Forall_forall in *. intros x Hx. split; [apply (H1 x Hx) | rewrite (H2 x Hx); congruence].
        - pose proof (linearize_atoms lhs pl Wl El) as H1. pose proof (linearize_sorts lhs pl Wl El) as H2.
          unfold atoms_P in *. rewrite Forall_forall in *. intros x Hx. split; [apply (H1 x Hx) | rewrite (H2 x Hx); congruence]. }
      unfold atoms_P in Hsorts. eapply Forall_impl; [|exact Hsorts]. intros m [Wm Sm].
      apply has_sort_asN_int. rewrite <- Sm. now apply eval_has_sort.
  Qed.

  Lemma same_num_sort2 a b s : same_num_sort [a; b] = Some s ->
    is_num_sort s = true /\ sort_of a = s /\ sort_of b = s.
  Proof.
    intros H. destruct (same_num_sort_spec _ _ H) as [H1 H2].
    inversion H2 as [|? ? Ha H3]; subst. inversion H3; subst. auto.
  Qed.

  Lemma mkBinaryLeq_sound a b t : wf a = true -> wf b = true -> mkBinaryLeq leb a b = Some t ->
    eval I t = VB (Qle_bool (aval I a) (aval I b)) /\ bok I t.
  Proof.
    intros Wa Wb E. apply wf_wsort in Wa, Wb. unfold mkBinaryLeq in E.
    destruct (same_num_sort [a; b]) as [s|] eqn:Es; [|discriminate].
    destruct (same_num_sort2 a b s Es) as (Hs & Sa & Sb).
    destruct (is_num_const a && is_num_const b) eqn:Ec.
    { apply andb_true_iff in Ec. destruct Ec as [Ca Cb]. inversion E; subst t. split; [|apply bok_TBool].
      simpl. f_equal. apply Qleb_comp; symmetry; now apply is_num_const_val. }
    destruct (diff_poly a b) as [p|] eqn:Ep; [|discriminate].
    destruct (diff_poly_sound a b p Wa Wb (eq_trans Sa (eq_sym Sb)) Ep) as (Hv & Hok & Hnz & Hint).
    rewrite Sa in Hint.
    destruct (leq_of_poly_sound s p t Hs Hok Hnz Hint E) as [H1 H2]. split; [|exact H2].
    rewrite H1. f_equal. apply Qle_bool_ext. rewrite Hv. split; intros; lra.
  Qed.

  Definition vle (x y : value) : bool := Qle_bool (asN x) (asN y).
  Definition vlt (x y : value) : bool := Qltb (asN x) (asN y).

  Lemma leq_ok a b t : wf a = true -> wf b = true -> mkBinaryLeq leb a b = Some t ->
    eval I t = VB (vle (eval I a) (eval I b)) /\ bok I t.
  Proof. apply mkBinaryLeq_sound. Qed.
  Lemma geq_ok a b t : wf a = true -> wf b = true -> mkBinaryGeq leb a b = Some t ->
    eval I t = VB (vle (eval I b) (eval I a)) /\ bok I t.
  Proof. intros Wa Wb E. now apply (mkBinaryLeq_sound b a t Wb Wa). Qed.
  Lemma lt_ok a b t : wf a = true -> wf b = true -> mkBinaryLt leb a b = Some t ->
    eval I t = VB (vlt (eval I a) (eval I b)) /\ bok I t.
  Proof.
    intros Wa Wb E. unfold mkBinaryLt in E. destruct (mkBinaryGeq leb a b) as [e|] eqn:Ee; [|discriminate].
    destruct (geq_ok a b e Wa Wb Ee) as [Hv Hk]. unfold mkNot in E. destruct (is_bool e); [|discriminate].
    inversion E; subst t. split; [|now apply mkNot_raw_bok].
    rewrite mkNot_raw_eval by exact Hk. unfold bval. rewrite Hv. reflexivity.
  Qed.
  Lemma gt_ok a b t : wf a = true -> wf b = true -> mkBinaryGt leb a b = Some t ->
    eval I t = VB (vlt (eval I b) (eval I a)) /\ bok I t.
  Proof.
    intros Wa Wb E. unfold mkBinaryGt in E. destruct (mkBinaryLeq leb a b) as [e|] eqn:Ee; [|discriminate].
    destruct (leq_ok a b e Wa Wb Ee) as [Hv Hk]. unfold mkNot in E. destruct (is_bool e); [|discriminate].
    inversion E; subst t. split; [|now apply mkNot_raw_bok].
    rewrite mkNot_raw_eval by exact Hk. unfold bval. rewrite Hv. reflexivity.
  Qed.

  Theorem mkLeq_equiv args t : forallb wf args = true -> mkLeq leb args = Some t ->
    eval I t = eval I (TApp OLeq args).
  Proof.
    intros Hwf E. destruct (chain_ctor_sound leb I (mkBinaryLeq leb) vle leq_ok args t Hwf E) as [Hv _].
    rewrite Hv. simpl. f_equal. symmetry. apply (chainb_map Qle_bool asN).
  Qed.
  Theorem mkGeq_equiv args t : forallb wf args = true -> mkGeq leb args = Some t ->
    eval I t = eval I (TApp OGeq args).
  Proof.
    intros Hwf E.
    destruct (chain_ctor_sound leb I (mkBinaryGeq leb) (fun x y => vle y x) geq_ok args t Hwf E) as [Hv _].
    rewrite Hv. simpl. f_equal. symmetry. apply (chainb_map (fun a b => Qle_bool b a) asN).
  Qed.
  Theorem mkLt_equiv args t : forallb wf args = true -> mkLt leb args = Some t ->
    eval I t = eval I (TApp OLt args).
  Proof.
    intros Hwf E. destruct (chain_ctor_sound leb I (mkBinaryLt leb) vlt lt_ok args t Hwf E) as [Hv _].
    rewrite Hv. simpl. f_equal. symmetry. apply (chainb_map Qltb asN).
  Qed.
  Theorem mkGt_equiv args t : forallb wf args = true -> mkGt leb args = Some t ->
    eval I t = eval I (TApp OGt args).
  Proof.
    intros Hwf E.
    destruct (chain_ctor_sound leb I (mkBinaryGt leb) (fun x y => vlt y x) gt_ok args t Hwf E) as [Hv _].
    rewrite Hv. simpl. f_equal. symmetry. apply (chainb_map (fun a b => Qltb b a) asN).
  Qed.
End Ineq.
