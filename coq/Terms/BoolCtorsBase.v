(* C14: basic facts about TermSem (decidable equality, sorts of values) and about the sorting functions
   used by the constructor models. *)
From Coq Require Import ZArith QArith Qround Qreduction List Bool Arith Lia Permutation Sorted.
From OsmtV.IntArith Require Import DivModModel.
From OsmtV.Terms Require Import TermSem BoolCtors.
Import ListNotations.

(* ---------- structural equality ---------- *)
Lemma sort_eqb_eq a b : sort_eqb a b = true <-> a = b.
Proof.
  destruct a, b; simpl; split; intros H; try reflexivity; try discriminate.
  - apply Nat.eqb_eq in H. now subst.
  - inversion H. apply Nat.eqb_refl.
Qed.
Lemma sort_eqb_refl a : sort_eqb a a = true.
Proof. now apply sort_eqb_eq. Qed.
Lemma sort_eqb_sym a b : sort_eqb a b = sort_eqb b a.
Proof.
  destruct (sort_eqb a b) eqn:E.
  - apply sort_eqb_eq in E. subst. now rewrite sort_eqb_refl.
  - destruct (sort_eqb b a) eqn:E'; [|reflexivity]. apply sort_eqb_eq in E'. subst. now rewrite sort_eqb_refl in E.
Qed.

Lemma op_eqb_eq a b : op_eqb a b = true <-> a = b.
Proof.
  destruct a, b; simpl; split; intros H; try reflexivity; try discriminate.
  - apply andb_true_iff in H. destruct H as [H1 H2]. apply Nat.eqb_eq in H1. apply sort_eqb_eq in H2. now subst.
  - inversion H. subst. now rewrite Nat.eqb_refl, sort_eqb_refl.
Qed.

Lemma Q_eqb_eq a b : Q_eqb a b = true <-> a = b.
Proof.
  destruct a as [n d], b as [n' d']. unfold Q_eqb. simpl. rewrite andb_true_iff, Z.eqb_eq, Pos.eqb_eq.
  split; [intros [-> ->]; reflexivity | intros H; inversion H; auto].
Qed.

Lemma term_eqb_refl a : term_eqb a a = true.
Proof.
  induction a using term_ind'; simpl.
  - now rewrite sort_eqb_refl, Nat.eqb_refl.
  - now destruct b.
  - rewrite sort_eqb_refl, Nat.eqb_refl. assert (Q_eqb q q = true) as -> by now apply Q_eqb_eq. reflexivity.
  - now rewrite sort_eqb_refl, Nat.eqb_refl.
  - assert (op_eqb o o = true) as -> by now apply op_eqb_eq. simpl.
    induction H; [reflexivity|]. now rewrite H, IHForall.
Qed.

Lemma term_eqb_true a : forall b, term_eqb a b = true -> a = b.
Proof.
  induction a using term_ind'; intros [] E; simpl in E; try discriminate.
  - apply andb_true_iff in E. destruct E as [E1 E2]. apply sort_eqb_eq in E1. apply Nat.eqb_eq in E2. now subst.
  - apply eqb_prop in E. now subst.
  - apply andb_true_iff in E. destruct E as [E E3]. apply andb_true_iff in E. destruct E as [E1 E2].
    apply sort_eqb_eq in E1. apply Q_eqb_eq in E2. apply Nat.eqb_eq in E3. now subst.
  - apply andb_true_iff in E. destruct E as [E1 E2]. apply sort_eqb_eq in E1. apply Nat.eqb_eq in E2. now subst.
  - apply andb_true_iff in E. destruct E as [E1 E2]. apply op_eqb_eq in E1. subst o0. f_equal.
    revert args0 E2. induction H; intros [|y r'] E2; try discriminate; [reflexivity|].
    apply andb_true_iff in E2. destruct E2 as [E2 E3]. f_equal; [now apply H | now apply IHForall].
Qed.

Lemma term_eqb_eq a b : term_eqb a b = true <-> a = b.
Proof. split; [apply term_eqb_true | intros ->; apply term_eqb_refl]. Qed.

Lemma term_eqb_false a b : term_eqb a b = false -> a <> b.
Proof. intros E ->. now rewrite term_eqb_refl in E. Qed.

(* ---------- numbers ---------- *)
Lemma Qred_idem q : Qred (Qred q) = Qred q.
Proof. apply Qred_complete, Qred_correct. Qed.

Lemma Qred_inject_Z z : Qred (inject_Z z) = inject_Z z.
Proof.
  unfold inject_Z, Qred. simpl.
  pose proof (Z.ggcd_gcd z 1) as Hg. pose proof (Z.ggcd_correct_divisors z 1) as Hd.
  destruct (Z.ggcd z 1) as [g [a b]]. simpl in *.
  rewrite Z.gcd_1_r in Hg. subst g. destruct Hd as [Ha Hb].
  rewrite Z.mul_1_l in Ha, Hb. subst a b. reflexivity.
Qed.

Definition Qint (q : Q) : Prop := exists z, q == inject_Z z.

Lemma Qint_canon q : Qint q -> Qred q = inject_Z (Qfloor q).
Proof.
  intros [z Hz]. rewrite (Qred_complete _ _ Hz), Qred_inject_Z.
  rewrite (Qfloor_comp _ _ Hz), Qfloor_Z. reflexivity.
Qed.

Lemma Q_is_int_spec q : Q_is_int q = true <-> Qint q.
Proof.
  unfold Q_is_int. rewrite Qeq_bool_iff. split.
  - intros H. now exists (Qfloor q).
  - intros [z Hz]. rewrite (Qfloor_comp _ _ Hz), Qfloor_Z. exact Hz.
Qed.

Lemma Qint_plus a b : Qint a -> Qint b -> Qint (a + b).
Proof. intros [x Hx] [y Hy]. exists (x + y)%Z. rewrite Hx, Hy, inject_Z_plus. reflexivity. Qed.
Lemma Qint_mult a b : Qint a -> Qint b -> Qint (a * b).
Proof. intros [x Hx] [y Hy]. exists (x * y)%Z. rewrite Hx, Hy, inject_Z_mult. reflexivity. Qed.
Lemma Qint_opp a : Qint a -> Qint (- a).
Proof. intros [x Hx]. exists (- x)%Z. rewrite Hx, inject_Z_opp. reflexivity. Qed.
Lemma Qint_Z z : Qint (inject_Z z).
Proof. now exists z. Qed.
Lemma Qint_comp a b : a == b -> Qint a -> Qint b.
Proof. intros E [x Hx]. exists x. now rewrite <- E. Qed.

Lemma has_sort_int q : has_sort (VN q) SInt <-> (Qred q = q /\ Qint q).
Proof.
  simpl. split.
  - intros H. split; [rewrite H; apply Qred_inject_Z | rewrite H; apply Qint_Z].
  - intros [H1 H2]. rewrite <- H1 at 1. now apply Qint_canon.
Qed.

(* ---------- values of well-sorted terms ---------- *)
Lemma coerce_has_sort s v : has_sort (coerce s v) s.
Proof.
  destruct s; unfold coerce, has_sort; auto.
  - now rewrite Qfloor_Z.
  - apply Qred_idem.
Qed.

Lemma all_sort_Forall s l : all_sort s l = true <-> Forall (fun x => x = s) l.
Proof.
  unfold all_sort. rewrite forallb_forall, Forall_forall. split; intros H x Hx.
  - symmetry. apply sort_eqb_eq. now apply H.
  - apply sort_eqb_eq. symmetry. now apply H.
Qed.

Definition num_sorted (s : sort) (v : value) : Prop := has_sort v s.

Lemma Qsum_int l : Forall Qint l -> Qint (Qsum l).
Proof. induction 1; simpl; [apply (Qint_Z 0) | now apply Qint_plus]. Qed.
Lemma Qprod_int l : Forall Qint l -> Qint (Qprod l).
Proof. induction 1; simpl; [apply (Qint_Z 1) | now apply Qint_mult]. Qed.

Lemma has_sort_num_result s q : is_num_sort s = true -> (s = SInt -> Qint q) -> has_sort (VN (Qred q)) s.
Proof.
  intros Hs Hi. destruct s; try discriminate.
  - apply has_sort_int. split; [apply Qred_idem|]. apply (Qint_comp q); [symmetry; apply Qred_correct | now apply Hi].
  - simpl. apply Qred_idem.
Qed.

Lemma has_sort_asN_int v : has_sort v SInt -> Qint (asN v).
Proof. destruct v; simpl; try tauto. intros H. rewrite H. apply Qint_Z. Qed.

Lemma args_int I args :
  Forall (fun t => wsort t = true -> has_sort (eval I t) (sort_of t)) args ->
  forallb wsort args = true -> Forall (fun x => x = SInt) (map sort_of args) ->
  Forall Qint (map asN (map (eval I) args)).
Proof.
  induction 1; intros Hw Hs; simpl in *; [constructor|].
  apply andb_true_iff in Hw. destruct Hw as [Hw1 Hw2]. inversion Hs; subst.
  constructor; [| now apply IHForall].
  apply has_sort_asN_int. rewrite <- H3. now apply H.
Qed.

Local Opaque Qred inject_Z Qfloor.
Theorem eval_has_sort I t : wsort t = true -> has_sort (eval I t) (sort_of t).
Proof.
  induction t using term_ind'; intros Hw; simpl in *.
  - apply coerce_has_sort.
  - exact Logic.I.
  - destruct s; try discriminate.
    + apply has_sort_int. split; [apply Qred_idem|].
      apply (Qint_comp q); [symmetry; apply Qred_correct | now apply Q_is_int_spec].
    + simpl. apply Qred_idem.
  - destruct s; try discriminate. exact Logic.I.
  - apply andb_true_iff in Hw. destruct Hw as [Hwa Hok].
    assert (Hnum : forall s r, map sort_of args = s :: r -> is_num_sort s && all_sort s r = true ->
                   forall q, (s = SInt -> Forall Qint (map asN (map (eval I) args))) ->
                   (s = SInt -> Forall Qint (map asN (map (eval I) args)) -> Qint q) ->
                   has_sort (VN (Qred q)) s).
    { intros s r _ Hs q Hi Hq. apply andb_true_iff in Hs. destruct Hs as [Hs _].
      apply has_sort_num_result; [exact Hs|]. intros ->. apply Hq; auto. }
    assert (Hints : forall s r, map sort_of args = s :: r -> is_num_sort s && all_sort s r = true -> s = SInt ->
                    Forall Qint (map asN (map (eval I) args))).
    { intros s r E Hs ->. apply andb_true_iff in Hs. destruct Hs as [_ Hs].
      apply (args_int I args H Hwa). rewrite E. constructor; [reflexivity | now apply all_sort_Forall]. }
    destruct o; simpl; try exact Logic.I.
    + (* not *) destruct (map (eval I) args) as [|v [|? ?]]; exact Logic.I.
    + (* impl *) destruct (rev (map asB (map (eval I) args))); exact Logic.I.
    + (* ite *)
      destruct args as [|c [|a [|b [|? ?]]]]; simpl in Hok; try discriminate;
        destruct (sort_of c); try discriminate.
      assert (Hwab : wsort a = true /\ wsort b = true) by (simpl in Hwa; rewrite !andb_true_iff in Hwa; tauto).
      destruct Hwab as [Hwa' Hwb'].
      assert (Ha : wsort a = true -> has_sort (eval I a) (sort_of a))
        by (inversion H as [|? ? _ H2]; inversion H2; assumption).
      assert (Hb : wsort b = true -> has_sort (eval I b) (sort_of b))
        by (inversion H as [|? ? _ H2]; inversion H2 as [|? ? _ H3]; inversion H3; assumption).
      simpl. destruct (asB (eval I c)); [now apply Ha|].
      apply sort_eqb_eq in Hok. rewrite Hok. now apply Hb.
    + (* plus *)
      destruct (map sort_of args) as [|s r] eqn:E; [discriminate|].
      destruct args as [|a0 args']; [discriminate|]. simpl in E. inversion E; subst s r. clear E.
      apply (Hnum (sort_of a0) (map sort_of args') eq_refl Hok); [now apply (Hints _ _ eq_refl Hok)|].
      intros _ Hi. now apply Qsum_int.
    + (* minus *)
      destruct (map sort_of args) as [|s r] eqn:E; [discriminate|].
      destruct args as [|a0 args']; [discriminate|]. simpl in E. inversion E; subst s r. clear E.
      pose proof (Hints _ _ eq_refl Hok) as Hi.
      apply andb_true_iff in Hok. destruct Hok as [Hs _].
      cbn [map]. destruct (map (eval I) args') as [|v1 vs] eqn:Ev; cbn [map].
      * apply has_sort_num_result; [exact Hs|]. intros E. specialize (Hi E). simpl in Hi. rewrite Ev in Hi.
        inversion Hi; subst. now apply Qint_opp.
      * apply has_sort_num_result; [exact Hs|]. intros E. specialize (Hi E). simpl in Hi. rewrite Ev in Hi.
        inversion Hi; subst. unfold Qminus. apply Qint_plus; [assumption|]. apply Qint_opp. now apply Qsum_int.
    + (* times *)
      destruct (map sort_of args) as [|s r] eqn:E; [discriminate|].
      destruct args as [|a0 args']; [discriminate|]. simpl in E. inversion E; subst s r. clear E.
      apply (Hnum (sort_of a0) (map sort_of args') eq_refl Hok); [now apply (Hints _ _ eq_refl Hok)|].
      intros _ Hi. now apply Qprod_int.
    + (* rdiv *)
      destruct (map (eval I) args) as [|a [|b [|? ?]]]; simpl; try reflexivity. apply Qred_idem.
    + (* idiv *)
      destruct (map (eval I) args) as [|a [|b [|? ?]]]; simpl; try reflexivity; now rewrite Qfloor_Z.
    + (* mod *)
      destruct (map (eval I) args) as [|a [|b [|? ?]]]; simpl; try reflexivity; now rewrite Qfloor_Z.
    + (* uf *) apply coerce_has_sort.
Qed.
Local Transparent Qred inject_Z Qfloor.

Definition is_VB (v : value) : Prop := exists b, v = VB b.

Lemma has_sort_bool v : has_sort v SBool -> v = VB (asB v).
Proof. destruct v; simpl; tauto. Qed.

Lemma is_bool_sort t : is_bool t = true <-> sort_of t = SBool.
Proof. unfold is_bool. apply sort_eqb_eq. Qed.

Lemma eval_bool I t : wsort t = true -> is_bool t = true -> eval I t = VB (asB (eval I t)).
Proof. intros Hw Hb. apply has_sort_bool. apply is_bool_sort in Hb. rewrite <- Hb. now apply eval_has_sort. Qed.

(* ---------- insertion sort (std::sort of the literal vector in mkAnd / mkOr) ---------- *)
Lemma insert_by_perm {A} (le : A -> A -> bool) x l : Permutation (insert_by le x l) (x :: l).
Proof.
  induction l as [|y r IH]; simpl; [reflexivity|].
  destruct (le x y); [reflexivity|]. rewrite IH. apply perm_swap.
Qed.
Lemma isort_perm {A} (le : A -> A -> bool) l : Permutation (isort le l) l.
Proof.
  induction l as [|x r IH]; simpl; [reflexivity|]. unfold isort in *. simpl.
  rewrite insert_by_perm. now constructor.
Qed.

(* ---------- the selection sort of termSort ---------- *)
Section SelSort.
  Variable leb : term -> term -> bool.

  Lemma sel_min_perm x0 : forall r best m r' rep,
    sel_min leb x0 best r = (m, r', rep) ->
    (rep = false -> m = best /\ r' = r) /\ (rep = true -> Permutation (x0 :: r) (m :: r')).
  Proof.
    induction r as [|y r IH]; intros best m r' rep E; simpl in E.
    - inversion E; subst. split; [auto | discriminate].
    - destruct (ltb leb y best).
      + destruct (sel_min leb x0 y r) as [[m1 r1] rep1] eqn:E1. specialize (IH _ _ _ _ E1). destruct IH as [IH1 IH2].
        destruct rep1; inversion E; subst; (split; [discriminate|]); intros _.
        * specialize (IH2 eq_refl). rewrite perm_swap. rewrite (perm_swap y m r1). now constructor.
        * apply perm_swap.
      + destruct (sel_min leb x0 best r) as [[m1 r1] rep1] eqn:E1. specialize (IH _ _ _ _ E1). destruct IH as [IH1 IH2].
        inversion E; subst. split.
        * intros Hr. destruct (IH1 Hr) as [-> ->]. auto.
        * intros Hr. specialize (IH2 Hr). rewrite perm_swap. rewrite (perm_swap y m r1). now constructor.
  Qed.

  Lemma sel_step_perm x r m r' rep : sel_min leb x x r = (m, r', rep) -> Permutation (m :: r') (x :: r).
  Proof.
    intros E. destruct (sel_min_perm x r x m r' rep E) as [H1 H2]. destruct rep.
    - symmetry. now apply H2.
    - destruct (H1 eq_refl) as [-> ->]. reflexivity.
  Qed.

  Lemma sel_sort_perm : forall n l, Permutation (sel_sort leb n l) l.
  Proof.
    induction n as [|n IH]; intros l; simpl; [reflexivity|].
    destruct l as [|x r]; [reflexivity|].
    destruct (sel_min leb x x r) as [[m r'] rep] eqn:E.
    rewrite (IH r'). now apply (sel_step_perm x r m r' rep).
  Qed.

  Lemma tsort_perm l : Permutation (tsort leb l) l.
  Proof. apply sel_sort_perm. Qed.

  Lemma tsort2 a b : tsort leb [a; b] = [a; b] \/ tsort leb [a; b] = [b; a].
  Proof. unfold tsort. simpl. destruct (ltb leb b a); simpl; auto. Qed.

  (* sortedness, for a total preorder on the elements satisfying P (closed under the list) *)
  Variable P : term -> Prop.
  Hypothesis leb_total : forall a b, P a -> P b -> leb a b = true \/ leb b a = true.
  Hypothesis leb_trans : forall a b c, P a -> P b -> P c -> leb a b = true -> leb b c = true -> leb a c = true.

  Lemma leb_refl a : P a -> leb a a = true.
  Proof. intros H. destruct (leb_total a a H H); assumption. Qed.

  Lemma sel_min_least x0 : forall r best m r' rep,
    P x0 -> P best -> Forall P r -> leb best x0 = true ->
    sel_min leb x0 best r = (m, r', rep) ->
    P m /\ leb m best = true /\ leb m x0 = true /\ Forall (fun z => leb m z = true) r /\ Forall P r' /\
    Forall (fun z => leb m z = true) r'.
  Proof.
    induction r as [|y r IH]; intros best m r' rep Hx0 Hb Hr Hbx E; simpl in E.
    - inversion E; subst. repeat split; auto using leb_refl.
    - apply Forall_cons_iff in Hr. destruct Hr as [Hy Hr'].
      destruct (ltb leb y best) eqn:Hlt.
      + assert (Hyb : leb y best = true).
        { unfold ltb in Hlt. apply negb_true_iff in Hlt. destruct (leb_total y best Hy Hb); congruence. }
        assert (Hyx : leb y x0 = true) by (apply (leb_trans y best x0); auto).
        destruct (sel_min leb x0 y r) as [[m1 r1] rep1] eqn:E1.
        destruct (IH y m1 r1 rep1 Hx0 Hy Hr' Hyx E1) as (Pm & Hmy & Hmx & Hmr & Pr1 & Hmr1).
        destruct rep1.
        * assert (Hmb : leb m1 best = true) by (apply (leb_trans m1 y best); auto).
          inversion E; subst m r' rep. repeat split; auto.
        * destruct (sel_min_perm x0 r y m1 r1 false E1) as [H1 _]. destruct (H1 eq_refl) as [Em Er]. subst m1 r1.
          inversion E; subst m r' rep. repeat split; auto using leb_refl.
      + destruct (sel_min leb x0 best r) as [[m1 r1] rep1] eqn:E1.
        destruct (IH best m1 r1 rep1 Hx0 Hb Hr' Hbx E1) as (Pm & Hmb & Hmx & Hmr & Pr1 & Hmr1).
        inversion E; subst.
        assert (Hby : leb best y = true).
        { unfold ltb in Hlt. apply negb_false_iff in Hlt. exact Hlt. }
        assert (Hmy : leb m y = true) by (apply (leb_trans m best y); auto).
        repeat split; auto.
  Qed.

  Lemma sel_sort_sorted : forall n l, (length l <= n)%nat -> Forall P l ->
    StronglySorted (fun a b => leb a b = true) (sel_sort leb n l).
  Proof.
    induction n as [|n IH]; intros l Hn Hl.
    - destruct l; [constructor | simpl in Hn; lia].
    - destruct l as [|x r]; simpl; [constructor|].
      apply Forall_cons_iff in Hl. destruct Hl as [Hx Hr].
      destruct (sel_min leb x x r) as [[m r'] rep] eqn:E.
      destruct (sel_min_least x r x m r' rep Hx Hx Hr (leb_refl x Hx) E) as (Pm & _ & _ & _ & Pr' & Hmr').
      assert (Hlen : length r' = length r).
      { pose proof (sel_step_perm x r m r' rep E) as Hp. apply Permutation_length in Hp. simpl in Hp. lia. }
      constructor.
      + apply IH; [simpl in Hn; lia | exact Pr'].
      + eapply Permutation_Forall; [symmetry; apply sel_sort_perm | exact Hmr'].
  Qed.

  Lemma tsort_sorted l : Forall P l -> StronglySorted (fun a b => leb a b = true) (tsort leb l).
  Proof. intros H. apply sel_sort_sorted; [lia | exact H]. Qed.
End SelSort.
