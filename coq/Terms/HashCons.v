(* C28 — model of OpenSMT's hash-consed term store (definitions only; proofs in HashConsProofs.v).

   Modelled code (anchors into /repo/src):
     pterms/Pterm.h      PtermAllocator::alloc   — id = n_terms++ (monotone ids)
     pterms/PtStore.cc   PtStore::newTerm, has/addTo/getFrom{Cterm,Bool,Cplx}Map
     symbols/SymStore.cc SymStore::newSymb       — symbols deduplicated by (name, signature)
     logics/Logic.cc     Logic::mkFun            — three tables, argument sorting for commutative symbols
                         Logic::mkVar/mkConst    — newSymb + mkFun(sym, {})
                         Logic::mkDistinct       — the direct lookup + newTerm path for > 2 arguments
                         Logic::termSort         — sort by PTRef (= by id, allocation is monotone)
     logics/ArithLogic.cc ArithLogic::termSort / LessThan_deepPTRef — products compare by their variable
     minisat/mtl/Sort.h  selectionSort           — used by sort() for <= 15 elements

   Term ids are positions in [nodes]; symbol ids are positions in [syms]. *)
From Coq Require Import Ascii String List Arith Bool PeanoNat Sorted.
Import ListNotations.

(* ---- symbols ------------------------------------------------------------------------------- *)
Record syminfo := SymInfo {
  sy_nargs  : nat;    (* Symbol::nargs() *)
  sy_comm   : bool;   (* Symbol::commutes() *)
  sy_boolop : bool;   (* Logic::isBooleanOperator(sym): and or not =_Bool xor ite_Bool => distinct_Bool *)
  sy_flex   : bool;   (* left_assoc || right_assoc || chainable || pairwise: arity check skipped *)
  sy_times  : bool;   (* ArithLogic::isTimes(sym) *)
  sy_const  : bool    (* Logic::isConstant(sym) *)
}.

Record node := Node { n_sym : nat; n_args : list nat }.
Definition key := (nat * list nat)%type.

Definition key_eq_dec : forall a b : key, {a = b} + {a <> b}.
Proof. decide equality; [apply (list_eq_dec Nat.eq_dec) | apply Nat.eq_dec]. Defined.
Definition key_eqb (a b : key) : bool := if key_eq_dec a b then true else false.

Definition skey := (string * nat)%type.     (* symbol name, code of (rsort, arg sorts, commutes, noScoping, interpreted) *)
Definition skey_eq_dec : forall a b : skey, {a = b} + {a <> b}.
Proof. decide equality; [apply Nat.eq_dec | apply string_dec]. Defined.
Definition skey_eqb (a b : skey) : bool := if skey_eq_dec a b then true else false.

(* association lists: newest binding first (operator[]= / insert) *)
Fixpoint assoc {K V : Type} (eqb : K -> K -> bool) (k : K) (l : list (K * V)) : option V :=
  match l with
  | [] => None
  | (k', v) :: r => if eqb k k' then Some v else assoc eqb k r
  end.

Record store := Store {
  syms   : list syminfo;            (* SymStore::symbols *)
  symtab : list (skey * nat);       (* SymStore::symbolTable, resolved to the deduplication key *)
  nodes  : list node;               (* PtStore::idToPTRef / PtermAllocator: position = Pterm::getId() *)
  cmap   : list (nat * nat);        (* cterm_map : nullary symbol -> term *)
  bmap   : list (key * nat);        (* bool_map  : Boolean operators *)
  xmap   : list (key * nat);        (* cplx_map  : everything else *)
  dcount : nat;                     (* Logic::distinctClassCount *)
  dmax   : nat                      (* maxDistinctClasses *)
}.

Definition empty_store (dm : nat) : store := Store [] [] [] [] [] [] 0 dm.

Definition sym_flag (p : syminfo -> bool) (s : store) (f : nat) : bool :=
  match nth_error (syms s) f with Some si => p si | None => false end.
Definition boolop (s : store) (f : nat) : bool := sym_flag sy_boolop s f.
Definition comm (s : store) (f : nat) : bool := sym_flag sy_comm s f.

(* ---- argument sorting ---------------------------------------------------------------------- *)
(* Which comparison termSort uses.
   SortCore    : Logic::termSort, std::less<PTRef>  (PTRef order = id order)
   SortDeep    : ArithLogic::termSort with LessThan_deepPTRef as in the pinned source: a product
                 c*v is compared by its variable v, everything else by itself — NOT injective
   SortDeepTie : the repaired comparison: same, ties broken by the term itself *)
Inductive sortmode := SortCore | SortDeep | SortDeepTie.

Definition is_const_term (s : store) (a : nat) : bool :=
  match nth_error (nodes s) a with Some n => sym_flag sy_const s (n_sym n) | None => false end.

(* LessThan_deepPTRef::getVarIdFromProduct / ArithLogic::splitTermToVarAndConst on a product *)
Definition deep_key (s : store) (a : nat) : nat :=
  match nth_error (nodes s) a with
  | Some (Node f [u; v]) => if sym_flag sy_times s f then (if is_const_term s u then v else u) else a
  | _ => a
  end.

Definition term_lt (m : sortmode) (s : store) (a b : nat) : bool :=
  match m with
  | SortCore => a <? b
  | SortDeep => deep_key s a <? deep_key s b
  | SortDeepTie => (deep_key s a <? deep_key s b) || ((deep_key s a =? deep_key s b) && (a <? b))
  end.

(* minisat selectionSort (Sort.h:36-48), one round: the position (in the tail) of the element that ends
   up first; None when array[i] itself stays. [best_i] moves only on a strict improvement. *)
Fixpoint argmin (lt : nat -> nat -> bool) (bv : nat) (l : list nat) : option nat :=
  match l with
  | [] => None
  | y :: l' => if lt y bv
               then Some (match argmin lt y l' with None => 0 | Some k => S k end)
               else option_map S (argmin lt bv l')
  end.

Fixpoint replace_nth (k : nat) (x : nat) (l : list nat) : list nat :=
  match l, k with
  | [], _ => []
  | _ :: r, 0 => x :: r
  | y :: r, S k' => y :: replace_nth k' x r
  end.

Fixpoint ssort_f (lt : nat -> nat -> bool) (fuel : nat) (l : list nat) : list nat :=
  match fuel, l with
  | S fuel', x :: r =>
      match argmin lt x r with
      | None => x :: ssort_f lt fuel' r
      | Some k => nth k r x :: ssort_f lt fuel' (replace_nth k x r)     (* swap array[i], array[best_i] *)
      end
  | _, _ => l
  end.
Definition ssort (lt : nat -> nat -> bool) (l : list nat) : list nat := ssort_f lt (length l) l.

Definition tsort (m : sortmode) (s : store) (l : list nat) : list nat := ssort (term_lt m s) l.

(* ---- operations ---------------------------------------------------------------------------- *)
Inductive result := RSym (f : nat) | RTerm (id : nat) | RSimp | RExc.

Definition valid_args (s : store) (args : list nat) : bool :=
  forallb (fun a => a <? length (nodes s)) args.

(* SymStore::newSymb *)
Definition declare (s : store) (name : string) (sig : nat) (info : syminfo) : store * nat :=
  match assoc skey_eqb (name, sig) (symtab s) with
  | Some f => (s, f)
  | None => let f := length (syms s) in
            (Store (syms s ++ [info]) (((name, sig), f) :: symtab s) (nodes s) (cmap s) (bmap s) (xmap s)
                   (dcount s) (dmax s), f)
  end.

(* PtStore::newTerm followed by the addTo...Map of the chosen table *)
Inductive table := TC | TB | TX.
Definition new_term (s : store) (t : table) (f : nat) (args : list nat) : store * nat :=
  let id := length (nodes s) in
  (Store (syms s) (symtab s) (nodes s ++ [Node f args])
         (match t with TC => (f, id) :: cmap s | _ => cmap s end)
         (match t with TB => ((f, args), id) :: bmap s | _ => bmap s end)
         (match t with TX => ((f, args), id) :: xmap s | _ => xmap s end)
         (dcount s) (dmax s), id).

(* Logic::mkFun (Logic.cc:756-808) *)
Definition mkFun (m : sortmode) (s : store) (f : nat) (args : list nat) : store * result :=
  match nth_error (syms s) f with
  | None => (s, RExc)
  | Some si =>
    if negb (valid_args s args) then (s, RExc) else
    match args with
    | [] => match assoc Nat.eqb f (cmap s) with
            | Some id => (s, RTerm id)
            | None => let (s', id) := new_term s TC f [] in (s', RTerm id)
            end
    | _ :: _ =>
      if negb (sy_boolop si) then
        if negb (sy_flex si) && negb (sy_nargs si =? length args) then (s, RExc) else
        let a := if sy_comm si then tsort m s args else args in
        match assoc key_eqb (f, a) (xmap s) with
        | Some id => (s, RTerm id)
        | None => let (s', id) := new_term s TX f a in (s', RTerm id)
        end
      else
        match assoc key_eqb (f, args) (bmap s) with
        | Some id => (s, RTerm id)
        | None => let (s', id) := new_term s TB f args in (s', RTerm id)
        end
    end
  end.

Fixpoint has_adj_dup (l : list nat) : bool :=
  match l with
  | a :: ((b :: _) as r) => (a =? b) || has_adj_dup r
  | _ => false
  end.

(* Logic::mkDistinct (Logic.cc:537-584) for more than two arguments: RSimp = folded to a constant or
   expanded into binary disequalities (no node of this symbol is created) *)
Definition mkDistinct (m : sortmode) (s : store) (f : nat) (args : list nat) : store * result :=
  match nth_error (syms s) f with
  | None => (s, RExc)
  | Some si =>
    if negb (valid_args s args) || (length args <? 3) then (s, RExc) else
    if sy_boolop si then (s, RSimp) else
    let a := tsort m s args in
    if has_adj_dup a then (s, RSimp) else
    if forallb (is_const_term s) a then (s, RSimp) else
    match assoc key_eqb (f, a) (xmap s) with
    | Some id => (s, RTerm id)
    | None => if dcount s <? dmax s then
                let (s', id) := new_term s TX f a in
                (Store (syms s') (symtab s') (nodes s') (cmap s') (bmap s') (xmap s') (S (dcount s')) (dmax s'), RTerm id)
              else (s, RSimp)
    end
  end.

Inductive op :=
| OpDeclare (name : string) (sig : nat) (info : syminfo)     (* Logic::declareFun *)
| OpMkVar (name : string) (sig : nat) (info : syminfo)       (* Logic::mkVar / mkConst: newSymb, then mkFun(sym, {}) *)
| OpMkFun (f : nat) (args : list nat)
| OpMkDistinct (f : nat) (args : list nat).

Definition step (m : sortmode) (s : store) (o : op) : store * result :=
  match o with
  | OpDeclare name sig info => let (s', f) := declare s name sig info in (s', RSym f)
  | OpMkVar name sig info => let (s', f) := declare s name sig info in mkFun m s' f []
  | OpMkFun f args => mkFun m s f args
  | OpMkDistinct f args => mkDistinct m s f args
  end.

Definition run_from (m : sortmode) (s : store) (ops : list op) : store :=
  fold_left (fun s o => fst (step m s o)) ops s.
Definition run (m : sortmode) (dm : nat) (ops : list op) : store := run_from m (empty_store dm) ops.

(* ---- the invariant -------------------------------------------------------------------------- *)
Definition sorted_args (m : sortmode) (s : store) (l : list nat) : Prop :=
  StronglySorted (fun a b => term_lt m s b a = false) l.

Record HC (m : sortmode) (s : store) : Prop := {
  hc_syms : forall i n, nth_error (nodes s) i = Some n -> n_sym n < length (syms s);
  hc_sub  : forall i n, nth_error (nodes s) i = Some n -> Forall (fun a => a < i) (n_args n);
  hc_cmap : forall f i, assoc Nat.eqb f (cmap s) = Some i <-> nth_error (nodes s) i = Some (Node f []);
  hc_xmap : forall f a i, assoc key_eqb (f, a) (xmap s) = Some i <->
              (nth_error (nodes s) i = Some (Node f a) /\ a <> [] /\ boolop s f = false);
  hc_bmap : forall f a i, assoc key_eqb (f, a) (bmap s) = Some i <->
              (nth_error (nodes s) i = Some (Node f a) /\ a <> [] /\ boolop s f = true);
  hc_sorted : forall i f a, nth_error (nodes s) i = Some (Node f a) ->
              comm s f = true -> boolop s f = false -> sorted_args m s a;
  hc_symtab : forall k f, assoc skey_eqb k (symtab s) = Some f -> f < length (syms s)
}.

(* ---- ids unfolded to trees ------------------------------------------------------------------ *)
Inductive tree := T (f : nat) (ts : list tree).

Inductive denotes (s : store) : nat -> tree -> Prop :=
| Den : forall i f args ts, nth_error (nodes s) i = Some (Node f args) ->
        Forall2 (denotes s) args ts -> denotes s i (T f ts).

(* executable unfolding (fuel = number of nodes suffices when subterms come first) *)
Fixpoint tree_of (fuel : nat) (s : store) (i : nat) : option tree :=
  match fuel with
  | 0 => None
  | S fuel' =>
    match nth_error (nodes s) i with
    | None => None
    | Some (Node f args) =>
      let fix go (l : list nat) : option (list tree) :=
        match l with
        | [] => Some []
        | a :: r => match tree_of fuel' s a, go r with Some t, Some ts => Some (t :: ts) | _, _ => None end
        end in
      match go args with Some ts => Some (T f ts) | None => None end
    end
  end.

(* ---- structural checker for a dumped store (run on the implementation's dump by the tie) ----- *)
Fixpoint sorted_b (lt : nat -> nat -> bool) (l : list nat) : bool :=
  match l with
  | [] => true
  | a :: r => forallb (fun b => negb (lt b a)) r && sorted_b lt r
  end.

Fixpoint dup_free (l : list node) : bool :=
  match l with
  | [] => true
  | n :: r => negb (existsb (fun n' => key_eqb (n_sym n, n_args n) (n_sym n', n_args n')) r) && dup_free r
  end.

Fixpoint nodes_ok (m : sortmode) (s : store) (i : nat) (l : list node) : bool :=
  match l with
  | [] => true
  | n :: r =>
      (n_sym n <? length (syms s)) && forallb (fun a => a <? i) (n_args n) &&
      (if comm s (n_sym n) && negb (boolop s (n_sym n)) then sorted_b (term_lt m s) (n_args n) else true) &&
      nodes_ok m s (S i) r
  end.

(* store with only symbols and nodes, as dumped *)
Definition dump_store (sy : list syminfo) (ns : list node) : store := Store sy [] ns [] [] [] 0 0.
Definition hc_check (m : sortmode) (sy : list syminfo) (ns : list node) : bool :=
  let s := dump_store sy ns in dup_free ns && nodes_ok m s 0 ns.

(* decimal value of a numeral spelling, for the statement about numeric constants *)
Definition digit_val (c : Ascii.ascii) : option nat :=
  let n := Ascii.nat_of_ascii c in if (48 <=? n) && (n <=? 57) then Some (n - 48) else None.
Fixpoint digits_val (acc : nat) (s : string) : option nat :=
  match s with
  | EmptyString => Some acc
  | String c r => match digit_val c with Some d => digits_val (10 * acc + d) r | None => None end
  end.
(* (negative?, magnitude); "-0" and "0" have the same value *)
Definition numeral_value (s : string) : option (bool * nat) :=
  match s with
  | EmptyString => None
  | String "-"%char r => match r with EmptyString => None | _ =>
                           match digits_val 0 r with Some 0 => Some (false, 0) | Some n => Some (true, n) | None => None end end
  | _ => match digits_val 0 s with Some n => Some (false, n) | None => None end
  end.
