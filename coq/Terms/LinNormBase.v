(* C14: semantics of the linear polynomials of LinNorm.v: linearize / merge / to_term preserve the value. *)
From Coq Require Import ZArith QArith Qround Qreduction Qabs List Bool Arith Lia Lqa Permutation.
From OsmtV.Terms Require Import TermSem BoolCtors BoolCtorsBase BoolCtorsProofs LinNorm.
Import ListNotations.

Definition aval (I : interp) (t : term) : Q := asN (eval I t).
Definition mval (I : interp) (m : mono) : Q := snd m * aval I (fst m).
Definition msum (I : interp) (ms : list mono) : Q := Qsum (map (mval I) ms).
Definition peval (I : interp) (p : poly) : Q := msum I (fst p) + snd p.

(* a term whose value is a (canonical) number *)
Definition natom (I : interp) (t : term) : Prop := eval I t = VN (Qred (aval I t)).
(* the atoms of a polynomial: well sorted and var-like *)
Definition atoms_P (P : term -> Prop) (ms : list mono) : Prop := Forall (fun m => P (fst m)) ms.
Definition okatom (a : term) : Prop := wsort a = true /\ is_atom a = true.
Notation atoms_ok := (atoms_P okatom).

(* ---------- sums ---------- *)
Lemma Qsum_app l l' : Qsum (l ++ l') == Qsum l + Qsum l'.
Proof. induction l; simpl; [ring | rewrite IHl; ring]. Qed.
Lemma Qsum_perm l l' : Permutation l l' -> Qsum l == Qsum l'.
Proof. induction 1; simpl; try rewrite IHPermutation; try ring. now rewrite IHPermutation1. Qed.
Lemma Qprod_app l l' : Qprod (l ++ l') == Qprod l * Qprod l'.
Proof. induction l; simpl; [ring | rewrite IHl; ring]. Qed.
Lemma Qprod_perm l l' : Permutation l l' -> Qprod l == Qprod l'.
Proof. induction 1; simpl; try rewrite IHPermutation; try ring. now rewrite IHPermutation1. Qed.

Lemma msum_app I a b : msum I (a ++ b) == msum I a + msum I b.
Proof. unfold msum. rewrite map_app. apply Qsum_app. Qed.
Lemma msum_perm I a b : Permutation a b -> msum I a == msum I b.
Proof. intros H. unfold msum. apply Qsum_perm. now apply Permutation_map. Qed.

(* ---------- numbers as values ---------- *)
Local Opaque Qred inject_Z Qfloor.
Lemma eval_canon I t q : eval I t = VN q -> Qred q = q.
Proof.
  revert q. induction t using term_ind'; intros q0 E; simpl in E.
  - destruct s; simpl in E; inversion E; subst; [apply Qred_inject_Z | apply Qred_idem].
  - discriminate.
  - inversion E; subst. apply Qred_idem.
  - discriminate.
  - destruct o; simpl in E; try discriminate; try (inversion E; subst; apply Qred_idem).
    + destruct (map (eval I) args) as [|? [|? ?]]; discriminate.
    + destruct (rev (map asB (map (eval I) args))); discriminate.
    + destruct args as [|c [|a [|b [|? ?]]]]; simpl in E; try discriminate.
      inversion H as [|? ? _ H2]; subst. inversion H2 as [|? ? Ha H3]; subst. inversion H3 as [|? ? Hb _]; subst.
      destruct (asB (eval I c)); [now apply Ha | now apply Hb].
    + destruct (map (eval I) args) as [|? [|? ?]]; inversion E; subst; try reflexivity; apply Qred_idem.
    + destruct (map (eval I) args) as [|? [|? [|? ?]]]; inversion E; subst; try reflexivity; apply Qred_idem.
    + destruct (map (eval I) args) as [|? [|? [|? ?]]]; inversion E; subst; try reflexivity; apply Qred_inject_Z.
    + destruct (map (eval I) args) as [|? [|? [|? ?]]]; inversion E; subst; try reflexivity; apply Qred_inject_Z.
    + destruct rs; simpl in E; inversion E; subst; [apply Qred_inject_Z | apply Qred_idem].
Qed.
Local Transparent Qred inject_Z Qfloor.

Lemma natom_of_VN I t q : eval I t = VN q -> natom I t.
Proof. intros E. unfold natom, aval. rewrite E. simpl. now rewrite (eval_canon I t q E). Qed.

Lemma wsort_natom I t : wsort t = true -> is_num_sort (sort_of t) = true -> natom I t.
Proof.
  intros Hw Hs. pose proof (eval_has_sort I t Hw) as H.
  destruct (sort_of t); try discriminate; destruct (eval I t) eqn:E; simpl in H; try tauto;
    now apply (natom_of_VN I t q).
Qed.

Lemma natom_num I s q : natom I (num s q).
Proof. apply (natom_of_VN _ _ (Qred (Qred q))). reflexivity. Qed.
Lemma natom_plus I l : natom I (TApp OPlus l).
Proof. eapply natom_of_VN. reflexivity. Qed.
Lemma natom_times I l : natom I (TApp OTimes l).
Proof. eapply natom_of_VN. reflexivity. Qed.

Lemma natom_eq I t x : natom I t -> aval I t == x -> eval I t = VN (Qred x).
Proof. intros H E. rewrite H. f_equal. now apply Qred_complete. Qed.

Lemma is_atom_num_sort t : is_atom t = true -> is_num_sort (sort_of t) = true.
Proof. unfold is_atom. rewrite !andb_true_iff. tauto. Qed.

Lemma atom_natom I (m : mono) : wsort (fst m) = true /\ is_atom (fst m) = true -> natom I (fst m).
Proof. intros [H1 H2]. apply wsort_natom; [exact H1 | now apply is_atom_num_sort]. Qed.

Lemma aval_num I s q : aval I (num s q) == q.
Proof. unfold aval, num. simpl. now rewrite !Qred_correct. Qed.
Lemma aval_TNum I s q sp : aval I (TNum s q sp) == q.
Proof. unfold aval. simpl. apply Qred_correct. Qed.
Lemma aval_plus I l : aval I (TApp OPlus l) == Qsum (map (aval I) l).
Proof. unfold aval. simpl. rewrite Qred_correct, map_map. reflexivity. Qed.
Lemma aval_times I l : aval I (TApp OTimes l) == Qprod (map (aval I) l).
Proof. unfold aval. simpl. rewrite Qred_correct, map_map. reflexivity. Qed.

Lemma is_num_const_val I t : is_num_const t = true -> aval I t == num_val t.
Proof. destruct t; try discriminate. intros _. apply aval_TNum. Qed.

(* ---------- linearize ---------- *)
Lemma lin_factor_inv t p : lin_factor t = Some p ->
  (exists s q sp, t = TNum s q sp /\ p = ([], q)) \/
  (exists a b, t = TApp OTimes [a; b] /\
     ((is_num_const a = true /\ is_atom b = true /\ p = ([(b, num_val a)], 0)) \/
      (is_num_const b = true /\ is_atom a = true /\ p = ([(a, num_val b)], 0)))) \/
  (is_atom t = true /\ p = ([(t, 1)], 0)).
Proof.
  intros H.
  assert (Hat : (if is_atom t then Some ([(t, 1)], 0) else None) = Some p ->
                is_atom t = true /\ p = ([(t, 1)], 0)).
  { destruct (is_atom t); intros E; inversion E; auto. }
  destruct t as [s x|b|s q sp|s c|o args]; try (right; right; apply Hat; exact H).
  - left. inversion H. eauto.
  - destruct o; try (right; right; apply Hat; exact H).
    destruct args as [|a [|b [|c r]]]; try (apply Hat in H; destruct H as [H _]; unfold is_atom in H; simpl in H;
      rewrite ?andb_false_r in H; discriminate).
    right; left. exists a, b. split; [reflexivity|]. cbn [lin_factor] in H.
    destruct (is_num_const a && is_atom b) eqn:E1.
    + apply andb_true_iff in E1. inversion H. left. tauto.
    + destruct (is_num_const b && is_atom a) eqn:E2; [|discriminate].
      apply andb_true_iff in E2. inversion H. right. tauto.
Qed.

Lemma lin_factor_sound I t p : lin_factor t = Some p -> aval I t == peval I p.
Proof.
  intros H. destruct (lin_factor_inv t p H) as [(s & q & sp & -> & ->) | [(a & b & -> & Hc) | [_ ->]]].
  - rewrite aval_TNum. unfold peval, msum. simpl. ring.
  - rewrite aval_times. simpl. destruct Hc as [(Ha & _ & ->) | (Hb & _ & ->)]; unfold peval, msum, mval; simpl.
    + rewrite (is_num_const_val I a Ha). ring.
    + rewrite (is_num_const_val I b Hb). ring.
  - unfold peval, msum, mval. simpl. ring.
Qed.

Lemma wsort_times2 a b : wsort (TApp OTimes [a; b]) = true -> wsort a = true /\ wsort b = true.
Proof. simpl. rewrite !andb_true_iff. tauto. Qed.

Lemma lin_factor_atoms t p : wsort t = true -> lin_factor t = Some p -> atoms_ok (fst p).
Proof.
  intros Hw H. destruct (lin_factor_inv t p H) as [(s & q & sp & -> & ->) | [(a & b & -> & Hc) | [Ha ->]]].
  - constructor.
  - destruct (wsort_times2 a b Hw) as [Wa Wb].
    destruct Hc as [(_ & Hb & ->) | (_ & Ha & ->)]; repeat constructor; auto.
  - repeat constructor; auto.
Qed.

Lemma peval_padd I p q : peval I (padd p q) == peval I p + peval I q.
Proof. unfold peval, padd. simpl. rewrite msum_app. ring. Qed.

Lemma msum_scale I k ms : msum I (map (fun m => (fst m, k * snd m)) ms) == k * msum I ms.
Proof. unfold msum. induction ms; simpl; [ring|]. rewrite IHms. unfold mval. simpl. ring. Qed.

Lemma peval_pscale I k p : peval I (pscale k p) == k * peval I p.
Proof. unfold peval, pscale. simpl. rewrite msum_scale. ring. Qed.

Lemma psum_sound I : forall l p, psum l = Some p ->
  forall xs, Forall2 (fun o x => forall q, o = Some q -> x == peval I q) l xs -> Qsum xs == peval I p.
Proof.
  induction l as [|o l IH]; intros p E xs HF; simpl in E.
  - inversion E; subst. inversion HF; subst. unfold peval, msum. simpl. ring.
  - destruct o as [q|]; [|discriminate]. destruct (psum l) as [p'|] eqn:Ep; [|discriminate].
    inversion E; subst. inversion HF; subst. simpl. rewrite peval_padd.
    rewrite (IH p' eq_refl l' H3). rewrite (H1 q eq_refl). reflexivity.
Qed.

Lemma psum_atoms P : forall l p, psum l = Some p ->
  Forall (fun o => forall q, o = Some q -> atoms_P P (fst q)) l -> atoms_P P (fst p).
Proof.
  induction l as [|o l IH]; intros p E HF; simpl in E.
  - inversion E; subst. constructor.
  - destruct o as [q|]; [|discriminate]. destruct (psum l) as [p'|] eqn:Ep; [|discriminate].
    inversion E; subst. apply Forall_cons_iff in HF. destruct HF as [Hq Hl]. simpl.
    apply Forall_app. split; [now apply Hq | now apply IH].
Qed.

Lemma linearize_sound I t p : linearize t = Some p -> aval I t == peval I p.
Proof.
  intros H.
  assert (Hgen : lin_factor t = Some p -> aval I t == peval I p) by apply lin_factor_sound.
  destruct t as [| | | |o args]; try (apply Hgen; exact H).
  destruct o; try (apply Hgen; exact H).
  cbn [linearize] in H. rewrite aval_plus. apply (psum_sound I _ p H).
  clear. induction args; simpl; constructor; auto. intros q Hq. now apply lin_factor_sound.
Qed.

Lemma linearize_atoms t p : wsort t = true -> linearize t = Some p -> atoms_ok (fst p).
Proof.
  intros Hw H.
  assert (Hgen : lin_factor t = Some p -> atoms_ok (fst p)) by now apply lin_factor_atoms.
  destruct t as [| | | |o args]; try (apply Hgen; exact H).
  destruct o; try (apply Hgen; exact H).
  cbn [linearize] in H. apply (psum_atoms _ _ p H).
  simpl in Hw. apply andb_true_iff in Hw. destruct Hw as [Hw _].
  apply Forall_map. apply Forall_forall. intros x Hx q Hq.
  rewrite forallb_forall in Hw. apply (lin_factor_atoms x); [now apply Hw | exact Hq].
Qed.

Lemma linearize_list_sound I : forall args p, psum (map linearize args) = Some p ->
  Qsum (map (aval I) args) == peval I p.
Proof.
  intros args p H. apply (psum_sound I _ p H).
  clear. induction args; simpl; constructor; auto. intros q Hq. now apply linearize_sound.
Qed.

Lemma linearize_list_atoms : forall args p, forallb wsort args = true -> psum (map linearize args) = Some p ->
  atoms_ok (fst p).
Proof.
  intros args p Hw H. apply (psum_atoms _ _ p H). apply Forall_map. apply Forall_forall. intros x Hx q Hq.
  rewrite forallb_forall in Hw. apply (linearize_atoms x); [now apply Hw | exact Hq].
Qed.

(* ---------- merge / pnorm ---------- *)
Lemma madd_sum I a k ms : msum I (madd a k ms) == msum I ms + k * aval I a.
Proof.
  unfold msum. induction ms as [|[b k'] r IH]; simpl.
  - unfold mval. simpl. ring.
  - destruct (term_eqb a b) eqn:E.
    + apply term_eqb_eq in E. subst b. simpl. unfold mval. simpl. ring.
    + simpl. rewrite IH. ring.
Qed.

Lemma madd_atoms P a k ms : atoms_P P ((a, k) :: ms) -> atoms_P P (madd a k ms).
Proof.
  intros H. apply Forall_cons_iff in H. destruct H as [Ha Hms]. simpl in Ha.
  induction ms as [|[b k'] r IH]; simpl.
  - constructor; [exact Ha | constructor].
  - apply Forall_cons_iff in Hms. destruct Hms as [Hb Hr].
    destruct (term_eqb a b).
    + constructor; [exact Hb | exact Hr].
    + constructor; [exact Hb | now apply IH].
Qed.

Lemma msum_nil I : msum I [] == 0.
Proof. reflexivity. Qed.
Lemma msum_cons I m r : msum I (m :: r) == mval I m + msum I r.
Proof. reflexivity. Qed.

Lemma merge_gen I : forall ms acc, msum I (fold_left (fun acc m => madd (fst m) (snd m) acc) ms acc) == msum I acc + msum I ms.
Proof.
  induction ms as [|m r IH]; intros acc; simpl.
  - rewrite msum_nil. ring.
  - rewrite IH, madd_sum, msum_cons. unfold mval. ring.
Qed.

Lemma merge_sum I ms : msum I (merge ms) == msum I ms.
Proof. unfold merge. rewrite merge_gen, msum_nil. ring. Qed.

Lemma merge_atoms_gen P : forall ms acc, atoms_P P acc -> atoms_P P ms ->
  atoms_P P (fold_left (fun acc m => madd (fst m) (snd m) acc) ms acc).
Proof.
  induction ms as [|m r IH]; intros acc Ha Hm; simpl; [exact Ha|].
  apply Forall_cons_iff in Hm. destruct Hm as [Hm Hr]. apply IH; [|exact Hr].
  apply madd_atoms. constructor; auto.
Qed.
Lemma merge_atoms P ms : atoms_P P ms -> atoms_P P (merge ms).
Proof. intros H. apply merge_atoms_gen; [constructor | exact H]. Qed.

Lemma filter_nonzero_sum I ms : msum I (filter nonzero ms) == msum I ms.
Proof.
  unfold msum. induction ms as [|m r IH]; simpl; [reflexivity|].
  unfold nonzero at 1. destruct (Qeq_bool (snd m) 0) eqn:E; simpl.
  - apply Qeq_bool_eq in E. rewrite IH. unfold mval at 2. rewrite E. ring.
  - now rewrite IH.
Qed.

Lemma filter_atoms P (f : mono -> bool) ms : atoms_P P ms -> atoms_P P (filter f ms).
Proof.
  unfold atoms_P. rewrite !Forall_forall. intros H x Hx. apply filter_In in Hx. now apply H.
Qed.

Lemma peval_pnorm I p : peval I (pnorm p) == peval I p.
Proof. unfold peval, pnorm. simpl. now rewrite filter_nonzero_sum, merge_sum. Qed.

Lemma pnorm_atoms P p : atoms_P P (fst p) -> atoms_P P (fst (pnorm p)).
Proof. intros H. simpl. now apply filter_atoms, merge_atoms. Qed.

Lemma pnorm_nonzero p : Forall (fun m => nonzero m = true) (fst (pnorm p)).
Proof. simpl. apply Forall_forall. intros x Hx. apply filter_In in Hx. tauto. Qed.

Lemma pscale_atoms P k p : atoms_P P (fst p) -> atoms_P P (fst (pscale k p)).
Proof. unfold pscale. simpl. intros H. apply Forall_map. simpl. exact H. Qed.
Lemma padd_atoms P p q : atoms_P P (fst p) -> atoms_P P (fst q) -> atoms_P P (fst (padd p q)).
Proof. intros H1 H2. simpl. apply Forall_app. auto. Qed.

(* ---------- to_term ---------- *)
Section ToTerm.
  Variable leb : term -> term -> bool.
  Variable I : interp.

  Lemma aval_mono_term s m : aval I (mono_term leb s m) == mval I m.
  Proof.
    unfold mono_term, mval. destruct (Qeq_bool (snd m) 1) eqn:E.
    - apply Qeq_bool_eq in E. rewrite E. ring.
    - rewrite aval_times. destruct (tsort2 leb (num s (snd m)) (fst m)) as [-> | ->]; simpl; rewrite aval_num; ring.
  Qed.

  Lemma natom_mono_term s m : natom I (fst m) -> natom I (mono_term leb s m).
  Proof. intros H. unfold mono_term. destruct (Qeq_bool (snd m) 1); [exact H | apply natom_times]. Qed.

  Lemma aval_to_term s p : aval I (to_term leb s p) == peval I p.
  Proof.
    unfold to_term.
    set (fs := map (mono_term leb s) (filter nonzero (fst p))).
    set (cs := if Qeq_bool (snd p) 0 then [] else [num s (snd p)]).
    assert (Hsum : Qsum (map (aval I) (fs ++ cs)) == peval I p).
    { rewrite map_app, Qsum_app. unfold peval. rewrite <- (filter_nonzero_sum I (fst p)).
      assert (Qsum (map (aval I) fs) == msum I (filter nonzero (fst p))) as ->.
      { unfold fs, msum. induction (filter nonzero (fst p)); simpl; [reflexivity|]. now rewrite IHl, aval_mono_term. }
      assert (Qsum (map (aval I) cs) == snd p) as ->; [|reflexivity].
      unfold cs. destruct (Qeq_bool (snd p) 0) eqn:E; simpl.
      - apply Qeq_bool_eq in E. now rewrite E.
      - rewrite aval_num. ring. }
    destruct (fs ++ cs) as [|t [|t' r]] eqn:El.
    - rewrite aval_num. rewrite <- Hsum. reflexivity.
    - rewrite <- Hsum. simpl. ring.
    - rewrite aval_plus. rewrite <- Hsum. apply Qsum_perm. apply Permutation_map. apply tsort_perm.
  Qed.

  Lemma natom_to_term s p : atoms_ok (fst p) -> natom I (to_term leb s p).
  Proof.
    intros Hok. unfold to_term.
    set (fs := map (mono_term leb s) (filter nonzero (fst p))).
    set (cs := if Qeq_bool (snd p) 0 then [] else [num s (snd p)]).
    assert (Hall : Forall (natom I) (fs ++ cs)).
    { apply Forall_app. split.
      - unfold fs. apply Forall_map. apply (filter_atoms _ nonzero) in Hok.
        eapply Forall_impl; [|exact Hok]. intros m Hm. apply natom_mono_term. now apply atom_natom.
      - unfold cs. destruct (Qeq_bool (snd p) 0); repeat constructor. apply natom_num. }
    destruct (fs ++ cs) as [|t [|t' r]].
    - apply natom_num.
    - now inversion Hall.
    - apply natom_plus.
  Qed.

  Lemma eval_to_term s p x : atoms_ok (fst p) -> peval I p == x -> eval I (to_term leb s p) = VN (Qred x).
  Proof.
    intros Hok Hx. apply natom_eq; [now apply natom_to_term|]. now rewrite aval_to_term.
  Qed.
End ToTerm.

(* ---------- sorts of atoms ---------- *)
Lemma lin_factor_sorts t p : wsort t = true -> lin_factor t = Some p ->
  atoms_P (fun a => sort_of a = sort_of t) (fst p).
Proof.
  intros Hw H. destruct (lin_factor_inv t p H) as [(s & q & sp & -> & ->) | [(a & b & -> & Hc) | [Ha ->]]].
  - constructor.
  - assert (Hs : sort_of b = sort_of a).
    { simpl in Hw. rewrite !andb_true_iff in Hw. destruct Hw as [_ [_ [Hs _]]]. apply sort_eqb_eq in Hs.
      now symmetry. }
    destruct Hc as [(_ & _ & ->) | (_ & _ & ->)]; repeat constructor; simpl; auto.
  - repeat constructor.
Qed.

Lemma plus_arg_sorts x l : wsort (TApp OPlus (x :: l)) = true ->
  Forall (fun y => wsort y = true /\ sort_of y = sort_of x) (x :: l).
Proof.
  simpl. rewrite !andb_true_iff. intros [[Wx Wl] [_ Hs]]. apply all_sort_Forall in Hs.
  constructor; [auto|]. rewrite Forall_map in Hs. rewrite forallb_forall in Wl.
  apply Forall_forall. intros y Hy. rewrite Forall_forall in Hs. split; [now apply Wl | now apply Hs].
Qed.

Lemma linearize_sorts t p : wsort t = true -> linearize t = Some p ->
  atoms_P (fun a => sort_of a = sort_of t) (fst p).
Proof.
  intros Hw H.
  assert (Hgen : lin_factor t = Some p -> atoms_P (fun a => sort_of a = sort_of t) (fst p)) by now apply lin_factor_sorts.
  destruct t as [| | | |o args]; try (apply Hgen; exact H).
  destruct o; try (apply Hgen; exact H).
  cbn [linearize] in H. destruct args as [|x l].
  - simpl in H. inversion H. constructor.
  - pose proof (plus_arg_sorts x l Hw) as Hargs. apply (psum_atoms _ _ p H).
    apply Forall_map. eapply Forall_impl; [|exact Hargs]. intros y [Wy Sy] q Hq.
    pose proof (lin_factor_sorts y q Wy Hq) as Hy. unfold atoms_P in *.
    eapply Forall_impl; [|exact Hy]. intros m Hm. simpl in *. congruence.
Qed.
