(* C14: ArithLogic::mkBinaryEq / sumToNormalizedEquality, and with it mkEq and mkDistinct over all sorts. *)
From Coq Require Import ZArith QArith Qround Qreduction Qabs List Bool Arith Lia Lqa Permutation.
From OsmtV.Terms Require Import TermSem BoolCtors BoolCtorsBase BoolCtorsProofs LinNorm LinNormBase LinNormProofs LinNormIneq.
Import ListNotations.

Lemma okatom_not_const a : okatom a -> is_const a = false.
Proof.
  intros [Hw Ha]. destruct a as [| | |s c|]; try reflexivity.
  - unfold is_atom in Ha. simpl in Ha. discriminate.
  - unfold is_atom in Ha. simpl in Ha. rewrite !andb_true_iff in Ha. destruct Ha as [[[_ _] _] Hc]. discriminate.
  - simpl in Hw. unfold is_atom in Ha. simpl in Ha. destruct s; discriminate.
Qed.

Lemma filter_all {A} (f : A -> bool) l : Forall (fun x => f x = true) l -> filter f l = l.
Proof. induction 1; simpl; [reflexivity|]. now rewrite H, IHForall. Qed.

Lemma is_bool_num s q : is_num_sort s = true -> is_bool (num s q) = false.
Proof. destruct s; try discriminate; reflexivity. Qed.

Section Eq.
  Variable leb : term -> term -> bool.
  Variable I : interp.

  Lemma mono_term_not_const s m : okatom (fst m) -> is_const (mono_term leb s m) = false.
  Proof.
    intros H. unfold mono_term. destruct (Qeq_bool (snd m) 1); [now apply okatom_not_const | reflexivity].
  Qed.

  Lemma to_term_not_const s ms : ms <> [] -> atoms_ok ms -> all_nonzero ms -> is_const (to_term leb s (ms, 0)) = false.
  Proof.
    intros Hne Hok Hnz. unfold to_term. simpl fst. simpl snd. rewrite (filter_all nonzero ms Hnz).
    change (Qeq_bool 0 0) with true. rewrite app_nil_r.
    destruct ms as [|m [|m' r]]; [congruence | | reflexivity].
    simpl. apply mono_term_not_const. now inversion Hok.
  Qed.

  Lemma eval_eq2' a b : eval I (TApp OEq [a; b]) = VB (veqb (eval I a) (eval I b)).
  Proof. simpl. now rewrite andb_true_r. Qed.

  (* Logic::mkBinaryEq on a numeric constant and a non-constant numeric term *)
  Lemma core_eq_num s q rhs t : is_num_sort s = true -> is_const rhs = false -> natom I rhs ->
    core_mkBinaryEq leb (num s q) rhs = Some t ->
    eval I t = VB (Qeq_bool q (aval I rhs)) /\ bok I t.
  Proof.
    intros Hs Hc Hn E. unfold core_mkBinaryEq in E.
    destruct (negb (sort_eqb (sort_of (num s q)) (sort_of rhs))); [discriminate|].
    destruct (term_eqb (num s q) rhs) eqn:Et.
    { apply term_eqb_eq in Et. subst rhs. discriminate. }
    rewrite Hc, andb_false_r in E. rewrite (is_bool_num s q Hs) in E. inversion E; subst t.
    assert (Hv : veqb (eval I (num s q)) (eval I rhs) = Qeq_bool q (aval I rhs)).
    { rewrite Hn. unfold num. cbn [eval veqb]. apply Qeqb_comp; [now rewrite !Qred_correct | apply Qred_correct]. }
    split.
    - destruct (tsort2 leb (num s q) rhs) as [-> | ->]; rewrite eval_eq2'; [now rewrite Hv | now rewrite veqb_sym, Hv].
    - apply bok_app_bool; [simpl; eexists; reflexivity | discriminate].
  Qed.

  Lemma msum_neg ms : msum I (map (fun m : mono => (fst m, - snd m)) ms) == - msum I ms.
  Proof.
    induction ms as [|m r IH]; [rewrite !msum_nil; ring|].
    simpl map. rewrite !msum_cons, IH. unfold mval. simpl. ring.
  Qed.

  Lemma nonzero_scale d ms : ~ d == 0 -> all_nonzero ms -> all_nonzero (scale_monos d ms).
  Proof.
    intros Hd H. unfold all_nonzero, scale_monos in *. apply Forall_map. eapply Forall_impl; [|exact H].
    intros m Hm. apply nonzero_spec in Hm. apply nonzero_spec. simpl. intros E. apply Hm.
    assert (E' : snd m == (snd m / d) * d) by (field; exact Hd). rewrite E', E. ring.
  Qed.
  Lemma nonzero_neg ms : all_nonzero ms -> all_nonzero (map (fun m : mono => (fst m, - snd m)) ms).
  Proof.
    intros H. unfold all_nonzero in *. apply Forall_map. eapply Forall_impl; [|exact H].
    intros m Hm. apply nonzero_spec in Hm. apply nonzero_spec. simpl. intros E. apply Hm. lra.
  Qed.
  Lemma neg_atoms P ms : atoms_P P ms -> atoms_P P (map (fun m : mono => (fst m, - snd m)) ms).
  Proof. intros H. apply Forall_map. exact H. Qed.

  (* p = 0 *)
  Lemma eq_of_poly_sound s p t :
    is_num_sort s = true -> atoms_ok (fst p) -> all_nonzero (fst p) -> int_atoms I s (fst p) ->
    eq_of_poly leb s p = Some t ->
    eval I t = VB (Qeq_bool (peval I p) 0) /\ bok I t.
  Proof.
    intros Hs Hok Hnz Hint E. destruct p as [ms c]. unfold eq_of_poly in E. simpl fst in *.
    unfold peval. simpl fst. simpl snd.
    destruct ms as [|m r].
    { inversion E; subst t. split; [|apply bok_TBool]. cbn [eval]. f_equal. apply Qeqb_comp; [|reflexivity].
      rewrite msum_nil. symmetry. apply Qplus_0_l. }
    assert (Hgen : forall d, norm_div leb s (m :: r) = Some d ->
              (if sort_eqb s SInt && negb (Q_is_int (- c / d)) then Some (TBool false)
               else
                let ms' := scale_monos d (m :: r) in
                let neg := negb (Qle_bool 0 (snd (lead_of leb m r))) in
                let ms'' := if neg then map (fun m0 : mono => (fst m0, - snd m0)) ms' else ms' in
                let lhs' := if neg then - (- c / d) else - c / d in
                core_mkBinaryEq leb (num s lhs') (to_term leb s (ms'', 0))) = Some t ->
              eval I t = VB (Qeq_bool (msum I (m :: r) + c) 0) /\ bok I t).
    { intros d Ed Et. pose proof (norm_div_pos leb s _ d Hnz Ed) as Hd.
      assert (Hd0 : ~ d == 0) by (intros E0; rewrite E0 in Hd; now apply Qlt_irrefl in Hd).
      set (S := msum I (m :: r)) in *.
      assert (HS : msum I (scale_monos d (m :: r)) == S / d) by (unfold S; now apply msum_scale_div).
      assert (Hkey : S + c == 0 <-> - c / d == S / d).
      { split; intros H.
        - assert (E1 : S == - c) by lra. rewrite E1. reflexivity.
        - assert (E1 : S == (S / d) * d) by (field; exact Hd0). rewrite E1, <- H. field. exact Hd0. }
      destruct (sort_eqb s SInt && negb (Q_is_int (- c / d))) eqn:Eint.
      { inversion Et; subst t. split; [|apply bok_TBool]. cbn [eval]. f_equal. symmetry.
        apply andb_true_iff in Eint. destruct Eint as [Es Eni]. apply sort_eqb_eq in Es. subst s.
        destruct (Qeq_bool (S + c) 0) eqn:Eq; [|reflexivity]. exfalso.
        apply Qeq_bool_eq, Hkey in Eq. apply negb_true_iff in Eni.
        assert (Hi : Q_is_int (- c / d) = true).
        { apply Q_is_int_spec. apply (Qint_comp (msum I (scale_monos d (m :: r)))); [rewrite HS; now symmetry|].
          now apply (scaled_int leb I). }
        congruence. }
      set (ms' := scale_monos d (m :: r)) in *.
      assert (Hok' : atoms_ok ms') by now apply scale_atoms.
      assert (Hnz' : all_nonzero ms') by now apply nonzero_scale.
      assert (Hne' : ms' <> []) by (unfold ms', scale_monos; simpl; discriminate).
      destruct (negb (Qle_bool 0 (snd (lead_of leb m r)))).
      - cbv zeta in Et.
        set (ms'' := map (fun m0 : mono => (fst m0, - snd m0)) ms') in *.
        assert (Hne'' : ms'' <> []) by (unfold ms'', ms', scale_monos; simpl; discriminate).
        destruct (core_eq_num s _ _ t Hs (to_term_not_const s ms'' Hne'' (neg_atoms _ _ Hok') (nonzero_neg _ Hnz'))
                    (natom_to_term leb I s (ms'', 0) (neg_atoms _ _ Hok')) Et) as [Hv Hk].
        split; [|exact Hk]. rewrite Hv. f_equal. apply Qeq_bool_ext.
        rewrite aval_to_term. unfold peval. simpl fst. simpl snd. unfold ms''. rewrite msum_neg.
        rewrite HS. rewrite Hkey. split; intros; lra.
      - cbv zeta in Et.
        destruct (core_eq_num s _ _ t Hs (to_term_not_const s ms' Hne' Hok' Hnz')
                    (natom_to_term leb I s (ms', 0) Hok') Et) as [Hv Hk].
        split; [|exact Hk]. rewrite Hv. f_equal. apply Qeq_bool_ext.
        rewrite aval_to_term. unfold peval. simpl fst. simpl snd. rewrite HS. rewrite Hkey.
        split; intros; lra. }
    destruct r as [|m2 r'].
    - destruct (Qeq_bool c 0) eqn:Ec.
      + apply Forall_cons_iff in Hok. destruct Hok as [Hm _].
        destruct (core_eq_num s 0 (fst m) t Hs (okatom_not_const _ Hm) (atom_natom I m Hm) E) as [Hv Hk].
        split; [|exact Hk]. rewrite Hv. f_equal. apply Qeq_bool_ext. apply Qeq_bool_eq in Ec.
        rewrite msum_cons, msum_nil. unfold mval.
        apply Forall_cons_iff in Hnz. destruct Hnz as [Hk0 _]. apply nonzero_spec in Hk0.
        split; intros H.
        * rewrite <- H, Ec. ring.
        * assert (H1 : snd m * aval I (fst m) == 0) by lra.
          apply Qmult_integral in H1. destruct H1 as [H1|H1]; [contradiction | now symmetry].
      + destruct (norm_div leb s [m]) as [d|] eqn:Ed; [|discriminate]. now apply (Hgen d eq_refl).
    - destruct (norm_div leb s (m :: m2 :: r')) as [d|] eqn:Ed.
      + apply (Hgen d eq_refl). destruct (Qeq_bool c 0); exact E.
      + destruct (Qeq_bool c 0); discriminate.
  Qed.

  Lemma num_veqb a b : wsort a = true -> wsort b = true -> is_num_sort (sort_of a) = true ->
    sort_of a = sort_of b -> veqb (eval I a) (eval I b) = Qeq_bool (aval I a) (aval I b).
  Proof.
    intros Wa Wb Hs Hab. rewrite (wsort_natom I a Wa Hs), (wsort_natom I b Wb) by (now rewrite <- Hab).
    cbn [veqb]. apply Qeqb_comp; apply Qred_correct.
  Qed.

  Lemma arith_mkBinaryEq_sound uf a b t : wf a = true -> wf b = true -> arith_mkBinaryEq leb uf a b = Some t ->
    eval I t = VB (veqb (eval I a) (eval I b)) /\ bok I t.
  Proof.
    intros Wa Wb E. unfold arith_mkBinaryEq in E.
    destruct (negb (sort_eqb (sort_of a) (sort_of b))) eqn:Hs; [discriminate|].
    apply negb_false_true, sort_eqb_eq in Hs.
    destruct (uf || negb (is_num_sort (sort_of a))) eqn:Hu; [now apply (core_mkBinaryEq_core leb I)|].
    apply orb_false_iff in Hu. destruct Hu as [_ Hn]. apply negb_false_true in Hn.
    pose proof (wf_wsort a Wa) as Wsa. pose proof (wf_wsort b Wb) as Wsb.
    rewrite (num_veqb a b Wsa Wsb Hn Hs).
    destruct (is_num_const a && is_num_const b) eqn:Ec.
    { apply andb_true_iff in Ec. destruct Ec as [Ca Cb]. inversion E; subst t. split; [|apply bok_TBool].
      cbn [eval]. f_equal. apply Qeqb_comp; symmetry; now apply is_num_const_val. }
    destruct (diff_poly a b) as [p|] eqn:Ep; [|discriminate].
    destruct (diff_poly_sound I a b p Wsa Wsb Hs Ep) as (Hv & Hok & Hnz & Hint).
    destruct (eq_of_poly_sound (sort_of a) p t Hn Hok Hnz Hint E) as [H1 H2]. split; [|exact H2].
    rewrite H1. f_equal. apply Qeq_bool_ext. rewrite Hv. split; intros; lra.
  Qed.

  Theorem mkEq_equiv uf args t : forallb wf args = true -> mkEq leb uf args = Some t ->
    eval I t = eval I (TApp OEq args).
  Proof. apply mkEq_gen_equiv. apply arith_mkBinaryEq_sound. Qed.

  Theorem mkDistinct_equiv uf expand args t :
    (forall a b, is_const a = true -> is_const b = true -> leb a b = true \/ leb b a = true) ->
    (forall a b c, is_const a = true -> is_const b = true -> is_const c = true ->
                   leb a b = true -> leb b c = true -> leb a c = true) ->
    (forall a b, is_const a = true -> is_const b = true -> leb a b = true -> leb b a = true -> a = b) ->
    forallb wf args = true ->
    (forall a b, In a args -> In b args -> sort_of a = sort_of b) ->
    mkDistinct leb uf expand args = Some t ->
    eval I t = eval I (TApp ODistinct args).
  Proof.
    intros H1 H2 H3. apply (mkDistinct_gen_equiv leb I (arith_mkBinaryEq leb uf) (arith_mkBinaryEq_sound uf) H1 H2 H3).
  Qed.
End Eq.

(* Literals that are spelled differently are different terms (the symbol name is the identity of a constant),
   so "two distinct constants => false" (Logic.cc:505) and "all constants => distinct" (Logic.cc:555) are wrong
   for arguments that are well formed except for the spelling (wf_nc): API literals "007" and "7". *)
Definition nc_seven : term := TNum SInt 7 4.     (* the Int literal spelled "007" *)
Definition nc_I : interp := {| vi := fun _ _ => VN 0; fi := fun _ _ => VN 0 |}.

Theorem mkEq_noncanonical_refuted :
  exists leb uf args I t, forallb wf_nc args = true /\ mkEq leb uf args = Some t /\
                          eval I t <> eval I (TApp OEq args).
Proof.
  exists (fun _ _ => true), true, [nc_seven; TNum SInt 7 0], nc_I. eexists.
  split; [reflexivity|]. split; [vm_compute; reflexivity|]. vm_compute. discriminate.
Qed.

Theorem mkDistinct_noncanonical_refuted :
  exists leb uf expand args I t, forallb wf_nc args = true /\ mkDistinct leb uf expand args = Some t /\
                                 eval I t <> eval I (TApp ODistinct args).
Proof.
  exists (fun _ _ => true), false, false, [nc_seven; TNum SInt 7 0; TNum SInt 8 0], nc_I. eexists.
  split; [reflexivity|]. split; [vm_compute; reflexivity|]. vm_compute. discriminate.
Qed.
