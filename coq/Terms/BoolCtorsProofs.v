(* C14: the Boolean / core constructors of BoolCtors.v return terms with the value of the operator applied
   to the arguments.  [leb] (the PTRef order) is arbitrary except where stated (mkDistinct on constants). *)
From Coq Require Import ZArith QArith Qround Qreduction List Bool Arith Lia Permutation Sorted.
From OsmtV.Terms Require Import TermSem BoolCtors BoolCtorsBase.
Import ListNotations.

Definition bval (I : interp) (t : term) : bool := asB (eval I t).

Definition not_nb (x : term) : Prop := match x with TApp ONot _ | TBool _ => False | _ => True end.

(* what the Boolean constructors need of an argument: it denotes a truth value, and it respects the mkNot
   invariant at its root.  Every well-formed term of sort Bool is such ([wf_bok]); so is every result of a
   constructor. *)
Definition bok (I : interp) (t : term) : Prop :=
  is_VB (eval I t) /\
  match t with TApp ONot [x] => is_VB (eval I x) /\ not_nb x | TApp ONot _ => False | _ => True end.

Lemma is_VB_eval I t : is_VB (eval I t) -> eval I t = VB (bval I t).
Proof. intros [b E]. unfold bval. now rewrite E. Qed.

Lemma wsort_bool_VB I t : wsort t = true -> is_bool t = true -> is_VB (eval I t).
Proof. intros Hw Hb. exists (asB (eval I t)). now apply eval_bool. Qed.

Lemma wf_bok I t : wsort t = true -> nfb t = true -> is_bool t = true -> bok I t.
Proof.
  intros Hw Hn Hb. split; [now apply wsort_bool_VB|].
  destruct t as [| | | |o args]; auto. destruct o; auto.
  destruct args as [|x [|? ?]]; [simpl in Hw; discriminate | |
    simpl in Hw; apply andb_true_iff in Hw; destruct Hw as [_ Hw]; destruct (sort_of x); discriminate].
  simpl in Hw, Hn. rewrite !andb_true_iff in Hw, Hn. destruct Hw as [[Hwx _] Hok]. destruct Hn as [_ Hn].
  split.
  - apply wsort_bool_VB; [exact Hwx|]. apply is_bool_sort. destruct (sort_of x); try discriminate; reflexivity.
  - destruct x as [| | | |o' ?]; simpl; auto; try discriminate. destruct o'; auto; discriminate.
Qed.

Lemma wf_parts t : wf t = true -> wsort t = true /\ nfb t = true /\ canonb t = true.
Proof. unfold wf. rewrite !andb_true_iff. tauto. Qed.

Lemma wf_is_bok I t : wf t = true -> is_bool t = true -> bok I t.
Proof. intros H Hb. destruct (wf_parts t H) as (H1 & H2 & _). now apply wf_bok. Qed.

Lemma not_nb_mkNot x : not_nb x -> mkNot_raw x = TApp ONot [x].
Proof.
  destruct x as [| | | |o args]; simpl; try tauto; try reflexivity.
  destruct o; try tauto; reflexivity.
Qed.

Lemma mkNot_raw_eval I t : bok I t -> eval I (mkNot_raw t) = VB (negb (bval I t)).
Proof.
  intros [Hv Hn]. unfold bval.
  destruct t as [| | | |o args]; try reflexivity.
  destruct o; try reflexivity. destruct args as [|x [|? ?]]; try reflexivity.
  destruct Hn as [[b Hx] _]. simpl. rewrite Hx. simpl. now rewrite negb_involutive.
Qed.

Lemma mkNot_raw_bok I t : bok I t -> bok I (mkNot_raw t).
Proof.
  intros [Hv Hn].
  assert (Hgen : not_nb t -> bok I (mkNot_raw t)).
  { intros Hnn. rewrite (not_nb_mkNot t Hnn). split; [simpl; eexists; reflexivity | split; assumption]. }
  destruct t as [| | | |o args]; try (apply Hgen; exact Logic.I).
  - split; [simpl; eexists; reflexivity | exact Logic.I].
  - destruct o; try (apply Hgen; exact Logic.I).
    destruct args as [|x [|? ?]]; try tauto.
    destruct Hn as [Hx Hnn]. simpl. split; [exact Hx|].
    destruct x as [| | | |o' a']; auto. destruct o'; auto. simpl in Hnn. tauto.
Qed.

Lemma mkNot_equiv I t r : wf t = true -> mkNot t = Some r -> eval I r = eval I (TApp ONot [t]).
Proof.
  unfold mkNot. intros Hwf E. destruct (is_bool t) eqn:Hb; [|discriminate]. inversion E; subst.
  rewrite mkNot_raw_eval by now apply wf_is_bok. reflexivity.
Qed.

(* ---------- literals ---------- *)
Definition lv (I : interp) (e : lit) : bool := if snd e then bval I (fst e) else negb (bval I (fst e)).
Definition okl (I : interp) (e : lit) : Prop :=
  (snd e = true -> bok I (fst e)) /\ (snd e = false -> not_nb (fst e) /\ is_VB (eval I (fst e))).

Lemma split_lit_val I t : bval I t = lv I (split_lit t).
Proof.
  unfold lv, bval. destruct t as [| | | |o args]; try reflexivity.
  destruct o; try reflexivity. destruct args as [|x [|? ?]]; reflexivity.
Qed.

Lemma split_lit_ok I t : bok I t -> okl I (split_lit t).
Proof.
  intros Hb. pose proof Hb as [Hv Hn]. unfold okl.
  destruct t as [| | | |o args]; try (simpl; split; [auto | discriminate]).
  destruct o; try (simpl; split; [auto | discriminate]).
  destruct args as [|x [|? ?]]; try tauto.
  simpl. split; [discriminate | tauto].
Qed.

Lemma lit_term_eval I e : okl I e -> eval I (lit_term e) = VB (lv I e).
Proof.
  intros [H1 H2]. unfold lit_term, lv. destruct e as [a sg]. simpl in *. destruct sg.
  - destruct (H1 eq_refl) as [Hv _]. now apply is_VB_eval.
  - destruct (H2 eq_refl) as [Hn _]. rewrite not_nb_mkNot by exact Hn. reflexivity.
Qed.

Lemma lit_term_bok I e : okl I e -> bok I (lit_term e).
Proof.
  intros [H1 H2]. unfold lit_term. destruct e as [a sg]. simpl in *. destruct sg.
  - now apply H1.
  - destruct (H2 eq_refl) as [Hn Hv]. rewrite not_nb_mkNot by exact Hn.
    split; [simpl; eexists; reflexivity | split; assumption].
Qed.

(* ---------- the scan loops ---------- *)
Definition pv (I : interp) (p : option lit) : bool := match p with Some q => lv I q | None => true end.

Lemma is_false_spec t : is_false t = true -> t = TBool false.
Proof. destruct t as [|[]| | |]; simpl; intros; try discriminate; reflexivity. Qed.
Lemma is_true_spec t : is_true t = true -> t = TBool true.
Proof. destruct t as [|[]| | |]; simpl; intros; try discriminate; reflexivity. Qed.

Lemma okl_const_sign I b sg : okl I (TBool b, sg) -> sg = true.
Proof. intros [_ H]. destruct sg; [reflexivity|]. simpl in H. destruct (H eq_refl) as [[] _]. Qed.

Lemma and_scan_sound I : forall l p, Forall (okl I) l ->
  match and_scan p l with
  | Some l' => pv I p && forallb (lv I) l' = pv I p && forallb (lv I) l /\ Forall (okl I) l'
  | None => pv I p && forallb (lv I) l = false
  end.
Proof.
  induction l as [|e r IH]; intros p Hl; simpl.
  - split; [reflexivity | constructor].
  - apply Forall_cons_iff in Hl. destruct Hl as [He Hr].
    destruct (is_false (fst e)) eqn:Ef.
    { apply is_false_spec in Ef. destruct e as [a sg]. simpl in Ef. subst a.
      pose proof (okl_const_sign I false sg He) as ->. unfold lv at 1. simpl. unfold bval. simpl.
      now rewrite andb_false_r. }
    destruct (is_true (fst e)) eqn:Et.
    { apply is_true_spec in Et. destruct e as [a sg]. simpl in Et. subst a.
      pose proof (okl_const_sign I true sg He) as ->.
      specialize (IH p Hr). destruct (and_scan p r) as [l'|].
      - destruct IH as [IH1 IH2]. split; [|exact IH2]. rewrite IH1. unfold lv at 3. simpl. reflexivity.
      - unfold lv at 1. simpl. exact IH. }
    assert (Hkeep : match option_map (cons e) (and_scan (Some e) r) with
                    | Some l' => forallb (lv I) l' = lv I e && forallb (lv I) r /\ Forall (okl I) l'
                    | None => lv I e && forallb (lv I) r = false
                    end).
    { specialize (IH (Some e) Hr). simpl in IH. destruct (and_scan (Some e) r) as [l'|]; simpl.
      - destruct IH as [IH1 IH2]. split; [exact IH1 | now constructor].
      - exact IH. }
    destruct p as [q|].
    + destruct (term_eqb (fst q) (fst e)) eqn:Eq.
      * apply term_eqb_eq in Eq. destruct (Bool.eqb (snd q) (snd e)) eqn:Es.
        -- apply eqb_prop in Es. assert (q = e) as -> by (destruct q, e; simpl in *; congruence).
           specialize (IH (Some e) Hr). simpl in IH. destruct (and_scan (Some e) r) as [l'|].
           ++ destruct IH as [IH1 IH2]. split; [|exact IH2]. simpl. rewrite IH1. now destruct (lv I e).
           ++ simpl. rewrite <- IH. now destruct (lv I e).
        -- apply eqb_false_iff in Es. simpl.
           assert (lv I e = negb (lv I q)) as ->.
           { unfold lv. rewrite <- Eq. destruct (snd q), (snd e); try congruence; now rewrite ?negb_involutive. }
           now destruct (lv I q).
      * destruct (option_map (cons e) (and_scan (Some e) r)) as [l'|].
        -- destruct Hkeep as [H1 H2]. split; [|exact H2]. simpl. now rewrite H1.
        -- simpl. rewrite Hkeep. apply andb_false_r.
    + destruct (option_map (cons e) (and_scan (Some e) r)) as [l'|].
      * destruct Hkeep as [H1 H2]. split; [|exact H2]. simpl. now rewrite H1.
      * simpl. exact Hkeep.
Qed.

Definition pvo (I : interp) (p : option lit) : bool := match p with Some q => lv I q | None => false end.

Lemma or_scan_sound I : forall l p, Forall (okl I) l ->
  match or_scan p l with
  | Some l' => pvo I p || existsb (lv I) l' = pvo I p || existsb (lv I) l /\ Forall (okl I) l'
  | None => pvo I p || existsb (lv I) l = true
  end.
Proof.
  induction l as [|e r IH]; intros p Hl; simpl.
  - split; [reflexivity | constructor].
  - apply Forall_cons_iff in Hl. destruct Hl as [He Hr].
    destruct (is_true (fst e)) eqn:Et.
    { apply is_true_spec in Et. destruct e as [a sg]. simpl in Et. subst a.
      pose proof (okl_const_sign I true sg He) as ->. unfold lv at 1. simpl. unfold bval. simpl.
      now rewrite orb_true_r. }
    destruct (is_false (fst e)) eqn:Ef.
    { apply is_false_spec in Ef. destruct e as [a sg]. simpl in Ef. subst a.
      pose proof (okl_const_sign I false sg He) as ->.
      specialize (IH p Hr). destruct (or_scan p r) as [l'|].
      - destruct IH as [IH1 IH2]. split; [|exact IH2]. rewrite IH1. unfold lv at 3. simpl. reflexivity.
      - unfold lv at 1. simpl. exact IH. }
    assert (Hkeep : match option_map (cons e) (or_scan (Some e) r) with
                    | Some l' => existsb (lv I) l' = lv I e || existsb (lv I) r /\ Forall (okl I) l'
                    | None => lv I e || existsb (lv I) r = true
                    end).
    { specialize (IH (Some e) Hr). simpl in IH. destruct (or_scan (Some e) r) as [l'|]; simpl.
      - destruct IH as [IH1 IH2]. split; [exact IH1 | now constructor].
      - exact IH. }
    destruct p as [q|].
    + destruct (term_eqb (fst q) (fst e)) eqn:Eq.
      * apply term_eqb_eq in Eq. destruct (Bool.eqb (snd q) (snd e)) eqn:Es.
        -- apply eqb_prop in Es. assert (q = e) as -> by (destruct q, e; simpl in *; congruence).
           specialize (IH (Some e) Hr). simpl in IH. destruct (or_scan (Some e) r) as [l'|].
           ++ destruct IH as [IH1 IH2]. split; [|exact IH2]. simpl. rewrite IH1. now destruct (lv I e).
           ++ simpl. rewrite <- IH. now destruct (lv I e).
        -- apply eqb_false_iff in Es. simpl.
           assert (lv I e = negb (lv I q)) as ->.
           { unfold lv. rewrite <- Eq. destruct (snd q), (snd e); try congruence; now rewrite ?negb_involutive. }
           now destruct (lv I q).
      * destruct (option_map (cons e) (or_scan (Some e) r)) as [l'|].
        -- destruct Hkeep as [H1 H2]. split; [|exact H2]. simpl. now rewrite H1.
        -- simpl. rewrite Hkeep. apply orb_true_r.
    + destruct (option_map (cons e) (or_scan (Some e) r)) as [l'|].
      * destruct Hkeep as [H1 H2]. split; [|exact H2]. simpl. now rewrite H1.
      * simpl. exact Hkeep.
Qed.

Lemma forallb_perm {A} (f : A -> bool) l l' : Permutation l l' -> forallb f l = forallb f l'.
Proof.
  induction 1; simpl; auto.
  - now rewrite IHPermutation.
  - now rewrite !andb_assoc, (andb_comm (f y)).
  - congruence.
Qed.
Lemma existsb_perm {A} (f : A -> bool) l l' : Permutation l l' -> existsb f l = existsb f l'.
Proof.
  induction 1; simpl; auto.
  - now rewrite IHPermutation.
  - now rewrite !orb_assoc, (orb_comm (f y)).
  - congruence.
Qed.

Lemma forallb_map' {A B} (f : B -> bool) (g : A -> B) l : forallb f (map g l) = forallb (fun x => f (g x)) l.
Proof. induction l; simpl; congruence. Qed.
Lemma existsb_map' {A B} (f : B -> bool) (g : A -> B) l : existsb f (map g l) = existsb (fun x => f (g x)) l.
Proof. induction l; simpl; congruence. Qed.
Lemma forallb_ext' {A} (f g : A -> bool) l : (forall x, In x l -> f x = g x) -> forallb f l = forallb g l.
Proof. induction l; simpl; intros H; [reflexivity|]. rewrite H by auto. rewrite IHl; auto. Qed.
Lemma existsb_ext' {A} (f g : A -> bool) l : (forall x, In x l -> f x = g x) -> existsb f l = existsb g l.
Proof. induction l; simpl; intros H; [reflexivity|]. rewrite H by auto. rewrite IHl; auto. Qed.

Lemma eval_and I args : eval I (TApp OAnd args) = VB (forallb (bval I) args).
Proof. simpl. now rewrite forallb_map'. Qed.
Lemma eval_or I args : eval I (TApp OOr args) = VB (existsb (bval I) args).
Proof. simpl. now rewrite existsb_map'. Qed.

Lemma bok_app_bool I o args : (exists b, eval I (TApp o args) = VB b) -> o <> ONot -> bok I (TApp o args).
Proof. intros H Ho. split; [exact H|]. destruct o; auto. congruence. Qed.

Lemma bok_TBool I b : bok I (TBool b).
Proof. split; [eexists; reflexivity | exact Logic.I]. Qed.

Section BoolProofs.
  Variable leb : term -> term -> bool.
  Variable I : interp.

  Lemma lits_val args : Forall (bok I) args ->
    forallb (lv I) (isort (lit_leb leb) (map split_lit args)) = forallb (bval I) args /\
    existsb (lv I) (isort (lit_leb leb) (map split_lit args)) = existsb (bval I) args /\
    Forall (okl I) (isort (lit_leb leb) (map split_lit args)).
  Proof.
    intros H. pose proof (isort_perm (lit_leb leb) (map split_lit args)) as Hp. repeat split.
    - rewrite (forallb_perm _ _ _ Hp), forallb_map'. apply forallb_ext'. intros x _. symmetry. apply split_lit_val.
    - rewrite (existsb_perm _ _ _ Hp), existsb_map'. apply existsb_ext'. intros x _. symmetry. apply split_lit_val.
    - eapply Permutation_Forall; [symmetry; exact Hp|]. apply Forall_map.
      eapply Forall_impl; [|exact H]. intros a Ha. now apply split_lit_ok.
  Qed.

  Lemma lits_terms_and l : Forall (okl I) l -> forallb (bval I) (map lit_term l) = forallb (lv I) l.
  Proof.
    intros H. rewrite forallb_map'. apply forallb_ext'. intros x Hx. unfold bval.
    rewrite lit_term_eval; [reflexivity|]. rewrite Forall_forall in H. now apply H.
  Qed.
  Lemma lits_terms_or l : Forall (okl I) l -> existsb (bval I) (map lit_term l) = existsb (lv I) l.
  Proof.
    intros H. rewrite existsb_map'. apply existsb_ext'. intros x Hx. unfold bval.
    rewrite lit_term_eval; [reflexivity|]. rewrite Forall_forall in H. now apply H.
  Qed.

  (* core statement, on [bok] arguments: value and the result is again [bok] *)
  Lemma mkAnd_core args t : Forall (bok I) args -> mkAnd leb args = Some t ->
    eval I t = VB (forallb (bval I) args) /\ bok I t.
  Proof.
    intros Hok E. unfold mkAnd in E. destruct args as [|a0 args'].
    { inversion E; subst. split; [reflexivity | apply bok_TBool]. }
    remember (a0 :: args') as args eqn:Ea. clear Ea.
    destruct (negb (forallb is_bool args)); [discriminate|].
    destruct (lits_val args Hok) as (Hv & _ & Hl).
    pose proof (and_scan_sound I _ None Hl) as Hs. simpl in Hs. rewrite Hv in Hs.
    destruct (and_scan None (isort (lit_leb leb) (map split_lit args))) as [l'|].
    - destruct Hs as [Hs Hl']. rewrite <- Hs.
      destruct l' as [|e [|e' l'']]; inversion E; subst.
      + split; [reflexivity | apply bok_TBool].
      + apply Forall_cons_iff in Hl'. destruct Hl' as [He _]. split.
        * rewrite lit_term_eval by exact He. simpl. now rewrite andb_true_r.
        * now apply lit_term_bok.
      + split.
        * rewrite eval_and. rewrite <- (lits_terms_and _ Hl'). reflexivity.
        * apply bok_app_bool; [rewrite eval_and; eexists; reflexivity | discriminate].
    - inversion E; subst. rewrite <- Hs. split; [reflexivity | apply bok_TBool].
  Qed.

  Lemma mkOr_core args t : Forall (bok I) args -> mkOr leb args = Some t ->
    eval I t = VB (existsb (bval I) args) /\ bok I t.
  Proof.
    intros Hok E. unfold mkOr in E. destruct args as [|a0 args'].
    { inversion E; subst. split; [reflexivity | apply bok_TBool]. }
    remember (a0 :: args') as args eqn:Ea. clear Ea.
    destruct (negb (forallb is_bool args)); [discriminate|].
    destruct (lits_val args Hok) as (_ & Hv & Hl).
    pose proof (or_scan_sound I _ None Hl) as Hs. simpl in Hs. rewrite Hv in Hs.
    destruct (or_scan None (isort (lit_leb leb) (map split_lit args))) as [l'|].
    - destruct Hs as [Hs Hl']. rewrite <- Hs.
      destruct l' as [|e [|e' l'']]; inversion E; subst.
      + split; [reflexivity | apply bok_TBool].
      + apply Forall_cons_iff in Hl'. destruct Hl' as [He _]. split.
        * rewrite lit_term_eval by exact He. simpl. now rewrite orb_false_r.
        * now apply lit_term_bok.
      + split.
        * rewrite eval_or. rewrite <- (lits_terms_or _ Hl'). reflexivity.
        * apply bok_app_bool; [rewrite eval_or; eexists; reflexivity | discriminate].
    - inversion E; subst. rewrite <- Hs. split; [reflexivity | apply bok_TBool].
  Qed.

  Lemma wf_args_bok args : forallb wf args = true -> forallb is_bool args = true -> Forall (bok I) args.
  Proof.
    rewrite !forallb_forall, Forall_forall. intros H1 H2 x Hx. apply wf_is_bok; auto.
  Qed.

  Lemma negb_false_true b : negb b = false -> b = true.
  Proof. now destruct b. Qed.

  Theorem mkAnd_equiv args t : forallb wf args = true -> mkAnd leb args = Some t ->
    eval I t = eval I (TApp OAnd args).
  Proof.
    intros Hwf E. rewrite eval_and.
    destruct args as [|a0 args']; [inversion E; reflexivity|].
    assert (Hb : forallb is_bool (a0 :: args') = true).
    { unfold mkAnd in E. destruct (negb (forallb is_bool (a0 :: args'))) eqn:Hn; [discriminate|]. now apply negb_false_true. }
    exact (proj1 (mkAnd_core _ _ (wf_args_bok _ Hwf Hb) E)).
  Qed.

  Theorem mkOr_equiv args t : forallb wf args = true -> mkOr leb args = Some t ->
    eval I t = eval I (TApp OOr args).
  Proof.
    intros Hwf E. rewrite eval_or.
    destruct args as [|a0 args']; [inversion E; reflexivity|].
    assert (Hb : forallb is_bool (a0 :: args') = true).
    { unfold mkOr in E. destruct (negb (forallb is_bool (a0 :: args'))) eqn:Hn; [discriminate|]. now apply negb_false_true. }
    exact (proj1 (mkOr_core _ _ (wf_args_bok _ Hwf Hb) E)).
  Qed.
End BoolProofs.

(* ---------- values ---------- *)
Lemma veqb_refl v : veqb v v = true.
Proof. destruct v; simpl; [apply eqb_reflx | apply Qeq_bool_refl | apply Nat.eqb_refl]. Qed.
Lemma veqb_sym a b : veqb a b = veqb b a.
Proof.
  destruct a, b; simpl; try reflexivity.
  - now destruct b, b0.
  - apply Qeq_bool_comm.
  - apply Nat.eqb_sym.
Qed.

Lemma const_distinct I a b :
  wf a = true -> wf b = true -> is_const a = true -> is_const b = true ->
  sort_of a = sort_of b -> a <> b -> veqb (eval I a) (eval I b) = false.
Proof.
  intros Ha Hb Ca Cb Hs Hne.
  destruct (wf_parts a Ha) as (Wa & _ & Na). destruct (wf_parts b Hb) as (Wb & _ & Nb).
  destruct a as [|x|s q sp|s c|]; try discriminate; destruct b as [|y|s' q' sp'|s' c'|]; try discriminate;
    simpl in *;
    try solve [subst; discriminate | subst; destruct s; discriminate | subst; destruct s'; discriminate].
  - destruct x, y; try reflexivity; congruence.
  - subst s'. apply andb_true_iff in Na, Nb. destruct Na as [Sa Qa], Nb as [Sb Qb].
    apply Nat.eqb_eq in Sa, Sb. apply Q_eqb_eq in Qa, Qb. subst sp sp'.
    destruct (Qeq_bool (Qred q) (Qred q')) eqn:E; [|reflexivity].
    apply Qeq_bool_eq in E. rewrite !Qred_correct in E. apply Qred_complete in E. congruence.
  - subst s'. destruct (Nat.eqb c c') eqn:E; [|reflexivity]. apply Nat.eqb_eq in E. congruence.
Qed.

Lemma chainb_map {A B} (r : B -> B -> bool) (g : A -> B) l :
  chainb r (map g l) = chainb (fun x y => r (g x) (g y)) l.
Proof.
  induction l as [|a t IH]; [reflexivity|]. destruct t as [|b t']; [reflexivity|].
  cbn in *. now rewrite IH.
Qed.

Lemma pairwiseb_perm {A} (r : A -> A -> bool) : (forall x y, r x y = r y x) ->
  forall l l', Permutation l l' -> pairwiseb r l = pairwiseb r l'.
Proof.
  intros Hs. induction 1; simpl; auto.
  - now rewrite (forallb_perm _ _ _ H), IHPermutation.
  - rewrite (Hs y x). destruct (r x y), (forallb (r y) l), (forallb (r x) l), (pairwiseb r l); reflexivity.
  - congruence.
Qed.

Lemma pairwise_all_pairs (f : term -> term -> bool) l :
  forallb (fun p => f (fst p) (snd p)) (all_pairs l) = pairwiseb f l.
Proof.
  induction l as [|a t IH]; [reflexivity|]. simpl. rewrite forallb_app, forallb_map', IH. reflexivity.
Qed.

Lemma all_pairs_in l p : In p (all_pairs l) -> In (fst p) l /\ In (snd p) l.
Proof.
  induction l as [|a t IH]; simpl; [tauto|]. rewrite in_app_iff, in_map_iff.
  intros [[x [<- Hx]] | H]; simpl; [tauto | destruct (IH H); tauto].
Qed.

Lemma pigeon_bool (r : list value) x y z :
  pairwiseb (fun a b => negb (veqb a b)) (VB x :: VB y :: VB z :: r) = false.
Proof. simpl. destruct x, y, z; simpl; rewrite ?andb_false_r, ?andb_false_l; reflexivity. Qed.

Lemma adjacent_dup_not_distinct I l : has_adjacent_dup l = true ->
  pairwiseb (fun a b => negb (veqb a b)) (map (eval I) l) = false.
Proof.
  induction l as [|a t IH]; [discriminate|]. destruct t as [|b t']; [discriminate|].
  simpl has_adjacent_dup. intros H. apply orb_true_iff in H. destruct H as [H|H].
  - apply term_eqb_eq in H. subst b. simpl. now rewrite veqb_refl.
  - specialize (IH H). simpl in IH |- *. rewrite IH. apply andb_false_r.
Qed.

Lemma sorted_nodup (leb : term -> term -> bool) (P : term -> Prop) l :
  (forall a b, P a -> P b -> leb a b = true -> leb b a = true -> a = b) ->
  Forall P l -> StronglySorted (fun a b => leb a b = true) l -> has_adjacent_dup l = false -> NoDup l.
Proof.
  intros Hanti HP Hs. induction Hs as [|a t Hs IH Ha]; intros Hd; [constructor|].
  apply Forall_cons_iff in HP. destruct HP as [Pa Pt].
  destruct t as [|b t'].
  - constructor; [intros [] | constructor].
  - simpl in Hd. apply orb_false_iff in Hd. destruct Hd as [Hab Hd].
    constructor; [| now apply IH].
    intros Hin. apply term_eqb_false in Hab. destruct Hin as [E|Hin]; [congruence|].
    (* a occurs later: then b <= a and a <= b *)
    apply Forall_cons_iff in Ha. destruct Ha as [Hlab _].
    inversion Hs as [|? ? _ Hb]; subst. rewrite Forall_forall in Hb. specialize (Hb a Hin).
    apply Forall_cons_iff in Pt. destruct Pt as [Pb _].
    apply Hab. now apply Hanti.
Qed.

Lemma nodup_consts_distinct I l :
  NoDup l -> Forall (fun t => wf t = true /\ is_const t = true) l ->
  (forall a b, In a l -> In b l -> sort_of a = sort_of b) ->
  pairwiseb (fun a b => negb (veqb a b)) (map (eval I) l) = true.
Proof.
  induction 1 as [|a t Hni Hnd IH]; intros Hc Hs; [reflexivity|].
  apply Forall_cons_iff in Hc. destruct Hc as [[Wa Ca] Ht].
  simpl. rewrite IH; [| exact Ht | intros; apply Hs; simpl; auto]. rewrite andb_true_r.
  rewrite forallb_map'. apply forallb_forall. intros b Hb.
  rewrite Forall_forall in Ht. destruct (Ht b Hb) as [Wb Cb].
  rewrite const_distinct; auto; [apply Hs; simpl; auto | intros ->; contradiction].
Qed.

Section BoolProofs2.
  Variable leb : term -> term -> bool.
  Variable I : interp.

  Lemma eval_xor2 a b : eval I (TApp OXor [a; b]) = VB (xorb (bval I a) (bval I b)).
  Proof. unfold bval. simpl. now destruct (asB (eval I a)). Qed.
  Lemma eval_impl2 a b : eval I (TApp OImpl [a; b]) = VB (implb (bval I a) (bval I b)).
  Proof. unfold bval. simpl. reflexivity. Qed.
  Lemma eval_eq2 a b : eval I (TApp OEq [a; b]) = VB (veqb (eval I a) (eval I b)).
  Proof. simpl. now rewrite andb_true_r. Qed.

  Lemma bval_TBool x : bval I (TBool x) = x.
  Proof. reflexivity. Qed.
  Ltac bfin := rewrite ?bval_TBool; repeat match goal with |- context [bval I ?x] => destruct (bval I x) end; reflexivity.

  Lemma bok_val t : bok I t -> eval I t = VB (bval I t).
  Proof. intros [H _]. now apply is_VB_eval. Qed.

  Lemma mkXor_core a b t : bok I a -> bok I b -> mkXor leb [a; b] = Some t ->
    eval I t = VB (xorb (bval I a) (bval I b)) /\ bok I t.
  Proof.
    intros Ha Hb E. unfold mkXor in E. destruct (negb (forallb is_bool [a; b])); [discriminate|].
    destruct (term_eqb a b) eqn:Eab.
    { apply term_eqb_eq in Eab. subst b. inversion E; subst. rewrite xorb_nilpotent. split; [reflexivity | apply bok_TBool]. }
    destruct (term_eqb a (mkNot_raw b)) eqn:Enb.
    { apply term_eqb_eq in Enb. inversion E; subst t. split; [|apply bok_TBool].
      unfold bval at 1. rewrite Enb, mkNot_raw_eval by exact Hb. simpl. now destruct (bval I b). }
    destruct (is_true a) eqn:Ta.
    { apply is_true_spec in Ta. subst a. inversion E; subst t. split; [rewrite mkNot_raw_eval by exact Hb; bfin | now apply mkNot_raw_bok]. }
    destruct (is_true b) eqn:Tb.
    { apply is_true_spec in Tb. subst b. inversion E; subst t.
      split; [rewrite mkNot_raw_eval by exact Ha; bfin | now apply mkNot_raw_bok]. }
    destruct (is_false a) eqn:Fa.
    { apply is_false_spec in Fa. subst a. inversion E; subst t. split; [rewrite (bok_val _ Hb); bfin | exact Hb]. }
    destruct (is_false b) eqn:Fb.
    { apply is_false_spec in Fb. subst b. inversion E; subst t.
      split; [rewrite (bok_val _ Ha); bfin | exact Ha]. }
    inversion E; subst t. destruct (tsort2 leb a b) as [-> | ->].
    - split; [apply eval_xor2 | apply bok_app_bool; [eexists; apply eval_xor2 | discriminate]].
    - split; [rewrite eval_xor2; now rewrite xorb_comm | apply bok_app_bool; [eexists; apply eval_xor2 | discriminate]].
  Qed.

  Theorem mkXor_equiv args t : forallb wf args = true -> mkXor leb args = Some t ->
    eval I t = eval I (TApp OXor args).
  Proof.
    intros Hwf E. pose proof E as E'. unfold mkXor in E'.
    destruct (negb (forallb is_bool args)) eqn:Hn; [discriminate|]. apply negb_false_true in Hn.
    destruct args as [|a [|b [|? ?]]]; try discriminate.
    pose proof (wf_args_bok I _ Hwf Hn) as Hok.
    apply Forall_cons_iff in Hok. destruct Hok as [Ha Hok]. apply Forall_cons_iff in Hok. destruct Hok as [Hb _].
    rewrite eval_xor2. exact (proj1 (mkXor_core a b t Ha Hb E)).
  Qed.

  Lemma mkImpl_core a b t : bok I a -> bok I b -> mkImpl leb [a; b] = Some t ->
    eval I t = VB (implb (bval I a) (bval I b)) /\ bok I t.
  Proof.
    intros Ha Hb E. unfold mkImpl in E. destruct (negb (forallb is_bool [a; b])); [discriminate|].
    destruct (is_false a) eqn:Fa.
    { apply is_false_spec in Fa. subst a. inversion E; subst t. split; [reflexivity | apply bok_TBool]. }
    destruct (is_true b) eqn:Tb.
    { apply is_true_spec in Tb. subst b. inversion E; subst t.
      split; [bfin | apply bok_TBool]. }
    destruct (is_true a && is_false b) eqn:Tf.
    { apply andb_true_iff in Tf. destruct Tf as [Ta Fb]. apply is_true_spec in Ta. apply is_false_spec in Fb. subst.
      inversion E; subst t. split; [reflexivity | apply bok_TBool]. }
    assert (Hargs : Forall (bok I) [mkNot_raw a; b]).
    { constructor; [now apply mkNot_raw_bok|]. constructor; [exact Hb | constructor]. }
    destruct (mkOr_core leb I _ _ Hargs E) as [Hv Hk]. split; [|exact Hk].
    rewrite Hv. simpl. unfold bval at 1. rewrite mkNot_raw_eval by exact Ha. simpl.
    rewrite orb_false_r. bfin.
  Qed.

  Theorem mkImpl_equiv args t : forallb wf args = true -> mkImpl leb args = Some t ->
    eval I t = eval I (TApp OImpl args).
  Proof.
    intros Hwf E. pose proof E as E'. unfold mkImpl in E'.
    destruct (negb (forallb is_bool args)) eqn:Hn; [discriminate|]. apply negb_false_true in Hn.
    destruct args as [|a [|b [|? ?]]]; try discriminate.
    pose proof (wf_args_bok I _ Hwf Hn) as Hok.
    apply Forall_cons_iff in Hok. destruct Hok as [Ha Hok]. apply Forall_cons_iff in Hok. destruct Hok as [Hb _].
    rewrite eval_impl2. exact (proj1 (mkImpl_core a b t Ha Hb E)).
  Qed.

  (* mkIte needs nothing of its arguments *)
  Theorem mkIte_equiv args t : mkIte args = Some t -> eval I t = eval I (TApp OIte args).
  Proof.
    unfold mkIte. destruct args as [|c [|a [|b [|? ?]]]]; try discriminate.
    destruct (negb (is_bool c)); [discriminate|].
    destruct (is_true c) eqn:Tc.
    { apply is_true_spec in Tc. subst c. intros E; inversion E; subst. reflexivity. }
    destruct (is_false c) eqn:Fc.
    { apply is_false_spec in Fc. subst c. intros E; inversion E; subst. reflexivity. }
    destruct (term_eqb a b) eqn:Eab.
    { apply term_eqb_eq in Eab. subst b. intros E; inversion E; subst. simpl. now destruct (asB (eval I c)). }
    destruct (negb (sort_eqb (sort_of a) (sort_of b))); [discriminate|].
    intros E; inversion E; subst. reflexivity.
  Qed.

  Lemma veqb_VB x y : veqb (VB x) (VB y) = Bool.eqb x y.
  Proof. reflexivity. Qed.

  (* Logic::mkBinaryEq *)
  Lemma core_mkBinaryEq_core a b t : wf a = true -> wf b = true -> core_mkBinaryEq leb a b = Some t ->
    eval I t = VB (veqb (eval I a) (eval I b)) /\ bok I t.
  Proof.
    intros Wa Wb E. unfold core_mkBinaryEq in E.
    destruct (negb (sort_eqb (sort_of a) (sort_of b))) eqn:Hs; [discriminate|].
    apply negb_false_true in Hs. apply sort_eqb_eq in Hs.
    destruct (term_eqb a b) eqn:Eab.
    { apply term_eqb_eq in Eab. subst b. inversion E; subst t. rewrite veqb_refl. split; [reflexivity | apply bok_TBool]. }
    apply term_eqb_false in Eab.
    destruct (is_const a && is_const b) eqn:Cc.
    { apply andb_true_iff in Cc. destruct Cc as [Ca Cb]. inversion E; subst t.
      rewrite const_distinct; auto. split; [reflexivity | apply bok_TBool]. }
    assert (Hfin : forall l, (l = [a; b] \/ l = [b; a]) ->
                   eval I (TApp OEq l) = VB (veqb (eval I a) (eval I b)) /\ bok I (TApp OEq l)).
    { intros l [-> | ->]; (split; [| apply bok_app_bool; [eexists; apply eval_eq2 | discriminate]]).
      - apply eval_eq2.
      - rewrite eval_eq2. now rewrite veqb_sym. }
    destruct (is_bool a) eqn:Ba.
    - assert (Bb : is_bool b = true) by (apply is_bool_sort; rewrite <- Hs; now apply is_bool_sort).
      pose proof (wf_is_bok I a Wa Ba) as Ha. pose proof (wf_is_bok I b Wb Bb) as Hb.
      rewrite (bok_val a Ha), (bok_val b Hb), veqb_VB.
      destruct (term_eqb a (mkNot_raw b)) eqn:Enb.
      { apply term_eqb_eq in Enb. inversion E; subst t. split; [|apply bok_TBool].
        unfold bval at 1. rewrite Enb, mkNot_raw_eval by exact Hb. simpl. now destruct (bval I b). }
      destruct (is_true a) eqn:Ta.
      { apply is_true_spec in Ta. subst a. inversion E; subst t. split; [|exact Hb].
        rewrite (bok_val b Hb). bfin. }
      destruct (is_true b) eqn:Tb.
      { apply is_true_spec in Tb. subst b. inversion E; subst t. split; [|exact Ha].
        rewrite (bok_val a Ha). bfin. }
      destruct (is_false a) eqn:Fa.
      { apply is_false_spec in Fa. subst a. inversion E; subst t. split; [|now apply mkNot_raw_bok].
        rewrite mkNot_raw_eval by exact Hb. bfin. }
      destruct (is_false b) eqn:Fb.
      { apply is_false_spec in Fb. subst b. inversion E; subst t. split; [|now apply mkNot_raw_bok].
        rewrite mkNot_raw_eval by exact Ha. bfin. }
      inversion E; subst t. rewrite <- veqb_VB, <- (bok_val a Ha), <- (bok_val b Hb). apply Hfin. now left.
    - inversion E; subst t. apply Hfin. apply tsort2.
  Qed.

  (* ---------- chains: mkEq and, in LinNorm, mkLeq/mkLt/mkGeq/mkGt ---------- *)
  Section Chain.
    Variable bin : term -> term -> option term.
    Variable r : value -> value -> bool.
    Hypothesis bin_ok : forall a b t, wf a = true -> wf b = true -> bin a b = Some t ->
      eval I t = VB (r (eval I a) (eval I b)) /\ bok I t.

    Lemma eq_chain_sound : forall l es, forallb wf l = true -> eq_chain bin l = Some es ->
      Forall (bok I) es /\ forallb (bval I) es = chainb r (map (eval I) l).
    Proof.
      induction l as [|a t IH]; intros es Hwf E; simpl in E.
      - inversion E; subst. split; [constructor | reflexivity].
      - destruct t as [|b t'].
        + inversion E; subst. split; [constructor | reflexivity].
        + simpl in Hwf. apply andb_true_iff in Hwf. destruct Hwf as [Wa Wt].
          assert (Wb : wf b = true) by (simpl in Wt; apply andb_true_iff in Wt; tauto).
          destruct (bin a b) as [e|] eqn:Eb; [|discriminate].
          destruct (eq_chain bin (b :: t')) as [es'|] eqn:Ec; [|discriminate].
          inversion E; subst es. destruct (IH es' Wt eq_refl) as [IH1 IH2].
          destruct (bin_ok a b e Wa Wb Eb) as [Hv Hk].
          split; [now constructor|]. cbn [forallb]. rewrite IH2. unfold bval at 1. rewrite Hv. reflexivity.
    Qed.

    Lemma chain_ctor_sound args t : forallb wf args = true ->
      match args with
      | [] | [_] => None
      | [a; b] => bin a b
      | _ => match eq_chain bin args with Some es => mkAnd leb es | None => None end
      end = Some t ->
      eval I t = VB (chainb r (map (eval I) args)) /\ bok I t.
    Proof.
      intros Hwf E. destruct args as [|a [|b [|c args']]]; try discriminate.
      - simpl in Hwf. rewrite !andb_true_iff in Hwf. destruct Hwf as (Wa & Wb & _).
        destruct (bin_ok a b t Wa Wb E) as [Hv Hk]. split; [|exact Hk]. rewrite Hv. simpl. now rewrite andb_true_r.
      - destruct (eq_chain bin (a :: b :: c :: args')) as [es|] eqn:Ec; [|discriminate].
        destruct (eq_chain_sound _ _ Hwf Ec) as [H1 H2].
        destruct (mkAnd_core leb I es t H1 E) as [Hv Hk]. split; [|exact Hk]. now rewrite Hv, H2.
    Qed.
  End Chain.

  Section EqDistinct.
    Variable beq : term -> term -> option term.
    Hypothesis beq_ok : forall a b t, wf a = true -> wf b = true -> beq a b = Some t ->
      eval I t = VB (veqb (eval I a) (eval I b)) /\ bok I t.

    Theorem mkEq_gen_equiv args t : forallb wf args = true -> mkEq_gen leb beq args = Some t ->
      eval I t = eval I (TApp OEq args).
    Proof.
      intros Hwf E. exact (proj1 (chain_ctor_sound beq veqb beq_ok args t Hwf E)).
    Qed.

    Definition nveqb (a b : value) : bool := negb (veqb a b).
    Lemma nveqb_sym a b : nveqb a b = nveqb b a.
    Proof. unfold nveqb. now rewrite veqb_sym. Qed.

    Lemma eval_distinct args : eval I (TApp ODistinct args) = VB (pairwiseb nveqb (map (eval I) args)).
    Proof. reflexivity. Qed.

    Lemma mkDistinct2_sound a b t : wf a = true -> wf b = true -> mkDistinct2 beq a b = Some t ->
      eval I t = VB (nveqb (eval I a) (eval I b)) /\ bok I t.
    Proof.
      intros Wa Wb E. unfold mkDistinct2 in E. destruct (beq a b) as [e|] eqn:Eb; [|discriminate].
      destruct (beq_ok a b e Wa Wb Eb) as [Hv Hk]. unfold mkNot in E. destruct (is_bool e); [|discriminate].
      inversion E; subst t. split; [|now apply mkNot_raw_bok].
      rewrite mkNot_raw_eval by exact Hk. unfold bval. now rewrite Hv.
    Qed.

    Lemma pairs_sound : forall ps ds, Forall (fun p => wf (fst p) = true /\ wf (snd p) = true) ps ->
      sequence (map (fun p => mkDistinct2 beq (fst p) (snd p)) ps) = Some ds ->
      Forall (bok I) ds /\ forallb (bval I) ds = forallb (fun p => nveqb (eval I (fst p)) (eval I (snd p))) ps.
    Proof.
      induction ps as [|p ps IH]; intros ds Hw E; simpl in E.
      - inversion E; subst. split; [constructor | reflexivity].
      - apply Forall_cons_iff in Hw. destruct Hw as [[W1 W2] Hw].
        destruct (mkDistinct2 beq (fst p) (snd p)) as [d|] eqn:Ed; [|discriminate].
        destruct (sequence (map (fun p => mkDistinct2 beq (fst p) (snd p)) ps)) as [ds'|] eqn:Es; [|discriminate].
        inversion E; subst ds. destruct (IH ds' Hw eq_refl) as [IH1 IH2].
        destruct (mkDistinct2_sound _ _ _ W1 W2 Ed) as [Hv Hk].
        split; [now constructor|]. simpl. rewrite IH2. unfold bval at 1. now rewrite Hv.
    Qed.

    (* the PTRef order restricted to constants is a total order (it is one on all terms in Logic; in
       ArithLogic, LessThan_deepPTRef compares constants by their own PTRef) *)
    Hypothesis leb_total_c : forall a b, is_const a = true -> is_const b = true -> leb a b = true \/ leb b a = true.
    Hypothesis leb_trans_c : forall a b c, is_const a = true -> is_const b = true -> is_const c = true ->
      leb a b = true -> leb b c = true -> leb a c = true.
    Hypothesis leb_antisym_c : forall a b, is_const a = true -> is_const b = true ->
      leb a b = true -> leb b a = true -> a = b.

    Theorem mkDistinct_gen_equiv expand args t :
      forallb wf args = true ->
      (forall a b, In a args -> In b args -> sort_of a = sort_of b) ->
      mkDistinct_gen leb beq expand args = Some t ->
      eval I t = eval I (TApp ODistinct args).
    Proof.
      intros Hwf Hsort E. rewrite eval_distinct. unfold mkDistinct_gen in E.
      destruct args as [|a0 [|a1 [|a2 args']]].
      - inversion E; subst. reflexivity.
      - inversion E; subst. reflexivity.
      - simpl in Hwf. rewrite !andb_true_iff in Hwf. destruct Hwf as (W0 & W1 & _).
        destruct (mkDistinct2_sound _ _ _ W0 W1 E) as [Hv _]. rewrite Hv. simpl. now rewrite !andb_true_r.
      - remember (a0 :: a1 :: a2 :: args') as args eqn:Ea.
        assert (Hwf' : Forall (fun t => wf t = true) args) by (apply Forall_forall; now apply forallb_forall).
        destruct (is_bool a0) eqn:B0.
        { inversion E; subst t.
          assert (Hb : forall x, In x args -> is_VB (eval I x)).
          { intros x Hx. rewrite Forall_forall in Hwf'. destruct (wf_parts x (Hwf' x Hx)) as (Wx & _ & _).
            apply wsort_bool_VB; [exact Wx|]. apply is_bool_sort. rewrite (Hsort x a0 Hx); [now apply is_bool_sort | subst; simpl; auto]. }
          subst args. destruct (Hb a0) as [x0 E0]; [simpl; auto|]. destruct (Hb a1) as [x1 E1]; [simpl; auto|].
          destruct (Hb a2) as [x2 E2]; [simpl; auto|].
          cbn [map eval]. rewrite E0, E1, E2. f_equal. symmetry. exact (pigeon_bool _ x0 x1 x2). }
        pose proof (tsort_perm leb args) as Hp.
        assert (Hps : pairwiseb nveqb (map (eval I) (tsort leb args)) = pairwiseb nveqb (map (eval I) args)).
        { apply pairwiseb_perm; [apply nveqb_sym | now apply Permutation_map]. }
        assert (Hws : Forall (fun t => wf t = true) (tsort leb args)).
        { eapply Permutation_Forall; [symmetry; exact Hp | exact Hwf']. }
        destruct (has_adjacent_dup (tsort leb args)) eqn:Hd.
        { inversion E; subst t. rewrite <- Hps. cbn [eval]. f_equal. symmetry. exact (adjacent_dup_not_distinct I _ Hd). }
        destruct (forallb is_const (tsort leb args)) eqn:Hc.
        { inversion E; subst t. rewrite <- Hps. cbn [eval]. f_equal. symmetry.
          assert (Hcs : Forall (fun t => is_const t = true) (tsort leb args)) by (apply Forall_forall; now apply forallb_forall).
          assert (Hca : Forall (fun t => is_const t = true) args) by (eapply Permutation_Forall; [exact Hp | exact Hcs]).
          apply nodup_consts_distinct.
          - apply (sorted_nodup leb (fun t => is_const t = true)); auto.
            apply (tsort_sorted leb (fun t => is_const t = true)); auto.
          - rewrite Forall_forall in *. intros x Hx. split; auto.
          - intros a b Ha Hb. apply Hsort; eapply Permutation_in; eauto. }
        destruct expand.
        + destruct (sequence _) as [ds|] eqn:Es; [|discriminate].
          assert (Hpw : Forall (fun p => wf (fst p) = true /\ wf (snd p) = true) (all_pairs (tsort leb args))).
          { apply Forall_forall. intros p Hin. destruct (all_pairs_in _ _ Hin) as [H1 H2].
            rewrite Forall_forall in Hws. split; now apply Hws. }
          destruct (pairs_sound _ _ Hpw Es) as [H1 H2].
          destruct (mkAnd_core leb I ds t H1 E) as [Hv _]. rewrite Hv, H2. f_equal.
          rewrite (pairwise_all_pairs (fun a b => nveqb (eval I a) (eval I b))). rewrite <- Hps.
          clear. induction (tsort leb args) as [|x l IHl]; [reflexivity|]. simpl. rewrite IHl, forallb_map'. reflexivity.
        + destruct (forallb (fun t0 => sort_eqb (sort_of t0) (sort_of a0)) args); [|discriminate].
          injection E as <-. rewrite eval_distinct. now rewrite Hps.
    Qed.
  End EqDistinct.

  Theorem core_mkEq_equiv args t : forallb wf args = true -> core_mkEq leb args = Some t ->
    eval I t = eval I (TApp OEq args).
  Proof. apply mkEq_gen_equiv. apply core_mkBinaryEq_core. Qed.
End BoolProofs2.
