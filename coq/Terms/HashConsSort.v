(* C28 — facts about the selection sort of minisat/mtl/Sort.h as modelled in HashCons.v *)
From Coq Require Import String List Arith Bool PeanoNat Sorted Permutation Lia.
From OsmtV.Terms Require Import HashCons.
Import ListNotations.

Lemma argmin_bound : forall lt l bv k, argmin lt bv l = Some k -> k < length l.
Proof.
  induction l as [|y l IH]; simpl; intros bv k H; [discriminate|].
  destruct (lt y bv).
  - injection H as <-. destruct (argmin lt y l) eqn:E; [apply IH in E|]; lia.
  - destruct (argmin lt bv l) eqn:E; simpl in H; [|discriminate]. injection H as <-. apply IH in E. lia.
Qed.

Lemma argmin_ext : forall lt1 lt2 l bv,
  (forall a b, In a (bv :: l) -> In b (bv :: l) -> lt1 a b = lt2 a b) -> argmin lt1 bv l = argmin lt2 bv l.
Proof.
  induction l as [|y l IH]; simpl; intros bv H; [reflexivity|].
  rewrite <- (H y bv) by auto. destruct (lt1 y bv).
  - rewrite (IH y); [reflexivity|]. intros a b Ha Hb. apply H; simpl in *; tauto.
  - rewrite (IH bv); [reflexivity|]. intros a b Ha Hb. apply H; simpl in *; tauto.
Qed.

Lemma replace_nth_length : forall k x l, length (replace_nth k x l) = length l.
Proof. induction k; destruct l; simpl; auto. Qed.

Lemma replace_nth_perm : forall k x l m, nth_error l k = Some m -> Permutation (m :: replace_nth k x l) (x :: l).
Proof.
  induction k; destruct l as [|y l]; simpl; intros m H; try discriminate.
  - injection H as ->. apply perm_swap.
  - apply IHk with (x := x) in H. rewrite perm_swap. rewrite H. apply perm_swap.
Qed.

Lemma nth_of_nth_error : forall (l : list nat) k m d, nth_error l k = Some m -> nth k l d = m.
Proof. induction l; destruct k; simpl; intros; try discriminate; [congruence | eauto]. Qed.

Lemma nth_error_of_bound : forall (l : list nat) k, k < length l -> exists m, nth_error l k = Some m.
Proof. intros l k H. destruct (nth_error l k) eqn:E; [eauto|]. apply nth_error_None in E. lia. Qed.

Lemma ssort_f_perm : forall lt fuel l, length l <= fuel -> Permutation (ssort_f lt fuel l) l.
Proof.
  induction fuel; intros l Hl; [destruct l; reflexivity|].
  destruct l as [|x r]; [reflexivity|]. simpl in *.
  destruct (argmin lt x r) as [k|] eqn:E.
  - destruct (nth_error_of_bound r k (argmin_bound _ _ _ _ E)) as [m Hm].
    rewrite (nth_of_nth_error _ _ _ x Hm).
    rewrite IHfuel by (rewrite replace_nth_length; lia).
    apply replace_nth_perm; assumption.
  - constructor. apply IHfuel. lia.
Qed.

Lemma ssort_perm : forall lt l, Permutation (ssort lt l) l.
Proof. intros. apply ssort_f_perm. reflexivity. Qed.

Lemma ssort_f_ext : forall lt1 lt2 fuel l,
  (forall a b, In a l -> In b l -> lt1 a b = lt2 a b) -> ssort_f lt1 fuel l = ssort_f lt2 fuel l.
Proof.
  induction fuel; intros l H; [reflexivity|].
  destruct l as [|x r]; [reflexivity|]. simpl.
  rewrite (argmin_ext lt1 lt2 r x H).
  destruct (argmin lt2 x r) as [k|] eqn:E.
  - f_equal. apply IHfuel. intros a b Ha Hb.
    destruct (nth_error_of_bound r k (argmin_bound _ _ _ _ E)) as [m Hm].
    pose proof (replace_nth_perm k x r m Hm) as P.
    apply H; apply (Permutation_in _ P); right; assumption.
  - f_equal. apply IHfuel. intros a b Ha Hb. apply H; right; assumption.
Qed.

Lemma ssort_ext : forall lt1 lt2 l,
  (forall a b, In a l -> In b l -> lt1 a b = lt2 a b) -> ssort lt1 l = ssort lt2 l.
Proof. intros. apply ssort_f_ext; assumption. Qed.

Section Order.
  Variable lt : nat -> nat -> bool.
  Hypothesis lt_irrefl : forall a, lt a a = false.
  Hypothesis lt_trans : forall a b c, lt a b = true -> lt b c = true -> lt a c = true.

  Lemma lt_asym : forall a b, lt a b = true -> lt b a = false.
  Proof.
    intros a b H. destruct (lt b a) eqn:E; [|reflexivity].
    rewrite <- (lt_irrefl a). symmetry. eapply lt_trans; eassumption.
  Qed.

  Lemma lt_neg_trans : forall y m b, lt y b = false -> lt m b = true -> lt y m = false.
  Proof.
    intros y m b H1 H2. destruct (lt y m) eqn:E; [|reflexivity].
    rewrite <- H1. symmetry. eapply lt_trans; eassumption.
  Qed.

  Lemma argmin_spec : forall l bv,
    match argmin lt bv l with
    | None => Forall (fun y => lt y bv = false) l
    | Some k => exists m, nth_error l k = Some m /\ lt m bv = true /\ Forall (fun y => lt y m = false) l
    end.
  Proof.
    induction l as [|y l IH]; intros bv; simpl; [constructor|].
    destruct (lt y bv) eqn:Hy.
    - specialize (IH y). destruct (argmin lt y l) as [k|].
      + destruct IH as (m & Hm & Hlt & Hall). exists m. repeat split; [assumption | eapply lt_trans; eassumption |].
        constructor; [apply lt_asym; assumption | assumption].
      + exists y. repeat split; [assumption|]. constructor; [apply lt_irrefl | assumption].
    - specialize (IH bv). destruct (argmin lt bv l) as [k|]; simpl.
      + destruct IH as (m & Hm & Hlt & Hall). exists m. repeat split; try assumption.
        constructor; [eapply lt_neg_trans; eassumption | assumption].
      + constructor; assumption.
  Qed.

  Definition le_of (a b : nat) : Prop := lt b a = false.

  Lemma ssort_f_sorted : forall fuel l, length l <= fuel -> StronglySorted le_of (ssort_f lt fuel l).
  Proof.
    induction fuel; intros l Hl.
    - destruct l; [constructor | simpl in Hl; lia].
    - destruct l as [|x r]; [constructor|]. simpl in *.
      pose proof (argmin_spec r x) as S.
      destruct (argmin lt x r) as [k|] eqn:E.
      + destruct S as (m & Hm & Hlt & Hall).
        rewrite (nth_of_nth_error _ _ _ x Hm).
        constructor; [apply IHfuel; rewrite replace_nth_length; lia|].
        pose proof (replace_nth_perm k x r m Hm) as P.
        rewrite Forall_forall. intros y Hy.
        assert (Hlen : length (replace_nth k x r) <= fuel) by (rewrite replace_nth_length; lia).
        apply (Permutation_in _ (ssort_f_perm lt fuel _ Hlen)) in Hy.
        assert (In y (x :: r)) as [<- | Hr] by (apply (Permutation_in _ P); right; assumption).
        * unfold le_of. apply lt_asym. assumption.
        * rewrite Forall_forall in Hall. apply Hall. assumption.
      + constructor; [apply IHfuel; lia|].
        rewrite Forall_forall. intros y Hy.
        assert (Hlen : length r <= fuel) by lia.
        apply (Permutation_in _ (ssort_f_perm lt fuel r Hlen)) in Hy.
        rewrite Forall_forall in S. apply S. assumption.
  Qed.

  Lemma ssort_sorted : forall l, StronglySorted le_of (ssort lt l).
  Proof. intros. apply ssort_f_sorted. reflexivity. Qed.

  Hypothesis lt_total : forall a b, a <> b -> lt a b = true \/ lt b a = true.

  Lemma sorted_perm_eq : forall l1 l2,
    StronglySorted le_of l1 -> StronglySorted le_of l2 -> Permutation l1 l2 -> l1 = l2.
  Proof.
    induction l1 as [|a l1 IH]; intros l2 S1 S2 P.
    - apply Permutation_nil in P. subst. reflexivity.
    - destruct l2 as [|b l2]; [apply Permutation_sym, Permutation_nil in P; discriminate|].
      inversion S1 as [|? ? S1' F1]; inversion S2 as [|? ? S2' F2]; subst.
      assert (a = b) as ->.
      { destruct (Nat.eq_dec a b) as [|Hne]; [assumption|].
        assert (In a (b :: l2)) as [?|Ha] by (apply (Permutation_in _ P); left; reflexivity); [congruence|].
        assert (In b (a :: l1)) as [?|Hb] by (apply (Permutation_in _ (Permutation_sym P)); left; reflexivity); [congruence|].
        rewrite Forall_forall in F1, F2. specialize (F1 _ Hb). specialize (F2 _ Ha). unfold le_of in *.
        destruct (lt_total a b Hne); congruence. }
      f_equal. apply IH; try assumption. eapply Permutation_cons_inv; eassumption.
  Qed.

  Lemma ssort_perm_eq : forall l1 l2, Permutation l1 l2 -> ssort lt l1 = ssort lt l2.
  Proof.
    intros l1 l2 P. apply sorted_perm_eq; try apply ssort_sorted.
    rewrite (ssort_perm lt l1), (ssort_perm lt l2). assumption.
  Qed.
End Order.

(* the three comparisons of the model are strict partial orders; two of them are total *)
Ltac b2p :=
  repeat match goal with
         | H : _ || _ = true |- _ => apply orb_true_iff in H
         | H : _ && _ = true |- _ => apply andb_true_iff in H
         | H : _ || _ = false |- _ => apply orb_false_iff in H
         | H : _ && _ = false |- _ => apply andb_false_iff in H
         | H : (_ <? _) = true |- _ => apply Nat.ltb_lt in H
         | H : (_ <? _) = false |- _ => apply Nat.ltb_ge in H
         | H : (_ =? _) = true |- _ => apply Nat.eqb_eq in H
         | H : (_ =? _) = false |- _ => apply Nat.eqb_neq in H
         | H : _ /\ _ |- _ => destruct H
         | H : _ \/ _ |- _ => destruct H
         end.

Lemma lex_lt_true : forall ka kb a b,
  ((ka <? kb) || ((ka =? kb) && (a <? b))) = true <-> (ka < kb \/ (ka = kb /\ a < b)).
Proof.
  intros. rewrite orb_true_iff, andb_true_iff, !Nat.ltb_lt, Nat.eqb_eq. tauto.
Qed.

Lemma term_lt_irrefl : forall m s a, term_lt m s a a = false.
Proof.
  intros m s a. destruct m; simpl.
  - apply Nat.ltb_irrefl.
  - apply Nat.ltb_irrefl.
  - rewrite !Nat.ltb_irrefl, andb_false_r. reflexivity.
Qed.

Lemma term_lt_trans : forall m s a b c, term_lt m s a b = true -> term_lt m s b c = true -> term_lt m s a c = true.
Proof.
  intros m s a b c. destruct m; simpl.
  - rewrite !Nat.ltb_lt. lia.
  - rewrite !Nat.ltb_lt. lia.
  - rewrite !lex_lt_true. lia.
Qed.

Definition total_mode (m : sortmode) : Prop := m <> SortDeep.

Lemma term_lt_total : forall m s a b, total_mode m -> a <> b -> term_lt m s a b = true \/ term_lt m s b a = true.
Proof.
  intros m s a b Hm Hab. destruct m; simpl; [| exfalso; apply Hm; reflexivity |].
  - rewrite !Nat.ltb_lt. lia.
  - rewrite !lex_lt_true. lia.
Qed.

Lemma tsort_perm : forall m s l, Permutation (tsort m s l) l.
Proof. intros. apply ssort_perm. Qed.

Lemma tsort_sorted : forall m s l, sorted_args m s (tsort m s l).
Proof. intros. apply (ssort_sorted (term_lt m s) (term_lt_irrefl m s) (term_lt_trans m s)). Qed.

Lemma tsort_perm_eq : forall m s l1 l2, total_mode m -> Permutation l1 l2 -> tsort m s l1 = tsort m s l2.
Proof.
  intros m s l1 l2 Hm P.
  apply (ssort_perm_eq (term_lt m s) (term_lt_irrefl m s) (term_lt_trans m s)); [|assumption].
  intros a b. apply term_lt_total. assumption.
Qed.
